(* Structural theorems about the gate-modifier methods (property C07): reported qubit counts and parameters,
   the normal form of every gate reachable by method calls, and replace_params commuting with the modifiers. *)
Require Import Coq.Arith.Arith Coq.ZArith.ZArith Coq.Lists.List Coq.Strings.String Coq.Bool.Bool Coq.micromega.Lia.
Require Import OQ.Circ.GateAst.
Import ListNotations.

Lemma obind_some {A B} (x : option A) (f : A -> option B) r :
  obind x f = Some r -> exists a, x = Some a /\ f a = Some r.
Proof. destruct x as [a|]; cbn; [eauto|discriminate]. Qed.

Section Struct.
  Variable P : Type.
  Variable pfree : P -> bool.
  Notation gate := (gate P).
  Notation has_free := (has_free pfree).
  Notation mk_exp := (mk_exp pfree).
  Notation mk_pow := (mk_pow pfree).
  Notation power := (power pfree).
  Notation dagger := (dagger pfree).
  Notation controlled := (controlled pfree).
  Notation replace_params := (replace_params pfree).
  Notation apply_mod := (apply_mod pfree).
  Notation apply_chain := (apply_chain pfree).
  Notation nf := (nf pfree).
  Notation wf := (wf pfree).

  Lemma mk_ctrl_some (g : gate) k r : mk_ctrl g k = Some r -> r = Ctrl g k /\ 1 <= k.
  Proof.
    unfold mk_ctrl. destruct (Nat.ltb_spec k 1) as [Hlt|Hge]; [discriminate|]. intro H. inversion H. split; [reflexivity|lia].
  Qed.
  Lemma mk_ctrl_ok (g : gate) k : 1 <= k -> mk_ctrl g k = Some (Ctrl g k).
  Proof. intro H. unfold mk_ctrl. destruct (Nat.ltb_spec k 1) as [Hlt|Hge]; [lia|reflexivity]. Qed.
  Lemma mk_exp_some g r : mk_exp g = Some r -> r = Exp g /\ has_free g = false.
  Proof. unfold GateAst.mk_exp. destruct (has_free g); [discriminate|]. intro H. inversion H. auto. Qed.
  Lemma mk_pow_some g e r : mk_pow g e = Some r -> r = Pow g e /\ has_free g = false.
  Proof. unfold GateAst.mk_pow. destruct (has_free g); [discriminate|]. intro H. inversion H. auto. Qed.

  Lemma has_free_params (g g' : gate) : params g' = params g -> has_free g' = has_free g.
  Proof. unfold GateAst.has_free. intros ->. reflexivity. Qed.

  (* ---------------------------------------------------------------- qubit counts and parameters *)
  Definition same_shape (g r : gate) : Prop := num_qubits r = num_qubits g /\ params r = params g.

  Lemma power_shape e g r : power e g = Some r -> same_shape g r.
  Proof.
    revert r. induction g as [n ps q h|w IH k|w IH|w IH|w IH e']; intros r H; cbn [GateAst.power] in H;
      try (apply mk_pow_some in H; destruct H as [-> _]; split; reflexivity).
    apply obind_some in H. destruct H as [pw [H1 H2]]. apply mk_ctrl_some in H2. destruct H2 as [-> _].
    destruct (IH _ H1) as [Hq Hp]. split; cbn [num_qubits params]; congruence.
  Qed.

  Lemma dagger_shape g r : dagger g = Some r -> same_shape g r.
  Proof.
    revert r. induction g as [n ps q h|w IH k|w IH|w IH|w IH e']; intros r H; cbn [GateAst.dagger] in H.
    - inversion H. destruct h; split; reflexivity.
    - apply obind_some in H. destruct H as [dw [H1 H2]]. apply mk_ctrl_some in H2. destruct H2 as [-> _].
      destruct (IH _ H1) as [Hq Hp]. split; cbn [num_qubits params]; congruence.
    - inversion H. subst. split; reflexivity.
    - apply obind_some in H. destruct H as [dw [H1 H2]]. apply mk_exp_some in H2. destruct H2 as [-> _].
      destruct (IH _ H1) as [Hq Hp]. split; cbn [num_qubits params]; congruence.
    - apply obind_some in H. destruct H as [dw [H1 H2]]. apply power_shape in H2.
      destruct (IH _ H1) as [Hq Hp]. destruct H2 as [Hq2 Hp2]. split; cbn [num_qubits params]; congruence.
  Qed.

  Lemma controlled_shape k g r : controlled k g = Some r ->
    num_qubits r = num_qubits g + k /\ params r = params g.
  Proof.
    revert r. induction g as [n ps q h|w IH k0|w IH|w IH|w IH e']; intros r H; cbn [GateAst.controlled] in H.
    - apply mk_ctrl_some in H. destruct H as [-> _]. split; reflexivity.
    - apply mk_ctrl_some in H. destruct H as [-> _]. split; cbn [num_qubits params]; [lia|reflexivity].
    - apply obind_some in H. destruct H as [c [H1 H2]]. apply dagger_shape in H2. destruct H2 as [Hq2 Hp2].
      destruct (IH _ H1) as [Hq Hp]. split; cbn [num_qubits params]; congruence.
    - apply mk_ctrl_some in H. destruct H as [-> _]. split; reflexivity.
    - apply obind_some in H. destruct H as [c [H1 H2]]. apply power_shape in H2. destruct H2 as [Hq2 Hp2].
      destruct (IH _ H1) as [Hq Hp]. split; cbn [num_qubits params]; congruence.
  Qed.

  Lemma apply_mod_shape m g r : apply_mod m g = Some r ->
    num_qubits r = num_qubits g + ctrl_count m /\ params r = params g.
  Proof.
    destruct m as [k| | |e]; cbn [GateAst.apply_mod ctrl_count]; intro H.
    - apply controlled_shape; exact H.
    - apply dagger_shape in H. destruct H. split; [lia|assumption].
    - apply mk_exp_some in H. destruct H as [-> _]. split; cbn [num_qubits params]; [lia|reflexivity].
    - apply power_shape in H. destruct H. split; [lia|assumption].
  Qed.

  Lemma chain_shape ms : forall g r, apply_chain ms g = Some r ->
    num_qubits r = num_qubits g + ctrl_total ms /\ params r = params g.
  Proof.
    induction ms as [|m ms IH]; intros g r H; cbn [GateAst.apply_chain ctrl_total] in *.
    - inversion H. split; [lia|reflexivity].
    - apply obind_some in H. destruct H as [g1 [H1 H2]]. apply apply_mod_shape in H1. apply IH in H2.
      destruct H1, H2. split; [lia|congruence].
  Qed.

  (* ---------------------------------------------------------------- validity is preserved *)
  Lemma wf_power e g r : wf g = true -> power e g = Some r -> wf r = true.
  Proof.
    revert r. induction g as [n ps q h|w IH k|w IH|w IH|w IH e']; intros r Hw H; cbn [GateAst.power] in H;
      try (apply mk_pow_some in H; destruct H as [-> Hf]; cbn [GateAst.wf]; rewrite Hf; cbn [negb andb]; exact Hw).
    apply obind_some in H. destruct H as [pw [H1 H2]]. apply mk_ctrl_some in H2. destruct H2 as [-> Hk].
    cbn [GateAst.wf] in *. apply andb_true_iff in Hw. destruct Hw as [_ Hw].
    rewrite (IH _ Hw H1). destruct (Nat.leb_spec 1 k); [reflexivity|lia].
  Qed.

  Lemma wf_dagger g r : wf g = true -> dagger g = Some r -> wf r = true.
  Proof.
    revert r. induction g as [n ps q h|w IH k|w IH|w IH|w IH e']; intros r Hw H; cbn [GateAst.dagger] in H.
    - inversion H. destruct h; reflexivity.
    - apply obind_some in H. destruct H as [dw [H1 H2]]. apply mk_ctrl_some in H2. destruct H2 as [-> Hk].
      cbn [GateAst.wf] in *. apply andb_true_iff in Hw. destruct Hw as [_ Hw].
      rewrite (IH _ Hw H1). destruct (Nat.leb_spec 1 k); [reflexivity|lia].
    - inversion H. subst. exact Hw.
    - apply obind_some in H. destruct H as [dw [H1 H2]]. apply mk_exp_some in H2. destruct H2 as [-> Hf].
      cbn [GateAst.wf] in *. apply andb_true_iff in Hw. destruct Hw as [_ Hw].
      rewrite Hf, (IH _ Hw H1). reflexivity.
    - apply obind_some in H. destruct H as [dw [H1 H2]].
      cbn [GateAst.wf] in Hw. apply andb_true_iff in Hw. destruct Hw as [_ Hw].
      exact (wf_power _ _ _ (IH _ Hw H1) H2).
  Qed.

  Lemma wf_controlled k g r : wf g = true -> controlled k g = Some r -> wf r = true.
  Proof.
    revert r. induction g as [n ps q h|w IH k0|w IH|w IH|w IH e']; intros r Hw H; cbn [GateAst.controlled] in H.
    - apply mk_ctrl_some in H. destruct H as [-> Hk]. cbn [GateAst.wf]. destruct (Nat.leb_spec 1 k); [reflexivity|lia].
    - apply mk_ctrl_some in H. destruct H as [-> Hk]. cbn [GateAst.wf] in *. apply andb_true_iff in Hw.
      destruct Hw as [_ Hw]. rewrite Hw. destruct (Nat.leb_spec 1 (k0 + k)); [reflexivity|lia].
    - apply obind_some in H. destruct H as [c [H1 H2]]. cbn [GateAst.wf] in Hw.
      exact (wf_dagger _ _ (IH _ Hw H1) H2).
    - apply mk_ctrl_some in H. destruct H as [-> Hk]. cbn [GateAst.wf] in *. rewrite Hw.
      destruct (Nat.leb_spec 1 k); [reflexivity|lia].
    - apply obind_some in H. destruct H as [c [H1 H2]]. cbn [GateAst.wf] in Hw. apply andb_true_iff in Hw.
      destruct Hw as [_ Hw]. exact (wf_power _ _ _ (IH _ Hw H1) H2).
  Qed.

  Lemma wf_apply_mod m g r : wf g = true -> apply_mod m g = Some r -> wf r = true.
  Proof.
    destruct m as [k| | |e]; cbn [GateAst.apply_mod]; intros Hw H.
    - exact (wf_controlled _ _ _ Hw H).
    - exact (wf_dagger _ _ Hw H).
    - apply mk_exp_some in H. destruct H as [-> Hf]. cbn [GateAst.wf]. rewrite Hf, Hw. reflexivity.
    - exact (wf_power _ _ _ Hw H).
  Qed.

  (* ---------------------------------------------------------------- normal form of reachable gates *)
  Fixpoint dag_nf (g : gate) : gate :=
    match g with
    | Base _ _ _ h => if h then g else Dag g
    | Ctrl w k => Ctrl (dag_nf w) k
    | Dag w => w
    | Exp w => Exp (dag_nf w)
    | Pow w e => Pow (dag_nf w) e
    end.

  Lemma nf_dag_inv w : nf (Dag w) = true -> exists n ps q, w = Base n ps q false.
  Proof.
    cbn [GateAst.nf]. destruct w as [n ps q h| | | |]; try discriminate. destruct h; [discriminate|]. eauto.
  Qed.

  Lemma dag_nf_params g : params (dag_nf g) = params g.
  Proof.
    induction g as [n ps q h|w IH k|w IH|w IH|w IH e']; cbn [dag_nf params]; try assumption; try reflexivity.
    destruct h; reflexivity.
  Qed.
  Lemma dag_nf_free g : has_free (dag_nf g) = has_free g.
  Proof. apply has_free_params, dag_nf_params. Qed.

  Lemma dag_nf_is_ctrl g : nf g = true -> is_ctrl (dag_nf g) = is_ctrl g.
  Proof.
    destruct g as [n ps q h|w k|w|w|w e']; intro H; cbn [dag_nf is_ctrl]; try reflexivity.
    - destruct h; reflexivity.
    - apply nf_dag_inv in H. destruct H as [n [ps [q ->]]]. reflexivity.
  Qed.

  Lemma dag_nf_nf g : nf g = true -> nf (dag_nf g) = true.
  Proof.
    induction g as [n ps q h|w IH k|w IH|w IH|w IH e']; intro H; cbn [dag_nf].
    - destruct h; reflexivity.
    - cbn [GateAst.nf] in *. apply andb_true_iff in H. destruct H as [H Hn]. apply andb_true_iff in H.
      destruct H as [Hk Hc]. rewrite Hk, (IH Hn), (dag_nf_is_ctrl _ Hn), Hc. reflexivity.
    - apply nf_dag_inv in H. destruct H as [n [ps [q ->]]]. reflexivity.
    - cbn [GateAst.nf] in *. apply andb_true_iff in H. destruct H as [Hf Hn].
      rewrite dag_nf_free, Hf, (IH Hn). reflexivity.
    - cbn [GateAst.nf] in *. apply andb_true_iff in H. destruct H as [H Hn]. apply andb_true_iff in H.
      destruct H as [Hf Hc]. rewrite dag_nf_free, Hf, (IH Hn), (dag_nf_is_ctrl _ Hn), Hc. reflexivity.
  Qed.

  Lemma dag_nf_invol g : nf g = true -> dag_nf (dag_nf g) = g.
  Proof.
    induction g as [n ps q h|w IH k|w IH|w IH|w IH e']; intro H; cbn [dag_nf].
    - destruct h; reflexivity.
    - cbn [GateAst.nf] in H. apply andb_true_iff in H. destruct H as [_ Hn]. rewrite (IH Hn). reflexivity.
    - apply nf_dag_inv in H. destruct H as [n [ps [q ->]]]. reflexivity.
    - cbn [GateAst.nf] in H. apply andb_true_iff in H. destruct H as [_ Hn]. rewrite (IH Hn). reflexivity.
    - cbn [GateAst.nf] in H. apply andb_true_iff in H. destruct H as [_ Hn]. rewrite (IH Hn). reflexivity.
  Qed.

  (* on normal forms the methods do not re-associate: they wrap, merge counts, or push one level *)
  Definition power_spec (e : exponent) (g : gate) : option gate :=
    match g with
    | Ctrl w k => if has_free w then None else Some (Ctrl (Pow w e) k)
    | _ => mk_pow g e
    end.
  Definition controlled_spec (k : nat) (g : gate) : option gate :=
    match g with
    | Ctrl w k0 => mk_ctrl w (k0 + k)
    | _ => mk_ctrl g k
    end.

  Lemma power_not_ctrl e g : is_ctrl g = false -> power e g = mk_pow g e.
  Proof. destruct g; cbn [is_ctrl GateAst.power]; intro H; [reflexivity|discriminate|reflexivity..]. Qed.

  Lemma nf_ctrl_inv w k : nf (Ctrl w k) = true -> 1 <= k /\ is_ctrl w = false /\ nf w = true.
  Proof.
    cbn [GateAst.nf]. intro H. apply andb_true_iff in H. destruct H as [H Hn]. apply andb_true_iff in H.
    destruct H as [Hk Hc]. apply Nat.leb_le in Hk. apply negb_true_iff in Hc. auto.
  Qed.
  Lemma nf_pow_inv w e : nf (Pow w e) = true -> has_free w = false /\ is_ctrl w = false /\ nf w = true.
  Proof.
    cbn [GateAst.nf]. intro H. apply andb_true_iff in H. destruct H as [H Hn]. apply andb_true_iff in H.
    destruct H as [Hf Hc]. apply negb_true_iff in Hf, Hc. auto.
  Qed.
  Lemma nf_exp_inv w : nf (Exp w) = true -> has_free w = false /\ nf w = true.
  Proof. cbn [GateAst.nf]. intro H. apply andb_true_iff in H. destruct H as [Hf Hn]. apply negb_true_iff in Hf. auto. Qed.

  Lemma power_nf e g : nf g = true -> power e g = power_spec e g.
  Proof.
    destruct g as [n ps q h|w k|w|w|w e']; intro H; try reflexivity.
    apply nf_ctrl_inv in H. destruct H as [Hk [Hc _]]. cbn [GateAst.power power_spec].
    rewrite (power_not_ctrl _ _ Hc). unfold GateAst.mk_pow. destruct (has_free w); [reflexivity|].
    cbn [obind]. apply mk_ctrl_ok, Hk.
  Qed.

  Lemma dagger_nf g : nf g = true -> dagger g = Some (dag_nf g).
  Proof.
    induction g as [n ps q h|w IH k|w IH|w IH|w IH e']; intro H; cbn [GateAst.dagger dag_nf].
    - reflexivity.
    - apply nf_ctrl_inv in H. destruct H as [Hk [_ Hn]]. rewrite (IH Hn). cbn [obind]. apply mk_ctrl_ok, Hk.
    - reflexivity.
    - apply nf_exp_inv in H. destruct H as [Hf Hn]. rewrite (IH Hn). cbn [obind]. unfold GateAst.mk_exp.
      rewrite dag_nf_free, Hf. reflexivity.
    - apply nf_pow_inv in H. destruct H as [Hf [Hc Hn]]. rewrite (IH Hn). cbn [obind].
      rewrite power_not_ctrl by (rewrite (dag_nf_is_ctrl _ Hn); exact Hc).
      unfold GateAst.mk_pow. rewrite dag_nf_free, Hf. reflexivity.
  Qed.

  Lemma controlled_nf k g : nf g = true -> controlled k g = controlled_spec k g.
  Proof.
    induction g as [n ps q h|w IH k0|w IH|w IH|w IH e']; intro H; try reflexivity.
    - apply nf_dag_inv in H. destruct H as [n [ps [q ->]]]. cbn [GateAst.controlled controlled_spec].
      unfold mk_ctrl. destruct (k <? 1) eqn:E; [reflexivity|]. cbn [obind GateAst.dagger]. unfold mk_ctrl. rewrite E. reflexivity.
    - apply nf_pow_inv in H. destruct H as [Hf [Hc Hn]]. cbn [GateAst.controlled controlled_spec].
      rewrite (IH Hn). assert (E : controlled_spec k w = mk_ctrl w k) by (destruct w; try reflexivity; discriminate).
      rewrite E. unfold mk_ctrl at 1. destruct (k <? 1) eqn:Ek; [unfold mk_ctrl; rewrite Ek; reflexivity|].
      cbn [obind GateAst.power]. rewrite (power_not_ctrl _ _ Hc). unfold GateAst.mk_pow. rewrite Hf. reflexivity.
  Qed.

  (* the methods preserve the normal form *)
  Lemma nf_power e g r : nf g = true -> power e g = Some r -> nf r = true.
  Proof.
    intros Hn H. rewrite (power_nf _ _ Hn) in H. destruct g as [n ps q h|w k|w|w|w e']; cbn [power_spec] in H;
      try (apply mk_pow_some in H; destruct H as [-> Hf]; cbn [GateAst.nf is_ctrl]; rewrite Hf; cbn [negb andb];
           exact Hn).
    destruct (has_free w) eqn:Hf; [discriminate|]. inversion H. subst r.
    destruct (nf_ctrl_inv _ _ Hn) as [Hk [Hc Hw]]. cbn [GateAst.nf is_ctrl]. rewrite Hf, Hc, Hw.
    destruct (Nat.leb_spec 1 k); [reflexivity|lia].
  Qed.
  Lemma nf_dagger g r : nf g = true -> dagger g = Some r -> nf r = true.
  Proof. intros Hn H. rewrite (dagger_nf _ Hn) in H. inversion H. apply dag_nf_nf, Hn. Qed.
  Lemma nf_ctrl_intro w k : 1 <= k -> is_ctrl w = false -> nf w = true -> nf (Ctrl w k) = true.
  Proof.
    intros Hk Hc Hw. cbn [GateAst.nf]. rewrite Hc, Hw. destruct (Nat.leb_spec 1 k); [reflexivity|lia].
  Qed.
  Lemma nf_controlled k g r : nf g = true -> controlled k g = Some r -> nf r = true.
  Proof.
    intros Hn H. rewrite (controlled_nf _ _ Hn) in H.
    destruct g as [n ps q h|w k0|w|w|w e']; cbn [controlled_spec] in H; apply mk_ctrl_some in H; destruct H as [-> Hk];
      try (apply nf_ctrl_intro; [exact Hk|reflexivity|exact Hn]).
    destruct (nf_ctrl_inv _ _ Hn) as [_ [Hc Hw]]. apply nf_ctrl_intro; [lia|exact Hc|exact Hw].
  Qed.
  Lemma nf_mk_exp g r : nf g = true -> mk_exp g = Some r -> nf r = true.
  Proof. intros Hn H. apply mk_exp_some in H. destruct H as [-> Hf]. cbn [GateAst.nf]. rewrite Hf, Hn. reflexivity. Qed.

  Lemma nf_apply_mod m g r : nf g = true -> apply_mod m g = Some r -> nf r = true.
  Proof.
    destruct m as [k| | |e]; cbn [GateAst.apply_mod]; intros Hn H.
    - exact (nf_controlled _ _ _ Hn H).
    - exact (nf_dagger _ _ Hn H).
    - exact (nf_mk_exp _ _ Hn H).
    - exact (nf_power _ _ _ Hn H).
  Qed.

  Lemma nf_apply_chain ms : forall g r, nf g = true -> apply_chain ms g = Some r -> nf r = true.
  Proof.
    induction ms as [|m ms IH]; intros g r Hn H; cbn [GateAst.apply_chain] in H.
    - inversion H. subst. exact Hn.
    - apply obind_some in H. destruct H as [g1 [H1 H2]]. exact (IH _ _ (nf_apply_mod _ _ _ Hn H1) H2).
  Qed.

  Lemma nf_wf g : nf g = true -> wf g = true.
  Proof.
    induction g as [n ps q h|w IH k|w IH|w IH|w IH e']; intro H; cbn [GateAst.wf].
    - reflexivity.
    - destruct (nf_ctrl_inv _ _ H) as [Hk [_ Hw]]. rewrite (IH Hw). destruct (Nat.leb_spec 1 k); [reflexivity|lia].
    - apply nf_dag_inv in H. destruct H as [n [ps [q ->]]]. reflexivity.
    - destruct (nf_exp_inv _ H) as [Hf Hw]. rewrite Hf, (IH Hw). reflexivity.
    - destruct (nf_pow_inv _ _ H) as [Hf [_ Hw]]. rewrite Hf, (IH Hw). reflexivity.
  Qed.

  (* replace_params rebuilds through the methods: its result is always in normal form *)
  Lemma replace_params_nf ps g r : replace_params ps g = Some r -> nf r = true.
  Proof.
    revert r. induction g as [n ps0 q h|w IH k|w IH|w IH|w IH e']; intros r H; cbn [GateAst.replace_params] in H.
    - inversion H. reflexivity.
    - apply obind_some in H. destruct H as [x [H1 H2]]. exact (nf_controlled _ _ _ (IH _ H1) H2).
    - apply obind_some in H. destruct H as [x [H1 H2]]. exact (nf_dagger _ _ (IH _ H1) H2).
    - apply obind_some in H. destruct H as [x [H1 H2]]. exact (nf_mk_exp _ _ (IH _ H1) H2).
    - apply obind_some in H. destruct H as [x [H1 H2]]. exact (nf_power _ _ _ (IH _ H1) H2).
  Qed.

  Lemma replace_params_params ps g r : replace_params ps g = Some r -> params r = ps /\ num_qubits r = num_qubits g.
  Proof.
    revert r. induction g as [n ps0 q h|w IH k|w IH|w IH|w IH e']; intros r H; cbn [GateAst.replace_params] in H.
    - inversion H. split; reflexivity.
    - apply obind_some in H. destruct H as [x [H1 H2]]. apply controlled_shape in H2. destruct (IH _ H1), H2.
      split; cbn [num_qubits]; congruence.
    - apply obind_some in H. destruct H as [x [H1 H2]]. apply dagger_shape in H2. destruct (IH _ H1), H2.
      split; cbn [num_qubits]; congruence.
    - apply obind_some in H. destruct H as [x [H1 H2]]. apply mk_exp_some in H2. destruct H2 as [-> _].
      destruct (IH _ H1). split; cbn [num_qubits params]; congruence.
    - apply obind_some in H. destruct H as [x [H1 H2]]. apply power_shape in H2. destruct (IH _ H1), H2.
      split; cbn [num_qubits]; congruence.
  Qed.

  (* ---------------------------------------------------------------- the methods commute on normal forms *)
  Lemma ctrl_ctrl_nf a b x : nf x = true -> 1 <= a ->
    obind (controlled a x) (controlled b) = controlled (a + b) x.
  Proof.
    intros Hn Ha. rewrite !(controlled_nf _ _ Hn).
    destruct x as [n ps q h|w k0|w|w|w e']; cbn [controlled_spec];
      try (rewrite (mk_ctrl_ok _ _ Ha); cbn [obind GateAst.controlled]; reflexivity).
    destruct (nf_ctrl_inv _ _ Hn) as [Hk _]. rewrite mk_ctrl_ok by lia. cbn [obind GateAst.controlled].
    rewrite Nat.add_assoc. reflexivity.
  Qed.

  Lemma controlled_spec_not_ctrl k x : is_ctrl x = false -> controlled_spec k x = mk_ctrl x k.
  Proof. destruct x; cbn [is_ctrl controlled_spec]; intro H; [reflexivity|discriminate|reflexivity..]. Qed.
  Lemma power_spec_not_ctrl e x : is_ctrl x = false -> power_spec e x = mk_pow x e.
  Proof. destruct x; cbn [is_ctrl power_spec]; intro H; [reflexivity|discriminate|reflexivity..]. Qed.
  Lemma is_ctrl_true_inv (x : gate) : is_ctrl x = true -> exists w k, x = Ctrl w k.
  Proof. destruct x; cbn [is_ctrl]; try discriminate. eauto. Qed.

  Lemma pow_ctrl_nf e k x : nf x = true ->
    obind (power e x) (controlled k) = obind (controlled k x) (power e).
  Proof.
    intro Hn. destruct (is_ctrl x) eqn:Ec.
    - apply is_ctrl_true_inv in Ec. destruct Ec as [w [k0 ->]].
      rewrite (power_nf _ _ Hn), (controlled_nf _ _ Hn).
      destruct (nf_ctrl_inv _ _ Hn) as [Hk [Hc _]]. cbn [power_spec controlled_spec].
      rewrite (mk_ctrl_ok w (k0 + k)) by lia. cbn [obind GateAst.power]. rewrite (power_not_ctrl _ _ Hc).
      unfold GateAst.mk_pow. destruct (has_free w); reflexivity.
    - rewrite (power_not_ctrl _ _ Ec), (controlled_nf _ _ Hn), (controlled_spec_not_ctrl _ _ Ec).
      unfold GateAst.mk_pow at 1. destruct (has_free x) eqn:Hf; cbn [obind].
      + unfold mk_ctrl. destruct (k <? 1); [reflexivity|]. cbn [obind GateAst.power].
        rewrite (power_not_ctrl _ _ Ec). unfold GateAst.mk_pow. rewrite Hf. reflexivity.
      + change (controlled k (Pow x e)) with (obind (controlled k x) (power e)).
        rewrite (controlled_nf _ _ Hn), (controlled_spec_not_ctrl _ _ Ec). reflexivity.
  Qed.

  Lemma dag_ctrl_nf k x : nf x = true ->
    obind (dagger x) (controlled k) = obind (controlled k x) dagger.
  Proof.
    intro Hn. rewrite (dagger_nf _ Hn). cbn [obind]. rewrite (controlled_nf _ _ (dag_nf_nf _ Hn)), (controlled_nf _ _ Hn).
    destruct (is_ctrl x) eqn:Ec.
    - apply is_ctrl_true_inv in Ec. destruct Ec as [w [k0 ->]].
      destruct (nf_ctrl_inv _ _ Hn) as [Hk [_ Hw]]. cbn [dag_nf controlled_spec].
      rewrite (mk_ctrl_ok w (k0 + k)) by lia. cbn [obind GateAst.dagger]. rewrite (dagger_nf _ Hw). reflexivity.
    - rewrite (controlled_spec_not_ctrl _ _ Ec).
      rewrite controlled_spec_not_ctrl by (rewrite (dag_nf_is_ctrl _ Hn); exact Ec).
      unfold mk_ctrl. destruct (k <? 1) eqn:Ek; [reflexivity|]. cbn [obind GateAst.dagger].
      rewrite (dagger_nf _ Hn). cbn [obind]. unfold mk_ctrl. rewrite Ek. reflexivity.
  Qed.

  Lemma dag_pow_nf e x : nf x = true ->
    obind (dagger x) (power e) = obind (power e x) dagger.
  Proof.
    intro Hn. rewrite (dagger_nf _ Hn). cbn [obind]. rewrite (power_nf _ _ (dag_nf_nf _ Hn)), (power_nf _ _ Hn).
    destruct (is_ctrl x) eqn:Ec.
    - apply is_ctrl_true_inv in Ec. destruct Ec as [w [k0 ->]].
      destruct (nf_ctrl_inv _ _ Hn) as [Hk [Hc Hw]]. cbn [dag_nf power_spec]. rewrite dag_nf_free.
      destruct (has_free w) eqn:Hf; [reflexivity|]. cbn [obind GateAst.dagger]. rewrite (dagger_nf _ Hw). cbn [obind].
      rewrite power_not_ctrl by (rewrite (dag_nf_is_ctrl _ Hw); exact Hc). unfold GateAst.mk_pow.
      rewrite dag_nf_free, Hf. cbn [obind]. symmetry. apply mk_ctrl_ok, Hk.
    - assert (Ed : is_ctrl (dag_nf x) = false) by (rewrite (dag_nf_is_ctrl _ Hn); exact Ec).
      rewrite (power_spec_not_ctrl _ _ Ec), (power_spec_not_ctrl _ _ Ed).
      unfold GateAst.mk_pow. rewrite dag_nf_free. destruct (has_free x) eqn:Hf; [reflexivity|].
      cbn [obind GateAst.dagger]. rewrite (dagger_nf _ Hn). cbn [obind]. rewrite (power_not_ctrl _ _ Ed).
      unfold GateAst.mk_pow. rewrite dag_nf_free, Hf. reflexivity.
  Qed.

  Lemma dag_exp_nf x : nf x = true -> obind (dagger x) mk_exp = obind (mk_exp x) dagger.
  Proof.
    intro Hn. rewrite (dagger_nf _ Hn). cbn [obind]. unfold GateAst.mk_exp. rewrite dag_nf_free.
    destruct (has_free x) eqn:Hf; [reflexivity|]. cbn [obind GateAst.dagger]. rewrite (dagger_nf _ Hn). cbn [obind].
    unfold GateAst.mk_exp. rewrite dag_nf_free, Hf. reflexivity.
  Qed.

  Lemma dag_dag_nf x : nf x = true -> obind (dagger x) dagger = Some x.
  Proof.
    intro Hn. rewrite (dagger_nf _ Hn). cbn [obind]. rewrite (dagger_nf _ (dag_nf_nf _ Hn)), (dag_nf_invol _ Hn).
    reflexivity.
  Qed.

  (* ---------------------------------------------------------------- replace_params commutes with every method *)
  Lemma replace_power ps e g g1 : power e g = Some g1 ->
    replace_params ps g1 = obind (replace_params ps g) (power e).
  Proof.
    revert g1. induction g as [n ps0 q h|w IH k|w IH|w IH|w IH e']; intros g1 H; cbn [GateAst.power] in H;
      try (apply mk_pow_some in H; destruct H as [-> _]; reflexivity).
    apply obind_some in H. destruct H as [pw [H1 H2]]. apply mk_ctrl_some in H2. destruct H2 as [-> Hk].
    cbn [GateAst.replace_params]. rewrite (IH _ H1).
    destruct (replace_params ps w) as [x|] eqn:Ex; [|reflexivity]. cbn [obind].
    apply pow_ctrl_nf. exact (replace_params_nf _ _ _ Ex).
  Qed.

  Lemma replace_dagger ps g g1 : dagger g = Some g1 ->
    replace_params ps g1 = obind (replace_params ps g) dagger.
  Proof.
    revert g1. induction g as [n ps0 q h|w IH k|w IH|w IH|w IH e']; intros g1 H; cbn [GateAst.dagger] in H.
    - inversion H. destruct h; reflexivity.
    - apply obind_some in H. destruct H as [dw [H1 H2]]. apply mk_ctrl_some in H2. destruct H2 as [-> Hk].
      cbn [GateAst.replace_params]. rewrite (IH _ H1).
      destruct (replace_params ps w) as [x|] eqn:Ex; [|reflexivity]. cbn [obind].
      apply dag_ctrl_nf. exact (replace_params_nf _ _ _ Ex).
    - inversion H. subst g1. cbn [GateAst.replace_params].
      destruct (replace_params ps w) as [x|] eqn:Ex; [|reflexivity]. cbn [obind].
      symmetry. apply dag_dag_nf. exact (replace_params_nf _ _ _ Ex).
    - apply obind_some in H. destruct H as [dw [H1 H2]]. apply mk_exp_some in H2. destruct H2 as [-> _].
      cbn [GateAst.replace_params]. rewrite (IH _ H1).
      destruct (replace_params ps w) as [x|] eqn:Ex; [|reflexivity]. cbn [obind].
      apply dag_exp_nf. exact (replace_params_nf _ _ _ Ex).
    - apply obind_some in H. destruct H as [dw [H1 H2]].
      rewrite (replace_power ps _ _ _ H2), (IH _ H1). cbn [GateAst.replace_params].
      destruct (replace_params ps w) as [x|] eqn:Ex; [|reflexivity]. cbn [obind].
      apply dag_pow_nf. exact (replace_params_nf _ _ _ Ex).
  Qed.

  Lemma replace_controlled ps k g g1 : wf g = true -> controlled k g = Some g1 ->
    replace_params ps g1 = obind (replace_params ps g) (controlled k).
  Proof.
    revert g1. induction g as [n ps0 q h|w IH k0|w IH|w IH|w IH e']; intros g1 Hw H; cbn [GateAst.controlled] in H.
    - apply mk_ctrl_some in H. destruct H as [-> _]. reflexivity.
    - apply mk_ctrl_some in H. destruct H as [-> _]. cbn [GateAst.replace_params].
      destruct (replace_params ps w) as [x|] eqn:Ex; [|reflexivity]. cbn [obind].
      cbn [GateAst.wf] in Hw. apply andb_true_iff in Hw. destruct Hw as [Hk _]. apply Nat.leb_le in Hk.
      symmetry. apply ctrl_ctrl_nf; [exact (replace_params_nf _ _ _ Ex)|exact Hk].
    - apply obind_some in H. destruct H as [c [H1 H2]]. cbn [GateAst.wf] in Hw.
      rewrite (replace_dagger ps _ _ H2), (IH _ Hw H1). cbn [GateAst.replace_params].
      destruct (replace_params ps w) as [x|] eqn:Ex; [|reflexivity]. cbn [obind].
      symmetry. apply dag_ctrl_nf. exact (replace_params_nf _ _ _ Ex).
    - apply mk_ctrl_some in H. destruct H as [-> _]. reflexivity.
    - apply obind_some in H. destruct H as [c [H1 H2]]. cbn [GateAst.wf] in Hw. apply andb_true_iff in Hw.
      destruct Hw as [_ Hw]. rewrite (replace_power ps _ _ _ H2), (IH _ Hw H1). cbn [GateAst.replace_params].
      destruct (replace_params ps w) as [x|] eqn:Ex; [|reflexivity]. cbn [obind].
      symmetry. apply pow_ctrl_nf. exact (replace_params_nf _ _ _ Ex).
  Qed.

  Theorem replace_params_mod ps m g g1 : wf g = true -> apply_mod m g = Some g1 ->
    replace_params ps g1 = obind (replace_params ps g) (apply_mod m).
  Proof.
    destruct m as [k| | |e]; cbn [GateAst.apply_mod]; intros Hw H.
    - exact (replace_controlled ps _ _ _ Hw H).
    - exact (replace_dagger ps _ _ H).
    - apply mk_exp_some in H. destruct H as [-> _]. reflexivity.
    - exact (replace_power ps _ _ _ H).
  Qed.

  Theorem replace_params_chain ps ms : forall g g1, wf g = true -> apply_chain ms g = Some g1 ->
    replace_params ps g1 = obind (replace_params ps g) (apply_chain ms).
  Proof.
    induction ms as [|m ms IH]; intros g g1 Hw H; cbn [GateAst.apply_chain] in H.
    - inversion H. subst. destruct (replace_params ps g1); reflexivity.
    - apply obind_some in H. destruct H as [g2 [H1 H2]].
      rewrite (IH _ _ (wf_apply_mod _ _ _ Hw H1) H2), (replace_params_mod ps _ _ _ Hw H1).
      destruct (replace_params ps g) as [x|]; reflexivity.
  Qed.
  (* ---------------------------------------------------------------- reachable gates, rejected calls *)
  (* a gate obtained from a built-in or custom gate by method calls *)
  Definition reachable (g : gate) : Prop :=
    exists n ps q h ms, apply_chain ms (Base n ps q h) = Some g.

  Theorem reachable_nf g : reachable g -> nf g = true.
  Proof. intros [n [ps [q [h [ms H]]]]]. exact (nf_apply_chain ms (Base n ps q h) g eq_refl H). Qed.

  Lemma has_free_power e g : has_free g = true -> power e g = None.
  Proof.
    induction g as [n ps q h|w IH k|w IH|w IH|w IH e']; intro H; cbn [GateAst.power];
      try (unfold GateAst.mk_pow; rewrite H; reflexivity).
    change (has_free (Ctrl w k)) with (has_free w) in H. rewrite (IH H). reflexivity.
  Qed.

  Theorem free_symbols_rejected e g : has_free g = true -> power e g = None /\ gexp pfree g = None.
  Proof.
    intro H. split; [apply has_free_power, H|]. unfold gexp, GateAst.mk_exp. rewrite H. reflexivity.
  Qed.

  (* ControlledGate(.., 0) is refused; on a gate that is already controlled, controlled(0) adds 0 to a valid count *)
  Theorem zero_controls_rejected g : nf g = true -> is_ctrl g = false -> controlled 0 g = None.
  Proof. intros Hn Hc. rewrite (controlled_nf _ _ Hn), (controlled_spec_not_ctrl _ _ Hc). reflexivity. Qed.
End Struct.
