(* Model of parameter binding (property C06): circuits/_operations.py (sub_symbols,
   get_free_symbols), _gates.py (bind / replace_params / free_symbols of MatrixFactoryGate,
   ControlledGate, Dagger, Power, Exponential and the methods .controlled/.dagger/.power/.exp
   they re-wrap with), _wavefunction_operations.py (MultiPhaseOperation, ResetOperation),
   _circuit.py (Circuit.bind, Circuit.free_symbols). *)
Require Import Coq.QArith.QArith Coq.Lists.List Coq.Strings.String Coq.Bool.Bool Coq.Arith.PeanoNat.
Require Import OQ.Serde.Expr.
Import ListNotations.

(* ---------------------------------------------------------------- parameters and maps *)

(* a value in a symbols map: a Python number or a sympy expression *)
Inductive val : Type := VNum (q : Q) | VExp (e : expr).
(* a gate parameter: Python number / bare sympy.Symbol / any other sympy expression *)
Inductive param : Type := PNum (q : Q) | PSym (s : string) | PExp (e : expr).

Definition smap := list (string * val).           (* dict in insertion order, keys unique *)

Definition val_expr (v : val) : expr := match v with VNum q => Num q | VExp e => e end.
Definition param_of_val (v : val) : param :=
  match v with
  | VNum q => PNum q
  | VExp (Sym s) => PSym s
  | VExp e => PExp e
  end.
Definition pexpr (p : param) : expr :=
  match p with PNum q => Num q | PSym s => Sym s | PExp e => e end.
Definition sub_of (m : smap) : sub := fun s => option_map val_expr (alookup s m).

(* sub_symbols: singledispatch on Number / sympy.Symbol / sympy.Expr *)
Definition sub_symbols (m : smap) (p : param) : param :=
  match p with
  | PNum q => PNum q                                               (* number: returned as is *)
  | PSym s => match alookup s m with                               (* symbols_map.get(p, p) *)
              | Some v => param_of_val v
              | None => PSym s
              end
  | PExp e => PExp (subst (sub_of m) e)                            (* p.subs(symbols_map) *)
  end.

(* free symbols of one parameter: only sympy expressions contribute *)
Definition pfree (p : param) : list string :=
  match p with PNum _ => [] | PSym s => [s] | PExp e => free e end.

(* first-appearance de-duplication (Circuit.free_symbols) *)
Fixpoint dedup_first (seen : list string) (l : list string) : list string :=
  match l with
  | [] => []
  | x :: r => if mem x seen then dedup_first seen r else x :: dedup_first (x :: seen) r
  end.
(* sorted(set(...), key=str): strings compare by code point *)
Fixpoint insert (s : string) (l : list string) : list string :=
  match l with
  | [] => [s]
  | x :: r => if String.leb s x then s :: l else x :: insert s r
  end.
Definition isort (l : list string) : list string := fold_right insert [] l.
Definition get_free_symbols (ps : list param) : list string :=
  isort (dedup_first [] (flat_map pfree ps)).

(* ---------------------------------------------------------------- gates *)

Record cdef : Type := {                 (* CustomGateDefinition *)
  cname : string;
  cformals : list string;               (* params_ordering *)
  crows : list (list expr);             (* the stored symbolic matrix *)
  cnq : nat }.

Inductive gate : Type :=
| Builtin (name : string) (herm : bool) (nq : nat) (ps : list param)   (* MatrixFactoryGate, library factory *)
| Custom (d : cdef) (ps : list param)                                  (* MatrixFactoryGate, CustomGateMatrixFactory *)
| Controlled (k : nat) (g : gate)
| Dagger (g : gate)
| Power (g : gate) (e : Q)
| Exponential (g : gate).

Inductive err : Type := ENotImplemented | EValue | EType.
Inductive res (A : Type) : Type := Ok (a : A) | Err (e : err).
Arguments Ok {A} a.
Arguments Err {A} e.
Definition rbind {A B} (r : res A) (f : A -> res B) : res B :=
  match r with Ok a => f a | Err e => Err e end.
Definition rmap {A B} (f : A -> B) (r : res A) : res B :=
  match r with Ok a => Ok (f a) | Err e => Err e end.
Fixpoint rmapM {A B} (f : A -> res B) (l : list A) : res (list B) :=
  match l with
  | [] => Ok []
  | x :: r => match f x with
              | Err e => Err e
              | Ok y => match rmapM f r with Err e => Err e | Ok ys => Ok (y :: ys) end
              end
  end.

(* .params of every wrapper is the innermost gate's *)
Fixpoint gate_params (g : gate) : list param :=
  match g with
  | Builtin _ _ _ ps => ps
  | Custom _ ps => ps
  | Controlled _ w => gate_params w
  | Dagger w => gate_params w
  | Power w _ => gate_params w
  | Exponential w => gate_params w
  end.
Definition gate_free (g : gate) : list string := get_free_symbols (gate_params g).
Definition has_free (g : gate) : bool := match gate_free g with [] => false | _ => true end.

(* the methods the wrappers re-wrap with *)
Fixpoint power (g : gate) (e : Q) : res gate :=
  match g with
  | Controlled k w => rmap (Controlled k) (power w e)            (* ControlledGate.power *)
  | _ => if has_free g then Err EValue else Ok (Power g e)       (* Power.__post_init__ *)
  end.
Definition gexp (g : gate) : res gate :=
  if has_free g then Err EValue else Ok (Exponential g).         (* Exponential.__post_init__ *)
Fixpoint dagger (g : gate) : res gate :=
  match g with
  | Builtin _ herm _ _ => if herm then Ok g else Ok (Dagger g)
  | Custom _ _ => Ok (Dagger g)                                  (* is_hermitian defaults to False *)
  | Controlled k w => rmap (Controlled k) (dagger w)
  | Dagger w => Ok w
  | Power w e => rbind (dagger w) (fun w' => power w' e)
  | Exponential w => rbind (dagger w) gexp
  end.
Definition mk_controlled (k : nat) (g : gate) : res gate :=
  if k <? 1 then Err EValue else Ok (Controlled k g).            (* ControlledGate.__post_init__ *)
Fixpoint controlled (k : nat) (g : gate) : res gate :=
  match g with
  | Builtin _ _ _ _ | Custom _ _ => mk_controlled k g
  | Controlled k' w => mk_controlled (k' + k) w
  | Dagger w => rbind (controlled k w) dagger
  | Power w e => rbind (controlled k w) (fun c => power c e)
  | Exponential _ => mk_controlled k g
  end.

Fixpoint bind (m : smap) (g : gate) : res gate :=
  match g with
  | Builtin n h q ps => Ok (Builtin n h q (map (sub_symbols m) ps))
  | Custom d ps => Ok (Custom d (map (sub_symbols m) ps))
  | Controlled k w => rbind (bind m w) (controlled k)
  | Dagger w => rbind (bind m w) dagger
  | Power _ _ => Err ENotImplemented
  | Exponential _ => Err ENotImplemented
  end.

Fixpoint replace_params (ps : list param) (g : gate) : res gate :=
  match g with
  | Builtin n h q _ => Ok (Builtin n h q ps)
  | Custom d _ => Ok (Custom d ps)
  | Controlled k w => rbind (replace_params ps w) (controlled k)
  | Dagger w => rbind (replace_params ps w) dagger
  | Power w e => rbind (replace_params ps w) (fun w' => power w' e)
  | Exponential w => rbind (replace_params ps w) gexp
  end.

(* Power / Exponential anywhere on the wrapper chain *)
Fixpoint has_pe (g : gate) : bool :=
  match g with
  | Builtin _ _ _ _ | Custom _ _ => false
  | Controlled _ w => has_pe w
  | Dagger w => has_pe w
  | Power _ _ | Exponential _ => true
  end.
(* every ControlledGate was constructed with at least one control qubit *)
Fixpoint wf_gate (g : gate) : bool :=
  match g with
  | Builtin _ _ _ _ | Custom _ _ => true
  | Controlled k w => (1 <=? k) && wf_gate w
  | Dagger w => wf_gate w
  | Power w _ => wf_gate w
  | Exponential w => wf_gate w
  end.
(* apply f to the innermost gate's parameters, keeping the wrappers *)
Fixpoint gmap (f : param -> param) (g : gate) : gate :=
  match g with
  | Builtin n h q ps => Builtin n h q (map f ps)
  | Custom d ps => Custom d (map f ps)
  | Controlled k w => Controlled k (gmap f w)
  | Dagger w => Dagger (gmap f w)
  | Power w e => Power (gmap f w) e
  | Exponential w => Exponential (gmap f w)
  end.
(* rebuilding through the methods: what bind does to the wrapper structure *)
Fixpoint norm (g : gate) : res gate :=
  match g with
  | Builtin _ _ _ _ | Custom _ _ => Ok g
  | Controlled k w => rbind (norm w) (controlled k)
  | Dagger w => rbind (norm w) dagger
  | Power _ _ => Err ENotImplemented
  | Exponential _ => Err ENotImplemented
  end.
(* the wrapper shapes that the methods produce *)
Definition leafb (g : gate) : bool :=
  match g with Builtin _ _ _ _ | Custom _ _ => true | _ => false end.
Definition nonherm_leafb (g : gate) : bool :=
  match g with Builtin _ h _ _ => negb h | Custom _ _ => true | _ => false end.
Definition dleafb (g : gate) : bool :=
  match g with Dagger l => nonherm_leafb l | _ => leafb g end.
Definition nfb (g : gate) : bool :=
  match g with
  | Controlled k w => (1 <=? k) && dleafb w
  | _ => dleafb g
  end.

(* ---------------------------------------------------------------- operations and circuits *)

Inductive op : Type :=
| GateOp (g : gate) (qs : list nat)
| MultiPhase (ps : list param)
| Reset (q : nat) (ps : list param).

Definition op_params (o : op) : list param :=
  match o with GateOp g _ => gate_params g | MultiPhase ps => ps | Reset _ ps => ps end.
Definition op_free (o : op) : list string := get_free_symbols (op_params o).
Definition op_bind (m : smap) (o : op) : res op :=
  match o with
  | GateOp g qs => rmap (fun g' => GateOp g' qs) (bind m g)
  | MultiPhase ps => Ok (MultiPhase (map (sub_symbols m) ps))
  | Reset q ps => Ok (Reset q (map (sub_symbols m) ps))
  end.

Record circuit : Type := { ops : list op; width : nat }.
Definition circuit_bind (m : smap) (c : circuit) : res circuit :=
  rmap (fun os => {| ops := os; width := width c |}) (rmapM (op_bind m) (ops c)).
Definition circuit_free (c : circuit) : list string :=
  dedup_first [] (flat_map op_free (ops c)).
Definition circuit_params (c : circuit) : list param := flat_map op_params (ops c).
Definition circuit_app (c1 c2 : circuit) : circuit :=
  {| ops := ops c1 ++ ops c2; width := Nat.max (width c1) (width c2) |}.

(* ---------------------------------------------------------------- meaning *)

(* the matrix operations the wrappers use, with the laws the re-wrapping relies on *)
Record matalg (R : Type) : Type := {
  mat : Type;
  meq : mat -> mat -> Prop;
  of_rows : nat -> list (list R) -> mat;         (* a custom gate's matrix from its entries *)
  adj : mat -> mat;                              (* Dagger.matrix *)
  ctrl : nat -> mat -> mat;                      (* ControlledGate.matrix *)
  mpow : Q -> mat -> mat;
  mexp : mat -> mat;
  meq_refl : forall a, meq a a;
  meq_sym : forall a b, meq a b -> meq b a;
  meq_trans : forall a b c, meq a b -> meq b c -> meq a c;
  adj_proper : forall a b, meq a b -> meq (adj a) (adj b);
  ctrl_proper : forall k a b, meq a b -> meq (ctrl k a) (ctrl k b);
  adj_adj : forall a, meq (adj (adj a)) a;
  ctrl_ctrl : forall k k' a, meq (ctrl k (ctrl k' a)) (ctrl (k' + k) a);
  adj_ctrl : forall k a, meq (adj (ctrl k a)) (ctrl k (adj a)) }.

Section ParamSem.
  Variable R : Type.
  Variable ofQ : Q -> R.
  Variables radd rmul rpow : R -> R -> R.
  Variables rzero rone : R.
  Variable rfun : string -> list R -> R.
  Notation ev := (ev R ofQ radd rmul rpow rzero rone rfun).

  Definition pev (en : env R) (p : param) : R := ev en (pexpr p).

  (* CustomGateMatrixFactory.__call__: dict(zip(params_ordering, args)), substituted simultaneously *)
  Definition custom_env (en : env R) (d : cdef) (ps : list param) : env R :=
    fun s => match alookup s (rev (combine (cformals d) (map (pev en) ps))) with
             | Some v => v
             | None => en s
             end.
  Definition custom_entries (en : env R) (d : cdef) (ps : list param) : list (list R) :=
    map (map (ev (custom_env en d ps))) (crows d).
End ParamSem.

Section Sem.
  Variable R : Type.
  Variable ofQ : Q -> R.
  Variables radd rmul rpow : R -> R -> R.
  Variables rzero rone : R.
  Variable rfun : string -> list R -> R.
  Variable A : matalg R.
  Variable factory : string -> list R -> mat R A.   (* built-in matrix factories on evaluated parameters *)

  Notation ev := (ev R ofQ radd rmul rpow rzero rone rfun).
  Notation pev := (pev R ofQ radd rmul rpow rzero rone rfun).
  Notation custom_entries := (custom_entries R ofQ radd rmul rpow rzero rone rfun).

  Fixpoint sem (en : env R) (g : gate) : mat R A :=
    match g with
    | Builtin n _ _ ps => factory n (map (pev en) ps)
    | Custom d ps => of_rows R A (cnq d) (custom_entries en d ps)
    | Controlled k w => ctrl R A k (sem en w)
    | Dagger w => adj R A (sem en w)
    | Power w e => mpow R A e (sem en w)
    | Exponential w => mexp R A (sem en w)
    end.

  (* every leaf flagged hermitian has a self-adjoint matrix at this environment *)
  Fixpoint herm_sound (en : env R) (g : gate) : Prop :=
    match g with
    | Builtin n h _ ps => h = true -> meq R A (adj R A (factory n (map (pev en) ps))) (factory n (map (pev en) ps))
    | Custom _ _ => True
    | Controlled _ w => herm_sound en w
    | Dagger w => herm_sound en w
    | Power w _ => herm_sound en w
    | Exponential w => herm_sound en w
    end.

  (* a custom gate's stored matrix mentions only formal parameters that receive an argument *)
  Definition cdef_closed (d : cdef) (ps : list param) : Prop :=
    forall row e s, In row (crows d) -> In e row -> In s (free e) ->
                    In s (firstn (List.length ps) (cformals d)).
  Fixpoint defs_closed (g : gate) : Prop :=
    match g with
    | Builtin _ _ _ _ => True
    | Custom d ps => cdef_closed d ps
    | Controlled _ w => defs_closed w
    | Dagger w => defs_closed w
    | Power w _ => defs_closed w
    | Exponential w => defs_closed w
    end.

  (* meaning of an operation: what its action is a function of *)
  Inductive opsem : Type :=
  | SGate (qs : list nat) (u : mat R A)
  | SPhase (thetas : list R)
  | SReset (q : nat) (vals : list R).
  Definition op_sem (en : env R) (o : op) : opsem :=
    match o with
    | GateOp g qs => SGate qs (sem en g)
    | MultiPhase ps => SPhase (map (pev en) ps)
    | Reset q ps => SReset q (map (pev en) ps)
    end.
  Definition opsem_eq (a b : opsem) : Prop :=
    match a, b with
    | SGate qs u, SGate qs' u' => qs = qs' /\ meq R A u u'
    | SPhase l, SPhase l' => l = l'
    | SReset q l, SReset q' l' => q = q' /\ l = l'
    | _, _ => False
    end.
  Definition circuit_sem (en : env R) (c : circuit) : list opsem := map (op_sem en) (ops c).
End Sem.
