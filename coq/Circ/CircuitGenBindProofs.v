(* The GENERATED Circuit.free_symbols and Circuit.bind (Gen/CircuitGen.v, translated from circuits/_circuit.py by
   tr/tr_circuit.py on every run) agree with the model of property C06 (Circ/Bind.v: circuit_free, circuit_bind).
   [benv] instantiates the environment of the generated functions with C06's operations, symbols (names) and maps. *)
Require Import Coq.Arith.Arith Coq.ZArith.ZArith Coq.Lists.List Coq.Strings.String Coq.Bool.Bool Coq.micromega.Lia.
Require OQ.Serde.Expr OQ.Circ.Bind.
Require Import OQ.Circ.CircuitTrSupport OQ.Gen.CircuitGen OQ.Circ.CircuitGenProofs.
Import ListNotations.

Definition of_err (e : Bind.err) : pyexn :=
  match e with Bind.ENotImplemented => NotImplementedError | Bind.EValue => ValueError | Bind.EType => TypeError end.
Definition of_res {A} (r : Bind.res A) : result A :=
  match r with Bind.Ok a => Ok a | Bind.Err e => Raise (of_err e) end.

Definition benv : pyenv :=
  mk_pyenv Bind.op Bind.gate Bind.param string Bind.smap
           (* qubit_indices: not used by the two functions below as long as the width is positive; a MultiPhaseOperation acts on all qubits *)
           (fun o => match o with Bind.GateOp _ qs => map Z.of_nat qs | Bind.MultiPhase _ => [] | Bind.Reset q _ => [Z.of_nat q] end)
           (fun o => match o with Bind.GateOp _ _ => true | _ => false end)
           (fun o => match o with Bind.GateOp g _ => Ok g | _ => Raise AttributeError end)
           Bind.op_free                                           (* operation.free_symbols *)
           (fun o m => of_res (Bind.op_bind m o))                 (* operation.bind(symbols_map) *)
           String.eqb
           (fun g => of_res (Bind.dagger g))
           (fun g k => of_res (Bind.controlled (Z.to_nat k) g))
           (fun g qs => Bind.GateOp g (map Z.to_nat qs))
           (fun name _ ps nq h => Bind.Builtin name h (Z.to_nat nq) ps)
           (fun xs => xs).

Definition binj (c : Bind.circuit) : Circuit_obj benv := mk_Circuit benv (Bind.ops c) (Z.of_nat (Bind.width c)).

Lemma dedup_first_is_first_seen l : forall seen1 seen2,
  (forall x, Expr.mem x seen1 = py_in String.eqb x seen2) -> Bind.dedup_first seen1 l = first_seen benv seen2 l.
Proof.
  induction l as [|x r IH]; intros seen1 seen2 H; [reflexivity|]. cbn [Bind.dedup_first first_seen].
  change (sym_eqb benv) with String.eqb. change (Sym benv) with string. rewrite H. destruct (py_in String.eqb x seen2); [now apply IH|].
  f_equal. apply IH. intros y. unfold Expr.mem, py_in in *. cbn [existsb]. rewrite existsb_app. cbn [existsb].
  rewrite orb_false_r, orb_comm. f_equal. apply H.
Qed.

Theorem free_symbols_gen_is_C06_model c : Circuit_free_symbols_gen benv (binj c) = Ok (Bind.circuit_free c).
Proof.
  rewrite free_symbols_gen_spec. unfold Bind.circuit_free. f_equal. symmetry. now apply dedup_first_is_first_seen.
Qed.

Lemma bind_all_is_rmapM m ops : bind_all benv m ops = of_res (Bind.rmapM (Bind.op_bind m) ops).
Proof.
  induction ops as [|o r IH]; [reflexivity|]. cbn [bind_all Bind.rmapM]. rewrite IH.
  change (op_bind benv o m) with (of_res (Bind.op_bind m o)).
  destruct (Bind.op_bind m o); [|reflexivity]. cbn [of_res bind]. destruct (Bind.rmapM (Bind.op_bind m) r); reflexivity.
Qed.

(* the model keeps the width; so does the code when the width is positive (a falsy width is recomputed) *)
Theorem bind_gen_is_C06_model c m :
  Bind.width c <> 0 ->
  Circuit_bind_gen benv (binj c) m
  = match Bind.circuit_bind m c with Bind.Ok c' => Ok (binj c') | Bind.Err e => Raise (of_err e) end.
Proof.
  intros H. rewrite bind_gen_spec. unfold Bind.circuit_bind, Bind.rmap.
  change (Circuit__operations benv (binj c)) with (Bind.ops c). rewrite bind_all_is_rmapM.
  destruct (Bind.rmapM (Bind.op_bind m) (Bind.ops c)); [|reflexivity]. cbn [of_res bind].
  change (Circuit__n_qubits benv (binj c)) with (Z.of_nat (Bind.width c)). rewrite init_gen_positive; [reflexivity|lia].
Qed.
