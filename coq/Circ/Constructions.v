(* Circuit-level constructions (property C08): Circuit.inverse, Circuit.controlled, __add__ (circuits/_circuit.py)
   and create_layer_of_gates, apply_gate_to_qubits, add_ancilla_register (circuits/_generators.py).

   An operation is a gate expression (Circ/GateAst.v: the object the gate methods return, [None] = the call
   raises) together with the tuple of qubit indices it is applied to; a circuit is its width and its list of
   operations.  Every function mirrors the Python body statement by statement:

     mk_gcirc ops n             Circuit(ops, n_qubits=n)   (a falsy n, i.e. None or 0, means "by operations")
     gc_append c op, gc_add     circuit + operation, circuit + circuit (_append_operation / _append_circuit)
     inverse c                  Circuit.inverse: reversed(operations), op.gate.dagger on the same qubits, width kept
     controlled_circuit k c     Circuit.controlled(k): op.gate.controlled(1) on (k, shifted indices: i+1 if i >= k else i),
                                width max(n, k) + 1
     apply_gate_to_qubits c qs order fac rows
                                unique = set(qs) is iterated in the order [order] (CPython's, an input of the
                                model: [set_order_ok qs order] says it lists the distinct elements of qs once
                                each); with rows: assert len(rows) == len(unique), zip(unique, rows),
                                circuit += fac(row...)(qubit); without: circuit += fac(qubit) for the gate fac []
     create_layer n fac rows    apply_gate_to_qubits(Circuit(), range(n), ...) with set(range(n)) iterated upwards
     add_ancilla c a            circuit += I(c.n_qubits + i) for i in range(a)

   Meaning: [denote o op] is the gate application (matrix [sem o g], qubits) of Circ/Circuit.v, so that
   [gc_unitary o c] is Circuit.to_unitary() in the model of C01. *)
Require Import Coq.Arith.Arith Coq.Lists.List Coq.Strings.String Coq.Bool.Bool.
Require Import OQ.Base.Ring OQ.Base.Sums OQ.Base.Bits OQ.Base.Mat OQ.Circ.Lift OQ.Circ.Circuit OQ.Circ.GateAst.
Import ListNotations.

Fixpoint all_some {A} (l : list (option A)) : option (list A) :=
  match l with
  | [] => Some []
  | None :: _ => None
  | Some x :: r => match all_some r with Some xs => Some (x :: xs) | None => None end
  end.

Section Constructions.
  Variable P : Type.
  Variable pfree : P -> bool.

  Definition gop : Type := (gate P * list nat)%type.
  Record gcirc : Type := mk_gc { gc_n : nat; gc_ops : list gop }.

  (* _circuit_size_by_operations *)
  Definition size_ops (ops : list gop) : nat :=
    match ops with [] => 0 | _ => S (list_max (flat_map snd ops)) end.

  (* Circuit(operations, n_qubits) *)
  Definition mk_gcirc (ops : list gop) (n : nat) : gcirc :=
    match n with
    | O => mk_gc (size_ops ops) ops
    | S _ => mk_gc n ops
    end.

  (* _append_operation, _append_circuit *)
  Definition gc_append (c : gcirc) (op : gop) : gcirc :=
    mk_gcirc (gc_ops c ++ [op]) (Nat.max (gc_n c) (S (list_max (snd op)))).
  Definition gc_add (c1 c2 : gcirc) : gcirc :=
    mk_gcirc (gc_ops c1 ++ gc_ops c2) (Nat.max (gc_n c1) (gc_n c2)).

  (* ---------------------------------------------------------------- Circuit.inverse *)
  Definition dagger_op (op : gop) : option gop :=
    match dagger pfree (fst op) with Some g => Some (g, snd op) | None => None end.
  Definition inverse (c : gcirc) : option gcirc :=
    match all_some (map dagger_op (rev (gc_ops c))) with
    | Some ops => Some (mk_gcirc ops (gc_n c))
    | None => None
    end.

  (* ---------------------------------------------------------------- Circuit.controlled *)
  Definition shift_idx (k i : nat) : nat := if k <=? i then S i else i.
  Definition controlled_op (k : nat) (op : gop) : option gop :=
    match controlled pfree 1 (fst op) with
    | Some g => Some (g, k :: map (shift_idx k) (snd op))
    | None => None
    end.
  Definition controlled_circuit (k : nat) (c : gcirc) : option gcirc :=
    match all_some (map (controlled_op k) (gc_ops c)) with
    | Some ops => Some (mk_gcirc ops (S (Nat.max (gc_n c) k)))
    | None => None
    end.

  (* ---------------------------------------------------------------- apply_gate_to_qubits *)
  (* [order] lists the distinct elements of [qs], each once *)
  Fixpoint nodupb (l : list nat) : bool :=
    match l with
    | [] => true
    | x :: r => negb (mem x r) && nodupb r
    end.
  Definition set_order_ok (qs order : list nat) : bool :=
    nodupb order && forallb (fun q => mem q order) qs && forallb (fun q => mem q qs) order.

  (* the loop: circuit += gate(qubit) for the zipped pairs *)
  Definition place (c : gcirc) (pairs : list (nat * gate P)) : gcirc :=
    fold_left (fun acc qg => gc_append acc (snd qg, [fst qg])) pairs c.

  Definition apply_gate_to_qubits (c : gcirc) (order : list nat) (fac : list P -> gate P)
             (rows : option (list (list P))) : option gcirc :=
    match rows with
    | Some rs =>
        if Nat.eqb (List.length rs) (List.length order)
        then Some (place c (combine order (map fac rs)))
        else None                                                   (* AssertionError *)
    | None => Some (place c (map (fun q => (q, fac [])) order))
    end.

  (* create_layer_of_gates *)
  Definition create_layer (n : nat) (fac : list P -> gate P) (rows : option (list (list P))) : option gcirc :=
    apply_gate_to_qubits (mk_gcirc [] 0) (seq 0 n) fac rows.

  (* add_ancilla_register; [igate] is the built-in I *)
  Definition igate : gate P := Base "I"%string [] 1 true.
  Definition add_ancilla (c : gcirc) (a : nat) : gcirc :=
    fold_left (fun acc i => gc_append acc (igate, [gc_n c + i])) (seq 0 a) c.

  (* ---------------------------------------------------------------- vocabulary of the specification *)
  (* an operation fits a register of n qubits: as many distinct in-range indices as the gate has qubits *)
  Definition op_wf (n : nat) (op : gop) : Prop :=
    List.length (snd op) = num_qubits (fst op) /\ snd op <> [] /\ NoDup (snd op) /\ Forall (fun q => q < n) (snd op).
  Definition gc_wf (c : gcirc) : Prop := Forall (op_wf (gc_n c)) (gc_ops c).
End Constructions.

Arguments gop P : clear implicits.
Arguments gcirc P : clear implicits.
Arguments mk_gc {P}. Arguments gc_n {P}. Arguments gc_ops {P}. Arguments size_ops {P}. Arguments mk_gcirc {P}.
Arguments gc_append {P}. Arguments gc_add {P}. Arguments dagger_op {P}. Arguments inverse {P}.
Arguments controlled_op {P}. Arguments controlled_circuit {P}. Arguments place {P}.
Arguments apply_gate_to_qubits {P}. Arguments create_layer {P}. Arguments igate {P}. Arguments add_ancilla {P}.
Arguments op_wf {P}. Arguments gc_wf {P}.

(* ------------------------------------------------------------------------------------------- meaning *)
Section Meaning.
  Variable K : cring.
  Variable P : Type.
  Variable o : oracles K P.

  Definition denote (op : gop P) : gateapp K := mk_gateapp (sem o (fst op)) (snd op).
  (* Circuit.to_unitary() *)
  Definition gc_unitary (c : gcirc P) : Mat K := to_unitary (gc_n c) (map denote (gc_ops c)).
End Meaning.

Arguments denote {K P}. Arguments gc_unitary {K P}.

(* the action of a circuit controlled on qubit k of an (n+1)-qubit register, written on basis-state indices:
   both control bits set: the original entry at the indices with bit k removed; otherwise the identity *)
Definition del_at {A} (k : nat) (l : list A) : list A := firstn k l ++ skipn (S k) l.
Definition xbit (k n x : nat) : bool := nth k (bits (S n) x) false.
Definition xdel (k n x : nat) : nat := val (del_at k (bits (S n) x)).
Definition cform {K : cring} (k n : nat) (A : Mat K) : Mat K :=
  fun x y => if xbit k n x && xbit k n y then A (xdel k n x) (xdel k n y) else eye x y.
