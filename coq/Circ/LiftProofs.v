(* Proofs about lifting (property C01): the code mirror [lift_impl] equals the specification [lift_spec]
   for every register width, arity, and ordered tuple of distinct in-range indices; [lift_spec] commutes with
   widening the register (identities below) and with shifting it (identities above). *)
Require Import Coq.setoid_ring.Ring Coq.Arith.Arith Coq.micromega.Lia Coq.Lists.List Coq.Bool.Bool.
Require Import Coq.Sorting.Permutation.
Require Import OQ.Base.Ring OQ.Base.Sums OQ.Base.Bits OQ.Base.Mat OQ.Circ.Lift.
Import ListNotations.

(* ------------------------------------------------------------------ lists of indices *)

Lemma mem_In q qs : mem q qs = true <-> In q qs.
Proof.
  unfold mem. rewrite existsb_exists. split.
  - intros [x [Hx E]]. apply Nat.eqb_eq in E. subst. exact Hx.
  - intro H. exists q. split; [exact H|apply Nat.eqb_refl].
Qed.

Lemma mem_false q qs : mem q qs = false <-> ~ In q qs.
Proof. rewrite <- mem_In. destruct (mem q qs); split; intro H; try reflexivity; try discriminate; exfalso; apply H; reflexivity. Qed.

Lemma list_max_ge qs q : In q qs -> q <= list_max qs.
Proof.
  unfold list_max. induction qs as [|x r IH]; intro H; [destruct H|].
  cbn [fold_right]. destruct H as [->|H]; [lia|]. specialize (IH H). lia.
Qed.

Lemma list_max_in qs : qs <> [] -> In (list_max qs) qs.
Proof.
  unfold list_max. induction qs as [|x r IH]; intro H; [congruence|].
  cbn [fold_right]. destruct r as [|y r'].
  - cbn [fold_right]. left. lia.
  - destruct (Nat.max_spec x (fold_right Nat.max 0 (y :: r'))) as [[_ E]|[_ E]]; rewrite E.
    + right. apply IH. discriminate.
    + left. reflexivity.
Qed.

Lemma fold_min_le x r q : In q (x :: r) -> fold_right Nat.min x r <= q.
Proof.
  induction r as [|y r IH]; intro H; cbn [fold_right].
  - destruct H as [->|[]]. lia.
  - destruct H as [->|[->|H]].
    + assert (fold_right Nat.min q r <= q) by (apply IH; left; reflexivity). lia.
    + lia.
    + assert (fold_right Nat.min x r <= q) by (apply IH; right; exact H). lia.
Qed.

Lemma list_min_le qs q : In q qs -> list_min qs <= q.
Proof. destruct qs as [|x r]; intro H; [destruct H|]. apply fold_min_le. exact H. Qed.

(* the permutation making the qubits adjacent has the right length *)
Lemma filter_partition_length {A} (f : A -> bool) l :
  length (filter f l) + length (filter (fun x => negb (f x)) l) = length l.
Proof. induction l as [|x l IH]; [reflexivity|]. cbn [filter]. destruct (f x); cbn [negb length]; lia. Qed.

Lemma perm_adjacent_length qs w : NoDup qs -> Forall (fun q => q < w) qs -> length (perm_adjacent qs w) = w.
Proof.
  intros Hnd Hlt. unfold perm_adjacent. rewrite app_length.
  pose proof (filter_partition_length (fun i => mem i qs) (seq 0 w)) as Hp. rewrite seq_length in Hp.
  assert (Hk : length (filter (fun i => mem i qs) (seq 0 w)) = length qs).
  { apply Permutation_length. apply NoDup_Permutation.
    - apply NoDup_filter. apply seq_NoDup.
    - exact Hnd.
    - intro x. rewrite filter_In, in_seq, mem_In. rewrite Forall_forall in Hlt. split.
      + intros [_ H]. exact H.
      + intro H. split; [specialize (Hlt x H); lia|exact H]. }
  lia.
Qed.

Lemma is_perm_adjacent qs w : NoDup qs -> Forall (fun q => q < w) qs -> is_perm w (perm_adjacent qs w) = true.
Proof.
  intros Hnd Hlt. unfold is_perm. rewrite perm_adjacent_length by assumption. rewrite Nat.eqb_refl. cbn [andb].
  apply forallb_forall. intros i Hi. apply mem_In. unfold perm_adjacent. apply in_or_app.
  destruct (mem i qs) eqn:E; [left; apply mem_In; exact E|right].
  apply filter_In. split; [exact Hi|]. rewrite E. reflexivity.
Qed.

Lemma map_eq_In {A B} (f g : A -> B) l x : map f l = map g l -> In x l -> f x = g x.
Proof. induction l as [|a l IH]; intros H Hin; [destruct Hin|]. cbn [map] in H. inversion H. destruct Hin as [->|Hin]; auto. Qed.

Lemma NoDup_map_in {A B} (f : A -> B) l :
  (forall x y, In x l -> In y l -> f x = f y -> x = y) -> NoDup l -> NoDup (map f l).
Proof.
  induction l as [|a l IH]; intros Hinj Hnd; [constructor|]. inversion Hnd as [|? ? Hna Hnd']; subst.
  cbn [map]. constructor.
  - intro Hin. apply in_map_iff in Hin. destruct Hin as [y [E Hy]].
    assert (y = a) by (apply Hinj; [right; exact Hy|left; reflexivity|exact E]). subst. contradiction.
  - apply IH; [|exact Hnd']. intros x y Hx Hy. apply Hinj; right; assumption.
Qed.

Lemma NoDup_app_l {A} (a b : list A) : NoDup (a ++ b) -> NoDup a.
Proof.
  induction a as [|x a IH]; intro H; [constructor|]. cbn [app] in H. inversion H as [|? ? Hn Hnd]; subst.
  constructor; [|apply IH; exact Hnd]. intro Hin. apply Hn. apply in_or_app. left. exact Hin.
Qed.

(* ------------------------------------------------------------------ bit strings *)

Fixpoint bl_eqb (x y : list bool) : bool :=
  match x, y with
  | [], [] => true
  | a :: x', b :: y' => Bool.eqb a b && bl_eqb x' y'
  | _, _ => false
  end.

Lemma bl_eqb_eq x y : bl_eqb x y = true <-> x = y.
Proof.
  revert y. induction x as [|a x IH]; intros [|b y]; cbn [bl_eqb]; try (split; [discriminate|congruence]); [tauto|].
  rewrite andb_true_iff, IH, eqb_true_iff. split; [intros [-> ->]; reflexivity|intro H; inversion H; tauto].
Qed.

Lemma bits_mod n i : bits n (i mod 2 ^ n) = bits n i.
Proof.
  pose proof (pow2_pos n) as Hp.
  rewrite (Nat.div_mod i (2 ^ n)) at 2 by lia.
  rewrite (Nat.mul_comm (2 ^ n)). symmetry. apply bits_add_high. apply Nat.mod_upper_bound. lia.
Qed.

Lemma bl_eqb_bits n i j : i < 2 ^ n -> j < 2 ^ n -> bl_eqb (bits n i) (bits n j) = Nat.eqb i j.
Proof.
  intros Hi Hj. destruct (Nat.eqb_spec i j) as [->|Hne].
  - apply bl_eqb_eq. reflexivity.
  - destruct (bl_eqb (bits n i) (bits n j)) eqn:E; [|reflexivity].
    apply bl_eqb_eq in E. exfalso. apply Hne. eapply bits_inj; eassumption.
Qed.

Lemma bl_eqb_bits_mod n i j : bl_eqb (bits n i) (bits n j) = Nat.eqb (i mod 2 ^ n) (j mod 2 ^ n).
Proof.
  pose proof (pow2_pos n). rewrite <- (bits_mod n i), <- (bits_mod n j).
  apply bl_eqb_bits; apply Nat.mod_upper_bound; lia.
Qed.

Lemma select_app qs1 qs2 x : select (qs1 ++ qs2) x = select qs1 x ++ select qs2 x.
Proof. unfold select. apply map_app. Qed.

Lemma select_prefix qs a u : Forall (fun q => q < length a) qs -> select qs (a ++ u) = select qs a.
Proof.
  intro H. unfold select. apply map_ext_in. intros q Hq. rewrite Forall_forall in H.
  apply app_nth1. apply H. exact Hq.
Qed.

Lemma select_shift qs p m : select (map (Nat.add (length p)) qs) (p ++ m) = select qs m.
Proof.
  unfold select. rewrite map_map. apply map_ext. intro q.
  rewrite app_nth2 by lia. f_equal. lia.
Qed.

(* ------------------------------------------------------------------ agreement outside the named positions *)

Lemma agree_from_spec qs pos x y :
  agree_from qs pos x y = true <->
  length x = length y /\ forall k, k < length x -> ~ In (pos + k) qs -> nth k x false = nth k y false.
Proof.
  revert pos y. induction x as [|a x IH]; intros pos [|b y]; cbn [agree_from length].
  - split; [intros _; split; [reflexivity|intros k Hk; lia]|reflexivity].
  - split; [discriminate|intros [H _]; discriminate].
  - split; [discriminate|intros [H _]; discriminate].
  - rewrite andb_true_iff, IH, orb_true_iff, mem_In, eqb_true_iff. split.
    + intros [Hab [Hl Hr]]. split; [lia|]. intros [|k] Hk Hn; cbn [nth].
      * rewrite Nat.add_0_r in Hn. destruct Hab as [Hab|Hab]; [contradiction|exact Hab].
      * apply Hr; [lia|]. replace (S pos + k) with (pos + S k) by lia. exact Hn.
    + intros [Hl Hr]. split; [|split; [lia|]].
      * destruct (in_dec Nat.eq_dec pos qs) as [Hin|Hn]; [left; exact Hin|right].
        apply (Hr 0); [lia|]. rewrite Nat.add_0_r. exact Hn.
      * intros k Hk Hn. apply (Hr (S k)); [lia|]. replace (pos + S k) with (S pos + k) by lia. exact Hn.
Qed.

Lemma agree_off_spec qs x y :
  agree_off qs x y = true <->
  length x = length y /\ forall k, k < length x -> ~ In k qs -> nth k x false = nth k y false.
Proof. unfold agree_off. rewrite agree_from_spec. reflexivity. Qed.

Lemma agree_from_app qs pos a a' u u' : length a = length a' ->
  agree_from qs pos (a ++ u) (a' ++ u') = agree_from qs pos a a' && agree_from qs (pos + length a) u u'.
Proof.
  revert pos a'. induction a as [|h a IH]; intros pos [|h' a'] Hl; cbn [length] in Hl; try discriminate.
  - cbn [app agree_from length]. rewrite Nat.add_0_r. reflexivity.
  - cbn [app agree_from length]. rewrite IH by lia. rewrite <- andb_assoc. do 2 f_equal. f_equal. lia.
Qed.

Lemma agree_from_out qs pos x y : (forall q, In q qs -> q < pos \/ pos + length x <= q) ->
  agree_from qs pos x y = bl_eqb x y.
Proof.
  revert pos y. induction x as [|a x IH]; intros pos [|b y] H; cbn [agree_from bl_eqb]; try reflexivity.
  assert (Hm : mem pos qs = false).
  { apply mem_false. intro Hin. specialize (H pos Hin). cbn [length] in H. lia. }
  rewrite Hm. cbn [orb]. f_equal. apply IH. intros q Hq. specialize (H q Hq). cbn [length] in H. lia.
Qed.

Lemma agree_from_shift qs s pos x y : agree_from (map (Nat.add s) qs) (s + pos) x y = agree_from qs pos x y.
Proof.
  revert pos y. induction x as [|a x IH]; intros pos [|b y]; cbn [agree_from]; try reflexivity.
  replace (S (s + pos)) with (s + S pos) by lia. rewrite IH. f_equal. f_equal.
  destruct (mem pos qs) eqn:E.
  - apply mem_In. apply in_map. apply mem_In. exact E.
  - apply mem_false. intro Hin. apply in_map_iff in Hin. destruct Hin as [q [Hq Hin]].
    assert (q = pos) by lia. subst. apply mem_false in E. contradiction.
Qed.

(* ------------------------------------------------------------------ matrices *)
Section LiftProofs.
  Variable K : cring.
  Add Ring Kring : (c_ring K).
  Local Open Scope cr_scope.
  Notation ind := (@ind K).

  Lemma ind_andb a b : ind (a && b) = ind a * ind b.
  Proof. destruct a, b; cbn [Lift.ind andb]. all: ring. Qed.

  Lemma ind_iff a b : (a = true <-> b = true) -> ind a = ind b.
  Proof. intro H. destruct a, b; try reflexivity; exfalso; destruct H as [H1 H2]; (specialize (H1 eq_refl) || specialize (H2 eq_refl)); discriminate. Qed.

  Lemma eye_ind i j : @eye K i j = ind (Nat.eqb i j).
  Proof. reflexivity. Qed.

  (* ---------------------------------------------------------------- widening: identities on added low qubits *)
  Theorem lift_spec_widen (G : Mat K) qs n e : Forall (fun q => q < n) qs ->
    mat_eq (2 ^ (n + e)) (lift_spec G qs (n + e)) (kron (2 ^ e) (lift_spec G qs n) eye).
  Proof.
    intros Hq i j Hi Hj. unfold lift_spec, kron. cbv zeta.
    rewrite !bits_app.
    assert (Hl : Forall (fun q => q < length (bits n (i / 2 ^ e))) qs) by (rewrite bits_length; exact Hq).
    assert (Hl' : Forall (fun q => q < length (bits n (j / 2 ^ e))) qs) by (rewrite bits_length; exact Hq).
    rewrite !select_prefix by assumption.
    unfold agree_off. rewrite agree_from_app by (rewrite !bits_length; reflexivity).
    rewrite ind_andb. rewrite (agree_from_out qs (0 + length (bits n (i / 2 ^ e)))).
    - rewrite bl_eqb_bits_mod, eye_ind. ring.
    - intros q Hin. rewrite Forall_forall in Hq. specialize (Hq q Hin). rewrite !bits_length. lia.
  Qed.

  (* ---------------------------------------------------------------- shifting: identities on added high qubits *)
  Theorem lift_spec_shift (G : Mat K) qs w s : Forall (fun q => q < w) qs ->
    mat_eq (2 ^ (s + w)) (kron (2 ^ w) eye (lift_spec G qs w)) (lift_spec G (map (Nat.add s) qs) (s + w)).
  Proof.
    intros Hq i j Hi Hj. unfold lift_spec, kron. cbv zeta.
    rewrite !bits_app. rewrite !bits_mod.
    pose proof (bits_length s (i / 2 ^ w)) as Li. pose proof (bits_length s (j / 2 ^ w)) as Lj.
    rewrite <- Li at 1. rewrite select_shift. rewrite <- Lj at 1. rewrite select_shift.
    unfold agree_off. rewrite agree_from_app by lia. rewrite ind_andb.
    rewrite (agree_from_out (map (Nat.add s) qs) 0).
    - rewrite Li. replace (0 + s)%nat with (s + 0)%nat by lia. rewrite agree_from_shift.
      rewrite bl_eqb_bits, eye_ind.
      + ring.
      + apply Nat.div_lt_upper_bound; [pose proof (pow2_pos w); lia|]. rewrite <- Nat.pow_add_r, Nat.add_comm. exact Hi.
      + apply Nat.div_lt_upper_bound; [pose proof (pow2_pos w); lia|]. rewrite <- Nat.pow_add_r, Nat.add_comm. exact Hj.
    - intros q Hin. apply in_map_iff in Hin. destruct Hin as [q' [<- _]]. rewrite Li. lia.
  Qed.

  (* ---------------------------------------------------------------- the permutation matrix *)
  Lemma dense_fold r : forall (acc : Vec K) pre,
    (forall i, i < 2 ^ length pre -> acc i = ind (Nat.eqb i (val pre))) ->
    forall i, i < 2 ^ (length pre + length r) ->
      fold_left (fun a b' => vkron 2 a (basis b')) r acc i = ind (Nat.eqb i (val (pre ++ r))).
  Proof.
    induction r as [|b r IH]; intros acc pre Hacc i Hi.
    - cbn [fold_left]. rewrite app_nil_r. apply Hacc. rewrite Nat.add_0_r in Hi. exact Hi.
    - cbn [fold_left]. replace (pre ++ b :: r) with ((pre ++ [b]) ++ r) by (rewrite <- app_assoc; reflexivity).
      apply IH.
      + intros i' Hi'. rewrite app_length in Hi'. cbn [length] in Hi'.
        replace (length pre + 1)%nat with (S (length pre)) in Hi' by lia. cbn [Nat.pow] in Hi'.
        unfold vkron, basis. rewrite Hacc by (apply Nat.div_lt_upper_bound; lia).
        rewrite val_app. cbn [val length Nat.pow].
        pose proof (Nat.div_mod i' 2 ltac:(lia)) as Hdm. pose proof (Nat.mod_upper_bound i' 2 ltac:(lia)) as Hm.
        assert (Hb : b2n b <= 1) by (destruct b; cbn; lia).
        destruct (Nat.eqb_spec (i' / 2) (val pre)) as [E1|E1];
          destruct (Nat.eqb_spec (i' mod 2) (b2n b)) as [E2|E2];
          destruct (Nat.eqb_spec i' (val pre * (2 * 1) + (b2n b * 1 + 0))) as [E3|E3];
          cbn [Lift.ind]; try ring; exfalso; lia.
      + rewrite app_length. cbn [length] in *. replace (length pre + 1 + length r)%nat with (length pre + S (length r))%nat by lia.
        exact Hi.
  Qed.

  Lemma dense_ind bs i : bs <> [] -> i < 2 ^ length bs -> dense bs i = ind (Nat.eqb i (val bs)).
  Proof.
    destruct bs as [|b r]; [congruence|]. intros _ Hi. unfold dense.
    apply (dense_fold r (basis b) [b]).
    - intros i' Hi'. unfold basis. cbn [val length Nat.pow]. rewrite Nat.mul_1_r, Nat.add_0_r. reflexivity.
    - exact Hi.
  Qed.

  Lemma perm_matrix_ind w order r c : 0 < w -> length order = w -> r < 2 ^ w ->
    perm_matrix w order r c = ind (Nat.eqb r (val (select order (bits w c)))).
  Proof.
    intros Hw Hl Hr. unfold perm_matrix. apply dense_ind.
    - intro E. apply (f_equal (@length bool)) in E. rewrite select_length in E. cbn [length] in E. lia.
    - rewrite select_length, Hl. exact Hr.
  Qed.

  (* conjugating with the matrix of an index map: (P^T M P)[a][b] = M[f a][f b] *)
  Lemma perm_conj d (f : nat -> nat) (M P Q : Mat K) :
    (forall c, c < d -> f c < d) ->
    (forall r c, r < d -> c < d -> P r c = ind (Nat.eqb r (f c))) ->
    mat_eq d Q (mmul d (transp P) M) ->
    mat_eq d (mmul d Q P) (fun a b => M (f a) (f b)).
  Proof.
    intros Hf HP HQ i j Hi Hj. unfold mmul at 1.
    rewrite (rsum_single K d (f j)).
    - rewrite HQ by auto. rewrite HP by auto. rewrite Nat.eqb_refl. unfold mmul, transp.
      rewrite (rsum_single K d (f i)).
      + rewrite HP by auto. rewrite Nat.eqb_refl. cbn [Lift.ind]. ring.
      + auto.
      + intros k Hk Hne. rewrite HP by auto. destruct (Nat.eqb_spec k (f i)); [contradiction|]. cbn [Lift.ind]. ring.
    - auto.
    - intros k Hk Hne. rewrite (HP k j) by auto. destruct (Nat.eqb_spec k (f j)); [contradiction|]. cbn [Lift.ind]. ring.
  Qed.

  (* ---------------------------------------------------------------- the window: P^T (G (x) 1) P *)
  Lemma inner_correct (G : Mat K) sh w (P Q : Mat K) : 0 < w -> NoDup sh -> Forall (fun q => q < w) sh ->
    mat_eq (2 ^ w) P (perm_matrix w (perm_adjacent sh w)) ->
    mat_eq (2 ^ w) Q (mmul (2 ^ w) (transp P) (kron (2 ^ (w - length sh)) G eye)) ->
    mat_eq (2 ^ w) (mmul (2 ^ w) Q P) (lift_spec G sh w).
  Proof.
    intros Hw Hnd Hlt HP HQ.
    pose proof (perm_adjacent_length sh w Hnd Hlt) as Hlen.
    set (rest := filter (fun i => negb (mem i sh)) (seq 0 w)) in *.
    assert (Hrest : length rest = (w - length sh)%nat).
    { unfold perm_adjacent in Hlen. fold rest in Hlen. rewrite app_length in Hlen. lia. }
    set (f := fun c => val (select (perm_adjacent sh w) (bits w c))).
    assert (Hf : forall c, c < 2 ^ w -> f c < 2 ^ w).
    { intros c _. unfold f. pose proof (val_lt (select (perm_adjacent sh w) (bits w c))) as Hv.
      rewrite select_length, Hlen in Hv. exact Hv. }
    eapply mat_eq_trans.
    - apply (perm_conj (2 ^ w) f (kron (2 ^ (w - length sh)) G eye) P Q Hf).
      + intros r c Hr Hc. rewrite HP by assumption. apply perm_matrix_ind; assumption.
      + exact HQ.
    - intros a b Ha Hb. unfold lift_spec, kron. cbv zeta.
      assert (Hdiv : forall c, f c / 2 ^ (w - length sh) = val (select sh (bits w c)) /\
                               f c mod 2 ^ (w - length sh) = val (select rest (bits w c))).
      { intro c. unfold f, perm_adjacent. fold rest. rewrite select_app, val_app, select_length, Hrest.
        pose proof (val_lt (select rest (bits w c))) as Hv. rewrite select_length, Hrest in Hv.
        pose proof (pow2_pos (w - length sh)) as Hp. split.
        - rewrite Nat.div_add_l by lia. rewrite Nat.div_small by exact Hv. lia.
        - rewrite Nat.add_comm, Nat.mod_add by lia. apply Nat.mod_small. exact Hv. }
      destruct (Hdiv a) as [Da Ma]. destruct (Hdiv b) as [Db Mb]. rewrite Da, Db, Ma, Mb.
      f_equal. rewrite eye_ind. apply ind_iff.
      rewrite Nat.eqb_eq, agree_off_spec, !bits_length. split.
      + intro Hv. apply val_inj in Hv; [|rewrite !select_length; reflexivity].
        split; [reflexivity|]. intros k Hk Hn.
        assert (Hin : In k rest).
        { unfold rest. apply filter_In. split; [apply in_seq; lia|]. apply mem_false in Hn. rewrite Hn. reflexivity. }
        exact (map_eq_In _ _ _ _ Hv Hin).
      + intros [_ Hagree]. f_equal. unfold select. apply map_ext_in. intros q Hq.
        unfold rest in Hq. apply filter_In in Hq. destruct Hq as [Hs Hm]. apply in_seq in Hs.
        apply Hagree; [lia|]. apply mem_false. destruct (mem q sh); [discriminate|reflexivity].
  Qed.

  (* ---------------------------------------------------------------- the whole of _lift_matrix *)
  Theorem lift_impl_correct n (G : Mat K) qs : qs <> [] -> NoDup qs -> Forall (fun q => q < n) qs ->
    mat_eq (2 ^ n) (lift_impl G qs n) (lift_spec G qs n).
  Proof.
    intros Hne Hnd Hlt.
    pose proof (list_min_le qs) as Hs. pose proof (list_max_ge qs) as Hl.
    pose proof (list_max_in qs Hne) as Hlin.
    assert (Hln : list_max qs < n) by (rewrite Forall_forall in Hlt; apply Hlt; exact Hlin).
    assert (Hsl : list_min qs <= list_max qs) by (apply Hs; exact Hlin).
    unfold lift_impl. cbv zeta.
    set (s := list_min qs) in *. set (l := list_max qs) in *.
    set (w := (l - s + 1)%nat). set (t := (n - l - 1)%nat).
    set (sh := map (fun q => (q - s)%nat) qs).
    assert (Hn : n = (s + w + t)%nat) by (unfold w, t; lia).
    assert (Hsh_nd : NoDup sh).
    { unfold sh. apply NoDup_map_in; [|exact Hnd]. intros x y Hx Hy E. pose proof (Hs x Hx). pose proof (Hs y Hy). lia. }
    assert (Hsh_lt : Forall (fun q => q < w) sh).
    { unfold sh. apply Forall_forall. intros q Hq. apply in_map_iff in Hq. destruct Hq as [q' [<- Hq']].
      pose proof (Hs q' Hq'). pose proof (Hl q' Hq'). unfold w. lia. }
    assert (Hqs : map (Nat.add s) sh = qs).
    { unfold sh. rewrite map_map. rewrite <- (map_id qs) at 2. apply map_ext_in. intros q Hq. pose proof (Hs q Hq). lia. }
    assert (Hk : length sh = length qs) by (unfold sh; apply map_length).
    rewrite <- Hk.
    set (d := (2 ^ w)%nat).
    set (P := memo d (perm_matrix w (perm_adjacent sh w))).
    set (Q := memo d (mmul d (transp P) (kron (2 ^ (w - length sh)) G eye))).
    assert (Hinner : mat_eq d (memo d (mmul d Q P)) (lift_spec G sh w)).
    { eapply mat_eq_trans; [apply memo_eq|]. apply inner_correct; try assumption.
      - unfold w. lia.
      - apply memo_eq.
      - apply memo_eq. }
    rewrite Hn at 1 2.
    eapply mat_eq_trans; [|apply mat_eq_sym; apply lift_spec_widen].
    - rewrite Nat.pow_add_r. apply kron_compat; [apply pow2_pos| |apply mat_eq_refl].
      rewrite <- Hqs.
      eapply mat_eq_trans; [|apply lift_spec_shift; exact Hsh_lt].
      rewrite Nat.pow_add_r. apply kron_compat; [apply pow2_pos|apply mat_eq_refl|exact Hinner].
    - apply Forall_forall. intros q Hq. pose proof (Hl q Hq). pose proof (Hs q Hq). unfold w. lia.
  Qed.

  (* the error branches of the code are exactly the invalid index tuples *)
  Theorem lift_code_some n (G : Mat K) qs : qs <> [] -> NoDup qs -> Forall (fun q => q < n) qs ->
    lift_code G qs n = Some (lift_impl G qs n).
  Proof.
    intros Hne Hnd Hlt. unfold lift_code. destruct qs as [|q0 r] eqn:Eq; [congruence|]. rewrite <- Eq in *.
    pose proof (list_min_le qs) as Hs. pose proof (list_max_ge qs) as Hl.
    pose proof (list_max_in qs Hne) as Hlin.
    assert (Hln : list_max qs < n) by (rewrite Forall_forall in Hlt; apply Hlt; exact Hlin).
    cbv zeta. rewrite is_perm_adjacent.
    - cbn [negb]. destruct (Nat.leb_spec n (list_max qs)); [lia|reflexivity].
    - apply NoDup_map_in; [|exact Hnd]. intros x y Hx Hy E. pose proof (Hs x Hx). pose proof (Hs y Hy). lia.
    - apply Forall_forall. intros q Hq. apply in_map_iff in Hq. destruct Hq as [q' [<- Hq']].
      pose proof (Hs q' Hq'). pose proof (Hl q' Hq'). lia.
  Qed.

  Theorem lift_code_valid n (G : Mat K) qs M : lift_code G qs n = Some M ->
    qs <> [] /\ NoDup qs /\ Forall (fun q => q < n) qs /\ M = lift_impl G qs n.
  Proof.
    unfold lift_code. destruct qs as [|q0 r] eqn:Eq; [discriminate|]. rewrite <- Eq in *. cbv zeta.
    set (s := list_min qs). set (l := list_max qs). set (w := (l - s + 1)%nat).
    set (sh := map (fun q => (q - s)%nat) qs).
    destruct (is_perm w (perm_adjacent sh w)) eqn:Ep; cbn [negb]; [|discriminate].
    destruct (Nat.leb_spec n l) as [|Hl]; [discriminate|]. intro H. inversion H. subst M.
    split; [rewrite Eq; discriminate|]. split; [|split; [|reflexivity]].
    - unfold is_perm in Ep. apply andb_true_iff in Ep. destruct Ep as [E1 E2]. apply Nat.eqb_eq in E1.
      assert (Hnd : NoDup (perm_adjacent sh w)).
      { apply NoDup_incl_NoDup with (l := seq 0 w); [apply seq_NoDup|rewrite seq_length; lia|].
        intros i Hi. rewrite forallb_forall in E2. apply mem_In. apply E2. exact Hi. }
      unfold perm_adjacent in Hnd. apply NoDup_app_l in Hnd. unfold sh in Hnd.
      apply NoDup_map_inv in Hnd. exact Hnd.
    - apply Forall_forall. intros q Hq. pose proof (list_max_ge qs q Hq). fold l in H0. lia.
  Qed.
End LiftProofs.
