(* Lifting a k-qubit gate matrix to an n-qubit register (property C01).

   Source: /repo/src/orquestra/quantum/circuits/_unitary_tools.py

   [lift_impl G qs n]   literal mirror of [_lift_matrix(matrix, qubit_indices, num_qubits, ...)]
                        (same for the numpy and the sympy instantiation: only zeros/eye/kron/dense-vector differ)
   [lift_spec G qs n]   what the property says: G on the bits named by qs (qubit 0 = most significant bit),
                        identity on every other bit.
   [lift_code G qs n]   [lift_impl] together with the error branches of the code ([None] = the call raises).

   Interface for later users (C04, C08, C16, C18): state facts about circuits in terms of [lift_spec];
   [LiftProofs.lift_impl_correct] connects it to the code mirror; [LiftProofs.lift_spec_widen] and
   [LiftProofs.lift_spec_shift] move a lifted matrix between register widths.
   Matrices are functions [nat -> nat -> K] (Base/Mat.v); all statements are up to [mat_eq (2^n)]. *)
Require Import Coq.Arith.Arith Coq.Lists.List Coq.Bool.Bool.
Require Import OQ.Base.Ring OQ.Base.Sums OQ.Base.Bits OQ.Base.Mat.
Import ListNotations.

(* ------------------------------------------------------------------ index helpers (ring independent) *)

(* min(qubit_indices), max(qubit_indices); only used on non-empty lists *)
Definition list_min (l : list nat) : nat := match l with [] => 0 | x :: r => fold_right Nat.min x r end.
Definition list_max (l : list nat) : nat := fold_right Nat.max 0 l.

Definition mem (q : nat) (qs : list nat) : bool := existsb (Nat.eqb q) qs.

(* _permutation_making_qubits_adjacent(qubit_indices, num_qubits) *)
Definition perm_adjacent (qs : list nat) (w : nat) : list nat :=
  qs ++ filter (fun i => negb (mem i qs)) (seq 0 w).

(* the check in _permutation_matrix: sorted(order) == list(range(w)) *)
Definition is_perm (w : nat) (p : list nat) : bool :=
  Nat.eqb (length p) w && forallb (fun i => mem i p) (seq 0 w).

(* x and y (bit strings, position pos onwards) have the same length and agree at every position not in qs *)
Fixpoint agree_from (qs : list nat) (pos : nat) (x y : list bool) : bool :=
  match x, y with
  | [], [] => true
  | a :: x', b :: y' => (mem pos qs || Bool.eqb a b) && agree_from qs (S pos) x' y'
  | _, _ => false
  end.
Definition agree_off (qs : list nat) (x y : list bool) : bool := agree_from qs 0 x y.

Section Lift.
  Variable K : cring.
  Local Open Scope cr_scope.

  Definition ind (b : bool) : K := if b then c1 else c0.

  (* ---------------------------------------------------------------- specification *)
  Definition lift_spec (G : Mat K) (qs : list nat) (n : nat) : Mat K :=
    fun i j =>
      let x := bits n i in
      let y := bits n j in
      G (val (select qs x)) (val (select qs y)) * ind (agree_off qs x y).

  (* ---------------------------------------------------------------- mirror of the code *)
  (* np.array([1, 0]) / np.array([0, 1]) *)
  Definition basis (b : bool) : Vec K := fun i => if Nat.eqb i (b2n b) then c1 else c0.
  (* np.kron of a vector with a vector of length rb *)
  Definition vkron (rb : nat) (u v : Vec K) : Vec K := fun i => u (i / rb)%nat * v (i mod rb)%nat.
  (* _bitstring_to_numpy_dense_vector(state) = reduce(np.kron, (basis[bit] for bit in state));
     reduce of an empty sequence raises: the all-zero vector stands for that (never reached, w >= 1) *)
  Definition dense (state : list bool) : Vec K :=
    match state with
    | [] => fun _ => c0
    | b :: r => fold_left (fun acc b' => vkron 2 acc (basis b')) r (basis b)
    end.

  (* _permutation_matrix(order, ...): column i = dense vector of _permute(_basis_bitstring(i, w), order);
     _basis_bitstring(i, w) = bits w i;  _permute(v, order) = [v[k] for k in order] = select order v *)
  Definition perm_matrix (w : nat) (order : list nat) : Mat K :=
    fun r i => dense (select order (bits w i)) r.

  Definition lift_impl (G : Mat K) (qs : list nat) (n : nat) : Mat K :=
    let smallest := list_min qs in
    let largest := list_max qs in
    let shifted := map (fun q => q - smallest)%nat qs in
    let w := (largest - smallest + 1)%nat in
    let d := (2 ^ w)%nat in
    let P := memo d (perm_matrix w (perm_adjacent shifted w)) in
    (* 2 ** (largest - smallest - len(qubit_indices) + 1); written so that nat subtraction does not truncate *)
    let inner_gate := kron (2 ^ (w - length qs)) G eye in
    (* perm_matrix.transpose() @ inner_gate_matrix @ perm_matrix   (left-associated) *)
    let inner := memo d (mmul d (memo d (mmul d (transp P) inner_gate)) P) in
    (* reduce(kron, [eye(2**smallest), inner, eye(2**(num_qubits - largest - 1))]) *)
    kron (2 ^ (n - largest - 1)) (kron d eye inner) eye.

  (* with the error branches: min() of an empty tuple (ValueError), "Not all qubits given in permutation"
     (ValueError; exactly the tuples with a repeated index), an index outside the register
     (2 ** negative is a float: eye() raises TypeError) *)
  Definition lift_code (G : Mat K) (qs : list nat) (n : nat) : option (Mat K) :=
    match qs with
    | [] => None
    | _ =>
      let smallest := list_min qs in
      let largest := list_max qs in
      let w := (largest - smallest + 1)%nat in
      if negb (is_perm w (perm_adjacent (map (fun q => q - smallest)%nat qs) w)) then None
      else if Nat.leb n largest then None
      else Some (lift_impl G qs n)
    end.
End Lift.

Arguments ind {K}. Arguments lift_spec {K}. Arguments basis {K}. Arguments vkron {K}. Arguments dense {K}.
Arguments perm_matrix {K}. Arguments lift_impl {K}. Arguments lift_code {K}.
