(* Generic model of decompositions/_decomposition.py: rules applied in the order given, each to the
   output of the previous one; operations no rule applies to are kept unchanged and in order. *)
Require Import Coq.Lists.List Coq.Bool.Bool.
Import ListNotations.

Section Decompose.
  Variable op : Type.
  Record rule := mk_rule { pred : op -> bool; prod : op -> list op }.

  Definition step (r : rule) (o : op) : list op := if pred r o then prod r o else [o].

  Fixpoint decompose_operation (rules : list rule) (o : op) : list op :=
    match rules with
    | [] => [o]
    | r :: rs => flat_map (decompose_operation rs) (step r o)
    end.

  Definition decompose_operations (rules : list rule) (ops : list op) : list op :=
    flat_map (decompose_operation rules) ops.

  Lemma flat_map_singleton (l : list op) : flat_map (fun o => [o]) l = l.
  Proof. induction l as [|x l IH]; simpl; [reflexivity|]. rewrite IH. reflexivity. Qed.

  Lemma decompose_nil ops : decompose_operations [] ops = ops.
  Proof. apply flat_map_singleton. Qed.

  Lemma flat_map_flat_map {A B C} (f : A -> list B) (g : B -> list C) l :
    flat_map g (flat_map f l) = flat_map (fun x => flat_map g (f x)) l.
  Proof. induction l as [|x l IH]; simpl; [reflexivity|]. rewrite flat_map_app, IH. reflexivity. Qed.

  Lemma decompose_single_rule r ops : decompose_operations [r] ops = flat_map (step r) ops.
  Proof.
    unfold decompose_operations. apply flat_map_ext. intro o. cbn [decompose_operation].
    apply flat_map_singleton.
  Qed.

  (* rules are applied in the order given, each to the output of the previous rule *)
  Lemma decompose_chain r rs ops :
    decompose_operations (r :: rs) ops = decompose_operations rs (decompose_operations [r] ops).
  Proof.
    rewrite decompose_single_rule. unfold decompose_operations. rewrite flat_map_flat_map. reflexivity.
  Qed.

  Lemma decompose_app rules ops1 ops2 :
    decompose_operations rules (ops1 ++ ops2) = decompose_operations rules ops1 ++ decompose_operations rules ops2.
  Proof. apply flat_map_app. Qed.

  (* an operation no rule applies to is kept as it is *)
  Lemma decompose_unmatched rules o : forallb (fun r => negb (pred r o)) rules = true ->
    decompose_operation rules o = [o].
  Proof.
    induction rules as [|r rs IH]; intro H; cbn [decompose_operation]; [reflexivity|].
    cbn [forallb] in H. apply andb_true_iff in H. destruct H as [H1 H2]. unfold step.
    apply negb_true_iff in H1. rewrite H1. cbn [flat_map]. rewrite IH by exact H2. reflexivity.
  Qed.

  Lemma decompose_all_unmatched rules ops :
    forallb (fun o => forallb (fun r => negb (pred r o)) rules) ops = true -> decompose_operations rules ops = ops.
  Proof.
    induction ops as [|o ops IH]; intro H; [reflexivity|]. cbn [forallb] in H. apply andb_true_iff in H.
    destruct H as [H1 H2]. unfold decompose_operations in *. cbn [flat_map].
    rewrite decompose_unmatched by exact H1. rewrite IH by exact H2. reflexivity.
  Qed.

  (* meaning: any monoid-valued interpretation of operation lists with a congruence ("same action up to one
     global phase") is preserved provided every production preserves it *)
  Variable M : Type.
  Variable mone : M.
  Variable mdot : M -> M -> M.                (* mdot a b = "a then b" *)
  Variable equiv : M -> M -> Prop.
  Hypothesis equiv_refl : forall a, equiv a a.
  Hypothesis equiv_trans : forall a b c, equiv a b -> equiv b c -> equiv a c.
  Hypothesis equiv_dot : forall a a' b b', equiv a a' -> equiv b b' -> equiv (mdot a b) (mdot a' b').
  Hypothesis dot_one_r : forall a, equiv (mdot a mone) a.
  Variable sem1 : op -> M.
  Definition sem (ops : list op) : M := fold_right (fun o acc => mdot (sem1 o) acc) mone ops.
  Hypothesis sem_app : forall a b, equiv (sem (a ++ b)) (mdot (sem a) (sem b)).

  Lemma sem_flat_map (f : op -> list op) ops :
    (forall o, equiv (sem (f o)) (sem [o])) -> equiv (sem (flat_map f ops)) (sem ops).
  Proof.
    intro H. induction ops as [|o ops IH]; cbn [flat_map]; [apply equiv_refl|].
    eapply equiv_trans; [apply sem_app|].
    change (sem (o :: ops)) with (mdot (sem1 o) (sem ops)).
    eapply equiv_trans; [apply equiv_dot; [apply H|apply IH]|].
    cbn [sem fold_right]. apply equiv_dot; [apply dot_one_r|apply equiv_refl].
  Qed.

  Lemma decompose_operation_preserves rules :
    (forall r o, In r rules -> pred r o = true -> equiv (sem (prod r o)) (sem [o])) ->
    forall o, equiv (sem (decompose_operation rules o)) (sem [o]).
  Proof.
    induction rules as [|r rs IH]; intros H o; cbn [decompose_operation]; [apply equiv_refl|].
    eapply equiv_trans.
    - apply sem_flat_map. apply IH. intros r' o' Hin. apply H. right. exact Hin.
    - unfold step. destruct (pred r o) eqn:E; [apply H; [left; reflexivity|exact E]|apply equiv_refl].
  Qed.

  Lemma decompose_preserves rules ops :
    (forall r o, In r rules -> pred r o = true -> equiv (sem (prod r o)) (sem [o])) ->
    equiv (sem (decompose_operations rules ops)) (sem ops).
  Proof. intro H. apply sem_flat_map. apply decompose_operation_preserves. exact H. Qed.
End Decompose.
