(* Model of decompositions/_orquestra_decompositions.py: the U3 -> RZ, RY, RZ rule on gate operations and
   decompose_orquestra_circuit (property C18).  Operations are described by what the rule looks at:
   the gate kind, the number of controls (ControlledGate.num_control_qubits, 0 = not controlled),
   the parameters, and the qubit tuple.  Everything else is an opaque gate [GOther id]. *)
Require Import Coq.Lists.List Coq.Arith.Arith Coq.Bool.Bool.
Require Import OQ.Circ.Decompose.
Import ListNotations.

Section U3Rule.
  Variable P : Type.                      (* parameters *)

  Inductive gdesc : Type :=
  | GU3 (k : nat) (theta phi lambda_ : P)   (* U3, or ControlledGate(U3, k) for k >= 1 *)
  | GRZ (k : nat) (a : P)
  | GRY (k : nat) (a : P)
  | GOther (id : nat).

  Record dop : Type := mk_dop { d_gate : gdesc; d_qs : list nat }.

  (* predicate: gate.name == "U3", or a ControlledGate whose wrapped gate's name is "U3" *)
  Definition u3_pred (o : dop) : bool := match d_gate o with GU3 _ _ _ _ => true | _ => false end.

  (* production: [RZ(phi), RY(theta), RZ(lambda)], each controlled like the original, on the same qubit tuple,
     returned reversed, i.e. in application order RZ(lambda), RY(theta), RZ(phi) *)
  Definition u3_prod (o : dop) : list dop :=
    match d_gate o with
    | GU3 k theta phi lambda_ =>
      rev [mk_dop (GRZ k phi) (d_qs o); mk_dop (GRY k theta) (d_qs o); mk_dop (GRZ k lambda_) (d_qs o)]
    | _ => [o]
    end.

  Definition u3_rule : rule dop := mk_rule dop u3_pred u3_prod.

  (* decompose_orquestra_circuit: operations decomposed, register width kept *)
  Definition decompose_circuit (rules : list (rule dop)) (c : list dop * nat) : list dop * nat :=
    (decompose_operations dop rules (fst c), snd c).

  Lemma decompose_circuit_nil c : decompose_circuit [] c = c.
  Proof. destruct c as [ops n]. unfold decompose_circuit. cbn [fst snd]. rewrite decompose_nil. reflexivity. Qed.

  Lemma decompose_circuit_width rules c : snd (decompose_circuit rules c) = snd c.
  Proof. reflexivity. Qed.

  Lemma u3_prod_order k theta phi lambda_ qs :
    u3_prod (mk_dop (GU3 k theta phi lambda_) qs)
    = [mk_dop (GRZ k lambda_) qs; mk_dop (GRY k theta) qs; mk_dop (GRZ k phi) qs].
  Proof. reflexivity. Qed.

  (* the output of the rule contains no U3: applying it twice is applying it once *)
  Lemma u3_rule_idempotent ops :
    decompose_operations dop [u3_rule; u3_rule] ops = decompose_operations dop [u3_rule] ops.
  Proof.
    rewrite decompose_chain. apply decompose_all_unmatched.
    rewrite decompose_single_rule. apply forallb_forall. intros o Hin. apply in_flat_map in Hin.
    destruct Hin as [o0 [_ Hin]]. cbn [forallb pred u3_rule]. rewrite andb_true_r.
    unfold step in Hin. cbn [pred prod u3_rule] in Hin. unfold u3_pred, u3_prod in *.
    destruct (d_gate o0) eqn:E; cbn [rev app In] in Hin;
      try (destruct Hin as [<-|[]]; rewrite E; reflexivity).
    destruct Hin as [<-|[<-|[<-|[]]]]; reflexivity.
  Qed.
End U3Rule.

Arguments GU3 {P}. Arguments GRZ {P}. Arguments GRY {P}. Arguments GOther {P}. Arguments mk_dop {P}.
Arguments d_gate {P}. Arguments d_qs {P}. Arguments u3_rule {P}. Arguments u3_pred {P}. Arguments u3_prod {P}.
Arguments decompose_circuit {P}.
