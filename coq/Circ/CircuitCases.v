(* Comparison helpers for the C01 correspondence cases: literals over the Gaussian rationals and boolean
   comparisons of the model's matrices / vectors with what the implementation returned. *)
Require Import Coq.Arith.Arith Coq.ZArith.ZArith Coq.QArith.QArith Coq.QArith.Qcanon Coq.Lists.List Coq.Bool.Bool.
Require Import OQ.Base.Ring OQ.Base.Sums OQ.Base.Bits OQ.Base.Mat OQ.Base.CaseEq OQ.Circ.Lift OQ.Circ.Circuit.
Import ListNotations.

Notation GQr := GQring.

(* (a + b i) / e *)
Definition gd (a b : Z) (e : positive) : GQ := gq_lit (Qmake a e) (Qmake b e).
Definition gz : GQ := gq0.

(* sparse rows: (column, value) pairs in increasing column order; everything else is zero *)
Fixpoint row_of (d : nat) (j : nat) (r : list (nat * GQ)) : list GQ :=
  match d with
  | O => []
  | S d' => match r with
            | (c, v) :: r' => if Nat.eqb c j then v :: row_of d' (S j) r' else gz :: row_of d' (S j) r
            | [] => gz :: row_of d' (S j) []
            end
  end.
Definition smat := list (list (nat * GQ)).
Definition dense_of (d : nat) (m : smat) : list (list GQ) := map (row_of d 0) m.
(* gate matrices are passed densely (they are small) *)
Definition gmat (L : list (list GQ)) : Mat GQr := @of_list GQr L.
Definition G (L : list (list GQ)) (qs : list nat) : gateapp GQr := mk_gateapp (gmat L) qs.
Definition vec (l : list GQ) : Vec GQr := @vof_list GQr l.

Definition lgeqb := leqb gq_eqb.
Definition mat_eqb (n : nat) (M : Mat GQr) (out : smat) : bool :=
  leqb lgeqb (to_list (2 ^ n) M) (dense_of (2 ^ n) out).
Definition vec_eqb (n : nat) (v : Vec GQr) (out : list GQ) : bool := lgeqb (@vto_list GQr (2 ^ n) v) out.

(* op.lifted_matrix(n): model mirror and specification against the implementation's matrix *)
Definition lift_eqb (g : gateapp GQr) (n : nat) (out : smat) : bool :=
  mat_eqb n (lifted n g) out && mat_eqb n (lift_spec (g_mat g) (g_qs g) n) out.
(* does the call raise? *)
Definition lift_raises (g : gateapp GQr) (n : nat) : bool :=
  match lift_code (g_mat g) (g_qs g) n with None => true | Some _ => false end.

(* Circuit(gs, n_qubits).to_unitary(): the width the constructor chose and the matrix *)
Definition unitary_eqb (gs : list (gateapp GQr)) (nopt : option nat) (w : nat) (out : smat) : bool :=
  let c := mk_circuit gs nopt in Nat.eqb (c_n c) w && mat_eqb w (c_unitary c) out.
Definition unitary_raises (n : nat) (ops : list (op GQr)) : bool :=
  match to_unitary_c n ops with None => true | Some _ => false end.

Definition run_eqb (n : nat) (ops : list (op GQr)) (v0 : list GQ) (out : list GQ) : bool :=
  vec_eqb n (run n ops (vec v0)) out.
(* step by step: every intermediate state *)
Fixpoint steps (n : nat) (ops : list (op GQr)) (v : Vec GQr) : list (list GQ) :=
  match ops with
  | [] => []
  | o :: r => let v' := apply_op n o v in @vto_list GQr (2 ^ n) v' :: steps n r v'
  end.
Definition steps_eqb (n : nat) (ops : list (op GQr)) (v0 : list GQ) (outs : list (list GQ)) : bool :=
  leqb lgeqb (steps n ops (vec v0)) outs.

(* the base-class simulator: recorded predicate values, the chunks it formed, the final state.
   The harness subclass's native method multiplies the chunk's to_unitary() into the state when the chunk has
   only gates (mode true), or applies the operations in order (mode false). *)
Definition native_by_unitary (n : nat) (seg : list (op GQr)) (v : Vec GQr) : Vec GQr :=
  match to_unitary_c n seg with
  | Some U => @vmemo GQr (2 ^ n) (mvec (2 ^ n) U v)
  | None => run n seg v
  end.
Definition chunks_of (kops : list (bool * op GQr)) : list (bool * nat) :=
  map (fun s => (fst s, length (snd s))) (groupby fst kops).
Definition sim_eqb (by_unitary : bool) (n : nat) (kops : list (bool * op GQr)) (v0 : list GQ)
           (chunks : list (bool * nat)) (out : list GQ) : bool :=
  leqb (peqb Bool.eqb Nat.eqb) (chunks_of kops) chunks &&
  vec_eqb n (sim_keys (if by_unitary then native_by_unitary n else run n) n kops (vec v0)) out.
Definition symbolic_eqb (n : nat) (ops : list (op GQr)) (v0 : list GQ) (out : list GQ) : bool :=
  vec_eqb n (symbolic_sim n ops (vec v0)) out.
Definition zero_vec (n : nat) : list GQ := @vto_list GQr (2 ^ n) zero_state.

(* concatenation: widths of the operands, the resulting width, the unitary of the sum *)
Definition cadd_eqb (gs1 : list (gateapp GQr)) (n1 : option nat) (gs2 : list (gateapp GQr)) (n2 : option nat)
           (w1 w2 w : nat) (out : smat) : bool :=
  let a := mk_circuit gs1 n1 in
  let b := mk_circuit gs2 n2 in
  let c := cadd a b in
  Nat.eqb (c_n a) w1 && Nat.eqb (c_n b) w2 && Nat.eqb (c_n c) w && Nat.eqb (length (c_ops c)) (length gs1 + length gs2)
  && mat_eqb w (c_unitary c) out.
Definition cappend_eqb (gs1 : list (gateapp GQr)) (n1 : option nat) (g : gateapp GQr) (w1 w : nat) (out : smat) : bool :=
  let a := mk_circuit gs1 n1 in
  let c := cappend a g in
  Nat.eqb (c_n a) w1 && Nat.eqb (c_n c) w && mat_eqb w (c_unitary c) out.

(* ------------------------------------------------------------------ certified computation on small registers
   A generic gate matrix (pairwise distinct Gaussian-integer entries, so that any misplacement shows), every
   duplicate-free index tuple of arity 1..3 on registers of 1..nmax qubits: the code mirror and the
   specification agree entry by entry.  (The general theorem is LiftProofs.lift_impl_correct; this one is an
   independent evaluation of both definitions.) *)
Definition generic_gate : Mat GQr := fun i j => gd (Z.of_nat (1 + 8 * i + j)) (Z.of_nat (2 + 3 * j + 64 * i)) 1.
Fixpoint tuples_from (pool : list nat) (k : nat) : list (list nat) :=
  match k with
  | O => [[]]
  | S k' => flat_map (fun t => map (fun q => q :: t) (filter (fun q => negb (mem q t)) pool)) (tuples_from pool k')
  end.
Definition tuples_upto (n kmax : nat) : list (list nat) :=
  flat_map (fun k => tuples_from (seq 0 n) (S k)) (seq 0 (Nat.min kmax n)).
Definition lift_agree (qs : list nat) (n : nat) : bool :=
  leqb lgeqb (to_list (2 ^ n) (lift_impl generic_gate qs n)) (to_list (2 ^ n) (lift_spec generic_gate qs n)).
Definition lift_cert (nmax kmax : nat) : bool :=
  forallb (fun n => forallb (fun qs => lift_agree qs n) (tuples_upto n kmax)) (seq 1 nmax).
Definition lift_cert_count (nmax kmax : nat) : nat :=
  fold_right Nat.add 0%nat (map (fun n => length (tuples_upto n kmax)) (seq 1 nmax)).

Lemma lift_cert_4_3 : lift_cert 4 3 = true /\ lift_cert_count 4 3 = 60%nat.
Proof. split; vm_compute; reflexivity. Qed.

(* wide registers (seeded change C01-6): selected columns of op.lifted_matrix(n) against the specification's entry
   formula.  The mirror [lifted] equals [lift_spec] for every valid index tuple (Props/C01.v, lift_impl_correct), so for
   widths where multiplying the mirror's permutation matrices is too slow the comparison goes through the theorem. *)
Definition lift_cols_eqb (g : gateapp GQr) (n : nat) (cols : list (nat * list GQ)) : bool :=
  forallb (fun jc => lgeqb (map (fun i => lift_spec (g_mat g) (g_qs g) n i (fst jc)) (seq 0 (2 ^ n))) (snd jc)) cols.
