(* Gate expressions and their modifiers (property C07): circuits/_gates.py, classes MatrixFactoryGate,
   ControlledGate, Dagger, Exponential, Power (CustomGateDefinition.__call__ builds a MatrixFactoryGate, so
   built-in and custom gates are both [Base]).

   The Python methods do not simply wrap: they re-associate (Dagger.controlled = wrapped.controlled(k).dagger,
   Power.dagger = wrapped.dagger.power(e), ControlledGate.power pushes inside the control, ...).  The smart
   constructors below mirror each class's method body one to one; a constructor call that raises
   (ControlledGate.__post_init__ : fewer than one control; Exponential/Power.__post_init__ : free symbols)
   is [None] (every error on these paths is a ValueError).

   Interface for later users (C08 builds on this file):
     exponent            EInt z (Python int) | ERoot q (the float 1/q) | EOther tag (any other float, tag = str(e))
     gate P              Base name params num_qubits is_hermitian | Ctrl g k | Dag g | Exp g | Pow g e
                         (P = parameter type, [pfree : P -> bool] = "has free symbols")
     num_qubits, params, name            the Python properties
     controlled k g, dagger g, gexp g, power e g, replace_params ps g  : option (gate P)   the Python methods
     modifier, apply_mod, apply_chain    a method call as data; chains of calls, left to right
     ctrl_total          sum of the control counts in a chain
     strip_ctrl          the gate under the outer ControlledGate wrappers
     nf                  invariant of every gate reachable from a Base by method calls (GateAstProofs.reachable_nf)
     wf                  what the constructors' __post_init__ checks guarantee for every Python object
     int_powers_only, herm_flags_sound, ctrl_ok      side conditions of the dagger / controlled theorems
     oracles, sem        matrix of a gate over a cring K; sympy's Matrix.exp / inv / fractional ** are the
                         fields of an [oracles] record, assumptions about them are separate records of laws
     diag_id d0 U        sympy.Matrix.diag(eye(d0), U)
   Theorems for later users: GateAstProofs.v (power_shape, dagger_shape, controlled_shape, chain_shape: qubit
   counts and parameters; wf_*/nf_* preservation; dagger_nf, controlled_nf, power_nf: what the methods do on
   reachable gates; replace_params_mod/_chain), GateAstSemProofs.v (diag_id_* algebra, mpow_* lemmas,
   dagger_sem, controlled_sem, controlled_sem_nf, power_nonneg_sem, power_neg_sem, power_root_sem, power_sem;
   hfs_*/ipo_* : herm_flags_sound / int_powers_only are preserved by the methods).                          *)
Require Import Coq.Arith.Arith Coq.ZArith.ZArith Coq.Lists.List Coq.Strings.String Coq.Bool.Bool.
Require Import Coq.Numbers.DecimalString.
Require Import OQ.Base.Ring OQ.Base.Sums OQ.Base.Mat.
Import ListNotations.

Inductive exponent : Type :=
| EInt (z : Z)
| ERoot (q : positive)
| EOther (tag : string).

Inductive gate (P : Type) : Type :=
| Base (name : string) (ps : list P) (nq : nat) (herm : bool)
| Ctrl (g : gate P) (k : nat)
| Dag (g : gate P)
| Exp (g : gate P)
| Pow (g : gate P) (e : exponent).
Arguments Base {P}. Arguments Ctrl {P}. Arguments Dag {P}. Arguments Exp {P}. Arguments Pow {P}.

Inductive modifier : Type :=
| MCtrl (k : nat)
| MDag
| MExp
| MPow (e : exponent).

Definition obind {A B} (x : option A) (f : A -> option B) : option B :=
  match x with Some a => f a | None => None end.

Definition is_ctrl {P} (g : gate P) : bool := match g with Ctrl _ _ => true | _ => false end.

(* str(exponent) for Python ints; floats print through [root_str] (str(1/q)) or carry their text *)
Definition exp_str (root_str : positive -> string) (e : exponent) : string :=
  match e with
  | EInt z => NilZero.string_of_int (Z.to_int z)
  | ERoot q => root_str q
  | EOther t => t
  end.

Section Methods.
  Variable P : Type.
  Variable pfree : P -> bool.             (* the parameter has free symbols *)

  Fixpoint num_qubits (g : gate P) : nat :=
    match g with
    | Base _ _ n _ => n
    | Ctrl w k => num_qubits w + k
    | Dag w | Exp w | Pow w _ => num_qubits w
    end.

  Fixpoint params (g : gate P) : list P :=
    match g with
    | Base _ ps _ _ => ps
    | Ctrl w _ | Dag w | Exp w | Pow w _ => params w
    end.

  Fixpoint name (root_str : positive -> string) (g : gate P) : string :=
    match g with
    | Base n _ _ _ => n
    | Ctrl _ _ => "Control"%string
    | Dag w => (name root_str w ++ "_Dagger")%string
    | Exp _ => "Exponential"%string
    | Pow w e => (name root_str w ++ "^" ++ exp_str root_str e)%string
    end.

  (* Gate.free_symbols = get_free_symbols(self.params) for every class *)
  Definition has_free (g : gate P) : bool := existsb pfree (params g).

  (* the three checked constructors *)
  Definition mk_ctrl (g : gate P) (k : nat) : option (gate P) :=
    if k <? 1 then None else Some (Ctrl g k).
  Definition mk_exp (g : gate P) : option (gate P) :=
    if has_free g then None else Some (Exp g).
  Definition mk_pow (g : gate P) (e : exponent) : option (gate P) :=
    if has_free g then None else Some (Pow g e).

  (* .power(e): ControlledGate pushes the power inside the control, every other class wraps *)
  Fixpoint power (e : exponent) (g : gate P) : option (gate P) :=
    match g with
    | Ctrl w k => obind (power e w) (fun pw => mk_ctrl pw k)
    | _ => mk_pow g e
    end.

  (* .exp: every class wraps *)
  Definition gexp (g : gate P) : option (gate P) := mk_exp g.

  (* .dagger *)
  Fixpoint dagger (g : gate P) : option (gate P) :=
    match g with
    | Base _ _ _ h => Some (if h then g else Dag g)
    | Ctrl w k => obind (dagger w) (fun dw => mk_ctrl dw k)
    | Dag w => Some w
    | Exp w => obind (dagger w) mk_exp
    | Pow w e => obind (dagger w) (power e)
    end.

  (* .controlled(k) *)
  Fixpoint controlled (k : nat) (g : gate P) : option (gate P) :=
    match g with
    | Base _ _ _ _ => mk_ctrl g k
    | Exp _ => mk_ctrl g k
    | Ctrl w k0 => mk_ctrl w (k0 + k)
    | Dag w => obind (controlled k w) dagger
    | Pow w e => obind (controlled k w) (power e)
    end.

  (* .replace_params(ps): dataclasses.replace on the base gate, then the wrappers are re-applied through
     the methods (not the constructors) *)
  Fixpoint replace_params (ps : list P) (g : gate P) : option (gate P) :=
    match g with
    | Base n _ q h => Some (Base n ps q h)
    | Ctrl w k => obind (replace_params ps w) (controlled k)
    | Dag w => obind (replace_params ps w) dagger
    | Exp w => obind (replace_params ps w) mk_exp
    | Pow w e => obind (replace_params ps w) (power e)
    end.

  Definition apply_mod (m : modifier) (g : gate P) : option (gate P) :=
    match m with
    | MCtrl k => controlled k g
    | MDag => dagger g
    | MExp => gexp g
    | MPow e => power e g
    end.

  Fixpoint apply_chain (ms : list modifier) (g : gate P) : option (gate P) :=
    match ms with
    | [] => Some g
    | m :: r => obind (apply_mod m g) (apply_chain r)
    end.

  Definition ctrl_count (m : modifier) : nat := match m with MCtrl k => k | _ => O end.
  Fixpoint ctrl_total (ms : list modifier) : nat :=
    match ms with
    | [] => O
    | m :: r => ctrl_count m + ctrl_total r
    end.

  Fixpoint strip_ctrl (g : gate P) : gate P :=
    match g with Ctrl w _ => strip_ctrl w | _ => g end.

  Definition is_base (g : gate P) : bool := match g with Base _ _ _ _ => true | _ => false end.

  (* what every object built by the constructors satisfies (the __post_init__ checks) *)
  Fixpoint wf (g : gate P) : bool :=
    match g with
    | Base _ _ _ _ => true
    | Ctrl w k => (1 <=? k) && wf w
    | Dag w => wf w
    | Exp w => negb (has_free w) && wf w
    | Pow w _ => negb (has_free w) && wf w
    end.

  (* what every object built by METHOD calls from a base gate satisfies in addition: a Dagger node sits
     directly on a base gate that is not flagged hermitian, ControlledGate never wraps ControlledGate, Power
     never wraps ControlledGate *)
  Fixpoint nf (g : gate P) : bool :=
    match g with
    | Base _ _ _ _ => true
    | Ctrl w k => (1 <=? k) && negb (is_ctrl w) && nf w
    | Dag w => match w with Base _ _ _ h => negb h | _ => false end
    | Exp w => negb (has_free w) && nf w
    | Pow w _ => negb (has_free w) && negb (is_ctrl w) && nf w
    end.

  Definition is_int (e : exponent) : bool := match e with EInt _ => true | _ => false end.
  Fixpoint int_powers_only (g : gate P) : bool :=
    match g with
    | Base _ _ _ _ => true
    | Ctrl w _ | Dag w | Exp w => int_powers_only w
    | Pow w e => is_int e && int_powers_only w
    end.
End Methods.

Arguments num_qubits {P}. Arguments params {P}. Arguments name {P}. Arguments has_free {P}.
Arguments mk_ctrl {P}. Arguments mk_exp {P}. Arguments mk_pow {P}. Arguments power {P}. Arguments gexp {P}.
Arguments dagger {P}. Arguments controlled {P}. Arguments replace_params {P}. Arguments apply_mod {P}.
Arguments apply_chain {P}. Arguments strip_ctrl {P}. Arguments is_base {P}. Arguments wf {P}. Arguments nf {P}.
Arguments int_powers_only {P}.

(* ------------------------------------------------------------------------------------------- matrices *)

(* sympy.Matrix.diag(sympy.eye(d0), U) *)
Definition diag_id {K : cring} (d0 : nat) (U : Mat K) : Mat K :=
  fun i j => if (i <? d0) || (j <? d0) then eye i j else U (i - d0) (j - d0).

(* What the model does not compute: the matrix factories of the base gates and sympy's matrix functions
   (all take the dimension of the square matrix first).
     o_factory name params     matrix_factory applied to the params
     o_exp d M                 M.exp()
     o_inv d M                 M.inv()           (sympy evaluates M ** (-n) as M.inv() ** n)
     o_root q d M              M ** (1/q)
     o_other tag d M           M ** e for any other float e (tag = str(e))                                *)
Record oracles (K : cring) (P : Type) : Type := mk_oracles {
  o_factory : string -> list P -> Mat K;
  o_exp : nat -> Mat K -> Mat K;
  o_inv : nat -> Mat K -> Mat K;
  o_root : positive -> nat -> Mat K -> Mat K;
  o_other : string -> nat -> Mat K -> Mat K
}.
Arguments o_factory {K P}. Arguments o_exp {K P}. Arguments o_inv {K P}. Arguments o_root {K P}.
Arguments o_other {K P}.

Section Sem.
  Variable K : cring.
  Variable P : Type.
  Variable o : oracles K P.

  Definition dim (g : gate P) : nat := 2 ^ num_qubits g.

  (* M ** e for a d x d matrix *)
  Definition mpowz (d : nat) (M : Mat K) (e : exponent) : Mat K :=
    match e with
    | EInt z => if (0 <=? z)%Z then mpow d M (Z.to_nat z) else mpow d (o_inv o d M) (Z.to_nat (- z))
    | ERoot q => o_root o q d M
    | EOther t => o_other o t d M
    end.

  (* the .matrix property *)
  Fixpoint sem (g : gate P) : Mat K :=
    match g with
    | Base n ps _ _ => o_factory o n ps
    | Ctrl w k => diag_id (2 ^ (num_qubits w + k) - 2 ^ num_qubits w) (sem w)
    | Dag w => adj (sem w)
    | Exp w => o_exp o (dim w) (sem w)
    | Pow w e => mpowz (dim w) (sem w) e
    end.

  (* every base gate flagged is_hermitian has a self-adjoint matrix *)
  Fixpoint herm_flags_sound (g : gate P) : Prop :=
    match g with
    | Base n ps q h => h = true -> mat_eq (2 ^ q) (adj (o_factory o n ps)) (o_factory o n ps)
    | Ctrl w _ | Dag w | Exp w | Pow w _ => herm_flags_sound w
    end.

  (* where .controlled has to call .dagger (a Dagger node met on the way down through Dagger/Power nodes), the
     gate under it must be one on which .dagger is right: integer powers only (finding F8) and sound flags *)
  Fixpoint ctrl_ok (g : gate P) : Prop :=
    match g with
    | Base _ _ _ _ | Exp _ | Ctrl _ _ => True
    | Dag w => ctrl_ok w /\ herm_flags_sound w /\ int_powers_only w = true
    | Pow w _ => ctrl_ok w
    end.

  (* Assumptions about sympy, grouped by the theorems that need them. *)
  (* Matrix.exp(): depends only on the d x d block; exp(M^dagger) = exp(M)^dagger *)
  Record exp_laws : Prop := {
    exp_compat : forall d A B, mat_eq d A B -> mat_eq d (o_exp o d A) (o_exp o d B);
    exp_adj : forall d A, mat_eq d (o_exp o d (adj A)) (adj (o_exp o d A))
  }.
  (* inv(): depends only on the block; the inverse of diag(I, U) is diag(I, inv U); inv(M^dagger) = inv(M)^dagger *)
  Record inv_laws : Prop := {
    inv_compat : forall d A B, mat_eq d A B -> mat_eq d (o_inv o d A) (o_inv o d B);
    inv_diag : forall a d U, mat_eq (a + d) (o_inv o (a + d) (diag_id a U)) (diag_id a (o_inv o d U));
    inv_adj : forall d A, mat_eq d (o_inv o d (adj A)) (adj (o_inv o d A))
  }.
  (* fractional powers: depend only on the block; a fractional power of diag(I, U) is diag(I, power of U) *)
  Record frac_laws : Prop := {
    root_compat : forall q d A B, mat_eq d A B -> mat_eq d (o_root o q d A) (o_root o q d B);
    root_diag : forall q a d U, mat_eq (a + d) (o_root o q (a + d) (diag_id a U)) (diag_id a (o_root o q d U));
    other_compat : forall t d A B, mat_eq d A B -> mat_eq d (o_other o t d A) (o_other o t d B);
    other_diag : forall t a d U, mat_eq (a + d) (o_other o t (a + d) (diag_id a U)) (diag_id a (o_other o t d U))
  }.
End Sem.

Arguments dim {P}. Arguments mpowz {K P}. Arguments sem {K P}. Arguments herm_flags_sound {K P}.
Arguments ctrl_ok {K P}. Arguments exp_laws {K P}. Arguments inv_laws {K P}. Arguments frac_laws {K P}.
