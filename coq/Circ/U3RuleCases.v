(* Comparison helpers for the C18 correspondence cases: parameters are exact rationals. *)
Require Import Coq.QArith.QArith Coq.Lists.List Coq.Arith.Arith Coq.Bool.Bool.
Require Import OQ.Base.CaseEq OQ.Circ.Decompose OQ.Circ.U3Rule.
Import ListNotations.

Definition gdesc_eqb (a b : gdesc Q) : bool :=
  match a, b with
  | GU3 k t p l, GU3 k' t' p' l' => Nat.eqb k k' && qeqb t t' && qeqb p p' && qeqb l l'
  | GRZ k x, GRZ k' x' => Nat.eqb k k' && qeqb x x'
  | GRY k x, GRY k' x' => Nat.eqb k k' && qeqb x x'
  | GOther i, GOther j => Nat.eqb i j
  | _, _ => false
  end.
Definition dop_eqb (a b : dop Q) : bool := gdesc_eqb (d_gate a) (d_gate b) && lneqb (d_qs a) (d_qs b).

(* a harness-defined rule given by a table: an opaque gate [id] on qubits qs is replaced by the listed opaque gates,
   each on the qubits of qs selected by position *)
Definition sel_rule (id : nat) (outs : list (nat * list nat)) : rule (dop Q) :=
  mk_rule (dop Q)
    (fun o => match d_gate o with GOther i => Nat.eqb i id | _ => false end)
    (fun o => map (fun out => mk_dop (GOther (fst out)) (map (fun i => nth i (d_qs o) 0%nat) (snd out))) outs).

Inductive rule_desc := RU3 | RSel (id : nat) (outs : list (nat * list nat)).
Definition rule_of (r : rule_desc) : rule (dop Q) :=
  match r with RU3 => u3_rule | RSel id outs => sel_rule id outs end.

Definition decompose_eqb (rules : list rule_desc) (ops : list (dop Q)) (n : nat) (out : list (dop Q)) (n_out : nat) : bool :=
  let r := decompose_circuit (map rule_of rules) (ops, n) in
  leqb dop_eqb (fst r) out && Nat.eqb (snd r) n_out.
