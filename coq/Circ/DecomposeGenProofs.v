(* The definitions GENERATED from decompositions/_decomposition.py, decompositions/_orquestra_decompositions.py and
   circuits/_builtin_gates.py (Gen/DecomposeGen.v, by tr/tr_decompose.py) agree with the hand-written model of
   Circ/Decompose.v and Circ/U3Rule.v that the theorems of Props/C18.v are about.  This file is re-checked against the
   freshly generated text on every run: a semantic edit of the Python source either is rejected by the translator or
   changes the generated definitions, and then a proof below fails.

   Shape of the agreement.
     - decompose_operation(s): the generated functions take rules whose methods may raise.  For rules that do not
       raise (the model's rules, embedded by [rule_py]) they return exactly the model's result, for every operation
       type, every rule list and every input ([decompose_operation_gen_eq], [decompose_operations_gen_eq]).  More
       generally ([decompose_operations_gen_sim]) they commute with any abstraction of Python-side operations to
       model-side operations under which each Python rule simulates a model rule; the unfolding equations
       [decompose_operation_gen_nil/_cons] describe them for arbitrary (also raising) rules.
     - the U3 rule: the model describes an operation by (kind, number of controls, parameters, qubits) ([desc], the
       function the correspondence harness implements as Table.desc).  The generated predicate is characterised on
       ALL gate objects ([predicate_gen_all]: it looks at names only) and equals the model's predicate on the
       description of every operation in which the name "U3" is carried by the built-in gate only ([describable]);
       the generated production is characterised on ALL operations ([production_gen_all]: ValueError unless there are
       exactly three parameters, or for a ControlledGate object with no controls; otherwise the three rotations) and
       on every describable matched operation its output is described by the model's production.
     - decompose_orquestra_circuit: equals the model for every circuit whose recorded width is positive or that is
       empty; for recorded width 0 the width is recomputed from the decomposed operations
       ([decompose_orquestra_circuit_gen_width0]) - the model keeps 0. *)
Require Import Coq.Lists.List Coq.Strings.String Coq.Bool.Bool Coq.Arith.Arith Coq.micromega.Lia.
Require Import OQ.Circ.DecomposeTrSupport OQ.Gen.DecomposeGen OQ.Circ.Decompose OQ.Circ.U3Rule.
Import ListNotations.

(* ------------------------------------------------------------------ comprehensions *)
Lemma py_comp_pure {A B} (f : A -> list B) l : py_comp l (fun a => Ok (f a)) = Ok (flat_map f l).
Proof. induction l as [|a r IH]; cbn [py_comp flat_map bind]; [reflexivity|]. rewrite IH. reflexivity. Qed.

Lemma py_comp_singleton {A} (l : list A) : py_comp l (fun a => Ok [a]) = Ok l.
Proof. rewrite (py_comp_pure (fun a => [a])). f_equal. induction l as [|a r IH]; cbn; [reflexivity|]. now rewrite IH. Qed.

(* ------------------------------------------------------------------ decompose_operation, any rules *)
Lemma decompose_operation_gen_nil {Op} (o : Op) : decompose_operation_gen o [] = Ok [o].
Proof. reflexivity. Qed.

Lemma decompose_operation_gen_cons {Op} (o : Op) R Rs :
  decompose_operation_gen o (R :: Rs) =
  bind (m_predicate R o) (fun b =>
  bind (if b then m_production R o else Ok [o]) (fun l =>
  py_comp l (fun o' => bind (decompose_operation_gen o' Rs) (fun l' => Ok l')))).
Proof.
  (* one unfolding of the generated Fixpoint, then a case analysis that does not depend on how the source spells the
     conditional *)
  cbn [decompose_operation_gen py_truth_seq negb].
  assert (Hc : forall l : list Op,
             py_comp l (fun o' => bind (decompose_operation_gen o' Rs) (fun l' => py_comp l' (fun x => Ok [x])))
             = py_comp l (fun o' => bind (decompose_operation_gen o' Rs) (fun l' => Ok l'))).
  { induction l as [|x l IH]; cbn [py_comp]; [reflexivity|]. rewrite IH.
    destruct (decompose_operation_gen x Rs) as [l'|e]; [|reflexivity]. cbn [bind]. now rewrite py_comp_singleton. }
  destruct (m_predicate R o) as [[|]|e]; cbn [bind negb]; try reflexivity;
    try (destruct (m_production R o) as [l|e]; cbn [bind]; [|reflexivity]); apply Hc.
Qed.

Lemma decompose_operations_gen_unfold {Op} (ops : list Op) Rs :
  decompose_operations_gen ops Rs = py_comp ops (fun o => bind (decompose_operation_gen o Rs) (fun l => Ok l)).
Proof.
  unfold decompose_operations_gen. induction ops as [|x l IH]; cbn [py_comp]; [reflexivity|]. rewrite IH.
  destruct (decompose_operation_gen x Rs) as [l'|e]; [|reflexivity]. cbn [bind]. now rewrite py_comp_singleton.
Qed.

(* ------------------------------------------------------------------ simulation *)
Section Simulation.
  Variables (POp MOp : Type) (abs : POp -> MOp) (Inv : POp -> Prop).

  (* the Python rule R, on operations satisfying Inv, behaves as the model rule r on their abstractions *)
  Definition simulates (R : DecompositionRule_gen POp) (r : rule MOp) : Prop :=
    forall o, Inv o ->
      m_predicate R o = Ok (pred MOp r (abs o)) /\
      (pred MOp r (abs o) = true ->
         exists l, m_production R o = Ok l /\ map abs l = prod MOp r (abs o) /\ Forall Inv l).

  Lemma comp_sim (F : POp -> result (list POp)) (G : MOp -> list MOp) :
    (forall o, Inv o -> exists out, F o = Ok out /\ map abs out = G (abs o) /\ Forall Inv out) ->
    forall l, Forall Inv l ->
    exists out, py_comp l (fun o => bind (F o) (fun l' => Ok l')) = Ok out
                /\ map abs out = flat_map G (map abs l) /\ Forall Inv out.
  Proof.
    intros HF l Hl. induction Hl as [|x l Hx Hl IH]; cbn [py_comp map flat_map].
    - exists []. split; [reflexivity|]. split; [reflexivity|constructor].
    - destruct (HF x Hx) as (o1 & E1 & M1 & I1). destruct IH as (o2 & E2 & M2 & I2).
      rewrite E1, E2. cbn [bind]. exists (o1 ++ o2). split; [reflexivity|]. split.
      + rewrite map_app, M1, M2. reflexivity.
      + apply Forall_app. split; assumption.
  Qed.

  Lemma decompose_operation_gen_sim Rs rs : Forall2 simulates Rs rs -> forall o, Inv o ->
    exists out, decompose_operation_gen o Rs = Ok out
                /\ map abs out = decompose_operation MOp rs (abs o) /\ Forall Inv out.
  Proof.
    induction 1 as [|R r Rs rs HR HRs IH]; intros o Ho.
    - exists [o]. split; [reflexivity|]. split; [reflexivity|]. constructor; [assumption|constructor].
    - rewrite decompose_operation_gen_cons. cbn [decompose_operation]. unfold step.
      destruct (HR o Ho) as [Hp Hq]. rewrite Hp. cbn [bind].
      assert (Hl : exists l, (if pred MOp r (abs o) then m_production R o else Ok [o]) = Ok l
                             /\ map abs l = (if pred MOp r (abs o) then prod MOp r (abs o) else [abs o]) /\ Forall Inv l).
      { destruct (pred MOp r (abs o)); [apply Hq; reflexivity|].
        exists [o]. split; [reflexivity|]. split; [reflexivity|]. constructor; [assumption|constructor]. }
      destruct Hl as (l & El & Ml & Il). rewrite El. cbn [bind].
      destruct (comp_sim (fun o' => decompose_operation_gen o' Rs) (decompose_operation MOp rs) IH l Il) as (out & E & Mo & Io).
      exists out. split; [exact E|]. split; [|exact Io]. rewrite Mo, Ml. reflexivity.
  Qed.

  Theorem decompose_operations_gen_sim Rs rs : Forall2 simulates Rs rs -> forall ops, Forall Inv ops ->
    exists out, decompose_operations_gen ops Rs = Ok out
                /\ map abs out = decompose_operations MOp rs (map abs ops) /\ Forall Inv out.
  Proof.
    intros H ops Hops. rewrite decompose_operations_gen_unfold. unfold decompose_operations.
    apply (comp_sim (fun o => decompose_operation_gen o Rs) (decompose_operation MOp rs)); [|exact Hops].
    apply decompose_operation_gen_sim. exact H.
  Qed.
End Simulation.

(* ------------------------------------------------------------------ rules that do not raise: equality with the model *)
Section Pure.
  Variable Op : Type.

  (* a model rule as a Python rule object: both methods return normally *)
  Definition rule_py (r : rule Op) : DecompositionRule_gen Op :=
    mk_DecompositionRule_gen (fun o => Ok (prod Op r o)) (fun o => Ok (pred Op r o)).

  Lemma rule_py_simulates rs : Forall2 (simulates Op Op (fun o => o) (fun _ => True)) (map rule_py rs) rs.
  Proof.
    induction rs as [|r rs IH]; cbn [map]; constructor; [|exact IH].
    intros o _. split; [reflexivity|]. intros _. exists (prod Op r o). cbn [rule_py m_production].
    split; [reflexivity|]. split; [apply map_id|]. apply Forall_forall. intros; exact I.
  Qed.

  Lemma all_true (l : list Op) : Forall (fun _ => True) l.
  Proof. apply Forall_forall. intros; exact I. Qed.

  Theorem decompose_operation_gen_eq : forall (rules : list (rule Op)) (o : Op),
    decompose_operation_gen o (map rule_py rules) = Ok (decompose_operation Op rules o).
  Proof.
    intros rules o.
    destruct (decompose_operation_gen_sim Op Op (fun o => o) (fun _ => True) _ _ (rule_py_simulates rules) o I) as (out & E & Mo & _).
    rewrite map_id in Mo. now rewrite E, Mo.
  Qed.

  Theorem decompose_operations_gen_eq : forall (rules : list (rule Op)) (ops : list Op),
    decompose_operations_gen ops (map rule_py rules) = Ok (decompose_operations Op rules ops).
  Proof.
    intros rules ops.
    destruct (decompose_operations_gen_sim Op Op (fun o => o) (fun _ => True) _ _ (rule_py_simulates rules) ops (all_true ops))
      as (out & E & Mo & _).
    rewrite !map_id in Mo. now rewrite E, Mo.
  Qed.
End Pure.

(* ------------------------------------------------------------------ the U3 rule *)
Section U3.
  Variable P : Type.
  Variable other_id : pygate P -> nat.        (* any numbering of the gates the model treats as opaque *)

  (* g with k controls: g itself for k = 0, ControlledGate(g, k) otherwise *)
  Definition ctl (k : nat) (g : pygate P) : pygate P := match k with 0 => g | S _ => ControlledGate g k end.

  (* number of controls and the gate below them, as the rule sees them *)
  Definition split_ctl (g : pygate P) : nat * pygate P :=
    match g with ControlledGate w k => (k, w) | _ => (0, g) end.

  Definition is_builtin (name fac : string) (g : pygate P) : option (list P) :=
    match g with
    | MatrixFactoryGate n f ps 1 false => if String.eqb n name && String.eqb f fac then Some ps else None
    | _ => None
    end.

  (* the model's description of a gate object: the built-in U3 / RZ / RY, possibly under a ControlledGate; all else opaque *)
  Definition desc_gate (g : pygate P) : gdesc P :=
    let k := fst (split_ctl g) in
    let w := snd (split_ctl g) in
    match is_builtin "U3" "u3_matrix" w, is_builtin "RZ" "rz_matrix" w, is_builtin "RY" "ry_matrix" w with
    | Some [t; p; l], _, _ => GU3 k t p l
    | None, Some [a], _ => GRZ k a
    | None, None, Some [a] => GRY k a
    | _, _, _ => GOther (other_id g)
    end.
  Definition desc (o : pyop P) : dop P := mk_dop (desc_gate (op_gate o)) (op_qubit_indices o).

  (* the generated prototypes are the gates the description looks for *)
  Lemma desc_gate_U3 k t p l : desc_gate (ctl k (U3_gen [t; p; l])) = GU3 k t p l.
  Proof. destruct k; reflexivity. Qed.
  Lemma desc_gate_RZ k a : desc_gate (ctl k (RZ_gen [a])) = GRZ k a.
  Proof. destruct k; reflexivity. Qed.
  Lemma desc_gate_RY k a : desc_gate (ctl k (RY_gen [a])) = GRY k a.
  Proof. destruct k; reflexivity. Qed.

  (* operations the model can describe faithfully: the name "U3" (of the gate, or of the gate wrapped by a
     ControlledGate) is carried only by the built-in gate U3(t, p, l) - the uniqueness of names that circuits/_gates.py
     asks of gate implementers - and a ControlledGate has at least one control (its __post_init__ check) *)
  Definition describable (o : pyop P) : Prop :=
    (gate_name (snd (split_ctl (op_gate o))) = "U3"%string ->
       exists t p l, snd (split_ctl (op_gate o)) = U3_gen [t; p; l]) /\
    (forall w k, op_gate o = ControlledGate w k -> 1 <= k).

  (* ---- predicate *)
  (* what the generated predicate computes on any operation: it compares names only *)
  Definition matches_by_name (o : pyop P) : bool :=
    String.eqb (gate_name (op_gate o)) "U3"
    || match op_gate o with ControlledGate w _ => String.eqb (gate_name w) "U3" | _ => false end.

  Theorem predicate_gen_all : forall o : pyop P, U3GateToRotation_predicate_gen o = Ok (matches_by_name o).
  Proof.
    intros [g qs]. unfold U3GateToRotation_predicate_gen, matches_by_name. cbn [op_gate].
    destruct g as [n f ps nq h|w k|n ps w i]; cbn [gate_name isinstance_ControlledGate gate_wrapped_gate bind];
      try (destruct (String.eqb n "U3"); reflexivity).
    reflexivity.
  Qed.

  Lemma is_builtin_inv name fac g ps : is_builtin name fac g = Some ps -> g = MatrixFactoryGate name fac ps 1 false.
  Proof.
    destruct g as [n f ps' nq h|w k|n ps' w i]; cbn [is_builtin]; try discriminate.
    destruct nq as [|[|nq]]; try discriminate. destruct h; try discriminate.
    destruct (String.eqb n name) eqn:E1; cbn [andb]; [|discriminate].
    destruct (String.eqb f fac) eqn:E2; [|discriminate].
    apply String.eqb_eq in E1, E2. intros [= ->]. now subst.
  Qed.

  Lemma is_builtin_name name fac g : gate_name g <> name -> is_builtin name fac g = None.
  Proof.
    intro H. destruct (is_builtin name fac g) as [ps|] eqn:E; [|reflexivity].
    apply is_builtin_inv in E. subst g. now elim H.
  Qed.

  (* desc says U3 exactly for the built-in U3 (possibly wrapped) *)
  Lemma desc_gate_GU3_inv g k t p l : desc_gate g = GU3 k t p l ->
    split_ctl g = (k, U3_gen [t; p; l]).
  Proof.
    unfold desc_gate. destruct (split_ctl g) as [k0 w]. cbn [fst snd].
    destruct (is_builtin "U3" "u3_matrix" w) as [ps|] eqn:E.
    - apply is_builtin_inv in E. destruct ps as [|t' [|p' [|l' [|]]]]; try discriminate. intros [= -> -> -> ->]. now subst w.
    - destruct (is_builtin "RZ" "rz_matrix" w) as [[|a [|]]|]; try discriminate;
        destruct (is_builtin "RY" "ry_matrix" w) as [[|b [|]]|]; discriminate.
  Qed.

  Lemma desc_gate_not_U3 g : gate_name (snd (split_ctl g)) <> "U3"%string ->
    u3_pred (mk_dop (desc_gate g) []) = false.
  Proof.
    intro H. unfold desc_gate, u3_pred. cbn [d_gate]. rewrite (is_builtin_name _ _ _ H).
    destruct (is_builtin "RZ" "rz_matrix" _) as [[|a [|]]|]; try reflexivity;
      destruct (is_builtin "RY" "ry_matrix" _) as [[|b [|]]|]; reflexivity.
  Qed.

  Lemma matches_by_name_inner (o : pyop P) :
    matches_by_name o = String.eqb (gate_name (snd (split_ctl (op_gate o)))) "U3".
  Proof.
    destruct o as [g qs]. unfold matches_by_name. cbn [op_gate].
    destruct g as [n f ps nq h|w k|n ps w i]; cbn [split_ctl snd gate_name]; try apply orb_false_r. reflexivity.
  Qed.

  Theorem predicate_gen_eq : forall o : pyop P, describable o ->
    U3GateToRotation_predicate_gen o = Ok (u3_pred (desc o)).
  Proof.
    intros o [Hn _]. rewrite predicate_gen_all, matches_by_name_inner. f_equal.
    change (u3_pred (desc o)) with (u3_pred (mk_dop (desc_gate (op_gate o)) [])).
    destruct (String.eqb (gate_name (snd (split_ctl (op_gate o)))) "U3") eqn:E.
    - apply String.eqb_eq in E. destruct (Hn E) as (t & p & l & Hw).
      unfold desc_gate. rewrite Hw. reflexivity.
    - apply String.eqb_neq in E. symmetry. now apply desc_gate_not_U3.
  Qed.

  (* ---- production *)
  Definition rotations (wrap : pygate P -> pygate P) (t p l : P) (qs : list nat) : list (pyop P) :=
    [GateOperation (wrap (RZ_gen [l])) qs; GateOperation (wrap (RY_gen [t])) qs; GateOperation (wrap (RZ_gen [p])) qs].

  (* what the generated production computes on any operation *)
  Theorem production_gen_all : forall o : pyop P,
    U3GateToRotation_production_gen o =
    match op_params o with
    | [t; p; l] =>
        match op_gate o with
        | ControlledGate _ k =>
            if Nat.ltb k 1 then Raise ValueError
            else Ok (rotations (fun g => ControlledGate g k) t p l (op_qubit_indices o))
        | _ => Ok (rotations (fun g => g) t p l (op_qubit_indices o))
        end
    | _ => Raise ValueError
    end.
  Proof.
    intros [g qs]. unfold U3GateToRotation_production_gen.
    destruct (op_params (GateOperation g qs)) as [|t [|p [|l [|]]]]; try reflexivity.
    cbn [op_gate op_qubit_indices].
    destruct g as [n f ps nq h|w k|n ps w i]; try reflexivity.
    destruct k as [|k]; reflexivity.
  Qed.

  Theorem production_gen_U3 : forall k t p l qs,
    U3GateToRotation_production_gen (GateOperation (ctl k (U3_gen [t; p; l])) qs)
    = Ok (rotations (ctl k) t p l qs).
  Proof. intros [|k] t p l qs; reflexivity. Qed.

  Lemma describable_rotation k name fac a qs : name <> "U3"%string ->
    describable (GateOperation (ctl k (MatrixFactoryGate name fac [a] 1 false)) qs).
  Proof.
    intro Hn. split.
    - destruct k; cbn [ctl op_gate split_ctl snd gate_name]; intro E; now elim Hn.
    - destruct k; cbn [ctl op_gate]; intros w k' E; [discriminate|]. injection E as _ <-. lia.
  Qed.

  Theorem production_gen_eq : forall o : pyop P, describable o -> u3_pred (desc o) = true ->
    exists l, U3GateToRotation_production_gen o = Ok l /\ map desc l = u3_prod (desc o) /\ Forall describable l.
  Proof.
    intros [g qs] [_ Hk] Hp. unfold u3_pred, desc in Hp. cbn [d_gate op_gate] in Hp.
    destruct (desc_gate g) as [k t p l| | |] eqn:E; try discriminate.
    assert (Hg : g = ctl k (U3_gen [t; p; l])).
    { apply desc_gate_GU3_inv in E.
      pose proof (f_equal fst E) as Ek. pose proof (f_equal snd E) as Ew. clear E.
      destruct g as [n f ps nq h|w k0|n ps w i]; cbn [split_ctl fst snd] in Ek, Ew.
      - subst k. rewrite Ew. reflexivity.
      - subst k0 w. specialize (Hk _ _ eq_refl). destruct k; [lia|reflexivity].
      - unfold U3_gen, make_parametric_gate_prototype in Ew. discriminate Ew. }
    subst g. exists (rotations (ctl k) t p l qs). split; [apply production_gen_U3|]. split.
    - unfold desc, rotations, u3_prod. cbn [map op_gate op_qubit_indices d_gate d_qs rev app].
      now rewrite desc_gate_U3, !desc_gate_RZ, desc_gate_RY.
    - unfold rotations, RZ_gen, RY_gen, make_parametric_gate_prototype.
      repeat constructor; apply describable_rotation; discriminate.
  Qed.

  (* the generated rule object simulates the model's rule under the description *)
  Theorem u3_rule_gen_simulates : simulates (pyop P) (dop P) desc describable U3GateToRotation_gen u3_rule.
  Proof.
    intros o Ho. cbn [U3GateToRotation_gen m_predicate m_production u3_rule pred prod]. split.
    - now apply predicate_gen_eq.
    - now apply production_gen_eq.
  Qed.

  (* ---- decompose_orquestra_circuit *)
  Theorem decompose_orquestra_circuit_gen_eq : forall Rs rs (c : pycircuit P),
    Forall2 (simulates (pyop P) (dop P) desc describable) Rs rs ->
    Forall describable (c_operations c) ->
    (c_n_qubits c = 0 -> c_operations c = []) ->
    exists c', decompose_orquestra_circuit_gen c Rs = Ok c'
               /\ (map desc (c_operations c'), c_n_qubits c') = decompose_circuit rs (map desc (c_operations c), c_n_qubits c)
               /\ Forall describable (c_operations c').
  Proof.
    intros Rs rs [ops n] HR Hops Hn. cbn [c_operations c_n_qubits] in *. unfold decompose_orquestra_circuit_gen.
    cbn [c_operations c_n_qubits].
    destruct (decompose_operations_gen_sim _ _ desc describable Rs rs HR ops Hops) as (out & E & Mo & Io).
    rewrite E. cbn [bind]. unfold decompose_circuit. cbn [fst snd].
    destruct n as [|n].
    - rewrite (Hn eq_refl) in *. cbn [map] in Mo. unfold decompose_operations in Mo. cbn [flat_map] in Mo.
      destruct out; [|discriminate]. exists (mk_pycircuit [] 0). repeat split; constructor.
    - exists (mk_pycircuit out (S n)). cbn [py_Circuit c_operations c_n_qubits]. rewrite Mo. repeat split. exact Io.
  Qed.

  (* a recorded width of 0 is not kept: the width is computed from the decomposed operations *)
  Theorem decompose_orquestra_circuit_gen_width0 : forall Rs (c : pycircuit P), c_n_qubits c = 0 ->
    decompose_orquestra_circuit_gen c Rs =
    bind (decompose_operations_gen (c_operations c) Rs) (fun out =>
    bind (circuit_size_by_operations out) (fun s => Ok (mk_pycircuit out s))).
  Proof.
    intros Rs [ops n] Hn. cbn [c_n_qubits] in Hn. subst n. unfold decompose_orquestra_circuit_gen.
    cbn [c_operations c_n_qubits]. destruct (decompose_operations_gen ops Rs) as [out|e]; reflexivity.
  Qed.

  (* the bundled rule, listed any number of times *)
  Corollary decompose_orquestra_circuit_gen_u3 : forall m (c : pycircuit P),
    Forall describable (c_operations c) -> (c_n_qubits c = 0 -> c_operations c = []) ->
    exists c', decompose_orquestra_circuit_gen c (repeat U3GateToRotation_gen m) = Ok c'
               /\ (map desc (c_operations c'), c_n_qubits c')
                  = decompose_circuit (repeat u3_rule m) (map desc (c_operations c), c_n_qubits c)
               /\ Forall describable (c_operations c').
  Proof.
    intros m c. apply decompose_orquestra_circuit_gen_eq.
    induction m as [|m IH]; cbn [repeat]; constructor; [apply u3_rule_gen_simulates|exact IH].
  Qed.
End U3.

(* rules that do not raise, on gate operations themselves (no description in between): a positive width is kept *)
Theorem decompose_orquestra_circuit_gen_pure : forall (P : Type) (rules : list (rule (pyop P))) (c : pycircuit P),
  c_n_qubits c <> 0 ->
  decompose_orquestra_circuit_gen c (map (rule_py (pyop P)) rules)
  = Ok (mk_pycircuit (decompose_operations (pyop P) rules (c_operations c)) (c_n_qubits c)).
Proof.
  intros P rules [ops n] Hn. cbn [c_n_qubits] in Hn. unfold decompose_orquestra_circuit_gen. cbn [c_operations c_n_qubits].
  rewrite decompose_operations_gen_eq. cbn [bind]. destruct n; [now elim Hn|reflexivity].
Qed.

Arguments simulates {POp MOp}. Arguments rule_py {Op}.
Arguments ctl {P}. Arguments split_ctl {P}. Arguments desc_gate {P}. Arguments desc {P}. Arguments describable {P}.
Arguments matches_by_name {P}. Arguments rotations {P}.
