(* Executable instance over Q and comparison helpers for the C06 correspondence cases. *)
Require Import Coq.QArith.QArith Coq.Lists.List Coq.Strings.String Coq.Bool.Bool Coq.Arith.PeanoNat Coq.ZArith.ZArith.
Require Import OQ.Base.CaseEq OQ.Serde.Expr OQ.Circ.Bind.
Import ListNotations.
Open Scope Q_scope.

(* ---- evaluation over Q (results kept reduced).  Function symbols get fixed polynomial
   interpretations; the ones given to sin / cos are odd with value 0 at 0 / even with value 1 at 0,
   the only identities sympy applies to them on its own for rational arguments. *)
Definition qadd (a b : Q) : Q := Qred (a + b).
Definition qmul (a b : Q) : Q := Qred (a * b).
Definition qpow (b e : Q) : Q :=
  if Pos.eqb (Qden e) 1 then Qred (Qpower b (Qnum e)) else 0.
Fixpoint wsum (i : Z) (l : list Q) : Q :=
  match l with [] => 0 | x :: r => qadd (qmul (inject_Z i) x) (wsum (i + 1) r) end.
Definition qfun (f : string) (l : list Q) : Q :=
  if String.eqb f "sin" then match l with [x] => qadd (qmul x (qmul x x)) x | _ => 0 end
  else if String.eqb f "cos" then match l with [x] => qadd (qmul x x) 1 | _ => 0 end
  else if String.eqb f "f" then qadd 1 (wsum 2 l)
  else if String.eqb f "g" then qadd 2 (wsum 3 (map (fun x => qmul x x) l))
  else 0.
Definition evQ : env Q -> expr -> Q := ev Q (fun q => q) qadd qmul qpow 0 1 qfun.
Definition aenv (l : list (string * Q)) : env Q :=
  fun s => match alookup s l with Some v => v | None => 0 end.
Definition envs := list (list (string * Q)).

(* two expressions agree at every listed environment *)
Definition expr_eqb (es : envs) (a b : expr) : bool :=
  forallb (fun en => Qeq_bool (evQ (aenv en) a) (evQ (aenv en) b)) es.
Definition is_num (p : param) : bool := match p with PNum _ => true | _ => false end.
(* same Python-number / sympy kind; numbers equal; expressions agree at the environments *)
Definition param_eqb (es : envs) (p p' : param) : bool :=
  match p, p' with
  | PNum q, PNum q' => Qeq_bool q q'
  | PNum _, _ | _, PNum _ => false
  | _, _ => expr_eqb es (pexpr p) (pexpr p')
  end.
Definition params_eqb (es : envs) : list param -> list param -> bool := leqb (param_eqb es).
Definition cdef_eqb (es : envs) (d d' : cdef) : bool :=
  String.eqb (cname d) (cname d') && lseqb (cformals d) (cformals d') && Nat.eqb (cnq d) (cnq d')
  && leqb (leqb (expr_eqb es)) (crows d) (crows d').
Fixpoint gate_eqb (es : envs) (g g' : gate) : bool :=
  match g, g' with
  | Builtin n h q ps, Builtin n' h' q' ps' =>
      String.eqb n n' && Bool.eqb h h' && Nat.eqb q q' && params_eqb es ps ps'
  | Custom d ps, Custom d' ps' => cdef_eqb es d d' && params_eqb es ps ps'
  | Controlled k w, Controlled k' w' => Nat.eqb k k' && gate_eqb es w w'
  | Dagger w, Dagger w' => gate_eqb es w w'
  | Power w e, Power w' e' => Qeq_bool e e' && gate_eqb es w w'
  | Exponential w, Exponential w' => gate_eqb es w w'
  | _, _ => false
  end.
Definition op_eqb (es : envs) (o o' : op) : bool :=
  match o, o' with
  | GateOp g qs, GateOp g' qs' => gate_eqb es g g' && lneqb qs qs'
  | MultiPhase ps, MultiPhase ps' => params_eqb es ps ps'
  | Reset q ps, Reset q' ps' => Nat.eqb q q' && params_eqb es ps ps'
  | _, _ => false
  end.
Definition circuit_eqb (es : envs) (c c' : circuit) : bool :=
  Nat.eqb (width c) (width c') && leqb (op_eqb es) (ops c) (ops c').
Definition err_eqb (a b : err) : bool :=
  match a, b with
  | ENotImplemented, ENotImplemented | EValue, EValue | EType, EType => true
  | _, _ => false
  end.
Definition res_eqb {A} (e : A -> A -> bool) (a b : res A) : bool :=
  match a, b with Ok x, Ok y => e x y | Err x, Err y => err_eqb x y | _, _ => false end.

Definition subset (a b : list string) : bool := forallb (fun s => mem s b) a.

(* free symbols of a circuit as the implementation reported them: per operation and for the circuit *)
Definition free_case (c : circuit) (per_op : list (list string)) (whole : list string) : bool :=
  leqb lseqb (map op_free (ops c)) per_op && lseqb (circuit_free c) whole.

(* Circuit.bind: [out] is the implementation's result (its bound circuit as it prints, or the error);
   the model's bound circuit must have the same structure, parameter kinds and parameter values, and
   must mention every symbol the implementation's result still reports *)
Definition bind_case (c : circuit) (m : smap) (es : envs) (out : res circuit) : bool :=
  res_eqb (circuit_eqb es) (circuit_bind m c) out
  && match circuit_bind m c, out with
     | Ok mc, Ok ic => subset (circuit_free ic) (circuit_free mc)
     | _, _ => true
     end.
Definition gate_bind_case (g : gate) (m : smap) (es : envs) (out : res gate) : bool :=
  res_eqb (gate_eqb es) (bind m g) out.
Definition replace_case (g : gate) (ps : list param) (es : envs) (out : res gate) : bool :=
  res_eqb (gate_eqb es) (replace_params ps g) out.

(* matrix of a custom gate: [out] is the implementation's matrix (entries as they print); the model's
   entry is the stored entry evaluated with the formals bound by position, simultaneously *)
Definition custom_matrix_case (d : cdef) (ps : list param) (es : envs) (out : list (list expr)) : bool :=
  forallb (fun en =>
    leqb (leqb Qeq_bool)
         (custom_entries Q (fun q => q) qadd qmul qpow 0 1 qfun (aenv en) d ps)
         (map (map (evQ (aenv en))) out)) es.
