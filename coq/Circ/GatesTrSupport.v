(* Hand-written support for the GENERATED file Gen/GateModsGen.v (translator tr/tr_gates.py, property C07).

   The translator maps every statement / expression of the translated methods of circuits/_gates.py (classes Gate,
   MatrixFactoryGate, ControlledGate, Dagger, Exponential, Power, GateOperation, CustomGateDefinition.__call__) to a piece
   of Gallina built from the definitions below, the standard library (Z, string, list) and already generated
   definitions; the Python fact each definition stands for is written next to it.  This file is the trusted reading of
   Python.  Nothing here mentions the hand-written model Circ/GateAst.v; that the generated methods agree with it is
   PROVED in Circ/GatesGenProofs.v.

   Reading of the classes.  A frozen dataclass is a constructor of a generated inductive type whose arguments are the
   declared fields in declaration order; the five concrete gate classes are the constructors of ONE type [pygate W]
   (a value of static type Gate), and a method call / property read on such a value is a [match] on the constructor
   (dynamic dispatch; a class that does not define the method runs the definition of its base class Gate).
   [C(a, b)] runs the dataclass-generated __init__: the fields are stored, then [__post_init__] runs if the class
   defines it; if that raises, no object is returned.  [dataclasses.replace(self, f=v)] calls the constructor of the class
   of self with the stored fields, f replaced.  A method that can raise returns [result T].  The methods do not assign
   anything (the dataclasses are frozen), so there is no state. *)
Require Import Coq.ZArith.ZArith Coq.Lists.List Coq.Strings.String Coq.Bool.Bool.
Import ListNotations.
Open Scope Z_scope.

(* ------------------------------------------------------------------ exceptions and sequencing *)
(* E_Unmodelled is not a Python exception: it marks a value the reading below has no type for (see py_pow_int) *)
Inductive pyexn := E_ValueError | E_NotImplementedError | E_Unmodelled.

Inductive result (A : Type) : Type :=
| Ok (a : A)
| Raise (e : pyexn).
Arguments Ok {A}. Arguments Raise {A}.

(* evaluate r, then continue with its value; an exception propagates *)
Definition bind {A B} (r : result A) (f : A -> result B) : result B :=
  match r with Ok a => f a | Raise e => Raise e end.

(* ------------------------------------------------------------------ what the translated code does not compute *)
(* The values the methods only pass around, and the functions of sympy / of other modules they call.  The generated
   definitions take one such record as their first argument.
     w_param      a gate parameter (the alias of ..typing: a Python number or a sympy expression)
     w_factory    a callable producing the matrix of a base gate (field matrix_factory)
     w_exponent   the number handed to .power() (an int or a float)
     w_symmap     the dict handed to .bind() (sympy.Symbol -> gate parameter)
     w_symbol     a sympy.Symbol
     w_matrix     a sympy.Matrix
   The functions are total here: where sympy raises or does not answer (Matrix.exp() of some matrices, ** of a singular
   matrix, sub_symbols of an unregistered type) the reading says nothing.                                             *)
Record pyworld : Type := mk_pyworld {
  w_param : Type;
  w_factory : Type;
  w_exponent : Type;
  w_symmap : Type;
  w_symbol : Type;
  w_matrix : Type;
  w_get_free_symbols : list w_param -> list w_symbol;   (* _operations.get_free_symbols(params): the symbols, as a list *)
  w_sub_symbols : w_param -> w_symmap -> w_param;       (* _operations.sub_symbols(param, symbols_map) *)
  w_call_factory : w_factory -> list w_param -> w_matrix;   (* f( *params ) for a matrix factory f *)
  w_adjoint : w_matrix -> w_matrix;                     (* m.adjoint() *)
  w_exp : w_matrix -> w_matrix;                         (* m.exp() *)
  w_pow : w_matrix -> w_exponent -> w_matrix;           (* m ** e *)
  w_diag : Z -> w_matrix -> w_matrix;                   (* sympy.Matrix.diag(sympy.eye(n), m), n >= 0 *)
  w_str_exponent : w_exponent -> string                 (* how an exponent is formatted by an f-string: str(e) *)
}.

(* ------------------------------------------------------------------ builtins and operators *)
(* len(xs) of a tuple / list *)
Definition py_len {A} (l : list A) : Z := Z.of_nat (List.length l).

(* tuple(elt for x in xs) / [elt for x in xs] with an element expression that cannot raise *)
Definition py_comp {A B} (f : A -> B) (l : list A) : list B := map f l.

(* a ** n on ints.  For n < 0 Python returns a float; the reading has no floats, and the only consumer in the accepted
   grammar (the size handed to sympy.eye) rejects a non-integer.  Read as an error value that is NOT an exception of
   Python; the agreement theorems are about n >= 0 only. *)
Definition py_pow_int (a n : Z) : result Z := if n <? 0 then Raise E_Unmodelled else Ok (a ^ n).

(* sympy.eye(n), read as its size: ValueError for n < 0 ("Cannot create a -1 x -1 matrix") *)
Definition pyeye := Z.
Definition py_sympy_eye (n : Z) : result pyeye := if n <? 0 then Raise E_ValueError else Ok n.

(* sympy.Matrix.diag(I, m) where I is an identity block *)
Definition py_matrix_diag (W : pyworld) (i : pyeye) (m : w_matrix W) : w_matrix W := w_diag W i m.

(* s + t on strings *)
Definition py_str_add (s t : string) : string := String.append s t.

(* an f-string: the formatted parts, concatenated.  A str part formats as itself. *)
Definition py_fstring (parts : list string) : string := fold_right String.append EmptyString parts.
Definition py_format_str (s : string) : string := s.
