(* Hand-written support for the GENERATED file Gen/CircuitGen.v (translator tr/tr_circuit.py, property C08).

   The translator maps every Python construct of the translated functions of circuits/_circuit.py
   (_circuit_size_by_operations, Circuit.__init__ / operations / n_qubits / free_symbols / __add__ / bind / inverse /
   controlled, the singledispatch function _append_to_circuit with _append_operation and _append_circuit) and of
   circuits/_generators.py (create_layer_of_gates, apply_gate_to_qubits, add_ancilla_register) to a piece of Gallina
   built from the definitions below; the Python fact each definition stands for is written next to it.  This file is
   the trusted reading of Python; it does not mention the model (Circ/Constructions.v): the agreement with the model
   is PROVED about the generated text in Circ/CircuitGenProofs.v.

   Conventions of the translation
     - a Python int is a Z; a list, a tuple and every other finite re-iterable collection is the list of its elements
       in iteration order; a one-shot iterator (reversed(..), zip(..), a generator expression, a parameter typed
       Iterable) is the list of the elements it will yield - the translator separately makes sure that such a value is
       consumed at most once, that a generator expression stored in a local is free of effects and reads only names
       that are not re-bound, so that evaluating it where it is written is the same as evaluating it when consumed;
     - evaluating something gives [result A]: a value, or a raised exception; sub-expressions are evaluated left to
       right and the first exception propagates ([bind]); a function that can not raise is emitted without [result];
     - `x: Optional[T]` is an [option]; `x is None`, `x is not None` and `if x:` become a [match] in whose [Some]
       branch x has type T; `x: Union[A, B]` is a sum A + B;
     - everything below the level of circuits (operation objects, gate objects and their methods, gate parameters,
       sympy symbols, CPython's iteration order of a set) is a field of the record [pyenv]: the generated functions
       take it as a section variable, exactly as the model takes the gate-level methods as given. *)
Require Import Coq.ZArith.ZArith Coq.Lists.List Coq.Strings.String Coq.Bool.Bool.
Import ListNotations.

(* ------------------------------------------------------------------ exceptions and sequencing *)
(* Exceptions are told apart by their class, among the classes the translated code raises or catches.  NotModelled is
   not a Python exception: it marks an evaluation whose behaviour this file does not describe (see py_cast_inl, py_cast_inr); a
   theorem stating that a result is [Ok _] or a Python exception also states that no such evaluation was made. *)
Inductive pyexn := ValueError | AttributeError | AssertionError | NotImplementedError | TypeError | NotModelled.

Definition pyexn_eqb (a b : pyexn) : bool :=
  match a, b with
  | ValueError, ValueError | AttributeError, AttributeError | AssertionError, AssertionError
  | NotImplementedError, NotImplementedError | TypeError, TypeError | NotModelled, NotModelled => true
  | _, _ => false
  end.

Inductive result (A : Type) : Type :=
| Ok (a : A)
| Raise (e : pyexn).
Arguments Ok {A}. Arguments Raise {A}.

(* evaluate r, then continue with its value; an exception propagates *)
Definition bind {A B} (r : result A) (f : A -> result B) : result B :=
  match r with Ok a => f a | Raise e => Raise e end.

(* try: r  except C as e: h e     is emitted as  py_try r (fun e => if pyexn_eqb e C then h e else Raise e):
   a value passes, an exception goes to the handler (which re-raises what it does not catch).  None of the listed
   classes is a subclass of another.  `raise X(..) from e` raises X (the __cause__ link is not a value). *)
Definition py_try {A} (r : result A) (h : pyexn -> result A) : result A :=
  match r with Ok a => Ok a | Raise e => h e end.

(* ------------------------------------------------------------------ truth values, integers *)
(* truth value of a list / tuple (`if xs`, `not xs`): true iff it has an element *)
Definition py_truth_seq {A} (l : list A) : bool := match l with [] => false | _ => true end.

(* `if x:` for x : Optional[int]: None and 0 are false; in the true branch x is that int *)
Definition py_truthy_optint (x : option Z) : option Z :=
  match x with
  | Some n => if Z.eqb n 0 then None else Some n
  | None => None
  end.

(* int(x) for a Python int x *)
Definition py_int (x : Z) : Z := x.

(* len(xs) *)
Definition py_len {A} (l : list A) : Z := Z.of_nat (List.length l).

(* max(xs) of a non-empty iterable of ints; max() of no values at all is a ValueError.  (max(a, b) is Z.max.) *)
Definition py_max (l : list Z) : result Z :=
  match l with
  | [] => Raise ValueError
  | x :: r => Ok (fold_left Z.max r x)
  end.

(* all(bs): every element is true *)
Definition py_all (l : list bool) : bool := forallb (fun b => b) l.

(* ------------------------------------------------------------------ sequences and iterators *)
(* list(xs): a new list with the elements of the iterable, in order *)
Definition py_list {A} (l : list A) : list A := l.

(* reversed(xs) of a list / tuple: an iterator over the elements, last first *)
Definition py_reversed {A} (l : list A) : list A := rev l.

(* range(n): 0 .. n-1, empty for n <= 0 *)
Definition py_range (n : Z) : list Z := map Z.of_nat (seq 0 (Z.to_nat n)).

(* zip(xs, ys): pairs of corresponding elements, as many as the shorter one has *)
Definition py_zip {A B} (xs : list A) (ys : list B) : list (A * B) := combine xs ys.

(* [e, *xs, ..] / (e, *xs, ..) displays are emitted with ++; [.. for x in xs ..] whose parts can not raise is emitted
   as flat_map (fun x => ..) xs with the element expression contributing a one-element list.  When a part can raise:
   the rest of the comprehension is evaluated for each x in order, the first exception aborts *)
Fixpoint py_comp {A B} (xs : list A) (body : A -> result (list B)) : result (list B) :=
  match xs with
  | [] => Ok []
  | x :: r => bind (body x) (fun ys => bind (py_comp r body) (fun zs => Ok (ys ++ zs)))
  end.

(* for x in xs: body     [st] is the tuple of the locals bound before the loop that the body re-binds; an exception
   leaves the loop *)
Fixpoint py_for {A S} (xs : list A) (st : S) (body : A -> S -> result S) : result S :=
  match xs with
  | [] => Ok st
  | x :: r => bind (body x st) (fun st' => py_for r st' body)
  end.

(* x in xs  for a list or a set whose elements compare by eqb *)
Definition py_in {A} (eqb : A -> A -> bool) (x : A) (l : list A) : bool := existsb (eqb x) l.

(* A set that starts as set() and is only extended by .add(x) and asked `x in s` / `x not in s` (the translator checks
   that nothing else is done with it: it is never iterated, measured or passed on) is the list of the elements added;
   only membership can be observed. *)
Definition py_mset_add {A} (s : list A) (x : A) : list A := s ++ [x].

(* xs.append(x) on a list created in the same function and not aliased (checked by the translator) is xs ++ [x] *)

(* typing.cast(T, x) returns x unchanged.  For x : Union[A, B] it is emitted as the projection to the member T of the
   union; a cast that claims the wrong member (the code would go on with an object of the other class) is not
   modelled *)
Definition py_cast_inl {A B} (x : A + B) : result A := match x with inl a => Ok a | inr _ => Raise NotModelled end.
Definition py_cast_inr {A B} (x : A + B) : result B := match x with inr b => Ok b | inl _ => Raise NotModelled end.

(* ------------------------------------------------------------------ the world below circuits *)
Record pyenv : Type := mk_pyenv {
  Op : Type;            (* an operation object (GateOperation, MultiPhaseOperation, ResetOperation) *)
  Gate : Type;          (* an object implementing the Gate protocol of circuits/_gates.py *)
  Param : Type;         (* a gate parameter (number or sympy expression) *)
  Sym : Type;           (* a sympy.Symbol *)
  SymMap : Type;        (* a Dict[sympy.Symbol, Any] *)
  (* operation.qubit_indices: a tuple of ints (every operation class has it) *)
  op_qubit_indices : Op -> list Z;
  (* isinstance(operation, _gates.GateOperation) *)
  op_is_GateOperation : Op -> bool;
  (* operation.gate: the field of a GateOperation; the other operation classes have no such attribute *)
  op_gate : Op -> result Gate;
  (* operation.free_symbols: an iterable of symbols, read as the list of its elements *)
  op_free_symbols : Op -> list Sym;
  (* operation.bind(symbols_map) *)
  op_bind : Op -> SymMap -> result Op;
  (* equality of sympy symbols as used by set membership (__eq__ consistent with __hash__) *)
  sym_eqb : Sym -> Sym -> bool;
  (* gate.dagger (a property; the constructors it calls may raise) *)
  gate_dagger : Gate -> result Gate;
  (* gate.controlled(k) *)
  gate_controlled : Gate -> Z -> result Gate;
  (* gate( *qubits): Gate.__call__ returns GateOperation(gate, qubits), a dataclass constructor without checks *)
  gate_call : Gate -> list Z -> Op;
  (* _gates.MatrixFactoryGate(name, _matrices.<factory>, params, num_qubits, is_hermitian): the dataclass constructor
     (no checks); the matrix factory is recorded by its name in circuits/_matrices.py *)
  new_MatrixFactoryGate : string -> string -> list Param -> Z -> bool -> Gate;
  (* set(xs) for an iterable of ints: a set is the list of its elements in the order in which CPython iterates it
     (iterating the same unmodified set again gives the same order; len(s) is the length of that list).  Which order
     that is, is an input: [set_order xs] is the order for the set built from the elements xs. *)
  set_order : list Z -> list Z
}.

(* what is known about [set_order]: it lists every element of xs, nothing else, and nothing twice.  (Not used by the
   generated text; the theorems that need it take it as a hypothesis about the environment.) *)
Definition set_order_spec (E : pyenv) : Prop :=
  forall xs, NoDup (set_order E xs) /\ forall x, In x (set_order E xs) <-> In x xs.

(* a GatePrototype: a Python callable taking gate parameters and returning a gate; it may raise *)
Definition pyproto (E : pyenv) : Type := list (Param E) -> result (Gate E).
