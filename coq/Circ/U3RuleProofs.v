(* Meaning of the U3 decomposition on circuits (property C18): with the gate matrices generated from the
   source, the decomposed circuit has the same unitary up to one global phase, for every circuit whose
   U3 gates are not controlled; for controlled U3 the phase is relative (Gates/U3.v: u3_controlled_refuted). *)
Require Import Coq.Reals.Reals Coq.Lists.List Coq.Arith.Arith Coq.Bool.Bool Coq.micromega.Lia Coq.micromega.Lra
        Coq.setoid_ring.Ring.
Require Import OQ.Base.Ring OQ.Base.Sums OQ.Base.Bits OQ.Base.Mat OQ.Base.LMat OQ.Gates.CR OQ.Gates.Trig
        OQ.Gen.GatesGen OQ.Gates.Builtin OQ.Gates.U3 OQ.Circ.Lift OQ.Circ.LiftProofs OQ.Circ.LiftAlgebra
        OQ.Circ.Circuit OQ.Circ.CircuitProofs OQ.Circ.Decompose OQ.Circ.U3Rule.
Import ListNotations.

Notation CRm := (Mat CRring).

(* ---------------------------------------------------------------- small matrix facts *)
Section MatFacts.
  Variable K : cring.
  Add Ring Kr : (c_ring K).
  Local Open Scope cr_scope.

  Lemma mmul_mscale (d : nat) (z w : K) (A B : Mat K) i j :
    mmul d (mscale z A) (mscale w B) i j = mscale (z * w) (mmul d A B) i j.
  Proof.
    unfold mmul, mscale. rewrite <- rsum_scale_l. apply rsum_ext. intros k _. ring.
  Qed.

  (* 2x2 literal matrices: list product = function product *)
  Definition is2x2 (A : list (list K)) : Prop := exists a b c d, A = [[a; b]; [c; d]].

  Lemma is2x2_lmmul A B : is2x2 A -> is2x2 B -> is2x2 (lmmul A B).
  Proof. intros (a & b & c & d & ->) (a' & b' & c' & d' & ->). cbv [lmmul dot col ncols map seq nth length]. repeat eexists. Qed.

  Lemma of_list_mm2 A B : is2x2 A -> is2x2 B ->
    mat_eq 2 (of_list (lmmul A B)) (mmul 2 (of_list A) (of_list B)).
  Proof.
    intros (a & b & c & d & ->) (a' & b' & c' & d' & ->) i j Hi Hj.
    destruct i as [|[|i]]; [| |lia]; (destruct j as [|[|j]]; [| |lia]);
      cbv [of_list lmmul mmul rsum dot col ncols map seq nth length]; ring.
  Qed.

  Lemma of_list_scale2 z A : is2x2 A -> mat_eq 2 (of_list (lscale z A)) (mscale z (of_list A)).
  Proof.
    intros (a & b & c & d & ->) i j Hi Hj.
    destruct i as [|[|i]]; [| |lia]; (destruct j as [|[|j]]; [| |lia]);
      cbv [of_list lscale mscale map nth]; ring.
  Qed.
End MatFacts.

Open Scope R_scope.

Lemma crnorm2_mul (z w : CR) : crnorm2 (crmul z w) = crnorm2 z * crnorm2 w.
Proof. destruct z, w. unfold crnorm2, crmul. cbn [fst snd]. ring. Qed.

Lemma crnorm2_one : crnorm2 cr1 = 1.
Proof. unfold crnorm2, cr1. cbn [fst snd]. ring. Qed.

(* same action up to one global phase, on an n-qubit register *)
Definition phase_equiv (n : nat) (A B : CRm) : Prop :=
  exists z : CR, crnorm2 z = 1 /\ mat_eq (2 ^ n) A (mscale (K:=CRring) z B).

Lemma phase_equiv_refl n A : phase_equiv n A A.
Proof.
  exists cr1. split; [apply crnorm2_one|]. intros i j _ _. unfold mscale.
  change (A i j = crmul cr1 (A i j)). destruct (A i j). unfold crmul, cr1. cbn [fst snd]. f_equal; ring.
Qed.

Lemma mat_eq_phase_equiv n A B : mat_eq (2 ^ n) A B -> phase_equiv n A B.
Proof.
  intro H. destruct (phase_equiv_refl n B) as [z [Hz Hb]]. exists z. split; [exact Hz|].
  eapply mat_eq_trans; [exact H|exact Hb].
Qed.

Lemma phase_equiv_trans n A B C : phase_equiv n A B -> phase_equiv n B C -> phase_equiv n A C.
Proof.
  intros [z [Hz H1]] [w [Hw H2]]. exists (crmul z w). split; [rewrite crnorm2_mul, Hz, Hw; ring|].
  intros i j Hi Hj. rewrite H1 by assumption. unfold mscale. rewrite H2 by assumption. unfold mscale.
  change (crmul z (crmul w (C i j)) = crmul (crmul z w) (C i j)).
  destruct z, w, (C i j). unfold crmul. cbn [fst snd]. f_equal; ring.
Qed.

Lemma phase_equiv_mmul n A A' B B' : phase_equiv n A A' -> phase_equiv n B B' ->
  phase_equiv n (mmul (2 ^ n) A B) (mmul (2 ^ n) A' B').
Proof.
  intros [z [Hz H1]] [w [Hw H2]]. exists (crmul z w). split; [rewrite crnorm2_mul, Hz, Hw; ring|].
  eapply mat_eq_trans; [apply mmul_compat; [exact H1|exact H2]|].
  intros i j _ _. apply (mmul_mscale CRring).
Qed.

(* ---------------------------------------------------------------- semantics of described operations *)
Section Sem.
  Variable other : nat -> CRm.                      (* opaque gates *)
  Variable ctrl : nat -> CRm -> CRm.                (* k controls around a matrix (ControlledGate.matrix) *)

  Definition base_u3 (t p l : R) : CRm := of_list (K:=CRring) (u3_matrix t p l).
  Definition base_rz (a : R) : CRm := of_list (K:=CRring) (rz_matrix a).
  Definition base_ry (a : R) : CRm := of_list (K:=CRring) (ry_matrix a).
  Definition with_ctrl (k : nat) (M : CRm) : CRm := match k with O => M | S _ => ctrl k M end.

  Definition gsem (g : gdesc R) : CRm :=
    match g with
    | GU3 k t p l => with_ctrl k (base_u3 t p l)
    | GRZ k a => with_ctrl k (base_rz a)
    | GRY k a => with_ctrl k (base_ry a)
    | GOther id => other id
    end.

  Definition osem (n : nat) (o : dop R) : CRm := lift_spec (gsem (d_gate o)) (d_qs o) n.
  (* circuit meaning: product in program order of the lifted operations *)
  Definition csem (n : nat) (ops : list (dop R)) : CRm := prog_prod (2 ^ n) (map (osem n) ops).

  Definition wf_dop (n : nat) (o : dop R) : Prop := NoDup (d_qs o) /\ Forall (fun q => q < n)%nat (d_qs o).
  Definition plain_u3 (o : dop R) : Prop :=
    match d_gate o with GU3 k _ _ _ => k = O /\ List.length (d_qs o) = 1%nat | _ => True end.

  Lemma csem_app n a b : mat_eq (2 ^ n) (csem n (a ++ b)) (mmul (2 ^ n) (csem n b) (csem n a)).
  Proof. unfold csem. rewrite map_app. apply prog_prod_app. Qed.

  Lemma is2x2_rz a : is2x2 CRring (rz_matrix a). Proof. unfold rz_matrix. repeat eexists. Qed.
  Lemma is2x2_ry a : is2x2 CRring (ry_matrix a). Proof. unfold ry_matrix. repeat eexists. Qed.
  Lemma is2x2_u3 t p l : is2x2 CRring (u3_matrix t p l). Proof. unfold u3_matrix. repeat eexists. Qed.

  (* matrix level, as functions: RZ(phi).RY(theta).RZ(lambda) = phase * U3 *)
  Lemma u3_plain_fun t p l :
    mat_eq 2 (mmul 2 (base_rz p) (mmul 2 (base_ry t) (base_rz l)))
             (mscale (K:=CRring) (phase_of (- ((p + l) / 2))) (base_u3 t p l)).
  Proof.
    unfold base_rz, base_ry, base_u3.
    eapply mat_eq_trans.
    { apply mmul_compat; [apply mat_eq_refl|]. apply mat_eq_sym. apply of_list_mm2; [apply is2x2_ry|apply is2x2_rz]. }
    eapply mat_eq_trans.
    { apply mat_eq_sym. apply of_list_mm2; [apply is2x2_rz|apply is2x2_lmmul; [apply is2x2_ry|apply is2x2_rz]]. }
    pose proof (u3_plain t p l) as Hu. unfold u3_product in Hu. rewrite Hu.
    apply of_list_scale2. apply is2x2_u3.
  Qed.

  (* the plain production: L(RZ phi) L(RY theta) L(RZ lambda) = phase * L(U3) *)
  Lemma u3_production_plain n t p l qs : NoDup qs -> Forall (fun q => q < n)%nat qs -> List.length qs = 1%nat ->
    phase_equiv n (csem n (u3_prod (mk_dop (GU3 0 t p l) qs))) (csem n [mk_dop (GU3 0 t p l) qs]).
  Proof.
    intros Hnd Hr Hl. rewrite u3_prod_order. unfold csem, osem. cbn [map prog_prod d_gate d_qs gsem with_ctrl].
    set (Lz2 := lift_spec (base_rz l) qs n). set (Ly := lift_spec (base_ry t) qs n).
    set (Lz1 := lift_spec (base_rz p) qs n). set (Lu := lift_spec (base_u3 t p l) qs n).
    assert (Hd : (2 ^ List.length qs = 2)%nat) by (rewrite Hl; reflexivity).
    assert (E1 : mat_eq (2 ^ n) (mmul (2 ^ n) (mmul (2 ^ n) (mmul (2 ^ n) eye Lz1) Ly) Lz2)
                               (lift_spec (mmul 2 (base_rz p) (mmul 2 (base_ry t) (base_rz l))) qs n)).
    { eapply mat_eq_trans.
      { apply mmul_compat; [apply mmul_compat; [intros i j Hi Hj; apply mmul_eye_l; exact Hi|apply mat_eq_refl]|apply mat_eq_refl]. }
      eapply mat_eq_trans; [intros i j _ _; apply mmul_assoc|].
      eapply mat_eq_trans.
      { apply mmul_compat; [apply mat_eq_refl|]. subst Ly Lz2. apply (lift_mul CRring); assumption. }
      subst Lz1. eapply mat_eq_trans; [apply (lift_mul CRring); assumption|]. rewrite Hd. apply mat_eq_refl. }
    exists (phase_of (- ((p + l) / 2))). split; [apply phase_of_unit|].
    eapply mat_eq_trans; [exact E1|].
    eapply mat_eq_trans; [apply (lift_compat CRring); rewrite Hd; apply u3_plain_fun|].
    eapply mat_eq_trans; [intros i j _ _; apply (lift_scale CRring)|].
    intros i j Hi Hj. unfold mscale. f_equal. symmetry. subst Lu. apply mmul_eye_l. exact Hi.
  Qed.

  (* the generic decomposition theorem instantiated: every circuit whose U3 gates are plain *)
  Definition all_plain (ops : list (dop R)) : Prop := Forall plain_u3 ops.

  Lemma csem_cons n o ops : csem n (o :: ops) = mmul (2 ^ n) (csem n ops) (osem n o).
  Proof. reflexivity. Qed.

  Lemma u3_step_preserves n o : wf_dop n o -> plain_u3 o ->
    phase_equiv n (csem n (step (dop R) u3_rule o)) (csem n [o]).
  Proof.
    intros [Hnd Hr] Hp. unfold step. cbn [pred prod u3_rule]. unfold u3_pred.
    destruct o as [g qs]. cbn [d_gate d_qs] in *. destruct g as [k t p l| | |]; try apply phase_equiv_refl.
    unfold plain_u3 in Hp. cbn [d_gate d_qs] in Hp. destruct Hp as [-> Hl].
    apply u3_production_plain; assumption.
  Qed.

  Lemma flat_map_step_preserves n ops : Forall (wf_dop n) ops -> all_plain ops ->
    phase_equiv n (csem n (flat_map (step (dop R) u3_rule) ops)) (csem n ops).
  Proof.
    intros Hwf Hp. induction ops as [|o ops IH]; [apply phase_equiv_refl|].
    inversion Hwf as [|? ? Ho Hwf']; subst. inversion Hp as [|? ? Hpo Hp']; subst.
    cbn [flat_map]. eapply phase_equiv_trans; [apply mat_eq_phase_equiv; apply csem_app|].
    rewrite csem_cons. apply phase_equiv_mmul; [apply IH; assumption|].
    eapply phase_equiv_trans; [apply u3_step_preserves; assumption|].
    apply mat_eq_phase_equiv. rewrite csem_cons. cbn [csem map prog_prod].
    intros i j Hi Hj. apply mmul_eye_l. exact Hi.
  Qed.

  (* the U3 rule, applied once or any number of times, preserves the circuit's action up to a global phase *)
  Theorem u3_rule_preserves n ops (m : nat) : Forall (wf_dop n) ops -> all_plain ops ->
    phase_equiv n (csem n (decompose_operations (dop R) (repeat u3_rule (S m)) ops)) (csem n ops).
  Proof.
    intros Hwf Hp.
    assert (E : forall l, decompose_operations (dop R) (repeat u3_rule (S m)) l = decompose_operations (dop R) [u3_rule] l).
    { induction m as [|m IH]; intro l0; [reflexivity|].
      change (repeat (@u3_rule R) (S (S m))) with (@u3_rule R :: repeat (@u3_rule R) (S m)).
      rewrite decompose_chain, IH, <- decompose_chain. apply u3_rule_idempotent. }
    rewrite E, decompose_single_rule. apply flat_map_step_preserves; assumption.
  Qed.
End Sem.
