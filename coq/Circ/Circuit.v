(* Circuits as lists of operations, their unitary, step-by-step application, the base-class simulator
   and concatenation (property C01).

   Sources: circuits/_circuit.py (Circuit.__init__, to_unitary, _append_operation, _append_circuit,
   split_circuit), circuits/_gates.py (GateOperation.lifted_matrix / apply),
   circuits/_wavefunction_operations.py (MultiPhaseOperation.apply), api/wavefunction_simulator.py
   (BaseWavefunctionSimulator.get_wavefunction), runners/symbolic_simulator.py.

   Interface for later users:
     gateapp            a gate matrix together with the tuple of qubit indices it is applied to
     op                 OGate g | OPhase d   (d k = exp(i theta_k), the diagonal of a MultiPhaseOperation)
     lifted n g         op.lifted_matrix(n)
     to_unitary n gs    Circuit(gs, n).to_unitary() for a list of gate operations ([to_unitary_c] for op lists)
     apply_op, run      op.apply(vector), folding it over a circuit
     groupby, sim_keys, sim   split_circuit and BaseWavefunctionSimulator.get_wavefunction
     circuit, mk_circuit, cadd, cappend   widths and concatenation
     wf_gate, wf_op, gate_spec, op_spec, prog_prod, circ_wf   vocabulary of the specification:
                        prog_prod d [M1; ...; Mm] = Mm * ... * M1, gate_spec n g = lift_spec (g_mat g) (g_qs g) n
   Theorems are in CircuitProofs.v, stated against [Lift.lift_spec]: to_unitary_program_order, run_eq_unitary,
   run_eq_product, sim_keys_correct, sim_predicate_independent, concat_composes, to_unitary_widen, concat_unitary.
   Evaluation: [lifted], [to_unitary], [apply_op] tabulate with memo/vmemo, so bind their results (or compare
   through to_list) rather than re-applying the defining expression entry by entry. *)
Require Import Coq.Arith.Arith Coq.Lists.List Coq.Bool.Bool.
Require Import OQ.Base.Ring OQ.Base.Sums OQ.Base.Bits OQ.Base.Mat OQ.Circ.Lift.
Import ListNotations.

(* itertools.groupby(l, key) for a boolean key: maximal runs of consecutive elements with equal key *)
Fixpoint groupby {A} (key : A -> bool) (l : list A) : list (bool * list A) :=
  match l with
  | [] => []
  | x :: r =>
    match groupby key r with
    | (b, g) :: rest => if Bool.eqb (key x) b then (b, x :: g) :: rest else (key x, [x]) :: (b, g) :: rest
    | [] => [(key x, [x])]
    end
  end.

Section Circuit.
  Variable K : cring.
  Local Open Scope cr_scope.

  Record gateapp : Type := mk_gateapp { g_mat : Mat K; g_qs : list nat }.

  Inductive op : Type :=
  | OGate (g : gateapp)
  | OPhase (d : Vec K).

  (* GateOperation.lifted_matrix(num_qubits): both branches (_lift_matrix_numpy / _lift_matrix_sympy) are _lift_matrix *)
  Definition lifted (n : nat) (g : gateapp) : Mat K := memo (2 ^ n) (lift_impl (g_mat g) (g_qs g) n).

  (* Circuit.to_unitary on gate operations: lifted matrices of reversed(operations); identity if there is none,
     otherwise reduce(operator.matmul, lifted_matrices) (a left fold) *)
  Definition to_unitary (n : nat) (gs : list gateapp) : Mat K :=
    let d := (2 ^ n)%nat in
    match map (lifted n) (rev gs) with
    | [] => eye
    | M :: Ms => fold_left (fun A B => memo d (mmul d A B)) Ms M
    end.

  (* the loop raises ValueError on the first operation that is not a GateOperation *)
  Fixpoint only_gates (ops : list op) : option (list gateapp) :=
    match ops with
    | [] => Some []
    | OGate g :: r => match only_gates r with Some gs => Some (g :: gs) | None => None end
    | OPhase _ :: _ => None
    end.
  Definition to_unitary_c (n : nat) (ops : list op) : option (Mat K) :=
    match only_gates ops with Some gs => Some (to_unitary n gs) | None => None end.

  (* GateOperation.apply: lifted_matrix(log2(len v)) @ v;  MultiPhaseOperation.apply: np.multiply(v, exp(i params)) *)
  Definition apply_op (n : nat) (o : op) (v : Vec K) : Vec K :=
    match o with
    | OGate g => vmemo (2 ^ n) (mvec (2 ^ n) (lifted n g) v)
    | OPhase d => vmemo (2 ^ n) (fun i => v i * d i)
    end.
  Definition run (n : nat) (ops : list op) (v : Vec K) : Vec K := fold_left (fun st o => apply_op n o st) ops v.

  (* what an operation does to the state, as a matrix (for the statement of run = product) *)
  Definition diag (d : Vec K) : Mat K := fun i j => if Nat.eqb i j then d i else c0.

  (* BaseWavefunctionSimulator.get_wavefunction: the circuit is split by the values the predicate returned
     (recorded per operation: [kops] pairs each operation with that value, which also covers predicates
     that depend on position or on state); native chunks go to the subclass's
     _get_wavefunction_from_native_circuit, the others are applied operation by operation *)
  Definition sim_keys (native_run : list op -> Vec K -> Vec K) (n : nat) (kops : list (bool * op)%type) (v0 : Vec K) : Vec K :=
    fold_left (fun st (seg : (bool * list (bool * op))%type) => if fst seg then native_run (map snd (snd seg)) st else run n (map snd (snd seg)) st)
              (groupby fst kops) v0.
  Definition sim (p : op -> bool) (native_run : list op -> Vec K -> Vec K) (n : nat) (ops : list op) (v0 : Vec K) : Vec K :=
    sim_keys native_run n (map (fun o => (p o, o)) ops) v0.
  (* initial_state=None: |0...0> *)
  Definition zero_state : Vec K := fun i => if Nat.eqb i 0 then c1 else c0.
  (* SymbolicSimulator: every operation native, the native method applies the operations in order *)
  Definition symbolic_sim (n : nat) (ops : list op) (v0 : Vec K) : Vec K := sim (fun _ => true) (run n) n ops v0.

  (* ---------------------------------------------------------------- widths and concatenation *)
  Record circuit : Type := mk_circ { c_n : nat; c_ops : list gateapp }.
  (* _circuit_size_by_operations *)
  Definition size_by_ops (gs : list gateapp) : nat :=
    match gs with [] => 0%nat | _ => S (list_max (flat_map g_qs gs)) end.
  (* Circuit(operations, n_qubits): a falsy n_qubits (None or 0) means "by operations" *)
  Definition mk_circuit (gs : list gateapp) (n : option nat) : circuit :=
    match n with
    | Some (S m) => mk_circ (S m) gs
    | _ => mk_circ (size_by_ops gs) gs
    end.
  (* _append_circuit / _append_operation *)
  Definition cadd (c1 c2 : circuit) : circuit :=
    mk_circuit (c_ops c1 ++ c_ops c2) (Some (Nat.max (c_n c1) (c_n c2))).
  Definition cappend (c : circuit) (g : gateapp) : circuit :=
    mk_circuit (c_ops c ++ [g]) (Some (Nat.max (c_n c) (S (list_max (g_qs g))))).
  Definition c_unitary (c : circuit) : Mat K := to_unitary (c_n c) (c_ops c).
  (* ---------------------------------------------------------------- vocabulary of the specification *)
  (* a gate application is well formed on n qubits: at least one index, no index twice, all inside the register *)
  Definition wf_gate (n : nat) (g : gateapp) : Prop :=
    g_qs g <> [] /\ NoDup (g_qs g) /\ Forall (fun q => q < n) (g_qs g).
  Definition wf_op (n : nat) (o : op) : Prop := match o with OGate g => wf_gate n g | OPhase _ => True end.
  (* the matrix an operation stands for: the gate on its qubits and identity elsewhere / a diagonal of phases *)
  Definition gate_spec (n : nat) (g : gateapp) : Mat K := lift_spec (g_mat g) (g_qs g) n.
  Definition op_spec (n : nat) (o : op) : Mat K := match o with OGate g => gate_spec n g | OPhase d => diag d end.
  (* product in program order: prog_prod d [M1; M2; ...; Mm] = Mm * ... * M2 * M1 (the first operation acts first) *)
  Fixpoint prog_prod (d : nat) (Ms : list (Mat K)) : Mat K :=
    match Ms with
    | [] => eye
    | M :: r => mmul d (prog_prod d r) M
    end.
  Definition circ_wf (c : circuit) : Prop := Forall (wf_gate (c_n c)) (c_ops c).
End Circuit.

Arguments mk_gateapp {K}. Arguments g_mat {K}. Arguments g_qs {K}. Arguments OGate {K}. Arguments OPhase {K}.
Arguments lifted {K}. Arguments to_unitary {K}. Arguments only_gates {K}. Arguments to_unitary_c {K}.
Arguments apply_op {K}. Arguments run {K}. Arguments diag {K}. Arguments sim_keys {K}. Arguments sim {K}.
Arguments zero_state {K}. Arguments symbolic_sim {K}. Arguments mk_circ {K}. Arguments c_n {K}. Arguments c_ops {K}.
Arguments wf_gate {K}. Arguments wf_op {K}. Arguments gate_spec {K}. Arguments op_spec {K}. Arguments prog_prod {K}. Arguments circ_wf {K}.
Arguments size_by_ops {K}. Arguments mk_circuit {K}. Arguments cadd {K}. Arguments cappend {K}. Arguments c_unitary {K}.
