(* Proofs about parameter binding (property C06). *)
Require Import Coq.QArith.QArith Coq.Lists.List Coq.Strings.String Coq.Bool.Bool Coq.Arith.PeanoNat.
Require Import Coq.Sorting.Permutation Coq.Sorting.Sorted Coq.micromega.Lia.
Require Import OQ.Serde.Expr OQ.Serde.ExprProofs OQ.Circ.Bind.
Import ListNotations.
Open Scope nat_scope.
Local Arguments Nat.leb : simpl never.
Local Arguments Nat.ltb : simpl never.

(* ================================================================ parameters *)

Lemma pfree_pexpr (p : param) : pfree p = free (pexpr p).
Proof. destruct p; reflexivity. Qed.

Lemma pexpr_param_of_val (v : val) : pexpr (param_of_val v) = val_expr v.
Proof. destruct v as [q|e]; [reflexivity|destruct e; reflexivity]. Qed.

Lemma pexpr_sub_symbols (m : smap) (p : param) :
  pexpr (sub_symbols m p) = subst (sub_of m) (pexpr p).
Proof.
  destruct p as [q|s|e]; simpl; try reflexivity.
  unfold sub_of. destruct (alookup s m) as [v|]; simpl; [apply pexpr_param_of_val|reflexivity].
Qed.

Lemma sub_of_none (m : smap) (s : string) : sub_of m s = None <-> alookup s m = None.
Proof. unfold sub_of. destruct (alookup s m); simpl; split; intros H; try discriminate; reflexivity. Qed.

(* numeric parameters are untouched *)
Lemma sub_symbols_num (m : smap) (q : Q) : sub_symbols m (PNum q) = PNum q.
Proof. reflexivity. Qed.

(* a parameter none of whose symbols is a key is untouched *)
Lemma sub_symbols_absent (m : smap) (p : param) :
  (forall s, In s (pfree p) -> alookup s m = None) -> sub_symbols m p = p.
Proof.
  destruct p as [q|s|e]; simpl; intros H.
  - reflexivity.
  - rewrite (H s); [reflexivity|left; reflexivity].
  - f_equal. apply subst_id. intros s Hs. apply sub_of_none. apply H; exact Hs.
Qed.

(* only the entries for the parameter's own symbols matter: extra keys are ignored *)
Lemma sub_symbols_ext (m m' : smap) (p : param) :
  (forall s, In s (pfree p) -> alookup s m = alookup s m') -> sub_symbols m p = sub_symbols m' p.
Proof.
  destruct p as [q|s|e]; simpl; intros H.
  - reflexivity.
  - rewrite (H s); [reflexivity|left; reflexivity].
  - f_equal. apply subst_ext. intros s Hs. unfold sub_of. rewrite (H s Hs). reflexivity.
Qed.

Definition values_avoid (m1 m2 : smap) : Prop :=
  forall s v t, alookup s m1 = Some v -> In t (free (val_expr v)) -> alookup t m2 = None.

Lemma sub_of_app (m1 m2 : smap) (s : string) :
  sub_of (m1 ++ m2) s = sub_union (sub_of m1) (sub_of m2) s.
Proof.
  unfold sub_of, sub_union. rewrite alookup_app. destruct (alookup s m1); reflexivity.
Qed.

(* binding in two steps = binding the union, when no value of the first map mentions a key of the second *)
Lemma sub_symbols_twice (m1 m2 : smap) (p : param) :
  values_avoid m1 m2 ->
  sub_symbols m2 (sub_symbols m1 p) = sub_symbols (m1 ++ m2) p.
Proof.
  intros Hav. destruct p as [q|s|e]; simpl.
  - reflexivity.
  - rewrite alookup_app. destruct (alookup s m1) as [v|] eqn:E; [|reflexivity].
    destruct v as [q|e]; [reflexivity|].
    assert (Hid : subst (sub_of m2) e = e).
    { apply subst_id. intros t Ht. apply sub_of_none. exact (Hav s (VExp e) t E Ht). }
    destruct e as [q'|t|l|l|b x|f l]; simpl; simpl in Hid;
      try reflexivity; try (rewrite Hid; reflexivity).
    rewrite (Hav s (VExp (Sym t)) t E); [reflexivity|left; reflexivity].
  - f_equal. rewrite subst_subst. rewrite sub_comp_union.
    + apply subst_ext. intros s _. symmetry. apply sub_of_app.
    + intros s v t Hs Ht. apply sub_of_none. unfold sub_of in Hs.
      destruct (alookup s m1) as [w|] eqn:E; [|discriminate]. simpl in Hs. inversion Hs; subst v.
      exact (Hav s w t E Ht).
Qed.

(* free symbols of a bound parameter: the untouched ones and those of the values put in *)
Lemma pfree_sub_symbols (m : smap) (p : param) (t : string) :
  In t (pfree (sub_symbols m p)) <->
  exists s, In s (pfree p) /\
            ((alookup s m = None /\ t = s) \/ (exists v, alookup s m = Some v /\ In t (free (val_expr v)))).
Proof.
  rewrite !pfree_pexpr, pexpr_sub_symbols, free_subst. split.
  - intros [s [Hs H]]. exists s. split; [exact Hs|]. destruct H as [[E Ht]|[v [E Ht]]].
    + left. split; [apply sub_of_none; exact E|exact Ht].
    + right. unfold sub_of in E. destruct (alookup s m) as [w|]; [|discriminate]. simpl in E. inversion E; subst v.
      exists w. split; [reflexivity|exact Ht].
  - intros [s [Hs H]]. exists s. split; [exact Hs|]. destruct H as [[E Ht]|[v [E Ht]]].
    + left. split; [apply sub_of_none; exact E|exact Ht].
    + right. exists (val_expr v). split; [unfold sub_of; rewrite E; reflexivity|exact Ht].
Qed.

(* ================================================================ ordering of free symbols *)

Lemma mem_In (s : string) (l : list string) : mem s l = true <-> In s l.
Proof.
  unfold mem. rewrite existsb_exists. split.
  - intros [x [Hx E]]. apply String.eqb_eq in E. subst x. exact Hx.
  - intros H. exists s. split; [exact H|apply String.eqb_refl].
Qed.
Lemma mem_false (s : string) (l : list string) : mem s l = false <-> ~ In s l.
Proof.
  rewrite <- mem_In. destruct (mem s l); split; intros H.
  - discriminate.
  - exfalso; apply H; reflexivity.
  - intros H'; discriminate.
  - reflexivity.
Qed.

Lemma dedup_first_In (seen l : list string) (x : string) :
  In x (dedup_first seen l) <-> In x l /\ ~ In x seen.
Proof.
  revert seen. induction l as [|y r IH]; intros seen; simpl.
  - split; [intros []|intros [[] _]].
  - destruct (mem y seen) eqn:E.
    + rewrite IH. apply mem_In in E. split.
      * intros [H1 H2]. split; [right; exact H1|exact H2].
      * intros [[H1|H1] H2]; [subst y; contradiction|split; assumption].
    + apply mem_false in E. simpl. rewrite IH. split.
      * intros [H|[H1 H2]]; [subst y; split; [left; reflexivity|exact E]|].
        split; [right; exact H1|]. intros H3. apply H2. right; exact H3.
      * intros [[H1|H1] H2]; [left; exact H1|].
        destruct (string_dec y x) as [D|D]; [left; exact D|].
        right. split; [exact H1|]. intros [H3|H3]; [exact (D H3)|exact (H2 H3)].
Qed.

Lemma dedup_first_NoDup (seen l : list string) : NoDup (dedup_first seen l).
Proof.
  revert seen. induction l as [|y r IH]; intros seen; simpl; [constructor|].
  destruct (mem y seen); [apply IH|]. constructor; [|apply IH].
  rewrite dedup_first_In. intros [_ H]. apply H. left; reflexivity.
Qed.

Lemma dedup_first_seen_ext (s1 s2 l : list string) :
  (forall x, In x s1 <-> In x s2) -> dedup_first s1 l = dedup_first s2 l.
Proof.
  revert s1 s2. induction l as [|y r IH]; intros s1 s2 H; simpl; [reflexivity|].
  assert (E : mem y s1 = mem y s2).
  { destruct (mem y s1) eqn:E1; destruct (mem y s2) eqn:E2; try reflexivity.
    - apply mem_In in E1. apply mem_false in E2. exfalso. apply E2. apply H; exact E1.
    - apply mem_In in E2. apply mem_false in E1. exfalso. apply E1. apply H; exact E2. }
  rewrite E. destruct (mem y s2).
  - apply IH; exact H.
  - f_equal. apply IH. intros x. simpl. rewrite H. reflexivity.
Qed.

Lemma dedup_first_app (seen l1 l2 : list string) :
  dedup_first seen (l1 ++ l2) = dedup_first seen l1 ++ dedup_first (l1 ++ seen) l2.
Proof.
  revert seen. induction l1 as [|y r IH]; intros seen; simpl; [reflexivity|].
  destruct (mem y seen) eqn:E.
  - rewrite IH. f_equal. apply dedup_first_seen_ext. intros x. simpl. rewrite !in_app_iff.
    apply mem_In in E. split; [intros H; right; exact H|].
    intros [H|H]; [subst x; right; exact E|exact H].
  - simpl. rewrite IH. f_equal. f_equal. apply dedup_first_seen_ext. intros x. simpl. rewrite !in_app_iff. simpl.
    split; [intros [H|[H|H]]|intros [H|[H|H]]]; auto.
Qed.

Lemma filter_filter' {A} (f g : A -> bool) (l : list A) :
  filter f (filter g l) = filter (fun x => g x && f x) l.
Proof.
  induction l as [|x r IH]; simpl; [reflexivity|].
  destruct (g x); simpl; [destruct (f x); rewrite IH; reflexivity|exact IH].
Qed.

Lemma dedup_first_filter (seen l : list string) :
  dedup_first seen l = filter (fun x => negb (mem x seen)) (dedup_first [] l).
Proof.
  revert seen. induction l as [|y r IH]; intros seen; simpl; [reflexivity|].
  destruct (mem y seen) eqn:E; simpl.
  - rewrite (IH seen), (IH [y]). rewrite filter_filter'. apply filter_ext_in. intros x _.
    unfold mem at 2. simpl. destruct (String.eqb x y) eqn:Exy; simpl; [|reflexivity].
    apply String.eqb_eq in Exy. subst x. rewrite E. reflexivity.
  - f_equal. rewrite (IH (y :: seen)), (IH [y]). rewrite filter_filter'. apply filter_ext_in. intros x _.
    unfold mem. simpl. destruct (String.eqb x y); reflexivity.
Qed.

(* insertion sort by code-point order *)
Lemma insert_perm (s : string) (l : list string) : Permutation (s :: l) (insert s l).
Proof.
  induction l as [|x r IH]; simpl; [apply Permutation_refl|].
  destruct (String.leb s x); [apply Permutation_refl|].
  eapply Permutation_trans; [apply perm_swap|]. apply perm_skip. exact IH.
Qed.
Lemma isort_perm (l : list string) : Permutation l (isort l).
Proof.
  induction l as [|x r IH]; simpl; [apply Permutation_refl|].
  eapply Permutation_trans; [apply perm_skip; exact IH|apply insert_perm].
Qed.
Lemma isort_In (l : list string) (s : string) : In s (isort l) <-> In s l.
Proof.
  split; intros H.
  - eapply Permutation_in; [apply Permutation_sym; apply isort_perm|exact H].
  - eapply Permutation_in; [apply isort_perm|exact H].
Qed.
Definition sle (a b : string) : Prop := String.leb a b = true.
Lemma insert_sorted (s : string) (l : list string) : Sorted sle l -> Sorted sle (insert s l).
Proof.
  induction l as [|x r IH]; intros H; simpl.
  - constructor; constructor.
  - destruct (String.leb s x) eqn:E.
    + constructor; [exact H|constructor; exact E].
    + inversion H as [|? ? Hr Hx]; subst. constructor; [apply IH; exact Hr|].
      assert (Exs : sle x s).
      { destruct (String.leb_total s x) as [T|T]; [rewrite T in E; discriminate|exact T]. }
      destruct r as [|y r']; simpl.
      * constructor; exact Exs.
      * destruct (String.leb s y); constructor; [exact Exs|].
        inversion Hx; subst; assumption.
Qed.
Lemma isort_sorted (l : list string) : Sorted sle (isort l).
Proof. induction l as [|x r IH]; simpl; [constructor|apply insert_sorted; exact IH]. Qed.

(* get_free_symbols: exactly the symbols of the parameters, once each, in code-point order *)
Lemma get_free_symbols_In (ps : list param) (s : string) :
  In s (get_free_symbols ps) <-> exists p, In p ps /\ In s (pfree p).
Proof.
  unfold get_free_symbols. rewrite isort_In, dedup_first_In, in_flat_map. split.
  - intros [H _]. exact H.
  - intros H. split; [exact H|intros []].
Qed.
Lemma get_free_symbols_NoDup (ps : list param) : NoDup (get_free_symbols ps).
Proof.
  unfold get_free_symbols. eapply Permutation_NoDup; [apply isort_perm|apply dedup_first_NoDup].
Qed.
Lemma get_free_symbols_sorted (ps : list param) : Sorted sle (get_free_symbols ps).
Proof. apply isort_sorted. Qed.
Lemma get_free_symbols_nil (ps : list param) :
  get_free_symbols ps = [] <-> forall p, In p ps -> pfree p = [].
Proof.
  split.
  - intros H p Hp. destruct (pfree p) as [|s r] eqn:E; [reflexivity|].
    assert (Hs : In s (get_free_symbols ps)).
    { apply get_free_symbols_In. exists p. split; [exact Hp|rewrite E; left; reflexivity]. }
    rewrite H in Hs. destruct Hs.
  - intros H. destruct (get_free_symbols ps) as [|s r] eqn:E; [reflexivity|].
    assert (Hs : In s (get_free_symbols ps)) by (rewrite E; left; reflexivity).
    apply get_free_symbols_In in Hs. destruct Hs as [p [Hp Hs]]. rewrite (H p Hp) in Hs. destruct Hs.
Qed.

(* ================================================================ wrapper structure *)

Lemma rmap_rmap {A B C} (f : A -> B) (g : B -> C) (r : res A) : rmap g (rmap f r) = rmap (fun x => g (f x)) r.
Proof. destruct r; reflexivity. Qed.

Lemma gate_params_gmap (f : param -> param) (g : gate) : gate_params (gmap f g) = map f (gate_params g).
Proof. induction g; simpl; auto. Qed.
Lemma gmap_ext (f f' : param -> param) (g : gate) :
  (forall p, In p (gate_params g) -> f p = f' p) -> gmap f g = gmap f' g.
Proof.
  induction g; simpl; intros H; try (f_equal; auto; fail).
  - f_equal. apply map_ext_in. exact H.
  - f_equal. apply map_ext_in. exact H.
Qed.
Lemma gmap_gmap (f f' : param -> param) (g : gate) : gmap f' (gmap f g) = gmap (fun p => f' (f p)) g.
Proof. induction g; simpl; try (f_equal; auto; fail); f_equal; apply map_map. Qed.
Lemma has_pe_gmap (f : param -> param) (g : gate) : has_pe (gmap f g) = has_pe g.
Proof. induction g; simpl; auto. Qed.
Lemma nfb_gmap (f : param -> param) (g : gate) : nfb (gmap f g) = nfb g.
Proof.
  destruct g as [n h q ps|d ps|k w|w|w e|w]; simpl; try reflexivity.
  - f_equal. destruct w as [n h q ps|d ps|k' w'|w'|w' e|w']; simpl; try reflexivity.
    destruct w'; reflexivity.
  - destruct w; reflexivity.
Qed.

(* shapes *)
Lemma nfb_cases (g : gate) : nfb g = true ->
  (leafb g = true) \/ (exists l, g = Dagger l /\ nonherm_leafb l = true) \/
  (exists k l, g = Controlled k l /\ 1 <= k /\ leafb l = true) \/
  (exists k l, g = Controlled k (Dagger l) /\ 1 <= k /\ nonherm_leafb l = true).
Proof.
  destruct g as [n h q ps|d ps|k w|w|w e|w]; simpl; intros H; try discriminate.
  - left; reflexivity.
  - left; reflexivity.
  - apply andb_true_iff in H. destruct H as [Hk Hw]. apply Nat.leb_le in Hk.
    destruct w as [n h q ps|d ps|k' w'|w'|w' e|w']; simpl in Hw; try discriminate.
    + right; right; left. exists k, (Builtin n h q ps). auto.
    + right; right; left. exists k, (Custom d ps). auto.
    + right; right; right. exists k, w'. auto.
  - right; left. exists w. auto.
Qed.
Lemma nonherm_leaf (l : gate) : nonherm_leafb l = true -> leafb l = true /\ dagger l = Ok (Dagger l).
Proof.
  destruct l as [n h q ps|d ps|k w|w|w e|w]; simpl; intros H; try discriminate.
  - destruct h; [discriminate|auto].
  - auto.
Qed.
Lemma leaf_cases (l : gate) : leafb l = true ->
  (exists n h q ps, l = Builtin n h q ps) \/ (exists d ps, l = Custom d ps).
Proof.
  destruct l as [n h q ps|d ps|k w|w|w e|w]; simpl; intros H; try discriminate.
  - left. exists n, h, q, ps. reflexivity.
  - right. exists d, ps. reflexivity.
Qed.

Lemma nfb_pf (g : gate) : nfb g = true -> has_pe g = false.
Proof.
  intros H. destruct (nfb_cases g H) as [L|[[l [E L]]|[[k [l [E [_ L]]]]|[k [l [E [_ L]]]]]]]; subst; simpl.
  - destruct g; simpl in L; try discriminate; reflexivity.
  - destruct l; simpl in L; try discriminate; reflexivity.
  - destruct l; simpl in L; try discriminate; reflexivity.
  - destruct l; simpl in L; try discriminate; reflexivity.
Qed.

(* the methods keep the shapes *)
Lemma dagger_nf (g : gate) : nfb g = true -> exists c, dagger g = Ok c /\ nfb c = true.
Proof.
  intros H. destruct (nfb_cases g H) as [L|[[l [E L]]|[[k [l [E [Hk L]]]]|[k [l [E [Hk L]]]]]]]; subst.
  - destruct (leaf_cases g L) as [[n [h [q [ps E]]]]|[d [ps E]]]; subst; simpl.
    + destruct h; eexists; split; reflexivity.
    + eexists; split; reflexivity.
  - simpl. exists l. split; [reflexivity|]. destruct (nonherm_leaf l L) as [L' _].
    destruct l; simpl in L'; try discriminate; reflexivity.
  - apply Nat.leb_le in Hk. destruct (leaf_cases l L) as [[n [h [q [ps E]]]]|[d [ps E]]]; subst; simpl.
    + destruct h; simpl; eexists; (split; [reflexivity|]); simpl; rewrite Hk; reflexivity.
    + eexists; split; [reflexivity|]. simpl. rewrite Hk. reflexivity.
  - apply Nat.leb_le in Hk. simpl. eexists; split; [reflexivity|]. simpl. rewrite Hk. simpl.
    destruct (nonherm_leaf l L) as [L' _]. destruct l; simpl in L'; try discriminate; reflexivity.
Qed.

Lemma controlled_nf (k : nat) (g c : gate) : nfb g = true -> controlled k g = Ok c -> nfb c = true.
Proof.
  intros H. destruct (nfb_cases g H) as [L|[[l [E L]]|[[k' [l [E [Hk L]]]]|[k' [l [E [Hk L]]]]]]]; subst.
  - assert (E : controlled k g = mk_controlled k g) by (destruct g; simpl in L; try discriminate; reflexivity).
    rewrite E. unfold mk_controlled. destruct (k <? 1) eqn:Ek; [discriminate|]. intros Hc; inversion Hc; subst c.
    apply Nat.ltb_ge in Ek. apply Nat.leb_le in Ek. simpl. rewrite Ek. simpl.
    destruct g; simpl in L; try discriminate; reflexivity.
  - destruct (nonherm_leaf l L) as [L' D].
    assert (E : controlled k l = mk_controlled k l) by (destruct l; simpl in L'; try discriminate; reflexivity).
    simpl. rewrite E. unfold mk_controlled. destruct (k <? 1) eqn:Ek; [discriminate|]. simpl.
    rewrite D. simpl. intros Hc; inversion Hc; subst c.
    apply Nat.ltb_ge in Ek. apply Nat.leb_le in Ek. simpl. rewrite Ek. exact L.
  - simpl. unfold mk_controlled. destruct (k' + k <? 1) eqn:Ek; [discriminate|]. intros Hc; inversion Hc; subst c.
    apply Nat.ltb_ge in Ek. apply Nat.leb_le in Ek. simpl. rewrite Ek. simpl.
    destruct l; simpl in L; try discriminate; reflexivity.
  - simpl. unfold mk_controlled. destruct (k' + k <? 1) eqn:Ek; [discriminate|]. intros Hc; inversion Hc; subst c.
    apply Nat.ltb_ge in Ek. apply Nat.leb_le in Ek. simpl. rewrite Ek. exact L.
Qed.

Lemma controlled_nf_ok (k : nat) (g : gate) : nfb g = true -> 1 <= k -> exists c, controlled k g = Ok c.
Proof.
  intros H Hk1. assert (Hk : k <? 1 = false) by (apply Nat.ltb_ge; exact Hk1).
  destruct (nfb_cases g H) as [L|[[l [E L]]|[[k' [l [E [Hk' L]]]]|[k' [l [E [Hk' L]]]]]]]; subst.
  - destruct g; simpl in L; try discriminate; simpl; unfold mk_controlled; rewrite Hk; eexists; reflexivity.
  - destruct (nonherm_leaf l L) as [L' D]. simpl.
    assert (E : controlled k l = Ok (Controlled k l)).
    { destruct l; simpl in L'; try discriminate; simpl; unfold mk_controlled; rewrite Hk; reflexivity. }
    rewrite E. simpl. rewrite D. simpl. eexists; reflexivity.
  - simpl. unfold mk_controlled. assert (E : k' + k <? 1 = false) by (apply Nat.ltb_ge; lia). rewrite E. eexists; reflexivity.
  - simpl. unfold mk_controlled. assert (E : k' + k <? 1 = false) by (apply Nat.ltb_ge; lia). rewrite E. eexists; reflexivity.
Qed.

Lemma norm_nf (g n : gate) : norm g = Ok n -> nfb n = true.
Proof.
  revert n. induction g as [nm h q ps|d ps|k w IH|w IH|w IH e|w IH]; simpl; intros n H; try discriminate.
  - inversion H; subst; reflexivity.
  - inversion H; subst; reflexivity.
  - destruct (norm w) as [nw|]; [|discriminate]. simpl in H. eapply controlled_nf; [apply IH; reflexivity|exact H].
  - destruct (norm w) as [nw|]; [|discriminate]. simpl in H.
    destruct (dagger_nf nw (IH nw eq_refl)) as [c [Ec Hc]]. rewrite Ec in H. inversion H; subst. exact Hc.
Qed.

Lemma norm_ok (g : gate) : has_pe g = false -> wf_gate g = true -> exists n, norm g = Ok n.
Proof.
  induction g as [nm h q ps|d ps|k w IH|w IH|w IH e|w IH]; simpl; intros Hp Hw; try discriminate.
  - eexists; reflexivity.
  - eexists; reflexivity.
  - apply andb_true_iff in Hw. destruct Hw as [Hk Hw]. apply Nat.leb_le in Hk.
    destruct (IH Hp Hw) as [n En]. rewrite En. simpl.
    apply controlled_nf_ok; [eapply norm_nf; exact En|exact Hk].
  - destruct (IH Hp Hw) as [n En]. rewrite En. simpl.
    destruct (dagger_nf n (norm_nf w n En)) as [c [Ec _]]. exists c. exact Ec.
Qed.

Lemma norm_pe (g : gate) : has_pe g = true -> norm g = Err ENotImplemented.
Proof.
  induction g as [nm h q ps|d ps|k w IH|w IH|w IH e|w IH]; simpl; intros Hp; try discriminate; try reflexivity.
  - rewrite (IH Hp). reflexivity.
  - rewrite (IH Hp). reflexivity.
Qed.

(* a gate in one of the shapes is rebuilt as itself *)
Lemma nf_norm (g : gate) : nfb g = true -> norm g = Ok g.
Proof.
  intros H. destruct (nfb_cases g H) as [L|[[l [E L]]|[[k [l [E [Hk L]]]]|[k [l [E [Hk L]]]]]]]; subst.
  - destruct g; simpl in L; try discriminate; reflexivity.
  - destruct (nonherm_leaf l L) as [L' D]. simpl.
    assert (E : norm l = Ok l) by (destruct l; simpl in L'; try discriminate; reflexivity).
    rewrite E. simpl. exact D.
  - assert (Hk' : k <? 1 = false) by (apply Nat.ltb_ge; exact Hk).
    destruct l; simpl in L; try discriminate; simpl; unfold mk_controlled; rewrite Hk'; reflexivity.
  - assert (Hk' : k <? 1 = false) by (apply Nat.ltb_ge; exact Hk).
    destruct (nonherm_leaf l L) as [L' D]. simpl.
    assert (E : norm l = Ok l) by (destruct l; simpl in L'; try discriminate; reflexivity).
    rewrite E. simpl. rewrite D. simpl.
    assert (E2 : controlled k (Dagger l) = Ok (Controlled k (Dagger l))).
    { simpl. assert (E3 : controlled k l = Ok (Controlled k l)).
      { destruct l; simpl in L'; try discriminate; simpl; unfold mk_controlled; rewrite Hk'; reflexivity. }
      rewrite E3. simpl. rewrite D. reflexivity. }
    exact E2.
Qed.

(* the methods do not look at the parameters (on gates without power / exponential wrappers) *)
Lemma dagger_pf (g c : gate) : has_pe g = false -> dagger g = Ok c -> has_pe c = false.
Proof.
  revert c. induction g as [nm h q ps|d ps|k w IH|w IH|w IH e|w IH]; simpl; intros c Hp H; try discriminate.
  - destruct h; inversion H; subst; reflexivity.
  - inversion H; subst; reflexivity.
  - destruct (dagger w) as [w'|]; [|discriminate]. simpl in H. inversion H; subst. simpl. apply IH; [exact Hp|reflexivity].
  - inversion H; subst. exact Hp.
Qed.
Lemma controlled_pf (k : nat) (g c : gate) : has_pe g = false -> controlled k g = Ok c -> has_pe c = false.
Proof.
  revert c. induction g as [nm h q ps|d ps|k' w IH|w IH|w IH e|w IH]; simpl; intros c Hp H; try discriminate.
  - unfold mk_controlled in H. destruct (k <? 1); [discriminate|]. inversion H; subst. reflexivity.
  - unfold mk_controlled in H. destruct (k <? 1); [discriminate|]. inversion H; subst. reflexivity.
  - unfold mk_controlled in H. destruct (k' + k <? 1); [discriminate|]. inversion H; subst. exact Hp.
  - destruct (controlled k w) as [cw|] eqn:E; [|discriminate]. simpl in H.
    eapply dagger_pf; [apply (IH cw Hp eq_refl)|exact H].
Qed.
Lemma dagger_gmap (f : param -> param) (g : gate) : has_pe g = false ->
  dagger (gmap f g) = rmap (gmap f) (dagger g).
Proof.
  induction g as [nm h q ps|d ps|k w IH|w IH|w IH e|w IH]; simpl; intros Hp; try discriminate.
  - destruct h; reflexivity.
  - reflexivity.
  - rewrite (IH Hp). destruct (dagger w); reflexivity.
  - reflexivity.
Qed.
Lemma controlled_gmap (f : param -> param) (k : nat) (g : gate) : has_pe g = false ->
  controlled k (gmap f g) = rmap (gmap f) (controlled k g).
Proof.
  induction g as [nm h q ps|d ps|k' w IH|w IH|w IH e|w IH]; simpl; intros Hp; try discriminate.
  - unfold mk_controlled. destruct (k <? 1); reflexivity.
  - unfold mk_controlled. destruct (k <? 1); reflexivity.
  - unfold mk_controlled. destruct (k' + k <? 1); reflexivity.
  - rewrite (IH Hp). destruct (controlled k w) as [cw|] eqn:E; simpl; [|reflexivity].
    apply dagger_gmap. eapply controlled_pf; [exact Hp|exact E].
Qed.
Lemma norm_pf (g n : gate) : norm g = Ok n -> has_pe n = false.
Proof. intros H. apply nfb_pf. eapply norm_nf; exact H. Qed.

(* bind = rebuild the wrappers through the methods, then substitute in the innermost parameters *)
Lemma bind_norm (m : smap) (g : gate) : bind m g = rmap (gmap (sub_symbols m)) (norm g).
Proof.
  induction g as [nm h q ps|d ps|k w IH|w IH|w IH e|w IH]; simpl; try reflexivity.
  - rewrite IH. destruct (norm w) as [n|] eqn:E; simpl; [|reflexivity].
    apply controlled_gmap. eapply norm_pf; exact E.
  - rewrite IH. destruct (norm w) as [n|] eqn:E; simpl; [|reflexivity].
    apply dagger_gmap. eapply norm_pf; exact E.
Qed.

(* the two wrappers that do not support binding refuse, at any depth under Controlled / Dagger *)
Lemma bind_refuse (m : smap) (g : gate) : has_pe g = true -> bind m g = Err ENotImplemented.
Proof. intros H. rewrite bind_norm, (norm_pe g H). reflexivity. Qed.
Lemma bind_ok (m : smap) (g : gate) : has_pe g = false -> wf_gate g = true ->
  exists g', bind m g = Ok g' /\ nfb g' = true.
Proof.
  intros Hp Hw. destruct (norm_ok g Hp Hw) as [n En]. exists (gmap (sub_symbols m) n).
  rewrite bind_norm, En. split; [reflexivity|]. rewrite nfb_gmap. eapply norm_nf; exact En.
Qed.
Lemma bind_ok_inv (m : smap) (g g' : gate) : bind m g = Ok g' -> has_pe g = false /\ nfb g' = true.
Proof.
  intros H. split.
  - destruct (has_pe g) eqn:E; [|reflexivity]. rewrite (bind_refuse m g E) in H. discriminate.
  - rewrite bind_norm in H. destruct (norm g) as [n|] eqn:E; [|discriminate]. simpl in H. inversion H; subst.
    rewrite nfb_gmap. eapply norm_nf; exact E.
Qed.
(* a gate built through the methods is bound in place *)
Lemma bind_nf (m : smap) (g : gate) : nfb g = true -> bind m g = Ok (gmap (sub_symbols m) g).
Proof. intros H. rewrite bind_norm, (nf_norm g H). reflexivity. Qed.

Lemma dagger_params (g c : gate) : has_pe g = false -> dagger g = Ok c -> gate_params c = gate_params g.
Proof.
  revert c. induction g as [nm h q ps|d ps|k w IH|w IH|w IH e|w IH]; simpl; intros c Hp H; try discriminate.
  - destruct h; inversion H; subst; reflexivity.
  - inversion H; subst; reflexivity.
  - destruct (dagger w) as [w'|]; [|discriminate]. simpl in H. inversion H; subst. simpl. apply IH; [exact Hp|reflexivity].
  - inversion H; subst. reflexivity.
Qed.
Lemma controlled_params (k : nat) (g c : gate) : has_pe g = false -> controlled k g = Ok c -> gate_params c = gate_params g.
Proof.
  revert c. induction g as [nm h q ps|d ps|k' w IH|w IH|w IH e|w IH]; simpl; intros c Hp H; try discriminate.
  - unfold mk_controlled in H. destruct (k <? 1); [discriminate|]. inversion H; subst. reflexivity.
  - unfold mk_controlled in H. destruct (k <? 1); [discriminate|]. inversion H; subst. reflexivity.
  - unfold mk_controlled in H. destruct (k' + k <? 1); [discriminate|]. inversion H; subst. reflexivity.
  - destruct (controlled k w) as [cw|] eqn:E; [|discriminate]. simpl in H.
    rewrite (dagger_params cw c (controlled_pf k w cw Hp E) H). apply IH; [exact Hp|reflexivity].
Qed.
Lemma norm_params (g n : gate) : norm g = Ok n -> gate_params n = gate_params g.
Proof.
  revert n. induction g as [nm h q ps|d ps|k w IH|w IH|w IH e|w IH]; simpl; intros n H; try discriminate.
  - inversion H; subst; reflexivity.
  - inversion H; subst; reflexivity.
  - destruct (norm w) as [nw|] eqn:E; [|discriminate]. simpl in H.
    rewrite (controlled_params k nw n (norm_pf w nw E) H). apply IH. reflexivity.
  - destruct (norm w) as [nw|] eqn:E; [|discriminate]. simpl in H.
    rewrite (dagger_params nw n (norm_pf w nw E) H). apply IH. reflexivity.
Qed.
(* the bound gate's parameters are the substituted parameters, in the same order *)
Lemma bind_params (m : smap) (g g' : gate) : bind m g = Ok g' ->
  gate_params g' = map (sub_symbols m) (gate_params g).
Proof.
  rewrite bind_norm. destruct (norm g) as [n|] eqn:E; [|discriminate]. simpl. intros H; inversion H; subst.
  rewrite gate_params_gmap, (norm_params g n E). reflexivity.
Qed.

(* binding in two steps = binding the union (first map first) *)
Lemma bind_twice (m1 m2 : smap) (g g1 : gate) : values_avoid m1 m2 ->
  bind m1 g = Ok g1 -> bind m2 g1 = bind (m1 ++ m2) g.
Proof.
  intros Hav H. rewrite bind_norm in H. rewrite (bind_norm (m1 ++ m2)).
  destruct (norm g) as [n|] eqn:E; [|discriminate]. simpl in H. inversion H; subst. simpl.
  rewrite bind_nf; [|rewrite nfb_gmap; eapply norm_nf; exact E].
  f_equal. rewrite gmap_gmap. apply gmap_ext. intros p _. apply sub_symbols_twice. exact Hav.
Qed.
(* only the entries for the gate's own symbols matter *)
Lemma bind_ext (m m' : smap) (g : gate) :
  (forall s, In s (gate_free g) -> alookup s m = alookup s m') -> bind m g = bind m' g.
Proof.
  intros H. rewrite !bind_norm. destruct (norm g) as [n|] eqn:E; [|reflexivity]. simpl. f_equal.
  apply gmap_ext. intros p Hp. apply sub_symbols_ext. intros s Hs. apply H.
  apply get_free_symbols_In. exists p. split; [rewrite <- (norm_params g n E); exact Hp|exact Hs].
Qed.
Lemma gmap_id (f : param -> param) (g : gate) : (forall p, In p (gate_params g) -> f p = p) -> gmap f g = g.
Proof.
  induction g; simpl; intros H; try (f_equal; auto; fail); f_equal; rewrite <- (map_id ps) at 2; apply map_ext_in; exact H.
Qed.
(* a map none of whose keys occurs in the gate leaves a gate built through the methods as it is *)
Lemma bind_absent (m : smap) (g : gate) : nfb g = true ->
  (forall s, In s (gate_free g) -> alookup s m = None) -> bind m g = Ok g.
Proof.
  intros Hn H. rewrite (bind_nf m g Hn). f_equal. apply gmap_id. intros p Hp. apply sub_symbols_absent.
  intros s Hs. apply H. apply get_free_symbols_In. exists p. split; assumption.
Qed.

(* ================================================================ operations and circuits *)

Lemma rmapM_ok_inv {A B} (f : A -> res B) (l : list A) (l' : list B) :
  rmapM f l = Ok l' -> Forall2 (fun x y => f x = Ok y) l l'.
Proof.
  revert l'. induction l as [|x r IH]; simpl; intros l' H.
  - inversion H; subst. constructor.
  - destruct (f x) as [y|] eqn:E; [|discriminate]. destruct (rmapM f r) as [ys|]; [|discriminate].
    inversion H; subst. constructor; [exact E|apply IH; reflexivity].
Qed.
Lemma rmapM_chain {A B C} (f : A -> res B) (g : B -> res C) (h : A -> res C) (l : list A) (l' : list B) :
  rmapM f l = Ok l' -> (forall x y, In x l -> f x = Ok y -> g y = h x) -> rmapM g l' = rmapM h l.
Proof.
  intros H. apply rmapM_ok_inv in H. induction H as [|x y r r' Hxy _ IH]; intros Hc; simpl; [reflexivity|].
  rewrite (Hc x y (or_introl eq_refl) Hxy). rewrite IH; [reflexivity|].
  intros x' y' Hx'. apply Hc. right; exact Hx'.
Qed.
Lemma rmapM_ext_in {A B} (f g : A -> res B) (l : list A) :
  (forall x, In x l -> f x = g x) -> rmapM f l = rmapM g l.
Proof.
  induction l as [|x r IH]; simpl; intros H; [reflexivity|].
  rewrite (H x (or_introl eq_refl)), IH; [reflexivity|]. intros y Hy. apply H. right; exact Hy.
Qed.
Lemma rmapM_all_ok {A B} (f : A -> res B) (l : list A) :
  (forall x, In x l -> exists y, f x = Ok y) -> exists l', rmapM f l = Ok l'.
Proof.
  induction l as [|x r IH]; simpl; intros H; [eexists; reflexivity|].
  destruct (H x (or_introl eq_refl)) as [y Ey]. rewrite Ey.
  destruct IH as [l' El]; [intros z Hz; apply H; right; exact Hz|]. rewrite El. eexists; reflexivity.
Qed.
(* the first failing element decides the error *)
Lemma rmapM_first_err {A B} (f : A -> res B) (l1 l2 : list A) (x : A) (e : err) :
  (forall z, In z l1 -> exists y, f z = Ok y) -> f x = Err e -> rmapM f (l1 ++ x :: l2) = Err e.
Proof.
  induction l1 as [|z r IH]; simpl; intros H Hx.
  - rewrite Hx. reflexivity.
  - destruct (H z (or_introl eq_refl)) as [y Ey]. rewrite Ey. rewrite IH; [reflexivity| |exact Hx].
    intros z' Hz'. apply H. right; exact Hz'.
Qed.

Definition op_has_pe (o : op) : bool := match o with GateOp g _ => has_pe g | _ => false end.
Definition op_wf (o : op) : bool := match o with GateOp g _ => wf_gate g | _ => true end.
Definition op_nf (o : op) : bool := match o with GateOp g _ => nfb g | _ => true end.

Lemma op_bind_refuse (m : smap) (o : op) : op_has_pe o = true -> op_bind m o = Err ENotImplemented.
Proof. destruct o as [g qs|ps|q ps]; simpl; intros H; try discriminate. rewrite (bind_refuse m g H). reflexivity. Qed.
Lemma op_bind_ok (m : smap) (o : op) : op_has_pe o = false -> op_wf o = true -> exists o', op_bind m o = Ok o'.
Proof.
  destruct o as [g qs|ps|q ps]; simpl; intros Hp Hw; try (eexists; reflexivity).
  destruct (bind_ok m g Hp Hw) as [g' [E _]]. rewrite E. eexists; reflexivity.
Qed.
Lemma op_bind_err (m : smap) (o : op) (e : err) : op_wf o = true -> op_bind m o = Err e -> e = ENotImplemented /\ op_has_pe o = true.
Proof.
  intros Hw H. destruct (op_has_pe o) eqn:Hp.
  - rewrite (op_bind_refuse m o Hp) in H. inversion H; auto.
  - destruct (op_bind_ok m o Hp Hw) as [o' E]. rewrite E in H. discriminate.
Qed.
Lemma op_bind_params (m : smap) (o o' : op) : op_bind m o = Ok o' ->
  op_params o' = map (sub_symbols m) (op_params o).
Proof.
  destruct o as [g qs|ps|q ps]; simpl; intros H.
  - destruct (bind m g) as [g'|] eqn:E; [|discriminate]. simpl in H. inversion H; subst. simpl. apply (bind_params m g g' E).
  - inversion H; subst; reflexivity.
  - inversion H; subst; reflexivity.
Qed.
Lemma op_bind_twice (m1 m2 : smap) (o o1 : op) : values_avoid m1 m2 ->
  op_bind m1 o = Ok o1 -> op_bind m2 o1 = op_bind (m1 ++ m2) o.
Proof.
  intros Hav. destruct o as [g qs|ps|q ps]; simpl; intros H.
  - destruct (bind m1 g) as [g1|] eqn:E; [|discriminate]. simpl in H. inversion H; subst. simpl.
    rewrite (bind_twice m1 m2 g g1 Hav E). reflexivity.
  - inversion H; subst. simpl. f_equal. f_equal. rewrite map_map. apply map_ext. intros p. apply sub_symbols_twice; exact Hav.
  - inversion H; subst. simpl. f_equal. f_equal. rewrite map_map. apply map_ext. intros p. apply sub_symbols_twice; exact Hav.
Qed.
Lemma op_bind_ext (m m' : smap) (o : op) :
  (forall s, In s (op_free o) -> alookup s m = alookup s m') -> op_bind m o = op_bind m' o.
Proof.
  destruct o as [g qs|ps|q ps]; simpl; intros H.
  - rewrite (bind_ext m m' g H). reflexivity.
  - f_equal. f_equal. apply map_ext_in. intros p Hp. apply sub_symbols_ext. intros s Hs. apply H.
    apply get_free_symbols_In. exists p. split; assumption.
  - f_equal. f_equal. apply map_ext_in. intros p Hp. apply sub_symbols_ext. intros s Hs. apply H.
    apply get_free_symbols_In. exists p. split; assumption.
Qed.
Lemma op_bind_absent (m : smap) (o : op) : op_nf o = true ->
  (forall s, In s (op_free o) -> alookup s m = None) -> op_bind m o = Ok o.
Proof.
  destruct o as [g qs|ps|q ps]; simpl; intros Hn H.
  - rewrite (bind_absent m g Hn H). reflexivity.
  - f_equal. f_equal. rewrite <- (map_id ps) at 2. apply map_ext_in. intros p Hp. apply sub_symbols_absent.
    intros s Hs. apply H. apply get_free_symbols_In. exists p. split; assumption.
  - f_equal. f_equal. rewrite <- (map_id ps) at 2. apply map_ext_in. intros p Hp. apply sub_symbols_absent.
    intros s Hs. apply H. apply get_free_symbols_In. exists p. split; assumption.
Qed.

(* free symbols of a circuit *)
Lemma circuit_free_In (c : circuit) (s : string) :
  In s (circuit_free c) <-> exists o p, In o (ops c) /\ In p (op_params o) /\ In s (pfree p).
Proof.
  unfold circuit_free. rewrite dedup_first_In, in_flat_map. split.
  - intros [[o [Ho Hs]] _]. apply get_free_symbols_In in Hs. destruct Hs as [p [Hp Hs]]. exists o, p. auto.
  - intros [o [p [Ho [Hp Hs]]]]. split; [|intros []]. exists o. split; [exact Ho|].
    apply get_free_symbols_In. exists p. auto.
Qed.
Lemma circuit_free_NoDup (c : circuit) : NoDup (circuit_free c).
Proof. apply dedup_first_NoDup. Qed.
Lemma circuit_free_nil (c : circuit) :
  circuit_free c = [] <-> forall p, In p (circuit_params c) -> pfree p = [].
Proof.
  split.
  - intros H p Hp. unfold circuit_params in Hp. apply in_flat_map in Hp. destruct Hp as [o [Ho Hp]].
    destruct (pfree p) as [|s r] eqn:E; [reflexivity|].
    assert (Hs : In s (circuit_free c)).
    { apply circuit_free_In. exists o, p. rewrite E. split; [exact Ho|split; [exact Hp|left; reflexivity]]. }
    rewrite H in Hs. destruct Hs.
  - intros H. destruct (circuit_free c) as [|s r] eqn:E; [reflexivity|].
    assert (Hs : In s (circuit_free c)) by (rewrite E; left; reflexivity).
    apply circuit_free_In in Hs. destruct Hs as [o [p [Ho [Hp Hs]]]].
    rewrite (H p) in Hs; [destruct Hs|]. unfold circuit_params. apply in_flat_map. exists o. auto.
Qed.
(* first-appearance order: a circuit's list, then what the appended circuit adds, in its own order *)
Lemma filter_mem_ext (l1 l2 l : list string) : (forall x, In x l1 <-> In x l2) ->
  filter (fun x => negb (mem x l1)) l = filter (fun x => negb (mem x l2)) l.
Proof.
  intros H. apply filter_ext. intros x. f_equal.
  destruct (mem x l1) eqn:E1; destruct (mem x l2) eqn:E2; try reflexivity.
  - apply mem_In in E1. apply mem_false in E2. exfalso. apply E2. apply H; exact E1.
  - apply mem_In in E2. apply mem_false in E1. exfalso. apply E1. apply H; exact E2.
Qed.
Lemma circuit_free_app (c1 c2 : circuit) :
  circuit_free (circuit_app c1 c2)
  = circuit_free c1 ++ filter (fun s => negb (mem s (circuit_free c1))) (circuit_free c2).
Proof.
  unfold circuit_free, circuit_app. simpl. rewrite flat_map_app, dedup_first_app. f_equal.
  rewrite dedup_first_filter. apply filter_mem_ext. intros x. rewrite app_nil_r, dedup_first_In.
  split; [intros H; split; [exact H|intros []]|intros [H _]; exact H].
Qed.
Lemma dedup_first_NoDup_id (l : list string) : NoDup l -> dedup_first [] l = l.
Proof.
  intros H. assert (G : forall seen, (forall x, In x seen -> ~ In x l) -> dedup_first seen l = l).
  { induction H as [|y r Hy _ IH]; intros seen Hs; simpl; [reflexivity|].
    destruct (mem y seen) eqn:E.
    - apply mem_In in E. exfalso. apply (Hs y E). left; reflexivity.
    - f_equal. apply IH. intros x [Hx|Hx] Hr; [subst x; exact (Hy Hr)|]. apply (Hs x Hx). right; exact Hr. }
  apply G. intros x [].
Qed.
Lemma circuit_free_single (o : op) (w : nat) : circuit_free {| ops := [o]; width := w |} = op_free o.
Proof.
  unfold circuit_free. simpl. rewrite app_nil_r. apply dedup_first_NoDup_id. apply get_free_symbols_NoDup.
Qed.

Lemma circuit_bind_width (m : smap) (c c' : circuit) : circuit_bind m c = Ok c' -> width c' = width c.
Proof.
  unfold circuit_bind. destruct (rmapM (op_bind m) (ops c)); simpl; intros H; [inversion H; reflexivity|discriminate].
Qed.
Lemma circuit_bind_ops (m : smap) (c c' : circuit) : circuit_bind m c = Ok c' ->
  Forall2 (fun o o' => op_bind m o = Ok o') (ops c) (ops c').
Proof.
  unfold circuit_bind. destruct (rmapM (op_bind m) (ops c)) as [os|] eqn:E; simpl; intros H; [|discriminate].
  inversion H; subst. simpl. apply rmapM_ok_inv. exact E.
Qed.
Lemma circuit_bind_twice (m1 m2 : smap) (c c1 : circuit) : values_avoid m1 m2 ->
  circuit_bind m1 c = Ok c1 -> circuit_bind m2 c1 = circuit_bind (m1 ++ m2) c.
Proof.
  intros Hav. unfold circuit_bind. destruct (rmapM (op_bind m1) (ops c)) as [os|] eqn:E; simpl; intros H; [|discriminate].
  inversion H; subst. simpl.
  rewrite (rmapM_chain (op_bind m1) (op_bind m2) (op_bind (m1 ++ m2)) (ops c) os E); [reflexivity|].
  intros o o1 _ Ho. apply op_bind_twice; assumption.
Qed.
Lemma circuit_bind_ext (m m' : smap) (c : circuit) :
  (forall s, In s (circuit_free c) -> alookup s m = alookup s m') -> circuit_bind m c = circuit_bind m' c.
Proof.
  intros H. unfold circuit_bind. f_equal. apply rmapM_ext_in. intros o Ho. apply op_bind_ext.
  intros s Hs. apply H. apply get_free_symbols_In in Hs. destruct Hs as [p [Hp Hs]].
  apply circuit_free_In. exists o, p. auto.
Qed.
Lemma rmapM_id {A} (f : A -> res A) (l : list A) : (forall x, In x l -> f x = Ok x) -> rmapM f l = Ok l.
Proof.
  induction l as [|x r IH]; simpl; intros H; [reflexivity|].
  rewrite (H x (or_introl eq_refl)), IH; [reflexivity|]. intros y Hy. apply H. right; exact Hy.
Qed.
Lemma circuit_bind_absent (m : smap) (c : circuit) : forallb op_nf (ops c) = true ->
  (forall s, In s (circuit_free c) -> alookup s m = None) -> circuit_bind m c = Ok c.
Proof.
  intros Hn H. unfold circuit_bind. rewrite rmapM_id; [destruct c; reflexivity|].
  intros o Ho. apply op_bind_absent.
  - rewrite forallb_forall in Hn. apply Hn; exact Ho.
  - intros s Hs. apply H. apply get_free_symbols_In in Hs. destruct Hs as [p [Hp Hs]].
    apply circuit_free_In. exists o, p. auto.
Qed.
(* a circuit with a power / exponential wrapper anywhere cannot be bound; any other circuit can *)
Lemma circuit_bind_refuse (m : smap) (c : circuit) : forallb op_wf (ops c) = true ->
  existsb op_has_pe (ops c) = true -> circuit_bind m c = Err ENotImplemented.
Proof.
  intros Hw Hp. unfold circuit_bind.
  destruct (rmapM (op_bind m) (ops c)) as [os|e] eqn:E; simpl.
  - exfalso. apply existsb_exists in Hp. destruct Hp as [o [Ho Hpe]].
    apply rmapM_ok_inv in E. clear Hw. induction E as [|x y r r' Hxy _ IH]; [destruct Ho|].
    destruct Ho as [Ho|Ho]; [subst x; rewrite (op_bind_refuse m o Hpe) in Hxy; discriminate|exact (IH Ho)].
  - f_equal. rewrite forallb_forall in Hw. clear Hp. revert e E Hw.
    induction (ops c) as [|x r IH]; simpl; intros e E Hw; [discriminate|].
    destruct (op_bind m x) as [y|e'] eqn:Ex.
    + destruct (rmapM (op_bind m) r) as [ys|e''] eqn:Er; [discriminate|]. inversion E; subst.
      apply (IH e eq_refl). intros z Hz. apply Hw. right; exact Hz.
    + inversion E; subst. apply (op_bind_err m x e (Hw x (or_introl eq_refl)) Ex).
Qed.
Lemma circuit_bind_ok (m : smap) (c : circuit) : forallb op_wf (ops c) = true ->
  existsb op_has_pe (ops c) = false -> exists c', circuit_bind m c = Ok c'.
Proof.
  intros Hw Hp. unfold circuit_bind. destruct (rmapM_all_ok (op_bind m) (ops c)) as [os E].
  - intros o Ho. apply op_bind_ok.
    + destruct (op_has_pe o) eqn:Eo; [|reflexivity].
      assert (X : existsb op_has_pe (ops c) = true) by (apply existsb_exists; exists o; auto). rewrite X in Hp. discriminate.
    + rewrite forallb_forall in Hw. apply Hw; exact Ho.
  - rewrite E. eexists; reflexivity.
Qed.

(* ================================================================ meaning *)
Section SemProofs.
  Variable R : Type.
  Variable ofQ : Q -> R.
  Variables radd rmul rpow : R -> R -> R.
  Variables rzero rone : R.
  Variable rfun : string -> list R -> R.
  Variable A : matalg R.
  Variable factory : string -> list R -> mat R A.

  Notation ev := (ev R ofQ radd rmul rpow rzero rone rfun).
  Notation env_comp := (env_comp R ofQ radd rmul rpow rzero rone rfun).
  Notation pev := (pev R ofQ radd rmul rpow rzero rone rfun).
  Notation custom_env := (custom_env R ofQ radd rmul rpow rzero rone rfun).
  Notation custom_entries := (custom_entries R ofQ radd rmul rpow rzero rone rfun).
  Notation sem := (sem R ofQ radd rmul rpow rzero rone rfun A factory).
  Notation herm_sound := (herm_sound R ofQ radd rmul rpow rzero rone rfun A factory).
  Notation op_sem := (op_sem R ofQ radd rmul rpow rzero rone rfun A factory).
  Notation circuit_sem := (circuit_sem R ofQ radd rmul rpow rzero rone rfun A factory).
  Notation "a == b" := (meq R A a b) (at level 70).

  Let mrefl := meq_refl R A.
  Let msym := meq_sym R A.
  Let mtrans := meq_trans R A.

  Definition menv (en : env R) (m : smap) : env R := env_comp en (sub_of m).

  (* binding a parameter and evaluating = evaluating in the composed environment *)
  Lemma pev_sub_symbols (en : env R) (m : smap) (p : param) :
    pev (en) (sub_symbols m p) = pev (menv en m) p.
  Proof. unfold Bind.pev. rewrite pexpr_sub_symbols. apply subst_ev. Qed.
  Lemma map_pev_sub_symbols (en : env R) (m : smap) (ps : list param) :
    map (pev en) (map (sub_symbols m) ps) = map (pev (menv en m)) ps.
  Proof. rewrite map_map. apply map_ext. intros p. apply pev_sub_symbols. Qed.

  Lemma map_fst_combine {X Y} (ks : list X) (vs : list Y) :
    map fst (combine ks vs) = firstn (List.length vs) ks.
  Proof.
    revert vs. induction ks as [|k r IH]; intros vs; simpl.
    - destruct (List.length vs); reflexivity.
    - destruct vs as [|v vs']; simpl; [reflexivity|]. rewrite IH. reflexivity.
  Qed.

  (* the matrix of a custom gate: only the definition's formals matter, and they take the arguments' values *)
  Lemma custom_entries_bind (en : env R) (m : smap) (d : cdef) (ps : list param) :
    cdef_closed d ps ->
    custom_entries en d (map (sub_symbols m) ps) = custom_entries (menv en m) d ps.
  Proof.
    intros Hc. unfold Bind.custom_entries. apply map_ext_in. intros row Hrow. apply map_ext_in. intros e He.
    apply ev_ext. intros s Hs. unfold Bind.custom_env. rewrite map_pev_sub_symbols.
    destruct (alookup s (rev (combine (cformals d) (map (pev (menv en m)) ps)))) as [v|] eqn:E; [reflexivity|].
    exfalso. apply alookup_none in E. apply E. rewrite map_rev, <- in_rev, map_fst_combine, map_length.
    exact (Hc row e s Hrow He Hs).
  Qed.

  Lemma dagger_sem (en : env R) (g c : gate) : has_pe g = false -> herm_sound en g -> dagger g = Ok c ->
    sem en c == adj R A (sem en g) /\ herm_sound en c.
  Proof.
    revert c. induction g as [nm h q ps|d ps|k w IH|w IH|w IH e|w IH]; simpl; intros c Hp Hh H; try discriminate.
    - destruct h; inversion H; subst; simpl.
      + split; [apply msym; apply Hh; reflexivity|exact Hh].
      + split; [apply mrefl|exact Hh].
    - inversion H; subst; simpl. split; [apply mrefl|exact I].
    - destruct (dagger w) as [w'|] eqn:E; [|discriminate]. simpl in H. inversion H; subst. simpl.
      destruct (IH w' Hp Hh eq_refl) as [S1 S2]. split; [|exact S2].
      eapply mtrans; [apply (ctrl_proper R A); exact S1|]. apply msym. apply (adj_ctrl R A).
    - inversion H; subst. split; [|exact Hh]. apply msym. apply (adj_adj R A).
  Qed.

  Lemma controlled_sem (en : env R) (k : nat) (g c : gate) : has_pe g = false -> herm_sound en g ->
    controlled k g = Ok c -> sem en c == ctrl R A k (sem en g) /\ herm_sound en c.
  Proof.
    revert c. induction g as [nm h q ps|d ps|k' w IH|w IH|w IH e|w IH]; simpl; intros c Hp Hh H; try discriminate.
    - unfold mk_controlled in H. destruct (k <? 1); [discriminate|]. inversion H; subst. simpl. split; [apply mrefl|exact Hh].
    - unfold mk_controlled in H. destruct (k <? 1); [discriminate|]. inversion H; subst. simpl. split; [apply mrefl|exact I].
    - unfold mk_controlled in H. destruct (k' + k <? 1); [discriminate|]. inversion H; subst. simpl.
      split; [|exact Hh]. apply msym. apply (ctrl_ctrl R A).
    - destruct (controlled k w) as [cw|] eqn:E; [|discriminate]. simpl in H.
      destruct (IH cw Hp Hh eq_refl) as [S1 S2].
      destruct (dagger_sem en cw c (controlled_pf k w cw Hp E) S2 H) as [S3 S4]. split; [|exact S4].
      eapply mtrans; [exact S3|]. eapply mtrans; [apply (adj_proper R A); exact S1|]. apply (adj_ctrl R A).
  Qed.

  Lemma herm_sound_leaf_bind (en : env R) (m : smap) (g : gate) : leafb g = true ->
    herm_sound (menv en m) g -> herm_sound en (gmap (sub_symbols m) g).
  Proof.
    destruct g as [nm h q ps|d ps|k w|w|w e|w]; simpl; intros L Hh; try discriminate; [|exact I].
    rewrite map_pev_sub_symbols. exact Hh.
  Qed.

  (* bind, then evaluate = evaluate in the composed environment: every gate and wrapper nesting *)
  Lemma bind_sem (en : env R) (m : smap) (g g' : gate) :
    bind m g = Ok g' -> herm_sound (menv en m) g -> defs_closed g ->
    sem en g' == sem (menv en m) g /\ herm_sound en g'.
  Proof.
    revert g'. induction g as [nm h q ps|d ps|k w IH|w IH|w IH e|w IH]; simpl; intros g' H Hh Hc; try discriminate.
    - inversion H; subst. simpl. rewrite map_pev_sub_symbols. split; [apply mrefl|exact Hh].
    - inversion H; subst. simpl. rewrite (custom_entries_bind en m d ps Hc). split; [apply mrefl|exact I].
    - destruct (bind m w) as [w1|] eqn:E; [|discriminate]. simpl in H.
      destruct (IH w1 eq_refl Hh Hc) as [S1 S2]. destruct (bind_ok_inv m w w1 E) as [_ Hn].
      destruct (controlled_sem en k w1 g' (nfb_pf w1 Hn) S2 H) as [S3 S4]. split; [|exact S4].
      eapply mtrans; [exact S3|]. apply (ctrl_proper R A). exact S1.
    - destruct (bind m w) as [w1|] eqn:E; [|discriminate]. simpl in H.
      destruct (IH w1 eq_refl Hh Hc) as [S1 S2]. destruct (bind_ok_inv m w w1 E) as [_ Hn].
      destruct (dagger_sem en w1 g' (nfb_pf w1 Hn) S2 H) as [S3 S4]. split; [|exact S4].
      eapply mtrans; [exact S3|]. apply (adj_proper R A). exact S1.
  Qed.

  (* operations and circuits *)
  Definition op_ok (en : env R) (o : op) : Prop :=
    match o with GateOp g _ => herm_sound en g /\ defs_closed g | _ => True end.
  Notation opsem_eq := (opsem_eq R A).

  Lemma op_bind_sem (en : env R) (m : smap) (o o' : op) :
    op_bind m o = Ok o' -> op_ok (menv en m) o -> opsem_eq (op_sem en o') (op_sem (menv en m) o).
  Proof.
    destruct o as [g qs|ps|q ps]; simpl; intros H Hok.
    - destruct (bind m g) as [g'|] eqn:E; [|discriminate]. simpl in H. inversion H; subst. simpl.
      split; [reflexivity|]. destruct Hok as [Hh Hc]. apply (bind_sem en m g g' E Hh Hc).
    - inversion H; subst. simpl. apply map_pev_sub_symbols.
    - inversion H; subst. simpl. split; [reflexivity|apply map_pev_sub_symbols].
  Qed.

  Lemma circuit_bind_sem (en : env R) (m : smap) (c c' : circuit) :
    circuit_bind m c = Ok c' -> (forall o, In o (ops c) -> op_ok (menv en m) o) ->
    width c' = width c /\ Forall2 opsem_eq (circuit_sem en c') (circuit_sem (menv en m) c).
  Proof.
    intros H Hok. split; [apply (circuit_bind_width m c c' H)|].
    apply circuit_bind_ops in H. unfold Bind.circuit_sem. revert Hok.
    induction H as [|o o' r r' Ho _ IH]; intros Hok; simpl; constructor.
    - apply op_bind_sem; [exact Ho|apply Hok; left; reflexivity].
    - apply IH. intros x Hx. apply Hok. right; exact Hx.
  Qed.

  (* the circuit matrix: any function of the width and the operations' meanings that respects equality of
     matrices (Circuit.to_unitary multiplies the lifted gate matrices) gives equal results *)
  Lemma circuit_bind_unitary (U : Type) (ueq : U -> U -> Prop)
        (unitary : nat -> list (opsem R A) -> U) (en : env R) (m : smap) (c c' : circuit) :
    (forall w l l', Forall2 opsem_eq l l' -> ueq (unitary w l) (unitary w l')) ->
    circuit_bind m c = Ok c' -> (forall o, In o (ops c) -> op_ok (menv en m) o) ->
    ueq (unitary (width c') (circuit_sem en c')) (unitary (width c) (circuit_sem (menv en m) c)).
  Proof.
    intros HU H Hok. destruct (circuit_bind_sem en m c c' H Hok) as [Hw Hs]. rewrite Hw. apply HU. exact Hs.
  Qed.

  (* two-step environments compose *)
  Lemma menv_app (en : env R) (m1 m2 : smap) (e : expr) : values_avoid m1 m2 ->
    ev (menv (menv en m2) m1) e = ev (menv en (m1 ++ m2)) e.
  Proof.
    intros Hav. unfold menv. rewrite <- !subst_ev, subst_subst, sub_comp_union.
    - f_equal. apply subst_ext. intros s _. symmetry. apply sub_of_app.
    - intros s v t Hs Ht. apply sub_of_none. unfold sub_of in Hs.
      destruct (alookup s m1) as [w|] eqn:E; [|discriminate]. simpl in Hs. inversion Hs; subst v.
      exact (Hav s w t E Ht).
  Qed.
End SemProofs.

(* ================================================================ a concrete matrix algebra
   Matrices as entry functions with their number of qubits; equality entry by entry.  adj is the
   conjugate transpose, ctrl k prepends the identity block of ControlledGate.matrix.  It satisfies the
   laws of [matalg], so the theorems above are not vacuous. *)
Section FunMat.
  Variable R : Type.
  Variables rzero rone : R.
  Variable conj : R -> R.
  Hypothesis conj_zero : conj rzero = rzero.
  Hypothesis conj_one : conj rone = rone.
  Hypothesis conj_conj : forall x, conj (conj x) = x.

  Record fmat : Type := { fnq : nat; fent : nat -> nat -> R }.
  Variable fpow : Q -> fmat -> fmat.
  Variable fexp : fmat -> fmat.

  Definition feq (M N : fmat) : Prop := fnq M = fnq N /\ forall i j, fent M i j = fent N i j.
  Definition fadj (M : fmat) : fmat := {| fnq := fnq M; fent := fun i j => conj (fent M j i) |}.
  Definition foff (n k : nat) : nat := 2 ^ (n + k) - 2 ^ n.
  Definition fctrl (k : nat) (M : fmat) : fmat :=
    {| fnq := fnq M + k;
       fent := fun i j =>
         if i <? foff (fnq M) k then (if i =? j then rone else rzero)
         else if j <? foff (fnq M) k then rzero
         else fent M (i - foff (fnq M) k) (j - foff (fnq M) k) |}.
  Definition frows (n : nat) (rows : list (list R)) : fmat :=
    {| fnq := n; fent := fun i j => nth j (nth i rows []) rzero |}.

  Lemma feq_refl M : feq M M.
  Proof. split; reflexivity. Qed.
  Lemma feq_sym M N : feq M N -> feq N M.
  Proof. intros [H1 H2]. split; [symmetry; exact H1|intros i j; symmetry; apply H2]. Qed.
  Lemma feq_trans M N P : feq M N -> feq N P -> feq M P.
  Proof. intros [H1 H2] [H3 H4]. split; [congruence|intros i j; rewrite H2; apply H4]. Qed.
  Lemma fadj_proper M N : feq M N -> feq (fadj M) (fadj N).
  Proof. intros [H1 H2]. split; simpl; [exact H1|intros i j; rewrite H2; reflexivity]. Qed.
  Lemma fctrl_proper k M N : feq M N -> feq (fctrl k M) (fctrl k N).
  Proof.
    intros [H1 H2]. split; simpl; [rewrite H1; reflexivity|]. intros i j. rewrite H1.
    destruct (i <? foff (fnq N) k); [reflexivity|]. destruct (j <? foff (fnq N) k); [reflexivity|]. apply H2.
  Qed.
  Lemma fadj_adj M : feq (fadj (fadj M)) M.
  Proof. split; simpl; [reflexivity|intros i j; apply conj_conj]. Qed.

  Lemma pow2_le (a b : nat) : a <= b -> 2 ^ a <= 2 ^ b.
  Proof. intros H. apply Nat.pow_le_mono_r; [discriminate|exact H]. Qed.

  Lemma fctrl_ctrl k k' M : feq (fctrl k (fctrl k' M)) (fctrl (k' + k) M).
  Proof.
    split; simpl; [symmetry; apply Nat.add_assoc|]. intros i j. unfold foff.
    rewrite <- (Nat.add_assoc (fnq M) k' k).
    assert (H1 : 2 ^ fnq M <= 2 ^ (fnq M + k')) by (apply pow2_le; lia).
    assert (H2 : 2 ^ (fnq M + k') <= 2 ^ (fnq M + (k' + k))) by (apply pow2_le; lia).
    generalize dependent (2 ^ fnq M). generalize dependent (2 ^ (fnq M + k')).
    generalize dependent (2 ^ (fnq M + (k' + k))). intros c b H2 a H1.
    destruct (i <? c - b) eqn:E1.
    - apply Nat.ltb_lt in E1. assert (E : i <? c - a = true) by (apply Nat.ltb_lt; lia). rewrite E. reflexivity.
    - apply Nat.ltb_ge in E1. destruct (j <? c - b) eqn:E2.
      + apply Nat.ltb_lt in E2. destruct (i <? c - a) eqn:E3.
        * assert (E : i =? j = false) by (apply Nat.eqb_neq; lia). rewrite E. reflexivity.
        * assert (E : j <? c - a = true) by (apply Nat.ltb_lt; lia). rewrite E. reflexivity.
      + apply Nat.ltb_ge in E2. destruct (i - (c - b) <? b - a) eqn:E3.
        * apply Nat.ltb_lt in E3. assert (E : i <? c - a = true) by (apply Nat.ltb_lt; lia). rewrite E.
          destruct (i =? j) eqn:E4.
          -- apply Nat.eqb_eq in E4. assert (E5 : i - (c - b) =? j - (c - b) = true) by (apply Nat.eqb_eq; lia).
             rewrite E5. reflexivity.
          -- apply Nat.eqb_neq in E4. assert (E5 : i - (c - b) =? j - (c - b) = false) by (apply Nat.eqb_neq; lia).
             rewrite E5. reflexivity.
        * apply Nat.ltb_ge in E3. assert (E : i <? c - a = false) by (apply Nat.ltb_ge; lia). rewrite E.
          destruct (j - (c - b) <? b - a) eqn:E4.
          -- apply Nat.ltb_lt in E4. assert (E5 : j <? c - a = true) by (apply Nat.ltb_lt; lia). rewrite E5. reflexivity.
          -- apply Nat.ltb_ge in E4. assert (E5 : j <? c - a = false) by (apply Nat.ltb_ge; lia). rewrite E5.
             f_equal; lia.
  Qed.

  Lemma fadj_ctrl k M : feq (fadj (fctrl k M)) (fctrl k (fadj M)).
  Proof.
    split; simpl; [reflexivity|]. intros i j. generalize (foff (fnq M) k). intros o.
    destruct (j <? o) eqn:E1; destruct (i <? o) eqn:E2.
    - rewrite (Nat.eqb_sym j i). destruct (i =? j); [apply conj_one|apply conj_zero].
    - apply Nat.ltb_lt in E1. apply Nat.ltb_ge in E2.
      assert (E : j =? i = false) by (apply Nat.eqb_neq; lia). rewrite E. apply conj_zero.
    - apply Nat.ltb_ge in E1. apply Nat.ltb_lt in E2.
      assert (E : i =? j = false) by (apply Nat.eqb_neq; lia). rewrite E. apply conj_zero.
    - reflexivity.
  Qed.

  Definition funmat_alg : matalg R :=
    {| mat := fmat; meq := feq; of_rows := frows; adj := fadj; ctrl := fctrl; mpow := fpow; mexp := fexp;
       meq_refl := feq_refl; meq_sym := feq_sym; meq_trans := feq_trans;
       adj_proper := fadj_proper; ctrl_proper := fctrl_proper;
       adj_adj := fadj_adj; ctrl_ctrl := fctrl_ctrl; adj_ctrl := fadj_ctrl |}.
End FunMat.

(* ================================================================ custom gates: arguments go to formals by position *)
Section CustomPosition.
  Variable R : Type.
  Variable ofQ : Q -> R.
  Variables radd rmul rpow : R -> R -> R.
  Variables rzero rone : R.
  Variable rfun : string -> list R -> R.
  Notation pev := (pev R ofQ radd rmul rpow rzero rone rfun).
  Notation custom_env := (custom_env R ofQ radd rmul rpow rzero rone rfun).

  Lemma alookup_rev_combine {V} (ks : list string) (vs : list V) (i : nat) (s : string) (v : V) :
    NoDup ks -> nth_error ks i = Some s -> nth_error vs i = Some v ->
    alookup s (rev (combine ks vs)) = Some v.
  Proof.
    revert vs i. induction ks as [|k r IH]; intros vs i Hnd Hk Hv.
    - destruct i; discriminate.
    - destruct vs as [|v0 vs']; [destruct i; discriminate|]. simpl. rewrite alookup_app.
      inversion Hnd as [|? ? Hnotin Hnd']; subst. destruct i as [|i']; simpl in Hk, Hv.
      + inversion Hk; inversion Hv; subst.
        assert (E : alookup s (rev (combine r vs')) = None).
        { apply alookup_none. rewrite map_rev, <- in_rev. intros Hin. apply Hnotin.
          clear - Hin. revert vs' Hin. induction r as [|x r' IHr]; intros vs' Hin; [destruct Hin|].
          destruct vs' as [|y ys]; [destruct Hin|]. simpl in Hin. destruct Hin as [Hin|Hin]; [left; exact Hin|right; eapply IHr; exact Hin]. }
        rewrite E. simpl. rewrite String.eqb_refl. reflexivity.
      + rewrite (IH vs' i' Hnd' Hk Hv). reflexivity.
  Qed.

  (* the i-th formal parameter stands for the value of the i-th argument, whatever symbols the argument mentions *)
  Lemma custom_env_position (en : env R) (d : cdef) (ps : list param) (i : nat) (s : string) (p : param) :
    NoDup (cformals d) -> nth_error (cformals d) i = Some s -> nth_error ps i = Some p ->
    custom_env en d ps s = pev en p.
  Proof.
    intros Hnd Hs Hp. unfold Bind.custom_env.
    rewrite (alookup_rev_combine (cformals d) (map (pev en) ps) i s (pev en p) Hnd Hs); [reflexivity|].
    rewrite nth_error_map, Hp. reflexivity.
  Qed.
End CustomPosition.

(* ================================================================ bind and replace_params; decidable premises *)

(* bind is replace_params with the substituted parameters, as MatrixFactoryGate.bind is written, through every
   Controlled / Dagger wrapper *)
Lemma bind_replace_params (m : smap) (g : gate) : has_pe g = false ->
  bind m g = replace_params (map (sub_symbols m) (gate_params g)) g.
Proof.
  induction g as [nm h q ps|d ps|k w IH|w IH|w IH e|w IH]; simpl; intros Hp; try discriminate; try reflexivity.
  - rewrite (IH Hp). reflexivity.
  - rewrite (IH Hp). reflexivity.
Qed.

Definition cdef_closedb (d : cdef) (ps : list param) : bool :=
  forallb (fun row => forallb (fun e => forallb (fun s => mem s (firstn (List.length ps) (cformals d))) (free e)) row)
          (crows d).
Lemma cdef_closedb_sound (d : cdef) (ps : list param) : cdef_closedb d ps = true -> cdef_closed d ps.
Proof.
  unfold cdef_closedb, cdef_closed. intros H row e s Hrow He Hs.
  rewrite forallb_forall in H. specialize (H row Hrow). rewrite forallb_forall in H. specialize (H e He).
  rewrite forallb_forall in H. apply mem_In. apply H. exact Hs.
Qed.
