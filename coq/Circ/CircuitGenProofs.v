(* Agreement of the GENERATED translation of the Circuit class and the circuit generators (Gen/CircuitGen.v, produced
   from circuits/_circuit.py and circuits/_generators.py by tr/tr_circuit.py on every run) with the hand-written model
   Circ/Constructions.v that the C08 theorems are about.

   The generated functions abstract over the world below circuits (record [pyenv] of Circ/CircuitTrSupport.v).  [menv]
   instantiates it with the model's gate expressions (Circ/GateAst.v): an operation is a gate expression with a tuple
   of Python ints, .dagger / .controlled(k) are the model's methods ([None] = the ValueError of a constructor), and
   the set iteration order is an arbitrary function [ord] (an input).  A model circuit is injected by writing its
   natural numbers as Python ints ([inj_c]).  Each theorem says: the generated function applied to injected inputs
   returns the injection of what the model function returns - for all inputs of the model, under the guard printed in
   the statement.

   Model deviation found (reported, outside gc_wf): for a non-empty list of operations none of which has a qubit, the
   code raises ValueError (max() of an empty sequence) where the model computes width 1; the same for appending an
   operation without qubits.  [ops_guard] / [mk_guard] exclude exactly these inputs; [size_gen_no_qubits],
   [init_gen_no_qubits], [append_operation_gen_no_qubits] describe the generated functions on them. *)
Require Import Coq.Arith.Arith Coq.ZArith.ZArith Coq.Lists.List Coq.Strings.String Coq.Bool.Bool Coq.micromega.Lia.
Require Import OQ.Circ.Lift OQ.Circ.GateAst OQ.Circ.Constructions OQ.Circ.CircuitTrSupport OQ.Gen.CircuitGen.
Import ListNotations.

(* ------------------------------------------------------------------ integers and lists *)
Lemma fold_max_of_nat r : forall x, fold_left Z.max (map Z.of_nat r) (Z.of_nat x) = Z.of_nat (Nat.max x (list_max r)).
Proof.
  induction r as [|a r IH]; intro x.
  - cbn. now rewrite Nat.max_0_r.
  - change (list_max (a :: r)) with (Nat.max a (list_max r)). cbn [map fold_left].
    rewrite <- Nat2Z.inj_max, IH. f_equal. lia.
Qed.

Lemma py_max_of_nat l : l <> [] -> py_max (map Z.of_nat l) = Ok (Z.of_nat (list_max l)).
Proof.
  destruct l as [|x r]; [congruence|]. intros _. cbn [map py_max]. now rewrite fold_max_of_nat.
Qed.

Lemma flat_map_singleton {A} (l : list A) : flat_map (fun x => [x]) l = l.
Proof. induction l; cbn; congruence. Qed.

Lemma py_len_map {A B} (f : A -> B) l : py_len (map f l) = py_len l.
Proof. unfold py_len. now rewrite map_length. Qed.

Lemma py_len_eqb {A B} (l : list A) (l' : list B) : Z.eqb (py_len l) (py_len l') = Nat.eqb (List.length l) (List.length l').
Proof.
  unfold py_len. destruct (Nat.eqb_spec (List.length l) (List.length l')) as [e|ne].
  - rewrite e. apply Z.eqb_refl.
  - apply Z.eqb_neq. lia.
Qed.

Lemma py_range_of_nat n : py_range (Z.of_nat n) = map Z.of_nat (seq 0 n).
Proof. unfold py_range. now rewrite Nat2Z.id. Qed.

Section Agreement.
  Variable P : Type.
  Variable pfree : P -> bool.
  Variable ord : list Z -> list Z.          (* the order in which CPython iterates set(xs): an input *)

  (* ---------------------------------------------------------------- the model as an environment *)
  Definition zop : Type := (gate P * list Z)%type.
  Definition lift_g (o : option (gate P)) : result (gate P) :=
    match o with Some g => Ok g | None => Raise ValueError end.

  Definition menv : pyenv :=
    mk_pyenv zop (gate P) P unit unit
             (fun op => snd op)                                   (* operation.qubit_indices *)
             (fun _ => true)                                      (* every operation of the model is a GateOperation *)
             (fun op => Ok (fst op))                              (* operation.gate *)
             (fun _ => [])                                        (* symbols are not part of this model *)
             (fun op _ => Ok op)
             (fun _ _ => true)
             (fun g => lift_g (dagger pfree g))                   (* gate.dagger *)
             (fun g k => lift_g (controlled pfree (Z.to_nat k) g))   (* gate.controlled(k) *)
             (fun g qs => (g, qs))                                (* GateOperation(gate, qubits) *)
             (fun name _ ps nq h => Base name ps (Z.to_nat nq) h) (* MatrixFactoryGate(name, factory, params, nq, herm) *)
             ord.

  Definition inj_op (op : gop P) : zop := (fst op, map Z.of_nat (snd op)).
  Definition inj_c (c : gcirc P) : Circuit_obj menv :=
    mk_Circuit menv (map inj_op (gc_ops c)) (Z.of_nat (gc_n c)).
  (* the model writes a raised exception as None; which exception it is, is part of each statement *)
  Definition lift_c (e : pyexn) (o : option (gcirc P)) : result (Circuit_obj menv) :=
    match o with Some c => Ok (inj_c c) | None => Raise e end.

  Lemma inj_c_ops c : Circuit__operations menv (inj_c c) = map inj_op (gc_ops c).
  Proof. reflexivity. Qed.
  Lemma inj_c_n c : Circuit__n_qubits menv (inj_c c) = Z.of_nat (gc_n c).
  Proof. reflexivity. Qed.

  (* ---------------------------------------------------------------- guards *)
  (* the inputs on which the model's width computation is the code's: no operations at all, or some qubit index *)
  Definition ops_guard (ops : list (gop P)) : Prop := ops = [] \/ flat_map snd ops <> [].
  (* Circuit(ops, n_qubits=n): a positive n is taken as it is *)
  Definition mk_guard (ops : list (gop P)) (n : nat) : Prop := n <> 0 \/ ops_guard ops.

  Lemma ops_guard_of_wf ops : Forall (fun op : gop P => snd op <> []) ops -> ops_guard ops.
  Proof.
    intros H. destruct ops as [|[g qs] r]; [now left|right].
    inversion H as [|? ? Hq _]; subst. cbn in *. destruct qs; [congruence|discriminate].
  Qed.

  Lemma ops_guard_iff ops : ops_guard ops <-> (ops = [] \/ Exists (fun qs : list nat => qs <> []) (map snd ops)).
  Proof.
    unfold ops_guard. split; (intros [H|H]; [now left|right]).
    - induction ops as [|[g qs] r IH]; [now cbn in H|]. cbn in *. destruct qs as [|q qs].
      + apply Exists_cons_tl. apply IH. exact H.
      + apply Exists_cons_hd. discriminate.
    - induction ops as [|[g qs] r IH]; [inversion H|]. cbn in *. inversion H as [? ? Hq|? ? Hr]; subst.
      + destruct qs; [congruence|discriminate].
      + intros E. apply app_eq_nil in E as [_ E]. now apply IH.
  Qed.

  Lemma ops_guard_same_qubits ops ops' : map snd ops' = map snd ops -> ops_guard ops -> ops_guard ops'.
  Proof.
    intros E. rewrite !ops_guard_iff, E. intros [->|H]; [left|now right].
    destruct ops'; [reflexivity|discriminate].
  Qed.

  Lemma ops_guard_rev ops : ops_guard ops -> ops_guard (rev ops).
  Proof.
    rewrite !ops_guard_iff, map_rev. intros [->|H]; [now left|right].
    apply Exists_exists in H as [x [Hi Hx]]. apply Exists_exists. exists x. split; [now apply in_rev in Hi|exact Hx].
  Qed.

  (* ---------------------------------------------------------------- _circuit_size_by_operations, Circuit(..) *)
  Lemma all_indices ops :
    flat_map (fun op : zop => flat_map (fun q : Z => [q]) (snd op)) (map inj_op ops) = map Z.of_nat (flat_map snd ops).
  Proof.
    induction ops as [|[g qs] r IH]; [reflexivity|]. cbn [map flat_map inj_op fst snd].
    now rewrite flat_map_singleton, IH, map_app.
  Qed.

  Theorem size_gen_is_model ops :
    ops_guard ops -> circuit_size_by_operations_gen menv (map inj_op ops) = Ok (Z.of_nat (size_ops ops)).
  Proof.
    unfold circuit_size_by_operations_gen, size_ops. intros [->|H]; [reflexivity|].
    destruct ops as [|op r]; [now cbn in H|].
    change (op_qubit_indices menv) with (fun op : zop => snd op).
    rewrite all_indices. cbn [map py_truth_seq negb]. rewrite (py_max_of_nat _ H). cbn [bind]. f_equal. lia.
  Qed.

  (* the remaining inputs: operations, none of which has a qubit - the code raises, the model says width 1 *)
  Theorem size_gen_no_qubits ops :
    ops <> [] -> flat_map snd ops = [] ->
    circuit_size_by_operations_gen menv (map inj_op ops) = Raise ValueError /\ size_ops ops = 1.
  Proof.
    unfold circuit_size_by_operations_gen, size_ops. intros Hne H. destruct ops as [|op r]; [congruence|].
    change (op_qubit_indices menv) with (fun op : zop => snd op).
    rewrite all_indices, H. split; reflexivity.
  Qed.

  Theorem init_gen_is_model ops n :
    mk_guard ops n -> Circuit_init_gen menv (Some (map inj_op ops)) (Some (Z.of_nat n)) = Ok (inj_c (mk_gcirc ops n)).
  Proof.
    intros G. unfold Circuit_init_gen, py_truthy_optint, py_list, py_int. destruct n as [|m].
    - cbn [Z.of_nat Z.eqb]. destruct G as [G|G]; [congruence|]. now rewrite (size_gen_is_model _ G).
    - replace (Z.eqb (Z.of_nat (S m)) 0) with false by (symmetry; apply Z.eqb_neq; lia).
      rewrite Z.eqb_refl. cbn [negb]. replace (Z.leb (Z.of_nat (S m)) 0) with false by (symmetry; apply Z.leb_gt; lia).
      reflexivity.
  Qed.

  (* Circuit() *)
  Theorem init_gen_empty : Circuit_init_gen menv None None = Ok (inj_c (mk_gcirc [] 0)).
  Proof. reflexivity. Qed.

  Theorem init_gen_no_qubits ops :
    ops <> [] -> flat_map snd ops = [] ->
    Circuit_init_gen menv (Some (map inj_op ops)) (Some 0%Z) = Raise ValueError /\ gc_n (mk_gcirc ops 0) = 1.
  Proof.
    intros Hne H. destruct (size_gen_no_qubits ops Hne H) as [E1 E2]. unfold Circuit_init_gen, py_list. cbn [py_truthy_optint Z.eqb].
    rewrite E1. split; [reflexivity|exact E2].
  Qed.

  (* what the generated constructor does with the widths the model does not have: for EVERY environment, a negative
     n_qubits is refused *)
  Theorem init_gen_negative (E : pyenv) ops n : (n < 0)%Z -> Circuit_init_gen E ops (Some n) = Raise ValueError.
  Proof.
    intros H. unfold Circuit_init_gen, py_truthy_optint, py_int.
    replace (Z.eqb n 0) with false by (symmetry; apply Z.eqb_neq; lia). rewrite Z.eqb_refl. cbn [negb].
    now replace (Z.leb n 0) with true by (symmetry; apply Z.leb_le; lia).
  Qed.

  (* ---------------------------------------------------------------- circuit + operation, circuit + circuit *)
  Theorem append_operation_gen_is_model c op :
    snd op <> [] -> append_operation_gen menv (inj_op op) (inj_c c) = Ok (inj_c (gc_append c op)).
  Proof.
    intros H. unfold append_operation_gen, Circuit_operations_gen, Circuit_n_qubits_gen, gc_append.
    change (op_qubit_indices menv (inj_op op)) with (map Z.of_nat (snd op)).
    rewrite (py_max_of_nat _ H), inj_c_ops, inj_c_n. cbn [bind].
    replace (Z.max (Z.of_nat (gc_n c)) (Z.add (Z.of_nat (list_max (snd op))) 1))
      with (Z.of_nat (Nat.max (gc_n c) (S (list_max (snd op))))) by lia.
    change [inj_op op] with (map inj_op [op]). rewrite <- map_app.
    apply init_gen_is_model. left. lia.
  Qed.

  Theorem append_operation_gen_no_qubits c g :
    append_operation_gen menv (inj_op (g, [])) (inj_c c) = Raise ValueError.
  Proof. reflexivity. Qed.

  Theorem append_circuit_gen_is_model c1 c2 :
    mk_guard (gc_ops c1 ++ gc_ops c2) (Nat.max (gc_n c1) (gc_n c2)) ->
    append_circuit_gen menv (inj_c c2) (inj_c c1) = Ok (inj_c (gc_add c1 c2)).
  Proof.
    intros G. unfold append_circuit_gen, Circuit_operations_gen, Circuit_n_qubits_gen, gc_add.
    rewrite !inj_c_ops, !inj_c_n, <- map_app, <- Nat2Z.inj_max. now apply init_gen_is_model.
  Qed.

  (* __add__ (also +=, the class has no __iadd__): singledispatch on the class of the right operand *)
  Theorem add_operation_gen_is_model c op :
    snd op <> [] -> Circuit_add_gen menv (inj_c c) (inr (inj_op op)) = Ok (inj_c (gc_append c op)).
  Proof. intros H. unfold Circuit_add_gen, append_to_circuit_gen. cbn [op_is_GateOperation menv]. now apply append_operation_gen_is_model. Qed.

  Theorem add_circuit_gen_is_model c1 c2 :
    mk_guard (gc_ops c1 ++ gc_ops c2) (Nat.max (gc_n c1) (gc_n c2)) ->
    Circuit_add_gen menv (inj_c c1) (inl (inj_c c2)) = Ok (inj_c (gc_add c1 c2)).
  Proof. intros G. unfold Circuit_add_gen, append_to_circuit_gen. now apply append_circuit_gen_is_model. Qed.

  (* an operation of a class for which nothing is registered (for every environment) *)
  Theorem add_gen_other_operation (E : pyenv) (c : Circuit_obj E) (o : Op E) :
    op_is_GateOperation E o = false -> Circuit_add_gen E c (inr o) = Raise NotImplementedError.
  Proof. intros H. unfold Circuit_add_gen, append_to_circuit_gen. now rewrite H. Qed.

  (* ---------------------------------------------------------------- Circuit.inverse *)
  Lemma all_gate_operations (l : list zop) : py_all (flat_map (fun _ : zop => [true]) l) = true.
  Proof. induction l; [reflexivity|exact IHl]. Qed.

  Lemma all_some_same_qubits (f : gop P -> option (gop P)) :
    (forall op op', f op = Some op' -> snd op' = snd op) ->
    forall l l', all_some (map f l) = Some l' -> map snd l' = map snd l.
  Proof.
    intros Hf. induction l as [|op r IH]; intros l' H; cbn in H.
    - now inversion H.
    - destruct (f op) as [op'|] eqn:E; [|discriminate]. destruct (all_some (map f r)) as [r'|]; [|discriminate].
      inversion H; subst. cbn. now rewrite (Hf _ _ E), (IH r').
  Qed.

  Lemma dagger_op_qubits (op op' : gop P) : dagger_op pfree op = Some op' -> snd op' = snd op.
  Proof. unfold dagger_op. destruct (dagger pfree (fst op)); intros H; inversion H; reflexivity. Qed.

  Lemma inverse_comprehension l :
    py_comp (map inj_op l)
            (fun v_op : zop => bind (op_gate menv v_op) (fun x1 => bind (gate_dagger menv x1) (fun x2 =>
               Ok [gate_call menv x2 (op_qubit_indices menv v_op)])))
    = match all_some (map (dagger_op pfree) l) with
      | Some l' => Ok (map inj_op l')
      | None => Raise ValueError
      end.
  Proof.
    induction l as [|[g qs] r IH]; [reflexivity|]. cbn [map py_comp all_some]. rewrite IH.
    change (dagger_op pfree (g, qs)) with (match dagger pfree g with Some g' => Some (g', qs) | None => None end).
    cbn [inj_op fst snd op_gate gate_dagger gate_call op_qubit_indices menv bind lift_g].
    destruct (dagger pfree g) as [g'|]; cbn [bind lift_g]; [|reflexivity].
    destruct (all_some (map (dagger_op pfree) r)) as [r'|]; reflexivity.
  Qed.

  Theorem inverse_gen_is_model c :
    mk_guard (gc_ops c) (gc_n c) -> Circuit_inverse_gen menv (inj_c c) = lift_c ValueError (inverse pfree c).
  Proof.
    intros G. unfold Circuit_inverse_gen, Circuit_operations_gen, Circuit_n_qubits_gen, inverse, py_reversed.
    rewrite inj_c_ops, inj_c_n. change (op_is_GateOperation menv) with (fun _ : zop => true).
    rewrite all_gate_operations, <- map_rev, inverse_comprehension.
    destruct (all_some (map (dagger_op pfree) (rev (gc_ops c)))) as [l'|] eqn:E; [|reflexivity].
    cbn [bind py_try lift_c]. rewrite init_gen_is_model; [reflexivity|].
    destruct G as [G|G]; [now left|right].
    apply (ops_guard_same_qubits (rev (gc_ops c))); [|now apply ops_guard_rev].
    exact (all_some_same_qubits _ dagger_op_qubits _ _ E).
  Qed.

  (* ---------------------------------------------------------------- Circuit.controlled *)
  Lemma shifted_indices k qs :
    flat_map (fun v_i : Z => [if Z.leb (Z.of_nat k) v_i then Z.add v_i 1 else v_i]) (map Z.of_nat qs)
    = map Z.of_nat (map (shift_idx k) qs).
  Proof.
    induction qs as [|q r IH]; [reflexivity|]. cbn [map flat_map app]. rewrite IH. f_equal. unfold shift_idx.
    destruct (Nat.leb_spec k q) as [H|H].
    - replace (Z.leb (Z.of_nat k) (Z.of_nat q)) with true by (symmetry; apply Z.leb_le; lia). lia.
    - replace (Z.leb (Z.of_nat k) (Z.of_nat q)) with false by (symmetry; apply Z.leb_gt; lia). reflexivity.
  Qed.

  Lemma controlled_loop k l : forall acc,
    py_for (map inj_op l) (map inj_op acc)
           (fun (v_op : Op menv) (v_c_ops : list (Op menv)) =>
              bind (op_gate menv v_op) (fun x1 => bind (gate_controlled menv x1 1%Z) (fun x2 =>
              let v_controlled_op : Gate menv := x2 in
              let v_new_indices : list Z :=
                flat_map (fun v_i : Z => [if Z.leb (Z.of_nat k) v_i then Z.add v_i 1 else v_i]) (op_qubit_indices menv v_op) in
              let v_new_indices_with_control : list Z := [Z.of_nat k] ++ v_new_indices in
              let v_c_ops : list (Op menv) := v_c_ops ++ [gate_call menv v_controlled_op v_new_indices_with_control] in
              Ok v_c_ops)))
    = match all_some (map (controlled_op pfree k) l) with
      | Some l' => Ok (map inj_op (acc ++ l'))
      | None => Raise ValueError
      end.
  Proof.
    induction l as [|[g qs] r IH]; intro acc.
    - cbn. now rewrite app_nil_r.
    - cbn [map py_for all_some]. unfold controlled_op at 1.
      cbn [inj_op fst snd op_gate gate_controlled gate_call op_qubit_indices menv bind lift_g].
      change (Z.to_nat 1) with 1. destruct (controlled pfree 1 g) as [g'|]; [|reflexivity]. cbn [bind lift_g].
      rewrite shifted_indices.
      change ([Z.of_nat k] ++ map Z.of_nat (map (shift_idx k) qs)) with (map Z.of_nat (k :: map (shift_idx k) qs)).
      change [(g', map Z.of_nat (k :: map (shift_idx k) qs))] with (map inj_op [(g', k :: map (shift_idx k) qs)]).
      rewrite <- map_app, IH.
      destruct (all_some (map (controlled_op pfree k) r)) as [r'|]; [|reflexivity]. now rewrite <- app_assoc.
  Qed.

  Theorem controlled_gen_is_model c k :
    Circuit_controlled_gen menv (inj_c c) (Z.of_nat k) = lift_c ValueError (controlled_circuit pfree k c).
  Proof.
    unfold Circuit_controlled_gen, Circuit_operations_gen, Circuit_n_qubits_gen, controlled_circuit.
    rewrite inj_c_ops, inj_c_n. change (@nil (Op menv)) with (map inj_op []). rewrite controlled_loop.
    destruct (all_some (map (controlled_op pfree k) (gc_ops c))) as [l'|]; [|reflexivity].
    cbn [bind lift_c app].
    replace (Z.add (Z.max (Z.of_nat (gc_n c)) (Z.of_nat k)) 1) with (Z.of_nat (S (Nat.max (gc_n c) k))) by lia.
    apply init_gen_is_model. now left.
  Qed.

  (* ---------------------------------------------------------------- apply_gate_to_qubits, create_layer_of_gates *)
  (* a loop whose body appends one single-qubit operation: the model's [place] *)
  Lemma place_loop {A} (body : Z * A -> Circuit_obj menv -> result (Circuit_obj menv)) (g : A -> gate P) :
    (forall q a c, body (Z.of_nat q, a) (inj_c c) = Ok (inj_c (gc_append c (g a, [q])))) ->
    forall order (rows : list A) c,
      py_for (py_zip (map Z.of_nat order) rows) (inj_c c) body = Ok (inj_c (place c (combine order (map g rows)))).
  Proof.
    intros Hb. induction order as [|q order IH]; intros rows c; [reflexivity|].
    destruct rows as [|a rows]; [reflexivity|]. cbn [map py_zip combine py_for]. rewrite Hb. cbn [bind]. rewrite IH. reflexivity.
  Qed.

  Lemma place_loop1 (body : Z -> Circuit_obj menv -> result (Circuit_obj menv)) (g : gate P) :
    (forall q c, body (Z.of_nat q) (inj_c c) = Ok (inj_c (gc_append c (g, [q])))) ->
    forall order c, py_for (map Z.of_nat order) (inj_c c) body = Ok (inj_c (place c (map (fun q => (q, g)) order))).
  Proof.
    intros Hb. induction order as [|q order IH]; intros c; [reflexivity|].
    cbn [map py_for]. rewrite Hb. cbn [bind]. rewrite IH. reflexivity.
  Qed.

  (* with parameter rows: the factory is a prototype [pf] that returns the gate [fac row] *)
  Theorem apply_gen_rows_is_model c qs order (pf : pyproto menv) fac rows :
    ord (map Z.of_nat qs) = map Z.of_nat order -> (forall ps, pf ps = Ok (fac ps)) ->
    apply_gate_to_qubits_gen menv (inj_c c) (map Z.of_nat qs) (inl pf) (Some rows)
    = lift_c AssertionError (apply_gate_to_qubits c order fac (Some rows)).
  Proof.
    intros Ho Hpf. unfold apply_gate_to_qubits_gen, apply_gate_to_qubits.
    change (set_order menv (map Z.of_nat qs)) with (ord (map Z.of_nat qs)). rewrite Ho.
    cbv zeta. rewrite py_len_eqb, map_length. change (Param menv) with P in *.
    destruct (Nat.eqb (List.length rows) (List.length order)); [|reflexivity].
    cbn [py_cast_inl bind].
    rewrite (place_loop _ fac); [reflexivity|].
    intros q a c0. rewrite Hpf. cbn [bind]. change (gate_call menv (fac a) [Z.of_nat q]) with (inj_op (fac a, [q])).
    rewrite add_operation_gen_is_model; [reflexivity|discriminate].
  Qed.

  (* without rows: the factory is a gate *)
  Theorem apply_gen_gate_is_model c qs order (g : gate P) fac :
    ord (map Z.of_nat qs) = map Z.of_nat order -> fac [] = g ->
    apply_gate_to_qubits_gen menv (inj_c c) (map Z.of_nat qs) (inr g) None
    = lift_c AssertionError (apply_gate_to_qubits c order fac None).
  Proof.
    intros Ho Hg. unfold apply_gate_to_qubits_gen, apply_gate_to_qubits.
    change (set_order menv (map Z.of_nat qs)) with (ord (map Z.of_nat qs)). rewrite Ho, Hg.
    cbv zeta. cbn [py_cast_inr bind].
    rewrite (place_loop1 _ g); [reflexivity|].
    intros q c0. change (gate_call menv g [Z.of_nat q]) with (inj_op (g, [q])).
    rewrite add_operation_gen_is_model; [reflexivity|discriminate].
  Qed.

  (* the remaining combinations, for every environment: a wrong number of rows fails the assertion; a factory of the
     class the cast does not claim is outside what the support file describes *)
  Theorem apply_gen_wrong_row_count (E : pyenv) c qs fac rows :
    List.length rows <> List.length (set_order E qs) ->
    apply_gate_to_qubits_gen E c qs fac (Some rows) = Raise AssertionError.
  Proof.
    intros H. unfold apply_gate_to_qubits_gen. cbv zeta. rewrite py_len_eqb.
    now destruct (Nat.eqb_spec (List.length rows) (List.length (set_order E qs))).
  Qed.

  Theorem apply_gen_gate_with_rows (E : pyenv) c qs (g : Gate E) rows :
    List.length rows = List.length (set_order E qs) ->
    apply_gate_to_qubits_gen E c qs (inr g) (Some rows) = Raise NotModelled.
  Proof.
    intros H. unfold apply_gate_to_qubits_gen. cbv zeta. rewrite py_len_eqb, H, Nat.eqb_refl. reflexivity.
  Qed.

  Theorem apply_gen_prototype_without_rows (E : pyenv) c qs (pf : pyproto E) :
    apply_gate_to_qubits_gen E c qs (inl pf) None = Raise NotModelled.
  Proof. reflexivity. Qed.

  (* create_layer_of_gates: the model lets set(range(n)) be iterated upwards; that is the guard *)
  Theorem create_layer_gen_rows_is_model n (pf : pyproto menv) fac rows :
    ord (py_range (Z.of_nat n)) = py_range (Z.of_nat n) -> (forall ps, pf ps = Ok (fac ps)) ->
    create_layer_of_gates_gen menv (Z.of_nat n) (inl pf) (Some rows) = lift_c AssertionError (create_layer n fac (Some rows)).
  Proof.
    intros Ho Hpf. unfold create_layer_of_gates_gen, create_layer. rewrite init_gen_empty. cbn [bind]. cbv zeta.
    rewrite py_range_of_nat in *. now apply apply_gen_rows_is_model.
  Qed.

  Theorem create_layer_gen_gate_is_model n (g : gate P) fac :
    ord (py_range (Z.of_nat n)) = py_range (Z.of_nat n) -> fac [] = g ->
    create_layer_of_gates_gen menv (Z.of_nat n) (inr g) None = lift_c AssertionError (create_layer n fac None).
  Proof.
    intros Ho Hg. unfold create_layer_of_gates_gen, create_layer. rewrite init_gen_empty. cbn [bind]. cbv zeta.
    rewrite py_range_of_nat in *. now apply apply_gen_gate_is_model.
  Qed.

  (* ---------------------------------------------------------------- add_ancilla_register *)
  Theorem I_gen_is_model : I_gen menv = igate.
  Proof. reflexivity. Qed.

  Lemma fold_loop (body : Z -> Circuit_obj menv -> result (Circuit_obj menv)) (f : gcirc P -> nat -> gcirc P) :
    (forall i c, body (Z.of_nat i) (inj_c c) = Ok (inj_c (f c i))) ->
    forall l c, py_for (map Z.of_nat l) (inj_c c) body = Ok (inj_c (fold_left f l c)).
  Proof.
    intros Hb. induction l as [|i l IH]; intros c; [reflexivity|]. cbn [map py_for fold_left]. rewrite Hb. cbn [bind]. apply IH.
  Qed.

  Theorem ancilla_gen_is_model c a :
    add_ancilla_register_gen menv (inj_c c) (Z.of_nat a) = Ok (inj_c (add_ancilla c a)).
  Proof.
    unfold add_ancilla_register_gen, add_ancilla, Circuit_n_qubits_gen. cbv zeta. rewrite py_range_of_nat, inj_c_n.
    rewrite (fold_loop _ (fun acc i => gc_append acc (igate, [gc_n c + i]))); [reflexivity|].
    intros i c0. rewrite I_gen_is_model, <- Nat2Z.inj_add.
    change (gate_call menv igate [Z.of_nat (gc_n c + i)]) with (inj_op (igate, [gc_n c + i])).
    rewrite add_operation_gen_is_model; [reflexivity|discriminate].
  Qed.

  (* ---------------------------------------------------------------- the guards from well-formedness *)
  (* every operation has a qubit (part of gc_wf): all the guards above hold *)
  Lemma mk_guard_of_wf ops n : Forall (fun op : gop P => snd op <> []) ops -> mk_guard ops n.
  Proof. intros H. right. now apply ops_guard_of_wf. Qed.

  Corollary inverse_gen_is_model_wf c :
    Forall (fun op : gop P => snd op <> []) (gc_ops c) -> Circuit_inverse_gen menv (inj_c c) = lift_c ValueError (inverse pfree c).
  Proof. intros H. apply inverse_gen_is_model. now apply mk_guard_of_wf. Qed.

  Corollary add_circuit_gen_is_model_wf c1 c2 :
    Forall (fun op : gop P => snd op <> []) (gc_ops c1) -> Forall (fun op : gop P => snd op <> []) (gc_ops c2) ->
    Circuit_add_gen menv (inj_c c1) (inl (inj_c c2)) = Ok (inj_c (gc_add c1 c2)).
  Proof. intros H1 H2. apply add_circuit_gen_is_model, mk_guard_of_wf. apply Forall_app. now split. Qed.
End Agreement.

(* ------------------------------------------------------------------ for every environment *)
(* Circuit.free_symbols and Circuit.bind have no counterpart in Circ/Constructions.v (they belong to property C06, model
   Circ/Bind.v: see Circ/CircuitGenBindProofs.v).  What the generated functions compute is characterised here for
   EVERY environment: first-appearance de-duplication of the concatenated free symbols; every operation bound in
   order, first exception wins, then the constructor with the old width. *)
Section General.
  Variable E : pyenv.

  Theorem init_gen_positive ops n : (0 < n)%Z -> Circuit_init_gen E (Some ops) (Some n) = Ok (mk_Circuit E ops n).
  Proof.
    intros H. unfold Circuit_init_gen, py_truthy_optint, py_int, py_list.
    replace (Z.eqb n 0) with false by (symmetry; apply Z.eqb_neq; lia). rewrite Z.eqb_refl. cbn [negb].
    now replace (Z.leb n 0) with false by (symmetry; apply Z.leb_gt; lia).
  Qed.

  (* the elements of l not in seen, each at its first appearance *)
  Fixpoint first_seen (seen l : list (Sym E)) : list (Sym E) :=
    match l with
    | [] => []
    | x :: r => if py_in (sym_eqb E) x seen then first_seen seen r else x :: first_seen (seen ++ [x]) r
    end.

  Lemma first_seen_app a : forall seen b,
    first_seen seen (a ++ b) = first_seen seen a ++ first_seen (seen ++ first_seen seen a) b.
  Proof.
    induction a as [|x a IH]; intros seen b; cbn [app first_seen].
    - now rewrite app_nil_r.
    - destruct (py_in (sym_eqb E) x seen); [apply IH|]. cbn [app]. rewrite IH, <- app_assoc. reflexivity.
  Qed.

  Lemma first_seen_inner (body : Sym E -> list (Sym E) * list (Sym E) -> result (list (Sym E) * list (Sym E))) :
    (forall x seen acc, body x (seen, acc) = Ok (if py_in (sym_eqb E) x seen then (seen, acc) else (seen ++ [x], acc ++ [x]))) ->
    forall l seen acc, py_for l (seen, acc) body = Ok (seen ++ first_seen seen l, acc ++ first_seen seen l).
  Proof.
    intros Hb. induction l as [|x r IH]; intros seen acc; cbn [py_for first_seen].
    - now rewrite !app_nil_r.
    - rewrite Hb. destruct (py_in (sym_eqb E) x seen); cbn [bind]; rewrite IH; [reflexivity|].
      now rewrite <- !app_assoc.
  Qed.

  Lemma first_seen_outer {A} (f : A -> list (Sym E)) (body : A -> list (Sym E) * list (Sym E) -> result (list (Sym E) * list (Sym E))) :
    (forall a seen acc, body a (seen, acc) = Ok (seen ++ first_seen seen (f a), acc ++ first_seen seen (f a))) ->
    forall l seen acc, py_for l (seen, acc) body = Ok (seen ++ first_seen seen (flat_map f l), acc ++ first_seen seen (flat_map f l)).
  Proof.
    intros Hb. induction l as [|a r IH]; intros seen acc; cbn [py_for flat_map first_seen].
    - now rewrite !app_nil_r.
    - rewrite Hb. cbn [bind]. rewrite IH, first_seen_app, <- !app_assoc. reflexivity.
  Qed.

  Theorem free_symbols_gen_spec c :
    Circuit_free_symbols_gen E c = Ok (first_seen [] (flat_map (op_free_symbols E) (Circuit__operations E c))).
  Proof.
    unfold Circuit_free_symbols_gen. cbv zeta.
    rewrite (first_seen_outer (op_free_symbols E)); [reflexivity|].
    intros a seen acc. rewrite first_seen_inner; [reflexivity|].
    intros x seen0 acc0. unfold py_mset_add. now destruct (py_in (sym_eqb E) x seen0).
  Qed.

  (* operation.bind(m) on every operation in order; the first exception wins *)
  Fixpoint bind_all (m : SymMap E) (ops : list (Op E)) : result (list (Op E)) :=
    match ops with
    | [] => Ok []
    | o :: r => bind (op_bind E o m) (fun o' => bind (bind_all m r) (fun r' => Ok (o' :: r')))
    end.

  Lemma bind_comprehension m ops :
    py_comp ops (fun v_op : Op E => bind (op_bind E v_op m) (fun x1 => Ok [x1])) = bind_all m ops.
  Proof.
    induction ops as [|o r IH]; [reflexivity|]. cbn [py_comp bind_all]. rewrite IH.
    destruct (op_bind E o m); [|reflexivity]. cbn [bind]. destruct (bind_all m r); reflexivity.
  Qed.

  Theorem bind_gen_spec c m :
    Circuit_bind_gen E c m
    = bind (bind_all m (Circuit__operations E c)) (fun ops' => Circuit_init_gen E (Some ops') (Some (Circuit__n_qubits E c))).
  Proof. unfold Circuit_bind_gen, Circuit_operations_gen, Circuit_n_qubits_gen. now rewrite bind_comprehension. Qed.
End General.
