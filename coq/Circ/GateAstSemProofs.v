(* Matrix meaning of the gate modifiers (property C07): block-diagonal algebra of diag(I, U), and the
   theorems that the re-associating methods of circuits/_gates.py keep the promised matrix.
   sympy's Matrix.exp / inv / fractional powers enter only through the [oracles] record and the law
   records of GateAst.v; each theorem names the laws it uses. *)
Require Import Coq.setoid_ring.Ring Coq.Arith.Arith Coq.ZArith.ZArith Coq.Lists.List Coq.Strings.String Coq.Bool.Bool
  Coq.micromega.Lia.
Require Import OQ.Base.Ring OQ.Base.Sums OQ.Base.Mat OQ.Circ.GateAst OQ.Circ.GateAstProofs.
Import ListNotations.

(* ------------------------------------------------------------------------------ block-diagonal algebra *)
Section Diag.
  Variable K : cring.
  Add Ring Kring : (c_ring K).
  Notation Mat := (Mat K).
  Notation diag_id := (@diag_id K).
  Notation eye := (@eye K).

  Lemma diag_id_lo a (U : Mat) i j : i < a \/ j < a -> diag_id a U i j = eye i j.
  Proof.
    intro H. unfold GateAst.diag_id.
    destruct (Nat.ltb_spec i a) as [Hi|Hi]; destruct (Nat.ltb_spec j a) as [Hj|Hj]; cbn [orb]; try reflexivity. lia.
  Qed.

  Lemma diag_id_hi a (U : Mat) i j : a <= i -> a <= j -> diag_id a U i j = U (i - a) (j - a).
  Proof.
    intros Hi Hj. unfold GateAst.diag_id.
    destruct (Nat.ltb_spec i a) as [Hi'|Hi']; destruct (Nat.ltb_spec j a) as [Hj'|Hj']; cbn [orb]; try lia. reflexivity.
  Qed.

  Lemma eye_shift a i j : a <= i -> a <= j -> eye (i - a) (j - a) = eye i j.
  Proof.
    intros Hi Hj. unfold Mat.eye. destruct (Nat.eqb_spec (i - a) (j - a)); destruct (Nat.eqb_spec i j); try reflexivity; lia.
  Qed.

  Lemma eye_ne i j : i <> j -> eye i j = c0.
  Proof. intro H. unfold Mat.eye. destruct (Nat.eqb_spec i j); [contradiction|reflexivity]. Qed.

  Lemma diag_id_compat a d (U V : Mat) : mat_eq d U V -> mat_eq (a + d) (diag_id a U) (diag_id a V).
  Proof.
    intros H i j Hi Hj. destruct (Nat.lt_ge_cases i a) as [Hia|Hia].
    - rewrite !diag_id_lo by (left; exact Hia). reflexivity.
    - destruct (Nat.lt_ge_cases j a) as [Hja|Hja].
      + rewrite !diag_id_lo by (right; exact Hja). reflexivity.
      + rewrite !diag_id_hi by assumption. apply H; lia.
  Qed.

  Lemma diag_id_eye a i j : diag_id a eye i j = eye i j.
  Proof.
    destruct (Nat.lt_ge_cases i a) as [Hia|Hia]; [apply diag_id_lo; left; exact Hia|].
    destruct (Nat.lt_ge_cases j a) as [Hja|Hja]; [apply diag_id_lo; right; exact Hja|].
    rewrite diag_id_hi by assumption. apply eye_shift; assumption.
  Qed.

  Lemma diag_id_adj a (U : Mat) i j : adj (diag_id a U) i j = diag_id a (adj U) i j.
  Proof.
    destruct (Nat.lt_ge_cases i a) as [Hia|Hia].
    - unfold adj at 1. rewrite !diag_id_lo by (auto). apply (adj_eye K).
    - destruct (Nat.lt_ge_cases j a) as [Hja|Hja].
      + unfold adj at 1. rewrite !diag_id_lo by (auto). apply (adj_eye K).
      + unfold adj at 1. rewrite !diag_id_hi by assumption. reflexivity.
  Qed.

  Lemma diag_id_nest a b (U : Mat) i j : diag_id a (diag_id b U) i j = diag_id (a + b) U i j.
  Proof.
    destruct (Nat.lt_ge_cases i a) as [Hia|Hia].
    - rewrite !diag_id_lo by (left; lia). reflexivity.
    - destruct (Nat.lt_ge_cases j a) as [Hja|Hja].
      + rewrite !diag_id_lo by (right; lia). reflexivity.
      + rewrite (diag_id_hi a) by assumption.
        destruct (Nat.lt_ge_cases (i - a) b) as [Hib|Hib].
        * rewrite !diag_id_lo by (left; lia). apply eye_shift; assumption.
        * destruct (Nat.lt_ge_cases (j - a) b) as [Hjb|Hjb].
          -- rewrite !diag_id_lo by (right; lia). apply eye_shift; assumption.
          -- rewrite !diag_id_hi by lia. f_equal; lia.
  Qed.

  (* diag(I, U) diag(I, V) = diag(I, U V) *)
  Lemma diag_id_mmul a d (U V : Mat) :
    mat_eq (a + d) (mmul (a + d) (diag_id a U) (diag_id a V)) (diag_id a (mmul d U V)).
  Proof.
    intros i j Hi Hj. destruct (Nat.lt_ge_cases i a) as [Hia|Hia].
    - rewrite (diag_id_lo a (mmul d U V)) by (left; exact Hia).
      transitivity (mmul (a + d) eye (diag_id a V) i j).
      + unfold mmul. apply rsum_ext. intros k _. rewrite (diag_id_lo a U) by (left; exact Hia). reflexivity.
      + rewrite (mmul_eye_l K) by exact Hi. apply diag_id_lo. left; exact Hia.
    - destruct (Nat.lt_ge_cases j a) as [Hja|Hja].
      + rewrite (diag_id_lo a (mmul d U V)) by (right; exact Hja).
        transitivity (mmul (a + d) (diag_id a U) eye i j).
        * unfold mmul. apply rsum_ext. intros k _. rewrite (diag_id_lo a V) by (right; exact Hja). reflexivity.
        * rewrite (mmul_eye_r K) by exact Hj. apply diag_id_lo. right; exact Hja.
      + rewrite (diag_id_hi a (mmul d U V)) by assumption. unfold mmul. rewrite rsum_split.
        rewrite rsum_zero_ext.
        * rewrite (rsum_ext K d _ (fun k => cmul (U (i - a) k) (V k (j - a)))).
          -- ring.
          -- intros k Hk. rewrite !diag_id_hi by lia. repeat f_equal; lia.
        * intros k Hk. rewrite (diag_id_lo a U i k) by (right; exact Hk). rewrite eye_ne by lia. ring.
  Qed.

  Lemma mpow_compat d (A B : Mat) n : mat_eq d A B -> mat_eq d (mpow d A n) (mpow d B n).
  Proof.
    intro H. induction n as [|n IH]; cbn [mpow]; [apply mat_eq_refl|]. apply mmul_compat; assumption.
  Qed.

  Lemma diag_id_mpow a d (U : Mat) n :
    mat_eq (a + d) (mpow (a + d) (diag_id a U) n) (diag_id a (mpow d U n)).
  Proof.
    induction n as [|n IH]; cbn [mpow].
    - intros i j _ _. symmetry. apply diag_id_eye.
    - eapply mat_eq_trans; [apply mmul_compat; [apply mat_eq_refl|exact IH]|]. apply diag_id_mmul.
  Qed.

  Lemma mmul_eye_l_eq d (A : Mat) : mat_eq d (mmul d eye A) A.
  Proof. intros i j Hi _. apply (mmul_eye_l K); exact Hi. Qed.
  Lemma mmul_eye_r_eq d (A : Mat) : mat_eq d (mmul d A eye) A.
  Proof. intros i j _ Hj. apply (mmul_eye_r K); exact Hj. Qed.
  Lemma mmul_assoc_eq d (A B C : Mat) : mat_eq d (mmul d (mmul d A B) C) (mmul d A (mmul d B C)).
  Proof. intros i j _ _. apply (mmul_assoc K). Qed.

  Lemma mpow_succ_r d (A : Mat) n : mat_eq d (mpow d A (S n)) (mmul d (mpow d A n) A).
  Proof.
    induction n as [|n IH].
    - cbn [mpow]. eapply mat_eq_trans; [apply mmul_eye_r_eq|]. apply mat_eq_sym, mmul_eye_l_eq.
    - change (mpow d A (S (S n))) with (mmul d A (mpow d A (S n))).
      eapply mat_eq_trans; [apply mmul_compat; [apply mat_eq_refl|exact IH]|].
      change (mpow d A (S n)) with (mmul d A (mpow d A n)). apply mat_eq_sym, mmul_assoc_eq.
  Qed.

  Lemma adj_mpow d (A : Mat) n : mat_eq d (adj (mpow d A n)) (mpow d (adj A) n).
  Proof.
    induction n as [|n IH].
    - cbn [mpow]. intros i j _ _. apply (adj_eye K).
    - eapply mat_eq_trans; [|apply mat_eq_sym, mpow_succ_r]. cbn [mpow].
      eapply mat_eq_trans; [intros i j _ _; apply (adj_mmul K)|]. apply mmul_compat; [exact IH|apply mat_eq_refl].
  Qed.

  (* a left inverse of M gives a left inverse of every power *)
  Lemma mpow_inv d (N M : Mat) n : mat_eq d (mmul d N M) eye ->
    mat_eq d (mmul d (mpow d N n) (mpow d M n)) eye.
  Proof.
    intro H. induction n as [|n IH].
    - cbn [mpow]. apply mmul_eye_l_eq.
    - eapply mat_eq_trans; [apply mmul_compat; [apply mpow_succ_r|apply mat_eq_refl]|]. cbn [mpow].
      eapply mat_eq_trans; [apply mmul_assoc_eq|].
      eapply mat_eq_trans; [|exact IH]. apply mmul_compat; [apply mat_eq_refl|].
      eapply mat_eq_trans; [apply mat_eq_sym, mmul_assoc_eq|].
      eapply mat_eq_trans; [apply mmul_compat; [exact H|apply mat_eq_refl]|]. apply mmul_eye_l_eq.
  Qed.

  (* "controls come first": with the target register in the low-order part of the index (the last qubits of
     the operation under the library's lifting convention), diag(I, U) acts as U exactly when every control
     bit is 1 and as the identity otherwise *)
  Lemma diag_id_controlled_entries n k (U : Mat) i j : i < 2 ^ (n + k) -> j < 2 ^ (n + k) ->
    diag_id (2 ^ (n + k) - 2 ^ n) U i j =
    if Nat.eqb (i / 2 ^ n) (2 ^ k - 1) && Nat.eqb (j / 2 ^ n) (2 ^ k - 1)
    then U (i mod 2 ^ n) (j mod 2 ^ n) else eye i j.
  Proof.
    rewrite Nat.pow_add_r. set (m := 2 ^ n). set (c := 2 ^ k).
    assert (Hm : 0 < m) by (apply Nat.neq_0_lt_0, Nat.pow_nonzero; lia).
    assert (Hc : 0 < c) by (apply Nat.neq_0_lt_0, Nat.pow_nonzero; lia).
    clearbody m c. intros Hi Hj.
    assert (HD : m * c - m = m * (c - 1)) by nia.
    assert (Ei := Nat.div_mod i m ltac:(lia)). assert (Ej := Nat.div_mod j m ltac:(lia)).
    assert (Ri := Nat.mod_upper_bound i m ltac:(lia)). assert (Rj := Nat.mod_upper_bound j m ltac:(lia)).
    assert (Qi : i / m < c) by (apply Nat.div_lt_upper_bound; lia).
    assert (Qj : j / m < c) by (apply Nat.div_lt_upper_bound; lia).
    destruct (Nat.eqb_spec (i / m) (c - 1)) as [Ci|Ci]; destruct (Nat.eqb_spec (j / m) (c - 1)) as [Cj|Cj]; cbn [andb].
    - rewrite diag_id_hi by nia. f_equal; nia.
    - apply diag_id_lo. right. nia.
    - apply diag_id_lo. left. nia.
    - apply diag_id_lo. left. nia.
  Qed.
End Diag.

Lemma ctrl_dim n k : 2 ^ (n + k) = 2 ^ (n + k) - 2 ^ n + 2 ^ n.
Proof. assert (H : 2 ^ n <= 2 ^ (n + k)) by (apply Nat.pow_le_mono_r; lia). lia. Qed.

(* ------------------------------------------------------------------------------ meaning of the methods *)
Section SemProofs.
  Variable K : cring.
  Variable P : Type.
  Variable pfree : P -> bool.
  Variable o : oracles K P.
  Notation gate := (gate P).
  Notation sem := (sem o).
  Notation mpowz := (mpowz o).
  Notation power := (power pfree).
  Notation dagger := (dagger pfree).
  Notation controlled := (controlled pfree).
  Notation gexp := (gexp pfree).

  Lemma dim_eq (g r : gate) : num_qubits r = num_qubits g -> dim r = dim g.
  Proof. unfold dim. intros ->. reflexivity. Qed.

  (* ---------------------------------------------------------------- M ** e and diag / adjoint *)
  Definition pow_diag_at (e : exponent) : Prop :=
    forall a d (U : Mat K), mat_eq (a + d) (mpowz (a + d) (diag_id a U) e) (diag_id a (mpowz d U e)).

  Lemma pow_diag_nonneg z : (0 <= z)%Z -> pow_diag_at (EInt z).
  Proof.
    intros Hz a d U. unfold GateAst.mpowz. destruct (Z.leb_spec 0 z); [|lia]. apply diag_id_mpow.
  Qed.

  Lemma pow_diag_int z : inv_laws o -> pow_diag_at (EInt z).
  Proof.
    intros L a d U. unfold GateAst.mpowz. destruct (Z.leb_spec 0 z); [apply diag_id_mpow|].
    eapply mat_eq_trans; [apply mpow_compat, (inv_diag _ _ _ L)|]. apply diag_id_mpow.
  Qed.

  Lemma pow_diag_all e : inv_laws o -> frac_laws o -> pow_diag_at e.
  Proof.
    intros L F. destruct e as [z|q|t]; [apply pow_diag_int, L| |]; intros a d U; cbn [GateAst.mpowz].
    - apply (root_diag _ _ _ F).
    - apply (other_diag _ _ _ F).
  Qed.

  Lemma mpowz_int_compat d (A B : Mat K) z : inv_laws o -> mat_eq d A B ->
    mat_eq d (mpowz d A (EInt z)) (mpowz d B (EInt z)).
  Proof.
    intros L H. unfold GateAst.mpowz. destruct (0 <=? z)%Z; apply mpow_compat; [exact H|]. apply (inv_compat _ _ _ L), H.
  Qed.

  Lemma mpowz_compat d (A B : Mat K) e : inv_laws o -> frac_laws o -> mat_eq d A B ->
    mat_eq d (mpowz d A e) (mpowz d B e).
  Proof.
    intros L F H. destruct e as [z|q|t]; [apply mpowz_int_compat; assumption| |]; cbn [GateAst.mpowz].
    - apply (root_compat _ _ _ F), H.
    - apply (other_compat _ _ _ F), H.
  Qed.

  Lemma mpowz_int_adj d (M : Mat K) z : inv_laws o ->
    mat_eq d (mpowz d (adj M) (EInt z)) (adj (mpowz d M (EInt z))).
  Proof.
    intro L. unfold GateAst.mpowz. destruct (0 <=? z)%Z.
    - apply mat_eq_sym, adj_mpow.
    - eapply mat_eq_trans; [apply mpow_compat, (inv_adj _ _ _ L)|]. apply mat_eq_sym, adj_mpow.
  Qed.

  (* ---------------------------------------------------------------- power *)
  (* ControlledGate.power pushes the power under the control: the matrix is still (matrix of g) ** e,
     provided ** e maps diag(I, U) to diag(I, U ** e) *)
  Lemma power_sem_gen e g g' : pow_diag_at e -> power e g = Some g' ->
    mat_eq (dim g) (sem g') (mpowz (dim g) (sem g) e).
  Proof.
    intro HD. revert g'. induction g as [n ps q h|w IH k|w IH|w IH|w IH e']; intros g' H; cbn [GateAst.power] in H;
      try (apply mk_pow_some in H; destruct H as [-> _]; apply mat_eq_refl).
    apply obind_some in H. destruct H as [pw [H1 H2]]. apply mk_ctrl_some in H2. destruct H2 as [-> _].
    destruct (power_shape _ _ _ _ _ H1) as [Hq _]. specialize (IH _ H1).
    cbn [GateAst.sem]. rewrite Hq. unfold dim in *. cbn [num_qubits].
    set (D := 2 ^ (num_qubits w + k) - 2 ^ num_qubits w).
    assert (E : 2 ^ (num_qubits w + k) = D + 2 ^ num_qubits w) by apply ctrl_dim.
    clearbody D. rewrite E.
    eapply mat_eq_trans; [apply diag_id_compat, IH|]. apply mat_eq_sym, HD.
  Qed.

  Theorem power_nonneg_sem z g g' : (0 <= z)%Z -> power (EInt z) g = Some g' ->
    mat_eq (dim g) (sem g') (mpow (dim g) (sem g) (Z.to_nat z)).
  Proof.
    intros Hz H. generalize (power_sem_gen _ _ _ (pow_diag_nonneg z Hz) H). unfold GateAst.mpowz.
    destruct (Z.leb_spec 0 z); [auto|lia].
  Qed.

  Theorem power_sem e g g' : inv_laws o -> frac_laws o -> power e g = Some g' ->
    mat_eq (dim g) (sem g') (mpowz (dim g) (sem g) e).
  Proof. intros L F. apply power_sem_gen, pow_diag_all; assumption. Qed.

  (* negative integer: the result times the |z|-th power of the original is the identity, given that sympy's
     inv() returned a left inverse of the matrix under the controls *)
  Theorem power_neg_sem z g g' : (z < 0)%Z -> power (EInt z) g = Some g' ->
    (let s := strip_ctrl g in mat_eq (dim s) (mmul (dim s) (o_inv o (dim s) (sem s)) (sem s)) eye) ->
    mat_eq (dim g) (mmul (dim g) (sem g') (mpow (dim g) (sem g) (Z.to_nat (- z)))) eye.
  Proof.
    intro Hz. revert g'. induction g as [n ps q h|w IH k|w IH|w IH|w IH e']; intros g' H Hinv; cbn [GateAst.power] in H;
      try (apply mk_pow_some in H; destruct H as [-> _]; cbn [GateAst.sem strip_ctrl] in *; unfold GateAst.mpowz;
           destruct (Z.leb_spec 0 z); [lia|]; apply mpow_inv; exact Hinv).
    apply obind_some in H. destruct H as [pw [H1 H2]]. apply mk_ctrl_some in H2. destruct H2 as [-> _].
    destruct (power_shape _ _ _ _ _ H1) as [Hq _]. specialize (IH _ H1 Hinv).
    cbn [GateAst.sem]. rewrite Hq. unfold dim in *. cbn [num_qubits].
    set (D := 2 ^ (num_qubits w + k) - 2 ^ num_qubits w).
    assert (E : 2 ^ (num_qubits w + k) = D + 2 ^ num_qubits w) by apply ctrl_dim.
    clearbody D. rewrite E.
    eapply mat_eq_trans; [apply mmul_compat; [apply mat_eq_refl|apply diag_id_mpow]|].
    eapply mat_eq_trans; [apply diag_id_mmul|].
    eapply mat_eq_trans; [apply diag_id_compat, IH|]. intros i j _ _. apply diag_id_eye.
  Qed.

  (* unit fraction: the q-th power of the result is the original, given that sympy's M ** (1/q) returned a
     q-th root of the matrix under the controls *)
  Theorem power_root_sem q g g' : power (ERoot q) g = Some g' ->
    (let s := strip_ctrl g in
     mat_eq (dim s) (mpow (dim s) (o_root o q (dim s) (sem s)) (Pos.to_nat q)) (sem s)) ->
    mat_eq (dim g) (mpow (dim g) (sem g') (Pos.to_nat q)) (sem g).
  Proof.
    revert g'. induction g as [n ps q0 h|w IH k|w IH|w IH|w IH e']; intros g' H Hroot; cbn [GateAst.power] in H;
      try (apply mk_pow_some in H; destruct H as [-> _]; exact Hroot).
    apply obind_some in H. destruct H as [pw [H1 H2]]. apply mk_ctrl_some in H2. destruct H2 as [-> _].
    destruct (power_shape _ _ _ _ _ H1) as [Hq _]. specialize (IH _ H1 Hroot).
    cbn [GateAst.sem]. rewrite Hq. unfold dim in *. cbn [num_qubits].
    set (D := 2 ^ (num_qubits w + k) - 2 ^ num_qubits w).
    assert (E : 2 ^ (num_qubits w + k) = D + 2 ^ num_qubits w) by apply ctrl_dim.
    clearbody D. rewrite E.
    eapply mat_eq_trans; [apply diag_id_mpow|]. apply diag_id_compat, IH.
  Qed.

  (* ---------------------------------------------------------------- predicates are preserved *)
  Lemma hfs_power e g r : herm_flags_sound o g -> power e g = Some r -> herm_flags_sound o r.
  Proof.
    revert r. induction g as [n ps q h|w IH k|w IH|w IH|w IH e']; intros r Hh H; cbn [GateAst.power] in H;
      try (apply mk_pow_some in H; destruct H as [-> _]; exact Hh).
    apply obind_some in H. destruct H as [pw [H1 H2]]. apply mk_ctrl_some in H2. destruct H2 as [-> _].
    exact (IH _ Hh H1).
  Qed.
  Lemma hfs_dagger g r : herm_flags_sound o g -> dagger g = Some r -> herm_flags_sound o r.
  Proof.
    revert r. induction g as [n ps q h|w IH k|w IH|w IH|w IH e']; intros r Hh H; cbn [GateAst.dagger] in H.
    - inversion H. destruct h; exact Hh.
    - apply obind_some in H. destruct H as [dw [H1 H2]]. apply mk_ctrl_some in H2. destruct H2 as [-> _]. exact (IH _ Hh H1).
    - inversion H. subst. exact Hh.
    - apply obind_some in H. destruct H as [dw [H1 H2]]. apply mk_exp_some in H2. destruct H2 as [-> _]. exact (IH _ Hh H1).
    - apply obind_some in H. destruct H as [dw [H1 H2]]. exact (hfs_power _ _ _ (IH _ Hh H1) H2).
  Qed.
  Lemma hfs_controlled k g r : herm_flags_sound o g -> controlled k g = Some r -> herm_flags_sound o r.
  Proof.
    revert r. induction g as [n ps q h|w IH k0|w IH|w IH|w IH e']; intros r Hh H; cbn [GateAst.controlled] in H;
      try (apply mk_ctrl_some in H; destruct H as [-> _]; exact Hh).
    - apply obind_some in H. destruct H as [c [H1 H2]]. exact (hfs_dagger _ _ (IH _ Hh H1) H2).
    - apply obind_some in H. destruct H as [c [H1 H2]]. exact (hfs_power _ _ _ (IH _ Hh H1) H2).
  Qed.

  Lemma ipo_power e g r : is_int e = true -> int_powers_only g = true -> power e g = Some r -> int_powers_only r = true.
  Proof.
    intro He. revert r. induction g as [n ps q h|w IH k|w IH|w IH|w IH e']; intros r Hi H; cbn [GateAst.power] in H;
      try (apply mk_pow_some in H; destruct H as [-> _]; cbn [int_powers_only] in *; rewrite He; exact Hi).
    apply obind_some in H. destruct H as [pw [H1 H2]]. apply mk_ctrl_some in H2. destruct H2 as [-> _].
    exact (IH _ Hi H1).
  Qed.
  Lemma ipo_dagger g r : int_powers_only g = true -> dagger g = Some r -> int_powers_only r = true.
  Proof.
    revert r. induction g as [n ps q h|w IH k|w IH|w IH|w IH e']; intros r Hi H; cbn [GateAst.dagger] in H.
    - inversion H. destruct h; reflexivity.
    - apply obind_some in H. destruct H as [dw [H1 H2]]. apply mk_ctrl_some in H2. destruct H2 as [-> _]. exact (IH _ Hi H1).
    - inversion H. subst. exact Hi.
    - apply obind_some in H. destruct H as [dw [H1 H2]]. apply mk_exp_some in H2. destruct H2 as [-> _]. exact (IH _ Hi H1).
    - apply obind_some in H. destruct H as [dw [H1 H2]]. cbn [int_powers_only] in Hi. apply andb_true_iff in Hi.
      destruct Hi as [He Hi]. exact (ipo_power _ _ _ He (IH _ Hi H1) H2).
  Qed.
  Lemma ipo_controlled k g r : int_powers_only g = true -> controlled k g = Some r -> int_powers_only r = true.
  Proof.
    revert r. induction g as [n ps q h|w IH k0|w IH|w IH|w IH e']; intros r Hi H; cbn [GateAst.controlled] in H;
      try (apply mk_ctrl_some in H; destruct H as [-> _]; exact Hi).
    - apply obind_some in H. destruct H as [c [H1 H2]]. exact (ipo_dagger _ _ (IH _ Hi H1) H2).
    - apply obind_some in H. destruct H as [c [H1 H2]]. cbn [int_powers_only] in Hi. apply andb_true_iff in Hi.
      destruct Hi as [He Hi]. exact (ipo_power _ _ _ He (IH _ Hi H1) H2).
  Qed.

  (* ---------------------------------------------------------------- dagger *)
  Theorem dagger_sem g g' : exp_laws o -> inv_laws o -> dagger g = Some g' ->
    herm_flags_sound o g -> int_powers_only g = true ->
    mat_eq (dim g) (sem g') (adj (sem g)).
  Proof.
    intros LE LI. revert g'. induction g as [n ps q h|w IH k|w IH|w IH|w IH e']; intros g' H Hh Hi; cbn [GateAst.dagger] in H.
    - inversion H. subst g'. destruct h.
      + apply mat_eq_sym. exact (Hh eq_refl).
      + apply mat_eq_refl.
    - apply obind_some in H. destruct H as [dw [H1 H2]]. apply mk_ctrl_some in H2. destruct H2 as [-> _].
      destruct (dagger_shape _ _ _ _ H1) as [Hq _]. specialize (IH _ H1 Hh Hi).
      cbn [GateAst.sem]. rewrite Hq. unfold dim in *. cbn [num_qubits].
      set (D := 2 ^ (num_qubits w + k) - 2 ^ num_qubits w).
      assert (E : 2 ^ (num_qubits w + k) = D + 2 ^ num_qubits w) by apply ctrl_dim.
      clearbody D. rewrite E.
      eapply mat_eq_trans; [apply diag_id_compat, IH|]. intros i j _ _. symmetry. apply diag_id_adj.
    - inversion H. subst g'. cbn [GateAst.sem]. intros i j _ _. symmetry. apply (adj_adj K).
    - apply obind_some in H. destruct H as [dw [H1 H2]]. apply mk_exp_some in H2. destruct H2 as [-> _].
      destruct (dagger_shape _ _ _ _ H1) as [Hq _]. specialize (IH _ H1 Hh Hi).
      cbn [GateAst.sem]. rewrite (dim_eq _ _ Hq). change (dim (Exp w)) with (dim w).
      eapply mat_eq_trans; [apply (exp_compat _ _ _ LE), IH|]. apply (exp_adj _ _ _ LE).
    - apply obind_some in H. destruct H as [dw [H1 H2]]. cbn [int_powers_only] in Hi. apply andb_true_iff in Hi.
      destruct Hi as [He Hi]. destruct e' as [z| |]; try discriminate.
      destruct (dagger_shape _ _ _ _ H1) as [Hq _]. specialize (IH _ H1 Hh Hi).
      generalize (power_sem_gen _ _ _ (pow_diag_int z LI) H2). rewrite (dim_eq _ _ Hq).
      change (dim (Pow w (EInt z))) with (dim w). intro HP. cbn [GateAst.sem].
      eapply mat_eq_trans; [exact HP|]. eapply mat_eq_trans; [apply mpowz_int_compat; [exact LI|exact IH]|].
      apply mpowz_int_adj, LI.
  Qed.

  (* dagger of an exponential: the exponential of the dagger, whose matrix is the adjoint of the exponential *)
  Theorem exp_dagger_sem g e1 e2 : exp_laws o -> inv_laws o -> gexp g = Some e1 -> dagger e1 = Some e2 ->
    herm_flags_sound o g -> int_powers_only g = true ->
    (exists dg, dagger g = Some dg /\ e2 = Exp dg) /\
    mat_eq (dim g) (sem e2) (adj (o_exp o (dim g) (sem g))).
  Proof.
    intros LE LI H1 H2 Hh Hi. unfold GateAst.gexp in H1. apply mk_exp_some in H1. destruct H1 as [-> _]. split.
    - cbn [GateAst.dagger] in H2. apply obind_some in H2. destruct H2 as [dg [Hd Hm]].
      apply mk_exp_some in Hm. destruct Hm as [-> _]. eauto.
    - exact (dagger_sem _ _ LE LI H2 Hh Hi).
  Qed.

  (* ---------------------------------------------------------------- controlled *)
  Lemma ctrl_nest_dim n k0 k :
    2 ^ (n + (k0 + k)) - 2 ^ n = (2 ^ (n + k0 + k) - 2 ^ (n + k0)) + (2 ^ (n + k0) - 2 ^ n).
  Proof.
    assert (H1 : 2 ^ n <= 2 ^ (n + k0)) by (apply Nat.pow_le_mono_r; lia).
    assert (H2 : 2 ^ (n + k0) <= 2 ^ (n + k0 + k)) by (apply Nat.pow_le_mono_r; lia).
    rewrite Nat.add_assoc. lia.
  Qed.

  Theorem controlled_sem k g g' : exp_laws o -> inv_laws o -> frac_laws o ->
    controlled k g = Some g' -> ctrl_ok o g ->
    mat_eq (2 ^ (num_qubits g + k)) (sem g') (diag_id (2 ^ (num_qubits g + k) - 2 ^ num_qubits g) (sem g)).
  Proof.
    intros LE LI LF. revert g'.
    induction g as [n ps q h|w IH k0|w IH|w IH|w IH e']; intros g' H Hok; cbn [GateAst.controlled] in H.
    - apply mk_ctrl_some in H. destruct H as [-> _]. apply mat_eq_refl.
    - apply mk_ctrl_some in H. destruct H as [-> _]. cbn [GateAst.sem num_qubits]. intros i j _ _.
      rewrite diag_id_nest, <- ctrl_nest_dim. reflexivity.
    - apply obind_some in H. destruct H as [c [H1 H2]]. destruct Hok as [Hok [Hh Hi]].
      destruct (controlled_shape _ _ _ _ _ H1) as [Hq _]. specialize (IH _ H1 Hok).
      generalize (dagger_sem _ _ LE LI H2 (hfs_controlled _ _ _ Hh H1) (ipo_controlled _ _ _ Hi H1)).
      unfold dim. rewrite Hq. intro HD. cbn [GateAst.sem num_qubits].
      eapply mat_eq_trans; [exact HD|]. eapply mat_eq_trans; [apply adj_compat, IH|].
      intros i j _ _. apply diag_id_adj.
    - apply mk_ctrl_some in H. destruct H as [-> _]. apply mat_eq_refl.
    - apply obind_some in H. destruct H as [c [H1 H2]]. cbn [GateAst.ctrl_ok] in Hok.
      destruct (controlled_shape _ _ _ _ _ H1) as [Hq _]. specialize (IH _ H1 Hok).
      generalize (power_sem _ _ _ LI LF H2). unfold dim. rewrite Hq. intro HP. cbn [GateAst.sem num_qubits].
      eapply mat_eq_trans; [exact HP|]. eapply mat_eq_trans; [apply mpowz_compat; [exact LI|exact LF|exact IH]|].
      unfold dim. set (D := 2 ^ (num_qubits w + k) - 2 ^ num_qubits w).
      assert (E : 2 ^ (num_qubits w + k) = D + 2 ^ num_qubits w) by apply ctrl_dim.
      clearbody D. rewrite E. apply (pow_diag_all e' LI LF).
  Qed.

  (* for gates reachable by method calls no assumption about sympy is needed: .controlled wraps or merges *)
  Theorem controlled_sem_nf k g g' : nf pfree g = true -> controlled k g = Some g' ->
    mat_eq (2 ^ (num_qubits g + k)) (sem g') (diag_id (2 ^ (num_qubits g + k) - 2 ^ num_qubits g) (sem g)).
  Proof.
    intros Hn H. rewrite (controlled_nf _ _ _ _ Hn) in H.
    destruct g as [n ps q h|w k0|w|w|w e']; cbn [controlled_spec] in H; apply mk_ctrl_some in H; destruct H as [-> _];
      try apply mat_eq_refl.
    cbn [GateAst.sem num_qubits]. intros i j _ _. rewrite diag_id_nest, <- ctrl_nest_dim. reflexivity.
  Qed.

  (* exp: the matrix is whatever sympy's Matrix.exp() returns on the wrapped matrix (the series is not formalised) *)
  Lemma exp_sem g g' : gexp g = Some g' ->
    sem g' = o_exp o (dim g) (sem g) /\ num_qubits g' = num_qubits g /\ params g' = params g.
  Proof.
    unfold GateAst.gexp. intro H. apply mk_exp_some in H. destruct H as [-> _]. repeat split; reflexivity.
  Qed.
End SemProofs.
