(* Comparison helpers for the C07 correspondence cases: concrete parameters, structural equality of gate
   expressions, and evaluation of [sem] over the Gaussian rationals for gates with exact matrices. *)
Require Import Coq.Arith.Arith Coq.ZArith.ZArith Coq.QArith.QArith Coq.QArith.Qcanon Coq.Lists.List
  Coq.Strings.String Coq.Bool.Bool.
Require Import OQ.Base.Ring OQ.Base.Sums OQ.Base.Mat OQ.Base.CaseEq OQ.Circ.GateAst.
Import ListNotations.

(* a gate parameter as the harness sees it: an exactly representable number or a free symbol *)
Inductive cparam : Type :=
| CNum (q : Q)
| CSym (s : string).

Definition cfree (p : cparam) : bool := match p with CSym _ => true | CNum _ => false end.
Definition cparam_eqb (a b : cparam) : bool :=
  match a, b with
  | CNum x, CNum y => Qeq_bool x y
  | CSym s, CSym t => String.eqb s t
  | _, _ => false
  end.

Definition exponent_eqb (a b : exponent) : bool :=
  match a, b with
  | EInt x, EInt y => Z.eqb x y
  | ERoot p, ERoot q => Pos.eqb p q
  | EOther s, EOther t => String.eqb s t
  | _, _ => false
  end.

Fixpoint gate_eqb (a b : gate cparam) : bool :=
  match a, b with
  | Base n ps q h, Base n' ps' q' h' =>
      String.eqb n n' && leqb cparam_eqb ps ps' && Nat.eqb q q' && Bool.eqb h h'
  | Ctrl g k, Ctrl g' k' => gate_eqb g g' && Nat.eqb k k'
  | Dag g, Dag g' => gate_eqb g g'
  | Exp g, Exp g' => gate_eqb g g'
  | Pow g e, Pow g' e' => gate_eqb g g' && exponent_eqb e e'
  | _, _ => false
  end.

(* str(1/q) for the unit fractions the harness uses (Python's float repr is not modelled) *)
Definition root_str (q : positive) : string :=
  match q with
  | 2%positive => "0.5"
  | 3%positive => "0.3333333333333333"
  | 4%positive => "0.25"
  | 5%positive => "0.2"
  | 8%positive => "0.125"
  | _ => "?"
  end.

(* what the harness records about a returned gate: its structure and what the properties report *)
Definition observed : Type := (gate cparam * string * nat * list cparam)%type.

Definition obs_eqb (g : gate cparam) (ob : observed) : bool :=
  let '(g', nm, nq, ps) := ob in
  gate_eqb g g' && String.eqb (name root_str g) nm && Nat.eqb (num_qubits g) nq
  && leqb cparam_eqb (params g) ps.

Definition res_eqb (r : option (gate cparam)) (ob : option observed) : bool :=
  match r, ob with
  | Some g, Some x => obs_eqb g x
  | None, None => true
  | _, _ => false
  end.

(* a chain of method calls on a gate expression; [None] = the implementation raised ValueError *)
Definition chain_eqb (g : gate cparam) (ms : list modifier) (ob : option observed) : bool :=
  res_eqb (apply_chain cfree ms g) ob.

(* g.replace_params(ps) for g = chain(base), and chain(base.replace_params(ps)) *)
Definition replace_eqb (g : gate cparam) (ms : list modifier) (ps : list cparam)
  (ob1 ob2 : option observed) : bool :=
  match apply_chain cfree ms g with
  | None => false
  | Some g1 =>
      res_eqb (replace_params cfree ps g1) ob1
      && res_eqb (obind (replace_params cfree ps g) (apply_chain cfree ms)) ob2
  end.

(* "the gate built with the new parameters": [ob] is what the chain returns on a FRESHLY constructed base gate
   (CustomGateDefinition.__call__ / the built-in factory at the new parameters); the model's counterpart is
   replace_params on the old base gate, which keeps name, qubit count and the is_hermitian flag *)
Definition fresh_eqb (g : gate cparam) (ms : list modifier) (ps : list cparam) (ob : option observed) : bool :=
  res_eqb (obind (replace_params cfree ps g) (apply_chain cfree ms)) ob.

(* calls [a], then replace_params, then calls [b]:  b(a(g).replace_params(ps))  against the model, and
   b(a(fresh gate)) against the model's  b(a(g.replace_params(ps))) *)
Definition custom_eqb (g : gate cparam) (a : list modifier) (ps : list cparam) (b : list modifier)
  (obG obF : option observed) : bool :=
  res_eqb (obind (obind (apply_chain cfree a g) (replace_params cfree ps)) (apply_chain cfree b)) obG
  && res_eqb (obind (obind (replace_params cfree ps g) (apply_chain cfree a)) (apply_chain cfree b)) obF.

(* ------------------------------------------------------------ matrices over the Gaussian rationals *)
Definition gqmat : Type := list (list (Q * Q)).
Definition lit_mat (L : gqmat) : Mat GQring :=
  of_list (K:=GQring) (map (map (fun c => gq_lit (fst c) (snd c))) L).

(* base matrices are given by name in the case; the sympy oracles are not used by these cases (the harness
   only emits chains of controlled / dagger / non-negative integer powers), so they are inert *)
Fixpoint lookup (tbl : list (string * gqmat)) (n : string) : gqmat :=
  match tbl with
  | [] => []
  | (k, m) :: r => if String.eqb k n then m else lookup r n
  end.
Definition case_oracles (tbl : list (string * gqmat)) : oracles GQring cparam :=
  mk_oracles GQring cparam (fun n _ => lit_mat (lookup tbl n)) (fun _ M => M) (fun _ M => M)
             (fun _ _ M => M) (fun _ _ M => M).

Fixpoint oracle_free (g : gate cparam) : bool :=
  match g with
  | Base _ _ _ _ => true
  | Ctrl w _ | Dag w => oracle_free w
  | Exp _ => false
  | Pow w e => match e with EInt z => (0 <=? z)%Z | _ => false end && oracle_free w
  end.

Definition mat_eqb (d : nat) (A : Mat GQring) (L : gqmat) : bool :=
  leqb (leqb gq_eqb) (to_list d A) (map (map (fun c => gq_lit (fst c) (snd c))) L).

(* memoised evaluation of [sem] (each node tabulated once) *)
Fixpoint sem_memo (o : oracles GQring cparam) (g : gate cparam) : Mat GQring :=
  memo (dim g)
    match g with
    | Base n ps _ _ => o_factory o n ps
    | Ctrl w k => diag_id (2 ^ (num_qubits w + k) - 2 ^ num_qubits w) (sem_memo o w)
    | Dag w => adj (sem_memo o w)
    | Exp w => o_exp o (dim w) (sem_memo o w)
    | Pow w e => mpowz o (dim w) (sem_memo o w) e
    end.

(* the matrix Python computed for chain(base) is the model's matrix of the model's chain(base) *)
Definition sem_eqb (tbl : list (string * gqmat)) (g : gate cparam) (ms : list modifier) (L : gqmat) : bool :=
  match apply_chain cfree ms g with
  | None => false
  | Some g1 => oracle_free g1 && mat_eqb (dim g1) (sem_memo (case_oracles tbl) g1) L
  end.
