(* Proofs about circuits (property C01): the unitary is the product of the lifted gates in program order,
   step-by-step application and every simulator built on the base class agree with it, concatenation composes. *)
Require Import Coq.setoid_ring.Ring Coq.Arith.Arith Coq.micromega.Lia Coq.Lists.List Coq.Bool.Bool.
Require Import OQ.Base.Ring OQ.Base.Sums OQ.Base.Bits OQ.Base.Mat OQ.Circ.Lift OQ.Circ.LiftProofs OQ.Circ.Circuit.
Import ListNotations.

(* ------------------------------------------------------------------ groupby (itertools.groupby / split_circuit) *)

Lemma groupby_concat {A} (key : A -> bool) l : concat (map snd (groupby key l)) = l.
Proof.
  induction l as [|x r IH]; [reflexivity|]. cbn [groupby].
  destruct (groupby key r) as [|[b g] rest] eqn:E.
  - cbn in IH. subst r. reflexivity.
  - cbn [map snd concat] in IH. destruct (Bool.eqb (key x) b); cbn [map snd concat app]; rewrite <- IH; reflexivity.
Qed.

(* every chunk is non-empty and constant in the key, with the recorded value *)
Lemma groupby_constant {A} (key : A -> bool) l :
  Forall (fun bg => snd bg <> [] /\ Forall (fun x => key x = fst bg) (snd bg)) (groupby key l).
Proof.
  induction l as [|x r IH]; [constructor|]. cbn [groupby].
  destruct (groupby key r) as [|[b g] rest] eqn:E.
  - constructor; [|constructor]. cbn [fst snd]. split; [discriminate|]. constructor; [reflexivity|constructor].
  - inversion IH as [|? ? [Hne Hg] Hrest]; subst. cbn [fst snd] in *.
    destruct (Bool.eqb (key x) b) eqn:Eb.
    + apply eqb_prop in Eb. constructor; [|exact Hrest]. cbn [fst snd]. split; [discriminate|].
      constructor; [exact Eb|exact Hg].
    + constructor; [|exact IH]. cbn [fst snd]. split; [discriminate|]. constructor; [reflexivity|constructor].
Qed.

(* consecutive chunks differ in the key *)
Fixpoint alternates (l : list bool) : Prop :=
  match l with
  | a :: ((b :: _) as r) => a <> b /\ alternates r
  | _ => True
  end.

Lemma groupby_alternates {A} (key : A -> bool) l : alternates (map fst (groupby key l)).
Proof.
  induction l as [|x r IH]; [exact I|]. cbn [groupby].
  destruct (groupby key r) as [|[b g] rest] eqn:E; [exact I|].
  destruct (Bool.eqb (key x) b) eqn:Eb.
  - exact IH.
  - cbn [map fst]. cbn [map fst] in IH. split; [|exact IH]. intro H. rewrite H, eqb_reflx in Eb. discriminate.
Qed.

Lemma groupby_all {A} (key : A -> bool) l b : l <> [] -> Forall (fun x => key x = b) l -> groupby key l = [(b, l)].
Proof.
  induction l as [|x r IH]; intros Hne H; [congruence|]. inversion H as [|? ? Hx Hr]; subst.
  cbn [groupby]. destruct r as [|y r'].
  - reflexivity.
  - rewrite IH by (try discriminate; exact Hr). rewrite eqb_reflx. reflexivity.
Qed.

Section CircuitProofs.
  Variable K : cring.
  Add Ring Kring : (c_ring K).
  Local Open Scope cr_scope.

  (* ---------------------------------------------------------------- products in program order *)
  Lemma prog_prod_compat d (Ms Ms' : list (Mat K)) : Forall2 (mat_eq d) Ms Ms' ->
    mat_eq d (prog_prod d Ms) (prog_prod d Ms').
  Proof.
    induction 1 as [|M M' r r' HM Hr IH]; [apply mat_eq_refl|]. cbn [prog_prod].
    apply mmul_compat; assumption.
  Qed.

  Lemma prog_prod_app d (a b : list (Mat K)) :
    mat_eq d (prog_prod d (a ++ b)) (mmul d (prog_prod d b) (prog_prod d a)).
  Proof.
    induction a as [|M a IH]; cbn [app prog_prod].
    - intros i j Hi Hj. rewrite mmul_eye_r by exact Hj. reflexivity.
    - intros i j Hi Hj. rewrite <- mmul_assoc. apply mmul_compat; [exact IH|apply mat_eq_refl|exact Hi|exact Hj].
  Qed.

  (* the fold that Circuit.to_unitary performs on the reversed list *)
  Definition tu_fold (d : nat) (l : list (Mat K)) : Mat K :=
    match l with
    | [] => eye
    | M :: Ms => fold_left (fun A B => memo d (mmul d A B)) Ms M
    end.

  Lemma tu_fold_snoc d l X : l <> [] -> tu_fold d (l ++ [X]) = memo d (mmul d (tu_fold d l) X).
  Proof.
    destruct l as [|M Ms]; [congruence|]. intros _. cbn [app tu_fold]. rewrite fold_left_app. reflexivity.
  Qed.

  Lemma tu_fold_rev d (Ls : list (Mat K)) : mat_eq d (tu_fold d (rev Ls)) (prog_prod d Ls).
  Proof.
    induction Ls as [|L r IH]; [apply mat_eq_refl|]. cbn [rev prog_prod].
    destruct (rev r) as [|M Ms] eqn:E.
    - assert (r = []) by (rewrite <- (rev_involutive r), E; reflexivity). subst r.
      cbn [app tu_fold prog_prod]. intros i j Hi Hj. rewrite mmul_eye_l by exact Hi. reflexivity.
    - rewrite tu_fold_snoc by discriminate.
      eapply mat_eq_trans; [apply memo_eq|]. apply mmul_compat; [exact IH|apply mat_eq_refl].
  Qed.

  Lemma to_unitary_prog_prod n (gs : list (gateapp K)) :
    mat_eq (2 ^ n) (to_unitary n gs) (prog_prod (2 ^ n) (map (lifted n) gs)).
  Proof.
    unfold to_unitary. cbv zeta. rewrite map_rev. apply (tu_fold_rev (2 ^ n) (map (lifted n) gs)).
  Qed.

  Lemma lifted_spec n (g : gateapp K) : wf_gate n g -> mat_eq (2 ^ n) (lifted n g) (gate_spec n g).
  Proof.
    intros [Hne [Hnd Hlt]]. unfold lifted, gate_spec. eapply mat_eq_trans; [apply memo_eq|].
    apply lift_impl_correct; assumption.
  Qed.

  Lemma lifted_spec_all n (gs : list (gateapp K)) : Forall (wf_gate n) gs ->
    Forall2 (mat_eq (2 ^ n)) (map (lifted n) gs) (map (gate_spec n) gs).
  Proof. induction 1 as [|g r Hg Hr IH]; cbn [map]; constructor; [apply lifted_spec; exact Hg|exact IH]. Qed.

  (* C01, first clause: the circuit's matrix is L(o_m) * ... * L(o_1), the identity for no operations *)
  Theorem to_unitary_program_order n (gs : list (gateapp K)) : Forall (wf_gate n) gs ->
    mat_eq (2 ^ n) (to_unitary n gs) (prog_prod (2 ^ n) (map (gate_spec n) gs)).
  Proof.
    intro H. eapply mat_eq_trans; [apply to_unitary_prog_prod|]. apply prog_prod_compat. apply lifted_spec_all. exact H.
  Qed.

  Lemma to_unitary_empty n : to_unitary n (@nil (gateapp K)) = eye.
  Proof. reflexivity. Qed.

  (* to_unitary raises exactly when some operation is not a gate operation *)
  Lemma only_gates_map (gs : list (gateapp K)) : only_gates (map OGate gs) = Some gs.
  Proof. induction gs as [|g r IH]; [reflexivity|]. cbn [map only_gates]. rewrite IH. reflexivity. Qed.

  Lemma only_gates_some (ops : list (op K)) gs : only_gates ops = Some gs -> ops = map OGate gs.
  Proof.
    revert gs. induction ops as [|o r IH]; intro gs; cbn [only_gates].
    - intro H. inversion H. reflexivity.
    - destruct o as [g|d]; [|discriminate]. destruct (only_gates r) as [gs'|] eqn:E; [|discriminate].
      intro H. inversion H. subst gs. cbn [map]. f_equal. apply IH. reflexivity.
  Qed.

  Theorem to_unitary_c_gates n (gs : list (gateapp K)) : to_unitary_c n (map OGate gs) = Some (to_unitary n gs).
  Proof. unfold to_unitary_c. rewrite only_gates_map. reflexivity. Qed.

  Lemma only_gates_none (ops : list (op K)) : only_gates ops = None <-> exists d, In (OPhase d) ops.
  Proof.
    induction ops as [|o r IH]; cbn [only_gates].
    - split; [discriminate|intros [d []]].
    - destruct o as [g|d].
      + destruct (only_gates r) as [gs|] eqn:E.
        * split; [discriminate|]. intros [d [H|H]]; [discriminate|].
          assert (C : @None (list (gateapp K)) = None -> False).
          { intros _. assert (Some gs = None) by (apply (proj2 IH); exists d; exact H). discriminate. }
          exfalso. apply C. reflexivity.
        * split; [|reflexivity]. intros _. destruct (proj1 IH eq_refl) as [d Hd]. exists d. right. exact Hd.
      + split; [|reflexivity]. intros _. exists d. left. reflexivity.
  Qed.

  Theorem to_unitary_c_raises n (ops : list (op K)) :
    to_unitary_c n ops = None <-> exists d, In (OPhase d) ops.
  Proof.
    rewrite <- only_gates_none. unfold to_unitary_c. destruct (only_gates ops); split; congruence.
  Qed.

  (* ---------------------------------------------------------------- applying operations one at a time *)
  Definition op_matrix (n : nat) (o : op K) : Mat K :=
    match o with OGate g => lifted n g | OPhase d => diag d end.

  Lemma mvec_diag d (dg v : Vec K) i : i < d -> mvec d (diag dg) v i = v i * dg i.
  Proof.
    intro Hi. unfold mvec, diag. rewrite (rsum_single K d i).
    - rewrite Nat.eqb_refl. ring.
    - exact Hi.
    - intros k Hk Hne. destruct (Nat.eqb_spec i k); [congruence|]. ring.
  Qed.

  Lemma apply_op_matrix n o (v v' : Vec K) : vec_eq (2 ^ n) v v' ->
    vec_eq (2 ^ n) (apply_op n o v) (mvec (2 ^ n) (op_matrix n o) v').
  Proof.
    intros Hv. destruct o as [g|dg]; cbn [apply_op op_matrix].
    - intros i Hi. rewrite vmemo_eq by exact Hi. apply mvec_compat; [apply mat_eq_refl|exact Hv|exact Hi].
    - intros i Hi. rewrite vmemo_eq by exact Hi. rewrite mvec_diag by exact Hi. rewrite Hv by exact Hi. reflexivity.
  Qed.

  Lemma run_prog_prod n ops (v v' : Vec K) : vec_eq (2 ^ n) v v' ->
    vec_eq (2 ^ n) (run n ops v) (mvec (2 ^ n) (prog_prod (2 ^ n) (map (op_matrix n) ops)) v').
  Proof.
    revert v v'. induction ops as [|o r IH]; intros v v' Hv; cbn [run fold_left map prog_prod].
    - intros i Hi. rewrite mvec_eye by exact Hi. apply Hv. exact Hi.
    - intros i Hi. rewrite mvec_mmul. apply (IH (apply_op n o v) (mvec (2 ^ n) (op_matrix n o) v')); [|exact Hi].
      apply apply_op_matrix. exact Hv.
  Qed.

  Lemma run_compat n ops (v v' : Vec K) : vec_eq (2 ^ n) v v' -> vec_eq (2 ^ n) (run n ops v) (run n ops v').
  Proof.
    intro Hv. intros i Hi. rewrite (run_prog_prod n ops v v' Hv i Hi).
    symmetry. apply run_prog_prod; [intros k Hk; reflexivity|exact Hi].
  Qed.

  Lemma run_app n ops1 ops2 (v : Vec K) : run n (ops1 ++ ops2) v = run n ops2 (run n ops1 v).
  Proof. unfold run. apply fold_left_app. Qed.

  Lemma op_matrix_spec n (ops : list (op K)) : Forall (wf_op n) ops ->
    Forall2 (mat_eq (2 ^ n)) (map (op_matrix n) ops) (map (op_spec n) ops).
  Proof.
    induction 1 as [|o r Ho Hr IH]; cbn [map]; constructor; [|exact IH].
    destruct o as [g|d]; cbn [op_matrix op_spec]; [apply lifted_spec; exact Ho|apply mat_eq_refl].
  Qed.

  (* C01, second clause: gate operations one at a time = the circuit's matrix applied to the state *)
  Theorem run_eq_unitary n (gs : list (gateapp K)) (v : Vec K) :
    vec_eq (2 ^ n) (run n (map OGate gs) v) (mvec (2 ^ n) (to_unitary n gs) v).
  Proof.
    intros i Hi. rewrite (run_prog_prod n (map OGate gs) v v) by (try exact Hi; intros k Hk; reflexivity).
    apply mvec_compat; [|intros k Hk; reflexivity|exact Hi].
    rewrite map_map. cbn [op_matrix]. apply mat_eq_sym. apply to_unitary_prog_prod.
  Qed.

  (* ... and with phase-only operations interleaved: the product, in order, of lifted gates and diagonal matrices *)
  Theorem run_eq_product n (ops : list (op K)) (v : Vec K) : Forall (wf_op n) ops ->
    vec_eq (2 ^ n) (run n ops v) (mvec (2 ^ n) (prog_prod (2 ^ n) (map (op_spec n) ops)) v).
  Proof.
    intros Hwf i Hi. rewrite (run_prog_prod n ops v v) by (try exact Hi; intros k Hk; reflexivity).
    apply mvec_compat; [|intros k Hk; reflexivity|exact Hi].
    apply prog_prod_compat. apply op_matrix_spec. exact Hwf.
  Qed.

  (* ---------------------------------------------------------------- the base-class simulator *)
  Lemma sim_groups n (native_run : list (op K) -> Vec K -> Vec K) (kops : list (bool * op K)) :
    (forall seg v, Forall (fun ko => In ko kops /\ fst ko = true) seg ->
                   vec_eq (2 ^ n) (native_run (map snd seg) v) (run n (map snd seg) v)) ->
    forall groups, Forall (fun bg => Forall (fun ko => In ko kops /\ fst ko = fst bg) (snd bg)) groups ->
    forall v v', vec_eq (2 ^ n) v v' ->
    vec_eq (2 ^ n)
      (fold_left (fun st (seg : bool * list (bool * op K)) =>
                    if fst seg then native_run (map snd (snd seg)) st else run n (map snd (snd seg)) st) groups v)
      (run n (map snd (concat (map snd groups))) v').
  Proof.
    intros Hnat groups. induction groups as [|[b seg] rest IH]; intros Hg v v' Hv.
    - cbn. exact Hv.
    - inversion Hg as [|? ? Hseg Hrest]; subst. cbn [fold_left map snd concat fst].
      rewrite map_app, run_app. apply IH; [exact Hrest|]. cbn [fst snd] in Hseg.
      destruct b.
      + intros i Hi. rewrite Hnat by (try exact Hi; exact Hseg). apply run_compat; assumption.
      + apply run_compat. exact Hv.
  Qed.

  (* C01, third clause (keyed form): whatever values the native predicate returned for the operations, if the
     subclass's native method agrees with in-order application on the chunks it is given, the simulator's
     final state is the in-order application of the whole circuit *)
  Theorem sim_keys_correct n (native_run : list (op K) -> Vec K -> Vec K) (kops : list (bool * op K)) (v0 : Vec K) :
    (forall seg v, Forall (fun ko => In ko kops /\ fst ko = true) seg ->
                   vec_eq (2 ^ n) (native_run (map snd seg) v) (run n (map snd seg) v)) ->
    vec_eq (2 ^ n) (sim_keys native_run n kops v0) (run n (map snd kops) v0).
  Proof.
    intro Hnat. unfold sim_keys.
    rewrite <- (groupby_concat fst kops) at 2.
    apply (sim_groups n native_run kops); [exact Hnat| |intros i Hi; reflexivity].
    pose proof (groupby_constant fst kops) as Hc. pose proof (groupby_concat fst kops) as Hcat.
    rewrite Forall_forall in *. intros bg Hbg. specialize (Hc bg Hbg). destruct Hc as [_ Hc].
    rewrite Forall_forall in *. intros ko Hko. split; [|apply Hc; exact Hko].
    rewrite <- Hcat. apply in_concat. exists (snd bg). split; [apply in_map; exact Hbg|exact Hko].
  Qed.

  Theorem sim_predicate_independent n (p : op K -> bool) (native_run : list (op K) -> Vec K -> Vec K) ops (v0 : Vec K) :
    (forall seg v, Forall (fun o => p o = true) seg -> vec_eq (2 ^ n) (native_run seg v) (run n seg v)) ->
    vec_eq (2 ^ n) (sim p native_run n ops v0) (run n ops v0).
  Proof.
    intro Hnat. unfold sim.
    replace ops with (map snd (map (fun o => (p o, o)) ops)) at 2 by (rewrite map_map, map_id; reflexivity).
    apply sim_keys_correct. intros seg v Hseg. apply Hnat.
    apply Forall_forall. intros o Ho. apply in_map_iff in Ho. destruct Ho as [ko [<- Hko]].
    rewrite Forall_forall in Hseg. destruct (Hseg ko Hko) as [Hin Hk].
    apply in_map_iff in Hin. destruct Hin as [o' [<- _]]. exact Hk.
  Qed.

  (* the bundled simulator: everything native, the native method applies the operations in order *)
  Theorem symbolic_sim_correct n ops (v0 : Vec K) : vec_eq (2 ^ n) (symbolic_sim n ops v0) (run n ops v0).
  Proof. apply sim_predicate_independent. intros seg v _ i Hi. reflexivity. Qed.

  (* and therefore every such simulator returns the circuit's matrix applied to the initial state *)
  Theorem sim_eq_unitary n (p : op K -> bool) (native_run : list (op K) -> Vec K -> Vec K) (gs : list (gateapp K)) (v0 : Vec K) :
    (forall seg v, Forall (fun o => p o = true) seg -> vec_eq (2 ^ n) (native_run seg v) (run n seg v)) ->
    vec_eq (2 ^ n) (sim p native_run n (map OGate gs) v0) (mvec (2 ^ n) (to_unitary n gs) v0).
  Proof.
    intros Hnat i Hi. rewrite (sim_predicate_independent n p native_run _ v0 Hnat i Hi). apply run_eq_unitary. exact Hi.
  Qed.

  (* with phase-only operations interleaved and against the specification matrices *)
  Theorem sim_eq_product n (p : op K -> bool) (native_run : list (op K) -> Vec K -> Vec K) (ops : list (op K)) (v0 : Vec K) :
    Forall (wf_op n) ops ->
    (forall seg v, Forall (fun o => p o = true) seg -> vec_eq (2 ^ n) (native_run seg v) (run n seg v)) ->
    vec_eq (2 ^ n) (sim p native_run n ops v0) (mvec (2 ^ n) (prog_prod (2 ^ n) (map (op_spec n) ops)) v0).
  Proof.
    intros Hwf Hnat i Hi. rewrite (sim_predicate_independent n p native_run _ v0 Hnat i Hi).
    apply run_eq_product; assumption.
  Qed.

  (* ---------------------------------------------------------------- widening and concatenation *)
  Lemma prog_prod_widen n e (Ms Ms' : list (Mat K)) :
    Forall2 (fun M' M => mat_eq (2 ^ (n + e)) M' (kron (2 ^ e) M eye)) Ms' Ms ->
    mat_eq (2 ^ (n + e)) (prog_prod (2 ^ (n + e)) Ms') (kron (2 ^ e) (prog_prod (2 ^ n) Ms) eye).
  Proof.
    pose proof (pow2_pos e) as He.
    induction 1 as [|M' M r' r HM Hr IH]; cbn [prog_prod].
    - intros i j Hi Hj. rewrite kron_eye by exact He. reflexivity.
    - eapply mat_eq_trans; [apply mmul_compat; [exact IH|exact HM]|].
      intros i j Hi Hj. rewrite Nat.pow_add_r. rewrite kron_mmul by exact He.
      unfold kron. f_equal. apply mmul_eye_l. apply Nat.mod_upper_bound. lia.
  Qed.

  (* a circuit on a wider register acts as before on its own qubits and as identity on the added ones *)
  Theorem to_unitary_widen n e (gs : list (gateapp K)) : Forall (wf_gate n) gs ->
    mat_eq (2 ^ (n + e)) (to_unitary (n + e) gs) (kron (2 ^ e) (to_unitary n gs) eye).
  Proof.
    intro Hwf.
    assert (Hwf' : Forall (wf_gate (n + e)) gs).
    { eapply Forall_impl; [|exact Hwf]. intros g [H1 [H2 H3]]. split; [exact H1|split; [exact H2|]].
      eapply Forall_impl; [|exact H3]. intros q Hq. cbv beta in *. lia. }
    eapply mat_eq_trans; [apply to_unitary_program_order; exact Hwf'|].
    eapply mat_eq_trans; [apply (prog_prod_widen n e (map (gate_spec n) gs))|].
    - clear Hwf'. induction Hwf as [|g r Hg Hr IH]; cbn [map]; constructor; [|exact IH].
      unfold gate_spec. apply lift_spec_widen. destruct Hg as [_ [_ H]]. exact H.
    - pose proof (pow2_pos e) as He. rewrite Nat.pow_add_r.
      apply kron_compat; [exact He| |apply mat_eq_refl].
      apply mat_eq_sym. apply to_unitary_program_order. exact Hwf.
  Qed.

  (* C01, last clause: concatenation composes, on the common register *)
  Theorem concat_composes n (gs1 gs2 : list (gateapp K)) :
    mat_eq (2 ^ n) (to_unitary n (gs1 ++ gs2)) (mmul (2 ^ n) (to_unitary n gs2) (to_unitary n gs1)).
  Proof.
    eapply mat_eq_trans; [apply to_unitary_prog_prod|]. rewrite map_app.
    eapply mat_eq_trans; [apply prog_prod_app|].
    apply mmul_compat; apply mat_eq_sym; apply to_unitary_prog_prod.
  Qed.

  Lemma wf_zero_width (c : circuit K) : circ_wf c -> c_n c = 0%nat -> c_ops c = [].
  Proof.
    unfold circ_wf. intros Hwf H0. destruct (c_ops c) as [|g r]; [reflexivity|].
    inversion Hwf as [|? ? [Hne [_ Hlt]] _]; subst. rewrite H0 in Hlt.
    destruct (g_qs g) as [|q qs]; [congruence|]. inversion Hlt; subst. lia.
  Qed.

  Theorem concat_width (c1 c2 : circuit K) : circ_wf c1 -> circ_wf c2 ->
    c_n (cadd c1 c2) = Nat.max (c_n c1) (c_n c2) /\ c_ops (cadd c1 c2) = c_ops c1 ++ c_ops c2.
  Proof.
    intros H1 H2. unfold cadd, mk_circuit. destruct (Nat.max (c_n c1) (c_n c2)) as [|m] eqn:E.
    - rewrite (wf_zero_width c1 H1) by lia. rewrite (wf_zero_width c2 H2) by lia. split; reflexivity.
    - split; reflexivity.
  Qed.

  (* the sum of two circuits acts as the first, then the second, each widened by identities to the larger register *)
  Theorem concat_unitary (c1 c2 : circuit K) : circ_wf c1 -> circ_wf c2 ->
    let N := Nat.max (c_n c1) (c_n c2) in
    mat_eq (2 ^ N) (c_unitary (cadd c1 c2))
           (mmul (2 ^ N) (kron (2 ^ (N - c_n c2)) (c_unitary c2) eye) (kron (2 ^ (N - c_n c1)) (c_unitary c1) eye)).
  Proof.
    intros H1 H2 N. destruct (concat_width c1 c2 H1 H2) as [Hn Hops]. unfold c_unitary at 1. rewrite Hn, Hops. fold N.
    eapply mat_eq_trans; [apply concat_composes|].
    apply mmul_compat.
    - replace N with (c_n c2 + (N - c_n c2))%nat at 1 2 by (unfold N; lia). apply to_unitary_widen. exact H2.
    - replace N with (c_n c1 + (N - c_n c1))%nat at 1 2 by (unfold N; lia). apply to_unitary_widen. exact H1.
  Qed.

  Theorem append_width (c : circuit K) (g : gateapp K) :
    c_n (cappend c g) = Nat.max (c_n c) (S (list_max (g_qs g))) /\ c_ops (cappend c g) = c_ops c ++ [g].
  Proof.
    unfold cappend, mk_circuit. destruct (Nat.max (c_n c) (S (list_max (g_qs g)))) eqn:E; [lia|]. split; reflexivity.
  Qed.
End CircuitProofs.
