(* Comparison helpers for the C08 correspondence cases: the circuit a construction returned (width, gate
   structure and qubit tuple of every operation) against the model's, and the unitary of the model's result
   over the Gaussian rationals against the implementation's matrix. *)
Require Import Coq.Arith.Arith Coq.ZArith.ZArith Coq.QArith.QArith Coq.Lists.List Coq.Strings.String Coq.Bool.Bool.
Require Import OQ.Base.Ring OQ.Base.Sums OQ.Base.Bits OQ.Base.Mat OQ.Base.CaseEq.
Require Import OQ.Circ.Lift OQ.Circ.Circuit OQ.Circ.CircuitCases OQ.Circ.GateAst OQ.Circ.GateAstCases.
Require Import OQ.Circ.Constructions.
Import ListNotations.

Notation cop := (gop cparam).
Notation ccirc := (gcirc cparam).

(* a Python circuit as observed: n_qubits and the operations *)
Definition Cq (n : nat) (ops : list cop) : ccirc := mk_gc n ops.

Definition op_eqb (a b : cop) : bool := gate_eqb (fst a) (fst b) && lneqb (snd a) (snd b).
Definition circ_eqb (c : ccirc) (ob : nat * list cop) : bool :=
  Nat.eqb (gc_n c) (fst ob) && leqb op_eqb (gc_ops c) (snd ob).
(* [None] = the implementation raised (ValueError from a gate constructor, AssertionError from the length check) *)
Definition cres_eqb (r : option ccirc) (ob : option (nat * list cop)) : bool :=
  match r, ob with Some c, Some x => circ_eqb c x | None, None => true | _, _ => false end.

Definition inverse_eqb (c : ccirc) (ob : option (nat * list cop)) : bool := cres_eqb (inverse cfree c) ob.
Definition inverse2_eqb (c : ccirc) (ob : option (nat * list cop)) : bool :=
  cres_eqb (obind (inverse cfree c) (inverse cfree)) ob.
Definition controlled_eqb (k : nat) (c : ccirc) (ob : option (nat * list cop)) : bool :=
  cres_eqb (controlled_circuit cfree k c) ob.
(* c.controlled(k1).controlled(k2) *)
Definition controlled2_eqb (k1 k2 : nat) (c : ccirc) (ob : option (nat * list cop)) : bool :=
  cres_eqb (obind (controlled_circuit cfree k1 c) (controlled_circuit cfree k2)) ob.
(* c1 + c2 *)
Definition add_eqb (c1 c2 : ccirc) (ob : option (nat * list cop)) : bool := cres_eqb (Some (gc_add c1 c2)) ob.

(* gate factories: a prototype (make_parametric_gate_prototype / CustomGateDefinition: name, is_hermitian, one
   qubit) called with a parameter row, or a ready gate used when no parameters are passed *)
Inductive facd : Type :=
| FProto (name : string) (herm : bool)
| FGate (g : gate cparam).
Definition fac_of (f : facd) : list cparam -> gate cparam :=
  match f with
  | FProto n h => fun ps => Base n ps 1 h
  | FGate g => fun _ => g
  end.

(* [order] is list(set(qs)) as CPython produced it *)
Definition apply_eqb (c : ccirc) (qs order : list nat) (f : facd) (rows : option (list (list cparam)))
           (ob : option (nat * list cop)) : bool :=
  set_order_ok qs order && cres_eqb (apply_gate_to_qubits c order (fac_of f) rows) ob.
(* set(range(n)) was iterated upwards *)
Definition layer_eqb (n : nat) (order : list nat) (f : facd) (rows : option (list (list cparam)))
           (ob : option (nat * list cop)) : bool :=
  lneqb order (seq 0 n) && cres_eqb (create_layer n (fac_of f) rows) ob.
Definition ancilla_eqb (c : ccirc) (a : nat) (ob : option (nat * list cop)) : bool :=
  cres_eqb (Some (add_ancilla c a)) ob.

(* ------------------------------------------------------------ unitaries over the Gaussian rationals *)
(* base matrices by name ([case_oracles]); only gates under controlled / dagger / non-negative integer powers
   ([oracle_free]) are evaluated, each gate matrix tabulated once ([sem_memo], GateAstInstProofs.sem_memo_eq) *)
Definition denote_memo (tbl : list (string * gqmat)) (op : cop) : gateapp GQring :=
  mk_gateapp (sem_memo (case_oracles tbl) (fst op)) (snd op).
Definition unitary_eqb (tbl : list (string * gqmat)) (r : option ccirc) (w : nat) (out : smat) : bool :=
  match r with
  | None => false
  | Some c =>
      forallb (fun op => oracle_free (fst op)) (gc_ops c) && Nat.eqb (gc_n c) w &&
      CircuitCases.mat_eqb w (to_unitary (gc_n c) (map (denote_memo tbl) (gc_ops c))) out
  end.
