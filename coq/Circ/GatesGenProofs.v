(* C07: the definitions GENERATED from circuits/_gates.py (Gen/GateModsGen.v, translator tr/tr_gates.py) agree with the
   hand-written model Circ/GateAst.v that the C07 theorems are about.  Re-checked on every run against the freshly
   generated text.

   How the two sides are related.
     model_world     the external operations of the generated code (record GatesTrSupport.pyworld) read through the
                     model's oracles: a parameter is a model parameter, an exponent a model [exponent], a sympy matrix
                     is (dimension, entries : Mat K), a matrix factory is (gate name, qubit count) and produces
                     (2^qubits, o_factory name params); adjoint / exp / ** / diag(eye(n), .) are adj / o_exp / mpowz /
                     diag_id on the entries; get_free_symbols is any function [gfs] whose result is non-empty exactly
                     when some parameter has free symbols ([gfs_nonempty], the only thing the code observes of it).
     emb             a model gate as the Python object it stands for (qubit and control counts as Python ints)
     res             the model's [option] as a [result]: None = ValueError

   Theorems (g : any model gate, i.e. any nesting of the five classes with non-negative counts):
     params_gen_is_model, num_qubits_gen_is_model, name_gen_is_model, free_symbols_gen_is_model
     ControlledGate_new_is_model, Exponential_new_is_model, Power_new_is_model      (constructor + __post_init__)
     exp_gen_is_model, power_gen_is_model, dagger_gen_is_model, controlled_gen_is_model, replace_params_gen_is_model
     matrix_gen_is_model                 Gate.matrix (emb g) = Ok (dim g, sem o g)
     controlled_gen_any_int              .controlled(z) for ANY Python int z (the model has natural numbers only):
                                         [controlledZ]; for z < 0 a ControlledGate LOSES controls instead of raising
     bind_gen_spec                       .bind(m) = replace_params with the substituted parameters, NotImplementedError
                                         as soon as a Power / Exponential node is met (the model has no bind)
     call_gen_spec, gateop_*_spec        Gate.__call__ and the GateOperation methods keep qubit_indices
     custom_call_gen_is_model            CustomGateDefinition.__call__ builds the model's [Base] with is_hermitian = false *)
Require Import Coq.Arith.Arith Coq.ZArith.ZArith Coq.Lists.List Coq.Strings.String Coq.Bool.Bool Coq.micromega.Lia.
Require Import OQ.Base.Ring OQ.Base.Sums OQ.Base.Mat.
Require Import OQ.Circ.GateAst OQ.Circ.GatesTrSupport OQ.Gen.GateModsGen.
Import ListNotations.
Close Scope Z_scope.
Open Scope nat_scope.

(* ------------------------------------------------------------------ strings *)
Lemma str_app_assoc (a b c : string) : ((a ++ b) ++ c)%string = (a ++ (b ++ c))%string.
Proof. induction a as [|ch a IH]; cbn [String.append]; [reflexivity|]. rewrite IH. reflexivity. Qed.

Lemma str_app_nil_r (a : string) : (a ++ "")%string = a.
Proof. induction a as [|ch a IH]; cbn [String.append]; [reflexivity|]. rewrite IH. reflexivity. Qed.

(* ------------------------------------------------------------------ numbers *)
Lemma py_pow_int_nat (n : nat) : py_pow_int 2 (Z.of_nat n) = Ok (Z.of_nat (2 ^ n)).
Proof.
  unfold py_pow_int. destruct (Z.ltb_spec (Z.of_nat n) 0) as [H|_]; [lia|].
  f_equal. rewrite Nat2Z.inj_pow. reflexivity.
Qed.

Lemma py_sympy_eye_nat (a b : nat) : b <= a -> py_sympy_eye (Z.of_nat a - Z.of_nat b) = Ok (Z.of_nat (a - b)).
Proof.
  intro H. unfold py_sympy_eye. destruct (Z.ltb_spec (Z.of_nat a - Z.of_nat b) 0) as [Hn|_]; [lia|].
  f_equal. lia.
Qed.

(* How the model reads what the generated code leaves open (besides the parameter type P and the ring K of the entries) *)
Record reading (K : cring) (P : Type) : Type := mk_reading {
  rd_pfree : P -> bool;                     (* the parameter has free symbols *)
  rd_root_str : positive -> string;         (* str(1/q) *)
  rd_oracles : oracles K P;                 (* the model's matrix oracles *)
  rd_symmap : Type;                         (* symbols maps *)
  rd_sub : P -> rd_symmap -> P;             (* sub_symbols *)
  rd_symbol : Type;                         (* symbols *)
  rd_gfs : list P -> list rd_symbol         (* get_free_symbols *)
}.
Arguments mk_reading {K P}. Arguments rd_pfree {K P}. Arguments rd_root_str {K P}. Arguments rd_oracles {K P}.
Arguments rd_symmap {K P}. Arguments rd_sub {K P}. Arguments rd_symbol {K P}. Arguments rd_gfs {K P}.

(* all the translated code observes of get_free_symbols is whether its result is empty *)
Definition reading_ok {K P} (R : reading K P) : Prop :=
  forall ps, (0 <? py_len (rd_gfs R ps))%Z = existsb (rd_pfree R) ps.

(* satisfiable: the list of the parameters that have free symbols stands for the set of their symbols *)
Lemma filter_reading_ok {P} (pf : P -> bool) (ps : list P) : (0 <? py_len (filter pf ps))%Z = existsb pf ps.
Proof.
  induction ps as [|p r IH]; [reflexivity|]. cbn [filter existsb]. destruct (pf p); [|exact IH].
  unfold py_len. cbn [List.length orb]. apply Z.ltb_lt. lia.
Qed.

Section Agreement.
  Variable K : cring.
  Variable P : Type.
  Variable R : reading K P.
  Hypothesis gfs_nonempty : reading_ok R.
  Local Notation pfree := (rd_pfree R).
  Local Notation root_str := (rd_root_str R).
  Local Notation o := (rd_oracles R).
  Local Notation S := (rd_symmap R).
  Local Notation sub := (rd_sub R).
  Local Notation Sym := (rd_symbol R).
  Local Notation gfs := (rd_gfs R).

  Definition mx : Type := (nat * Mat K)%type.

  Definition model_world : pyworld :=
    mk_pyworld P (string * nat)%type exponent S Sym mx gfs sub
      (fun f ps => (2 ^ snd f, o_factory o (fst f) ps))
      (fun m => (fst m, adj (snd m)))
      (fun m => (fst m, o_exp o (fst m) (snd m)))
      (fun m e => (fst m, mpowz o (fst m) (snd m) e))
      (fun n m => (Z.to_nat n + fst m, diag_id (Z.to_nat n) (snd m)))
      (exp_str root_str).
  Notation W := model_world.

  Fixpoint emb (g : gate P) : pygate W :=
    match g with
    | Base n ps q h => @MatrixFactoryGate W n (n, q) ps (Z.of_nat q) h
    | Ctrl w k => ControlledGate (emb w) (Z.of_nat k)
    | Dag w => Dagger (emb w)
    | Exp w => Exponential (emb w)
    | Pow w e => @Power W (emb w) e
    end.

  Definition res (x : option (gate P)) : result (pygate W) :=
    match x with Some g => Ok (emb g) | None => Raise E_ValueError end.

  Lemma bind_res {B} (x : option (gate P)) (f : pygate W -> result B) :
    bind (res x) f = match x with Some g => f (emb g) | None => Raise E_ValueError end.
  Proof. destruct x; reflexivity. Qed.

  (* the model gate a Python object stands for (left inverse of emb; used to display results) *)
  Fixpoint unemb (x : pygate W) : gate P :=
    match x with
    | MatrixFactoryGate n _ ps q h => Base n ps (Z.to_nat q) h
    | ControlledGate w k => Ctrl (unemb w) (Z.to_nat k)
    | Dagger w => Dag (unemb w)
    | Exponential w => Exp (unemb w)
    | Power w e => Pow (unemb w) e
    end.

  Lemma unemb_emb : forall g, unemb (emb g) = g.
  Proof.
    induction g as [n ps q h|g IHg k|g IHg|g IHg|g IHg e]; cbn [emb unemb]; rewrite ?Nat2Z.id, ?IHg; reflexivity.
  Qed.

  Definition shown (r : result (pygate W)) : gate P + pyexn :=
    match r with Ok x => inl (unemb x) | Raise e => inr e end.

  (* ---------------------------------------------------------------- the properties *)
  Theorem params_gen_is_model : forall g, Gate_params_gen (emb g) = params g.
  Proof. induction g as [n ps q h|g IHg k|g IHg|g IHg|g IHg e]; cbn [emb Gate_params_gen params]; auto. Qed.

  Theorem num_qubits_gen_is_model : forall g, Gate_num_qubits_gen (emb g) = Z.of_nat (num_qubits g).
  Proof.
    induction g as [n ps q h|g IHg k|g IHg|g IHg|g IHg e]; cbn [emb Gate_num_qubits_gen num_qubits]; auto.
    rewrite IHg. lia.
  Qed.

  Theorem name_gen_is_model : forall g, Gate_name_gen (emb g) = name root_str g.
  Proof.
    induction g as [n ps q h|g IHg k|g IHg|g IHg|g IHg e]; cbn [emb Gate_name_gen name]; try reflexivity.
    - rewrite IHg. unfold py_str_add, DAGGER_GATE_NAME. rewrite str_app_assoc. reflexivity.
    - rewrite IHg. unfold py_fstring, py_format_str, POWER_GATE_SYMBOL. cbn [fold_right w_str_exponent model_world].
      rewrite str_app_nil_r. reflexivity.
  Qed.

  Lemma free_symbols_gen_params : forall g, Gate_free_symbols_gen (emb g) = gfs (params g).
  Proof.
    intro g. destruct g as [n ps q h|g k|g|g|g e]; cbn [emb Gate_free_symbols_gen];
      change (w_get_free_symbols W) with gfs; try reflexivity.
    - change (ControlledGate (emb g) (Z.of_nat k)) with (emb (Ctrl g k)). rewrite params_gen_is_model. reflexivity.
    - change (Dagger (emb g)) with (emb (Dag g)). rewrite params_gen_is_model. reflexivity.
    - change (Exponential (emb g)) with (emb (Exp g)). rewrite params_gen_is_model. reflexivity.
    - change (@Power W (emb g) e) with (emb (Pow g e)). rewrite params_gen_is_model. reflexivity.
  Qed.

  (* len(g.free_symbols) > 0, the only use the translated code makes of free_symbols *)
  Theorem free_symbols_gen_is_model : forall g,
    (0 <? py_len (Gate_free_symbols_gen (emb g)))%Z = has_free pfree g.
  Proof. intro g. rewrite free_symbols_gen_params, gfs_nonempty. reflexivity. Qed.

  (* ---------------------------------------------------------------- the constructors with a __post_init__ *)
  Lemma ControlledGate_new_any (x : pygate W) (z : Z) :
    ControlledGate_new x z = if (z <? 1)%Z then Raise E_ValueError else Ok (ControlledGate x z).
  Proof. unfold ControlledGate_new, ControlledGate_post_init_gen. destruct (z <? 1)%Z; reflexivity. Qed.

  Theorem ControlledGate_new_is_model : forall g k,
    ControlledGate_new (emb g) (Z.of_nat k) = res (mk_ctrl g k).
  Proof.
    intros g k. rewrite ControlledGate_new_any. unfold mk_ctrl.
    destruct (Z.ltb_spec (Z.of_nat k) 1) as [H|H]; destruct (Nat.ltb_spec k 1) as [H'|H']; try lia; reflexivity.
  Qed.

  Theorem Exponential_new_is_model : forall g, Exponential_new (emb g) = res (mk_exp pfree g).
  Proof.
    intro g. unfold Exponential_new, Exponential_post_init_gen, mk_exp. cbv zeta.
    rewrite free_symbols_gen_is_model. destruct (has_free pfree g); reflexivity.
  Qed.

  Theorem Power_new_is_model : forall g e, @Power_new W (emb g) e = res (mk_pow pfree g e).
  Proof.
    intros g e. unfold Power_new, Power_post_init_gen, mk_pow. cbv zeta.
    rewrite free_symbols_gen_is_model. destruct (has_free pfree g); reflexivity.
  Qed.

  (* ---------------------------------------------------------------- the modifiers *)
  Theorem exp_gen_is_model : forall g, Gate_exp_gen (emb g) = res (gexp pfree g).
  Proof. intro g. destruct g as [n ps q h|g k|g|g|g e]; [exact (Exponential_new_is_model (Base n ps q h))|exact (Exponential_new_is_model (Ctrl g k))|exact (Exponential_new_is_model (Dag g))|exact (Exponential_new_is_model (Exp g))|exact (Exponential_new_is_model (Pow g e))]. Qed.

  Theorem power_gen_is_model : forall g e, @Gate_power_gen W (emb g) e = res (power pfree e g).
  Proof.
    induction g as [n ps q h|g IHg k|g IHg|g IHg|g IHg e]; intro e0.
    - exact (Power_new_is_model (Base n ps q h) e0).
    - cbn [emb Gate_power_gen power]. rewrite IHg, bind_res.
      destruct (power pfree e0 g) as [pw|]; cbn [obind]; [apply ControlledGate_new_is_model|reflexivity].
    - exact (Power_new_is_model (Dag g) e0).
    - exact (Power_new_is_model (Exp g) e0).
    - exact (Power_new_is_model (Pow g e) e0).
  Qed.

  Theorem dagger_gen_is_model : forall g, Gate_dagger_gen (emb g) = res (dagger pfree g).
  Proof.
    induction g as [n ps q h|g IHg k|g IHg|g IHg|g IHg e]; cbn [emb Gate_dagger_gen dagger].
    - destruct h; reflexivity.
    - rewrite IHg, bind_res. destruct (dagger pfree g) as [dw|]; cbn [obind];
        [apply ControlledGate_new_is_model|reflexivity].
    - reflexivity.
    - rewrite IHg, bind_res. destruct (dagger pfree g) as [dw|]; cbn [obind];
        [apply exp_gen_is_model|reflexivity].
    - rewrite IHg, bind_res. destruct (dagger pfree g) as [dw|]; cbn [obind];
        [apply power_gen_is_model|reflexivity].
  Qed.

  (* .controlled(z) for any Python int z *)
  Fixpoint controlledZ (z : Z) (g : gate P) : option (gate P) :=
    match g with
    | Base _ _ _ _ | Exp _ => if (z <? 1)%Z then None else Some (Ctrl g (Z.to_nat z))
    | Ctrl w k0 => if (Z.of_nat k0 + z <? 1)%Z then None else Some (Ctrl w (Z.to_nat (Z.of_nat k0 + z)))
    | Dag w => obind (controlledZ z w) (dagger pfree)
    | Pow w e => obind (controlledZ z w) (power pfree e)
    end.

  Theorem controlled_gen_any_int : forall g z, Gate_controlled_gen (emb g) z = res (controlledZ z g).
  Proof.
    induction g as [n ps q h|g IHg k|g IHg|g IHg|g IHg e]; intro z; cbn [emb Gate_controlled_gen controlledZ].
    - rewrite ControlledGate_new_any. destruct (Z.ltb_spec z 1) as [H|H]; [reflexivity|].
      cbn [res emb]. rewrite Z2Nat.id by lia. reflexivity.
    - rewrite ControlledGate_new_any. destruct (Z.ltb_spec (Z.of_nat k + z) 1) as [H|H]; [reflexivity|].
      cbn [res emb]. rewrite Z2Nat.id by lia. reflexivity.
    - rewrite IHg, bind_res. destruct (controlledZ z g) as [cw|]; cbn [obind];
        [apply dagger_gen_is_model|reflexivity].
    - rewrite ControlledGate_new_any. destruct (Z.ltb_spec z 1) as [H|H]; [reflexivity|].
      cbn [res emb]. rewrite Z2Nat.id by lia. reflexivity.
    - rewrite IHg, bind_res. destruct (controlledZ z g) as [cw|]; cbn [obind];
        [apply power_gen_is_model|reflexivity].
  Qed.

  Lemma controlledZ_nat : forall g k, controlledZ (Z.of_nat k) g = controlled pfree k g.
  Proof.
    induction g as [n ps q h|g IHg k|g IHg|g IHg|g IHg e]; intro k0; cbn [controlledZ controlled]; unfold mk_ctrl.
    - rewrite Nat2Z.id. destruct (Z.ltb_spec (Z.of_nat k0) 1); destruct (Nat.ltb_spec k0 1); try lia; reflexivity.
    - rewrite <- Nat2Z.inj_add, Nat2Z.id.
      destruct (Z.ltb_spec (Z.of_nat (k + k0)) 1); destruct (Nat.ltb_spec (k + k0) 1); try lia; reflexivity.
    - rewrite IHg. reflexivity.
    - rewrite Nat2Z.id. destruct (Z.ltb_spec (Z.of_nat k0) 1); destruct (Nat.ltb_spec k0 1); try lia; reflexivity.
    - rewrite IHg. reflexivity.
  Qed.

  Theorem controlled_gen_is_model : forall g k,
    Gate_controlled_gen (emb g) (Z.of_nat k) = res (controlled pfree k g).
  Proof. intros g k. rewrite controlled_gen_any_int, controlledZ_nat. reflexivity. Qed.

  (* outside the model's domain: a negative count takes controls away from a ControlledGate (no exception as long as
     one control is left); on every other class it raises *)
  Theorem controlled_gen_negative_merges : forall w k0 z, (1 <= Z.of_nat k0 + z)%Z ->
    Gate_controlled_gen (emb (Ctrl w k0)) z = Ok (emb (Ctrl w (Z.to_nat (Z.of_nat k0 + z)))).
  Proof.
    intros w k0 z H. rewrite controlled_gen_any_int. cbn [controlledZ].
    destruct (Z.ltb_spec (Z.of_nat k0 + z) 1); [lia|reflexivity].
  Qed.

  Theorem replace_params_gen_is_model : forall g ps,
    Gate_replace_params_gen (emb g) ps = res (replace_params pfree ps g).
  Proof.
    induction g as [n ps q h|g IHg k|g IHg|g IHg|g IHg e]; intro ps0; cbn [emb Gate_replace_params_gen replace_params].
    - reflexivity.
    - rewrite IHg, bind_res. destruct (replace_params pfree ps0 g) as [r|]; cbn [obind];
        [apply controlled_gen_is_model|reflexivity].
    - rewrite IHg, bind_res. destruct (replace_params pfree ps0 g) as [r|]; cbn [obind];
        [apply dagger_gen_is_model|reflexivity].
    - rewrite IHg, bind_res. destruct (replace_params pfree ps0 g) as [r|]; cbn [obind];
        [apply exp_gen_is_model|reflexivity].
    - rewrite IHg, bind_res. destruct (replace_params pfree ps0 g) as [r|]; cbn [obind];
        [apply power_gen_is_model|reflexivity].
  Qed.

  (* ---------------------------------------------------------------- matrix *)
  Theorem matrix_gen_is_model : forall g, Gate_matrix_gen (emb g) = Ok (dim g, sem o g).
  Proof.
    induction g as [n ps q h|g IHg k|g IHg|g IHg|g IHg e]; cbn [emb Gate_matrix_gen sem].
    - reflexivity.
    - change (ControlledGate (emb g) (Z.of_nat k)) with (emb (Ctrl g k)).
      rewrite !num_qubits_gen_is_model, !py_pow_int_nat. cbn [bind num_qubits].
      assert (Hle : 2 ^ num_qubits g <= 2 ^ (num_qubits g + k)) by (apply Nat.pow_le_mono_r; lia).
      rewrite (py_sympy_eye_nat _ _ Hle), IHg. cbn [bind].
      unfold py_matrix_diag. cbn [w_diag model_world fst snd]. rewrite Nat2Z.id.
      unfold dim at 2. cbn [num_qubits]. unfold dim.
      replace (2 ^ (num_qubits g + k) - 2 ^ num_qubits g + 2 ^ num_qubits g) with (2 ^ (num_qubits g + k)) by lia.
      reflexivity.
    - rewrite IHg. reflexivity.
    - rewrite IHg. reflexivity.
    - rewrite IHg. reflexivity.
  Qed.

  (* ---------------------------------------------------------------- bind (no counterpart in GateAst.v) *)
  Fixpoint bindable (g : gate P) : bool :=
    match g with
    | Base _ _ _ _ => true
    | Ctrl w _ | Dag w => bindable w
    | Exp _ | Pow _ _ => false
    end.

  Definition gbind (m : S) (g : gate P) : result (pygate W) :=
    if bindable g then res (replace_params pfree (map (fun p => sub p m) (params g)) g)
    else Raise E_NotImplementedError.

  Theorem bind_gen_spec : forall g m, Gate_bind_gen (emb g) m = gbind m g.
  Proof.
    induction g as [n ps q h|g IHg k|g IHg|g IHg|g IHg e]; intro m; cbn [emb Gate_bind_gen]; unfold gbind; cbn [bindable params replace_params].
    - reflexivity.
    - rewrite IHg. unfold gbind. destruct (bindable g); [|reflexivity].
      rewrite bind_res. destruct (replace_params pfree _ g) as [r|]; cbn [obind];
        [apply controlled_gen_is_model|reflexivity].
    - rewrite IHg. unfold gbind. destruct (bindable g); [|reflexivity].
      rewrite bind_res. destruct (replace_params pfree _ g) as [r|]; cbn [obind];
        [apply dagger_gen_is_model|reflexivity].
    - reflexivity.
    - reflexivity.
  Qed.

  (* ---------------------------------------------------------------- Gate.__call__, GateOperation *)
  Theorem call_gen_spec : forall g idx, Gate_call_gen (emb g) idx = GateOperation (emb g) idx.
  Proof. intros g idx. destruct g; reflexivity. Qed.

  Theorem gateop_params_spec : forall g idx,
    GateOperation_params_gen (GateOperation (emb g) idx) = params g /\
    GateOperation_free_symbols_gen (GateOperation (emb g) idx) = gfs (params g).
  Proof.
    intros g idx. split; cbn [GateOperation_params_gen GateOperation_free_symbols_gen].
    - apply params_gen_is_model.
    - apply free_symbols_gen_params.
  Qed.

  Theorem gateop_replace_params_spec : forall g idx ps,
    GateOperation_replace_params_gen (GateOperation (emb g) idx) ps =
    match replace_params pfree ps g with
    | Some r => Ok (GateOperation (emb r) idx)
    | None => Raise E_ValueError
    end.
  Proof.
    intros g idx ps. cbn [GateOperation_replace_params_gen]. rewrite replace_params_gen_is_model, bind_res.
    reflexivity.
  Qed.

  Theorem gateop_bind_spec : forall g idx m,
    GateOperation_bind_gen (GateOperation (emb g) idx) m =
    bind (gbind m g) (fun r => Ok (GateOperation r idx)).
  Proof. intros g idx m. cbn [GateOperation_bind_gen]. rewrite bind_gen_spec. reflexivity. Qed.

  (* ---------------------------------------------------------------- CustomGateDefinition.__call__ *)
  (* CustomGateMatrixFactory(definition), read through the model's factory oracle: looked up by the gate's name *)
  Definition custom_factory (d : CustomGateDefinition_obj W) : w_factory W :=
    match d with CustomGateDefinition n _ _ q => (n, Z.to_nat q) end.

  Theorem custom_call_gen_is_model : forall n (M : w_matrix W) (so : list Sym) (q : nat) ps,
    CustomGateDefinition_call_gen custom_factory (CustomGateDefinition n M so (Z.of_nat q)) ps =
    emb (Base n ps q false).
  Proof.
    intros n M so q ps. cbn [CustomGateDefinition_call_gen custom_factory emb]. rewrite Nat2Z.id. reflexivity.
  Qed.
End Agreement.

Arguments model_world {K P}.
Arguments emb {K P}.
Arguments res {K P}.
Arguments unemb {K P}.
Arguments shown {K P}.
Arguments controlledZ {K P}.
Arguments bindable {P}.
Arguments gbind {K P}.
Arguments custom_factory {K P}.
