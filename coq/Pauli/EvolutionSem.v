(* Meaning of evolution circuits over a ring, from a record of gate matrices; transport along ring homs. *)
Require Import Coq.Lists.List Coq.Arith.Arith Coq.Bool.Bool Coq.micromega.Lia Coq.setoid_ring.Ring.
Require Import OQ.Base.Ring OQ.Base.Sums OQ.Base.Bits OQ.Base.Mat OQ.Base.Hom OQ.Pauli.Algebra OQ.Pauli.Den
        OQ.Circ.Lift OQ.Circ.LiftProofs OQ.Circ.LiftAlgebra OQ.Circ.Circuit OQ.Circ.CircuitProofs OQ.Pauli.Evolution.
Import ListNotations.

Record gmats (K : cring) : Type := mk_gmats { mH : Mat K; mRXh : Mat K; mRXhd : Mat K; mCNOT : Mat K }.
Arguments mH {K}. Arguments mRXh {K}. Arguments mRXhd {K}. Arguments mCNOT {K}.

Section Sem.
  Variable K : cring.
  Variable P : Type.
  Variable G : gmats K.
  Variable rz : P -> Mat K.

  Definition emat (g : egate P) : Mat K :=
    match g with EH => mH G | ERXh => mRXh G | ERXhd => mRXhd G | ECNOT => mCNOT G | ERZ a => rz a end.
  Definition espec (n : nat) (o : eop P) : Mat K := lift_spec (emat (fst o)) (snd o) n.
  (* product in program order of the lifted gates *)
  Definition esem (n : nat) (c : list (eop P)) : Mat K := prog_prod (2 ^ n) (map (espec n) c).
  Definition eapp (o : eop P) : gateapp K := mk_gateapp (emat (fst o)) (snd o).

  Lemma esem_is_to_unitary n c : Forall (fun o => wf_gate n (eapp o)) c ->
    mat_eq (2 ^ n) (to_unitary n (map eapp c)) (esem n c).
  Proof.
    intro H. eapply mat_eq_trans; [apply to_unitary_program_order|].
    - apply Forall_forall. intros g Hg. apply in_map_iff in Hg. destruct Hg as [o [<- Ho]].
      rewrite Forall_forall in H. apply H. exact Ho.
    - unfold esem. rewrite map_map. apply mat_eq_refl.
  Qed.

  Lemma esem_app n a b : mat_eq (2 ^ n) (esem n (a ++ b)) (mmul (2 ^ n) (esem n b) (esem n a)).
  Proof. unfold esem. rewrite map_app. apply prog_prod_app. Qed.
End Sem.

Arguments emat {K P}. Arguments espec {K P}. Arguments esem {K P}. Arguments eapp {K P}.

Section Transport.
  Variables A B : cring.
  Variable f : A -> B.
  Hypothesis Hf : cring_hom A B f.

  Lemma ind_hom b : f (ind b) = ind b.
  Proof. destruct b; cbn [ind]; [apply (hom_1 _ _ _ Hf)|apply (hom_0 _ _ _ Hf)]. Qed.

  Lemma lift_hom (M : Mat A) qs n i j : mmap f (lift_spec M qs n) i j = lift_spec (mmap f M) qs n i j.
  Proof. unfold mmap, lift_spec. cbv zeta. rewrite (hom_mul _ _ _ Hf), ind_hom. reflexivity. Qed.

  Lemma prog_prod_hom d (Ms : list (Mat A)) : forall i j,
    mmap f (prog_prod d Ms) i j = prog_prod d (map (mmap f) Ms) i j.
  Proof.
    induction Ms as [|M r IH]; intros i j; cbn [prog_prod map].
    - apply (eye_hom _ _ _ Hf).
    - rewrite (mmul_hom _ _ _ Hf). unfold mmul. apply rsum_ext. intros k _. rewrite IH. reflexivity.
  Qed.

  Lemma sigma_hom o x y : f (sigma o x y) = sigma o x y.
  Proof.
    destruct o as [[| |]|]; cbn [sigma]; destruct x, y; cbn [Bool.eqb];
      rewrite ?(hom_opp _ _ _ Hf), ?(hom_i _ _ _ Hf), ?(hom_1 _ _ _ Hf), ?(hom_0 _ _ _ Hf); reflexivity.
  Qed.

  Lemma pprod_hom n l i j : mmap f (pprod n l) i j = pprod n l i j.
  Proof.
    unfold mmap, pprod. rewrite (lprod_hom _ _ _ Hf). apply lprod_ext. intros q _. apply sigma_hom.
  Qed.
End Transport.
