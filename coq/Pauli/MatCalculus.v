(* Matrix calculus for C16's derivative clause, in any dimension d:
     - sesquilinear forms <X psi| O |Y psi> and expectations, their linearity (any ring with conjugation);
     - linear one-hole contexts  X |-> C . X . A  and products with one factor replaced;
     - the algebraic parameter-shift identity for one occurrence inside an arbitrary product;
     - entrywise derivatives of complex-valued functions of a real variable (real and imaginary parts separately),
       the product rule for matrix products and for lists of blocks, the derivative of an expectation. *)
Require Import Coq.Reals.Reals Coq.Lists.List Coq.Arith.Arith Coq.Bool.Bool Coq.micromega.Lia Coq.micromega.Lra
        Coq.setoid_ring.Ring Coq.Classes.Morphisms Coq.Classes.RelationClasses Coq.Setoids.Setoid.
Require Import OQ.Base.Ring OQ.Base.Sums OQ.Base.Mat OQ.Base.MatLin OQ.Gates.CR OQ.Circ.Circuit OQ.Circ.CircuitProofs
        OQ.Pauli.EvolutionGeneral.
Import ListNotations.

(* ------------------------------------------------------------------ replacing one element of a list *)
Fixpoint subst {A} (j : nat) (x : A) (l : list A) : list A :=
  match l, j with
  | [], _ => []
  | _ :: r, O => x :: r
  | a :: r, S j' => a :: subst j' x r
  end.

Lemma subst_nth {A} (l : list A) : forall j dflt, subst j (List.nth j l dflt) l = l.
Proof.
  induction l as [|a r IH]; intros j dflt; destruct j as [|j]; cbn [subst List.nth]; try reflexivity.
  rewrite IH. reflexivity.
Qed.

Lemma subst_map {A B} (f : A -> B) (l : list A) : forall j x, subst j (f x) (map f l) = map f (subst j x l).
Proof.
  induction l as [|a r IH]; intros j x; destruct j as [|j]; cbn [subst map]; try reflexivity.
  rewrite IH. reflexivity.
Qed.

(* [map (fun p => if p =? j then x else g p) (seq s n)] is [map g (seq s n)] with position j - s replaced *)
Lemma map_if_subst {A} (g : nat -> A) (x : A) : forall n s j, (j < n)%nat ->
  map (fun p => if Nat.eqb p (s + j) then x else g p) (seq s n) = subst j x (map g (seq s n)).
Proof.
  induction n as [|n IH]; intros s j Hj; [lia|]. cbn [seq map]. destruct j as [|j]; cbn [subst].
  - rewrite Nat.add_0_r, Nat.eqb_refl. f_equal. apply map_ext_in. intros p Hp. apply in_seq in Hp.
    destruct (Nat.eqb_spec p s); [lia|reflexivity].
  - destruct (Nat.eqb_spec s (s + S j)); [lia|]. f_equal.
    replace (s + S j)%nat with (S s + j)%nat by lia. apply IH. lia.
Qed.

Section Algebra.
  Variable K : cring.
  Add Ring Kr : (c_ring K).
  Local Open Scope cr_scope.

  (* ---------------------------------------------------------------- sums of matrices over a list *)
  Definition mlsum {A} (l : list A) (f : A -> Mat K) : Mat K := fun i j => lsum l (fun x => f x i j).

  Lemma mlsum_cons {A} (a : A) l f i j : mlsum (a :: l) f i j = madd (f a) (mlsum l f) i j.
  Proof. reflexivity. Qed.

  Lemma mlsum_compat {A} d (l : list A) (f g : A -> Mat K) :
    (forall x, In x l -> mat_eq d (f x) (g x)) -> mat_eq d (mlsum l f) (mlsum l g).
  Proof. intros H i j Hi Hj. unfold mlsum. apply lsum_ext. intros x Hx. apply H; assumption. Qed.

  Lemma mmul_mlsum_l {A} d (l : list A) f (M : Mat K) i j :
    mmul d (mlsum l f) M i j = mlsum l (fun x => mmul d (f x) M) i j.
  Proof.
    unfold mlsum, mmul. rewrite lsum_rsum_swap. apply rsum_ext. intros k _. rewrite lsum_scale_r. reflexivity.
  Qed.

  (* ---------------------------------------------------------------- <X psi| O |Y psi> *)
  Definition sesq (d : nat) (O : Mat K) (psi : Vec K) (X Y : Mat K) : K :=
    rsum d (fun i => cconj (mvec d X psi i) * rsum d (fun j => O i j * mvec d Y psi j)).
  Definition expect (d : nat) (O : Mat K) (X : Mat K) (psi : Vec K) : K := sesq d O psi X X.

  Lemma mvec_mat_compat d (X X' : Mat K) psi i : mat_eq d X X' -> (i < d)%nat -> mvec d X psi i = mvec d X' psi i.
  Proof. intros H Hi. unfold mvec. apply rsum_ext. intros k Hk. rewrite H by assumption. reflexivity. Qed.

  Lemma sesq_compat d O psi X X' Y Y' : mat_eq d X X' -> mat_eq d Y Y' -> sesq d O psi X Y = sesq d O psi X' Y'.
  Proof.
    intros HX HY. unfold sesq. apply rsum_ext. intros i Hi. rewrite (mvec_mat_compat d X X' psi i HX Hi). f_equal.
    apply rsum_ext. intros j Hj. rewrite (mvec_mat_compat d Y Y' psi j HY Hj). reflexivity.
  Qed.

  Lemma expect_compat d O psi X X' : mat_eq d X X' -> expect d O X psi = expect d O X' psi.
  Proof. intro H. apply sesq_compat; exact H. Qed.

  Lemma mvec_madd d (X Y : Mat K) psi i : mvec d (madd X Y) psi i = mvec d X psi i + mvec d Y psi i.
  Proof. unfold mvec, madd. rewrite <- rsum_add. apply rsum_ext. intros k _. ring. Qed.

  Lemma mvec_mscale d c (X : Mat K) psi i : mvec d (mscale c X) psi i = c * mvec d X psi i.
  Proof. unfold mvec, mscale. rewrite <- rsum_scale_l. apply rsum_ext. intros k _. ring. Qed.

  Lemma mvec_mzero d psi i : mvec d (@mzero K) psi i = c0.
  Proof. unfold mvec, mzero. apply rsum_zero_ext. intros k _. ring. Qed.

  Lemma sesq_madd_l d O psi X X' Y : sesq d O psi (madd X X') Y = sesq d O psi X Y + sesq d O psi X' Y.
  Proof.
    unfold sesq. rewrite <- rsum_add. apply rsum_ext. intros i _. rewrite mvec_madd, conj_add. ring.
  Qed.

  Lemma sesq_madd_r d O psi X Y Y' : sesq d O psi X (madd Y Y') = sesq d O psi X Y + sesq d O psi X Y'.
  Proof.
    unfold sesq. rewrite <- rsum_add. apply rsum_ext. intros i _.
    rewrite (rsum_ext K d _ (fun j => O i j * mvec d Y psi j + O i j * mvec d Y' psi j))
      by (intros j _; rewrite mvec_madd; ring).
    rewrite rsum_add. ring.
  Qed.

  Lemma sesq_mscale_l d O psi c X Y : sesq d O psi (mscale c X) Y = cconj c * sesq d O psi X Y.
  Proof.
    unfold sesq. rewrite <- rsum_scale_l. apply rsum_ext. intros i _. rewrite mvec_mscale, conj_mul. ring.
  Qed.

  Lemma sesq_mscale_r d O psi c X Y : sesq d O psi X (mscale c Y) = c * sesq d O psi X Y.
  Proof.
    unfold sesq. rewrite <- rsum_scale_l. apply rsum_ext. intros i _.
    rewrite (rsum_ext K d _ (fun j => c * (O i j * mvec d Y psi j))) by (intros j _; rewrite mvec_mscale; ring).
    rewrite rsum_scale_l. ring.
  Qed.

  Lemma sesq_mzero_l d O psi Y : sesq d O psi mzero Y = c0.
  Proof. unfold sesq. apply rsum_zero_ext. intros i _. rewrite mvec_mzero, conj_0. ring. Qed.

  Lemma sesq_mzero_r d O psi X : sesq d O psi X mzero = c0.
  Proof.
    unfold sesq. apply rsum_zero_ext. intros i _.
    rewrite (rsum_zero_ext K d (fun j => O i j * mvec d mzero psi j)) by (intros j _; rewrite mvec_mzero; ring). ring.
  Qed.

  Lemma sesq_mlsum_l {A} d O psi (l : list A) f Y :
    sesq d O psi (mlsum l f) Y = lsum l (fun x => sesq d O psi (f x) Y).
  Proof.
    induction l as [|a l IH]; cbn [lsum].
    - apply sesq_mzero_l.
    - rewrite <- IH, <- sesq_madd_l. apply sesq_compat; [|apply mat_eq_refl]. intros i j _ _. apply mlsum_cons.
  Qed.

  Lemma sesq_mlsum_r {A} d O psi (l : list A) f X :
    sesq d O psi X (mlsum l f) = lsum l (fun x => sesq d O psi X (f x)).
  Proof.
    induction l as [|a l IH]; cbn [lsum].
    - apply sesq_mzero_r.
    - rewrite <- IH, <- sesq_madd_r. apply sesq_compat; [apply mat_eq_refl|]. intros i j _ _. apply mlsum_cons.
  Qed.

  (* ---------------------------------------------------------------- linear one-hole contexts *)
  Definition lin_ctx (d : nat) (f : Mat K -> Mat K) : Prop :=
    exists C A, forall X, mat_eq d (f X) (mmul d C (mmul d X A)).

  Lemma lin_ctx_compat d f X X' : lin_ctx d f -> mat_eq d X X' -> mat_eq d (f X) (f X').
  Proof. intros [C [A H]] HX. rewrite (H X), (H X'), HX. reflexivity. Qed.

  Lemma lin_ctx_madd d f X Y : lin_ctx d f -> mat_eq d (f (madd X Y)) (madd (f X) (f Y)).
  Proof.
    intros [C [A H]]. rewrite (H (madd X Y)). intros i j Hi Hj. unfold madd at 2. rewrite (H X i j Hi Hj), (H Y i j Hi Hj).
    unfold mmul at 1 3 5. rewrite <- rsum_add. apply rsum_ext. intros k _. rewrite mmul_madd_l. unfold madd. ring.
  Qed.

  Lemma lin_ctx_mscale d f c X : lin_ctx d f -> mat_eq d (f (mscale c X)) (mscale c (f X)).
  Proof.
    intros [C [A H]]. rewrite (H (mscale c X)). intros i j Hi Hj. unfold mscale at 2. rewrite (H X i j Hi Hj).
    unfold mmul at 1 3. rewrite <- rsum_scale_l. apply rsum_ext. intros k _. rewrite mmul_mscale_l. unfold mscale. ring.
  Qed.

  Lemma lin_ctx_mzero d f : lin_ctx d f -> mat_eq d (f mzero) mzero.
  Proof.
    intros [C [A H]]. rewrite (H mzero). intros i j _ _. unfold mzero at 2. unfold mmul at 1. apply rsum_zero_ext.
    intros k _. unfold mmul. rewrite (rsum_zero_ext K d (fun k0 => mzero k k0 * A k0 j)) by (intros; unfold mzero; ring). ring.
  Qed.

  Lemma lin_ctx_mlsum {A} d f (l : list A) g : lin_ctx d f -> mat_eq d (f (mlsum l g)) (mlsum l (fun x => f (g x))).
  Proof.
    intro Hf. induction l as [|a l IH].
    - apply (lin_ctx_mzero d f Hf).
    - eapply mat_eq_trans; [apply (lin_ctx_compat d f _ (madd (g a) (mlsum l g)) Hf); intros i j _ _; apply mlsum_cons|].
      eapply mat_eq_trans; [apply (lin_ctx_madd d f _ _ Hf)|].
      intros i j Hi Hj. rewrite mlsum_cons. unfold madd. rewrite (IH i j Hi Hj). reflexivity.
  Qed.

  Lemma lin_ctx_comp d f g : lin_ctx d f -> lin_ctx d g -> lin_ctx d (fun X => f (g X)).
  Proof.
    intros [C [A Hf]] [C' [A' Hg]].
    exists (mmul d C C'), (mmul d A' A). intro X. rewrite (Hf (g X)), (Hg X).
    rewrite !mmul_assoc_eq. reflexivity.
  Qed.

  (* a product in program order with factor j replaced, as a function of the replacement *)
  Lemma prog_prod_subst_ctx d (Ms : list (Mat K)) : forall j, (j < List.length Ms)%nat ->
    lin_ctx d (fun X => prog_prod d (subst j X Ms)).
  Proof.
    induction Ms as [|M r IH]; intros j Hj; [cbn in Hj; lia|]. destruct j as [|j]; cbn [subst prog_prod].
    - exists (prog_prod d r), eye. intro X. rewrite mmul_eye_r_eq. reflexivity.
    - cbn [List.length] in Hj. destruct (IH j ltac:(lia)) as [C [A H]].
      exists C, (mmul d A M). intro X. rewrite (H X). rewrite !mmul_assoc_eq. reflexivity.
  Qed.

  (* ---------------------------------------------------------------- the parameter shift, algebraically:
     with s = 1/sqrt 2 and the shifted factors (B + D) s and (B - D) s at one occurrence of an arbitrary product,
       <V+ psi|O|V+ psi> - <V- psi|O|V- psi> = <W' psi|O|W psi> + <W psi|O|W' psi>
     for every O and psi (no Hermiticity, no normalisation) *)
  Lemma shift_identity d O psi (f : Mat K -> Mat K) (s : K) (B D : Mat K) :
    lin_ctx d f -> cconj s = s -> s * s * (c1 + c1) = c1 ->
    expect d O (f (mscale s (madd B D))) psi - expect d O (f (mscale s (madd B (mscale (- c1) D)))) psi
    = sesq d O psi (f D) (f B) + sesq d O psi (f B) (f D).
  Proof.
    intros Hf Hc Hs.
    assert (Hp : mat_eq d (f (mscale s (madd B D))) (mscale s (madd (f B) (f D)))).
    { rewrite (lin_ctx_mscale d f s _ Hf). apply mscale_compat. apply (lin_ctx_madd d f _ _ Hf). }
    assert (Hm : mat_eq d (f (mscale s (madd B (mscale (- c1) D)))) (mscale s (madd (f B) (mscale (- c1) (f D))))).
    { rewrite (lin_ctx_mscale d f s _ Hf). apply mscale_compat. rewrite (lin_ctx_madd d f _ _ Hf).
      apply madd_compat; [apply mat_eq_refl|]. apply (lin_ctx_mscale d f _ _ Hf). }
    unfold expect. rewrite (sesq_compat d O psi _ _ _ _ Hp Hp), (sesq_compat d O psi _ _ _ _ Hm Hm).
    rewrite !sesq_mscale_l, !sesq_mscale_r, !sesq_madd_l, !sesq_madd_r, !sesq_mscale_l, !sesq_mscale_r, Hc.
    rewrite conj_opp, conj_1.
    set (a := sesq d O psi (f B) (f B)). set (b := sesq d O psi (f B) (f D)).
    set (c := sesq d O psi (f D) (f B)). set (e := sesq d O psi (f D) (f D)).
    transitivity (s * s * (c1 + c1) * (c + b)); [ring|]. rewrite Hs. ring.
  Qed.
End Algebra.

Arguments mlsum {K A}. Arguments sesq {K}. Arguments expect {K}. Arguments lin_ctx {K}.

(* ------------------------------------------------------------------ derivatives of complex-valued functions *)
Add Ring CRr : (c_ring CRring).
Open Scope R_scope.
Local Notation Cadd := (@OQ.Base.Ring.cadd CRring).
Local Notation Cmul := (@cmul CRring).
Local Notation Cconj := (@cconj CRring).
Local Notation C0 := (@c0 CRring).

Definition cderiv (f : R -> CR) (t : R) (d : CR) : Prop :=
  derivable_pt_lim (fun x => fst (f x)) t (fst d) /\ derivable_pt_lim (fun x => snd (f x)) t (snd d).

Lemma dlim_ext (f g : R -> R) t l : (forall x, f x = g x) -> derivable_pt_lim f t l -> derivable_pt_lim g t l.
Proof.
  intros E H eps He. destruct (H eps He) as [dl Hd]. exists dl. intros h Hh Hl. rewrite <- !E. apply Hd; assumption.
Qed.

Lemma dlim_eq (f : R -> R) t l l' : l = l' -> derivable_pt_lim f t l -> derivable_pt_lim f t l'.
Proof. intros ->. exact (fun H => H). Qed.

Lemma cderiv_ext f g t d : (forall x, f x = g x) -> cderiv f t d -> cderiv g t d.
Proof.
  intros E [H1 H2]. split; [apply (dlim_ext (fun x => fst (f x)))|apply (dlim_ext (fun x => snd (f x)))];
    try assumption; intro x; rewrite E; reflexivity.
Qed.

Lemma cderiv_eq f t d d' : d = d' -> cderiv f t d -> cderiv f t d'.
Proof. intros ->. exact (fun H => H). Qed.

Lemma cderiv_const c t : cderiv (fun _ => c) t C0.
Proof. split; apply derivable_pt_lim_const. Qed.

Lemma cderiv_add f g t f' g' : cderiv f t f' -> cderiv g t g' ->
  cderiv (fun x => Cadd (f x) (g x)) t (Cadd f' g').
Proof.
  intros [H1 H2] [H3 H4]. split.
  - exact (derivable_pt_lim_plus (fun x => fst (f x)) (fun x => fst (g x)) t _ _ H1 H3).
  - exact (derivable_pt_lim_plus (fun x => snd (f x)) (fun x => snd (g x)) t _ _ H2 H4).
Qed.

Lemma cderiv_mul f g t f' g' : cderiv f t f' -> cderiv g t g' ->
  cderiv (fun x => Cmul (f x) (g x)) t (Cadd (Cmul f' (g t)) (Cmul (f t) g')).
Proof.
  intros [H1 H2] [H3 H4].
  pose proof (derivable_pt_lim_mult (fun x => fst (f x)) (fun x => fst (g x)) t _ _ H1 H3) as A11.
  pose proof (derivable_pt_lim_mult (fun x => snd (f x)) (fun x => snd (g x)) t _ _ H2 H4) as A22.
  pose proof (derivable_pt_lim_mult (fun x => fst (f x)) (fun x => snd (g x)) t _ _ H1 H4) as A12.
  pose proof (derivable_pt_lim_mult (fun x => snd (f x)) (fun x => fst (g x)) t _ _ H2 H3) as A21.
  split.
  - eapply dlim_eq; [|exact (derivable_pt_lim_minus _ _ t _ _ A11 A22)].
    destruct f' as [a b], g' as [a' b']. cbv [OQ.Base.Ring.cadd cmul CRring cradd crmul fst snd]. ring.
  - eapply dlim_eq; [|exact (derivable_pt_lim_plus _ _ t _ _ A12 A21)].
    destruct f' as [a b], g' as [a' b']. cbv [OQ.Base.Ring.cadd cmul CRring cradd crmul fst snd]. ring.
Qed.

Lemma cderiv_conj f t f' : cderiv f t f' -> cderiv (fun x => Cconj (f x)) t (Cconj f').
Proof.
  intros [H1 H2]. split; [exact H1|].
  exact (derivable_pt_lim_opp (fun x => snd (f x)) t _ H2).
Qed.

Ltac cr_ring := match goal with |- ?a = ?b => change (@eq (car CRring) a b) end; ring.

Lemma cderiv_mul_const_r f t f' c : cderiv f t f' -> cderiv (fun x => Cmul (f x) c) t (Cmul f' c).
Proof.
  intro H. eapply cderiv_eq; [|exact (cderiv_mul f (fun _ => c) t _ _ H (cderiv_const c t))]. cbv beta. cr_ring.
Qed.

Lemma cderiv_mul_const_l f t f' c : cderiv f t f' -> cderiv (fun x => Cmul c (f x)) t (Cmul c f').
Proof.
  intro H. eapply cderiv_eq; [|exact (cderiv_mul (fun _ => c) f t _ _ (cderiv_const c t) H)]. cbv beta. cr_ring.
Qed.

Lemma cderiv_rsum n (F : R -> nat -> CR) (F' : nat -> CR) t :
  (forall k, (k < n)%nat -> cderiv (fun x => F x k) t (F' k)) ->
  cderiv (fun x => rsum (K:=CRring) n (F x)) t (rsum (K:=CRring) n F').
Proof.
  induction n as [|n IH]; intro H; cbn [rsum].
  - apply cderiv_const.
  - apply (cderiv_add (fun x => rsum (K:=CRring) n (F x)) (fun x => F x n)); [apply IH; intros k Hk; apply H; lia|apply H; lia].
Qed.

Lemma cderiv_lsum {A} (l : list A) (F : R -> A -> CR) (F' : A -> CR) t :
  (forall a, In a l -> cderiv (fun x => F x a) t (F' a)) ->
  cderiv (fun x => lsum (K:=CRring) l (F x)) t (lsum (K:=CRring) l F').
Proof.
  induction l as [|a l IH]; intro H; cbn [lsum].
  - apply cderiv_const.
  - apply (cderiv_add (fun x => F x a) (fun x => lsum (K:=CRring) l (F x))); [apply H; left; reflexivity|].
    apply IH. intros b Hb. apply H. right. exact Hb.
Qed.

(* ------------------------------------------------------------------ matrix- and vector-valued functions, entrywise *)
Definition mderiv (d : nat) (M : R -> Mat CRring) (t : R) (M' : Mat CRring) : Prop :=
  forall i j, (i < d)%nat -> (j < d)%nat -> cderiv (fun x => M x i j) t (M' i j).
Definition vderiv (d : nat) (v : R -> Vec CRring) (t : R) (v' : Vec CRring) : Prop :=
  forall i, (i < d)%nat -> cderiv (fun x => v x i) t (v' i).

Lemma mderiv_compat d M N t M' N' : (forall x, mat_eq d (M x) (N x)) -> mat_eq d M' N' ->
  mderiv d M t M' -> mderiv d N t N'.
Proof.
  intros E E' H i j Hi Hj. apply (cderiv_eq _ _ _ _ (E' i j Hi Hj)).
  apply (cderiv_ext (fun x => M x i j)); [intro x; apply E; assumption|]. apply H; assumption.
Qed.

Lemma mderiv_const d M t : mderiv d (fun _ => M) t mzero.
Proof. intros i j _ _. apply cderiv_const. Qed.

(* the product rule *)
Lemma mderiv_mmul d M N t M' N' : mderiv d M t M' -> mderiv d N t N' ->
  mderiv d (fun x => mmul d (M x) (N x)) t (madd (mmul d M' (N t)) (mmul d (M t) N')).
Proof.
  intros HM HN i j Hi Hj. unfold madd, mmul.
  eapply cderiv_eq; [exact (rsum_add CRring d _ _)|].
  apply (cderiv_rsum d (fun x k => Cmul (M x i k) (N x k j))).
  intros k Hk. apply (cderiv_mul (fun x => M x i k) (fun x => N x k j)); [apply HM|apply HN]; assumption.
Qed.

(* products of lists of blocks: the derivative is the sum over the occurrences of the product with that
   occurrence replaced by its derivative *)
Lemma mderiv_prog_prod d t (Bs : list (R -> Mat CRring)) : forall (Ds : nat -> Mat CRring),
  (forall j, (j < List.length Bs)%nat -> mderiv d (List.nth j Bs (fun _ => eye)) t (Ds j)) ->
  mderiv d (fun x => prog_prod d (map (fun B => B x) Bs)) t
         (mlsum (seq 0 (List.length Bs)) (fun j => prog_prod d (subst j (Ds j) (map (fun B => B t) Bs)))).
Proof.
  induction Bs as [|B r IH]; intros Ds H.
  - cbn [map prog_prod List.length seq]. apply mderiv_const.
  - cbn [map prog_prod List.length].
    specialize (IH (fun j => Ds (S j)) (fun j Hj => H (S j) ltac:(cbn [List.length]; lia))).
    pose proof (H 0%nat ltac:(cbn [List.length]; lia)) as H0. cbn [List.nth] in H0.
    pose proof (mderiv_mmul d _ _ t _ _ IH H0) as HP.
    eapply mderiv_compat; [intro x; apply mat_eq_refl| |exact HP].
    intros i j Hi Hj. cbn [seq]. rewrite <- seq_shift. rewrite mlsum_cons. unfold madd.
    rewrite (mmul_mlsum_l CRring). unfold mlsum. rewrite lsum_map. cbn [subst prog_prod].
    exact (Radd_comm cr_ring _ _).
Qed.

(* ------------------------------------------------------------------ the derivative of an expectation *)
Lemma vderiv_mvec d M t M' psi : mderiv d M t M' -> vderiv d (fun x => mvec d (M x) psi) t (mvec d M' psi).
Proof.
  intros H i Hi. unfold mvec. apply (cderiv_rsum d (fun x k => Cmul (M x i k) (psi k))).
  intros k Hk. apply (cderiv_mul_const_r (fun x => M x i k)). apply H; assumption.
Qed.

Lemma sesq_deriv d O psi X Y t X' Y' : mderiv d X t X' -> mderiv d Y t Y' ->
  cderiv (fun x => sesq d O psi (X x) (Y x)) t
         (Cadd (sesq d O psi X' (Y t)) (sesq d O psi (X t) Y')).
Proof.
  intros HX HY. unfold sesq.
  eapply cderiv_eq; [exact (rsum_add CRring d _ _)|].
  apply (cderiv_rsum d (fun x i => Cmul (Cconj (mvec d (X x) psi i))
                                        (rsum (K:=CRring) d (fun j => Cmul (O i j) (mvec d (Y x) psi j))))).
  intros i Hi.
  apply (cderiv_mul (fun x => Cconj (mvec d (X x) psi i))
                    (fun x => rsum (K:=CRring) d (fun j => Cmul (O i j) (mvec d (Y x) psi j)))).
  - apply (cderiv_conj (fun x => mvec d (X x) psi i)). apply (vderiv_mvec d X t X' psi HX i Hi).
  - apply (cderiv_rsum d (fun x j => Cmul (O i j) (mvec d (Y x) psi j))).
    intros j Hj. apply (cderiv_mul_const_l (fun x => mvec d (Y x) psi j)). apply (vderiv_mvec d Y t Y' psi HY j Hj).
Qed.

(* F(t) = <U(t) psi| O |U(t) psi>:  F' = <U' psi|O|U psi> + <U psi|O|U' psi>, any O and psi *)
Lemma expect_deriv d O psi U t U' : mderiv d U t U' ->
  cderiv (fun x => expect d O (U x) psi) t
         (Cadd (sesq d O psi U' (U t)) (sesq d O psi (U t) U')).
Proof. intro H. apply sesq_deriv; exact H. Qed.
