(* The generated multiplication tables (Gen/PauliTablesGen.v) against the 2x2 Pauli matrices.
   These lemmas are re-checked whenever OPERATOR_MAP / COEFF_MAP change in the source. *)
Require Import Coq.setoid_ring.Ring Coq.ZArith.ZArith Coq.Lists.List Coq.Strings.String Coq.Bool.Bool
  Coq.Arith.Arith Coq.micromega.Lia.
Require Import OQ.Base.Ring OQ.Base.Sums OQ.Base.Bits OQ.Base.Mat OQ.Gen.PauliTablesGen OQ.Pauli.Algebra
  OQ.Pauli.Den.
Import ListNotations.

(* the letters of the model are the non-identity entries of ALLOWED_OPERATORS *)
Lemma allowed_operators_letters : ALLOWED_OPERATORS = (map letter_str [PX; PY; PZ] ++ ["I"%string])%list.
Proof. reflexivity. Qed.

Lemma letter_str_roundtrip a : letter_of_str (letter_str a) = Some a.
Proof. destruct a; reflexivity. Qed.

Lemma letter_eqb_spec a b : reflect (a = b) (letter_eqb a b).
Proof. destruct a, b; constructor; congruence. Qed.

Section Tables.
  Variable K : cring.
  Add Ring Kring : (c_ring K).
  Local Open Scope cr_scope.

  (* no KeyError: every ordered pair of distinct letters has an entry in both tables *)
  Lemma tables_total (a b : letter) : a <> b ->
    exists l c, op_lookup a b = Some l /\ coeff_lookup K a b = Some c.
  Proof. destruct a, b; intro H; try congruence; vm_compute; eauto. Qed.

  (* sigma_a sigma_b = COEFF_MAP[ab] * sigma_{OPERATOR_MAP[a+b]} *)
  Lemma tables_distinct (a b : letter) : a <> b ->
    mat_eq 2 (mmul 2 (smat (Some a)) (smat (Some b)))
             (mscale (coeff_tab K a b) (smat (Some (op_tab a b)))).
  Proof.
    intros H i j Hi Hj. destruct a, b; try congruence;
      destruct i as [|[|]]; try lia; destruct j as [|[|]]; try lia;
      cbv -[cadd cmul csub copp c0 c1 ci car cconj]; ring [(i_sq K)].
  Qed.

  (* sigma_a sigma_a = I *)
  Lemma tables_square (a : letter) : mat_eq 2 (mmul 2 (smat (Some a)) (smat (Some a))) (@smat K None).
  Proof.
    intros i j Hi Hj. destruct a; destruct i as [|[|]]; try lia; destruct j as [|[|]]; try lia;
      cbv -[cadd cmul csub copp c0 c1 ci car cconj]; ring [(i_sq K)].
  Qed.

  Lemma smat_none_eye : mat_eq 2 (@smat K None) eye.
  Proof. intros i j Hi Hj. destruct i as [|[|]]; try lia; destruct j as [|[|]]; try lia; reflexivity. Qed.

  (* the third letter, and the tables are antisymmetric *)
  Lemma op_tab_third (a b : letter) : a <> b -> op_tab a b <> a /\ op_tab a b <> b.
  Proof. destruct a, b; intro H; try congruence; vm_compute; split; congruence. Qed.
End Tables.
