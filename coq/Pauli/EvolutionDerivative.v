(* C16, derivative clause: the factor-weighted sum of the expectations over the circuits returned by
   time_evolution_derivatives equals d/dt of the expectation under time_evolution with the same number of steps,
   for every register width, observable matrix O, vector psi, Hamiltonian and number of steps.
   Part 1 (this section): the statement for abstract blocks in any dimension (product rule + algebraic parameter shift).
   Part 2: the blocks of the model are E_P (evolve_term_all), their derivatives and shifted versions.
   Part 3: the circuits and factors of the model's [derivatives]. *)
Require Import Coq.Reals.Reals Coq.Lists.List Coq.Arith.Arith Coq.Bool.Bool Coq.micromega.Lia Coq.micromega.Lra
        Coq.QArith.QArith Coq.QArith.Qreals Coq.setoid_ring.Ring Coq.Classes.Morphisms Coq.Classes.RelationClasses
        Coq.Setoids.Setoid.
Require Import OQ.Base.Ring OQ.Base.Sums OQ.Base.Bits OQ.Base.Mat OQ.Base.MatLin OQ.Gates.CR OQ.Gates.Trig
        OQ.Pauli.Algebra OQ.Pauli.Den OQ.Circ.Circuit OQ.Circ.CircuitProofs OQ.Pauli.Evolution OQ.Pauli.EvolutionSem
        OQ.Pauli.EvolutionSmall OQ.Pauli.EvolutionProofs OQ.Pauli.EvolutionGeneral OQ.Pauli.MatCalculus.
Require Export OQ.Pauli.EvolutionCode.
Import ListNotations.

Local Notation Cadd := (@OQ.Base.Ring.cadd CRring).
Local Notation Cmul := (@cmul CRring).
Local Notation Copp := (@copp CRring).
Local Notation Cconj := (@cconj CRring).
Local Notation C0 := (@c0 CRring).
Local Notation C1 := (@c1 CRring).

(* ------------------------------------------------------------------ real scalars *)
Open Scope R_scope.
Definition rc (x : R) : CR := (x, 0).

Lemma rc_conj x : Cconj (rc x) = rc x.
Proof. unfold rc. cbv [cconj CRring crconj fst snd]. apply pair_eq; ring. Qed.
Lemma rc_0 : rc 0 = C0.
Proof. reflexivity. Qed.
Lemma rc_opp x : rc (- x) = Copp (rc x).
Proof. unfold rc. cbv [copp CRring cropp fst snd]. apply pair_eq; ring. Qed.

Definition s2 : CR := rc (/ sqrt 2).
Lemma s2_conj : Cconj s2 = s2.
Proof. apply rc_conj. Qed.
Lemma s2_sq : Cmul (Cmul s2 s2) (Cadd C1 C1) = C1.
Proof.
  unfold s2, rc. cbv [OQ.Base.Ring.cadd cmul c1 CRring cradd crmul cr1 fst snd]. pose proof isq2_sq' as H.
  apply pair_eq; [|ring]. ring_simplify. ring_simplify in H. lra.
Qed.
Close Scope R_scope.

(* ------------------------------------------------------------------ Part 1: abstract blocks *)
Section Trotter.
  Variable d : nat.
  Variable O : Mat CRring.
  Variable psi : Vec CRring.
  Variable t : R.
  Variable Bfs : list (R -> Mat CRring).      (* the blocks of one step, as functions of the total time *)
  Variable r : nat -> R.                      (* rate of block i *)
  Variables Dm Pm Mm : nat -> Mat CRring.     (* block i at angle + pi/2, + pi/4, - pi/4 *)
  Variable N : nat.                           (* number of steps *)

  Definition Bv : list (Mat CRring) := map (fun B : R -> Mat CRring => B t) Bfs.
  Definition Sf (x : R) : Mat CRring := prog_prod d (map (fun B : R -> Mat CRring => B x) Bfs).
  Definition Uf (x : R) : Mat CRring := prog_prod d (map (fun _ => Sf x) (seq 0 N)).
  Definition outer : list (Mat CRring) := map (fun _ : nat => prog_prod d Bv) (seq 0 N).
  (* the whole product with block i of step pos replaced by X *)
  Definition Vf (pos i : nat) (X : Mat CRring) : Mat CRring :=
    prog_prod d (subst pos (prog_prod d (subst i X Bv)) outer).

  Hypothesis HB : forall i, (i < List.length Bfs)%nat ->
    mderiv d (List.nth i Bfs (fun _ => eye)) t (mscale (K:=CRring) (rc (r i)) (Dm i)).
  Hypothesis HS : forall i, (i < List.length Bfs)%nat ->
    r i = 0%R \/
    (mat_eq d (Pm i) (mscale (K:=CRring) s2 (madd (List.nth i Bv eye) (Dm i))) /\
     mat_eq d (Mm i) (mscale (K:=CRring) s2 (madd (List.nth i Bv eye) (mscale (Copp C1) (Dm i))))).

  Definition dS : Mat CRring :=
    mlsum (seq 0 (List.length Bfs)) (fun i => prog_prod d (subst i (mscale (K:=CRring) (rc (r i)) (Dm i)) Bv)).
  Definition dU : Mat CRring := mlsum (seq 0 N) (fun pos => prog_prod d (subst pos dS outer)).

  Lemma Sf_deriv : mderiv d Sf t dS.
  Proof. exact (mderiv_prog_prod d t Bfs (fun i => mscale (K:=CRring) (rc (r i)) (Dm i)) HB). Qed.

  Lemma outer_length : List.length outer = N.
  Proof. unfold outer. rewrite map_length, seq_length. reflexivity. Qed.

  Lemma Uf_deriv : mderiv d Uf t dU.
  Proof.
    pose proof (mderiv_prog_prod d t (map (fun _ : nat => Sf) (seq 0 N)) (fun _ => dS)) as H.
    rewrite map_length, seq_length in H. rewrite map_map in H.
    eapply mderiv_compat; [| |apply H].
    - intro x. unfold Uf. rewrite map_map. apply mat_eq_refl.
    - apply mat_eq_refl.
    - intros j Hj.
      assert (E : List.nth j (map (fun _ : nat => Sf) (seq 0 N)) (fun _ => eye) = Sf).
      { assert (Hin : In (List.nth j (map (fun _ : nat => Sf) (seq 0 N)) (fun _ => eye)) (map (fun _ : nat => Sf) (seq 0 N))).
        { apply nth_In. rewrite map_length, seq_length. exact Hj. }
        apply in_map_iff in Hin. destruct Hin as [p [Hp _]]. symmetry. exact Hp. }
      rewrite E. exact Sf_deriv.
  Qed.

  Lemma Vf_ctx pos i : (pos < N)%nat -> (i < List.length Bfs)%nat -> lin_ctx d (Vf pos i).
  Proof.
    intros Hpos Hi. unfold Vf.
    apply (lin_ctx_comp CRring d (fun Y => prog_prod d (subst pos Y outer)) (fun X => prog_prod d (subst i X Bv))).
    - apply prog_prod_subst_ctx. rewrite outer_length. exact Hpos.
    - apply prog_prod_subst_ctx. unfold Bv. rewrite map_length. exact Hi.
  Qed.

  Lemma Vf_B pos i : Vf pos i (List.nth i Bv eye) = Uf t.
  Proof.
    unfold Vf. rewrite subst_nth.
    assert (E : prog_prod d Bv = List.nth pos outer (prog_prod d Bv)).
    { unfold outer. change (prog_prod d Bv) with ((fun _ : nat => prog_prod d Bv) 0%nat) at 3. rewrite map_nth. reflexivity. }
    rewrite E at 1. rewrite subst_nth. reflexivity.
  Qed.

  Lemma dU_form :
    mat_eq d dU (mlsum (seq 0 N) (fun pos => mlsum (seq 0 (List.length Bfs)) (fun i => mscale (K:=CRring) (rc (r i)) (Vf pos i (Dm i))))).
  Proof.
    unfold dU. apply mlsum_compat. intros pos Hpos. apply in_seq in Hpos.
    assert (Hc : lin_ctx d (fun Y => prog_prod d (subst pos Y outer))).
    { apply prog_prod_subst_ctx. rewrite outer_length. lia. }
    unfold dS. eapply mat_eq_trans; [apply (lin_ctx_mlsum CRring d _ _ _ Hc)|].
    apply mlsum_compat. intros i Hi. apply in_seq in Hi.
    apply (lin_ctx_mscale CRring d (Vf pos i)). apply Vf_ctx; lia.
  Qed.

  Lemma entry_identity pos i : (pos < N)%nat -> (i < List.length Bfs)%nat ->
    Cadd (Cmul (rc (r i)) (sesq d O psi (Vf pos i (Dm i)) (Uf t))) (Cmul (rc (r i)) (sesq d O psi (Uf t) (Vf pos i (Dm i))))
    = Cadd (Cmul (rc (r i)) (expect d O (Vf pos i (Pm i)) psi)) (Cmul (rc (- r i)) (expect d O (Vf pos i (Mm i)) psi)).
  Proof.
    intros Hpos Hi. destruct (HS i Hi) as [H0|[HP HM]].
    - rewrite H0, Ropp_0, rc_0. cr_ring.
    - pose proof (Vf_ctx pos i Hpos Hi) as Hc.
      rewrite (expect_compat CRring d O psi _ _ (lin_ctx_compat CRring d _ _ _ Hc HP)).
      rewrite (expect_compat CRring d O psi _ _ (lin_ctx_compat CRring d _ _ _ Hc HM)).
      pose proof (shift_identity CRring d O psi (Vf pos i) s2 (List.nth i Bv eye) (Dm i) Hc s2_conj s2_sq) as H.
      rewrite Vf_B in H. rewrite rc_opp.
      set (Ep := expect d O (Vf pos i (mscale (K:=CRring) s2 (madd (List.nth i Bv eye) (Dm i)))) psi) in *.
      set (Em := expect d O (Vf pos i (mscale (K:=CRring) s2 (madd (List.nth i Bv eye) (mscale (Copp C1) (Dm i))))) psi) in *.
      set (a := sesq d O psi (Vf pos i (Dm i)) (Uf t)) in *. set (b := sesq d O psi (Uf t) (Vf pos i (Dm i))) in *.
      transitivity (Cmul (rc (r i)) (@csub CRring Ep Em)); [rewrite H; cr_ring|cr_ring].
  Qed.

  (* the derivative of the expectation is the factor-weighted sum over the shifted products *)
  Theorem trotter_derivative :
    cderiv (fun x => expect d O (Uf x) psi) t
      (lsum (K:=CRring) (seq 0 N) (fun pos => lsum (K:=CRring) (seq 0 (List.length Bfs)) (fun i =>
         Cadd (Cmul (rc (r i)) (expect d O (Vf pos i (Pm i)) psi))
              (Cmul (rc (- r i)) (expect d O (Vf pos i (Mm i)) psi))))).
  Proof.
    eapply cderiv_eq; [|apply expect_deriv; exact Uf_deriv].
    rewrite (sesq_compat CRring d O psi _ _ _ _ dU_form (mat_eq_refl CRring d (Uf t))).
    rewrite (sesq_compat CRring d O psi _ _ _ _ (mat_eq_refl CRring d (Uf t)) dU_form).
    rewrite (sesq_mlsum_l CRring), (sesq_mlsum_r CRring), <- (lsum_add CRring).
    apply (lsum_ext CRring). intros pos Hpos. apply in_seq in Hpos.
    rewrite (sesq_mlsum_l CRring), (sesq_mlsum_r CRring), <- (lsum_add CRring).
    apply (lsum_ext CRring). intros i Hi. apply in_seq in Hi.
    rewrite (sesq_mscale_l CRring), (sesq_mscale_r CRring), rc_conj.
    apply entry_identity; lia.
  Qed.
End Trotter.

(* ------------------------------------------------------------------ Part 2: E_P, its derivative and its shifts *)
Open Scope R_scope.

Lemma cos_shift_half y : cos (y + PI / 2) = - sin y.
Proof. rewrite cos_plus, cos_PI2, sin_PI2. ring. Qed.
Lemma sin_shift_half y : sin (y + PI / 2) = cos y.
Proof. rewrite sin_plus, cos_PI2, sin_PI2. ring. Qed.

Lemma E_P_angle n l a b : a = b -> E_P n l a = E_P n l b.
Proof. intros ->. reflexivity. Qed.

(* E_P(theta + pi/4) = (E_P(theta) + E_P(theta + pi/2)) / sqrt 2 *)
Lemma E_P_shift_plus n l theta i j :
  E_P n l (theta + PI / 4) i j
  = mscale (K:=CRring) s2 (madd (E_P n l theta) (E_P n l (theta + PI / 2))) i j.
Proof.
  unfold E_P, madd, mscale, cphase, sphase, s2, rc. rewrite cos_shift_half, sin_shift_half.
  rewrite cos_plus, sin_plus, cos_PI4, sin_PI4.
  destruct (eye (K:=CRring) i j) as [e1 e2], (pprod (K:=CRring) n l i j) as [p1 p2].
  cbv [OQ.Base.Ring.cadd cmul CRring cradd crmul fst snd]. unfold Rdiv. apply pair_eq; ring.
Qed.

(* E_P(theta - pi/4) = (E_P(theta) - E_P(theta + pi/2)) / sqrt 2 *)
Lemma E_P_shift_minus n l theta i j :
  E_P n l (theta + - (PI / 4)) i j
  = mscale (K:=CRring) s2 (madd (E_P n l theta) (mscale (Copp C1) (E_P n l (theta + PI / 2)))) i j.
Proof.
  unfold E_P, madd, mscale, cphase, sphase, s2, rc. rewrite cos_shift_half, sin_shift_half.
  rewrite cos_plus, sin_plus, cos_neg, sin_neg, cos_PI4, sin_PI4.
  destruct (eye (K:=CRring) i j) as [e1 e2], (pprod (K:=CRring) n l i j) as [p1 p2].
  cbv [OQ.Base.Ring.cadd cmul copp c1 CRring cradd crmul cropp cr1 fst snd]. unfold Rdiv. apply pair_eq; ring.
Qed.

Lemma trig_lin_deriv a b k t :
  derivable_pt_lim (fun x => a * cos (x * k) + b * sin (x * k)) t (k * (a * - sin (t * k) + b * cos (t * k))).
Proof.
  assert (H1 : derivable_pt_lim (fun x => x * k) t k).
  { eapply dlim_eq; [|exact (derivable_pt_lim_mult id (fun _ => k) t 1 0 (derivable_pt_lim_id t) (derivable_pt_lim_const k t))].
    unfold id. ring. }
  assert (H2 : derivable_pt_lim (fun y => a * cos y + b * sin y) (t * k) (a * - sin (t * k) + b * cos (t * k))).
  { apply (derivable_pt_lim_plus (fun y => a * cos y) (fun y => b * sin y)).
    - apply (derivable_pt_lim_scal cos a). apply derivable_pt_lim_cos.
    - apply (derivable_pt_lim_scal sin b). apply derivable_pt_lim_sin. }
  eapply dlim_eq; [|exact (derivable_pt_lim_comp (fun x => x * k) (fun y => a * cos y + b * sin y) t _ _ H1 H2)].
  ring.
Qed.

(* d/dt E_P(t k) = k E_P(t k + pi/2), entrywise *)
Lemma E_P_deriv n l k t :
  mderiv (2 ^ n) (fun x => E_P n l (x * k)) t (mscale (K:=CRring) (rc k) (E_P n l (t * k + PI / 2))).
Proof.
  intros i j _ _. unfold E_P, madd, mscale, cphase, sphase, rc. rewrite cos_shift_half, sin_shift_half.
  destruct (eye (K:=CRring) i j) as [e1 e2], (pprod (K:=CRring) n l i j) as [p1 p2].
  split; cbv [OQ.Base.Ring.cadd cmul CRring cradd crmul fst snd].
  - eapply dlim_eq; [|eapply dlim_ext; [|exact (trig_lin_deriv e1 p2 k t)]]; [ring|]. intro x. cbv beta. ring.
  - eapply dlim_eq; [|eapply dlim_ext; [|exact (trig_lin_deriv e2 (- p1) k t)]]; [ring|]. intro x. cbv beta. ring.
Qed.

(* ------------------------------------------------------------------ the blocks of a Hamiltonian *)
Definition blockE (n : nat) (tm : hterm) (tau : R) : Mat CRring :=
  match tm with HTerm c l => E_P n l (tau * Q2R c) | _ => eye end.
Definition sblock (n : nat) (tm : hterm) (tau : R) (k : Z) : Mat CRring :=
  match tm with HTerm c l => E_P n l (tau * Q2R c + IZR k * (PI / 4)) | _ => eye end.
Definition dblock (n : nat) (tm : hterm) (tau : R) : Mat CRring :=
  match tm with HTerm c l => E_P n l (tau * Q2R c + PI / 2) | _ => eye end.
Definition rate (N : nat) (tm : hterm) : R := Q2R (coef_of tm) / INR N.
Definition hblocks (n N : nat) (h : list hterm) : list (R -> Mat CRring) :=
  map (fun tm x => blockE n tm (x / INR N)) h.

Lemma sblock_0 n tm tau : sblock n tm tau 0 = blockE n tm tau.
Proof. destruct tm; cbn [sblock blockE]; try reflexivity. apply E_P_angle. ring. Qed.

Lemma rate_const N tm : (forall c l, tm <> HTerm c l) -> rate N tm = 0.
Proof.
  intro H. unfold rate. destruct tm as [| |c l]; [| |exfalso; exact (H c l eq_refl)]; cbn [coef_of];
    rewrite RMicromega.Q2R_0; unfold Rdiv; ring.
Qed.

Lemma mscale_rc0 d (M : Mat CRring) : mat_eq d mzero (mscale (K:=CRring) (rc 0) M).
Proof. intros i j _ _. unfold mscale, mzero. rewrite rc_0. cr_ring. Qed.

Lemma block_deriv n N tm t :
  mderiv (2 ^ n) (fun x => blockE n tm (x / INR N)) t (mscale (K:=CRring) (rc (rate N tm)) (dblock n tm (t / INR N))).
Proof.
  destruct tm as [| |c l].
  - rewrite rate_const by discriminate. eapply mderiv_compat; [intro; apply mat_eq_refl|apply mscale_rc0|exact (mderiv_const (2 ^ n) eye t)].
  - rewrite rate_const by discriminate. eapply mderiv_compat; [intro; apply mat_eq_refl|apply mscale_rc0|exact (mderiv_const (2 ^ n) eye t)].
  - cbn [blockE dblock]. unfold rate. cbn [coef_of].
    eapply mderiv_compat; [| |exact (E_P_deriv n l (Q2R c / INR N) t)].
    + intro x. cbv beta. rewrite (E_P_angle n l (x * (Q2R c / INR N)) (x / INR N * Q2R c)) by (unfold Rdiv; ring). apply mat_eq_refl.
    + cbv beta. rewrite (E_P_angle n l (t * (Q2R c / INR N) + PI / 2) (t / INR N * Q2R c + PI / 2)) by (unfold Rdiv; ring). apply mat_eq_refl.
Qed.

Lemma hblocks_nth n N h i : List.nth i (hblocks n N h) (fun _ => eye) = (fun x => blockE n (List.nth i h HConst) (x / INR N)).
Proof.
  unfold hblocks. change (fun _ : R => eye (K:=CRring)) with ((fun tm x => blockE n tm (x / INR N)) HConst).
  rewrite map_nth. reflexivity.
Qed.

Lemma hblocks_Bv n N h t : Bv t (hblocks n N h) = map (fun tm => blockE n tm (t / INR N)) h.
Proof. unfold Bv, hblocks. rewrite map_map. reflexivity. Qed.

Lemma hblocks_Bv_nth n N h t i : List.nth i (Bv t (hblocks n N h)) eye = blockE n (List.nth i h HConst) (t / INR N).
Proof.
  rewrite hblocks_Bv. change (eye (K:=CRring)) with ((fun tm => blockE n tm (t / INR N)) HConst).
  rewrite map_nth. reflexivity.
Qed.

(* hypotheses of the abstract theorem *)
Lemma hblocks_HB n N h t i :
  mderiv (2 ^ n) (List.nth i (hblocks n N h) (fun _ => eye)) t
         (mscale (K:=CRring) (rc (rate N (List.nth i h HConst))) (dblock n (List.nth i h HConst) (t / INR N))).
Proof. rewrite hblocks_nth. apply block_deriv. Qed.

Lemma hblocks_HS n N h t i :
  rate N (List.nth i h HConst) = 0 \/
  (mat_eq (2 ^ n) (sblock n (List.nth i h HConst) (t / INR N) 1)
          (mscale (K:=CRring) s2 (madd (List.nth i (Bv t (hblocks n N h)) eye) (dblock n (List.nth i h HConst) (t / INR N)))) /\
   mat_eq (2 ^ n) (sblock n (List.nth i h HConst) (t / INR N) (-1))
          (mscale (K:=CRring) s2 (madd (List.nth i (Bv t (hblocks n N h)) eye)
                                       (mscale (Copp C1) (dblock n (List.nth i h HConst) (t / INR N)))))).
Proof.
  rewrite hblocks_Bv_nth. destruct (List.nth i h HConst) as [| |c l].
  - left. apply rate_const. discriminate.
  - left. apply rate_const. discriminate.
  - right. cbn [sblock blockE dblock]. split; intros a b _ _.
    + rewrite <- E_P_shift_plus. apply (f_equal (fun M : Mat CRring => M a b)). apply E_P_angle. ring.
    + rewrite <- E_P_shift_minus. apply (f_equal (fun M : Mat CRring => M a b)). apply E_P_angle. ring.
Qed.
Close Scope R_scope.

(* ------------------------------------------------------------------ Part 3: the circuits.  Changing the angle type *)
Lemma map_flat_map' {A B C} (g : B -> C) (f : A -> list B) (l : list A) :
  map g (flat_map f l) = flat_map (fun x => map g (f x)) l.
Proof. induction l as [|x l IH]; cbn [flat_map map]; [reflexivity|]. rewrite map_app, IH. reflexivity. Qed.

Section AngleMap.
  Variables P P' : Type.
  Variable f : P -> P'.

  Definition amap (o : eop P) : eop P' :=
    (match fst o with EH => EH | ERXh => ERXh | ERXhd => ERXhd | ECNOT => ECNOT | ERZ a => ERZ (f a) end, snd o).

  Lemma amap_basis_change l : map amap (basis_change l) = basis_change l.
  Proof.
    unfold basis_change. rewrite map_flat_map'. apply flat_map_ext. intros [k a]. cbn [fst snd]. destruct a; reflexivity.
  Qed.

  Lemma amap_basis_change_inv l : map amap (basis_change_inv l) = basis_change_inv l.
  Proof.
    unfold basis_change_inv. rewrite map_rev. f_equal.
    rewrite map_flat_map'. apply flat_map_ext. intros [k a]. cbn [fst snd]. destruct a; reflexivity.
  Qed.

  Lemma amap_ladder ks : map amap (cnot_ladder ks) = cnot_ladder ks.
  Proof.
    induction ks as [|a r IH]; [reflexivity|]. destruct r as [|b r']; [reflexivity|].
    change (cnot_ladder (P:=P) (a :: b :: r')) with ((ECNOT, [a; b]) :: cnot_ladder (P:=P) (b :: r')).
    change (cnot_ladder (P:=P') (a :: b :: r')) with ((ECNOT, [a; b]) :: cnot_ladder (P:=P') (b :: r')).
    cbn [map]. rewrite IH. reflexivity.
  Qed.

  Lemma amap_evolve_ops l a : map amap (evolve_ops l a) = evolve_ops l (f a).
  Proof.
    unfold evolve_ops. rewrite !map_app, map_rev, amap_basis_change, amap_ladder, amap_basis_change_inv. reflexivity.
  Qed.

  Lemma esem_amap {K : cring} (G : gmats K) (rz : P' -> Mat K) n c :
    esem G rz n (map amap c) = esem G (fun a => rz (f a)) n c.
  Proof.
    unfold esem. rewrite map_map. f_equal. apply map_ext. intros [g qs]. unfold espec, amap. cbn [fst snd].
    destruct g; reflexivity.
  Qed.
End AngleMap.
Arguments amap {P P'}.

(* meaning of the recorded angles: rationals, and rational + k * pi/2 *)
Definition sreal (a : sangle) : R := (Q2R (fst a) + IZR (snd a) * (PI / 2))%R.
Definition rz_s (a : sangle) : Mat CRring := cr_RZ (sreal a).
Definition rz_q (a : Q) : Mat CRring := cr_RZ (Q2R a).

(* ------------------------------------------------------------------ well-formed Hamiltonians *)
Definition twf (n : nat) (tm : hterm) : Prop :=
  match tm with
  | HConst => True
  | HImag => False
  | HTerm c l => keys_from 0 l /\ (forall k, In k (keys l) -> (k < n)%nat) /\ l <> []
  end.
Definition hwf (n : nat) (h : list hterm) : Prop := Forall (twf n) h.

Lemma hwf_nth n h j : hwf n h -> twf n (List.nth j h HConst).
Proof.
  intro H. destruct (Nat.lt_ge_cases j (List.length h)) as [Hj|Hj].
  - unfold hwf in H. rewrite Forall_forall in H. apply H. apply nth_In. exact Hj.
  - rewrite nth_overflow by exact Hj. exact I.
Qed.

(* ------------------------------------------------------------------ one term's circuit, any real angle *)
Lemma evolve_ops_wf n l (a : R) : keys_from 0 l -> (forall k, In k (keys l) -> (k < n)%nat) -> l <> [] ->
  Forall (fun o => wf_gate n (eapp gates_cr cr_RZ o)) (evolve_ops l a).
Proof.
  intros Hs Hb Hne.
  assert (Hpre : Forall (wfpre n) (evolve_pre (P:=R) l)) by (apply wfpre_pre; [exact Hs|apply Forall_forall; exact Hb]).
  assert (Hq : (last_qubit l < n)%nat).
  { apply Hb. unfold last_qubit. apply last_In. destruct l; [congruence|discriminate]. }
  rewrite evolve_ops_split.
  apply Forall_app. split; [|apply Forall_app; split].
  - eapply Forall_impl; [|exact Hpre]. intros o Ho. apply (wfpre_wf_gate R gates_cr cr_RZ n o Ho).
  - constructor; [|constructor]. unfold wf_gate, eapp. cbn [g_qs snd].
    repeat split; [discriminate|repeat constructor; intros []|repeat constructor; exact Hq].
  - rewrite post_is_inverse. apply Forall_rev. apply Forall_forall. intros o Ho. apply in_map_iff in Ho.
    destruct Ho as [o' [<- Ho']]. rewrite Forall_forall in Hpre. apply (wfpre_wf_gate R gates_cr cr_RZ n o' (Hpre o' Ho')).
Qed.

Lemma term_sem n l theta : keys_from 0 l -> (forall k, In k (keys l) -> (k < n)%nat) -> l <> [] ->
  mat_eq (2 ^ n) (esem gates_cr cr_RZ n (evolve_ops l (2 * theta)%R)) (E_P n l theta).
Proof.
  intros Hs Hb Hne. eapply mat_eq_trans; [apply mat_eq_sym; apply esem_is_to_unitary; apply evolve_ops_wf; assumption|].
  apply evolve_term_all; assumption.
Qed.

(* ------------------------------------------------------------------ the evolution circuit for real time *)
Definition evolve_term_R (tm : hterm) (tau : R) : list (eop R) :=
  match tm with HTerm c l => evolve_ops l (2 * tau * Q2R c)%R | _ => [] end.
Definition time_evolution_R (h : list hterm) (time : R) (steps : nat) : list (eop R) :=
  List.concat (flat_map (fun _ => map (fun tm => evolve_term_R tm (time / INR steps)%R) h) (seq 0 steps)).
Definition U_sem (n : nat) (h : list hterm) (steps : nat) (time : R) : Mat CRring :=
  esem gates_cr cr_RZ n (time_evolution_R h time steps).

Lemma evolve_term_R_sem n tm tau : twf n tm ->
  mat_eq (2 ^ n) (esem gates_cr cr_RZ n (evolve_term_R tm tau)) (blockE n tm tau).
Proof.
  destruct tm as [| |c l]; cbn [twf evolve_term_R blockE]; intro H; [apply mat_eq_refl|destruct H|].
  destruct H as (Hs & Hb & Hne). rewrite Rmult_assoc. apply term_sem; assumption.
Qed.

Lemma concat_flat_map_const {A B} (cs : list (list A)) (l : list B) :
  List.concat (flat_map (fun _ => cs) l) = List.concat (map (fun _ => List.concat cs) l).
Proof. induction l as [|x l IH]; cbn [flat_map map List.concat]; [reflexivity|]. rewrite concat_app, IH. reflexivity. Qed.

Lemma Forall2_map_in {A B C} (P : B -> C -> Prop) (f : A -> B) (g : A -> C) (l : list A) :
  (forall a, In a l -> P (f a) (g a)) -> Forall2 P (map f l) (map g l).
Proof.
  induction l as [|a l IH]; intro H; cbn [map]; constructor; [apply H; left; reflexivity|].
  apply IH. intros b Hb. apply H. right. exact Hb.
Qed.

Lemma Forall2_subst {A B} (P : A -> B -> Prop) (l : list A) (l' : list B) x x' : Forall2 P l l' -> P x x' ->
  forall j, Forall2 P (subst j x l) (subst j x' l').
Proof.
  intros H Hx. induction H as [|a b l l' Hab Hl IH]; intro j; destruct j as [|j]; cbn [subst]; constructor; auto.
Qed.

Lemma step_sem n h tau : hwf n h ->
  mat_eq (2 ^ n) (esem gates_cr cr_RZ n (List.concat (map (fun tm => evolve_term_R tm tau) h)))
         (prog_prod (2 ^ n) (map (fun tm => blockE n tm tau) h)).
Proof.
  intro H. eapply mat_eq_trans; [apply esem_concat|]. rewrite map_map. apply prog_prod_compat.
  apply Forall2_map_in. intros tm Htm. apply evolve_term_R_sem. unfold hwf in H. rewrite Forall_forall in H. apply H. exact Htm.
Qed.

Lemma U_sem_Uf n h N x : hwf n h -> mat_eq (2 ^ n) (U_sem n h N x) (Uf (2 ^ n) (hblocks n N h) N x).
Proof.
  intro H. unfold U_sem, time_evolution_R, Uf, Sf, hblocks. rewrite concat_flat_map_const.
  eapply mat_eq_trans; [apply esem_concat|]. rewrite !map_map. apply prog_prod_compat.
  apply Forall2_map_in. intros p _. apply step_sem. exact H.
Qed.

(* ------------------------------------------------------------------ the derivative circuits of the model *)
Definition ets (tm : hterm) (tau : Q) (k : Z) : list (eop sangle) :=
  match tm with HTerm c l => evolve_ops l ((2 * tau * c)%Q, k) | _ => [] end.

Lemma evolve_term_s_ets tm tau k : tm <> HImag -> evolve_term_s tm tau k = Some (ets tm tau k).
Proof. destruct tm; intro H; [reflexivity|congruence|reflexivity]. Qed.

Lemma Q2R_2 : Q2R 2 = 2%R.
Proof. unfold Q2R. cbn [Qnum Qden]. lra. Qed.

Lemma ets_sem n tm tau k : twf n tm ->
  mat_eq (2 ^ n) (esem gates_cr rz_s n (ets tm tau k)) (sblock n tm (Q2R tau) k).
Proof.
  destruct tm as [| |c l]; cbn [twf ets sblock]; intro H; [apply mat_eq_refl|destruct H|].
  destruct H as (Hs & Hb & Hne).
  change rz_s with (fun a : sangle => cr_RZ (sreal a)).
  rewrite <- (esem_amap sangle R sreal gates_cr cr_RZ), amap_evolve_ops.
  replace (sreal ((2 * tau * c)%Q, k)) with (2 * (Q2R tau * Q2R c + IZR k * (PI / 4)))%R.
  - apply term_sem; assumption.
  - unfold sreal. cbn [fst snd]. rewrite !Q2R_mult, Q2R_2. field.
Qed.

Definition tauQ (q : Q) (N : nat) : Q := (q / inject_Z (Z.of_nat N))%Q.

Lemma Q2R_inject_nat N : Q2R (inject_Z (Z.of_nat N)) = INR N.
Proof. rewrite INR_IZR_INZ. unfold Q2R, inject_Z. cbn [Qnum Qden]. field. Qed.

Lemma inject_nat_nz N : (1 <= N)%nat -> ~ (inject_Z (Z.of_nat N) == 0)%Q.
Proof. intro H. unfold Qeq, inject_Z. cbn [Qnum Qden]. lia. Qed.

Lemma tauQ_R q N : (1 <= N)%nat -> Q2R (tauQ q N) = (Q2R q / INR N)%R.
Proof. intro H. unfold tauQ. rewrite Q2R_div by (apply inject_nat_nz; exact H). rewrite Q2R_inject_nat. reflexivity. Qed.

Definition single_c (h : list hterm) (tau : Q) (i : nat) (s : Z) : list (eop sangle) :=
  List.concat (map (fun j => ets (List.nth j h HConst) tau (if Nat.eqb i j then s else 0%Z)) (seq 0 (List.length h))).
Definition rep_c (h : list hterm) (tau : Q) : list (eop sangle) := List.concat (map (fun tm => ets tm tau 0%Z) h).
Definition seq_c (rep diff : list (eop sangle)) (N pos : nat) : list (eop sangle) :=
  List.concat (map (fun p => if Nat.eqb p pos then diff else rep) (seq 0 N)).
Definition fac (h : list hterm) (N i : nat) (s : Z) : Q :=
  (coef_of (List.nth i h HConst) / inject_Z (Z.of_nat N) * inject_Z s)%Q.

Lemma fac_R h N i s : (1 <= N)%nat -> Q2R (fac h N i s) = (rate N (List.nth i h HConst) * IZR s)%R.
Proof.
  intro H. unfold fac, rate. rewrite Q2R_mult, Q2R_div by (apply inject_nat_nz; exact H). rewrite Q2R_inject_nat.
  f_equal. unfold Q2R, inject_Z. cbn [Qnum Qden]. field.
Qed.

Lemma single_derivatives_eq h q N : (forall j, List.nth j h HConst <> HImag) ->
  single_derivatives h q N
  = flat_map (fun i => map (fun s => (fac h N i s, Some (single_c h (tauQ q N) i s))) [1%Z; (-1)%Z]) (seq 0 (List.length h)).
Proof.
  intro H. unfold single_derivatives. cbv zeta. apply flat_map_ext. intro i. apply map_ext. intro s.
  apply pair_eq; [reflexivity|]. apply concat_opt_some. rewrite map_map. apply map_ext. intro j.
  apply evolve_term_s_ets. apply H.
Qed.

Lemma rep_eq h tau : (forall tm, In tm h -> tm <> HImag) ->
  concat_opt (map (fun tm => evolve_term_s tm tau 0%Z) h) = Some (rep_c h tau).
Proof.
  intro H. apply concat_opt_some. rewrite map_map. apply map_ext_in. intros tm Htm. apply evolve_term_s_ets. apply H. exact Htm.
Qed.

Lemma seq_circ_some (rep diff : list (eop sangle)) N pos :
  seq_circ (Some rep) (Some diff) N pos = Some (seq_c rep diff N pos).
Proof.
  unfold seq_circ. apply concat_opt_some. rewrite map_map. apply map_ext. intro p. destruct (Nat.eqb p pos); reflexivity.
Qed.

Lemma map_nth_seq {A B} (f : A -> B) (l : list A) dflt :
  map (fun j => f (List.nth j l dflt)) (seq 0 (List.length l)) = map f l.
Proof.
  induction l as [|a l IH]; cbn [List.length seq map]; [reflexivity|]. f_equal. rewrite <- seq_shift, map_map. exact IH.
Qed.

Lemma single_c_sem n h tau i s : hwf n h -> (i < List.length h)%nat ->
  mat_eq (2 ^ n) (esem gates_cr rz_s n (single_c h tau i s))
         (prog_prod (2 ^ n) (subst i (sblock n (List.nth i h HConst) (Q2R tau) s) (map (fun tm => blockE n tm (Q2R tau)) h))).
Proof.
  intros H Hi. unfold single_c. eapply mat_eq_trans; [apply esem_concat|]. rewrite map_map.
  rewrite <- (map_nth_seq (fun tm => blockE n tm (Q2R tau)) h HConst).
  rewrite <- (map_if_subst (fun j => blockE n (List.nth j h HConst) (Q2R tau)) _ (List.length h) 0 i Hi). cbn [Nat.add].
  apply prog_prod_compat. apply Forall2_map_in. intros j _.
  destruct (Nat.eqb_spec i j) as [<-|Hne].
  - rewrite Nat.eqb_refl. apply ets_sem. apply hwf_nth. exact H.
  - destruct (Nat.eqb_spec j i) as [E|_]; [congruence|]. rewrite <- sblock_0. apply ets_sem. apply hwf_nth. exact H.
Qed.

Lemma rep_c_sem n h tau : hwf n h ->
  mat_eq (2 ^ n) (esem gates_cr rz_s n (rep_c h tau)) (prog_prod (2 ^ n) (map (fun tm => blockE n tm (Q2R tau)) h)).
Proof.
  intro H. unfold rep_c. eapply mat_eq_trans; [apply esem_concat|]. rewrite map_map. apply prog_prod_compat.
  apply Forall2_map_in. intros tm Htm. rewrite <- sblock_0. apply ets_sem. unfold hwf in H. rewrite Forall_forall in H.
  apply H. exact Htm.
Qed.

Lemma seq_c_sem n rep diff N pos (X S : Mat CRring) : (pos < N)%nat ->
  mat_eq (2 ^ n) (esem gates_cr rz_s n rep) S -> mat_eq (2 ^ n) (esem gates_cr rz_s n diff) X ->
  mat_eq (2 ^ n) (esem gates_cr rz_s n (seq_c rep diff N pos))
         (prog_prod (2 ^ n) (subst pos X (map (fun _ : nat => S) (seq 0 N)))).
Proof.
  intros Hpos HS HX. unfold seq_c. eapply mat_eq_trans; [apply esem_concat|]. rewrite map_map.
  rewrite <- (map_if_subst (fun _ : nat => S) X N 0 pos Hpos). cbn [Nat.add].
  apply prog_prod_compat. apply Forall2_map_in. intros p _. destruct (Nat.eqb p pos); assumption.
Qed.

(* the circuit for (position, term, sign) is the whole product with that one block shifted by sign * pi/4 *)
Lemma deriv_circuit_sem n h q N pos i s : hwf n h -> (1 <= N)%nat -> (pos < N)%nat -> (i < List.length h)%nat ->
  mat_eq (2 ^ n) (esem gates_cr rz_s n (seq_c (rep_c h (tauQ q N)) (single_c h (tauQ q N) i s) N pos))
         (Vf (2 ^ n) (Q2R q) (hblocks n N h) N pos i (sblock n (List.nth i h HConst) (Q2R q / INR N) s)).
Proof.
  intros H HN Hpos Hi. unfold Vf, outer. rewrite hblocks_Bv, <- (tauQ_R q N HN).
  apply seq_c_sem; [exact Hpos|apply rep_c_sem; exact H|apply single_c_sem; assumption].
Qed.

Lemma single_circuit_sem n h q i s : hwf n h -> (i < List.length h)%nat ->
  mat_eq (2 ^ n) (esem gates_cr rz_s n (single_c h (tauQ q 1) i s))
         (Vf (2 ^ n) (Q2R q) (hblocks n 1 h) 1 0 i (sblock n (List.nth i h HConst) (Q2R q / INR 1) s)).
Proof.
  intros H Hi. unfold Vf, outer. cbn [seq map subst prog_prod]. rewrite mmul_eye_l_eq.
  rewrite hblocks_Bv, <- (tauQ_R q 1 (le_n 1)). apply single_c_sem; assumption.
Qed.

(* ------------------------------------------------------------------ the factor-weighted sum *)
Definition osem (n : nat) (c : option (list (eop sangle))) : Mat CRring :=
  match c with Some c => esem gates_cr rz_s n c | None => mzero end.
Definition dsum (n : nat) (O : Mat CRring) (psi : Vec CRring) (ds : list (Q * option (list (eop sangle)))) : CR :=
  lsum (K:=CRring) ds (fun fd => Cmul (rc (Q2R (fst fd))) (expect (2 ^ n) O (osem n (snd fd)) psi)).

Lemma lsum_flat_map {A B} (f : A -> list B) (l : list A) (g : B -> CR) :
  lsum (K:=CRring) (flat_map f l) g = lsum (K:=CRring) l (fun x => lsum (K:=CRring) (f x) g).
Proof.
  induction l as [|x l IH]; cbn [flat_map lsum]; [reflexivity|]. rewrite (lsum_app CRring), IH. reflexivity.
Qed.

Lemma hwf_no_imag n h : hwf n h -> forall j, List.nth j h HConst <> HImag.
Proof. intros H j E. pose proof (hwf_nth n h j H) as Hj. rewrite E in Hj. exact Hj. Qed.

Lemma hwf_no_imag_in n h : hwf n h -> forall tm, In tm h -> tm <> HImag.
Proof. intros H tm Htm E. unfold hwf in H. rewrite Forall_forall in H. specialize (H tm Htm). rewrite E in H. exact H. Qed.

(* the two entries (sign +1, sign -1) of one (position, term) *)
Lemma pair_entry (r : R) (f1 f2 : Q) (Ep Em Ep' Em' : CR) :
  Q2R f1 = (r * IZR 1)%R -> Q2R f2 = (r * IZR (-1))%R -> Ep = Ep' -> Em = Em' ->
  Cadd (Cmul (rc (Q2R f1)) Ep) (Cadd (Cmul (rc (Q2R f2)) Em) C0) = Cadd (Cmul (rc r) Ep') (Cmul (rc (- r)) Em').
Proof.
  intros -> -> -> ->. replace (r * IZR 1)%R with r by (simpl; ring). replace (r * IZR (-1))%R with (- r)%R by (simpl; ring).
  cr_ring.
Qed.

(* C16, derivative clause, for the model's [derivatives]: every width, Hamiltonian, number of steps, matrix O, vector psi *)
Theorem derivative_clause : forall n (h : list hterm) (N : nat) (O : Mat CRring) (psi : Vec CRring) (q : Q),
  hwf n h -> (1 <= N)%nat ->
  cderiv (fun x : R => expect (2 ^ n) O (U_sem n h N x) psi) (Q2R q) (dsum n O psi (derivatives h q N)).
Proof.
  intros n h N O psi q H HN.
  apply (cderiv_ext (fun x => expect (2 ^ n) O (Uf (2 ^ n) (hblocks n N h) N x) psi)).
  { intro x. symmetry. apply (expect_compat CRring). apply U_sem_Uf. exact H. }
  eapply cderiv_eq;
    [|apply (trotter_derivative (2 ^ n) O psi (Q2R q) (hblocks n N h) (fun i => rate N (List.nth i h HConst))
              (fun i => dblock n (List.nth i h HConst) (Q2R q / INR N))
              (fun i => sblock n (List.nth i h HConst) (Q2R q / INR N) 1)
              (fun i => sblock n (List.nth i h HConst) (Q2R q / INR N) (-1)) N);
      [intros i _; apply hblocks_HB|intros i _; apply hblocks_HS]].
  unfold hblocks at 1. rewrite map_length. symmetry.
  unfold derivatives. cbv zeta. rewrite (single_derivatives_eq h q N (hwf_no_imag n h H)).
  destruct (Nat.leb_spec N 1) as [Hle|Hgt].
  - assert (N = 1%nat) by lia. subst N. unfold dsum. cbn [seq lsum]. rewrite lsum_flat_map.
    match goal with |- ?a = Cadd ?b C0 => transitivity b; [|cr_ring] end.
    apply (lsum_ext CRring). intros i Hi. apply in_seq in Hi. cbn [map lsum fst snd osem].
    apply pair_entry; try (apply fac_R; exact HN); apply (expect_compat CRring); apply single_circuit_sem; try exact H; lia.
  - rewrite (rep_eq h _ (hwf_no_imag_in n h H)). unfold dsum. rewrite lsum_flat_map.
    apply (lsum_ext CRring). intros pos Hpos. apply in_seq in Hpos. rewrite (lsum_map CRring), lsum_flat_map.
    apply (lsum_ext CRring). intros i Hi. apply in_seq in Hi. cbn [map lsum fst snd]. rewrite !seq_circ_some. cbn [osem].
    apply pair_entry; try (apply fac_R; exact HN); apply (expect_compat CRring); apply deriv_circuit_sem; try exact H; lia.
Qed.

(* ------------------------------------------------------------------ every returned entry carries a circuit *)
Theorem derivatives_all_some : forall n (h : list hterm) (N : nat) (q : Q), hwf n h ->
  Forall (fun fd => snd fd <> None) (derivatives h q N).
Proof.
  intros n h N q H. unfold derivatives. cbv zeta. rewrite (single_derivatives_eq h q N (hwf_no_imag n h H)).
  apply Forall_forall. intros x Hx. destruct (Nat.leb N 1).
  - apply in_flat_map in Hx. destruct Hx as [i [_ Hx]]. apply in_map_iff in Hx. destruct Hx as [s [<- _]]. discriminate.
  - rewrite (rep_eq h _ (hwf_no_imag_in n h H)) in Hx.
    apply in_flat_map in Hx. destruct Hx as [pos [_ Hx]]. apply in_map_iff in Hx. destruct Hx as [fd [<- Hfd]].
    apply in_flat_map in Hfd. destruct Hfd as [i [_ Hfd]]. apply in_map_iff in Hfd. destruct Hfd as [s [<- _]].
    cbn [fst snd]. rewrite seq_circ_some. discriminate.
Qed.

(* ------------------------------------------------------------------ the real-time circuit is the model's at rational times *)
Definition etq (tm : hterm) (tau : Q) : list (eop Q) :=
  match tm with HTerm c l => evolve_ops l (2 * tau * c)%Q | _ => [] end.

Lemma evolve_term_etq tm tau : tm <> HImag -> evolve_term tm tau = Some (etq tm tau).
Proof. destruct tm; intro H; [reflexivity|congruence|reflexivity]. Qed.

Lemma etq_amap tm tau : map (amap Q2R) (etq tm tau) = evolve_term_R tm (Q2R tau).
Proof.
  destruct tm as [| |c l]; cbn [etq evolve_term_R map]; try reflexivity.
  rewrite amap_evolve_ops. f_equal. rewrite !Q2R_mult, Q2R_2. reflexivity.
Qed.

Theorem evolution_at_rational_time : forall n (h : list hterm) (N : nat) (q : Q), hwf n h -> (1 <= N)%nat ->
  exists c, time_evolution h q N = Some c /\
            map (amap Q2R) c = time_evolution_R h (Q2R q) N /\
            esem gates_cr rz_q n c = U_sem n h N (Q2R q).
Proof.
  intros n h N q H HN.
  assert (Hb : map (fun tm => evolve_term tm (q / inject_Z (Z.of_nat N))%Q) h = map Some (map (fun tm => etq tm (tauQ q N)) h)).
  { rewrite map_map. apply map_ext_in. intros tm Htm. apply evolve_term_etq. apply (hwf_no_imag_in n h H tm Htm). }
  exists (List.concat (flat_map (fun _ => map (fun tm => etq tm (tauQ q N)) h) (seq 0 N))).
  split; [apply time_evolution_blocks; exact Hb|].
  assert (E : map (amap Q2R) (List.concat (flat_map (fun _ => map (fun tm => etq tm (tauQ q N)) h) (seq 0 N)))
              = time_evolution_R h (Q2R q) N).
  { unfold time_evolution_R. rewrite concat_map, map_flat_map'. f_equal. apply flat_map_ext. intros _.
    rewrite map_map. apply map_ext. intro tm. rewrite etq_amap, (tauQ_R q N HN). reflexivity. }
  split; [exact E|]. unfold U_sem. rewrite <- E. rewrite (esem_amap Q R Q2R gates_cr cr_RZ). reflexivity.
Qed.

(* ------------------------------------------------------------------ constant terms: the code's factors are +c/N and -c/N
   (the model records 0 for them; Pauli/EvolutionCode.v: derivatives_g); the two circuits coincide, so the weighted sum is
   the same for ANY value kc i *)
Definition fac_g (kc : nat -> Q) (h : list hterm) (N i : nat) (s : Z) : Q :=
  (coef_g kc h i / inject_Z (Z.of_nat N) * inject_Z s)%Q.

Lemma single_derivatives_g_eq kc h q N : (forall j, List.nth j h HConst <> HImag) ->
  single_derivatives_g kc h q N
  = flat_map (fun i => map (fun s => (fac_g kc h N i s, Some (single_c h (tauQ q N) i s))) [1%Z; (-1)%Z]) (seq 0 (List.length h)).
Proof.
  intro H. unfold single_derivatives_g. cbv zeta. apply flat_map_ext. intro i. apply map_ext. intro s.
  apply pair_eq; [reflexivity|]. apply concat_opt_some. rewrite map_map. apply map_ext. intro j.
  apply evolve_term_s_ets. apply H.
Qed.

Lemma single_c_const h tau i s s' : (forall c l, List.nth i h HConst <> HTerm c l) -> single_c h tau i s = single_c h tau i s'.
Proof.
  intro H. unfold single_c. f_equal. apply map_ext. intro j. destruct (Nat.eqb_spec i j) as [<-|_]; [|reflexivity].
  destruct (List.nth i h HConst) as [| |c l]; [reflexivity|reflexivity|exfalso; exact (H c l eq_refl)].
Qed.

Lemma fac_g_R kc h N i s : (1 <= N)%nat -> Q2R (fac_g kc h N i s) = (Q2R (coef_g kc h i) / INR N * IZR s)%R.
Proof.
  intro H. unfold fac_g. rewrite Q2R_mult, Q2R_div by (apply inject_nat_nz; exact H). rewrite Q2R_inject_nat.
  f_equal. unfold Q2R, inject_Z. cbn [Qnum Qden]. field.
Qed.

(* one (position, term): the pair of entries has the same weighted sum with the general factors *)
Lemma pair_entry_g kc h N i (F : Z -> CR) : (1 <= N)%nat ->
  ((forall c l, List.nth i h HConst <> HTerm c l) -> F 1%Z = F (-1)%Z) ->
  Cadd (Cmul (rc (Q2R (fac_g kc h N i 1))) (F 1%Z)) (Cadd (Cmul (rc (Q2R (fac_g kc h N i (-1)))) (F (-1)%Z)) C0)
  = Cadd (Cmul (rc (Q2R (fac h N i 1))) (F 1%Z)) (Cadd (Cmul (rc (Q2R (fac h N i (-1)))) (F (-1)%Z)) C0).
Proof.
  intros HN HF. rewrite !fac_g_R, !fac_R by exact HN. unfold rate, coef_g, coef_of.
  destruct (List.nth i h HConst) as [| |c l] eqn:E; [| |reflexivity].
  - rewrite <- HF by (intros; discriminate). rewrite RMicromega.Q2R_0.
    set (a := (Q2R (kc i) / INR N)%R). replace (a * IZR (-1))%R with (- (a * IZR 1))%R by (simpl; ring).
    replace (0 / INR N * IZR 1)%R with 0%R by (unfold Rdiv; ring). replace (0 / INR N * IZR (-1))%R with 0%R by (unfold Rdiv; ring).
    rewrite rc_opp, rc_0. cr_ring.
  - rewrite <- HF by (intros; discriminate). rewrite RMicromega.Q2R_0.
    set (a := (Q2R (kc i) / INR N)%R). replace (a * IZR (-1))%R with (- (a * IZR 1))%R by (simpl; ring).
    replace (0 / INR N * IZR 1)%R with 0%R by (unfold Rdiv; ring). replace (0 / INR N * IZR (-1))%R with 0%R by (unfold Rdiv; ring).
    rewrite rc_opp, rc_0. cr_ring.
Qed.

Lemma dsum_derivatives_g kc n h N O psi q : hwf n h -> (1 <= N)%nat ->
  dsum n O psi (derivatives_g kc h q N) = dsum n O psi (derivatives h q N).
Proof.
  intros H HN. unfold derivatives_g, derivatives. cbv zeta.
  rewrite (single_derivatives_eq h q N (hwf_no_imag n h H)), (single_derivatives_g_eq kc h q N (hwf_no_imag n h H)).
  destruct (Nat.leb N 1).
  - unfold dsum. rewrite !lsum_flat_map. apply (lsum_ext CRring). intros i _. cbn [map lsum fst snd osem].
    apply (pair_entry_g kc h N i (fun s => expect (2 ^ n) O (esem gates_cr rz_s n (single_c h (tauQ q N) i s)) psi) HN).
    intro Hc. rewrite (single_c_const h (tauQ q N) i 1 (-1) Hc). reflexivity.
  - rewrite (rep_eq h _ (hwf_no_imag_in n h H)). unfold dsum. rewrite !lsum_flat_map.
    apply (lsum_ext CRring). intros pos _. rewrite !(lsum_map CRring), !lsum_flat_map.
    apply (lsum_ext CRring). intros i _. cbn [map lsum fst snd]. rewrite !seq_circ_some. cbn [osem].
    apply (pair_entry_g kc h N i
             (fun s => expect (2 ^ n) O (esem gates_cr rz_s n (seq_c (rep_c h (tauQ q N)) (single_c h (tauQ q N) i s) N pos)) psi) HN).
    intro Hc. rewrite (single_c_const h (tauQ q N) i 1 (-1) Hc). reflexivity.
Qed.

Theorem derivative_clause_g : forall (kc : nat -> Q) n (h : list hterm) (N : nat) (O : Mat CRring) (psi : Vec CRring) (q : Q),
  hwf n h -> (1 <= N)%nat ->
  cderiv (fun x : R => expect (2 ^ n) O (U_sem n h N x) psi) (Q2R q) (dsum n O psi (derivatives_g kc h q N)).
Proof.
  intros kc n h N O psi q H HN. rewrite (dsum_derivatives_g kc n h N O psi q H HN). apply derivative_clause; assumption.
Qed.

(* ------------------------------------------------------------------ exactly what the code returns: [derivatives_code] is None
   when the call raises (a zero real coefficient, or a rejected imaginary part), otherwise the returned list *)
Theorem derivative_clause_code : forall (kc : nat -> Q) n (h : list hterm) (N : nat) (O : Mat CRring) (psi : Vec CRring) (q : Q)
    (ds : list (Q * option (list (eop sangle)))),
  hwf n h -> (1 <= N)%nat -> derivatives_code kc h q N = Some ds ->
  cderiv (fun x : R => expect (2 ^ n) O (U_sem n h N x) psi) (Q2R q) (dsum n O psi ds).
Proof.
  intros kc n h N O psi q ds H HN E. destruct (derivatives_code_inv kc h q N ds E) as [-> _].
  apply derivative_clause_g; assumption.
Qed.

Lemma hwf_not_in_imag n h : hwf n h -> ~ In HImag h.
Proof. intros H Hin. exact (hwf_no_imag_in n h H HImag Hin eq_refl). Qed.

(* with the hypothesis "no coefficient is zero" visible: the call returns, and what it returns satisfies the clause *)
Theorem derivative_clause_code_nonzero : forall (kc : nat -> Q) n (h : list hterm) (N : nat) (O : Mat CRring) (psi : Vec CRring) (q : Q),
  hwf n h -> (1 <= N)%nat -> (forall i, (i < List.length h)%nat -> ~ (coef_g kc h i == 0)%Q) ->
  exists ds, derivatives_code kc h q N = Some ds /\
             Forall (fun fd => snd fd <> None) ds /\
             cderiv (fun x : R => expect (2 ^ n) O (U_sem n h N x) psi) (Q2R q) (dsum n O psi ds).
Proof.
  intros kc n h N O psi q H HN Hz. exists (derivatives_g kc h q N).
  pose proof (derivatives_code_some kc h q N Hz (hwf_not_in_imag n h H)) as E.
  split; [exact E|]. split; [|apply (derivative_clause_code kc n h N O psi q _ H HN E)].
  unfold derivatives_g. cbv zeta. rewrite (single_derivatives_g_eq kc h q N (hwf_no_imag n h H)).
  apply Forall_forall. intros x Hx. destruct (Nat.leb N 1).
  - apply in_flat_map in Hx. destruct Hx as [i [_ Hx]]. apply in_map_iff in Hx. destruct Hx as [s [<- _]]. discriminate.
  - rewrite (rep_eq h _ (hwf_no_imag_in n h H)) in Hx.
    apply in_flat_map in Hx. destruct Hx as [pos [_ Hx]]. apply in_map_iff in Hx. destruct Hx as [fd [<- Hfd]].
    apply in_flat_map in Hfd. destruct Hfd as [i [_ Hfd]]. apply in_map_iff in Hfd. destruct Hfd as [s [<- _]].
    cbn [fst snd]. rewrite seq_circ_some. discriminate.
Qed.

(* ------------------------------------------------------------------ the hypotheses are satisfiable *)
Definition example_h : list hterm := [HTerm 1 [(0%nat, PX)]; HTerm (1 # 2) [(0%nat, PZ); (1%nat, PZ)]].

Lemma example_hwf : hwf 2 example_h.
Proof.
  unfold hwf, example_h. constructor; [|constructor; [|constructor]]; cbn [twf keys_from keys map fst].
  - split; [split; [lia|exact I]|]. split; [|discriminate]. intros q [<-|[]]. lia.
  - split; [split; [lia|split; [lia|exact I]]|]. split; [|discriminate]. intros q [<-|[<-|[]]]; lia.
Qed.

Example derivative_clause_example : forall (O : Mat CRring) (psi : Vec CRring) (q : Q),
  cderiv (fun x : R => expect (2 ^ 2) O (U_sem 2 example_h 2 x) psi) (Q2R q) (dsum 2 O psi (derivatives example_h q 2)).
Proof. intros O psi q. apply derivative_clause; [exact example_hwf|lia]. Qed.

(* ------------------------------------------------------------------ every REAL time t (the model's time is rational, so here the
   right-hand side is written with the block matrices rather than with the model's circuits): the derivative is the
   sum over steps and terms of  (c_i/N) * ( <V+|O|V+> - <V-|O|V-> )  with term i of that step at angle +- pi/4 *)
Theorem derivative_clause_real_time : forall n (h : list hterm) (N : nat) (O : Mat CRring) (psi : Vec CRring) (t : R),
  hwf n h ->
  cderiv (fun x : R => expect (2 ^ n) O (U_sem n h N x) psi) t
    (lsum (K:=CRring) (seq 0 N) (fun pos => lsum (K:=CRring) (seq 0 (List.length h)) (fun i =>
       Cadd (Cmul (rc (rate N (List.nth i h HConst)))
                  (expect (2 ^ n) O (Vf (2 ^ n) t (hblocks n N h) N pos i (sblock n (List.nth i h HConst) (t / INR N) 1)) psi))
            (Cmul (rc (- rate N (List.nth i h HConst)))
                  (expect (2 ^ n) O (Vf (2 ^ n) t (hblocks n N h) N pos i (sblock n (List.nth i h HConst) (t / INR N) (-1))) psi))))).
Proof.
  intros n h N O psi t H.
  apply (cderiv_ext (fun x => expect (2 ^ n) O (Uf (2 ^ n) (hblocks n N h) N x) psi)).
  { intro x. symmetry. apply (expect_compat CRring). apply U_sem_Uf. exact H. }
  eapply cderiv_eq;
    [|apply (trotter_derivative (2 ^ n) O psi t (hblocks n N h) (fun i => rate N (List.nth i h HConst))
              (fun i => dblock n (List.nth i h HConst) (t / INR N))
              (fun i => sblock n (List.nth i h HConst) (t / INR N) 1)
              (fun i => sblock n (List.nth i h HConst) (t / INR N) (-1)) N);
      [intros i _; apply hblocks_HB|intros i _; apply hblocks_HS]].
  unfold hblocks at 1. rewrite map_length. reflexivity.
Qed.
