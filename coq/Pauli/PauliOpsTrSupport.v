(* Hand-written support for the GENERATED file Gen/PauliOpsGen.v (translator tr/tr_pauli_ops.py, property C03).

   The translator maps every Python statement / expression of the arithmetic methods of PauliTerm and PauliSum
   (operators/_pauli_operators.py) to a piece of Gallina built from the definitions below; next to each definition
   is the Python fact it encodes.  This file is the trusted reading of Python; it does not mention the hand-written
   model (Pauli/Algebra.v).  That the generated definitions equal the model is PROVED in Pauli/PauliOpsGenProofs.v.

   Values
     result A        outcome of an evaluation: a value, or a raised exception
     num P           Python numbers (int / float / complex) that are used as coefficients: elements of an arbitrary
                     commutative ring (Base/Ring.v); float rounding is not modelled
     Z               Python ints that are used as ints (qubit indices, powers, lengths)
     pydict          a dict int -> str, as its association list sorted by key (strictly increasing).  Python keeps
                     insertion order; every ITERATION over a dict, a dict view, a set or a frozenset therefore goes
                     through [py_unordered], an arbitrary order supplied from outside
     pyset           a set of ints: its strictly increasing list of elements
     pyitemset       a frozenset of (int, str) pairs with pairwise distinct first components: the sorted association
                     list (only the items of a dict are ever frozen)
     pyodict V       an OrderedDict keyed by such frozensets: association list in insertion order
     objects         instances of the translated classes are records GENERATED from the assignments self.x = ... of
                     __init__; they are never mutated after construction by translated code
     lists, tuples, generators      lists of their elements in iteration order, pairs

   Mutation.  `x[k] = v`, `del x[k]`, `x.append(v)`, `x[k].append(v)` are accepted for a local x only, and become a
   re-binding of x.  This is the meaning of Python's in-place update provided no other name refers to the same
   object; the translator checks the discipline that guarantees it (x bound to a fresh object; every escaping use
   of x after its last mutation). *)
Require Import Coq.ZArith.ZArith Coq.Lists.List Coq.Strings.String Coq.Bool.Bool Coq.Sorting.Permutation.
Require Import OQ.Base.Ring.
Import ListNotations.
Open Scope list_scope.

(* ------------------------------------------------------------------ exceptions and sequencing *)
(* NotTranslated: no library code runs (both operands of an operator are plain numbers) *)
Inductive pyexn := ValueError | KeyError | IndexError | TypeError | RecursionError | NotTranslated.

Inductive result (A : Type) : Type :=
| Ok (a : A)
| Raise (e : pyexn).
Arguments Ok {A}. Arguments Raise {A}.

(* evaluate r, then continue with its value; an exception propagates *)
Definition bind {A B} (r : result A) (f : A -> result B) : result B :=
  match r with Ok a => f a | Raise e => Raise e end.

(* for x in xs: body     (st holds the locals that the body re-binds; xs is already a list) *)
Fixpoint py_for {A S} (xs : list A) (st : S) (body : A -> S -> result S) : result S :=
  match xs with
  | [] => Ok st
  | x :: r => bind (body x st) (fun st' => py_for r st' body)
  end.

(* [e for x in xs] / (e for x in xs) / a generator function `for x in xs: yield e`, fully consumed:
   the elements are evaluated left to right, the first exception aborts *)
Fixpoint py_mapM {A B} (f : A -> result B) (l : list A) : result (list B) :=
  match l with
  | [] => Ok []
  | a :: r => bind (f a) (fun b => bind (py_mapM f r) (fun bs => Ok (b :: bs)))
  end.

(* ------------------------------------------------------------------ the environment of a run *)
Record pyenv : Type := mk_pyenv {
  py_ring : cring;                                          (* the numbers *)
  np_close : py_ring -> py_ring -> bool;                    (* np.isclose(a, b) and np.allclose(a, b) on scalars *)
  iter_order : nat -> forall A : Type, list A -> list A;    (* iteration order of an unordered collection at a site *)
  rec_limit : nat                                           (* frames available to a recursive function *)
}.
Definition num (P : pyenv) : Type := car (py_ring P).

(* the elements of a dict / dict view / set / frozenset, given as a list [l] in the order of the representation,
   in the order in which the iteration at program point [site] produces them *)
Definition py_unordered (P : pyenv) (site : nat) {A} (l : list A) : list A := iter_order P site A l.
(* what is known about that order: it enumerates the same elements *)
Definition order_ok (P : pyenv) : Prop := forall site A (l : list A), Permutation (iter_order P site A l) l.

(* ------------------------------------------------------------------ numbers *)
(* an int literal, or a float literal with integral value, used as a coefficient *)
Definition py_num_of_Z (P : pyenv) (z : Z) : num P := of_Z z.
Definition n_mul (P : pyenv) (a b : num P) : num P := cmul a b.           (* a * b *)
Definition n_add (P : pyenv) (a b : num P) : num P := cadd a b.           (* a + b *)
Definition n_neg (P : pyenv) (a : num P) : num P := copp a.               (* -a *)
Definition py_complex (P : pyenv) (a : num P) : num P := a.               (* complex(a): same value *)
(* sum(xs) over numbers: 0 + x1 + x2 + ... from the left *)
Definition py_sum_num (P : pyenv) (l : list (num P)) : num P := fold_left (n_add P) l (py_num_of_Z P 0).

(* ------------------------------------------------------------------ lists *)
Definition py_len {A} (l : list A) : Z := Z.of_nat (List.length l).
(* l[z]: negative indices count from the end, anything else out of range is an IndexError *)
Definition py_list_getitem {A} (l : list A) (z : Z) : result A :=
  let k := if Z.ltb z 0 then Z.add (py_len l) z else z in
  if Z.ltb k 0 then Raise IndexError
  else match nth_error l (Z.to_nat k) with Some a => Ok a | None => Raise IndexError end.
(* itertools.product(xs, ys): the rightmost argument advances fastest *)
Definition py_product {A B} (xs : list A) (ys : list B) : list (A * B) :=
  flat_map (fun x => map (fun y => (x, y)) ys) xs.
(* all(xs) on a list of bools *)
Definition py_all (l : list bool) : bool := forallb (fun b => b) l.
(* max(xs) on ints: ValueError on an empty argument *)
Definition py_max_Z (l : list Z) : result Z :=
  match l with [] => Raise ValueError | x :: r => Ok (fold_left Z.max r x) end.
(* s in [s1, s2, ...] for strings *)
Definition py_in_strs (s : string) (l : list string) : bool := existsb (String.eqb s) l.
(* T[k] for a module-level dict literal T given as the list of its items in source order (the last of several
   equal keys wins); KeyError when absent *)
Fixpoint py_table_find {A B} (eqb : A -> A -> bool) (k : A) (d : list (A * B)) : option B :=
  match d with
  | [] => None
  | (k', v) :: r => match py_table_find eqb k r with
                    | Some w => Some w
                    | None => if eqb k k' then Some v else None
                    end
  end.
Definition py_table_get {A B} (eqb : A -> A -> bool) (d : list (A * B)) (k : A) : result B :=
  match py_table_find eqb k d with Some v => Ok v | None => Raise KeyError end.

(* ------------------------------------------------------------------ dict int -> str *)
Definition pydict := list (Z * string).

Fixpoint py_dict_find (d : pydict) (k : Z) : option string :=
  match d with
  | [] => None
  | (k', v) :: r => if Z.eqb k k' then Some v else py_dict_find r k
  end.
(* k in d *)
Definition py_dict_contains (d : pydict) (k : Z) : bool :=
  match py_dict_find d k with Some _ => true | None => false end.
(* d[k] *)
Definition py_dict_getitem (d : pydict) (k : Z) : result string :=
  match py_dict_find d k with Some v => Ok v | None => Raise KeyError end.
(* d.get(k, default) *)
Definition py_dict_get (d : pydict) (k : Z) (default : string) : string :=
  match py_dict_find d k with Some v => v | None => default end.
(* d[k] = v *)
Fixpoint py_dict_set (d : pydict) (k : Z) (v : string) : pydict :=
  match d with
  | [] => [(k, v)]
  | (k', w) :: r => if Z.ltb k k' then (k, v) :: (k', w) :: r
                    else if Z.eqb k k' then (k', v) :: r
                    else (k', w) :: py_dict_set r k v
  end.
(* del d[k] *)
Fixpoint py_dict_remove (d : pydict) (k : Z) : pydict :=
  match d with
  | [] => []
  | (k', w) :: r => if Z.eqb k k' then py_dict_remove r k else (k', w) :: py_dict_remove r k
  end.
Definition py_dict_delitem (d : pydict) (k : Z) : result pydict :=
  if py_dict_contains d k then Ok (py_dict_remove d k) else Raise KeyError.
(* d.copy(): an equal dict (a distinct object: see "Mutation" above) *)
Definition py_dict_copy (d : pydict) : pydict := d.
(* d.keys(), d.values(), d.items(), and d itself as an iterable: to be iterated through py_unordered *)
Definition py_dict_keys (d : pydict) : list Z := map fst d.
Definition py_dict_values (d : pydict) : list string := map snd d.
Definition py_dict_items (d : pydict) : list (Z * string) := d.
(* {k: v for ...} / dict(pairs): the pairs are inserted in order *)
Definition py_dict_of_items (l : list (Z * string)) : pydict :=
  fold_left (fun d kv => py_dict_set d (fst kv) (snd kv)) l [].
(* d1 == d2: the same keys with the same values *)
Fixpoint py_dict_eqb (d1 d2 : pydict) : bool :=
  match d1, d2 with
  | [], [] => true
  | (k1, v1) :: r1, (k2, v2) :: r2 => Z.eqb k1 k2 && String.eqb v1 v2 && py_dict_eqb r1 r2
  | _, _ => false
  end.

(* ------------------------------------------------------------------ sets of ints *)
Definition pyset := list Z.
Fixpoint py_set_add (s : pyset) (x : Z) : pyset :=
  match s with
  | [] => [x]
  | y :: r => if Z.ltb x y then x :: y :: r else if Z.eqb x y then y :: r else y :: py_set_add r x
  end.
(* set(xs) *)
Definition py_set_of_list (l : list Z) : pyset := fold_left py_set_add l [].
(* the elements, to be iterated through py_unordered *)
Definition py_set_elems (s : pyset) : list Z := s.

(* ------------------------------------------------------------------ frozensets of dict items, OrderedDict *)
Definition pyitemset := pydict.
(* frozenset(pairs), for pairs with pairwise distinct first components *)
Definition py_itemset_of_list (l : list (Z * string)) : pyitemset := py_dict_of_items l.
(* a == b on such frozensets (also used for hashing: equal frozensets are the same key) *)
Definition py_itemset_eqb (a b : pyitemset) : bool := py_dict_eqb a b.

Definition pyodict (V : Type) := list (pyitemset * V).
(* OrderedDict() *)
Definition py_odict_empty {V} : pyodict V := [].
Fixpoint py_odict_find {V} (d : pyodict V) (k : pyitemset) : option V :=
  match d with
  | [] => None
  | (k', v) :: r => if py_itemset_eqb k k' then Some v else py_odict_find r k
  end.
(* k in d *)
Definition py_odict_contains {V} (d : pyodict V) (k : pyitemset) : bool :=
  match py_odict_find d k with Some _ => true | None => false end.
(* d[k] *)
Definition py_odict_getitem {V} (d : pyodict V) (k : pyitemset) : result V :=
  match py_odict_find d k with Some v => Ok v | None => Raise KeyError end.
(* d[k] = v: an existing key keeps its position, a new key goes to the end *)
Fixpoint py_odict_set {V} (d : pyodict V) (k : pyitemset) (v : V) : pyodict V :=
  match d with
  | [] => [(k, v)]
  | (k', w) :: r => if py_itemset_eqb k k' then (k', v) :: r else (k', w) :: py_odict_set r k v
  end.
(* d.values(): in insertion order *)
Definition py_odict_values {V} (d : pyodict V) : list V := map snd d.
