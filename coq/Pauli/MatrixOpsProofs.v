(* C09: hermitian_conjugated, is_hermitian, reverse_qubit_order and get_expectation_value against the denotation. *)
Require Import Coq.setoid_ring.Ring Coq.Lists.List Coq.Bool.Bool Coq.Arith.Arith Coq.micromega.Lia Coq.Sorting.Permutation.
Require Import OQ.Base.Ring OQ.Base.Sums OQ.Base.Bits OQ.Base.Mat OQ.Pauli.Algebra OQ.Pauli.Den OQ.Pauli.Matrix
  OQ.Pauli.SumProofs OQ.Pauli.OpsProofs OQ.Pauli.MatrixProofs OQ.Pauli.MatrixCooProofs.
Import ListNotations.

(* ------------------------------------------------------------------ bit reversal of an index *)
Definition brev (n x : nat) : nat := val (rev (bits n x)).

Lemma brev_lt n x : brev n x < 2 ^ n.
Proof. unfold brev. pose proof (val_rev_bound (bits n x)) as H. rewrite bits_length in H. exact H. Qed.

Lemma bits_brev n x : bits n (brev n x) = rev (bits n x).
Proof.
  unfold brev. pose proof (bits_val (rev (bits n x))) as H. rewrite rev_length, bits_length in H. exact H.
Qed.

Lemma brev_invol n x : x < 2 ^ n -> brev n (brev n x) = x.
Proof. intro H. unfold brev at 1. rewrite bits_brev, rev_involutive. apply val_bits_lt. exact H. Qed.

Lemma bitq_brev n q x : q < n -> bitq n q (brev n x) = bitq n (n - 1 - q) x.
Proof.
  intro Hq. unfold bitq. rewrite bits_brev, rev_nth by (rewrite bits_length; exact Hq).
  rewrite bits_length. f_equal. lia.
Qed.

Lemma map_rev_index n : map (fun q => n - 1 - q) (seq 0 n) = rev (seq 0 n).
Proof.
  induction n as [|n IH]; [reflexivity|].
  rewrite seq_S at 2. rewrite rev_app_distr. cbn [rev app Nat.add].
  cbn [seq map]. f_equal; [lia|]. rewrite <- seq_shift, map_map, <- IH. apply map_ext. intro q. lia.
Qed.

(* ------------------------------------------------------------------ dictionaries *)
Lemma lookup_some_in (l : ops) q a : lookup q l = Some a -> In (q, a) l.
Proof.
  induction l as [|[k b] r IH]; cbn [lookup]; [discriminate|].
  destruct (Nat.eqb_spec q k) as [->|Hne]; intro H; [injection H as ->; left; reflexivity|right; apply IH; exact H].
Qed.

Lemma lookup_in (l : ops) q a : NoDup (keys l) -> In (q, a) l -> lookup q l = Some a.
Proof.
  induction l as [|[k b] r IH]; intros Hnd Hin; [destruct Hin|].
  cbn [keys map fst] in Hnd. inversion Hnd as [|x xs Hnotin Hnd']; subst. cbn [lookup].
  destruct Hin as [E|Hin].
  - injection E as -> ->. rewrite Nat.eqb_refl. reflexivity.
  - destruct (Nat.eqb_spec q k) as [->|Hne]; [|apply IH; assumption].
    exfalso. apply Hnotin. apply (in_map fst) in Hin. exact Hin.
Qed.

Lemma keys_rev_ops n l : keys (rev_ops n l) = rev (map (fun k => n - 1 - k) (keys l)).
Proof. unfold rev_ops, keys. rewrite map_rev, !map_map. reflexivity. Qed.

Lemma in_rev_ops n l q a : In (q, a) (rev_ops n l) <-> exists k, In (k, a) l /\ q = n - 1 - k.
Proof.
  unfold rev_ops. rewrite <- in_rev, in_map_iff. split.
  - intros [[k b] [E Hin]]. cbn [fst snd] in E. injection E as <- <-. exists k. split; [exact Hin|reflexivity].
  - intros [k [Hin ->]]. exists (k, a). split; [reflexivity|exact Hin].
Qed.

Lemma NoDup_map_inj_on {A B} (g : A -> B) (l : list A) :
  (forall x y, In x l -> In y l -> g x = g y -> x = y) -> NoDup l -> NoDup (map g l).
Proof.
  intros Hinj Hnd. induction Hnd as [|x l Hx Hnd IH]; cbn [map]; [constructor|].
  constructor.
  - intro Hin. apply in_map_iff in Hin. destruct Hin as [y [E Hy]].
    assert (y = x) by (apply Hinj; [right; exact Hy|left; reflexivity|exact E]). subst. exact (Hx Hy).
  - apply IH. intros a b Ha Hb. apply Hinj; right; assumption.
Qed.

Lemma rev_ops_nodup n l : NoDup (keys l) -> (forall q, In q (keys l) -> q < n) -> NoDup (keys (rev_ops n l)).
Proof.
  intros Hnd Hfit. rewrite keys_rev_ops. apply NoDup_rev. apply NoDup_map_inj_on; [|exact Hnd].
  intros x y Hx Hy E. apply Hfit in Hx, Hy. lia.
Qed.

Lemma rev_ops_fits n l q : In q (keys (rev_ops n l)) -> 0 < n -> q < n.
Proof.
  rewrite keys_rev_ops, <- in_rev, in_map_iff. intros [k [<- _]] Hn. lia.
Qed.

Lemma lookup_rev_ops n l q : NoDup (keys l) -> (forall k, In k (keys l) -> k < n) -> q < n ->
  lookup q (rev_ops n l) = lookup (n - 1 - q) l.
Proof.
  intros Hnd Hfit Hq. destruct (lookup (n - 1 - q) l) as [a|] eqn:E.
  - apply lookup_in; [apply rev_ops_nodup; assumption|]. apply in_rev_ops. exists (n - 1 - q).
    split; [apply lookup_some_in; exact E|lia].
  - destruct (lookup q (rev_ops n l)) as [a|] eqn:E2; [|reflexivity]. exfalso.
    apply lookup_some_in, in_rev_ops in E2. destruct E2 as [k [Hin Hk]].
    assert (Hkn : k < n) by (apply Hfit; apply (in_map fst) in Hin; exact Hin).
    replace (n - 1 - q) with k in E by lia. rewrite (lookup_in l k a Hnd Hin) in E. discriminate.
Qed.

Lemma rev_ops_invol n l : (forall k, In k (keys l) -> k < n) -> rev_ops n (rev_ops n l) = l.
Proof.
  intro Hfit. unfold rev_ops. rewrite map_rev, rev_involutive, map_map. cbn [fst snd].
  rewrite <- (map_id l) at 2. apply map_ext_in. intros [k a] Hin. cbn [fst snd]. f_equal.
  assert (k < n) by (apply Hfit; apply (in_map fst) in Hin; exact Hin). lia.
Qed.

(* sortedness of an append, and of the reversed dictionary *)
Lemma ops_sorted_app l1 l2 : ops_sorted l1 -> ops_sorted l2 ->
  (forall k1 k2, In k1 (keys l1) -> In k2 (keys l2) -> k1 < k2) -> ops_sorted (l1 ++ l2).
Proof.
  induction l1 as [|[k a] r IH]; intros H1 H2 H; cbn [app]; [exact H2|].
  destruct H1 as [H1a H1b]. cbn [ops_sorted]. split.
  - intros k' Hk'. rewrite map_app in Hk'. apply in_app_or in Hk'. destruct Hk' as [Hk'|Hk'].
    + apply H1a. exact Hk'.
    + apply H; [left; reflexivity|exact Hk'].
  - apply IH; [exact H1b|exact H2|]. intros k1 k2 Hk1 Hk2. apply H; [right; exact Hk1|exact Hk2].
Qed.

Lemma rev_ops_sorted n l : ops_sorted l -> (forall k, In k (keys l) -> k < n) -> ops_sorted (rev_ops n l).
Proof.
  induction l as [|[k a] r IH]; intros Hs Hfit; [exact I|].
  destruct Hs as [Hs1 Hs2]. unfold rev_ops. cbn [map rev fst snd]. fold (rev_ops n r).
  apply ops_sorted_app.
  - apply IH; [exact Hs2|]. intros k' Hk'. apply Hfit. right. exact Hk'.
  - cbn. split; [intros k' []|exact I].
  - intros k1 k2 Hk1 Hk2. cbn in Hk2. destruct Hk2 as [<-|[]].
    rewrite keys_rev_ops, <- in_rev, in_map_iff in Hk1. destruct Hk1 as [k' [<- Hk']].
    specialize (Hs1 _ Hk'). assert (k' < n) by (apply Hfit; right; exact Hk'). lia.
Qed.

Section MatrixOpsProofs.
  Variable K : cring.
  Add Ring Kring : (c_ring K).
  Local Open Scope cr_scope.
  Variable is_zero : K -> bool.
  Hypothesis is_zero_exact : forall c, is_zero c = true -> c = c0.

  (* ---------------------------------------------------------------- "result += term" loops *)
  Lemma sden_app' n (s1 s2 : psum K) i j : sden n (s1 ++ s2) i j = sden n s1 i j + sden n s2 i j.
  Proof. unfold sden. apply lsum_app. Qed.

  Lemma sum_add_one_den n (acc : psum K) t i j : sden n (sum_add is_zero acc [t]) i j = sden n acc i j + den n t i j.
  Proof.
    unfold sum_add. rewrite (simplify_den_exact K is_zero is_zero_exact), sden_app'. unfold sden at 2. cbn [lsum]. ring.
  Qed.

  Lemma fold_add_den n {A} (g : A -> term K) (l : list A) : forall acc i j,
    sden n (fold_left (fun acc x => sum_add is_zero acc [g x]) l acc) i j
    = sden n acc i j + lsum l (fun x => den n (g x) i j).
  Proof.
    induction l as [|x l IH]; intros acc i j; cbn [fold_left lsum]; [ring|].
    rewrite IH, sum_add_one_den. ring.
  Qed.

  Lemma fold_add_ok n {A} (g : A -> term K) (l : list A) : forall acc,
    sum_ok n acc -> (forall x, In x l -> term_ok n (g x)) ->
    sum_ok n (fold_left (fun acc x => sum_add is_zero acc [g x]) l acc).
  Proof.
    induction l as [|x l IH]; intros acc Hacc Hg; cbn [fold_left]; [exact Hacc|].
    apply IH; [|intros y Hy; apply Hg; right; exact Hy].
    unfold sum_add. apply simplify_ok. apply Forall_app. split; [exact Hacc|].
    constructor; [apply Hg; left; reflexivity|constructor].
  Qed.

  Lemma fold_add_simplified {A} (g : A -> term K) (l : list A) : forall acc,
    distinct_ops acc -> distinct_ops (fold_left (fun acc x => sum_add is_zero acc [g x]) l acc).
  Proof.
    induction l as [|x l IH]; intros acc Hacc; cbn [fold_left]; [exact Hacc|].
    apply IH. unfold sum_add. apply simplify_simplified.
  Qed.

  (* ---------------------------------------------------------------- Pauli strings are Hermitian *)
  Lemma lprod_conj {A} (l : list A) (f : A -> K) : cconj (lprod l f) = lprod l (fun x => cconj (f x)).
  Proof. induction l as [|x l IH]; cbn [lprod]; [apply conj_1|]. rewrite conj_mul, IH. reflexivity. Qed.

  Lemma lsum_conj {A} (l : list A) (f : A -> K) : cconj (lsum l f) = lsum l (fun x => cconj (f x)).
  Proof. induction l as [|x l IH]; cbn [lsum]; [apply conj_0|]. rewrite conj_add, IH. reflexivity. Qed.

  Lemma sigma_herm (o : option letter) x y : cconj (@sigma K o y x) = sigma o x y.
  Proof.
    destruct o as [[| |]|]; destruct x, y; cbn;
      rewrite ?conj_0, ?conj_1, ?conj_opp, ?conj_1, ?conj_i; try reflexivity; ring.
  Qed.

  Lemma pprod_herm n l i j : cconj (@pprod K n l j i) = pprod n l i j.
  Proof. unfold pprod. rewrite lprod_conj. apply lprod_ext. intros q _. apply sigma_herm. Qed.

  Lemma term_conj_den n (t : term K) i j : den n (term_conj t) i j = adj (den n t) i j.
  Proof. unfold den, adj, term_conj. cbn [coef tops]. rewrite conj_mul, pprod_herm. reflexivity. Qed.

  (* hermitian_conjugated denotes the conjugate transpose (every entry, every register width) *)
  Theorem herm_conj_sden n (s : psum K) i j : sden n (herm_conj is_zero s) i j = adj (sden n s) i j.
  Proof.
    unfold herm_conj. rewrite fold_add_den. unfold sden at 1. cbn [lsum].
    unfold adj, sden. rewrite lsum_conj.
    transitivity (lsum s (fun t => den n (term_conj t) i j)); [ring|].
    apply lsum_ext. intros t _. apply term_conj_den.
  Qed.

  Theorem herm_conj_op_den n (a b : operand K) : herm_conj_op is_zero a = Some b ->
    forall i j, oden n b i j = adj (oden n a) i j.
  Proof.
    destruct a as [t|s|c]; cbn [herm_conj_op]; intro H; inversion H; subst; intros i j; cbn [oden].
    - apply term_conj_den.
    - apply herm_conj_sden.
  Qed.

  Lemma herm_conj_ok n (s : psum K) : sum_ok n s -> sum_ok n (herm_conj is_zero s).
  Proof.
    intro H. unfold herm_conj. apply fold_add_ok; [constructor|].
    intros t Ht. exact (proj1 (Forall_forall _ _) H t Ht).
  Qed.

  Lemma herm_conj_simplified (s : psum K) : distinct_ops (herm_conj is_zero s).
  Proof. unfold herm_conj. apply fold_add_simplified. constructor. Qed.

  (* ---------------------------------------------------------------- is_hermitian *)
  Variable keqb : K -> K -> bool.
  Hypothesis keqb_sound : forall a b, keqb a b = true -> a = b.

  Theorem is_hermitian_sound' n (a : operand K) : simplified_operand K a ->
    is_hermitian is_zero keqb a = Some true -> mat_eq (2 ^ n) (oden n a) (adj (oden n a)).
  Proof.
    intros Hsimp H. unfold is_hermitian in H. destruct (herm_conj_op is_zero a) as [b|] eqn:E; [|discriminate].
    injection H as H. intros i j Hi Hj. rewrite <- (herm_conj_op_den n a b E).
    apply (py_eq_sound K is_zero keqb is_zero_exact keqb_sound n a b); try assumption.
    destruct a as [t|s|c]; cbn [herm_conj_op] in E; inversion E; subst; cbn [simplified_operand]; [exact I|].
    apply herm_conj_simplified.
  Qed.

  (* the same for every operand: a sum that passes the test has as many terms as its (simplified) conjugate,
     hence no repeated term, hence is a permutation of it *)
  Theorem is_hermitian_sound_any n (a : operand K) :
    is_hermitian is_zero keqb a = Some true -> mat_eq (2 ^ n) (oden n a) (adj (oden n a)).
  Proof.
    destruct a as [t|s|c]; unfold is_hermitian; cbn [herm_conj_op py_eq]; intro H; [| |discriminate]; injection H as H;
      intros i j _ _; cbn [oden].
    - rewrite <- term_conj_den. apply (term_eqb_den K is_zero keqb is_zero_exact keqb_sound). exact H.
    - rewrite <- herm_conj_sden. set (h := herm_conj is_zero s) in *.
      unfold sum_eqb in H. apply andb_true_iff in H. destruct H as [H Hb]. apply andb_true_iff in H. destruct H as [Hl Ha].
      apply Nat.eqb_eq in Hl. apply (set_incl_incl K keqb keqb_sound) in Ha, Hb.
      assert (Hh : NoDup h) by (apply distinct_nodup; apply herm_conj_simplified).
      assert (Hs : NoDup s) by (apply (@NoDup_incl_NoDup _ h s Hh); [lia|exact Hb]).
      apply sden_perm. apply NoDup_Permutation; [exact Hs|exact Hh|]. intro t. split; [apply Ha|apply Hb].
  Qed.

  (* ---------------------------------------------------------------- reverse_qubit_order *)
  Lemma lprod_rev {A} (l : list A) (f : A -> K) : lprod (rev l) f = lprod l f.
  Proof.
    induction l as [|x l IH]; cbn [rev lprod]; [reflexivity|].
    rewrite lprod_app, IH. cbn [lprod]. ring.
  Qed.

  Lemma pprod_rev_ops n l x y : NoDup (keys l) -> (forall k, In k (keys l) -> k < n) ->
    @pprod K n (rev_ops n l) x y = pprod n l (brev n x) (brev n y).
  Proof.
    intros Hnd Hfit. unfold pprod at 2.
    rewrite <- (lprod_rev (seq 0 n)), <- map_rev_index, (lprod_map' K).
    unfold pprod. apply lprod_ext. intros q Hq. apply in_seq in Hq.
    rewrite lookup_rev_ops by (assumption || lia).
    rewrite !bitq_brev by lia. replace (n - 1 - (n - 1 - q))%nat with q by lia. reflexivity.
  Qed.

  Lemma rev_term_den n (t : term K) x y : NoDup (keys (tops t)) -> term_fits n t ->
    den n (rev_term n t) x y = den n t (brev n x) (brev n y).
  Proof. intros Hnd Hfit. unfold den, rev_term. cbn [coef tops]. rewrite pprod_rev_ops by assumption. reflexivity. Qed.

  Lemma term_ok_nodup' n (t : term K) : term_ok n t -> NoDup (keys (tops t)).
  Proof.
    intros [Hs _]. induction (tops t) as [|[k b] r IH]; cbn [keys map]; [constructor|].
    destruct Hs as [H1 H2]. constructor; [|apply IH; exact H2].
    intro Hin. specialize (H1 k Hin). cbn [fst] in H1. lia.
  Qed.

  Lemma rev_term_ok n (t : term K) : term_ok n t -> term_ok n (rev_term n t).
  Proof.
    intros [Hs Hfit]. split; cbn [rev_term tops].
    - apply rev_ops_sorted; assumption.
    - intros q Hq. cbn [rev_term tops] in Hq. destruct n as [|n].
      + exfalso. rewrite keys_rev_ops, <- in_rev, in_map_iff in Hq. destruct Hq as [k [_ Hk]].
        specialize (Hfit k Hk). lia.
      + apply (rev_ops_fits (S n) (tops t)); [exact Hq|lia].
  Qed.

  (* reversing once is the bit-reversal permutation of rows and columns *)
  Theorem reverse_terms_bitreversal n (s : psum K) x y : sum_ok n s ->
    sden n (reverse_terms is_zero n s) x y = sden n s (brev n x) (brev n y).
  Proof.
    intro Hok. unfold reverse_terms. rewrite fold_add_den. unfold sden at 1. cbn [lsum].
    transitivity (lsum s (fun t => den n (rev_term n t) x y)); [ring|].
    unfold sden. apply lsum_ext. intros t Ht.
    pose proof (proj1 (Forall_forall _ _) Hok t Ht) as Htok.
    apply rev_term_den; [apply (term_ok_nodup' n); exact Htok|apply Htok].
  Qed.

  Lemma reverse_terms_ok n (s : psum K) : sum_ok n s -> sum_ok n (reverse_terms is_zero n s).
  Proof.
    intro H. unfold reverse_terms. apply fold_add_ok; [constructor|].
    intros t Ht. apply rev_term_ok. exact (proj1 (Forall_forall _ _) H t Ht).
  Qed.

  (* reversing twice gives back the matrix *)
  Theorem reverse_terms_involutive n (s : psum K) : sum_ok n s ->
    mat_eq (2 ^ n) (sden n (reverse_terms is_zero n (reverse_terms is_zero n s))) (sden n s).
  Proof.
    intros Hok x y Hx Hy.
    rewrite reverse_terms_bitreversal by (apply reverse_terms_ok; exact Hok).
    rewrite reverse_terms_bitreversal by exact Hok.
    rewrite !brev_invol by assumption. reflexivity.
  Qed.

  Lemma sum_ok_width n (s : psum K) : sum_ok n s <-> sum_sorted s /\ sum_width s <= n.
  Proof.
    unfold sum_ok, sum_sorted. rewrite sum_width_terms. rewrite !Forall_forall. split.
    - intro H. split; intros t Ht; destruct (H t Ht) as [H1 H2]; [exact H1|apply term_width_fits; exact H2].
    - intros [H1 H2] t Ht. split; [apply H1; exact Ht|apply term_width_fits; apply H2; exact Ht].
  Qed.

  Theorem reverse_defined n (s : psum K) : sum_width s <= n ->
    reverse is_zero n s = Some (reverse_terms is_zero n s).
  Proof. intro H. unfold reverse. destruct (Nat.ltb_spec n (sum_width s)); [lia|reflexivity]. Qed.

  Theorem reverse_rejects n (s : psum K) : n < sum_width s -> reverse is_zero n s = None.
  Proof. intro H. unfold reverse. destruct (Nat.ltb_spec n (sum_width s)); [reflexivity|lia]. Qed.

  (* ---------------------------------------------------------------- get_expectation_value *)
  Variable nzb : K -> bool.                                  (* data != 0 inside get_sparse_operator *)
  Hypothesis nzb_false : forall x, nzb x = false -> x = c0.
  Hypothesis nzb_zero : nzb c0 = false.

  Lemma expectation_compat d (A B : Mat K) v : mat_eq d A B -> expectation d A v = expectation d B v.
  Proof.
    intro H. unfold expectation. apply rsum_ext. intros i Hi. f_equal. unfold mvec.
    apply rsum_ext. intros k Hk. rewrite H by assumption. reflexivity.
  Qed.

  (* <v| op |v> = sum_i sum_k conj(v_i) * den[i][k] * v_k  ([expectation] of the denoted matrix) *)
  Theorem expectation_form n (s : psum K) (v : Vec K) : sum_ok n s ->
    get_expectation nzb is_zero n s v false = Some (expectation (2 ^ n) (sden n s) v).
  Proof.
    intro Hok. apply sum_ok_width in Hok. destruct Hok as [Hs Hw].
    unfold get_expectation. destruct (get_sparse_den K nzb nzb_false nzb_zero n s Hs Hw) as [A [E HA]]. rewrite E.
    f_equal. apply expectation_compat. exact HA.
  Qed.

  Theorem expectation_form_reversed n (s : psum K) (v : Vec K) : sum_ok n s ->
    get_expectation nzb is_zero n s v true
    = Some (expectation (2 ^ n) (fun x y => sden n s (brev n x) (brev n y)) v).
  Proof.
    intro Hok. pose proof (reverse_terms_ok n s Hok) as Hrok.
    apply sum_ok_width in Hrok. destruct Hrok as [Hs Hw].
    unfold get_expectation. rewrite reverse_defined by (apply sum_ok_width in Hok; apply Hok).
    destruct (get_sparse_den K nzb nzb_false nzb_zero n _ Hs Hw) as [A [E HA]]. rewrite E.
    f_equal. apply expectation_compat. intros x y Hx Hy. rewrite HA by assumption.
    apply reverse_terms_bitreversal. exact Hok.
  Qed.

  Theorem expectation_rejects n (s : psum K) (v : Vec K) b : n < sum_width s -> get_expectation nzb is_zero n s v b = None.
  Proof.
    intro H. unfold get_expectation. destruct b.
    - rewrite reverse_rejects by exact H. reflexivity.
    - rewrite get_sparse_rejects by exact H. reflexivity.
  Qed.
End MatrixOpsProofs.
