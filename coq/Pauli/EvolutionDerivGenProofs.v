(* C16: the definitions GENERATED from time_evolution_derivatives and _generate_circuit_sequence (Gen/EvolutionGen.v,
   translator tr/tr_evolution.py) agree with Pauli/EvolutionCode.v's [derivatives_code], the model the derivative theorems
   of Props/C16.v are about.  Re-checked on every run against the freshly generated text.

   Numbers.  The source shifts the time by  factor * (np.pi / (4.0 * r)),  so the function is generated over a number
   structure with pi ([pynum_pi]); it is instantiated here with the real numbers ([num_Rpi]: np.pi = PI, exact
   arithmetic, decidable equality and order from the standard library).  The inputs of the model (rational coefficients
   and time) are embedded by Q2R; the model records the RZ angle of a shifted circuit as (a, k) : sangle meaning
   a + k * (pi/2) ([sreal]), and the proofs show that the angle the code computes,
        2 * ((time + factor * (pi / (4 * (c/n)))) / n) * c        with c <> 0,
   IS  2 * (time/n) * c + factor * (pi/2)  (lemma [shifted_angle]).

     derivatives_gen_is_code    for every Hamiltonian (sorted operator lists), rational time and steps >= 1:
                                derivatives_code = Some ds  ->  the generated function returns exactly the circuits
                                (angles through sreal) and factors (through Q2R) of ds, in the same order;
                                derivatives_code = None     ->  the generated function raises
     generated_derivative_clause the derivative clause (EvolutionDerivative.v) stated about what the GENERATED function returns
     derivatives_gen_zero_steps n_steps = 0: ([], []) for the empty Hamiltonian, ZeroDivisionError otherwise
     generate_sequence_spec     _generate_circuit_sequence, any number structure

   As in EvolutionGenProofs.v, generated items are referred to by names derived from the function names only. *)
Require Import Coq.ZArith.ZArith Coq.Lists.List Coq.Strings.String Coq.Bool.Bool Coq.Arith.Arith Coq.micromega.Lia
        Coq.micromega.Lra Coq.QArith.QArith Coq.QArith.Qabs Coq.Reals.Reals Coq.QArith.Qreals.
Require Import OQ.Base.Ring OQ.Base.Mat OQ.Gates.CR OQ.Pauli.Algebra OQ.Pauli.Den OQ.Circ.Circuit
        OQ.Pauli.Evolution OQ.Pauli.EvolutionSem OQ.Pauli.EvolutionSmall OQ.Pauli.EvolutionProofs OQ.Pauli.EvolutionGeneral
        OQ.Pauli.EvolutionCode OQ.Pauli.MatCalculus OQ.Pauli.EvolutionDerivative
        OQ.Pauli.EvolutionTrSupport OQ.Gen.EvolutionGen OQ.Pauli.EvolutionGenProofs.
Import ListNotations.
Close Scope Q_scope.
Open Scope R_scope.
Open Scope list_scope.

(* kept folded by cbn *)
Local Arguments circ_inverse : simpl never.
Local Arguments circ_add : simpl never.
Local Arguments circ_add_op : simpl never.
Local Arguments circ_empty : simpl never.
Local Arguments py_truediv : simpl never.
Local Arguments py_append : simpl never.
Local Arguments py_for : simpl never.
Local Arguments py_enumerate : simpl never.
Local Arguments py_range : simpl never.
Local Arguments py_zip : simpl never.
Local Arguments time_evolution_for_term_gen : simpl never.
Local Arguments time_evolution_gen : simpl never.
Local Arguments generate_circuit_sequence_gen : simpl never.
Local Arguments IZR : simpl never.
Local Arguments Q2R : simpl never.
Local Arguments Z.of_nat : simpl never.
Local Arguments Z.eqb : simpl never.
Local Arguments Z.ltb : simpl never.
Local Arguments Z.leb : simpl never.
Local Arguments Nat.eqb : simpl never.
Local Arguments py_num_eq_complex : simpl never.

Lemma bind_eq {A B} (r r' : result A) (f : A -> result B) : r = r' -> bind r f = bind r' f.
Proof. intros ->. reflexivity. Qed.
Lemma bind_ext {A B} (r : result A) (f g : A -> result B) : (forall a, f a = g a) -> bind r f = bind r g.
Proof. intro H. destruct r; [apply H|reflexivity]. Qed.
Lemma py_for_nil {A S} (st : S) (b : A -> S -> result S) : py_for [] st b = Ok st.
Proof. reflexivity. Qed.
Lemma py_for_cons {A S} x (r : list A) (st : S) (b : A -> S -> result S) :
  py_for (x :: r) st b = bind (b x st) (fun st' => py_for r st' b).
Proof. reflexivity. Qed.

(* the loop state at the head of a py_for, computed (setters and projections of the generated record) *)
Ltac norm_loop_state :=
  match goal with
  | |- context [py_for ?xs ?s ?b] =>
      let s1 := eval hnf in s in let s2 := eval cbn in s1 in change (py_for xs s b) with (py_for xs s2 b)
  end.

(* the operations of the real number structure, unfolded *)
Ltac rnum := cbn [num_Rpi num_R pn_base num n_int n_lit n_add n_mul n_div n_abs n_gtb n_is_zero n_eqb n_pi].

(* ------------------------------------------------------------------ rationals in the reals *)
Lemma Q2R_abs q : Q2R (Qabs q) = Rabs (Q2R q).
Proof.
  apply Qabs_case; intro H.
  - apply Qle_Rle in H. rewrite RMicromega.Q2R_0 in H. rewrite Rabs_right; [reflexivity|lra].
  - apply Qle_Rle in H. rewrite RMicromega.Q2R_0 in H. rewrite Q2R_opp, Rabs_left1; [reflexivity|exact H].
Qed.

Lemma Q2R_inject_Z z : Q2R (inject_Z z) = IZR z.
Proof. unfold Q2R, inject_Z. cbn [Qnum Qden]. field. Qed.

Lemma Q2R_4 : Q2R (4 # 1) = 4.
Proof. unfold Q2R. cbn [Qnum Qden]. lra. Qed.

Lemma IZR_steps_nz k : IZR (Z.of_nat (S k)) <> 0.
Proof. apply not_0_IZR. lia. Qed.

Lemma Q2R_nz q : ~ (q == 0)%Q -> Q2R q <> 0.
Proof. intros H E. apply H. apply eqR_Qeq. rewrite E, RMicromega.Q2R_0. reflexivity. Qed.

Lemma Q2R_z q : (q == 0)%Q -> Q2R q = 0.
Proof. intro H. rewrite (Qeq_eqR _ _ H). apply RMicromega.Q2R_0. Qed.

Lemma Z_eqb_of_nat i j : Z.eqb (Z.of_nat i) (Z.of_nat j) = Nat.eqb i j.
Proof.
  destruct (Nat.eqb_spec i j) as [->|H]; [apply Z.eqb_refl|]. apply Z.eqb_neq. lia.
Qed.

(* a / b in the reals *)
Lemma truediv_R (a b : R) : b <> 0 -> py_truediv num_R a b = Ok (a / b).
Proof.
  intro H. unfold py_truediv. cbn [num_R n_is_zero n_div]. destruct (Req_EM_T b 0) as [E|_]; [contradiction|reflexivity].
Qed.

Lemma truediv_R_zero (a b : R) : b = 0 -> py_truediv num_R a b = Raise ZeroDivisionError.
Proof.
  intro H. unfold py_truediv. cbn [num_R n_is_zero n_div]. destruct (Req_EM_T b 0) as [_|E]; [reflexivity|contradiction].
Qed.

(* ------------------------------------------------------------------ terms with rational data, in the reals *)
Definition pterm_R (t : pterm Q) : pterm R := mk_pterm (Q2R (t_re t)) (Q2R (t_im t)) (t_ops t).

(* what time_evolution_for_term does to a term of the model at a real time T *)
Definition term_circ_R (tm : hterm) (T : R) : result (circ R) :=
  match tm with
  | HConst => Ok []
  | HImag => Raise ValueError
  | HTerm c l => Ok (pyc (evolve_ops l (2 * T * Q2R c)))
  end.

Lemma term_gen_R (t : pterm Q) (T : R) : sorted_term t ->
  time_evolution_for_term_gen num_R (pterm_R t) T = term_circ_R (hterm_of t) T.
Proof.
  destruct t as [re im l]. unfold sorted_term, pterm_R. cbn [t_ops t_re t_im]. intro Hs.
  refine (eq_trans (term_gen_spec num_R (Q2R re) (Q2R im) T l Hs) _).
  unfold hterm_of, classify. cbn [t_re t_im t_ops]. destruct l as [|x r]; [reflexivity|].
  cbn [num_R n_gtb n_abs n_lit]. change (1 # 1000000000)%Q with imag_tol.
  destruct (Rlt_le_dec (Q2R imag_tol) (Rabs (Q2R im))) as [H|H];
    destruct (Qlt_le_dec imag_tol (Qabs im)) as [H'|H']; try reflexivity.
  - exfalso. apply Qle_Rle in H'. rewrite Q2R_abs in H'. lra.
  - exfalso. apply Qlt_Rlt in H'. rewrite Q2R_abs in H'. lra.
Qed.

(* the circuits of a list of evaluations, the first exception wins *)
Fixpoint concat_res {A} (l : list (result (list A))) : result (list A) :=
  match l with
  | [] => Ok []
  | r :: rest => bind r (fun x => bind (concat_res rest) (fun y => Ok (x ++ y)))
  end.

(* ------------------------------------------------------------------ the loops of time_evolution_derivatives, n_steps = k + 1 *)
Section Loops.
  Variable h : list (pterm Q).
  Variable time : R.
  Variable k : nat.
  Hypothesis Hsorted : Forall sorted_term h.
  Notation n := (IZR (Z.of_nat (S k))).
  Notation mk1 := (time_evolution_derivatives_S1_mk num_Rpi).

  (* the time passed for term j while the circuit for (term i, shift sh) is built *)
  Definition Tsel (i : nat) (sh : R) (j : nat) : R := if Nat.eqb i j then (time + sh) / n else time / n.

  (* for j, term_2 in enumerate(terms): output += time_evolution_for_term(term_2, ...) -- one execution *)
  Lemma L3_step i j (t : pterm Q) o r ofs sh std : sorted_term t ->
    time_evolution_derivatives_L3_body num_Rpi (Z.of_nat i) time (Z.of_nat (S k)) (Z.of_nat j) (pterm_R t)
      (mk1 (Some o) r ofs (Some sh) std)
    = bind (term_circ_R (hterm_of t) (Tsel i sh j)) (fun c => Ok (mk1 (Some (o ++ c)) r ofs (Some sh) std)).
  Proof.
    intro Ht. unfold time_evolution_derivatives_L3_body, Tsel. rnum. rewrite Z_eqb_of_nat.
    cbn. destruct (Nat.eqb i j); rewrite truediv_R by apply IZR_steps_nz; cbn;
      rewrite (term_gen_R t _ Ht); destruct (term_circ_R (hterm_of t) _); reflexivity.
  Qed.

  Definition tcs (i : nat) (sh : R) (j0 : nat) (ts : list (pterm Q)) : list (result (circ R)) :=
    map (fun jt => term_circ_R (hterm_of (snd jt)) (Tsel i sh (fst jt))) (combine (seq j0 (List.length ts)) ts).

  Lemma L3_loop i sh : forall (ts : list (pterm Q)) j0 o r ofs std, Forall sorted_term ts ->
    py_for (py_enumerate_from (Z.of_nat j0) (map pterm_R ts)) (mk1 (Some o) r ofs (Some sh) std)
           (py_unpack2 (time_evolution_derivatives_L3_body num_Rpi (Z.of_nat i) time (Z.of_nat (S k))))
    = bind (concat_res (tcs i sh j0 ts)) (fun c => Ok (mk1 (Some (o ++ c)) r ofs (Some sh) std)).
  Proof.
    induction ts as [|t ts IH]; intros j0 o r ofs std Hs.
    - cbn [map py_enumerate_from]. rewrite py_for_nil. unfold tcs. cbn [List.length seq combine map concat_res bind].
      rewrite app_nil_r. reflexivity.
    - inversion Hs as [|? ? Ht Hts]; subst. cbn [map py_enumerate_from]. rewrite py_for_cons.
      unfold py_unpack2 at 1. cbn [fst snd]. rewrite (L3_step i j0 t o r ofs sh std Ht).
      unfold tcs. cbn [List.length seq combine map concat_res fst snd].
      destruct (term_circ_R (hterm_of t) (Tsel i sh j0)) as [c|e]; cbn [bind]; [|reflexivity].
      replace (Z.of_nat j0 + 1)%Z with (Z.of_nat (S j0)) by lia. rewrite (IH (S j0) _ r ofs std Hts).
      fold (tcs i sh (S j0) ts). destruct (concat_res (tcs i sh (S j0) ts)) as [y|e]; cbn [bind]; [|reflexivity].
      rewrite app_assoc. reflexivity.
  Qed.

  (* r = term_1.coefficient.real / n_steps,  shift = factor * (np.pi / (4.0 * r)) *)
  Definition rr (t : pterm Q) : R := Q2R (t_re t) / n.
  Definition shift_of (t : pterm Q) (f : R) : R := f * (PI / (Q2R (4 # 1) * rr t)).

  (* for factor in factors: ... -- one execution, for term_1 = t at position i *)
  Lemma L2_step i (t : pterm Q) f o r ofs sh std :
    time_evolution_derivatives_L2_body num_Rpi (pterm_R t) (Z.of_nat (S k)) (map pterm_R h) (Z.of_nat i) time f
      (mk1 o r ofs sh std)
    = if Req_EM_T (Q2R (4 # 1) * rr t) 0 then Raise ZeroDivisionError
      else bind (concat_res (tcs i (shift_of t f) 0 h))
             (fun c => Ok (mk1 (Some c) (Some (rr t)) (ofs ++ [rr t * f]) (Some (shift_of t f)) (std ++ [c]))).
  Proof.
    unfold time_evolution_derivatives_L2_body. rnum. cbn [t_re pterm_R].
    cbn. destruct (py_num_eq_complex _ _ _); cbn; rewrite truediv_R by apply IZR_steps_nz; cbn;
      fold (rr t); unfold py_truediv; cbn [num_R n_is_zero n_div];
      (destruct (Req_EM_T (Q2R (4 # 1) * rr t) 0) as [E|E]; [reflexivity|]); cbn;
      unfold py_enumerate; change 0%Z with (Z.of_nat 0);
      norm_loop_state; fold (shift_of t f); unfold circ_empty; rewrite (L3_loop i (shift_of t f) h 0 _ _ _ _ Hsorted);
      cbn [app]; unfold py_append;
      (destruct (concat_res (tcs i (shift_of t f) 0 h)) as [c|e]; cbn; [|reflexivity]); reflexivity.
  Qed.

  (* the circuit for (term i = t, factor f) *)
  Definition single_R (i : nat) (t : pterm Q) (f : R) : result (circ R) := concat_res (tcs i (shift_of t f) 0 h).
  (* the factors as the source writes them: 1.0 and -1.0 *)
  Definition fz (s : Z) : R := Q2R (inject_Z s).

  Notation L2b i t := (time_evolution_derivatives_L2_body num_Rpi (pterm_R t) (Z.of_nat (S k)) (map pterm_R h) (Z.of_nat i) time).

  Lemma L2_loop_ok i t (C : R -> circ R) : Q2R (4 # 1) * rr t <> 0 ->
    forall sl : list Z, (forall s, In s sl -> single_R i t (fz s) = Ok (C (fz s))) ->
    forall o r ofs sh std, exists o' r' sh',
      py_for (map fz sl) (mk1 o r ofs sh std) (L2b i t)
      = Ok (mk1 o' r' (ofs ++ map (fun s => rr t * fz s) sl) sh' (std ++ map (fun s => C (fz s)) sl)).
  Proof.
    intro Hnz. induction sl as [|s sl IH]; intros HC o r ofs sh std.
    - exists o, r, sh. cbn [map]. rewrite py_for_nil, !app_nil_r. reflexivity.
    - cbn [map]. rewrite py_for_cons, L2_step. destruct (Req_EM_T (Q2R (4 # 1) * rr t) 0) as [E|_]; [contradiction|].
      fold (single_R i t (fz s)). rewrite (HC s (or_introl eq_refl)). cbn [bind].
      destruct (IH (fun s' Hs' => HC s' (or_intror Hs')) (Some (C (fz s))) (Some (rr t)) (ofs ++ [rr t * fz s])
                   (Some (shift_of t (fz s))) (std ++ [C (fz s)])) as (o' & r' & sh' & E).
      exists o', r', sh'. refine (eq_trans E _). rewrite <- !app_assoc. reflexivity.
  Qed.

  Lemma L2_loop_zero i t f fs o r ofs sh std : Q2R (4 # 1) * rr t = 0 ->
    py_for (f :: fs) (mk1 o r ofs sh std) (L2b i t) = Raise ZeroDivisionError.
  Proof.
    intro Hz. rewrite py_for_cons, L2_step. destruct (Req_EM_T (Q2R (4 # 1) * rr t) 0) as [_|E]; [reflexivity|contradiction].
  Qed.

  Lemma L2_loop_raise i t f fs e o r ofs sh std : Q2R (4 # 1) * rr t <> 0 -> single_R i t f = Raise e ->
    py_for (f :: fs) (mk1 o r ofs sh std) (L2b i t) = Raise e.
  Proof.
    intros Hnz He. rewrite py_for_cons, L2_step. destruct (Req_EM_T (Q2R (4 # 1) * rr t) 0) as [E|_]; [contradiction|].
    fold (single_R i t f). rewrite He. reflexivity.
  Qed.

  (* for i, term_1 in enumerate(terms): for factor in factors: ... *)
  Notation L1b sl := (py_unpack2 (time_evolution_derivatives_L1_body num_Rpi (map fz sl) (Z.of_nat (S k)) (map pterm_R h) time)).
  Definition idx_of (i0 : nat) (ts : list (pterm Q)) (sl : list Z) : list ((nat * pterm Q) * Z) :=
    flat_map (fun it => map (fun s => (it, s)) sl) (combine (seq i0 (List.length ts)) ts).

  Lemma L1_step sl i t st :
    L1b sl (Z.of_nat i, pterm_R t) st = py_for (map fz sl) st (L2b i t).
  Proof. reflexivity. Qed.

  Lemma L1_loop_ok sl (C : nat -> pterm Q -> R -> circ R) : forall (ts : list (pterm Q)) i0,
    (forall t, In t ts -> Q2R (4 # 1) * rr t <> 0) ->
    (forall i t s, single_R i t (fz s) = Ok (C i t (fz s))) ->
    forall o r ofs sh std, exists o' r' sh',
      py_for (py_enumerate_from (Z.of_nat i0) (map pterm_R ts)) (mk1 o r ofs sh std) (L1b sl)
      = Ok (mk1 o' r' (ofs ++ map (fun x => rr (snd (fst x)) * fz (snd x)) (idx_of i0 ts sl)) sh'
                (std ++ map (fun x => C (fst (fst x)) (snd (fst x)) (fz (snd x))) (idx_of i0 ts sl))).
  Proof.
    induction ts as [|t ts IH]; intros i0 Hnz HC o r ofs sh std.
    - exists o, r, sh. cbn [map py_enumerate_from]. rewrite py_for_nil. unfold idx_of. cbn [List.length seq combine flat_map map].
      rewrite !app_nil_r. reflexivity.
    - cbn [map py_enumerate_from]. rewrite py_for_cons. unfold py_unpack2 at 1. cbn [fst snd]. unfold time_evolution_derivatives_L1_body at 1.
      destruct (L2_loop_ok i0 t (C i0 t) (Hnz t (or_introl eq_refl)) sl (fun s _ => HC i0 t s) o r ofs sh std)
        as (o1 & r1 & sh1 & E1).
      rewrite (bind_eq _ _ _ E1). cbn [bind]. replace (Z.of_nat i0 + 1)%Z with (Z.of_nat (S i0)) by lia.
      destruct (IH (S i0) (fun t' Ht' => Hnz t' (or_intror Ht')) HC o1 r1 (ofs ++ map (fun s => rr t * fz s) sl) sh1
                   (std ++ map (fun s => C i0 t (fz s)) sl)) as (o' & r' & sh' & E).
      exists o', r', sh'. refine (eq_trans E _). unfold idx_of. cbn [List.length seq combine flat_map].
      rewrite !map_app, !map_map. cbn [fst snd]. rewrite <- !app_assoc. reflexivity.
  Qed.

  (* the first term raises *)
  Lemma L1_first_zero sl s t ts o r ofs sh std : Q2R (4 # 1) * rr t = 0 ->
    py_for (py_enumerate_from (Z.of_nat 0) (map pterm_R (t :: ts))) (mk1 o r ofs sh std) (L1b (s :: sl)) = Raise ZeroDivisionError.
  Proof.
    intro Hz. cbn [map py_enumerate_from]. rewrite py_for_cons. unfold py_unpack2 at 1. cbn [fst snd]. unfold time_evolution_derivatives_L1_body at 1. cbn [map]. rewrite L2_loop_zero by exact Hz. reflexivity.
  Qed.

  Lemma L1_first_raise sl s t ts e o r ofs sh std : Q2R (4 # 1) * rr t <> 0 -> single_R 0 t (fz s) = Raise e ->
    py_for (py_enumerate_from (Z.of_nat 0) (map pterm_R (t :: ts))) (mk1 o r ofs sh std) (L1b (s :: sl)) = Raise e.
  Proof.
    intros Hnz He. cbn [map py_enumerate_from]. rewrite py_for_cons. unfold py_unpack2 at 1. cbn [fst snd]. unfold time_evolution_derivatives_L1_body at 1. cbn [map].
    rewrite (L2_loop_raise 0 t (fz s) (map fz sl) e) by assumption. reflexivity.
  Qed.

  (* a later term has a zero coefficient and no call of time_evolution_for_term raises *)
  Lemma L1_loop_zero sl s (C : nat -> pterm Q -> R -> circ R) : forall (ts : list (pterm Q)) i0,
    (exists t, In t ts /\ Q2R (4 # 1) * rr t = 0) ->
    (forall i t s', single_R i t (fz s') = Ok (C i t (fz s'))) ->
    forall o r ofs sh std,
      py_for (py_enumerate_from (Z.of_nat i0) (map pterm_R ts)) (mk1 o r ofs sh std) (L1b (s :: sl)) = Raise ZeroDivisionError.
  Proof.
    induction ts as [|t ts IH]; intros i0 [tz [Hin Hz]] HC o r ofs sh std; [destruct Hin|].
    cbn [map py_enumerate_from]. rewrite py_for_cons. unfold py_unpack2 at 1. cbn [fst snd]. unfold time_evolution_derivatives_L1_body at 1.
    destruct (Req_EM_T (Q2R (4 # 1) * rr t) 0) as [E|E].
    - cbn [map]. rewrite L2_loop_zero by exact E. reflexivity.
    - destruct (L2_loop_ok i0 t (C i0 t) E (s :: sl) (fun s' _ => HC i0 t s') o r ofs sh std) as (o1 & r1 & sh1 & E1).
      rewrite (bind_eq _ _ _ E1). cbn [bind]. replace (Z.of_nat i0 + 1)%Z with (Z.of_nat (S i0)) by lia.
      apply IH; [|exact HC]. destruct Hin as [<-|Hin]; [contradiction|]. exists tz. split; assumption.
  Qed.
End Loops.

(* ------------------------------------------------------------------ the circuits of the single derivatives *)
Definition circ_of (tm : hterm) (T : R) : circ R :=
  match tm with HTerm c l => pyc (evolve_ops l (2 * T * Q2R c)) | _ => [] end.

Lemma term_circ_R_ok tm T : tm <> HImag -> term_circ_R tm T = Ok (circ_of tm T).
Proof. destruct tm; intro H; [reflexivity|congruence|reflexivity]. Qed.

Lemma concat_res_ok {A} (cs : list (list A)) : concat_res (map Ok cs) = Ok (List.concat cs).
Proof. induction cs as [|c cs IH]; [reflexivity|]. cbn [map concat_res bind List.concat]. rewrite IH. reflexivity. Qed.

Lemma concat_res_map_ok {A B} (F : B -> result (list A)) (G : B -> list A) (l : list B) :
  (forall x, In x l -> F x = Ok (G x)) -> concat_res (map F l) = Ok (List.concat (map G l)).
Proof.
  induction l as [|x l IH]; intro H; [reflexivity|]. cbn [map concat_res List.concat].
  rewrite (H x (or_introl eq_refl)). cbn [bind]. rewrite IH by (intros y Hy; apply H; right; exact Hy). reflexivity.
Qed.

Lemma concat_res_raise {A} e (l : list (result (list A))) :
  (forall r, In r l -> (exists c, r = Ok c) \/ r = Raise e) -> In (Raise e) l -> concat_res l = Raise e.
Proof.
  induction l as [|r l IH]; intros Hall Hin; [destruct Hin|]. cbn [concat_res].
  destruct (Hall r (or_introl eq_refl)) as [[c ->]| ->]; [|reflexivity]. cbn [bind].
  destruct Hin as [E|Hin]; [discriminate|]. rewrite IH; [reflexivity| |exact Hin].
  intros r' Hr'. apply Hall. right. exact Hr'.
Qed.

Lemma In_combine_seq {A} (l : list A) x : forall j0, In x l -> exists j, In (j, x) (combine (seq j0 (List.length l)) l).
Proof.
  induction l as [|y l IH]; intros j0 H; [destruct H|]. cbn [List.length seq combine]. destruct H as [->|H].
  - exists j0. left. reflexivity.
  - destruct (IH (S j0) H) as [j Hj]. exists j. right. exact Hj.
Qed.

Definition single_val (h : list (pterm Q)) (time : R) (k : nat) (i : nat) (t : pterm Q) (f : R) : circ R :=
  List.concat (map (fun jt => circ_of (hterm_of (snd jt)) (Tsel time k i (shift_of k t f) (fst jt)))
                   (combine (seq 0 (List.length h)) h)).

Lemma single_R_ok h time k i t f : (forall t', In t' h -> hterm_of t' <> HImag) ->
  single_R h time k i t f = Ok (single_val h time k i t f).
Proof.
  intro Hni. unfold single_R, single_val, tcs. apply concat_res_map_ok.
  intros [j t'] Hin. cbn [fst snd]. apply term_circ_R_ok. apply Hni.
  apply in_combine_r in Hin. exact Hin.
Qed.

Lemma single_R_imag h time k i t f : (exists t', In t' h /\ hterm_of t' = HImag) ->
  single_R h time k i t f = Raise ValueError.
Proof.
  intros [t' [Hin Him]]. unfold single_R, tcs. apply concat_res_raise.
  - intros r Hr. apply in_map_iff in Hr. destruct Hr as [[j t''] [<- _]]. cbn [fst snd].
    destruct (hterm_of t''); cbn [term_circ_R]; [left; eexists; reflexivity|right; reflexivity|left; eexists; reflexivity].
  - apply in_map_iff. destruct (In_combine_seq h t' 0%nat Hin) as [j Hj].
    exists (j, t'). cbn [fst snd]. rewrite Him. split; [reflexivity|exact Hj].
Qed.

(* ------------------------------------------------------------------ time_evolution with one step, in the reals *)
Lemma evolution_L2_step_R (T : R) (t : pterm Q) acc : sorted_term t ->
  time_evolution_L2_body num_R T 1%Z (pterm_R t) (time_evolution_S1_mk num_R acc)
  = bind (term_circ_R (hterm_of t) (T / IZR 1)) (fun c => Ok (time_evolution_S1_mk num_R (acc ++ c))).
Proof.
  intro Ht. unfold time_evolution_L2_body. cbn [num_R n_int]. rewrite truediv_R by (apply not_0_IZR; lia). cbn [bind].
  rewrite (term_gen_R t _ Ht). destruct (term_circ_R (hterm_of t) (T / IZR 1)); reflexivity.
Qed.

Lemma evolution_inner_R (T : R) : forall (ts : list (pterm Q)) acc, Forall sorted_term ts ->
  py_for (map pterm_R ts) (time_evolution_S1_mk num_R acc) (time_evolution_L2_body num_R T 1%Z)
  = bind (concat_res (map (fun t => term_circ_R (hterm_of t) (T / IZR 1)) ts))
         (fun c => Ok (time_evolution_S1_mk num_R (acc ++ c))).
Proof.
  induction ts as [|t ts IH]; intros acc Hs.
  - cbn [map concat_res bind]. rewrite py_for_nil, app_nil_r. reflexivity.
  - inversion Hs as [|? ? Ht Hts]; subst. cbn [map concat_res]. rewrite py_for_cons, (evolution_L2_step_R T t acc Ht).
    destruct (term_circ_R (hterm_of t) (T / IZR 1)) as [c|e]; cbn [bind]; [|reflexivity].
    rewrite (IH _ Hts). destruct (concat_res _) as [y|e]; cbn [bind]; [|reflexivity]. rewrite app_assoc. reflexivity.
Qed.

Lemma evolution_gen_R_one (h : list (pterm Q)) (T : R) : Forall sorted_term h ->
  time_evolution_gen num_R (map pterm_R h) T "Trotter" 1%Z
  = concat_res (map (fun t => term_circ_R (hterm_of t) (T / IZR 1)) h).
Proof.
  intro Hs. unfold time_evolution_gen. cbv zeta. change (String.eqb "Trotter" "Trotter") with true. cbn [negb].
  unfold py_range. change (Z.to_nat 1) with 1%nat. cbn [seq map]. rewrite py_for_cons.
  unfold time_evolution_L1_body at 1, ham_terms, circ_empty.
  refine (eq_trans (bind_eq _ _ _ (bind_eq _ _ _ (evolution_inner_R T h [] Hs))) _).
  destruct (concat_res _) as [c|e]; cbn [bind]; [|reflexivity]. rewrite py_for_nil. cbn. reflexivity.
Qed.

(* ------------------------------------------------------------------ _generate_circuit_sequence and the second loop nest *)
Lemma generate_sequence_spec (N : pynum) (rep d : circ (num N)) (len pos : Z) :
  generate_circuit_sequence_gen N rep d len pos =
  if Z.leb len pos then Raise ValueError
  else Ok (List.concat (map (fun i => if Z.eqb i pos then d else rep) (py_range len))).
Proof.
  unfold generate_circuit_sequence_gen, circ_of_operations, py_list, py_chain, circ_operations.
  destruct (Z.leb len pos); [reflexivity|]. do 2 f_equal. apply map_ext. intro i. destruct (Z.eqb i pos); reflexivity.
Qed.

Definition gseq {A} (rep d : list A) (N pos : nat) : list A :=
  List.concat (map (fun p => if Nat.eqb p pos then d else rep) (seq 0 N)).

Lemma gseq_Z {A} (rep d : list A) N pos :
  List.concat (map (fun i => if Z.eqb i (Z.of_nat pos) then d else rep) (py_range (Z.of_nat N))) = gseq rep d N pos.
Proof.
  unfold gseq, py_range. rewrite Nat2Z.id, map_map. f_equal. apply map_ext. intro p. rewrite Z_eqb_of_nat. reflexivity.
Qed.

Section Second.
  Variable rep : circ R.
  Variable N : nat.
  Notation mk4 := (time_evolution_derivatives_S4_mk num_Rpi).

  Lemma L5_step pos (f : R) (d : circ R) oc ff : (pos < N)%nat ->
    time_evolution_derivatives_L5_body num_Rpi rep (Z.of_nat N) (Z.of_nat pos) f d (mk4 oc ff)
    = Ok (mk4 (oc ++ [gseq rep d N pos]) (ff ++ [f])).
  Proof.
    intro Hp. unfold time_evolution_derivatives_L5_body. rnum. rewrite generate_sequence_spec.
    replace (Z.leb (Z.of_nat N) (Z.of_nat pos)) with false by (symmetry; apply Z.leb_gt; lia).
    match goal with |- bind (bind (Ok ?c) _) _ = _ => replace c with (gseq rep d N pos) by (symmetry; apply gseq_Z) end.
    cbn. unfold py_append. reflexivity.
  Qed.

  Lemma L5_loop pos : (pos < N)%nat -> forall (zs : list (R * circ R)) oc ff,
    py_for zs (mk4 oc ff) (py_unpack2 (time_evolution_derivatives_L5_body num_Rpi rep (Z.of_nat N) (Z.of_nat pos)))
    = Ok (mk4 (oc ++ map (fun z => gseq rep (snd z) N pos) zs) (ff ++ map fst zs)).
  Proof.
    intro Hp. induction zs as [|[f d] zs IH]; intros oc ff.
    - rewrite py_for_nil. cbn [map]. rewrite !app_nil_r. reflexivity.
    - rewrite py_for_cons. unfold py_unpack2 at 1. cbn [fst snd]. rewrite (L5_step pos f d oc ff Hp). cbn [bind].
      rewrite IH. cbn [map fst snd]. rewrite <- !app_assoc. reflexivity.
  Qed.

  Lemma L4_loop (facs : list R) (std : list (circ R)) : forall poss, Forall (fun p => (p < N)%nat) poss -> forall oc ff,
    py_for (map Z.of_nat poss) (mk4 oc ff) (time_evolution_derivatives_L4_body num_Rpi facs std rep (Z.of_nat N))
    = Ok (mk4 (oc ++ flat_map (fun pos => map (fun z => gseq rep (snd z) N pos) (combine facs std)) poss)
              (ff ++ flat_map (fun _ => map fst (combine facs std)) poss)).
  Proof.
    induction poss as [|p poss IH]; intros Hp oc ff.
    - cbn [map flat_map]. rewrite py_for_nil, !app_nil_r. reflexivity.
    - inversion Hp as [|? ? Hp1 Hp2]; subst. cbn [map flat_map]. rewrite py_for_cons.
      unfold time_evolution_derivatives_L4_body at 1, py_zip. rewrite (L5_loop p Hp1). cbn [bind].
      rewrite (IH Hp2). rewrite <- !app_assoc. reflexivity.
  Qed.
End Second.

(* ------------------------------------------------------------------ the model's entries as Python values *)
Definition kc_pt (h : list (pterm Q)) : nat -> Q := fun i => t_re (List.nth i h (mk_pterm 0%Q 0%Q [])).
Definition emb_circ (c : list (eop sangle)) : circ R := pyc (map (amap sreal) c).
Definition emb_entry (fd : Q * option (list (eop sangle))) : circ R :=
  match snd fd with Some c => emb_circ c | None => [] end.
(* the returned pair (circuits, factors) *)
Definition emb_ds (ds : list (Q * option (list (eop sangle)))) : list (circ R) * list R :=
  (map emb_entry ds, map (fun fd => Q2R (fst fd)) ds).

Lemma emb_circ_concat (ls : list (list (eop sangle))) : emb_circ (List.concat ls) = List.concat (map emb_circ ls).
Proof. unfold emb_circ, pyc. rewrite !concat_map, map_map. reflexivity. Qed.

Lemma emb_gseq (rep d : list (eop sangle)) N pos : emb_circ (seq_c rep d N pos) = gseq (emb_circ rep) (emb_circ d) N pos.
Proof.
  unfold seq_c, gseq. rewrite emb_circ_concat, map_map. f_equal. apply map_ext. intro p. destruct (Nat.eqb p pos); reflexivity.
Qed.

(* ------------------------------------------------------------------ the angles *)
Section Angles.
  Variable t : Q.
  Variable k : nat.
  Notation N := (S k).
  Notation n := (IZR (Z.of_nat (S k))).

  Lemma tauQ_IZR : Q2R (tauQ t N) = Q2R t / n.
  Proof. rewrite tauQ_R by lia. rewrite INR_IZR_INZ. reflexivity. Qed.

  (* 2 * ((time + factor * (pi / (4 r))) / n) * c  with r = c / n  is  2 (time/n) c + factor * pi/2 *)
  Lemma shifted_angle (c : Q) (s : Z) : Q2R c <> 0 ->
    2 * ((Q2R t + fz s * (PI / (Q2R (4 # 1) * (Q2R c / n)))) / n) * Q2R c = sreal ((2 * tauQ t N * c)%Q, s).
  Proof.
    intro Hc. unfold sreal, fz. cbn [fst snd]. rewrite !Q2R_mult, Q2R_2, tauQ_IZR, Q2R_inject_Z, Q2R_4.
    pose proof (IZR_steps_nz k) as Hn. field. split; assumption.
  Qed.

  Lemma plain_angle (c : Q) : 2 * (Q2R t / n) * Q2R c = sreal ((2 * tauQ t N * c)%Q, 0%Z).
  Proof. unfold sreal. cbn [fst snd]. rewrite !Q2R_mult, Q2R_2, tauQ_IZR. lra. Qed.

  Lemma plain_angle_1 (c : Q) : 2 * (Q2R t / n / IZR 1) * Q2R c = sreal ((2 * tauQ t N * c)%Q, 0%Z).
  Proof. rewrite <- plain_angle. field. apply IZR_steps_nz. Qed.
End Angles.

Lemma hterm_of_coef (t : pterm Q) c l : hterm_of t = HTerm c l -> c = t_re t /\ l = t_ops t.
Proof.
  unfold hterm_of, classify. destruct (t_ops t) as [|x r]; [discriminate|].
  destruct (Qlt_le_dec imag_tol (Qabs (t_im t))); [discriminate|]. intro E. inversion E. split; reflexivity.
Qed.

Lemma emb_ets (tm : hterm) tq kk (a : R) :
  (forall c l, tm = HTerm c l -> 2 * a * Q2R c = sreal ((2 * tq * c)%Q, kk)) ->
  circ_of tm a = emb_circ (ets tm tq kk).
Proof.
  intro H. destruct tm as [| |c l]; [reflexivity|reflexivity|]. cbn [circ_of ets]. unfold emb_circ.
  rewrite amap_evolve_ops. rewrite (H c l eq_refl). reflexivity.
Qed.

(* ------------------------------------------------------------------ lists indexed by position *)
Lemma combine_seq_nth {A} (l : list A) d : forall j0,
  combine (seq j0 (List.length l)) l = map (fun j => (j0 + j, List.nth j l d)%nat) (seq 0 (List.length l)).
Proof.
  induction l as [|x l IH]; intro j0; [reflexivity|]. cbn [List.length seq combine map List.nth].
  rewrite Nat.add_0_r. f_equal. rewrite (IH (S j0)), <- seq_shift, map_map. apply map_ext. intro j.
  cbn [List.nth]. f_equal. lia.
Qed.

Lemma flat_map_map {A B C} (g : A -> B) (f : B -> list C) (l : list A) : flat_map f (map g l) = flat_map (fun x => f (g x)) l.
Proof. induction l as [|x l IH]; [reflexivity|]. cbn [map flat_map]. rewrite IH. reflexivity. Qed.

Lemma combine_map_same {A B C} (f : A -> B) (g : A -> C) (l : list A) : combine (map f l) (map g l) = map (fun x => (f x, g x)) l.
Proof. induction l as [|x l IH]; [reflexivity|]. cbn [map combine]. rewrite IH. reflexivity. Qed.

Lemma nth_hterm_of (h : list (pterm Q)) j : List.nth j (map hterm_of h) HConst = hterm_of (List.nth j h (mk_pterm 0%Q 0%Q [])).
Proof. change HConst with (hterm_of (mk_pterm 0%Q 0%Q [])). apply map_nth. Qed.

Lemma coef_g_pt (h : list (pterm Q)) i : coef_g (kc_pt h) (map hterm_of h) i = t_re (List.nth i h (mk_pterm 0%Q 0%Q [])).
Proof.
  unfold coef_g. rewrite nth_hterm_of. unfold kc_pt. destruct (hterm_of _) as [| |c l] eqn:E; [reflexivity|reflexivity|].
  apply hterm_of_coef in E. apply E.
Qed.

Lemma flat_map_ext_in' {A B} (f g : A -> list B) (l : list A) : (forall x, In x l -> f x = g x) -> flat_map f l = flat_map g l.
Proof.
  induction l as [|x l IH]; intro H; [reflexivity|]. cbn [flat_map]. rewrite (H x (or_introl eq_refl)), IH; [reflexivity|].
  intros y Hy. apply H. right. exact Hy.
Qed.

(* the second loop nest on embedded entries *)
Lemma nest_circuits (S : list (Q * option (list (eop sangle)))) rep Nn :
  Forall (fun fd => exists c, snd fd = Some c) S ->
  flat_map (fun pos => map (fun z => gseq (emb_circ rep) (snd z) Nn pos)
                           (combine (map (fun fd => Q2R (fst fd)) S) (map emb_entry S))) (seq 0 Nn)
  = map emb_entry (flat_map (fun pos => map (fun fd => (fst fd, seq_circ (Some rep) (snd fd) Nn pos)) S) (seq 0 Nn)).
Proof.
  intro HS. rewrite map_flat_map'. apply flat_map_ext. intro pos. rewrite combine_map_same, !map_map.
  apply map_ext_in. intros [f oc] Hfd. rewrite Forall_forall in HS. destruct (HS _ Hfd) as [c Hc]. cbn [fst snd] in *. subst oc.
  unfold emb_entry. cbn [snd]. rewrite seq_circ_some. symmetry. apply emb_gseq.
Qed.

Lemma nest_factors (S : list (Q * option (list (eop sangle)))) (rep : option (list (eop sangle))) Nn :
  flat_map (fun _ : nat => map fst (combine (map (fun fd => Q2R (fst fd)) S) (map emb_entry S))) (seq 0 Nn)
  = map (fun fd => Q2R (fst fd)) (flat_map (fun pos => map (fun fd => (fst fd, seq_circ rep (snd fd) Nn pos)) S) (seq 0 Nn)).
Proof.
  rewrite map_flat_map'. apply flat_map_ext. intro pos. rewrite combine_map_same, !map_map. reflexivity.
Qed.

Section Main.
  Variable h : list (pterm Q).
  Variable t : Q.
  Variable k : nat.
  Hypothesis Hsorted : Forall sorted_term h.
  Notation N := (S k).
  Notation n := (IZR (Z.of_nat (S k))).
  Notation hh := (map hterm_of h).
  Notation d0 := (mk_pterm 0%Q 0%Q []).
  Notation sl := [1%Z; (-1)%Z].

  Lemma rr_zero_iff (x : pterm Q) : Q2R (4 # 1) * rr k x = 0 <-> (t_re x == 0)%Q.
  Proof.
    rewrite Q2R_4. unfold rr. pose proof (IZR_steps_nz k) as Hn. split; intro H.
    - apply eqR_Qeq. rewrite RMicromega.Q2R_0.
      apply Rmult_integral in H. destruct H as [H|H]; [lra|]. unfold Rdiv in H. apply Rmult_integral in H.
      destruct H as [H|H]; [exact H|]. exfalso. apply (Rinv_neq_0_compat _ Hn). exact H.
    - rewrite (Q2R_z _ H). field. exact Hn.
  Qed.

  Lemma imag_true : existsb is_imag hh = true -> exists x, In x h /\ hterm_of x = HImag.
  Proof.
    intro H. apply existsb_exists in H. destruct H as [tm [Hin Htm]]. apply in_map_iff in Hin. destruct Hin as [x [<- Hx]].
    exists x. split; [exact Hx|]. destruct (hterm_of x); try discriminate. reflexivity.
  Qed.

  Lemma imag_false : existsb is_imag hh = false -> forall x, In x h -> hterm_of x <> HImag.
  Proof.
    intros H x Hx E. assert (Ht : existsb is_imag hh = true).
    { apply existsb_exists. exists HImag. split; [|reflexivity]. apply in_map_iff. exists x. split; assumption. }
    rewrite H in Ht. discriminate.
  Qed.

  Lemma zero_true : zero_coef (kc_pt h) hh = true -> exists x, In x h /\ (t_re x == 0)%Q.
  Proof.
    unfold zero_coef. intro H. apply existsb_exists in H. destruct H as [i [Hi E]]. apply in_seq in Hi. rewrite map_length in Hi.
    apply Qeq_bool_iff in E. rewrite coef_g_pt in E. exists (List.nth i h d0). split; [apply nth_In; lia|exact E].
  Qed.

  Lemma zero_false : zero_coef (kc_pt h) hh = false -> forall x, In x h -> ~ (t_re x == 0)%Q.
  Proof.
    intros H x Hx. destruct (In_nth _ _ d0 Hx) as [i [Hi Hn]]. pose proof (proj1 (zero_coef_false _ _) H i) as Hz.
    rewrite map_length, coef_g_pt, Hn in Hz. apply Hz. exact Hi.
  Qed.

  (* the single derivatives of the model, when no term is rejected *)
  Definition Sm : list (Q * option (list (eop sangle))) :=
    flat_map (fun i => map (fun s => (fac_g (kc_pt h) hh N i s, Some (single_c hh (tauQ t N) i s))) sl) (seq 0 (List.length hh)).

  Lemma Sm_some : Forall (fun fd => exists c, snd fd = Some c) Sm.
  Proof.
    apply Forall_forall. intros fd Hfd. unfold Sm in Hfd. apply in_flat_map in Hfd. destruct Hfd as [i [_ Hfd]].
    apply in_map_iff in Hfd. destruct Hfd as [s [<- _]]. eexists. reflexivity.
  Qed.

  Lemma single_val_emb i s : (i < List.length h)%nat -> (forall x, In x h -> ~ (t_re x == 0)%Q) ->
    single_val h (Q2R t) k i (List.nth i h d0) (fz s) = emb_circ (single_c hh (tauQ t N) i s).
  Proof.
    intros Hi Hnz. unfold single_val, single_c. rewrite emb_circ_concat, map_map, (combine_seq_nth h d0 0%nat), map_map, map_length.
    f_equal. apply map_ext. intro j. cbn [fst snd Nat.add]. rewrite nth_hterm_of. apply emb_ets.
    intros c l E. apply hterm_of_coef in E. destruct E as [Ec _]. unfold Tsel.
    destruct (Nat.eqb_spec i j) as [<-|Hij].
    - subst c. unfold shift_of, rr. apply shifted_angle. apply Q2R_nz. apply Hnz. apply nth_In. exact Hi.
    - apply plain_angle.
  Qed.

  Lemma singles_std : (forall x, In x h -> ~ (t_re x == 0)%Q) ->
    map (fun x => single_val h (Q2R t) k (fst (fst x)) (snd (fst x)) (fz (snd x))) (idx_of 0 h sl) = map emb_entry Sm.
  Proof.
    intro Hnz. unfold idx_of, Sm. rewrite (combine_seq_nth h d0 0%nat), flat_map_map, !map_flat_map', map_length.
    apply flat_map_ext_in'. intros i Hi. apply in_seq in Hi. rewrite !map_map. apply map_ext. intro s.
    cbn [fst snd Nat.add emb_entry]. apply single_val_emb; [lia|exact Hnz].
  Qed.

  Lemma singles_facs :
    map (fun x => rr k (snd (fst x)) * fz (snd x)) (idx_of 0 h sl) = map (fun fd => Q2R (fst fd)) Sm.
  Proof.
    unfold idx_of, Sm. rewrite (combine_seq_nth h d0 0%nat), flat_map_map, !map_flat_map', map_length.
    apply flat_map_ext. intro i. rewrite !map_map. apply map_ext. intro s. cbn [fst snd Nat.add].
    rewrite fac_g_R by lia. rewrite coef_g_pt, INR_IZR_INZ. unfold rr, fz. rewrite Q2R_inject_Z. reflexivity.
  Qed.

  Lemma rep_R : (forall x, In x h -> hterm_of x <> HImag) ->
    concat_res (map (fun x => term_circ_R (hterm_of x) (Q2R t / n / IZR 1)) h) = Ok (emb_circ (rep_c hh (tauQ t N))).
  Proof.
    intro Hni. rewrite (concat_res_map_ok _ (fun x => circ_of (hterm_of x) (Q2R t / n / IZR 1)))
      by (intros x Hx; apply term_circ_R_ok; apply Hni; exact Hx).
    f_equal. unfold rep_c. rewrite emb_circ_concat, !map_map. f_equal. apply map_ext. intro x. apply emb_ets.
    intros c l _. apply plain_angle_1.
  Qed.

  (* which exception the call raises when it raises: the terms are visited in order, and for the first one the division
     pi / (4 r) comes before the first call of time_evolution_for_term *)
  Definition deriv_exn : pyexn :=
    match h with
    | t0 :: _ => if Qeq_bool (t_re t0) 0 then ZeroDivisionError
                 else if existsb is_imag hh then ValueError else ZeroDivisionError
    | [] => ZeroDivisionError
    end.

  Notation gen_call := (time_evolution_derivatives_gen num_Rpi (map pterm_R h) (Q2R t) "Trotter" (Z.of_nat N)).
  Notation mk1 := (time_evolution_derivatives_S1_mk num_Rpi).
  Notation first_loop :=
    (py_for (py_enumerate_from (Z.of_nat 0) (map pterm_R h)) (mk1 None None [] None [])
            (py_unpack2 (time_evolution_derivatives_L1_body num_Rpi (map fz sl) (Z.of_nat N) (map pterm_R h) (Q2R t)))).

  (* the function, with its first loop nest named (the state records are matched positionally) *)
  Lemma gen_unfold :
    gen_call =
    bind first_loop (fun st =>
      match st with
      | time_evolution_derivatives_S1_mk _ _ _ facs _ std =>
        if Z.ltb 1 (Z.of_nat N)
        then bind (py_truediv num_R (Q2R t) n) (fun T =>
             bind (time_evolution_gen num_R (map pterm_R h) T "Trotter" 1%Z) (fun rep =>
             bind (py_for (py_range (Z.of_nat N)) (time_evolution_derivatives_S4_mk num_Rpi [] [])
                          (time_evolution_derivatives_L4_body num_Rpi facs std rep (Z.of_nat N))) (fun st4 =>
             match st4 with time_evolution_derivatives_S4_mk _ oc ff => Ok (oc, ff) end)))
        else Ok (std, facs)
      end).
  Proof.
    unfold time_evolution_derivatives_gen. cbv zeta. change (String.eqb "Trotter" "Trotter") with true. cbn [negb].
    apply bind_ext. intros [o r facs sh std]. destruct (Z.ltb 1 (Z.of_nat N)); [|reflexivity].
    apply bind_ext. intro T. apply bind_ext. intro rep. apply bind_ext. intros [oc ff]. reflexivity.
  Qed.

  Lemma first_loop_ok : (forall x, In x h -> ~ (t_re x == 0)%Q) -> (forall x, In x h -> hterm_of x <> HImag) ->
    exists o r sh, first_loop = Ok (mk1 o r (map (fun fd => Q2R (fst fd)) Sm) sh (map emb_entry Sm)).
  Proof.
    intros Hnz Hni.
    destruct (L1_loop_ok h (Q2R t) k Hsorted sl (single_val h (Q2R t) k) h 0%nat
                (fun x Hx E => Hnz x Hx (proj1 (rr_zero_iff x) E))
                (fun i x s => single_R_ok h (Q2R t) k i x (fz s) Hni) None None [] None []) as (o & r & sh & E).
    exists o, r, sh. refine (eq_trans E _). cbn [app]. rewrite (singles_std Hnz), singles_facs. reflexivity.
  Qed.

  Theorem derivatives_gen_steps :
    gen_call = match derivatives_code (kc_pt h) hh t N with Some ds => Ok (emb_ds ds) | None => Raise deriv_exn end.
  Proof.
    rewrite gen_unfold. unfold derivatives_code. destruct (existsb is_imag hh) eqn:Ei.
    - (* a rejected imaginary part: the first term raises *)
      rewrite orb_true_r. destruct (imag_true Ei) as [x [Hx Him]]. unfold deriv_exn. rewrite Ei.
      destruct h as [|t0 ts] eqn:Eh; [destruct Hx|]. rewrite <- Eh in *.
      destruct (Qeq_bool (t_re t0) 0) eqn:E0.
      + apply Qeq_bool_iff in E0. rewrite Eh at 1.
        rewrite (bind_eq _ _ _ (L1_first_zero h (Q2R t) k Hsorted [(-1)%Z] 1%Z t0 ts None None [] None [] (proj2 (rr_zero_iff t0) E0))).
        reflexivity.
      + assert (Hnz : Q2R (4 # 1) * rr k t0 <> 0).
        { intro E. apply (proj1 (rr_zero_iff t0)) in E. apply Qeq_bool_iff in E. rewrite E in E0. discriminate. }
        rewrite Eh at 1.
        rewrite (bind_eq _ _ _ (L1_first_raise h (Q2R t) k Hsorted [(-1)%Z] 1%Z t0 ts ValueError None None [] None [] Hnz
                                  (single_R_imag h (Q2R t) k 0 t0 (fz 1) (ex_intro _ x (conj Hx Him))))).
        reflexivity.
    - rewrite orb_false_r. pose proof (imag_false Ei) as Hni. destruct (zero_coef (kc_pt h) hh) eqn:Ez.
      + (* a zero real coefficient: ZeroDivisionError at the first such term *)
        destruct (zero_true Ez) as [x [Hx Hz]].
        assert (Ee : deriv_exn = ZeroDivisionError).
        { unfold deriv_exn. rewrite Ei. destruct h; [reflexivity|]. destruct (Qeq_bool _ _); reflexivity. }
        rewrite Ee.
        rewrite (bind_eq _ _ _ (L1_loop_zero h (Q2R t) k Hsorted [(-1)%Z] 1%Z (single_val h (Q2R t) k) h 0%nat
                                  (ex_intro _ x (conj Hx (proj2 (rr_zero_iff x) Hz)))
                                  (fun i y s => single_R_ok h (Q2R t) k i y (fz s) Hni) None None [] None [])).
        reflexivity.
      + (* the call returns *)
        pose proof (zero_false Ez) as Hnz. destruct (first_loop_ok Hnz Hni) as (o & r & sh & E).
        rewrite (bind_eq _ _ _ E). cbn [bind].
        assert (Hni' : forall j, List.nth j hh HConst <> HImag).
        { intro j. destruct (Nat.lt_ge_cases j (List.length hh)) as [Hj|Hj].
          - intro Ej. pose proof (nth_In hh HConst Hj) as Hin. rewrite Ej in Hin. apply in_map_iff in Hin.
            destruct Hin as [x [Ex Hx]]. exact (Hni x Hx Ex).
          - rewrite nth_overflow by exact Hj. discriminate. }
        unfold derivatives_g. cbv zeta. rewrite (single_derivatives_g_eq _ _ _ _ Hni'). fold Sm.
        destruct (Z.ltb_spec 1 (Z.of_nat N)) as [Hlt|Hge]; destruct (Nat.leb_spec N 1) as [Hle|Hgt]; try lia.
        * rewrite truediv_R by apply IZR_steps_nz. cbn [bind].
          rewrite (evolution_gen_R_one h _ Hsorted), (rep_R Hni). cbn [bind].
          unfold py_range. rewrite Nat2Z.id.
          rewrite (L4_loop (emb_circ (rep_c hh (tauQ t N))) N _ _ (seq 0 N))
            by (apply Forall_forall; intros p Hp; apply in_seq in Hp; lia).
          cbn [bind app].
          change (t / inject_Z (Z.of_nat N))%Q with (tauQ t N).
          rewrite (rep_eq hh (tauQ t N)) by (intros tm Htm; apply in_map_iff in Htm; destruct Htm as [x [<- Hx]]; apply Hni; exact Hx).
          rewrite (nest_circuits Sm _ N Sm_some), (nest_factors Sm (Some (rep_c hh (tauQ t N))) N). reflexivity.
        * reflexivity.
  Qed.
End Main.

(* ------------------------------------------------------------------ the theorems *)
(* For every Hamiltonian with sorted operator lists, every rational time and every n_steps >= 1: the translated
   time_evolution_derivatives, run on the real numbers, returns exactly the circuits and factors of derivatives_code (the
   model of the derivative theorems), and raises when derivatives_code is None. *)
Theorem derivatives_gen_is_code (h : list (pterm Q)) (t : Q) (method : string) (steps : nat) :
  Forall sorted_term h -> (1 <= steps)%nat ->
  time_evolution_derivatives_gen num_Rpi (map pterm_R h) (Q2R t) method (Z.of_nat steps) =
  if String.eqb method "Trotter"
  then match derivatives_code (kc_pt h) (map hterm_of h) t steps with
       | Some ds => Ok (emb_ds ds)
       | None => Raise (deriv_exn h)
       end
  else Raise ValueError.
Proof.
  intros Hs Hn. destruct steps as [|k]; [lia|]. destruct (String.eqb method "Trotter") eqn:E.
  - apply String.eqb_eq in E. subst method. apply derivatives_gen_steps. exact Hs.
  - unfold time_evolution_derivatives_gen. rewrite E. reflexivity.
Qed.

(* every entry of a returned list carries a circuit (so [emb_entry]'s default is never used) *)
Theorem derivatives_code_entries kc (hh : list hterm) (t : Q) (N : nat) ds :
  derivatives_code kc hh t N = Some ds -> Forall (fun fd => snd fd <> None) ds.
Proof.
  unfold derivatives_code. destruct (zero_coef kc hh); [discriminate|]. cbn [orb].
  destruct (existsb is_imag hh) eqn:Ei; [discriminate|]. intro E. injection E as <-.
  assert (Hin : forall tm, In tm hh -> tm <> HImag).
  { intros tm Htm ->. assert (Ht : existsb is_imag hh = true) by (apply existsb_exists; exists HImag; split; [exact Htm|reflexivity]).
    rewrite Ei in Ht. discriminate. }
  assert (Hni : forall j, List.nth j hh HConst <> HImag).
  { intro j. destruct (Nat.lt_ge_cases j (List.length hh)) as [Hj|Hj]; [apply Hin; apply nth_In; exact Hj|].
    rewrite nth_overflow by exact Hj. discriminate. }
  unfold derivatives_g. cbv zeta. rewrite (single_derivatives_g_eq _ _ _ _ Hni).
  change (t / inject_Z (Z.of_nat N))%Q with (tauQ t N). rewrite (rep_eq hh (tauQ t N) Hin).
  apply Forall_forall. intros fd Hfd. destruct (Nat.leb N 1).
  - apply in_flat_map in Hfd. destruct Hfd as [i [_ Hfd]]. apply in_map_iff in Hfd. destruct Hfd as [s [<- _]]. discriminate.
  - apply in_flat_map in Hfd. destruct Hfd as [pos [_ Hfd]]. apply in_map_iff in Hfd. destruct Hfd as [fd' [<- Hfd']].
    apply in_flat_map in Hfd'. destruct Hfd' as [i [_ Hfd']]. apply in_map_iff in Hfd'. destruct Hfd' as [s [<- _]].
    cbn [fst snd]. rewrite seq_circ_some. discriminate.
Qed.

(* n_steps = 0: nothing to do for the empty Hamiltonian; otherwise r = coefficient / 0 *)
Theorem derivatives_gen_zero_steps (h : list (pterm R)) (time : R) :
  time_evolution_derivatives_gen num_Rpi h time "Trotter" 0%Z
  = match h with [] => Ok ([], []) | _ :: _ => Raise ZeroDivisionError end.
Proof.
  unfold time_evolution_derivatives_gen. cbv zeta. change (String.eqb "Trotter" "Trotter") with true. cbn [negb].
  unfold ham_terms, py_enumerate. destruct h as [|t0 ts]; [reflexivity|].
  cbn [py_enumerate_from]. rewrite py_for_cons. unfold py_unpack2 at 1. cbn [fst snd].
  unfold time_evolution_derivatives_L1_body at 1. rewrite py_for_cons.
  unfold time_evolution_derivatives_L2_body at 1. rnum. cbn.
  destruct (py_num_eq_complex _ _ _); cbn; rewrite truediv_R_zero by reflexivity; reflexivity.
Qed.

(* a method other than Trotter is rejected before anything else *)
Theorem derivatives_gen_other_method (N : pynum_pi) (h : list (pterm (num N))) (time : num N) (method : string) (n_steps : Z) :
  String.eqb method "Trotter" = false -> time_evolution_derivatives_gen N h time method n_steps = Raise ValueError.
Proof. intro E. unfold time_evolution_derivatives_gen. rewrite E. reflexivity. Qed.

(* ------------------------------------------------------------------ the derivative clause about the generated function *)
Lemma hwf_sorted n (h : list (pterm Q)) : hwf n (map hterm_of h) -> Forall sorted_term h.
Proof.
  intro H. apply Forall_forall. intros x Hx. unfold hwf in H. rewrite Forall_forall in H.
  specialize (H (hterm_of x) (in_map hterm_of h x Hx)). unfold sorted_term.
  destruct (hterm_of x) as [| |c l] eqn:E; cbn [twf] in H.
  - unfold hterm_of, classify in E. destruct (t_ops x); [exact I|]. destruct (Qlt_le_dec _ _); discriminate.
  - destruct H.
  - apply hterm_of_coef in E. destruct E as [_ ->]. apply H.
Qed.

(* For every width, Hamiltonian (constants and Pauli strings on sorted distinct qubits below n, no zero real coefficient),
   n_steps >= 1, matrix O, vector psi and rational time: the translated function returns lists (circuits, factors), and the
   factor-weighted sum of the expectations over the returned circuits is d/dt of the expectation under time_evolution. *)
Theorem generated_derivative_clause n (h : list (pterm Q)) (steps : nat) (O : Mat CRring) (psi : Vec CRring) (t : Q) :
  hwf n (map hterm_of h) -> (1 <= steps)%nat -> (forall x, In x h -> ~ (t_re x == 0)%Q) ->
  exists ds, time_evolution_derivatives_gen num_Rpi (map pterm_R h) (Q2R t) "Trotter" (Z.of_nat steps) = Ok (emb_ds ds) /\
             Forall (fun fd => snd fd <> None) ds /\
             cderiv (fun x : R => expect (2 ^ n) O (U_sem n (map hterm_of h) steps x) psi) (Q2R t) (dsum n O psi ds).
Proof.
  intros Hw Hn Hnz.
  destruct (derivative_clause_code_nonzero (kc_pt h) n (map hterm_of h) steps O psi t Hw Hn) as (ds & Ec & Hs & Hd).
  - intros i Hi. rewrite coef_g_pt. apply Hnz. apply nth_In. rewrite map_length in Hi. exact Hi.
  - exists ds. split; [|split; assumption].
    rewrite (derivatives_gen_is_code h t "Trotter" steps (hwf_sorted n h Hw) Hn), Ec. reflexivity.
Qed.
