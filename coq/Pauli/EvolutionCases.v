(* Comparison helpers for the C16 correspondence cases. *)
Require Import Coq.QArith.QArith Coq.Lists.List Coq.Arith.Arith Coq.Bool.Bool Coq.ZArith.ZArith.
Require Import OQ.Base.CaseEq OQ.Pauli.Algebra OQ.Pauli.Evolution OQ.Pauli.EvolutionCode.
Import ListNotations.

Definition egate_eqb {P} (peq : P -> P -> bool) (a b : egate P) : bool :=
  match a, b with
  | EH, EH => true | ERXh, ERXh => true | ERXhd, ERXhd => true | ECNOT, ECNOT => true
  | ERZ x, ERZ y => peq x y
  | _, _ => false
  end.
Definition eops_eqb {P} (peq : P -> P -> bool) (a b : list (eop P)) : bool :=
  leqb (peqb (egate_eqb peq) lneqb) a b.
Definition sangle_eqb (a b : sangle) : bool := qeqb (fst a) (fst b) && Z.eqb (snd a) (snd b).

Definition hterms (h : list (Q * Q * ops)) : list hterm := map (fun t => classify (fst (fst t)) (snd (fst t)) (snd t)) h.

Definition term_case (re im : Q) (l : ops) (time : Q) (out : option (list (eop Q))) : bool :=
  oeqb (eops_eqb qeqb) (evolve_term (classify re im l) time) out.
Definition evolution_case (h : list (Q * Q * ops)) (time : Q) (steps : nat) (out : option (list (eop Q))) : bool :=
  oeqb (eops_eqb qeqb) (time_evolution (hterms h) time steps) out.
(* the coefficients the code sees for constant terms are the real parts recorded in the case (position by position) *)
Definition kc_of (h : list (Q * Q * ops)) : nat -> Q := fun i => fst (fst (List.nth i h (0%Q, 0%Q, []))).
(* [out] = None when time_evolution_derivatives raised, else the returned (factor, circuit) list;
   compared with Pauli/EvolutionCode.v's derivatives_code: constants carry +c/N, -c/N, a zero real coefficient
   (ZeroDivisionError) or a rejected imaginary part (ValueError) gives None *)
Definition derivative_case (h : list (Q * Q * ops)) (time : Q) (steps : nat)
           (out : option (list (Q * option (list (eop sangle))))) : bool :=
  oeqb (leqb (peqb qeqb (oeqb (eops_eqb sangle_eqb)))) (derivatives_code (kc_of h) (hterms h) time steps) out.
