(* C03: the definitions GENERATED from operators/_pauli_operators.py (Gen/PauliOpsGen.v, translator tr/tr_pauli_ops.py)
   agree with the hand-written model of Pauli/Algebra.v that the C03 theorems are about.  Re-checked on every run
   against the freshly generated text.

   Setting.  [P : pyenv] is any environment of a run: a commutative ring of numbers, a closeness test [np_close], an
   iteration order for unordered collections and a recursion limit.  The only thing assumed about the iteration order
   is [order_ok P]: iterating a dict / set / frozenset enumerates its elements (in some order).  The model's zero test
   is [is_zero c := np_close c 0] and its equality test is [np_close].
   Model objects are embedded into the generated records by [emb_term] / [emb_sum] / [emb_operand]: qubit q becomes the
   Python int q, letter X the string "X".  The guard is the model's representation invariant (operator lists sorted by
   qubit: [ops_sorted], [operand_ok n]).

   The proofs refer to the generated definitions by the names derived from the class / function names and the static
   argument types only; the names of Python locals do not occur. *)
Require Import Coq.ZArith.ZArith Coq.Lists.List Coq.Strings.String Coq.Bool.Bool Coq.Arith.Arith Coq.micromega.Lia
        Coq.Sorting.Permutation Coq.Sorting.Sorted Coq.setoid_ring.Ring.
Require Import OQ.Base.Ring OQ.Base.Sums OQ.Gen.PauliTablesGen OQ.Pauli.Algebra OQ.Pauli.Den OQ.Pauli.TablesProofs
        OQ.Pauli.DenProofs OQ.Pauli.SumProofs OQ.Pauli.OpsProofs OQ.Pauli.Matrix OQ.Pauli.PauliOpsTrSupport
        OQ.Gen.PauliOpsGen.
Import ListNotations.
Open Scope list_scope.

(* ------------------------------------------------------------------ generic facts about the Python building blocks *)
Lemma bind_ok {A B} (a : A) (f : A -> result B) : bind (Ok a) f = f a.
Proof. reflexivity. Qed.

Lemma py_mapM_map {A B C} (g : A -> B) (h : A -> C) (f : B -> result C) (l : list A) :
  (forall x, In x l -> f (g x) = Ok (h x)) -> py_mapM f (map g l) = Ok (map h l).
Proof.
  induction l as [|x r IH]; intro H; cbn [map py_mapM]; [reflexivity|].
  rewrite (H x (or_introl eq_refl)). cbn [bind]. rewrite IH by (intros y Hy; apply H; right; exact Hy). reflexivity.
Qed.

Lemma py_mapM_ok {A B} (h : A -> B) (f : A -> result B) (l : list A) :
  (forall x, In x l -> f x = Ok (h x)) -> py_mapM f l = Ok (map h l).
Proof. intro H. rewrite <- (map_id l) at 1. apply py_mapM_map. exact H. Qed.

(* a loop whose body maps embedded states to embedded states is a fold *)
Lemma py_for_fold {A B S T} (g : A -> B) (e : S -> T) (Inv : S -> Prop) (step : S -> A -> S) (body : B -> T -> result T)
  (l : list A) :
  (forall x s, In x l -> Inv s -> body (g x) (e s) = Ok (e (step s x)) /\ Inv (step s x)) ->
  forall s, Inv s -> py_for (map g l) (e s) body = Ok (e (fold_left step l s)).
Proof.
  induction l as [|x r IH]; intros H s Hs; cbn [map py_for fold_left]; [reflexivity|].
  destruct (H x s (or_introl eq_refl) Hs) as [E Hs']. rewrite E. cbn [bind].
  apply IH; [|exact Hs']. intros y s0 Hy. apply H. right. exact Hy.
Qed.

Lemma py_all_true {A} (f : A -> bool) (l : list A) : (forall x, In x l -> f x = true) -> py_all (map f l) = true.
Proof.
  unfold py_all. induction l as [|x r IH]; intro H; cbn [map forallb]; [reflexivity|].
  rewrite (H x (or_introl eq_refl)), IH by (intros y Hy; apply H; right; exact Hy). reflexivity.
Qed.

Lemma py_table_find_dict_get {A B} (eqb : A -> A -> bool) (k : A) (d : list (A * B)) :
  py_table_find eqb k d = dict_get eqb k d.
Proof. induction d as [|[k' v] r IH]; cbn [py_table_find dict_get]; [reflexivity|]. rewrite IH. reflexivity. Qed.

Lemma map_pair_id {A B} (l : list (A * B)) : map (fun '(a, b) => (a, b)) l = l.
Proof. induction l as [|[a b] r IH]; cbn [map]; [reflexivity|]. rewrite IH. reflexivity. Qed.

(* ------------------------------------------------------------------ operator dictionaries of the model *)
Lemma lookup_in (l : ops) q a : NoDup (keys l) -> (lookup q l = Some a <-> In (q, a) l).
Proof.
  induction l as [|[k b] r IH]; intro Hnd; cbn [lookup In]; [split; [discriminate|tauto]|].
  cbn [keys map fst] in Hnd. inversion Hnd as [|x xs Hnotin Hnd']; subst.
  destruct (Nat.eqb_spec q k) as [->|Hne].
  - split.
    + intro H. inversion H. left. reflexivity.
    + intros [H|H]; [inversion H; reflexivity|]. exfalso. apply Hnotin. apply (in_map fst) in H. exact H.
  - rewrite (IH Hnd'). split; [intro H; right; exact H|]. intros [H|H]; [inversion H; congruence|exact H].
Qed.

Lemma keys_perm (l l0 : ops) : Permutation l l0 -> Permutation (keys l) (keys l0).
Proof. apply Permutation_map. Qed.

Lemma lookup_perm (l l0 : ops) q : NoDup (keys l) -> Permutation l l0 -> lookup q l0 = lookup q l.
Proof.
  intros Hnd Hp. assert (Hnd0 : NoDup (keys l0)) by (apply (Permutation_NoDup (keys_perm _ _ Hp)); exact Hnd).
  destruct (lookup q l) as [a|] eqn:E.
  - apply (lookup_in _ _ _ Hnd0). apply (Permutation_in _ Hp). apply (lookup_in _ _ _ Hnd). exact E.
  - destruct (lookup q l0) as [a|] eqn:E0; [|reflexivity].
    apply (lookup_in _ _ _ Hnd0) in E0. apply (Permutation_in _ (Permutation_sym Hp)) in E0.
    apply (lookup_in _ _ _ Hnd) in E0. congruence.
Qed.

(* two sorted dictionaries with the same entries are the same list *)
Lemma sorted_ext : forall l1 l2 : ops, ops_sorted l1 -> ops_sorted l2 -> (forall q, lookup q l1 = lookup q l2) -> l1 = l2.
Proof.
  induction l1 as [|[k1 a1] r1 IH]; intros [|[k2 a2] r2] H1 H2 H.
  - reflexivity.
  - specialize (H k2). cbn [lookup] in H. rewrite Nat.eqb_refl in H. discriminate.
  - specialize (H k1). cbn [lookup] in H. rewrite Nat.eqb_refl in H. discriminate.
  - destruct H1 as [H1 H1r]. destruct H2 as [H2 H2r].
    assert (N1 : ~ In k1 (keys r1)) by (intro Hin; specialize (H1 _ Hin); lia).
    assert (N2 : ~ In k2 (keys r2)) by (intro Hin; specialize (H2 _ Hin); lia).
    assert (Ek : k1 = k2).
    { destruct (lt_eq_lt_dec k1 k2) as [[Hlt|He]|Hgt]; [|exact He|]; exfalso.
      - pose proof (H k1) as Hk. cbn [lookup] in Hk. rewrite Nat.eqb_refl in Hk.
        destruct (Nat.eqb_spec k1 k2); [lia|]. rewrite lookup_notin in Hk; [discriminate|].
        intro Hin. specialize (H2 _ Hin). lia.
      - pose proof (H k2) as Hk. cbn [lookup] in Hk. rewrite Nat.eqb_refl in Hk.
        destruct (Nat.eqb_spec k2 k1); [lia|]. rewrite lookup_notin in Hk; [discriminate|].
        intro Hin. specialize (H1 _ Hin). lia. }
    subst k2. pose proof (H k1) as Hk. cbn [lookup] in Hk. rewrite Nat.eqb_refl in Hk. inversion Hk; subst a2.
    f_equal. apply IH; [exact H1r|exact H2r|]. intro q. specialize (H q). cbn [lookup] in H.
    destruct (Nat.eqb_spec q k1) as [E|_]; [|exact H]. subst q. rewrite !lookup_notin by assumption. reflexivity.
Qed.

(* {k: v for ...}: inserting the entries of a dictionary, in any order, into an empty one *)
Definition insert_all (l0 acc : ops) : ops := fold_left (fun d qa => set_op (fst qa) (snd qa) d) l0 acc.

Lemma insert_all_sorted l0 : forall acc, ops_sorted acc -> ops_sorted (insert_all l0 acc).
Proof.
  unfold insert_all. induction l0 as [|[k a] r IH]; intros acc H; cbn [fold_left fst snd]; [exact H|].
  apply IH. apply set_op_sorted. exact H.
Qed.

Lemma insert_all_lookup l0 : forall acc q, NoDup (keys l0) ->
  lookup q (insert_all l0 acc) = match lookup q l0 with Some a => Some a | None => lookup q acc end.
Proof.
  unfold insert_all. induction l0 as [|[k a] r IH]; intros acc q Hnd; cbn [fold_left fst snd lookup]; [reflexivity|].
  cbn [keys map fst] in Hnd. inversion Hnd as [|x xs Hnotin Hnd']; subst.
  rewrite (IH _ _ Hnd'). rewrite lookup_set. destruct (Nat.eqb_spec q k) as [->|Hne].
  - rewrite (lookup_notin k r Hnotin). reflexivity.
  - reflexivity.
Qed.

Lemma insert_all_perm (l l0 : ops) : ops_sorted l -> Permutation l l0 -> insert_all l0 [] = l.
Proof.
  intros Hs Hp. apply sorted_ext; [apply insert_all_sorted; exact I|exact Hs|].
  pose proof (ops_sorted_nodup l Hs) as Hnd.
  assert (Hnd0 : NoDup (keys l0)) by (apply (Permutation_NoDup (keys_perm _ _ Hp)); exact Hnd).
  intro q. rewrite (insert_all_lookup l0 [] q Hnd0), (lookup_perm l l0 q Hnd Hp). cbn [lookup].
  destruct (lookup q l); reflexivity.
Qed.

(* ------------------------------------------------------------------ strictly increasing lists of ints (sets) *)
Lemma set_add_in s x y : In y (py_set_add s x) <-> y = x \/ In y s.
Proof.
  induction s as [|z r IH]; cbn [py_set_add In]; [intuition congruence|].
  destruct (Z.ltb_spec x z) as [Hlt|Hge]; cbn [In]; [intuition congruence|].
  destruct (Z.eqb_spec x z) as [->|Hne]; cbn [In]; [intuition congruence|].
  rewrite IH. intuition congruence.
Qed.

Lemma set_add_sorted s x : StronglySorted Z.lt s -> StronglySorted Z.lt (py_set_add s x).
Proof.
  induction s as [|z r IH]; intro H; cbn [py_set_add].
  - repeat constructor.
  - inversion H as [|? ? Hr Hz]; subst.
    destruct (Z.ltb_spec x z) as [Hlt|Hge].
    + constructor; [exact H|]. constructor; [exact Hlt|].
      rewrite Forall_forall in *. intros y Hy. specialize (Hz y Hy). lia.
    + destruct (Z.eqb_spec x z) as [->|Hne]; [exact H|].
      constructor; [apply IH; exact Hr|]. rewrite Forall_forall in *. intros y Hy.
      apply set_add_in in Hy. destruct Hy as [->|Hy]; [lia|apply Hz; exact Hy].
Qed.

Lemma set_of_list_spec l : forall s, StronglySorted Z.lt s ->
  StronglySorted Z.lt (fold_left py_set_add l s) /\ (forall y, In y (fold_left py_set_add l s) <-> In y l \/ In y s).
Proof.
  induction l as [|x r IH]; intros s Hs; cbn [fold_left In]; [split; [exact Hs|intuition]|].
  destruct (IH (py_set_add s x) (set_add_sorted s x Hs)) as [H1 H2]. split; [exact H1|].
  intro y. rewrite H2, set_add_in. intuition congruence.
Qed.

Lemma zsorted_ext : forall s1 s2 : list Z, StronglySorted Z.lt s1 -> StronglySorted Z.lt s2 ->
  (forall y, In y s1 <-> In y s2) -> s1 = s2.
Proof.
  induction s1 as [|a r1 IH]; intros [|b r2] H1 H2 H.
  - reflexivity.
  - exfalso. apply (proj2 (H b)). left. reflexivity.
  - exfalso. apply (proj1 (H a)). left. reflexivity.
  - inversion H1 as [|? ? Hr1 Ha]; subst. inversion H2 as [|? ? Hr2 Hb]; subst.
    rewrite Forall_forall in Ha, Hb.
    assert (E : a = b).
    { destruct (proj1 (H a) (or_introl eq_refl)) as [E|Hin]; [congruence|].
      destruct (proj2 (H b) (or_introl eq_refl)) as [E|Hin']; [congruence|].
      specialize (Ha _ Hin'). specialize (Hb _ Hin). lia. }
    subst b. f_equal. apply IH; [exact Hr1|exact Hr2|]. intro y. split; intro Hy.
    + destruct (proj1 (H y) (or_intror Hy)) as [E|Hin]; [|exact Hin]. specialize (Ha _ Hy). lia.
    + destruct (proj2 (H y) (or_intror Hy)) as [E|Hin]; [|exact Hin]. specialize (Hb _ Hy). lia.
Qed.

Lemma set_of_list_perm (s l : list Z) : StronglySorted Z.lt s -> Permutation s l -> py_set_of_list l = s.
Proof.
  intros Hs Hp. unfold py_set_of_list. destruct (set_of_list_spec l [] (SSorted_nil _)) as [H1 H2].
  apply zsorted_ext; [exact H1|exact Hs|]. intro y. rewrite H2. cbn [In]. split.
  - intros [Hy|[]]. apply (Permutation_in _ (Permutation_sym Hp)). exact Hy.
  - intro Hy. left. apply (Permutation_in _ Hp). exact Hy.
Qed.

(* max(xs) *)
Lemma fold_max_spec r : forall x, (x <= fold_left Z.max r x)%Z /\ (forall y, In y r -> (y <= fold_left Z.max r x)%Z) /\
  (fold_left Z.max r x = x \/ In (fold_left Z.max r x) r).
Proof.
  induction r as [|a r IH]; intro x; cbn [fold_left In]; [split; [lia|split; [tauto|left; reflexivity]]|].
  destruct (IH (Z.max x a)) as [H1 [H2 H3]]. split; [lia|]. split.
  - intros y [->|Hy]; [lia|apply H2; exact Hy].
  - destruct H3 as [H3|H3]; [|right; right; exact H3]. rewrite H3.
    destruct (Z.max_spec x a) as [[_ ->]|[_ ->]]; [right; left; reflexivity|left; reflexivity].
Qed.

Lemma py_max_spec (l : list Z) m : In m l -> (forall y, In y l -> (y <= m)%Z) -> py_max_Z l = Ok m.
Proof.
  destruct l as [|x r]; intros Hin Hmax; [destruct Hin|]. unfold py_max_Z. f_equal.
  destruct (fold_max_spec r x) as [H1 [H2 H3]].
  assert (Hle : (fold_left Z.max r x <= m)%Z).
  { apply Hmax. destruct H3 as [->|H3]; [left; reflexivity|right; exact H3]. }
  destruct Hin as [->|Hin]; [lia|]. specialize (H2 _ Hin). lia.
Qed.

(* ------------------------------------------------------------------ the embedding of the model into the generated records *)
Definition emb_item (qa : nat * letter) : Z * string := (Z.of_nat (fst qa), letter_str (snd qa)).
Definition emb_ops (l : ops) : pydict := map emb_item l.

Lemma letter_str_eqb a b : String.eqb (letter_str a) (letter_str b) = letter_eqb a b.
Proof. destruct a, b; reflexivity. Qed.
Lemma letter_str_not_I a : String.eqb (letter_str a) "I" = false.
Proof. destruct a; reflexivity. Qed.
Lemma letter_str_allowed a : py_in_strs (letter_str a) ALLOWED_OPERATORS = true.
Proof. destruct a; reflexivity. Qed.
Lemma letter_str_xyz a : py_in_strs (letter_str a) ["X"%string; "Y"%string; "Z"%string] = true.
Proof. destruct a; reflexivity. Qed.

Lemma find_emb l q : py_dict_find (emb_ops l) (Z.of_nat q) = option_map letter_str (lookup q l).
Proof.
  induction l as [|[k a] r IH]; cbn [emb_ops map emb_item fst snd py_dict_find lookup option_map]; [reflexivity|].
  change (map emb_item r) with (emb_ops r). rewrite IH.
  destruct (Nat.eqb_spec q k) as [->|Hne].
  - rewrite Z.eqb_refl. reflexivity.
  - destruct (Z.eqb_spec (Z.of_nat q) (Z.of_nat k)) as [E|_]; [lia|reflexivity].
Qed.

Lemma set_emb l q a : py_dict_set (emb_ops l) (Z.of_nat q) (letter_str a) = emb_ops (set_op q a l).
Proof.
  induction l as [|[k b] r IH]; cbn [emb_ops map emb_item fst snd py_dict_set set_op]; [reflexivity|].
  change (map emb_item r) with (emb_ops r).
  destruct (Nat.ltb_spec q k) as [Hlt|Hge].
  - destruct (Z.ltb_spec (Z.of_nat q) (Z.of_nat k)); [reflexivity|lia].
  - destruct (Z.ltb_spec (Z.of_nat q) (Z.of_nat k)); [lia|].
    destruct (Nat.eqb_spec q k) as [->|Hne].
    + rewrite Z.eqb_refl. reflexivity.
    + destruct (Z.eqb_spec (Z.of_nat q) (Z.of_nat k)) as [E|_]; [lia|].
      rewrite IH. reflexivity.
Qed.

Lemma remove_emb l q : py_dict_remove (emb_ops l) (Z.of_nat q) = emb_ops (del_op q l).
Proof.
  induction l as [|[k b] r IH]; cbn [emb_ops map emb_item fst snd py_dict_remove del_op]; [reflexivity|].
  change (map emb_item r) with (emb_ops r).
  destruct (Nat.eqb_spec q k) as [->|Hne].
  - rewrite Z.eqb_refl. exact IH.
  - destruct (Z.eqb_spec (Z.of_nat q) (Z.of_nat k)) as [E|_]; [lia|]. rewrite IH. reflexivity.
Qed.

Lemma eqb_emb l1 l2 : py_dict_eqb (emb_ops l1) (emb_ops l2) = ops_eqb l1 l2.
Proof.
  revert l2. induction l1 as [|[k1 a1] r1 IH]; intros [|[k2 a2] r2]; cbn [emb_ops map emb_item fst snd py_dict_eqb ops_eqb];
    try reflexivity.
  change (map emb_item r1) with (emb_ops r1). change (map emb_item r2) with (emb_ops r2).
  rewrite IH, letter_str_eqb. f_equal. f_equal.
  destruct (Nat.eqb_spec k1 k2) as [->|Hne]; [apply Z.eqb_refl|]. apply Z.eqb_neq. lia.
Qed.

Lemma of_items_emb l0 : forall acc,
  fold_left (fun d kv => py_dict_set d (fst kv) (snd kv)) (emb_ops l0) (emb_ops acc) = emb_ops (insert_all l0 acc).
Proof.
  unfold insert_all. induction l0 as [|[k a] r IH]; intro acc; cbn [emb_ops map emb_item fst snd fold_left]; [reflexivity|].
  change (map emb_item r) with (emb_ops r). rewrite set_emb. apply IH.
Qed.

Lemma perm_emb (l : ops) (d : pydict) : Permutation d (emb_ops l) -> exists l0, d = emb_ops l0 /\ Permutation l l0.
Proof. intro H. destruct (Permutation_map_inv _ _ H) as [l0 [E Hp]]. exists l0. split; assumption. Qed.

(* frozenset(items) / {k: v for k, v in items}: any enumeration of the items of a sorted dictionary gives it back *)
Lemma of_items_perm (l : ops) (d : pydict) : ops_sorted l -> Permutation d (emb_ops l) -> py_dict_of_items d = emb_ops l.
Proof.
  intros Hs Hp. destruct (perm_emb l d Hp) as [l0 [-> Hp0]]. unfold py_dict_of_items.
  change (@nil (Z * string)) with (emb_ops []). rewrite of_items_emb. f_equal. apply insert_all_perm; assumption.
Qed.

Lemma zkeys_sorted (l : ops) : ops_sorted l -> StronglySorted Z.lt (map fst (emb_ops l)).
Proof.
  induction l as [|[k a] r IH]; intro H; cbn [emb_ops map emb_item fst]; [constructor|].
  destruct H as [H1 H2]. constructor; [apply IH; exact H2|]. rewrite Forall_forall. intros y Hy.
  change (map emb_item r) with (emb_ops r) in Hy. unfold emb_ops in Hy. rewrite map_map in Hy. apply in_map_iff in Hy.
  destruct Hy as [[k' a'] [<- Hin]]. cbn [emb_item fst]. apply (in_map fst) in Hin. specialize (H1 _ Hin). cbn [fst] in H1. lia.
Qed.

Lemma zkeys_emb (l : ops) : map fst (emb_ops l) = map Z.of_nat (keys l).
Proof. unfold emb_ops, keys. rewrite !map_map. reflexivity. Qed.

Lemma ops_width_max (l : ops) : l <> [] ->
  In (Z.of_nat (ops_width l) - 1)%Z (map Z.of_nat (keys l)) /\
  (forall y, In y (map Z.of_nat (keys l)) -> (y <= Z.of_nat (ops_width l) - 1)%Z).
Proof.
  induction l as [|[k a] r IH]; intro Hne; [congruence|]. cbn [ops_width fold_right keys map fst In].
  change (fold_right (fun qa m => Nat.max (S (fst qa)) m) 0%nat r) with (ops_width r).
  destruct r as [|x r'].
  - cbn [ops_width fold_right keys map In]. rewrite Nat.max_0_r. split; [left; lia|]. intros y [<-|[]]. lia.
  - destruct (IH ltac:(discriminate)) as [H1 H2]. split.
    + destruct (Nat.max_spec (S k) (ops_width (x :: r'))) as [[Hlt ->]|[Hle ->]]; [right; exact H1|left; lia].
    + intros y [<-|Hy]; [lia|]. specialize (H2 _ Hy). lia.
Qed.

(* ------------------------------------------------------------------ _efficient_exponentiation, generically *)
(* frames used by the recursion on power > 0 *)
Fixpoint pow_depth (p : positive) : nat :=
  match p with xH => 2 | xO q => S (pow_depth q) | xI q => S (S (pow_depth q)) end.
Definition pow_fuel (k : Z) : nat := match k with Zpos p => pow_depth p | _ => 1 end.

Lemma pow_depth_bound p : pow_depth p <= 2 * Pos.size_nat p.
Proof. induction p as [q IH|q IH|]; cbn [pow_depth Pos.size_nat]; lia. Qed.

Section PowGen.
  Context {T A : Type} (F : nat -> T -> Z -> result T) (ID : result T) (M : T -> T -> result T)
          (e : A -> T) (Inv : A -> Prop) (mul : A -> A -> A) (one : A).
  Hypothesis FS : forall fuel x k, F (S fuel) x k =
    if Z.eqb k 0 then bind ID (fun r => Ok r)
    else if Z.eqb (k mod 2) 1 then bind (F fuel x (k - 1)) (fun r => bind (M x r) (fun r' => Ok r'))
    else bind (F fuel x (k / 2)) (fun r => bind (M r r) (fun r' => Ok r')).
  Hypothesis HID : ID = Ok (e one).
  Hypothesis Hone : Inv one.
  Hypothesis HM : forall a b, Inv a -> Inv b -> M (e a) (e b) = Ok (e (mul a b)) /\ Inv (mul a b).

  Lemma pow_gen_zero x fuel : F (S fuel) x 0 = Ok (e one).
  Proof. rewrite FS. cbn [Z.eqb]. rewrite HID. reflexivity. Qed.

  Lemma pow_gen_even x q fuel : F (S fuel) x (Zpos q~0) = bind (F fuel x (Zpos q)) (fun r => bind (M r r) (fun r' => Ok r')).
  Proof.
    rewrite FS. cbn [Z.eqb].
    assert (E1 : (Zpos q~0 mod 2 = 0)%Z) by (rewrite Pos2Z.inj_xO, Z.mul_comm; apply Z.mod_mul; lia).
    assert (E2 : (Zpos q~0 / 2 = Zpos q)%Z) by (rewrite Pos2Z.inj_xO, Z.mul_comm; apply Z.div_mul; lia).
    rewrite E1, E2. reflexivity.
  Qed.

  Lemma pow_gen_odd x q fuel : F (S fuel) x (Zpos q~1) = bind (F fuel x (Zpos q~0)) (fun r => bind (M x r) (fun r' => Ok r')).
  Proof.
    rewrite FS. cbn [Z.eqb].
    assert (E1 : (Zpos q~1 mod 2 = 1)%Z) by (rewrite Pos2Z.inj_xI, Z.add_comm, Z.mul_comm, Z.mod_add by lia; reflexivity).
    assert (E2 : (Zpos q~1 - 1 = Zpos q~0)%Z) by lia.
    rewrite E1, E2. reflexivity.
  Qed.

  Lemma pow_gen_pos x : Inv x -> forall p fuel, pow_depth p <= fuel ->
    F fuel (e x) (Zpos p) = Ok (e (pow_pos mul one x p)) /\ Inv (pow_pos mul one x p).
  Proof.
    intro Hx. induction p as [q IH|q IH|]; intros fuel Hf; cbn [pow_depth] in Hf; cbn [pow_pos].
    - destruct fuel as [|[|f]]; [lia|lia|]. destruct (IH f ltac:(lia)) as [E I1].
      destruct (HM _ _ I1 I1) as [E2 I2]. destruct (HM _ _ Hx I2) as [E3 I3].
      rewrite pow_gen_odd, pow_gen_even, E. cbn [bind]. rewrite E2. cbn [bind]. rewrite E3. split; [reflexivity|exact I3].
    - destruct fuel as [|f]; [lia|]. destruct (IH f ltac:(lia)) as [E I1]. destruct (HM _ _ I1 I1) as [E2 I2].
      rewrite pow_gen_even, E. cbn [bind]. rewrite E2. split; [reflexivity|exact I2].
    - destruct fuel as [|[|f]]; [lia|lia|]. destruct (HM _ _ Hx Hone) as [E2 I2].
      rewrite FS. cbn [Z.eqb Z.modulo Z.div_eucl Z.pos_div_eucl Z.leb Z.compare Pos.compare Pos.compare_cont Z.ltb snd Z.sub Z.add Z.opp Z.pos_sub].
      rewrite pow_gen_zero. cbn [bind]. rewrite E2. split; [reflexivity|exact I2].
  Qed.

  Lemma pow_gen_N x k : Inv x -> (0 <= k)%Z -> forall fuel, pow_fuel k <= fuel ->
    F fuel (e x) k = Ok (e (pow_N mul one x (Z.to_N k))) /\ Inv (pow_N mul one x (Z.to_N k)).
  Proof.
    intros Hx Hk fuel Hf. destruct k as [|p|p]; [|apply pow_gen_pos; assumption|lia].
    cbn [pow_fuel] in Hf. destruct fuel as [|f]; [lia|]. rewrite pow_gen_zero. split; [reflexivity|exact Hone].
  Qed.
End PowGen.

(* ------------------------------------------------------------------ agreement, method by method *)
Section Agreement.
  Variable P : pyenv.
  Hypothesis HO : order_ok P.
  Notation K := (py_ring P).
  Add Ring Kring : (c_ring (py_ring P)).

  (* np.isclose(c, 0.0) / np.allclose(c, 0): the model's zero test *)
  Definition is_zero (c : K) : bool := np_close P c c0.

  Definition emb_term (t : term K) : PauliTerm_obj P := mk_PauliTerm P (emb_ops (tops t)) (coef t).
  Definition emb_sum (s : psum K) : PauliSum_obj P := mk_PauliSum P (map emb_term s).
  Definition emb_operand (a : operand K) : pyval P :=
    match a with OT t => VT P (emb_term t) | OS s => VS P (emb_sum s) | ON c => VN P c end.

  Lemma perm_site site {A} (l : list A) : Permutation (py_unordered P site l) l.
  Proof. apply HO. Qed.

  Lemma in_site site {A} (l : list A) x : In x (py_unordered P site l) -> In x l.
  Proof. apply Permutation_in. apply perm_site. Qed.

  Lemma unordered_single site {A} (x : A) : py_unordered P site [x] = [x].
  Proof. apply Permutation_length_1_inv. apply Permutation_sym. apply perm_site. Qed.

  (* ---- PauliTerm.__init__ *)
  Theorem init_gen (l : ops) (c : K) : ops_sorted l ->
    PauliTerm_init_dict_num_gen P (emb_ops l) c = Ok (emb_term (mk_term c l)).
  Proof.
    intro Hs. unfold PauliTerm_init_dict_num_gen.
    rewrite py_all_true.
    2:{ intros x Hx. apply in_site in Hx. unfold py_dict_keys in Hx. rewrite zkeys_emb in Hx. apply in_map_iff in Hx.
        destruct Hx as [k [<- _]]. apply Z.leb_le. lia. }
    cbn [negb]. rewrite py_all_true.
    2:{ intros x Hx. apply in_site in Hx. unfold py_dict_values, emb_ops in Hx. rewrite map_map in Hx.
        apply in_map_iff in Hx. destruct Hx as [[k a] [<- _]]. cbn [emb_item snd]. apply letter_str_allowed. }
    cbn [negb]. cbv zeta. unfold emb_term. cbn [tops coef]. do 2 f_equal.
    apply of_items_perm; [exact Hs|]. rewrite map_pair_id.
    assert (E : forall d, (forall x, In x d -> In x (emb_ops l)) ->
                filter (fun '(_, v_op) => negb (String.eqb v_op "I")) d = d).
    { induction d as [|[k s] r IH]; intro H; cbn [filter]; [reflexivity|].
      assert (Hs' : String.eqb s "I" = false).
      { specialize (H (k, s) (or_introl eq_refl)). unfold emb_ops in H. apply in_map_iff in H.
        destruct H as [[k' a] [E _]]. inversion E. apply letter_str_not_I. }
      rewrite Hs'. cbn [negb]. rewrite IH by (intros x Hx; apply H; right; exact Hx). reflexivity. }
    rewrite E by (intros x Hx; apply in_site in Hx; exact Hx). apply perm_site.
  Qed.

  (* PauliTerm("I0", c): the dictionary {0: "I"} *)
  Theorem init_I0_gen (c : K) :
    PauliTerm_init_dict_num_gen P (py_dict_of_items [(0%Z, "I"%string)]) c = Ok (emb_term (const c)).
  Proof.
    unfold PauliTerm_init_dict_num_gen. change (py_dict_of_items [(0%Z, "I"%string)]) with [(0%Z, "I"%string)].
    unfold py_dict_keys, py_dict_values, py_dict_items. cbn [map fst snd].
    rewrite !unordered_single.     reflexivity.
  Qed.

  Theorem identity_gen : PauliTerm_identity_gen P = Ok (emb_term identity).
  Proof.
    unfold PauliTerm_identity_gen. rewrite init_I0_gen. reflexivity.
  Qed.

  (* ---- PauliSum.__init__ *)
  Theorem sum_init_gen (ts : list (PauliTerm_obj P)) : PauliSum_init_list_term_gen P ts = Ok (mk_PauliSum P ts).
  Proof. unfold PauliSum_init_list_term_gen. rewrite py_all_true by reflexivity. reflexivity. Qed.

  Theorem sum_identity_gen : PauliSum_identity_gen P = Ok (emb_sum sum_identity).
  Proof. unfold PauliSum_identity_gen. rewrite identity_gen. cbn [bind]. rewrite sum_init_gen. reflexivity. Qed.

  (* ---- copy *)
  Theorem copy_none_gen (t : term K) : ops_sorted (tops t) -> PauliTerm_copy_none_gen P (emb_term t) tt = Ok (emb_term t).
  Proof.
    intro Hs. unfold PauliTerm_copy_none_gen. cbv zeta. cbn [emb_term PauliTerm__ops PauliTerm_coefficient].
    rewrite init_gen by exact Hs. destruct t; reflexivity.
  Qed.

  Theorem copy_num_gen (t : term K) (c : K) : ops_sorted (tops t) ->
    PauliTerm_copy_num_gen P (emb_term t) c = Ok (emb_term (mk_term c (tops t))).
  Proof.
    intro Hs. unfold PauliTerm_copy_num_gen. cbn [emb_term PauliTerm__ops PauliTerm_coefficient].
    rewrite init_gen by exact Hs. reflexivity.
  Qed.

  (* ---- qubits, operations, is_constant, n_qubits, __getitem__, __iter__ *)
  Theorem qubits_gen (t : term K) : ops_sorted (tops t) ->
    PauliTerm_qubits_gen P (emb_term t) = Ok (map Z.of_nat (keys (tops t))).
  Proof.
    intro Hs. unfold PauliTerm_qubits_gen. cbn [emb_term PauliTerm__ops]. f_equal. unfold py_dict_keys.
    rewrite <- zkeys_emb. apply set_of_list_perm; [apply zkeys_sorted; exact Hs|]. apply Permutation_sym. apply perm_site.
  Qed.

  Theorem operations_gen (t : term K) : ops_sorted (tops t) ->
    PauliTerm_operations_gen P (emb_term t) = Ok (emb_ops (tops t)).
  Proof.
    intro Hs. unfold PauliTerm_operations_gen, py_itemset_of_list. cbn [emb_term PauliTerm__ops]. f_equal.
    apply of_items_perm; [exact Hs|]. apply perm_site.
  Qed.

  Theorem is_constant_gen (t : term K) :
    PauliTerm_is_constant_gen P (emb_term t) = Ok (match tops t with [] => true | _ => false end).
  Proof. unfold PauliTerm_is_constant_gen. cbn [emb_term PauliTerm__ops]. destruct (tops t) as [|[k a] r]; reflexivity. Qed.

  Theorem n_qubits_gen (t : term K) : ops_sorted (tops t) ->
    PauliTerm_n_qubits_gen P (emb_term t) = Ok (Z.of_nat (term_width t)).
  Proof.
    intro Hs. unfold PauliTerm_n_qubits_gen. rewrite is_constant_gen. cbn [bind]. unfold term_width.
    destruct (tops t) as [|x r] eqn:E; [reflexivity|]. rewrite <- E in *.
    rewrite qubits_gen by exact Hs. cbn [bind]. unfold py_set_elems.
    destruct (ops_width_max (tops t)) as [H1 H2]; [rewrite E; discriminate|].
    rewrite (py_max_spec _ (Z.of_nat (ops_width (tops t)) - 1)%Z).
    - cbn [bind]. f_equal. lia.
    - apply (Permutation_in _ (Permutation_sym (perm_site _ _))). exact H1.
    - intros y Hy. apply in_site in Hy. apply H2. exact Hy.
  Qed.

  Definition letter_or_I (o : option letter) : string := match o with Some a => letter_str a | None => "I"%string end.

  Theorem getitem_gen (t : term K) (q : nat) :
    PauliTerm_getitem_int_gen P (emb_term t) (Z.of_nat q) = Ok (letter_or_I (lookup q (tops t))).
  Proof.
    unfold PauliTerm_getitem_int_gen, py_dict_get, py_dict_contains. cbn [emb_term PauliTerm__ops]. rewrite find_emb.
    destruct (lookup q (tops t)); reflexivity.
  Qed.

  (* for op, index in term: the items of the term in some order *)
  Theorem iter_gen (t : term K) : ops_sorted (tops t) -> exists l0, Permutation (tops t) l0 /\
    PauliTerm_iter_gen P (emb_term t) = Ok (map (fun qa => (letter_str (snd qa), Z.of_nat (fst qa))) l0).
  Proof.
    intro Hs. unfold PauliTerm_iter_gen. rewrite qubits_gen by exact Hs. cbn [bind]. unfold py_set_elems.
    match goal with |- context [py_unordered P ?s ?l] => pose proof (perm_site s l) as Hp end. unfold keys in Hp. rewrite map_map in Hp.
    destruct (Permutation_map_inv _ _ Hp) as [l0 [E Hp0]]. exists l0. split; [exact Hp0|].
    unfold keys. rewrite map_map, E. apply py_mapM_map. intros [q a] Hin. cbn [fst snd].
    rewrite getitem_gen. cbn [bind]. do 2 f_equal.
    assert (Hl : lookup q (tops t) = Some a).
    { apply lookup_in; [apply ops_sorted_nodup; exact Hs|]. apply (Permutation_in _ (Permutation_sym Hp0)). exact Hin. }
    rewrite Hl. reflexivity.
  Qed.

  (* ---- the tables as the generated code reads them *)
  Lemma table_op (a b : letter) : a <> b ->
    py_table_get Z.eqb OPERATOR_MAP (ord (letter_str a) + ord (letter_str b))%Z = Ok (letter_str (op_tab a b)).
  Proof. destruct a, b; intro H; try congruence; reflexivity. Qed.

  Lemma table_coeff (a b : letter) : a <> b ->
    py_table_get String.eqb (COEFF_MAP K) (String.append (letter_str a) (letter_str b)) = Ok (coeff_tab K a b).
  Proof. destruct a, b; intro H; try congruence; reflexivity. Qed.

  (* ---- PauliTerm._multiply_by_operator *)
  Theorem multiply_by_operator_gen (t : term K) (b : letter) (q : nat) : ops_sorted (tops t) ->
    PauliTerm_multiply_by_operator_str_int_gen P (emb_term t) (letter_str b) (Z.of_nat q) = Ok (emb_term (mul_by_op t b q)).
  Proof.
    intro Hs. unfold PauliTerm_multiply_by_operator_str_int_gen, mul_by_op. cbv zeta.
    unfold py_dict_copy, py_dict_contains, py_dict_getitem, py_dict_delitem, py_dict_contains.
    rewrite !getitem_gen. cbn [emb_term PauliTerm__ops PauliTerm_coefficient]. rewrite find_emb.
    destruct (lookup q (tops t)) as [a|] eqn:El; cbn [option_map negb bind letter_or_I].
    - rewrite letter_str_eqb. destruct (letter_eqb_spec a b) as [->|Hne].
      + cbn [bind]. rewrite remove_emb. rewrite init_gen by (apply del_op_sorted; exact Hs). reflexivity.
      + rewrite letter_str_xyz. rewrite (table_op a b Hne). cbn [bind]. rewrite (table_coeff a b Hne). cbn [bind].
        rewrite set_emb. rewrite init_gen by (apply set_op_sorted; exact Hs). reflexivity.
    - rewrite set_emb. rewrite init_gen by (apply set_op_sorted; exact Hs). reflexivity.
  Qed.

  (* ---- PauliTerm.__mul__(PauliTerm) *)
  Notation mstep := (fun (acc : term K) (it : nat * letter) => mul_by_op acc (snd it) (fst it)).

  Lemma fold_step_sorted (items : ops) : forall t : term K, ops_sorted (tops t) -> ops_sorted (tops (fold_left mstep items t)).
  Proof.
    induction items as [|[q b] r IH]; intros t Hs; cbn [fold_left]; [exact Hs|]. apply IH. cbn [fst snd].
    unfold mul_by_op. destruct (lookup q (tops t)) as [a|]; [destruct (letter_eqb a b)|]; cbn [tops];
      first [apply set_op_sorted|apply del_op_sorted]; exact Hs.
  Qed.

  Lemma lprod_perm {A} (l l0 : list A) (f : A -> K) : Permutation l l0 -> lprod l f = lprod l0 f.
  Proof.
    induction 1 as [|x l l' _ IH|x y l|l l' l'' _ IH1 _ IH2]; cbn [lprod];
      [reflexivity|rewrite IH; reflexivity|ring|congruence].
  Qed.

  (* the loop `for op, index in other` does not depend on the order in which the qubits of other are produced *)
  Lemma fold_step_perm (items l0 : ops) (t : term K) : ops_sorted (tops t) -> NoDup (keys items) -> Permutation items l0 ->
    fold_left mstep l0 t = fold_left mstep items t.
  Proof.
    intros Hs Hnd Hp.
    assert (Hnd0 : NoDup (keys l0)) by (apply (Permutation_NoDup (keys_perm _ _ Hp)); exact Hnd).
    destruct (fold_step K items t Hnd) as [A1 A2]. destruct (fold_step K l0 t Hnd0) as [B1 B2].
    fold (step K) in *. unfold step in *.
    destruct (fold_left mstep l0 t) as [c0' l0'] eqn:E0. destruct (fold_left mstep items t) as [c1' l1'] eqn:E1.
    cbn [coef tops] in *. f_equal.
    - rewrite A2, B2. f_equal. symmetry. apply lprod_perm. exact Hp.
    - apply sorted_ext.
      + pose proof (fold_step_sorted l0 t Hs) as H. rewrite E0 in H. exact H.
      + pose proof (fold_step_sorted items t Hs) as H. rewrite E1 in H. exact H.
      + intro q'. rewrite A1, B1. rewrite (lookup_perm items l0 q' Hnd Hp). reflexivity.
  Qed.

  Lemma mul_step_sorted (t : term K) b q : ops_sorted (tops t) -> ops_sorted (tops (mul_by_op t b q)).
  Proof. intro Hs. exact (fold_step_sorted [(q, b)] t Hs). Qed.

  Theorem mul_term_gen (t1 t2 : term K) : ops_sorted (tops t1) -> ops_sorted (tops t2) ->
    PauliTerm_mul_term_gen P (emb_term t1) (emb_term t2) = Ok (emb_term (term_mul t1 t2)).
  Proof.
    intros H1 H2. unfold PauliTerm_mul_term_gen, validate_type_term_gen. cbn [bind].
    rewrite copy_num_gen by exact H1. cbn [bind]. cbv zeta.
    destruct (iter_gen t2 H2) as [l0 [Hp ->]]. cbn [bind].
    change (py_num_of_Z P 1) with (@c1 K).
    rewrite (py_for_fold (fun qa : nat * letter => (letter_str (snd qa), Z.of_nat (fst qa))) emb_term
               (fun t : term K => ops_sorted (tops t)) mstep).
    2:{ intros [q b] t _ Hs. cbn [fst snd]. rewrite letter_str_not_I. cbn [negb].
        rewrite multiply_by_operator_gen by exact Hs. split; [reflexivity|apply mul_step_sorted; exact Hs]. }
    2:{ exact H1. }
    cbn [bind].
    rewrite (fold_step_perm (tops t2) l0 (mk_term c1 (tops t1)) H1 (ops_sorted_nodup _ H2) Hp).
    rewrite copy_num_gen by (apply (fold_step_sorted (tops t2) (mk_term c1 (tops t1))); exact H1).
    reflexivity.
  Qed.

  (* ---- PauliTerm * number, number * PauliTerm *)
  Theorem mul_num_gen (t : term K) (c : K) : ops_sorted (tops t) ->
    PauliTerm_mul_num_gen P (emb_term t) c = Ok (emb_term (term_scale t c)).
  Proof.
    intro Hs. unfold PauliTerm_mul_num_gen, validate_type_num_gen. cbn [bind]. rewrite copy_num_gen by exact Hs. reflexivity.
  Qed.

  Theorem rmul_num_gen (t : term K) (c : K) : ops_sorted (tops t) ->
    PauliTerm_rmul_num_gen P (emb_term t) c = Ok (emb_term (term_scale t c)).
  Proof. intro Hs. unfold PauliTerm_rmul_num_gen. rewrite mul_num_gen by exact Hs. reflexivity. Qed.

  (* ---- PauliSum.simplify *)
  Definition sorted_sum (s : psum K) : Prop := Forall (fun t => ops_sorted (tops t)) s.

  (* the OrderedDict like_terms: key -> list of terms, against the model's key -> list of coefficients *)
  Definition emb_group (kc : ops * list K) : list (PauliTerm_obj P) := map (fun c => emb_term (mk_term c (fst kc))) (snd kc).
  Definition emb_groups (g : list (ops * list K)) : pyodict (list (PauliTerm_obj P)) :=
    map (fun kc => (emb_ops (fst kc), emb_group kc)) g.

  Lemma group_step (key : ops) (c : K) : forall g,
    let G := emb_groups g in let k := emb_ops key in let T := emb_term (mk_term c key) in
    (if py_odict_contains G k then bind (py_odict_getitem G k) (fun x2 => Ok (py_odict_set G k (x2 ++ [T])))
     else Ok (py_odict_set G k [T])) = Ok (emb_groups (group_insert key c g)).
  Proof.
    cbv zeta. unfold py_odict_contains, py_odict_getitem.
    induction g as [|[k0 cs] r IH]; cbn [emb_groups map fst snd py_odict_find py_odict_set group_insert]; [reflexivity|].
    change (map (fun kc => (emb_ops (fst kc), emb_group kc)) r) with (emb_groups r).
    unfold py_itemset_eqb. rewrite eqb_emb. destruct (ops_eqb key k0) eqn:E.
    - apply ops_eqb_eq in E. subst k0. cbn [bind emb_groups map fst snd]. unfold emb_group. cbn [fst snd].
      rewrite map_app. reflexivity.
    - destruct (py_odict_find (emb_groups r) (emb_ops key)) as [v|]; cbn [bind] in *;
        inversion IH as [E']; cbn [emb_groups map fst snd]; rewrite E'; reflexivity.
  Qed.

  Lemma group_insert_nonempty key (c : K) g :
    Forall (fun kc : ops * list K => snd kc <> []) g -> Forall (fun kc : ops * list K => snd kc <> []) (group_insert key c g).
  Proof.
    induction 1 as [|[k cs] r Hk Hr IH]; cbn [group_insert].
    - constructor; [discriminate|constructor].
    - destruct (ops_eqb key k); constructor; try assumption. cbn [snd]. destruct cs; discriminate.
  Qed.

  Lemma like_terms_nonempty (s : psum K) : forall g, Forall (fun kc : ops * list K => snd kc <> []) g ->
    Forall (fun kc : ops * list K => snd kc <> []) (fold_left (fun g t => group_insert (tops t) (coef t) g) s g).
  Proof.
    induction s as [|t s IH]; intros g Hg; cbn [fold_left]; [exact Hg|]. apply IH. apply group_insert_nonempty. exact Hg.
  Qed.

  Lemma flat_map_fold {A B} (f : A -> list B) (l : list A) : forall acc,
    fold_left (fun acc x => acc ++ f x) l acc = acc ++ flat_map f l.
  Proof.
    induction l as [|x r IH]; intro acc; cbn [fold_left flat_map]; [rewrite app_nil_r; reflexivity|].
    rewrite IH, app_assoc. reflexivity.
  Qed.

  Lemma py_sum_emb (kc : ops * list K) :
    py_sum_num P (map (fun v_t => PauliTerm_coefficient P v_t) (emb_group kc)) = py_sum (snd kc).
  Proof. unfold emb_group. rewrite map_map. cbn [emb_term PauliTerm_coefficient coef]. rewrite map_id. reflexivity. Qed.

  Theorem simplify_gen (s : psum K) : sorted_sum s ->
    PauliSum_simplify_gen P (emb_sum s) = Ok (emb_sum (simplify is_zero s)).
  Proof.
    intro Hs. unfold PauliSum_simplify_gen. cbv zeta. cbn [emb_sum PauliSum_terms].
    change (@py_odict_empty (list (PauliTerm_obj P))) with (emb_groups []).
    rewrite (py_for_fold emb_term emb_groups (fun _ => True) (fun g t => group_insert (tops t) (coef t) g)).
    2:{ intros t g Ht _. split; [|exact I]. unfold sorted_sum in Hs. rewrite Forall_forall in Hs.
        rewrite operations_gen by (apply Hs; exact Ht). cbn [bind].
        pose proof (group_step (tops t) (coef t) g) as H. cbv zeta in H. destruct t as [c l]. exact H. }
    2:{ exact I. }
    cbn [bind]. fold (like_terms s).
    assert (Hk : Forall (fun kc : ops * list K => ops_sorted (fst kc)) (like_terms s))
      by (apply (like_terms_keys K ops_sorted s []); [exact Hs|constructor]).
    assert (Hn : Forall (fun kc : ops * list K => snd kc <> []) (like_terms s))
      by (apply (like_terms_nonempty s []); constructor).
    unfold py_odict_values, emb_groups. rewrite map_map. cbn [snd].
    change (@nil (PauliTerm_obj P)) with (map emb_term []).
    rewrite (py_for_fold emb_group (map emb_term) (fun _ => True) (fun acc kc => acc ++ group_out is_zero kc)).
    2:{ intros [k cs] acc Hin _. split; [|exact I]. rewrite Forall_forall in Hk, Hn.
        specialize (Hk _ Hin). specialize (Hn _ Hin). cbn [fst snd] in Hk, Hn.
        destruct cs as [|c cs']; [congruence|]. rewrite py_sum_emb.
        unfold group_out, single_kept. cbn [fst snd hd emb_group map]. unfold py_list_getitem, py_len.
        cbn [Z.ltb Z.compare Z.to_nat nth_error bind List.length].
        cbn [emb_term PauliTerm_coefficient coef]. change (np_close P c (py_num_of_Z P 0)) with (is_zero c).
        change (np_close P (py_sum (c :: cs')) (py_num_of_Z P 0)) with (is_zero (py_sum (c :: cs'))).
        destruct cs' as [|c2 cs'']; cbn [map List.length].
        - cbn [Z.of_nat Z.eqb andb Pos.of_succ_nat Pos.eqb]. destruct (is_zero c) eqn:Ez; cbn [negb].
          + assert (E : py_sum [c] = c) by (unfold py_sum; cbn [fold_left]; ring). rewrite E, Ez. cbn [negb].
            rewrite app_nil_r. reflexivity.
          + rewrite map_app. reflexivity.
        - rewrite map_length. replace (Z.eqb (Z.of_nat (S (S (List.length cs'')))) 1) with false by (symmetry; apply Z.eqb_neq; lia).
          cbn [andb]. destruct (is_zero (py_sum (c :: c2 :: cs''))); cbn [negb].
          + rewrite app_nil_r. reflexivity.
          + pose proof (copy_num_gen (mk_term c k) (py_sum (c :: c2 :: cs'')) Hk) as Hc. cbn [tops] in Hc.
            rewrite Hc. cbn [bind]. rewrite map_app. reflexivity. }
    2:{ exact I. }
    cbn [bind]. rewrite sum_init_gen. cbn [bind]. rewrite flat_map_fold. reflexivity.
  Qed.

  (* ---- sums of terms: invariants *)
  Lemma term_mul_sorted (t1 t2 : term K) : ops_sorted (tops t1) -> ops_sorted (tops (term_mul t1 t2)).
  Proof. intro H. unfold term_mul. cbn [tops]. apply (fold_step_sorted (tops t2) (mk_term c1 (tops t1))). exact H. Qed.

  Lemma simplify_sorted (s : psum K) : sorted_sum s -> sorted_sum (simplify is_zero s).
  Proof. apply (simplify_tops K is_zero ops_sorted). Qed.

  Lemma products_sorted (s1 s2 : psum K) : sorted_sum s1 -> sorted_sum (products s1 s2).
  Proof.
    unfold sorted_sum, products. rewrite !Forall_forall. intros H t Ht. apply in_flat_map in Ht.
    destruct Ht as [l [Hl Ht]]. apply in_map_iff in Ht. destruct Ht as [r [<- _]]. apply term_mul_sorted. apply H. exact Hl.
  Qed.

  Lemma sorted_app (s1 s2 : psum K) : sorted_sum s1 -> sorted_sum s2 -> sorted_sum (s1 ++ s2).
  Proof. intros H1 H2. apply Forall_app. split; assumption. Qed.

  Lemma sorted_single (t : term K) : ops_sorted (tops t) -> sorted_sum [t].
  Proof. intro H. constructor; [exact H|constructor]. Qed.

  Lemma products_product (s1 s2 : psum K) :
    products s1 s2 = map (fun p => term_mul (fst p) (snd p)) (py_product s1 s2).
  Proof.
    unfold products, py_product. induction s1 as [|l r IH]; cbn [flat_map map]; [reflexivity|].
    rewrite map_app, map_map, IH. reflexivity.
  Qed.

  Lemma product_map {A B A' B'} (f : A -> A') (g : B -> B') (a : list A) (b : list B) :
    py_product (map f a) (map g b) = map (fun p => (f (fst p), g (snd p))) (py_product a b).
  Proof.
    unfold py_product. induction a as [|x r IH]; cbn [flat_map map]; [reflexivity|].
    rewrite map_app, !map_map, IH. reflexivity.
  Qed.

  Lemma in_product {A B} (a : list A) (b : list B) p : In p (py_product a b) -> In (fst p) a /\ In (snd p) b.
  Proof.
    unfold py_product. intro H. apply in_flat_map in H. destruct H as [x [Hx H]]. apply in_map_iff in H.
    destruct H as [y [<- Hy]]. split; assumption.
  Qed.

  (* [left * right for left, right in product(self.terms, other_terms)], then PauliSum(...).simplify() *)
  Lemma products_gen (s1 s2 : psum K) : sorted_sum s1 -> sorted_sum s2 ->
    py_mapM (fun '(v_left_term, v_right_term) =>
               bind (PauliTerm_mul_term_gen P v_left_term v_right_term) (fun x => Ok x))
            (py_product (map emb_term s1) (map emb_term s2)) = Ok (map emb_term (products s1 s2)).
  Proof.
    intros H1 H2. rewrite product_map, products_product, map_map. apply py_mapM_map.
    intros [l r] Hin. apply in_product in Hin. cbn [fst snd] in *. destruct Hin as [Hl Hr].
    unfold sorted_sum in H1, H2. rewrite Forall_forall in H1, H2.
    rewrite mul_term_gen by (first [apply H1; assumption|apply H2; assumption]). reflexivity.
  Qed.

  Theorem sum_mul_sum_gen (s1 s2 : psum K) : sorted_sum s1 -> sorted_sum s2 ->
    PauliSum_mul_sum_gen P (emb_sum s1) (emb_sum s2) = Ok (emb_sum (sum_mul is_zero s1 s2)).
  Proof.
    intros H1 H2. unfold PauliSum_mul_sum_gen, validate_type_sum_gen. cbn [bind]. cbv zeta. cbn [emb_sum PauliSum_terms].
    rewrite (products_gen s1 s2 H1 H2). cbn [bind]. rewrite sum_init_gen. cbn [bind].
    change (mk_PauliSum P (map emb_term (products s1 s2))) with (emb_sum (products s1 s2)).
    rewrite simplify_gen by (apply products_sorted; exact H1). reflexivity.
  Qed.

  Theorem sum_mul_term_gen (s : psum K) (t : term K) : sorted_sum s -> ops_sorted (tops t) ->
    PauliSum_mul_term_gen P (emb_sum s) (emb_term t) = Ok (emb_sum (sum_mul is_zero s [term_mul identity t])).
  Proof.
    intros H1 H2. unfold PauliSum_mul_term_gen, validate_type_term_gen. cbn [bind]. rewrite identity_gen. cbn [bind].
    rewrite mul_term_gen by (first [exact I|exact H2]). cbn [bind]. cbv zeta. cbn [emb_sum PauliSum_terms].
    change [emb_term (term_mul identity t)] with (map emb_term [term_mul identity t]).
    rewrite (products_gen s [term_mul identity t] H1) by (apply sorted_single; apply term_mul_sorted; exact I).
    cbn [bind]. rewrite sum_init_gen. cbn [bind].
    change (mk_PauliSum P (map emb_term (products s [term_mul identity t]))) with (emb_sum (products s [term_mul identity t])).
    rewrite simplify_gen by (apply products_sorted; exact H1). reflexivity.
  Qed.

  Theorem sum_mul_num_gen (s : psum K) (c : K) : sorted_sum s ->
    PauliSum_mul_num_gen P (emb_sum s) c = Ok (emb_sum (sum_mul is_zero s [term_scale identity c])).
  Proof.
    intros H1. unfold PauliSum_mul_num_gen, validate_type_num_gen. cbn [bind]. rewrite identity_gen. cbn [bind].
    rewrite mul_num_gen by exact I. cbn [bind]. cbv zeta. cbn [emb_sum PauliSum_terms].
    change [emb_term (term_scale identity c)] with (map emb_term [term_scale identity c]).
    rewrite (products_gen s [term_scale identity c] H1) by (apply sorted_single; exact I).
    cbn [bind]. rewrite sum_init_gen. cbn [bind].
    change (mk_PauliSum P (map emb_term (products s [term_scale identity c]))) with (emb_sum (products s [term_scale identity c])).
    rewrite simplify_gen by (apply products_sorted; exact H1). reflexivity.
  Qed.

  Theorem term_mul_sum_gen (t : term K) (s : psum K) : ops_sorted (tops t) -> sorted_sum s ->
    PauliTerm_mul_sum_gen P (emb_term t) (emb_sum s) = Ok (emb_sum (simplify is_zero (sum_mul is_zero [t] s))).
  Proof.
    intros H1 H2. unfold PauliTerm_mul_sum_gen, validate_type_sum_gen. cbn [bind]. rewrite sum_init_gen. cbn [bind].
    change (mk_PauliSum P [emb_term t]) with (emb_sum [t]).
    rewrite sum_mul_sum_gen by (first [apply sorted_single; exact H1|exact H2]). cbn [bind].
    rewrite simplify_gen by (apply simplify_sorted; apply products_sorted; apply sorted_single; exact H1). reflexivity.
  Qed.

  Theorem sum_rmul_num_gen (s : psum K) (c : K) : sorted_sum s ->
    PauliSum_rmul_num_gen P (emb_sum s) c = Ok (emb_sum (sum_rscale is_zero c s)).
  Proof.
    intro H1. unfold PauliSum_rmul_num_gen. cbn [emb_sum PauliSum_terms].
    rewrite (py_mapM_map emb_term (fun t => emb_term (term_scale t c))).
    2:{ intros t Ht. unfold sorted_sum in H1. rewrite Forall_forall in H1. specialize (H1 _ Ht).
        rewrite copy_none_gen by exact H1. cbn [bind]. rewrite mul_num_gen by exact H1. reflexivity. }
    cbn [bind]. cbv zeta. rewrite sum_init_gen. cbn [bind].
    change (mk_PauliSum P (map (fun t => emb_term (term_scale t c)) s)) with
      (mk_PauliSum P (map (fun t => emb_term (term_scale t c)) s)).
    rewrite <- (map_map (fun t => term_scale t c) emb_term).
    change (mk_PauliSum P (map emb_term (map (fun t => term_scale t c) s))) with (emb_sum (map (fun t => term_scale t c) s)).
    rewrite simplify_gen; [reflexivity|]. unfold sorted_sum in *. rewrite Forall_forall in *. intros t Ht.
    apply in_map_iff in Ht. destruct Ht as [t0 [<- Ht0]]. exact (H1 t0 Ht0).
  Qed.

  (* [term.copy() for term in chain(self.terms, other.terms)], then PauliSum(...).simplify() *)
  Lemma add_core_gen (s1 s2 : psum K) : sorted_sum s1 -> sorted_sum s2 ->
    bind (py_mapM (fun v_term => bind (PauliTerm_copy_none_gen P v_term tt) (fun x => Ok x))
                  (PauliSum_terms P (emb_sum s1) ++ PauliSum_terms P (emb_sum s2)))
      (fun x3 => bind (PauliSum_init_list_term_gen P x3)
         (fun x4 => bind (PauliSum_simplify_gen P x4) (fun x5 => Ok x5))) = Ok (emb_sum (sum_add is_zero s1 s2)).
  Proof.
    intros H1 H2. cbn [emb_sum PauliSum_terms]. rewrite <- map_app.
    rewrite (py_mapM_map emb_term emb_term).
    2:{ intros t Ht. pose proof (sorted_app s1 s2 H1 H2) as H. unfold sorted_sum in H. rewrite Forall_forall in H.
        rewrite copy_none_gen by (apply H; exact Ht). reflexivity. }
    cbn [bind]. rewrite sum_init_gen. cbn [bind]. change (mk_PauliSum P (map emb_term (s1 ++ s2))) with (emb_sum (s1 ++ s2)).
    rewrite simplify_gen by (apply sorted_app; assumption). reflexivity.
  Qed.

  Theorem sum_add_sum_gen (s1 s2 : psum K) : sorted_sum s1 -> sorted_sum s2 ->
    PauliSum_add_sum_gen P (emb_sum s1) (emb_sum s2) = Ok (emb_sum (sum_add is_zero s1 s2)).
  Proof. intros H1 H2. unfold PauliSum_add_sum_gen, validate_type_sum_gen. cbn [bind]. cbv zeta. apply add_core_gen; assumption. Qed.

  Theorem sum_add_term_gen (s : psum K) (t : term K) : sorted_sum s -> ops_sorted (tops t) ->
    PauliSum_add_term_gen P (emb_sum s) (emb_term t) = Ok (emb_sum (sum_add is_zero s [t])).
  Proof.
    intros H1 H2. unfold PauliSum_add_term_gen, validate_type_term_gen. cbn [bind]. rewrite sum_init_gen. cbn [bind]. cbv zeta.
    change (mk_PauliSum P [emb_term t]) with (emb_sum [t]). apply add_core_gen; [exact H1|apply sorted_single; exact H2].
  Qed.

  Theorem sum_add_num_gen (s : psum K) (c : K) : sorted_sum s ->
    PauliSum_add_num_gen P (emb_sum s) c = Ok (emb_sum (sum_add is_zero s [const c])).
  Proof.
    intros H1. unfold PauliSum_add_num_gen, validate_type_num_gen. cbn [bind]. rewrite init_I0_gen. cbn [bind].
    rewrite sum_init_gen. cbn [bind]. cbv zeta.
    change (mk_PauliSum P [emb_term (const c)]) with (emb_sum [const c]). apply add_core_gen; [exact H1|apply sorted_single; exact I].
  Qed.

  Theorem term_add_term_gen (t1 t2 : term K) : ops_sorted (tops t1) -> ops_sorted (tops t2) ->
    PauliTerm_add_term_gen P (emb_term t1) (emb_term t2) = Ok (emb_sum (simplify is_zero [t1; t2])).
  Proof.
    intros H1 H2. unfold PauliTerm_add_term_gen, validate_type_term_gen. cbn [bind]. rewrite sum_init_gen. cbn [bind].
    change (mk_PauliSum P [emb_term t1; emb_term t2]) with (emb_sum [t1; t2]).
    rewrite simplify_gen; [reflexivity|]. constructor; [exact H1|apply sorted_single; exact H2].
  Qed.

  Theorem term_add_sum_gen (t : term K) (s : psum K) : ops_sorted (tops t) -> sorted_sum s ->
    PauliTerm_add_sum_gen P (emb_term t) (emb_sum s) = Ok (emb_sum (sum_add is_zero s [t])).
  Proof.
    intros H1 H2. unfold PauliTerm_add_sum_gen, validate_type_sum_gen. cbn [bind]. rewrite sum_add_term_gen by assumption. reflexivity.
  Qed.

  Theorem term_add_num_gen (t : term K) (c : K) : ops_sorted (tops t) ->
    PauliTerm_add_num_gen P (emb_term t) c = Ok (emb_sum (simplify is_zero [t; const c])).
  Proof.
    intros H1. unfold PauliTerm_add_num_gen, validate_type_num_gen. cbn [bind]. rewrite init_I0_gen. cbn [bind].
    rewrite term_add_term_gen by (first [exact H1|exact I]). reflexivity.
  Qed.

  Theorem term_radd_num_gen (t : term K) (c : K) : ops_sorted (tops t) ->
    PauliTerm_radd_num_gen P (emb_term t) c = Ok (emb_sum (simplify is_zero [t; const c])).
  Proof.
    intros H1. unfold PauliTerm_radd_num_gen. rewrite init_I0_gen. cbn [bind].
    rewrite term_add_term_gen by (first [exact H1|exact I]). reflexivity.
  Qed.

  Theorem sum_radd_num_gen (s : psum K) (c : K) : sorted_sum s ->
    PauliSum_radd_num_gen P (emb_sum s) c = Ok (emb_sum (sum_add is_zero s [const c])).
  Proof. intro H1. unfold PauliSum_radd_num_gen. rewrite sum_add_num_gen by exact H1. reflexivity. Qed.

  (* ---- the operators on every pair of operand kinds *)
  Definition operand_sorted (a : operand K) : Prop :=
    match a with OT t => ops_sorted (tops t) | OS s => sorted_sum s | ON _ => True end.

  Lemma operand_ok_sorted n (a : operand K) : operand_ok n a -> operand_sorted a.
  Proof.
    destruct a as [t|s|c]; cbn [operand_ok operand_sorted]; [intros [H _]; exact H| |tauto].
    unfold sum_ok, sorted_sum. apply Forall_impl. intros t [H _]. exact H.
  Qed.

  (* the model writes "the library does not handle this" (two plain numbers) as None *)
  Definition res_of (o : option (operand K)) : result (pyval P) :=
    match o with Some r => Ok (emb_operand r) | None => Raise NotTranslated end.

  Lemma rscale_sorted (c : K) (s : psum K) : sorted_sum s -> sorted_sum (sum_rscale is_zero c s).
  Proof.
    intro H. apply simplify_sorted. unfold sorted_sum in *. rewrite Forall_forall in *. intros t Ht.
    apply in_map_iff in Ht. destruct Ht as [t0 [<- Ht0]]. exact (H t0 Ht0).
  Qed.

  Theorem binop_add_agrees (a b : operand K) : operand_sorted a -> operand_sorted b ->
    binop_add_gen P (emb_operand a) (emb_operand b) = res_of (py_add is_zero a b).
  Proof.
    destruct a as [t1|s1|c1'], b as [t2|s2|c2']; cbn [operand_sorted emb_operand binop_add_gen py_add res_of]; intros Ha Hb;
      try reflexivity;
      first [rewrite term_add_term_gen by assumption | rewrite term_add_sum_gen by assumption
            |rewrite term_add_num_gen by assumption | rewrite sum_add_term_gen by assumption
            |rewrite sum_add_sum_gen by assumption | rewrite sum_add_num_gen by assumption
            |rewrite term_radd_num_gen by assumption | rewrite sum_radd_num_gen by assumption]; reflexivity.
  Qed.

  Theorem binop_mul_agrees (a b : operand K) : operand_sorted a -> operand_sorted b ->
    binop_mul_gen P (emb_operand a) (emb_operand b) = res_of (py_mul is_zero a b).
  Proof.
    destruct a as [t1|s1|c1'], b as [t2|s2|c2']; cbn [operand_sorted emb_operand binop_mul_gen py_mul res_of]; intros Ha Hb;
      try reflexivity;
      first [rewrite mul_term_gen by assumption | rewrite term_mul_sum_gen by assumption
            |rewrite mul_num_gen by assumption | rewrite sum_mul_term_gen by assumption
            |rewrite sum_mul_sum_gen by assumption | rewrite sum_mul_num_gen by assumption
            |rewrite rmul_num_gen by assumption | rewrite sum_rmul_num_gen by assumption]; reflexivity.
  Qed.

  Theorem binop_sub_agrees (a b : operand K) : operand_sorted a -> operand_sorted b ->
    binop_sub_gen P (emb_operand a) (emb_operand b) = res_of (py_sub is_zero a b).
  Proof.
    destruct a as [t1|s1|c1'], b as [t2|s2|c2']; cbn [operand_sorted emb_operand binop_sub_gen]; intros Ha Hb;
      try reflexivity.
    - unfold PauliTerm_sub_term_gen. rewrite rmul_num_gen by assumption. cbn [bind].
      rewrite term_add_term_gen by assumption. reflexivity.
    - unfold PauliTerm_sub_sum_gen. rewrite sum_rmul_num_gen by assumption. cbn [bind].
      rewrite term_add_sum_gen by (first [assumption|apply rscale_sorted; assumption]). reflexivity.
    - unfold PauliTerm_sub_num_gen. rewrite term_add_num_gen by assumption. reflexivity.
    - unfold PauliSum_sub_term_gen. rewrite rmul_num_gen by assumption. cbn [bind].
      rewrite sum_add_term_gen by assumption. reflexivity.
    - unfold PauliSum_sub_sum_gen. rewrite sum_rmul_num_gen by assumption. cbn [bind].
      rewrite sum_add_sum_gen by (first [assumption|apply rscale_sorted; assumption]). reflexivity.
    - unfold PauliSum_sub_num_gen. rewrite sum_add_num_gen by assumption. reflexivity.
    - unfold PauliTerm_rsub_num_gen. rewrite rmul_num_gen by assumption. cbn [bind].
      rewrite term_radd_num_gen by assumption. reflexivity.
    - unfold PauliSum_rsub_num_gen. rewrite sum_rmul_num_gen by assumption. cbn [bind].
      rewrite sum_radd_num_gen by (apply rscale_sorted; assumption). reflexivity.
  Qed.

  (* ---- == on terms *)
  Theorem eq_term_gen (t1 t2 : term K) : ops_sorted (tops t1) -> ops_sorted (tops t2) ->
    PauliTerm_eq_term_gen P (emb_term t1) (emb_term t2) = Ok (term_eqb is_zero (np_close P) t1 t2).
  Proof.
    intros H1 H2. unfold PauliTerm_eq_term_gen, term_eqb. cbv zeta. cbn [emb_term PauliTerm_coefficient].
    change (np_close P (coef t1) (py_num_of_Z P 0)) with (is_zero (coef t1)).
    destruct (np_close P (coef t1) (coef t2)); [|reflexivity]. destruct (is_zero (coef t1)); [reflexivity|].
    change (mk_PauliTerm P (emb_ops (tops t1)) (coef t1)) with (emb_term t1).
    change (mk_PauliTerm P (emb_ops (tops t2)) (coef t2)) with (emb_term t2).
    rewrite !operations_gen by assumption. cbn [bind andb orb]. unfold py_itemset_eqb. rewrite eqb_emb. reflexivity.
  Qed.

  Theorem eq_num_gen (t : term K) (c : K) : ops_sorted (tops t) ->
    PauliTerm_eq_num_gen P (emb_term t) c = Ok (term_eqb is_zero (np_close P) t (const c)).
  Proof.
    intro H. unfold PauliTerm_eq_num_gen. rewrite init_I0_gen. cbn [bind]. rewrite eq_term_gen by (first [exact H|exact I]).
    reflexivity.
  Qed.
  (* ---- _efficient_exponentiation and __pow__ *)
  Theorem term_pow_gen (t : term K) (k : Z) : ops_sorted (tops t) -> (0 <= k)%Z -> pow_fuel k <= rec_limit P ->
    PauliTerm_pow_int_gen P (emb_term t) k = Ok (emb_term (term_pow t (Z.to_N k))) /\
    ops_sorted (tops (term_pow t (Z.to_N k))).
  Proof.
    intros Hs Hk Hf. unfold PauliTerm_pow_int_gen. destruct (Z.ltb_spec k 0) as [Hneg|_]; [lia|].
    rewrite copy_none_gen by exact Hs. cbn [bind].
    destruct (pow_gen_N (efficient_exponentiation_term_int_gen P) (PauliTerm_identity_gen P) (PauliTerm_mul_term_gen P)
                emb_term (fun t => ops_sorted (tops t)) term_mul identity) with (x := t) (k := k) (fuel := rec_limit P)
      as [E Hi]; try assumption.
    - intros fuel x k0. reflexivity.
    - apply identity_gen.
    - exact I.
    - intros a b Ha Hb. split; [apply mul_term_gen; assumption|apply term_mul_sorted; exact Ha].
    - rewrite E. split; [reflexivity|exact Hi].
  Qed.

  Lemma sum_mul_sorted (s1 s2 : psum K) : sorted_sum s1 -> sorted_sum (sum_mul is_zero s1 s2).
  Proof. intro H. apply simplify_sorted. apply products_sorted. exact H. Qed.

  Theorem sum_pow_gen (s : psum K) (k : Z) : sorted_sum s -> (0 <= k)%Z -> pow_fuel k <= rec_limit P ->
    PauliSum_pow_int_gen P (emb_sum s) k = Ok (emb_sum (sum_pow is_zero s (Z.to_N k))) /\
    sorted_sum (sum_pow is_zero s (Z.to_N k)).
  Proof.
    intros Hs Hk Hf. unfold PauliSum_pow_int_gen. destruct (Z.ltb_spec k 0) as [Hneg|_]; [lia|].
    destruct (pow_gen_N (efficient_exponentiation_sum_int_gen P) (PauliSum_identity_gen P) (PauliSum_mul_sum_gen P)
                emb_sum sorted_sum (sum_mul is_zero) sum_identity) with (x := s) (k := k) (fuel := rec_limit P)
      as [E Hi]; try assumption.
    - intros fuel x k0. reflexivity.
    - apply sum_identity_gen.
    - apply sorted_single. exact I.
    - intros a b Ha Hb. split; [apply sum_mul_sum_gen; assumption|apply sum_mul_sorted; exact Ha].
    - rewrite E. split; [reflexivity|exact Hi].
  Qed.

  Theorem pow_negative_gen (a : operand K) (k : Z) : (k < 0)%Z -> (forall c, a <> ON c) ->
    binop_pow_gen P (emb_operand a) k = Raise ValueError.
  Proof.
    intros Hk Hn. destruct a as [t|s|c]; cbn [emb_operand binop_pow_gen]; [| |exfalso; apply (Hn c); reflexivity].
    - unfold PauliTerm_pow_int_gen. destruct (Z.ltb_spec k 0); [reflexivity|lia].
    - unfold PauliSum_pow_int_gen. destruct (Z.ltb_spec k 0); [reflexivity|lia].
  Qed.

  Theorem binop_pow_agrees (a : operand K) (k : Z) : operand_sorted a -> (0 <= k)%Z -> pow_fuel k <= rec_limit P ->
    binop_pow_gen P (emb_operand a) k = res_of (py_pow is_zero a k).
  Proof.
    intros Ha Hk Hf. unfold py_pow. destruct (Z.ltb_spec k 0) as [Hneg|_]; [lia|].
    destruct a as [t|s|c]; cbn [emb_operand binop_pow_gen operand_sorted res_of] in *; [| |reflexivity].
    - destruct (term_pow_gen t k Ha Hk Hf) as [E _]. rewrite E. reflexivity.
    - destruct (sum_pow_gen s k Ha Hk Hf) as [E _]. rewrite E. reflexivity.
  Qed.
  (* ---- PauliSum.is_constant, qubits, n_qubits *)
  Definition const_term (t : term K) : bool := match tops t with [] => true | _ => false end.

  Lemma py_all_map {A} (f : A -> bool) (l : list A) : py_all (map f l) = forallb f l.
  Proof. unfold py_all. induction l as [|x r IH]; cbn [map forallb]; [reflexivity|]. rewrite IH. reflexivity. Qed.

  Theorem sum_is_constant_gen (s : psum K) : PauliSum_is_constant_gen P (emb_sum s) = Ok (forallb const_term s).
  Proof.
    unfold PauliSum_is_constant_gen. cbn [emb_sum PauliSum_terms]. destruct s as [|t r]; [reflexivity|].
    unfold py_len. rewrite map_length. cbn [List.length Z.of_nat Z.eqb].
    rewrite (py_mapM_map emb_term const_term) by (intros x _; rewrite is_constant_gen; reflexivity).
    cbn [bind]. rewrite py_all_map. reflexivity.
  Qed.

  Definition sum_has_qubit (s : psum K) (y : Z) : Prop := exists t, In t s /\ In y (map Z.of_nat (keys (tops t))).

  Theorem sum_qubits_gen (s : psum K) : sorted_sum s -> exists S,
    PauliSum_qubits_gen P (emb_sum s) = Ok S /\ StronglySorted Z.lt S /\ forall y, In y S <-> sum_has_qubit s y.
  Proof.
    intro Hs. unfold PauliSum_qubits_gen. cbn [emb_sum PauliSum_terms].
    rewrite (py_mapM_map emb_term (fun t => map Z.of_nat (keys (tops t)))).
    2:{ intros t Ht. unfold sorted_sum in Hs. rewrite Forall_forall in Hs. rewrite qubits_gen by (apply Hs; exact Ht). reflexivity. }
    cbn [bind]. eexists. split; [reflexivity|]. unfold py_set_of_list.
    match goal with |- context [fold_left py_set_add ?l []] => destruct (set_of_list_spec l [] (SSorted_nil _)) as [H1 H2] end.
    split; [exact H1|]. intro y. rewrite H2. cbn [In]. unfold sum_has_qubit, py_set_elems. rewrite map_map. split.
    - intros [Hy|[]]. apply in_concat in Hy. destruct Hy as [l [Hl Hy]]. apply in_map_iff in Hl. destruct Hl as [t [<- Ht]].
      exists t. split; [exact Ht|]. apply in_site in Hy. exact Hy.
    - intros [t [Ht Hy]]. left. apply in_concat. eexists. split; [apply in_map_iff; exists t; split; [reflexivity|exact Ht]|].
      apply (Permutation_in _ (Permutation_sym (perm_site _ _))). exact Hy.
  Qed.

  Lemma term_width_upper (t : term K) y : In y (map Z.of_nat (keys (tops t))) -> (y <= Z.of_nat (term_width t) - 1)%Z.
  Proof.
    unfold term_width. intro H. destruct (tops t) as [|x r] eqn:E; [destruct H|]. rewrite <- E in *.
    apply (ops_width_max (tops t)); [rewrite E; discriminate|exact H].
  Qed.

  Lemma sum_width_upper (s : psum K) t y : In t s -> In y (map Z.of_nat (keys (tops t))) -> (y <= Z.of_nat (sum_width s) - 1)%Z.
  Proof.
    induction s as [|t0 r IH]; intros Ht Hy; [destruct Ht|]. cbn [sum_width fold_right].
    change (fold_right (fun t m => Nat.max (term_width t) m) 0%nat r) with (sum_width r).
    destruct Ht as [->|Ht]; [apply term_width_upper in Hy; lia|]. specialize (IH Ht Hy). lia.
  Qed.

  Lemma all_const_width (s : psum K) : forallb const_term s = true -> sum_width s = 0%nat.
  Proof.
    induction s as [|t r IH]; intro H; [reflexivity|]. cbn [forallb] in H. apply andb_prop in H. destruct H as [H1 H2].
    cbn [sum_width fold_right]. change (fold_right (fun t m => Nat.max (term_width t) m) 0%nat r) with (sum_width r).
    rewrite (IH H2). unfold const_term in H1. unfold term_width. destruct (tops t); [reflexivity|discriminate].
  Qed.

  Lemma sum_width_attained (s : psum K) : forallb const_term s = false -> sum_has_qubit s (Z.of_nat (sum_width s) - 1)%Z.
  Proof.
    induction s as [|t r IH]; intro H; [discriminate|]. cbn [forallb] in H. cbn [sum_width fold_right].
    change (fold_right (fun t m => Nat.max (term_width t) m) 0%nat r) with (sum_width r).
    assert (Hr : forallb const_term r = false -> sum_has_qubit (t :: r) (Z.of_nat (sum_width r) - 1)%Z).
    { intro Hf. destruct (IH Hf) as [t' [Ht' Hy]]. exists t'. split; [right; exact Ht'|exact Hy]. }
    unfold const_term at 1 in H. unfold term_width at 1. destruct (tops t) as [|x l] eqn:E.
    - cbn [ops_width fold_right Nat.max]. apply Hr. exact H.
    - rewrite <- E in *. destruct (Nat.max_spec (ops_width (tops t)) (sum_width r)) as [[Hlt ->]|[Hle ->]].
      + apply Hr. destruct (forallb const_term r) eqn:Ef; [|reflexivity]. rewrite (all_const_width r Ef) in Hlt. lia.
      + exists t. split; [left; reflexivity|]. apply ops_width_max. rewrite E. discriminate.
  Qed.

  Theorem sum_n_qubits_gen (s : psum K) : sorted_sum s -> PauliSum_n_qubits_gen P (emb_sum s) = Ok (Z.of_nat (sum_width s)).
  Proof.
    intro Hs. unfold PauliSum_n_qubits_gen. rewrite sum_is_constant_gen. cbn [bind].
    destruct (forallb const_term s) eqn:Ec; [rewrite (all_const_width s Ec); reflexivity|].
    destruct (sum_qubits_gen s Hs) as [S [-> [_ HS]]]. cbn [bind]. unfold py_set_elems.
    rewrite (py_max_spec _ (Z.of_nat (sum_width s) - 1)%Z).
    - cbn [bind]. f_equal. lia.
    - apply (Permutation_in _ (Permutation_sym (perm_site _ _))). apply HS. apply sum_width_attained. exact Ec.
    - intros y Hy. apply in_site in Hy. apply HS in Hy. destruct Hy as [t [Ht Hy]]. apply (sum_width_upper s t y Ht Hy).
  Qed.
End Agreement.
