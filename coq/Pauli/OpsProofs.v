(* The binary operators of PauliTerm / PauliSum on every mix of operand kinds denote the matrix operations. *)
Require Import Coq.setoid_ring.Ring Coq.ZArith.ZArith Coq.Lists.List Coq.Bool.Bool Coq.Arith.Arith Coq.micromega.Lia
  Coq.Sorting.Permutation.
Require Import OQ.Base.Ring OQ.Base.Sums OQ.Base.Bits OQ.Base.Mat OQ.Pauli.Algebra OQ.Pauli.Den
  OQ.Pauli.TablesProofs OQ.Pauli.DenProofs OQ.Pauli.SumProofs.
Import ListNotations.

(* ------------------------------------------------------------------ matrix powers and square-and-multiply *)
Section Pow.
  Variable K : cring.
  Add Ring Kring : (c_ring K).
  Local Open Scope cr_scope.
  Variable d : nat.

  Lemma mpow_compat (A B : Mat K) k : mat_eq d A B -> mat_eq d (mpow d A k) (mpow d B k).
  Proof.
    intro H. induction k as [|k IH]; cbn [mpow]; [apply mat_eq_refl|]. apply mmul_compat; assumption.
  Qed.

  Lemma mpow_add (A : Mat K) a b : mat_eq d (mpow d A (a + b)) (mmul d (mpow d A a) (mpow d A b)).
  Proof.
    induction a as [|a IH]; cbn [mpow Nat.add].
    - intros i j Hi Hj. rewrite mmul_eye_l by exact Hi. reflexivity.
    - intros i j Hi Hj. rewrite mmul_assoc.
      apply (mmul_compat K d A A _ _ (mat_eq_refl K d A) IH i j Hi Hj).
  Qed.

  Variables (A : Type) (D : A -> Mat K) (Inv : A -> Prop) (mul : A -> A -> A) (one : A).
  Hypothesis inv_one : Inv one.
  Hypothesis inv_mul : forall x y, Inv x -> Inv y -> Inv (mul x y).
  Hypothesis den_one : mat_eq d (D one) eye.
  Hypothesis den_mul : forall x y, Inv x -> Inv y -> mat_eq d (D (mul x y)) (mmul d (D x) (D y)).

  Lemma pow_pos_den x p : Inv x ->
    Inv (pow_pos mul one x p) /\ mat_eq d (D (pow_pos mul one x p)) (mpow d (D x) (Pos.to_nat p)).
  Proof.
    intro Hx. induction p as [p IH|p IH|]; cbn [pow_pos].
    - destruct IH as [I1 I2]. split; [apply inv_mul; [exact Hx|apply inv_mul; exact I1]|].
      rewrite Pos2Nat.inj_xI. cbn [mpow].
      eapply mat_eq_trans; [apply den_mul; [exact Hx|apply inv_mul; exact I1]|].
      apply mmul_compat; [apply mat_eq_refl|].
      eapply mat_eq_trans; [apply den_mul; exact I1|].
      replace (2 * Pos.to_nat p)%nat with (Pos.to_nat p + Pos.to_nat p)%nat by lia.
      apply mat_eq_sym. eapply mat_eq_trans; [apply mpow_add|]. apply mmul_compat; apply mat_eq_sym; exact I2.
    - destruct IH as [I1 I2]. split; [apply inv_mul; exact I1|].
      rewrite Pos2Nat.inj_xO.
      eapply mat_eq_trans; [apply den_mul; exact I1|].
      replace (2 * Pos.to_nat p)%nat with (Pos.to_nat p + Pos.to_nat p)%nat by lia.
      apply mat_eq_sym. eapply mat_eq_trans; [apply mpow_add|]. apply mmul_compat; apply mat_eq_sym; exact I2.
    - split; [apply inv_mul; assumption|]. change (Pos.to_nat 1) with 1%nat. cbn [mpow].
      eapply mat_eq_trans; [apply den_mul; assumption|]. apply mmul_compat; [apply mat_eq_refl|exact den_one].
  Qed.

  Lemma pow_N_den x k : Inv x ->
    Inv (pow_N mul one x k) /\ mat_eq d (D (pow_N mul one x k)) (mpow d (D x) (N.to_nat k)).
  Proof.
    intro Hx. destruct k as [|p]; cbn [pow_N N.to_nat].
    - split; [exact inv_one|exact den_one].
    - apply pow_pos_den. exact Hx.
  Qed.
End Pow.

Section Ops.
  Variable K : cring.
  Add Ring Kring : (c_ring K).
  Local Open Scope cr_scope.
  Variable is_zero : K -> bool.

  (* ---------------------------------------------------------------- invariants through simplify / products *)
  Definition ops_ok (n : nat) (l : ops) : Prop := ops_sorted l /\ forall q, In q (keys l) -> (q < n)%nat.

  Lemma group_insert_keys (P : ops -> Prop) key (c : K) g :
    P key -> Forall (fun kc => P (fst kc)) g -> Forall (fun kc => P (fst kc)) (group_insert key c g).
  Proof.
    intros Hk Hg. induction Hg as [|[k cs] r Hkc Hr IH]; cbn [group_insert].
    - constructor; [exact Hk|constructor].
    - destruct (ops_eqb key k); constructor; assumption.
  Qed.

  Lemma like_terms_keys (P : ops -> Prop) (s : psum K) : forall g,
    Forall (fun t => P (tops t)) s -> Forall (fun kc => P (fst kc)) g ->
    Forall (fun kc => P (fst kc)) (fold_left (fun g t => group_insert (tops t) (coef t) g) s g).
  Proof.
    induction s as [|t s IH]; intros g Hs Hg; cbn [fold_left]; [exact Hg|].
    inversion Hs as [|x xs Ht Hs']; subst. apply IH; [exact Hs'|]. apply group_insert_keys; assumption.
  Qed.

  Lemma simplify_tops (P : ops -> Prop) (s : psum K) :
    Forall (fun t => P (tops t)) s -> Forall (fun t => P (tops t)) (simplify is_zero s).
  Proof.
    intro Hs. pose proof (like_terms_keys P s [] Hs (Forall_nil _)) as H. rewrite Forall_forall in H.
    apply Forall_forall. intros t Ht. unfold simplify in Ht. apply in_flat_map in Ht.
    destruct Ht as [kc [Hkc Ht]]. specialize (H kc Hkc). unfold group_out in Ht.
    destruct (single_kept is_zero (snd kc)); [destruct Ht as [<-|[]]; exact H|].
    destruct (is_zero (py_sum (snd kc))); [destruct Ht|destruct Ht as [<-|[]]; exact H].
  Qed.

  Lemma simplify_ok n (s : psum K) : sum_ok n s -> sum_ok n (simplify is_zero s).
  Proof. apply (simplify_tops (ops_ok n)). Qed.

  Lemma products_ok n (s1 s2 : psum K) : sum_ok n s1 -> sum_ok n s2 -> sum_ok n (products s1 s2).
  Proof.
    intros H1 H2. unfold sum_ok in *. rewrite Forall_forall in *. intros t Ht. unfold products in Ht.
    apply in_flat_map in Ht. destruct Ht as [l [Hl Ht]]. apply in_map_iff in Ht. destruct Ht as [r [<- Hr]].
    apply term_mul_ok; [apply H1; exact Hl|apply H2; exact Hr].
  Qed.

  Lemma sum_mul_ok n (s1 s2 : psum K) : sum_ok n s1 -> sum_ok n s2 -> sum_ok n (sum_mul is_zero s1 s2).
  Proof. intros H1 H2. apply simplify_ok. apply products_ok; assumption. Qed.

  Lemma app_ok n (s1 s2 : psum K) : sum_ok n s1 -> sum_ok n s2 -> sum_ok n (s1 ++ s2).
  Proof. intros H1 H2. apply Forall_app. split; assumption. Qed.

  Lemma map_scale_ok n (s : psum K) c : sum_ok n s -> sum_ok n (map (fun t => term_scale t c) s).
  Proof. intro H. unfold sum_ok in *. rewrite Forall_forall in *. intros t Ht. apply in_map_iff in Ht.
    destruct Ht as [x [<- Hx]]. apply term_scale_ok. apply H. exact Hx. Qed.

  Lemma single_ok n (t : term K) : term_ok n t -> sum_ok n [t].
  Proof. intro H. constructor; [exact H|constructor]. Qed.

  (* ---------------------------------------------------------------- bilinearity *)
  Lemma mmul_nden_r n (A : Mat K) c : mat_eq n (mmul n A (nden c)) (mscale c A).
  Proof.
    intros i j Hi Hj. transitivity (c * mmul n A eye i j).
    - unfold mmul, nden, mscale. rewrite <- rsum_scale_l. apply rsum_ext. intros k _. ring.
    - rewrite mmul_eye_r by exact Hj. reflexivity.
  Qed.
  Lemma mmul_nden_l n (A : Mat K) c : mat_eq n (mmul n (nden c) A) (mscale c A).
  Proof.
    intros i j Hi Hj. transitivity (c * mmul n eye A i j).
    - unfold mmul, nden, mscale. rewrite <- rsum_scale_l. apply rsum_ext. intros k _. ring.
    - rewrite mmul_eye_l by exact Hi. reflexivity.
  Qed.

  Lemma sden_map_scale n (s : psum K) c i j : sden n (map (fun t => term_scale t c) s) i j = c * sden n s i j.
  Proof.
    unfold sden. rewrite lsum_map, <- lsum_scale_l. apply lsum_ext. intros t _. apply den_scale.
  Qed.

  Lemma products_den n (s1 s2 : psum K) : sum_ok n s2 ->
    mat_eq (2 ^ n) (sden n (products s1 s2)) (mmul (2 ^ n) (sden n s1) (sden n s2)).
  Proof.
    intros H2 i j Hi Hj. unfold sum_ok in H2. rewrite Forall_forall in H2.
    unfold products, sden at 1. rewrite lsum_flat_map.
    transitivity (lsum s1 (fun l => lsum s2 (fun r => rsum (2 ^ n) (fun k => den n l i k * den n r k j)))).
    - apply lsum_ext. intros l _. rewrite lsum_map. apply lsum_ext. intros r Hr.
      apply (term_mul_den K n l r); [apply (term_ok_nodup K n); apply H2; exact Hr|apply H2; exact Hr|exact Hi|exact Hj].
    - rewrite (lsum_ext K s1 _ (fun l => rsum (2 ^ n) (fun k => lsum s2 (fun r => den n l i k * den n r k j))))
        by (intros l _; apply lsum_rsum_swap).
      rewrite lsum_rsum_swap. unfold mmul. apply rsum_ext. intros k _.
      unfold sden. rewrite <- lsum_scale_r. apply lsum_ext. intros l _. rewrite <- lsum_scale_l. reflexivity.
  Qed.

  Hypothesis is_zero_exact : forall c, is_zero c = true -> c = c0.

  Let simp := simplify_den_exact K is_zero is_zero_exact.

  Lemma sum_mul_den n (s1 s2 : psum K) : sum_ok n s2 ->
    mat_eq (2 ^ n) (sden n (sum_mul is_zero s1 s2)) (mmul (2 ^ n) (sden n s1) (sden n s2)).
  Proof. intros H i j Hi Hj. unfold sum_mul. rewrite simp. apply products_den; assumption. Qed.

  Lemma sum_add_den n (s1 s2 : psum K) i j : sden n (sum_add is_zero s1 s2) i j = sden n s1 i j + sden n s2 i j.
  Proof. unfold sum_add. rewrite simp. apply sden_app. Qed.

  Lemma sum_rscale_den n c (s : psum K) i j : sden n (sum_rscale is_zero c s) i j = c * sden n s i j.
  Proof. unfold sum_rscale. rewrite simp. apply sden_map_scale. Qed.

  Lemma sden_single_eq n (t : term K) : mat_eq (2 ^ n) (sden n [t]) (den n t).
  Proof. intros i j _ _. apply sden_single. Qed.

  (* ---------------------------------------------------------------- + - *)
  Theorem py_add_den n (a b r : operand K) : py_add is_zero a b = Some r ->
    mat_eq (2 ^ n) (oden n r) (madd (oden n a) (oden n b)).
  Proof.
    intros H i j Hi Hj. unfold madd.
    destruct a as [t1|s1|x1], b as [t2|s2|x2]; cbn [py_add] in H; inversion H; subst; cbn [oden];
      try rewrite sum_add_den; try rewrite simp; repeat rewrite sden_cons;
      try rewrite (den_const K n _ i j Hi Hj); unfold sden; cbn [lsum]; ring.
  Qed.

  Theorem py_neg_den n (b r : operand K) : py_neg is_zero b = Some r ->
    mat_eq (2 ^ n) (oden n r) (mscale (- c1) (oden n b)).
  Proof.
    intros H i j Hi Hj.
    destruct b as [t|s|x]; cbn [py_neg py_mul] in H; inversion H; subst; cbn [oden].
    - apply den_scale.
    - rewrite sum_rscale_den. reflexivity.
    - unfold nden, mscale. ring.
  Qed.

  Theorem py_sub_den n (a b r : operand K) : py_sub is_zero a b = Some r ->
    mat_eq (2 ^ n) (oden n r) (msub (oden n a) (oden n b)).
  Proof.
    intros H i j Hi Hj. unfold py_sub in H.
    assert (H' : exists nb, py_neg is_zero b = Some nb /\ py_add is_zero a nb = Some r).
    { destruct a, b; try discriminate; destruct (py_neg is_zero _) as [nb|] eqn:E; try discriminate; exists nb; split; auto. }
    destruct H' as [nb [Hn Ha]].
    rewrite (py_add_den n a nb r Ha i j Hi Hj). unfold madd, msub.
    rewrite (py_neg_den n b nb Hn i j Hi Hj). unfold mscale. ring.
  Qed.

  (* ---------------------------------------------------------------- * *)
  Theorem py_mul_den n (a b r : operand K) : operand_ok n b -> py_mul is_zero a b = Some r ->
    mat_eq (2 ^ n) (oden n r) (mmul (2 ^ n) (oden n a) (oden n b)).
  Proof.
    intros Hb H.
    destruct a as [t1|s1|x1], b as [t2|s2|x2]; cbn [py_mul] in H; inversion H; subst; cbn [oden operand_ok] in *.
    - apply term_mul_den; [apply (term_ok_nodup K n); exact Hb|apply Hb].
    - intros i j Hi Hj. rewrite simp. revert i j Hi Hj.
      eapply mat_eq_trans; [apply sum_mul_den; exact Hb|].
      apply mmul_compat; [apply sden_single_eq|apply mat_eq_refl].
    - apply mat_eq_sym. eapply mat_eq_trans; [apply mmul_nden_r|]. intros i j _ _. symmetry. apply den_scale.
    - assert (Hx : term_ok n (term_mul identity t2)) by (apply term_mul_ok; [apply identity_ok|exact Hb]).
      eapply mat_eq_trans; [apply sum_mul_den; apply single_ok; exact Hx|].
      apply mmul_compat; [apply mat_eq_refl|].
      eapply mat_eq_trans; [apply sden_single_eq|].
      eapply mat_eq_trans; [apply term_mul_den; [apply (term_ok_nodup K n); exact Hb|apply Hb]|].
      intros i j Hi Hj.
      rewrite (mmul_compat K (2 ^ n) _ eye _ (den n t2) (den_identity K n) (mat_eq_refl K _ _) i j Hi Hj).
      apply mmul_eye_l. exact Hi.
    - apply sum_mul_den. exact Hb.
    - eapply mat_eq_trans; [apply sum_mul_den; apply single_ok; apply term_scale_ok; apply identity_ok|].
      apply mmul_compat; [apply mat_eq_refl|].
      eapply mat_eq_trans; [apply sden_single_eq|].
      intros i j Hi Hj. rewrite den_scale. unfold mscale, nden. rewrite (den_identity K n i j Hi Hj). reflexivity.
    - apply mat_eq_sym. eapply mat_eq_trans; [apply mmul_nden_l|]. intros i j _ _. symmetry. apply den_scale.
    - apply mat_eq_sym. eapply mat_eq_trans; [apply mmul_nden_l|]. intros i j _ _. symmetry. apply sum_rscale_den.
  Qed.

  Theorem py_mul_ok n (a b r : operand K) : operand_ok n a -> operand_ok n b -> py_mul is_zero a b = Some r ->
    operand_ok n r.
  Proof.
    intros Ha Hb H.
    destruct a as [t1|s1|x1], b as [t2|s2|x2]; cbn [py_mul] in H; inversion H; subst; cbn [operand_ok] in *.
    - apply term_mul_ok; assumption.
    - apply simplify_ok. apply sum_mul_ok; [apply single_ok|]; assumption.
    - exact Ha.
    - apply sum_mul_ok; [exact Ha|]. apply single_ok. apply term_mul_ok; [apply identity_ok|exact Hb].
    - apply sum_mul_ok; assumption.
    - apply sum_mul_ok; [exact Ha|]. apply single_ok. apply term_scale_ok. apply identity_ok.
    - exact Hb.
    - apply simplify_ok. apply map_scale_ok. exact Hb.
  Qed.

  Theorem py_add_ok n (a b r : operand K) : operand_ok n a -> operand_ok n b -> py_add is_zero a b = Some r ->
    operand_ok n r.
  Proof.
    intros Ha Hb H.
    destruct a as [t1|s1|x1], b as [t2|s2|x2]; cbn [py_add] in H; inversion H; subst; cbn [operand_ok] in *;
      apply simplify_ok; unfold sum_add, sum_ok in *; try (apply Forall_app; split);
      repeat (apply Forall_cons || apply Forall_nil); try assumption; apply const_ok.
  Qed.

  Theorem py_neg_ok n (b r : operand K) : operand_ok n b -> py_neg is_zero b = Some r -> operand_ok n r.
  Proof.
    intros Hb H. destruct b as [t|s|x]; cbn [py_neg py_mul] in H; inversion H; subst; cbn [operand_ok] in *.
    - exact Hb.
    - apply simplify_ok. apply map_scale_ok. exact Hb.
    - exact I.
  Qed.

  Theorem py_sub_ok n (a b r : operand K) : operand_ok n a -> operand_ok n b -> py_sub is_zero a b = Some r ->
    operand_ok n r.
  Proof.
    intros Ha Hb H. unfold py_sub in H.
    assert (H' : exists nb, py_neg is_zero b = Some nb /\ py_add is_zero a nb = Some r).
    { destruct a, b; try discriminate; destruct (py_neg is_zero _) as [nb|] eqn:E; try discriminate; exists nb; split; auto. }
    destruct H' as [nb [Hn Hadd]]. apply (py_add_ok n a nb r Ha (py_neg_ok n b nb Hb Hn) Hadd).
  Qed.

  Theorem py_simplify_ok n (a r : operand K) : operand_ok n a -> py_simplify is_zero a = Some r -> operand_ok n r.
  Proof. intros Ha H. destruct a as [t|s|x]; inversion H; subst. apply simplify_ok. exact Ha. Qed.

  (* ---------------------------------------------------------------- / *)
  Variable kinv : K -> option K.
  Hypothesis kinv_spec : forall c r, kinv c = Some r -> r * c = c1.

  Theorem py_div_den n (a b r : operand K) : py_div is_zero kinv a b = Some r ->
    exists c, b = ON c /\ mat_eq (2 ^ n) (mscale c (oden n r)) (oden n a).
  Proof.
    intro H. unfold py_div in H. destruct a as [t|s|x]; [| |discriminate]; destruct b as [t2|s2|c]; try discriminate;
      destruct (kinv c) as [ic|] eqn:E; try discriminate; exists c; (split; [reflexivity|]);
      pose proof (kinv_spec c ic E) as Hc.
    - intros i j Hi Hj.
      unfold mscale.
      rewrite (py_mul_den n (OT t) (ON ic) r I H i j Hi Hj). cbn [oden].
      rewrite (mmul_nden_r (2 ^ n) (den n t) ic i j Hi Hj). unfold mscale.
      transitivity ((ic * c) * den n t i j); [ring|]. rewrite Hc. ring.
    - intros i j Hi Hj. unfold mscale.
      rewrite (py_mul_den n (OS s) (ON ic) r I H i j Hi Hj). cbn [oden].
      rewrite (mmul_nden_r (2 ^ n) (sden n s) ic i j Hi Hj). unfold mscale.
      transitivity ((ic * c) * sden n s i j); [ring|]. rewrite Hc. ring.
  Qed.

  Theorem py_div_ok n (a b r : operand K) : operand_ok n a -> py_div is_zero kinv a b = Some r -> operand_ok n r.
  Proof.
    intros Ha H. unfold py_div in H. destruct a as [t|s|x]; [| |discriminate]; destruct b as [t2|s2|c]; try discriminate;
      destruct (kinv c) as [ic|]; try discriminate; apply (py_mul_ok n _ (ON ic) r Ha I H).
  Qed.

  (* ---------------------------------------------------------------- ** *)
  Theorem py_pow_den n (a r : operand K) (k : Z) : operand_ok n a -> py_pow is_zero a k = Some r ->
    (0 <= k)%Z /\ operand_ok n r /\ mat_eq (2 ^ n) (oden n r) (mpow (2 ^ n) (oden n a) (Z.to_nat k)).
  Proof.
    intros Ha H. unfold py_pow in H. destruct (Z.ltb_spec k 0) as [|Hk]; [discriminate|]. split; [exact Hk|].
    rewrite <- Z_N_nat.
    destruct a as [t|s|x]; inversion H; subst; cbn [oden operand_ok] in *.
    - apply (pow_N_den K (2 ^ n) (term K) (den n) (term_ok n) term_mul identity).
      + apply identity_ok.
      + intros x y Hx Hy. apply term_mul_ok; assumption.
      + apply den_identity.
      + intros x y Hx Hy. apply term_mul_den; [apply (term_ok_nodup K n); exact Hy|apply Hy].
      + exact Ha.
    - apply (pow_N_den K (2 ^ n) (psum K) (sden n) (sum_ok n) (sum_mul is_zero) sum_identity).
      + apply single_ok. apply identity_ok.
      + intros x y Hx Hy. apply sum_mul_ok; assumption.
      + eapply mat_eq_trans; [apply sden_single_eq|apply den_identity].
      + intros x y Hx Hy. apply sum_mul_den. exact Hy.
      + exact Ha.
  Qed.

  Theorem py_pow_defined (a : operand K) (k : nat) : (forall c, a <> ON c) -> exists r, py_pow is_zero a (Z.of_nat k) = Some r.
  Proof.
    intro Ha. unfold py_pow. destruct (Z.ltb_spec (Z.of_nat k) 0) as [|_]; [lia|].
    destruct a as [t|s|c]; eauto. exfalso. apply (Ha c). reflexivity.
  Qed.

  Theorem py_simplify_den n (a r : operand K) : py_simplify is_zero a = Some r ->
    mat_eq (2 ^ n) (oden n r) (oden n a).
  Proof. intro H. destruct a as [t|s|x]; inversion H; subst. intros i j _ _. cbn [oden]. apply simp. Qed.
End Ops.

(* ------------------------------------------------------------------ simplified sums and == *)
Section Eq.
  Variable K : cring.
  Add Ring Kring : (c_ring K).
  Local Open Scope cr_scope.
  Variable is_zero : K -> bool.

  Lemma ops_eqb_neq l1 l2 : l1 <> l2 -> ops_eqb l1 l2 = false.
  Proof. intro H. destruct (ops_eqb l1 l2) eqn:E; [|reflexivity]. exfalso. apply H. apply ops_eqb_eq. exact E. Qed.

  Lemma group_insert_fst key (c : K) g :
    map fst (group_insert key c g) = if existsb (ops_eqb key) (map fst g) then map fst g else map fst g ++ [key].
  Proof.
    induction g as [|[k cs] r IH]; cbn [group_insert map fst existsb]; [reflexivity|].
    destruct (ops_eqb key k); cbn [map fst orb]; [reflexivity|]. rewrite IH.
    destruct (existsb (ops_eqb key) (map fst r)); reflexivity.
  Qed.

  Lemma NoDup_app_snoc {A} (l : list A) x : NoDup l -> ~ In x l -> NoDup (l ++ [x]).
  Proof.
    induction 1 as [|y l Hy Hl IH]; intro Hx; cbn [app]; [constructor; [intros []|constructor]|].
    constructor.
    - intro Hin. apply in_app_or in Hin. destruct Hin as [Hin|[<-|[]]]; [exact (Hy Hin)|]. apply Hx. left. reflexivity.
    - apply IH. intro Hin. apply Hx. right. exact Hin.
  Qed.

  Lemma group_insert_nodup key (c : K) g : NoDup (map fst g) -> NoDup (map fst (group_insert key c g)).
  Proof.
    intro H. rewrite group_insert_fst. destruct (existsb (ops_eqb key) (map fst g)) eqn:E; [exact H|].
    apply NoDup_app_snoc; [exact H|]. intro Hin.
    assert (existsb (ops_eqb key) (map fst g) = true); [|congruence].
    apply existsb_exists. exists key. split; [exact Hin|apply ops_eqb_refl].
  Qed.

  Lemma like_terms_nodup (s : psum K) : forall g, NoDup (map fst g) ->
    NoDup (map fst (fold_left (fun g t => group_insert (tops t) (coef t) g) s g)).
  Proof. induction s as [|t s IH]; intros g H; cbn [fold_left]; [exact H|]. apply IH. apply group_insert_nodup. exact H. Qed.

  Lemma group_out_cases (kc : ops * list K) :
    group_out is_zero kc = [] \/ exists c, group_out is_zero kc = [mk_term c (fst kc)] /\ is_zero c = false.
  Proof.
    unfold group_out. destruct (single_kept is_zero (snd kc)) eqn:E.
    - right. destruct (snd kc) as [|c [|c' cs']]; cbn [single_kept] in E; try discriminate.
      exists c. split; [reflexivity|]. apply negb_true_iff. exact E.
    - destruct (is_zero (py_sum (snd kc))) eqn:E2; [left; reflexivity|right]. exists (py_sum (snd kc)). split; [reflexivity|exact E2].
  Qed.

  Lemma flat_out_tops g t : In t (flat_map (group_out is_zero) g) -> In (tops t) (map fst g) /\ is_zero (coef t) = false.
  Proof.
    intro H. apply in_flat_map in H. destruct H as [kc [Hkc Ht]].
    destruct (group_out_cases kc) as [E|[c [E Hc]]]; rewrite E in Ht; [destruct Ht|].
    destruct Ht as [<-|[]]. cbn [tops coef]. split; [apply in_map; exact Hkc|exact Hc].
  Qed.

  Lemma flat_out_nodup g : NoDup (map fst g) -> NoDup (map tops (flat_map (group_out is_zero) g)).
  Proof.
    induction g as [|kc g IH]; intro H; cbn [flat_map map]; [constructor|].
    cbn [map] in H. inversion H as [|x xs Hnotin Hnd]; subst.
    destruct (group_out_cases kc) as [E|[c [E _]]]; rewrite E; cbn [app map tops]; [apply IH; exact Hnd|].
    constructor; [|apply IH; exact Hnd]. intro Hin. apply in_map_iff in Hin. destruct Hin as [t [Ht Hin]].
    apply flat_out_tops in Hin. destruct Hin as [Hin _]. rewrite Ht in Hin. exact (Hnotin Hin).
  Qed.

  (* what simplify returns is simplified: pairwise different operator sets, no coefficient that tests as zero *)
  Theorem simplify_simplified (s : psum K) :
    distinct_ops (simplify is_zero s) /\ Forall (fun t => is_zero (coef t) = false) (simplify is_zero s).
  Proof.
    split.
    - apply flat_out_nodup. apply like_terms_nodup. constructor.
    - apply Forall_forall. intros t Ht. apply flat_out_tops in Ht. apply Ht.
  Qed.

  (* a simplified sum is a fixed point of simplify *)
  Lemma group_insert_new key (c : K) g : ~ In key (map fst g) -> group_insert key c g = g ++ [(key, [c])].
  Proof.
    induction g as [|[k cs] r IH]; intro H; cbn [group_insert app]; [reflexivity|].
    cbn [map fst In] in H. rewrite ops_eqb_neq by (intro E; apply H; left; symmetry; exact E).
    rewrite IH by (intro E; apply H; right; exact E). reflexivity.
  Qed.

  Lemma like_terms_distinct (s : psum K) : forall g, NoDup (map fst g ++ map tops s) ->
    fold_left (fun g t => group_insert (tops t) (coef t) g) s g = g ++ map (fun t => (tops t, [coef t])) s.
  Proof.
    induction s as [|t s IH]; intros g H; cbn [fold_left map]; [rewrite app_nil_r; reflexivity|].
    cbn [map] in H. rewrite group_insert_new.
    - rewrite IH; [rewrite <- app_assoc; reflexivity|].
      rewrite map_app. cbn [map fst]. rewrite <- app_assoc. exact H.
    - intro Hin. apply NoDup_remove_2 in H. apply H. apply in_or_app. left. exact Hin.
  Qed.

  Theorem simplify_fixed (s : psum K) :
    distinct_ops s -> Forall (fun t => is_zero (coef t) = false) s -> simplify is_zero s = s.
  Proof.
    intros Hd Hz. unfold simplify, like_terms. rewrite like_terms_distinct by exact Hd. cbn [app].
    clear Hd. induction Hz as [|t s Ht _ IH]; cbn [map flat_map]; [reflexivity|]. rewrite IH.
    unfold group_out. cbn [fst snd single_kept hd]. rewrite Ht. cbn [negb app]. destruct t; reflexivity.
  Qed.

  Theorem simplify_idempotent (s : psum K) : simplify is_zero (simplify is_zero s) = simplify is_zero s.
  Proof. destruct (simplify_simplified s) as [H1 H2]. apply simplify_fixed; assumption. Qed.

  (* ---------------------------------------------------------------- == *)
  Variable keqb : K -> K -> bool.
  Hypothesis is_zero_exact : forall c, is_zero c = true -> c = c0.
  Hypothesis keqb_sound : forall a b, keqb a b = true -> a = b.

  Lemma term_same_eq (t1 t2 : term K) : term_same keqb t1 t2 = true -> t1 = t2.
  Proof.
    unfold term_same. intro H. apply andb_true_iff in H. destruct H as [H1 H2].
    destruct t1 as [a1 l1], t2 as [a2 l2]. cbn [coef tops] in *. apply keqb_sound in H1. apply ops_eqb_eq in H2. subst. reflexivity.
  Qed.

  Lemma set_incl_incl (s1 s2 : psum K) : set_incl keqb s1 s2 = true -> incl s1 s2.
  Proof.
    unfold set_incl. intros H t Ht. rewrite forallb_forall in H. specialize (H t Ht).
    apply existsb_exists in H. destruct H as [t' [Ht' E]]. apply term_same_eq in E. subst. exact Ht'.
  Qed.

  Lemma sden_perm n (s1 s2 : psum K) i j : Permutation s1 s2 -> sden n s1 i j = sden n s2 i j.
  Proof.
    induction 1 as [|t s s' _ IH|t t' s|s s' s'' _ IH1 _ IH2]; [reflexivity| | |].
    - rewrite !sden_cons, IH. reflexivity.
    - rewrite !sden_cons. ring.
    - rewrite IH1. exact IH2.
  Qed.

  Lemma sum_eqb_perm (s1 s2 : psum K) : NoDup s1 -> NoDup s2 -> sum_eqb keqb s1 s2 = true -> Permutation s1 s2.
  Proof.
    intros H1 H2 H. unfold sum_eqb in H. apply andb_true_iff in H. destruct H as [H Hb].
    apply andb_true_iff in H. destruct H as [_ Ha].
    apply set_incl_incl in Ha. apply set_incl_incl in Hb.
    apply NoDup_Permutation; try assumption. intro t. split; [apply Ha|apply Hb].
  Qed.

  Lemma distinct_nodup (s : psum K) : distinct_ops s -> NoDup s.
  Proof. apply NoDup_map_inv. Qed.

  Lemma term_eqb_den n (t1 t2 : term K) i j : term_eqb is_zero keqb t1 t2 = true -> den n t1 i j = den n t2 i j.
  Proof.
    unfold term_eqb. intro H. apply andb_true_iff in H. destruct H as [H1 H2]. apply keqb_sound in H1.
    unfold den. rewrite <- H1. apply orb_true_iff in H2. destruct H2 as [H2|H2].
    - rewrite (is_zero_exact _ H2). ring.
    - apply ops_eqb_eq in H2. rewrite H2. reflexivity.
  Qed.

  Lemma sum_term_eqb_den n (s : psum K) t i j : distinct_ops s ->
    sum_term_eqb is_zero keqb s t = true -> sden n s i j = den n t i j.
  Proof.
    intros Hd H. destruct s as [|t0 s]; cbn [sum_term_eqb] in H.
    - unfold sden, den. cbn [lsum]. rewrite (is_zero_exact _ H). ring.
    - rewrite (sden_perm n _ [t] i j); [apply sden_single|].
      apply sum_eqb_perm; [apply distinct_nodup; exact Hd|repeat constructor; intros []|exact H].
  Qed.

  Definition simplified_operand (a : operand K) : Prop :=
    match a with OS s => distinct_ops s | _ => True end.

  (* == is sound on simplified operands: operands that compare equal denote the same matrix *)
  Theorem py_eq_sound n (a b : operand K) : simplified_operand a -> simplified_operand b ->
    py_eq is_zero keqb a b = true -> mat_eq (2 ^ n) (oden n a) (oden n b).
  Proof.
    intros Ha Hb H i j Hi Hj.
    destruct a as [t1|s1|x1], b as [t2|s2|x2]; cbn [py_eq oden simplified_operand] in *.
    - apply term_eqb_den. exact H.
    - symmetry. apply sum_term_eqb_den; assumption.
    - rewrite (term_eqb_den n _ _ i j H). apply (den_const K n x2 i j Hi Hj).
    - apply sum_term_eqb_den; assumption.
    - apply sden_perm. apply sum_eqb_perm; [apply distinct_nodup; exact Ha|apply distinct_nodup; exact Hb|exact H].
    - rewrite (sum_term_eqb_den n _ _ i j Ha H). apply (den_const K n x2 i j Hi Hj).
    - rewrite (term_eqb_den n _ _ i j H). symmetry. apply (den_const K n x1 i j Hi Hj).
    - rewrite (sum_term_eqb_den n _ _ i j Hb H). symmetry. apply (den_const K n x1 i j Hi Hj).
    - apply keqb_sound in H. subst. reflexivity.
  Qed.

  (* ... and does not depend on the order of the terms *)
  Hypothesis keqb_refl : forall a, keqb a a = true.

  Lemma incl_set_incl (s1 s2 : psum K) : incl s1 s2 -> set_incl keqb s1 s2 = true.
  Proof.
    intro H. unfold set_incl. apply forallb_forall. intros t Ht. apply existsb_exists. exists t.
    split; [apply H; exact Ht|]. unfold term_same. rewrite keqb_refl, ops_eqb_refl. reflexivity.
  Qed.

  Theorem sum_eqb_order_irrelevant (s1 s2 : psum K) : Permutation s1 s2 -> sum_eqb keqb s1 s2 = true.
  Proof.
    intro H. unfold sum_eqb. rewrite (Permutation_length H), Nat.eqb_refl.
    rewrite !incl_set_incl; [reflexivity| |].
    - intros t Ht. apply (Permutation_in t (Permutation_sym H)). exact Ht.
    - intros t Ht. apply (Permutation_in t H). exact Ht.
  Qed.
End Eq.

(* ------------------------------------------------------------------ the executable instance meets the hypotheses *)
Require Import Coq.setoid_ring.Field Coq.QArith.QArith Coq.QArith.Qcanon.

Lemma gq_is_zero_exact (c : GQring) : gq_is_zero c = true -> c = c0.
Proof. apply gq_eqb_eq. Qed.

Lemma gq_eqb_refl (c : GQ) : gq_eqb c c = true.
Proof.
  destruct c as [a b]. unfold gq_eqb. cbn [fst snd]. unfold Qc_eq_bool.
  destruct (Qc_eq_dec a a); [|congruence]. destruct (Qc_eq_dec b b); [reflexivity|congruence].
Qed.

Lemma gq_inv_spec (c r : GQring) : gq_inv c = Some r -> cmul r c = c1.
Proof.
  destruct c as [a b]. unfold gq_inv. cbn [fst snd].
  destruct (Qc_eq_bool (a * a + b * b) 0) eqn:E; [discriminate|]. intro H. injection H as <-.
  assert (Hn : (a * a + b * b)%Qc <> 0%Qc) by (intro H0; rewrite H0 in E; discriminate).
  cbn. unfold gqmul, gq1. cbn [fst snd]. f_equal; field; exact Hn.
Qed.

(* ------------------------------------------------------------------ limits of == shown by the model *)
Close Scope Qc_scope. Close Scope Q_scope.

Definition gX0 : term GQring := mk_term c1 [(0, PX)].
Definition gY0 : term GQring := mk_term c1 [(0, PY)].

Lemma eq_unsimplified_counterexample :
  exists s1 s2 : psum GQring, @sum_eqb GQring gq_eqb s1 s2 = true /\ ~ mat_eq 2 (sden 1 s1) (sden 1 s2).
Proof.
  exists [gX0; gX0; gY0], [gX0; gY0; gY0]. split; [vm_compute; reflexivity|].
  intro H. specialize (H 0 1 ltac:(lia) ltac:(lia)).
  apply (f_equal (fun c => gq_eqb c (sden 1 [gX0; gY0; gY0] 0 1))) in H.
  vm_compute in H. discriminate.
Qed.

(* F33 (fixed): the empty sum compares equal to a number exactly when the number tests as zero *)
Lemma eq_empty_sum_number (K : cring) (is_zero : K -> bool) (keqb : K -> K -> bool) (c : K) :
  py_eq is_zero keqb (OS []) (ON c) = is_zero c /\ py_eq is_zero keqb (ON c) (OS []) = is_zero c.
Proof. split; reflexivity. Qed.
