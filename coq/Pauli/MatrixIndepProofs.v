(* C09: the trace against a Pauli string extracts its coefficient (trace-orthogonality of the strings), hence the
   strings are linearly independent, and the Hermiticity test is complete on simplified operators. *)
Require Import Coq.setoid_ring.Ring Coq.Lists.List Coq.Bool.Bool Coq.Arith.Arith Coq.micromega.Lia Coq.Sorting.Permutation.
Require Import OQ.Base.Ring OQ.Base.Sums OQ.Base.Bits OQ.Base.Mat OQ.Pauli.Algebra OQ.Pauli.Den OQ.Pauli.Matrix
  OQ.Pauli.OpsProofs OQ.Pauli.MatrixProofs OQ.Pauli.MatrixOpsProofs OQ.Pauli.MatrixExpandProofs.
Import ListNotations.

(* ------------------------------------------------------------------ sorted dictionaries are determined by their lookups *)
Lemma olet_dec (a b : option letter) : {a = b} + {a <> b}.
Proof. repeat decide equality. Qed.

Lemma bounded_dec (P : nat -> Prop) (Pdec : forall q, {P q} + {~ P q}) n :
  {forall q, q < n -> P q} + {exists q, q < n /\ ~ P q}.
Proof.
  induction n as [|n [IH|IH]].
  - left. intros q Hq. lia.
  - destruct (Pdec n) as [Hn|Hn].
    + left. intros q Hq. destruct (Nat.eq_dec q n) as [->|Hne]; [exact Hn|apply IH; lia].
    + right. exists n. split; [lia|exact Hn].
  - right. destruct IH as [q [Hq Hnq]]. exists q. split; [lia|exact Hnq].
Qed.

Lemma lookup_key_in (l : ops) q a : lookup q l = Some a -> In q (keys l).
Proof. intro H. apply lookup_some_in in H. apply (in_map fst) in H. exact H. Qed.

Lemma lookup_head_sorted k a r q : (forall k', In k' (keys r) -> k < k') -> q <= k ->
  lookup q ((k, a) :: r) = if Nat.eqb q k then Some a else None.
Proof.
  intros Hs Hq. cbn [lookup]. destruct (Nat.eqb_spec q k); [reflexivity|].
  apply lookup_none. intro Hin. specialize (Hs _ Hin). lia.
Qed.

Lemma ops_ext (l : ops) : forall l', ops_sorted l -> ops_sorted l' -> (forall q, lookup q l = lookup q l') -> l = l'.
Proof.
  induction l as [|[k a] r IH]; intros [|[k' a'] r'] Hs Hs' H.
  - reflexivity.
  - specialize (H k'). cbn [lookup] in H. rewrite Nat.eqb_refl in H. discriminate.
  - specialize (H k). cbn [lookup] in H. rewrite Nat.eqb_refl in H. discriminate.
  - destruct Hs as [Hs1 Hs2], Hs' as [Hs1' Hs2'].
    assert (Hk : k = k').
    { destruct (Nat.lt_trichotomy k k') as [Hlt|[E|Hgt]]; [|exact E|].
      - specialize (H k). rewrite (lookup_head_sorted k' a' r' k Hs1') in H by lia.
        cbn [lookup] in H. rewrite Nat.eqb_refl in H. destruct (Nat.eqb_spec k k'); [lia|discriminate].
      - specialize (H k'). rewrite (lookup_head_sorted k a r k' Hs1) in H by lia.
        cbn [lookup] in H. rewrite Nat.eqb_refl in H. destruct (Nat.eqb_spec k' k); [lia|discriminate]. }
    subst k'. pose proof (H k) as Hk. cbn [lookup] in Hk. rewrite Nat.eqb_refl in Hk. injection Hk as ->.
    f_equal. apply IH; [exact Hs2|exact Hs2'|]. intro q0. specialize (H q0). cbn [lookup] in H.
    destruct (Nat.eqb_spec q0 k) as [E|Hne]; [subst q0|exact H].
    rewrite !lookup_none; [reflexivity| |]; intro Hin; [specialize (Hs1' _ Hin)|specialize (Hs1 _ Hin)]; lia.
Qed.

Lemma ops_differ n (l l' : ops) : ops_sorted l -> ops_sorted l' ->
  (forall q, In q (keys l) -> q < n) -> (forall q, In q (keys l') -> q < n) ->
  l <> l' -> exists q, q < n /\ lookup q l <> lookup q l'.
Proof.
  intros Hs Hs' Hf Hf' Hne.
  destruct (bounded_dec (fun q => lookup q l = lookup q l') (fun q => olet_dec _ _) n) as [Hall|Hex]; [|exact Hex].
  exfalso. apply Hne. apply ops_ext; try assumption. intro q.
  destruct (Nat.lt_ge_cases q n) as [Hq|Hq]; [apply Hall; exact Hq|].
  rewrite !lookup_none; [reflexivity| |]; intro Hin; [specialize (Hf' _ Hin)|specialize (Hf _ Hin)]; lia.
Qed.

Lemma nth_dense n l q : q < n -> nth q (dense n l) None = lookup q l.
Proof.
  intro Hq. unfold dense.
  rewrite (nth_indep _ None ((fun q => lookup q l) 0)) by (rewrite map_length, seq_length; exact Hq).
  rewrite (map_nth (fun q => lookup q l)), seq_nth by exact Hq. reflexivity.
Qed.

Lemma dense_length' n l : List.length (dense n l) = n.
Proof. unfold dense. rewrite map_length, seq_length. reflexivity. Qed.

Lemma NoDup_app_l {A} (l1 l2 : list A) : NoDup (l1 ++ l2) -> NoDup l1.
Proof.
  induction l1 as [|x l1 IH]; intro H; [constructor|]. cbn [app] in H. inversion H as [|y ys Hy Hnd]; subst.
  constructor; [|apply IH; exact Hnd]. intro Hin. apply Hy. apply in_or_app. left. exact Hin.
Qed.

Section Indep.
  Variable K : cring.
  Add Ring Kring : (c_ring K).
  Local Open Scope cr_scope.
  Variable half : K.
  Hypothesis half_double : half + half = c1.

  Notation T := (T K). Notation fl1 := fl1. Notation blk := (blk K).

  (* ---------------------------------------------------------------- the trace is linear and local *)
  Lemma flip_val_lt n lab j : List.length lab = n -> val (flip_bits lab (bits n j)) < 2 ^ n.
  Proof.
    intro Hl. pose proof (val_lt (flip_bits lab (bits n j))) as H.
    rewrite flip_bits_length in H by (rewrite bits_length; exact Hl). rewrite bits_length in H. exact H.
  Qed.

  Lemma T_ext n (M M' : Mat K) lab : List.length lab = n -> mat_eq (2 ^ n) M M' -> T n M lab = T n M' lab.
  Proof.
    intros Hl H. unfold MatrixExpandProofs.T. apply rsum_ext. intros j Hj.
    rewrite H by (exact Hj || apply flip_val_lt; exact Hl). reflexivity.
  Qed.

  Lemma T_scale n c (M : Mat K) lab : T n (mscale c M) lab = c * T n M lab.
  Proof.
    unfold MatrixExpandProofs.T, mscale. rewrite <- rsum_scale_l. apply rsum_ext. intros j _. ring.
  Qed.

  Lemma T_lsum n {A} (s : list A) (F : A -> Mat K) lab :
    T n (fun i j => lsum s (fun t => F t i j)) lab = lsum s (fun t => T n (F t) lab).
  Proof.
    unfold MatrixExpandProofs.T. rewrite lsum_rsum_swap. apply rsum_ext. intros j _.
    rewrite <- lsum_scale_r. reflexivity.
  Qed.

  (* ---------------------------------------------------------------- one qubit: tr(sigma_a sigma_b) = 2 delta *)
  Definition t1 (a b : option letter) : K := rsum 2 (fun jb => nz1 b (Nat.eqb jb 1) * smat a jb (fl1 b jb)).

  Lemma t1_same a : t1 a a = c1 + c1.
  Proof.
    pose proof (i_sq K) as Hi.
    destruct a as [[| |]|]; unfold t1; cbn [rsum nz1 smat sigma fl1 is_flip negb Nat.eqb b2n Bool.eqb]; try ring.
    transitivity (- (@ci K * ci) - (@ci K * ci)); [ring|]. rewrite Hi. ring.
  Qed.

  Lemma t1_diff a b : a <> b -> t1 a b = c0.
  Proof.
    intro H. destruct a as [[| |]|], b as [[| |]|]; try congruence;
      unfold t1; cbn [rsum nz1 smat sigma fl1 is_flip negb Nat.eqb b2n Bool.eqb]; ring.
  Qed.

  Lemma fl1_lt b jb : fl1 b jb < 2.
  Proof. unfold MatrixExpandProofs.fl1. destruct (if is_flip b then negb (Nat.eqb jb 1) else Nat.eqb jb 1); cbn; lia. Qed.

  Lemma T_gprod_step n f b l : List.length l = n ->
    T (S n) (gprod (S n) f) (b :: l) = t1 (f 0%nat) b * T n (gprod n (fun q => f (S q))) l.
  Proof.
    intro Hl. rewrite T_step by exact Hl. unfold t1. rewrite <- rsum_scale_r. apply rsum_ext. intros jb Hjb.
    rewrite (T_ext n _ (mscale (smat (f 0%nat) jb (fl1 b jb)) (gprod n (fun q => f (S q)))) l Hl).
    - rewrite T_scale. ring.
    - intros u v Hu Hv. unfold MatrixExpandProofs.blk, mscale. pose proof (pow2_pos n) as Hp.
      change (S n) with (1 + n)%nat. rewrite gprod_split.
      rewrite !Nat.div_add_l, !(Nat.div_small _ (2 ^ n)), !Nat.add_0_r by (assumption || lia).
      rewrite !(Nat.add_comm (_ * 2 ^ n)), !Nat.mod_add, !(Nat.mod_small _ (2 ^ n)) by (assumption || lia).
      rewrite gprod_one by (exact Hjb || apply fl1_lt). reflexivity.
  Qed.

  Lemma T_gprod n : forall f lab, List.length lab = n ->
    T n (gprod n f) lab = lprod (seq 0 n) (fun q => t1 (f q) (nth q lab None)).
  Proof.
    induction n as [|n IH]; intros f lab Hl.
    - destruct lab; [|discriminate]. unfold MatrixExpandProofs.T, gprod. cbn. ring.
    - destruct lab as [|b l]; [discriminate|]. injection Hl as Hl.
      rewrite T_gprod_step by exact Hl. rewrite IH by exact Hl.
      cbn [seq lprod nth]. f_equal. rewrite <- seq_shift, (lprod_map' K). reflexivity.
  Qed.

  Lemma hpow_twos n : hpow half n * lprod (seq 0 n) (fun _ => c1 + c1) = c1.
  Proof.
    induction n as [|n IH]; [cbn; ring|].
    rewrite seq_S, lprod_app. cbn [hpow lprod Nat.add].
    transitivity ((half + half) * (hpow half n * lprod (seq 0 n) (fun _ => c1 + c1))); [ring|].
    rewrite IH, half_double. ring.
  Qed.

  Lemma lprod_zero_factor {A} (l : list A) (f : A -> K) x : In x l -> f x = c0 -> lprod l f = c0.
  Proof.
    induction l as [|y l IH]; intros Hin Hx; [destruct Hin|]. cbn [lprod].
    destruct Hin as [->|Hin]; [rewrite Hx; ring|]. rewrite IH by assumption. ring.
  Qed.

  (* tr(P_f P_lab) / 2^n = 1 when the strings agree, 0 when they differ somewhere *)
  Lemma ortho_same n f lab : List.length lab = n -> (forall q, q < n -> f q = nth q lab None) ->
    hpow half n * T n (gprod n f) lab = c1.
  Proof.
    intros Hl H. rewrite T_gprod by exact Hl.
    rewrite (lprod_ext K (seq 0 n) _ (fun _ => c1 + c1)); [apply hpow_twos|].
    intros q Hq. apply in_seq in Hq. rewrite H by lia. apply t1_same.
  Qed.

  Lemma ortho_diff n f lab q : List.length lab = n -> q < n -> f q <> nth q lab None -> T n (gprod n f) lab = c0.
  Proof.
    intros Hl Hq H. rewrite T_gprod by exact Hl.
    apply (lprod_zero_factor _ _ q); [apply in_seq; lia|]. apply t1_diff. exact H.
  Qed.

  (* ---------------------------------------------------------------- extraction of a coefficient *)
  Lemma lsum_pick (s : psum K) t0 (g : term K -> K) : NoDup (map tops s) -> In t0 s ->
    (forall t, In t s -> tops t <> tops t0 -> g t = c0) -> lsum s g = g t0.
  Proof.
    induction s as [|t r IH]; intros Hnd Hin Hg; [destruct Hin|].
    cbn [map] in Hnd. inversion Hnd as [|x xs Hnotin Hnd']; subst. cbn [lsum].
    destruct Hin as [->|Hin].
    - rewrite (lsum_ext K r g (fun _ => c0)); [rewrite lsum_zero; ring|].
      intros t' Ht. apply Hg; [right; exact Ht|]. intro E. apply Hnotin. rewrite <- E. apply in_map. exact Ht.
    - rewrite IH; [|exact Hnd'|exact Hin|intros t' Ht; apply Hg; right; exact Ht].
      rewrite Hg; [ring|left; reflexivity|]. intro E. apply Hnotin. rewrite E. apply in_map. exact Hin.
  Qed.

  Lemma trace_product_sden n (s : psum K) lab :
    trace_product half n (sden n s) lab
    = lsum s (fun t => coef t * (hpow half n * T n (gprod n (fun q => lookup q (tops t))) lab)).
  Proof.
    unfold trace_product. fold (T n (sden n s) lab). unfold sden. rewrite T_lsum, <- lsum_scale_l.
    apply lsum_ext. intros t _.
    replace (den n t) with (mscale (coef t) (gprod n (fun q => lookup q (tops t)))) by reflexivity.
    rewrite T_scale. ring.
  Qed.

  (* the trace against the string of one of its terms gives back that term's coefficient *)
  Theorem coefficient_extraction n (s : psum K) t0 : sum_ok n s -> distinct_ops s -> In t0 s ->
    trace_product half n (sden n s) (dense n (tops t0)) = coef t0.
  Proof.
    intros Hok Hd Hin. rewrite trace_product_sden.
    pose proof (proj1 (Forall_forall _ _) Hok) as Hall.
    rewrite (lsum_pick s t0 _ Hd Hin).
    - rewrite ortho_same; [ring|apply dense_length'|].
      intros q Hq. rewrite nth_dense by exact Hq. reflexivity.
    - intros t Ht Hne. destruct (Hall t Ht) as [Hs Hf], (Hall t0 Hin) as [Hs0 Hf0].
      destruct (ops_differ n (tops t) (tops t0) Hs Hs0 Hf Hf0 Hne) as [q [Hq Hdq]].
      rewrite (ortho_diff n _ _ q); [ring|apply dense_length'|exact Hq|]. rewrite nth_dense by exact Hq. exact Hdq.
  Qed.

  (* linear independence of the Pauli strings *)
  Theorem pauli_strings_independent n (s : psum K) : sum_ok n s -> distinct_ops s ->
    mat_eq (2 ^ n) (sden n s) mzero -> Forall (fun t => coef t = c0) s.
  Proof.
    intros Hok Hd Hz. apply Forall_forall. intros t Ht.
    rewrite <- (coefficient_extraction n s t Hok Hd Ht).
    unfold trace_product. fold (T n (sden n s) (dense n (tops t))).
    rewrite (T_ext n _ mzero _ (dense_length' n (tops t)) Hz).
    unfold MatrixExpandProofs.T, mzero. rewrite rsum_zero_ext; [ring|]. intros; ring.
  Qed.
End Indep.

(* ------------------------------------------------------------------ is_hermitian is complete on simplified operators *)
Lemma fold_left_ext_in {A B} (f g : A -> B -> A) (l : list B) : forall a,
  (forall x, In x l -> forall a, f a x = g a x) -> fold_left f l a = fold_left g l a.
Proof.
  induction l as [|x l IH]; intros a H; cbn [fold_left]; [reflexivity|].
  rewrite H by (left; reflexivity). apply IH. intros y Hy. apply H. right. exact Hy.
Qed.

Lemma ops_eqb_refl' l : ops_eqb l l = true.
Proof.
  induction l as [|[k a] r IH]; cbn [ops_eqb]; [reflexivity|].
  rewrite Nat.eqb_refl, IH. destruct a; reflexivity.
Qed.

Section Herm.
  Variable K : cring.
  Add Ring Kring2 : (c_ring K).
  Local Open Scope cr_scope.
  Variable half : K.
  Hypothesis half_double : half + half = c1.
  Variable is_zero : K -> bool.
  Hypothesis is_zero_exact : forall c, is_zero c = true -> c = c0.
  Variable keqb : K -> K -> bool.
  Hypothesis keqb_refl : forall a, keqb a a = true.

  Definition nonzero_coefs (s : psum K) : Prop := Forall (fun t => is_zero (coef t) = false) s.

  (* adding the terms of a simplified sum one by one rebuilds it *)
  Lemma fold_add_fixed (s : psum K) : forall acc, distinct_ops (acc ++ s) -> nonzero_coefs (acc ++ s) ->
    fold_left (fun acc t => sum_add is_zero acc [t]) s acc = acc ++ s.
  Proof.
    induction s as [|t s IH]; intros acc Hd Hz; cbn [fold_left]; [rewrite app_nil_r; reflexivity|].
    assert (E : acc ++ t :: s = (acc ++ [t]) ++ s) by (rewrite <- app_assoc; reflexivity).
    rewrite E in Hd, Hz. unfold sum_add at 2. rewrite simplify_fixed.
    - rewrite IH by assumption. symmetry. exact E.
    - unfold distinct_ops in *. rewrite map_app in Hd. apply NoDup_app_l in Hd. exact Hd.
    - unfold nonzero_coefs in Hz. apply Forall_app in Hz. apply Hz.
  Qed.

  Lemma herm_conj_real (s : psum K) : (forall t, In t s -> cconj (coef t) = coef t) ->
    distinct_ops s -> nonzero_coefs s -> herm_conj is_zero s = s.
  Proof.
    intros Hr Hd Hz. unfold herm_conj.
    rewrite (fold_left_ext_in _ (fun acc t => sum_add is_zero acc [t])).
    - apply (fold_add_fixed s []); assumption.
    - intros t Ht acc. cbv beta. unfold term_conj. rewrite (Hr t Ht). destruct t; reflexivity.
  Qed.

  Lemma sden_map_conj n (s : psum K) i j : sden n (map (@term_conj K) s) i j = adj (sden n s) i j.
  Proof.
    unfold sden, adj. rewrite lsum_map, (lsum_conj K). apply lsum_ext. intros t _. apply (term_conj_den K).
  Qed.

  (* a sum with pairwise different operator sets whose matrix is Hermitian has real coefficients *)
  Lemma hermitian_real_coefs n (s : psum K) : sum_ok n s -> distinct_ops s ->
    mat_eq (2 ^ n) (sden n s) (adj (sden n s)) -> forall t, In t s -> cconj (coef t) = coef t.
  Proof.
    intros Hok Hd Hh t Ht.
    assert (Hok' : sum_ok n (map (@term_conj K) s)).
    { unfold sum_ok in *. rewrite Forall_forall in *. intros t' Ht'. apply in_map_iff in Ht'.
      destruct Ht' as [t0 [<- Ht0]]. exact (Hok t0 Ht0). }
    assert (Hd' : distinct_ops (map (@term_conj K) s)).
    { unfold distinct_ops in *. rewrite map_map. exact Hd. }
    pose proof (coefficient_extraction K half half_double n s t Hok Hd Ht) as E1.
    pose proof (coefficient_extraction K half half_double n _ (term_conj t) Hok' Hd' (in_map _ _ _ Ht)) as E2.
    cbn [term_conj coef tops] in E2. rewrite <- E2, <- E1.
    unfold trace_product. f_equal. apply (T_ext K n); [apply dense_length'|].
    intros i j Hi Hj. rewrite sden_map_conj. symmetry. apply Hh; assumption.
  Qed.

  (* simplified and well-formed: what simplify / the constructors produce *)
  Definition simplified_ok (n : nat) (a : operand K) : Prop :=
    match a with
    | OT t => term_ok n t
    | OS s => sum_ok n s /\ distinct_ops s /\ nonzero_coefs s
    | ON _ => False
    end.

  Theorem is_hermitian_complete n (a : operand K) : simplified_ok n a ->
    mat_eq (2 ^ n) (oden n a) (adj (oden n a)) -> is_hermitian is_zero keqb a = Some true.
  Proof.
    destruct a as [t|s|c]; cbn [simplified_ok oden]; intros Hs Hh; [| |destruct Hs].
    - unfold is_hermitian. cbn [herm_conj_op py_eq]. f_equal. unfold term_eqb. cbn [term_conj coef tops].
      assert (Hr : cconj (coef t) = coef t).
      { apply (hermitian_real_coefs n [t]).
        - constructor; [exact Hs|constructor].
        - repeat constructor. intros [].
        - intros i j Hi Hj. unfold adj, sden. cbn [lsum]. rewrite conj_add, conj_0.
          specialize (Hh i j Hi Hj). unfold adj in Hh. rewrite <- Hh. reflexivity.
        - left. reflexivity. }
      rewrite Hr, keqb_refl, ops_eqb_refl', orb_true_r. reflexivity.
    - destruct Hs as [Hok [Hd Hz]]. unfold is_hermitian. cbn [herm_conj_op py_eq]. f_equal.
      rewrite herm_conj_real; [|apply (hermitian_real_coefs n s Hok Hd Hh)|exact Hd|exact Hz].
      apply sum_eqb_order_irrelevant; [exact keqb_refl|apply Permutation_refl].
  Qed.

  Hypothesis keqb_sound : forall a b, keqb a b = true -> a = b.

  (* the Hermiticity test agrees with the matrix for simplified operators *)
  Theorem is_hermitian_iff n (a : operand K) : simplified_ok n a ->
    (is_hermitian is_zero keqb a = Some true <-> mat_eq (2 ^ n) (oden n a) (adj (oden n a))).
  Proof.
    intro Hs. split; [|apply is_hermitian_complete; exact Hs].
    apply (is_hermitian_sound' K is_zero is_zero_exact keqb keqb_sound).
    destruct a as [t|s|c]; cbn [simplified_operand simplified_ok] in *; [exact I|apply Hs|exact I].
  Qed.
End Herm.

(* ------------------------------------------------------------------ reversing twice is the identity on simplified operators *)
Section ReverseTwice.
  Variable K : cring.
  Variable is_zero : K -> bool.

  Lemma fold_left_map' {A B C} (f : A -> C -> A) (g : B -> C) (l : list B) : forall a,
    fold_left (fun acc x => f acc (g x)) l a = fold_left f (map g l) a.
  Proof. induction l as [|x l IH]; intro a; cbn [fold_left map]; [reflexivity|]. apply IH. Qed.

  Lemma rev_term_invol n (t : term K) : term_fits n t -> rev_term n (rev_term n t) = t.
  Proof. intro H. unfold rev_term. cbn [coef tops]. rewrite rev_ops_invol by exact H. destruct t; reflexivity. Qed.

  Lemma rev_terms_distinct n (s : psum K) : sum_ok n s -> distinct_ops s -> distinct_ops (map (rev_term n) s).
  Proof.
    intros Hok Hd. unfold distinct_ops in *. rewrite map_map. cbn [rev_term tops].
    rewrite <- (map_map (@tops K) (rev_ops n)). apply NoDup_map_inj_on; [|exact Hd].
    intros l1 l2 H1 H2 E. apply in_map_iff in H1, H2. destruct H1 as [t1 [<- Ht1]], H2 as [t2 [<- Ht2]].
    unfold sum_ok in Hok. rewrite Forall_forall in Hok. destruct (Hok t1 Ht1) as [_ F1], (Hok t2 Ht2) as [_ F2].
    rewrite <- (rev_ops_invol n (tops t1) F1), <- (rev_ops_invol n (tops t2) F2), E. reflexivity.
  Qed.

  (* on a simplified operator the loop "reversed_op += term" just maps the terms *)
  Lemma reverse_terms_map n (s : psum K) : sum_ok n s -> distinct_ops s -> nonzero_coefs K is_zero s ->
    reverse_terms is_zero n s = map (rev_term n) s.
  Proof.
    intros Hok Hd Hz. unfold reverse_terms.
    rewrite (fold_left_map' (fun acc t => sum_add is_zero acc [t]) (rev_term n)).
    apply (fold_add_fixed K is_zero (map (rev_term n) s) []); cbn [app].
    - apply rev_terms_distinct; assumption.
    - unfold nonzero_coefs in *. rewrite Forall_forall in *. intros t Ht. apply in_map_iff in Ht.
      destruct Ht as [t0 [<- Ht0]]. exact (Hz t0 Ht0).
  Qed.

  Theorem reverse_twice_identity n (s : psum K) : sum_ok n s -> distinct_ops s -> nonzero_coefs K is_zero s ->
    reverse_terms is_zero n (reverse_terms is_zero n s) = s.
  Proof.
    intros Hok Hd Hz. rewrite (reverse_terms_map n s Hok Hd Hz).
    rewrite reverse_terms_map.
    - rewrite map_map. rewrite <- (map_id s) at 2. apply map_ext_in. intros t Ht. apply rev_term_invol.
      unfold sum_ok in Hok. rewrite Forall_forall in Hok. apply (Hok t Ht).
    - unfold sum_ok in *. rewrite Forall_forall in *. intros t Ht. apply in_map_iff in Ht.
      destruct Ht as [t0 [<- Ht0]]. apply rev_term_ok. exact (Hok t0 Ht0).
    - apply rev_terms_distinct; assumption.
    - unfold nonzero_coefs in *. rewrite Forall_forall in *. intros t Ht. apply in_map_iff in Ht.
      destruct Ht as [t0 [<- Ht0]]. exact (Hz t0 Ht0).
  Qed.
End ReverseTwice.
