(* Literals and comparison helpers for the C09 correspondence cases (model evaluated on GQring). *)
Require Import Coq.ZArith.ZArith Coq.Lists.List Coq.Bool.Bool Coq.QArith.QArith Coq.QArith.Qcanon.
Require Import OQ.Base.Ring OQ.Base.CaseEq OQ.Base.Mat OQ.Pauli.Algebra OQ.Pauli.Matrix.
Import ListNotations.
Close Scope Qc_scope. Close Scope Q_scope.
Open Scope list_scope.

(* dyadic Gaussian rational (re + i im) / 2^e *)
Definition dy (re im : Z) (e : nat) : GQ :=
  gq_lit (Qmake re (Pos.shiftl_nat 1 e)) (Qmake im (Pos.shiftl_nat 1 e)).

Definition gterm := term GQring.
Definition goperand := operand GQring.
Definition tm (re im : Z) (e : nat) (l : ops) : gterm := @mk_term GQring (dy re im e) l.
Definition oterm (t : gterm) : goperand := OT t.
Definition osum (l : list gterm) : goperand := OS l.
Definition onum (re im : Z) (e : nat) : goperand := @ON GQring (dy re im e).

Definition gterm_eqb (a b : gterm) : bool := gq_eqb (coef a) (coef b) && ops_eqb (tops a) (tops b).
Definition goperand_eqb (a b : goperand) : bool :=
  match a, b with
  | OT t1, OT t2 => gterm_eqb t1 t2
  | OS s1, OS s2 => leqb gterm_eqb s1 s2
  | ON c1, ON c2 => gq_eqb c1 c2
  | _, _ => false
  end.
Definition res_eqb (a b : option goperand) : bool := oeqb goperand_eqb a b.

(* every operand of a case respects the representation invariant (strictly increasing qubit indices) *)
Fixpoint sorted_b (l : ops) : bool :=
  match l with
  | (k1, _) :: ((k2, _) :: _) as r => Nat.ltb k1 k2 && sorted_b r
  | _ => true
  end.

Definition gmat := list (list GQ).
Definition gmat_eqb (a b : gmat) : bool := leqb (leqb gq_eqb) a b.
Definition gq_half : GQ := dy 1 0 1.
Definition g0 : GQ := dy 0 0 0.
(* data != 0 *)
Definition gq_nonzero (c : GQ) : bool := negb (gq_eqb c gq0).

(* operator.terms: a PauliTerm is the one-term list *)
Definition as_sum (a : goperand) : list gterm := match a with OT t => [t] | OS s => s | ON _ => [] end.

(* get_sparse_operator(op, n).toarray() *)
Definition sparse_eqb (a : goperand) (n : nat) (out : option gmat) : bool :=
  oeqb gmat_eqb
    (match @get_sparse GQring gq_nonzero (as_sum a) n with
     | Some A => Some (@to_list GQring (2 ^ n) A)
     | None => None
     end) out.

(* n_qubits *)
Definition width_eqb (a : goperand) (w : nat) : bool := Nat.eqb (@sum_width GQring (as_sum a)) w.

Definition hconj_eqb (a : goperand) (out : option goperand) : bool :=
  res_eqb (@herm_conj_op GQring gq_is_zero a) out.
Definition isherm_eqb (a : goperand) (out : option bool) : bool :=
  oeqb Bool.eqb (@is_hermitian GQring gq_is_zero gq_eqb a) out.

Definition reverse_eqb (a : goperand) (n : nat) (out : option (list gterm)) : bool :=
  oeqb (leqb gterm_eqb) (@reverse GQring gq_is_zero n (as_sum a)) out.

Definition expect_eqb (n : nat) (a : goperand) (v : list GQ) (rev : bool) (out : option GQ) : bool :=
  oeqb gq_eqb (@get_expectation GQring gq_nonzero gq_is_zero n (as_sum a) (@vof_list GQring v) rev) out.

Definition frommat_eqb (L : gmat) (out : option (list gterm)) : bool :=
  oeqb (leqb gterm_eqb) (@pauliop_from_rows GQring gq_is_zero gq_half L) out.
