(* Pauli terms: the denotation as a Kronecker chain, and PauliTerm.__mul__ = matrix product. *)
Require Import Coq.setoid_ring.Ring Coq.ZArith.ZArith Coq.Lists.List Coq.Bool.Bool Coq.Arith.Arith Coq.micromega.Lia.
Require Import OQ.Base.Ring OQ.Base.Sums OQ.Base.Bits OQ.Base.Mat OQ.Pauli.Algebra OQ.Pauli.Den OQ.Pauli.TablesProofs.
Import ListNotations.

(* ------------------------------------------------------------------ operator dictionaries *)
Lemma lookup_set q' q a l : lookup q' (set_op q a l) = if Nat.eqb q' q then Some a else lookup q' l.
Proof.
  induction l as [|[k b] r IH]; cbn [set_op lookup].
  - reflexivity.
  - destruct (Nat.ltb_spec q k) as [Hlt|Hge].
    + cbn [lookup]. reflexivity.
    + destruct (Nat.eqb_spec q k) as [->|Hne]; cbn [lookup].
      * destruct (Nat.eqb q' k); reflexivity.
      * rewrite IH. destruct (Nat.eqb_spec q' k) as [->|]; [|reflexivity].
        destruct (Nat.eqb_spec k q); [congruence|reflexivity].
Qed.

Lemma lookup_del q' q l : lookup q' (del_op q l) = if Nat.eqb q' q then None else lookup q' l.
Proof.
  induction l as [|[k b] r IH]; cbn [del_op lookup].
  - destruct (Nat.eqb q' q); reflexivity.
  - destruct (Nat.eqb_spec q k) as [->|Hne].
    + rewrite IH. destruct (Nat.eqb q' k); reflexivity.
    + cbn [lookup]. rewrite IH. destruct (Nat.eqb_spec q' k) as [->|]; [|reflexivity].
      destruct (Nat.eqb_spec k q); [congruence|reflexivity].
Qed.

Lemma lookup_notin q l : ~ In q (keys l) -> lookup q l = None.
Proof.
  induction l as [|[k b] r IH]; intro H; cbn [lookup]; [reflexivity|].
  destruct (Nat.eqb_spec q k) as [->|Hne]; [exfalso; apply H; left; reflexivity|].
  apply IH. intro Hin. apply H. right. exact Hin.
Qed.

Lemma ops_sorted_nodup l : ops_sorted l -> NoDup (keys l).
Proof.
  induction l as [|[k b] r IH]; intro H; cbn [keys map]; [constructor|].
  destruct H as [H1 H2]. constructor; [|apply IH; exact H2].
  intro Hin. specialize (H1 k Hin). cbn [fst] in H1. lia.
Qed.

Lemma ops_eqb_eq l1 l2 : ops_eqb l1 l2 = true -> l1 = l2.
Proof.
  revert l2. induction l1 as [|[k a] r IH]; intros [|[k2 a2] r2] H; cbn [ops_eqb] in H; try discriminate; [reflexivity|].
  apply andb_true_iff in H. destruct H as [H H3]. apply andb_true_iff in H. destruct H as [H1 H2].
  apply Nat.eqb_eq in H1. destruct (letter_eqb_spec a a2); [|discriminate]. subst. f_equal. apply IH. exact H3.
Qed.

Lemma ops_eqb_refl l : ops_eqb l l = true.
Proof.
  induction l as [|[k a] r IH]; cbn [ops_eqb]; [reflexivity|].
  rewrite Nat.eqb_refl, IH. destruct a; reflexivity.
Qed.

Section DenProofs.
  Variable K : cring.
  Add Ring Kring : (c_ring K).
  Local Open Scope cr_scope.

  (* ---------------------------------------------------------------- products over index lists *)
  Lemma lprod_map {A B} (h : A -> B) (l : list A) (f : B -> K) : lprod (map h l) f = lprod l (fun x => f (h x)).
  Proof. induction l as [|x l IH]; cbn [lprod map]; [reflexivity|]. rewrite IH. reflexivity. Qed.

  Lemma lprod_update n q u (h : nat -> K) : (q < n)%nat -> h q = c1 ->
    lprod (seq 0 n) (fun q' => if Nat.eqb q' q then u else h q') = u * lprod (seq 0 n) h.
  Proof.
    induction n as [|n IH]; intros Hq Hh; [lia|].
    rewrite seq_S, !lprod_app. cbn [lprod Nat.add].
    destruct (Nat.eq_dec q n) as [->|Hne].
    - rewrite Nat.eqb_refl, Hh.
      rewrite (lprod_ext K (seq 0 n) _ h).
      + ring.
      + intros x Hx. apply in_seq in Hx. destruct (Nat.eqb_spec x n); [lia|reflexivity].
    - rewrite IH by (lia || assumption). destruct (Nat.eqb_spec n q); [lia|]. ring.
  Qed.

  (* ---------------------------------------------------------------- one qubit *)
  Definition omul (a b : option letter) : option letter :=
    match a, b with
    | None, _ => b
    | _, None => a
    | Some x, Some y => if letter_eqb x y then None else Some (op_tab x y)
    end.
  Definition ophase (a b : option letter) : K :=
    match a, b with
    | Some x, Some y => if letter_eqb x y then c1 else coeff_tab K x y
    | _, _ => c1
    end.

  Lemma omul_none_r a : omul a None = a.
  Proof. destruct a; reflexivity. Qed.
  Lemma ophase_none_r a : ophase a None = c1.
  Proof. destruct a; reflexivity. Qed.

  Lemma smat_mul (a b : option letter) :
    mat_eq 2 (mmul 2 (smat a) (smat b)) (mscale (ophase a b) (smat (omul a b))).
  Proof.
    destruct a as [x|], b as [y|]; cbn [omul ophase].
    - destruct (letter_eqb_spec x y) as [->|Hne].
      + intros i j Hi Hj. rewrite (tables_square K y i j Hi Hj). unfold mscale. ring.
      + apply tables_distinct. exact Hne.
    - intros i j Hi Hj. destruct x; destruct i as [|[|]]; try lia; destruct j as [|[|]]; try lia;
        cbv -[cadd cmul csub copp c0 c1 ci car cconj]; ring.
    - intros i j Hi Hj. destruct y; destruct i as [|[|]]; try lia; destruct j as [|[|]]; try lia;
        cbv -[cadd cmul csub copp c0 c1 ci car cconj]; ring.
    - intros i j Hi Hj. destruct i as [|[|]]; try lia; destruct j as [|[|]]; try lia;
        cbv -[cadd cmul csub copp c0 c1 ci car cconj]; ring.
  Qed.

  (* ---------------------------------------------------------------- dense strings *)
  Fixpoint dmul (l1 l2 : list (option letter)) : list (option letter) :=
    match l1, l2 with a :: r1, b :: r2 => omul a b :: dmul r1 r2 | _, _ => [] end.
  Fixpoint dphase (l1 l2 : list (option letter)) : K :=
    match l1, l2 with a :: r1, b :: r2 => ophase a b * dphase r1 r2 | _, _ => c1 end.

  Lemma dmul_length l1 l2 : List.length l1 = List.length l2 -> List.length (dmul l1 l2) = List.length l1.
  Proof.
    revert l2. induction l1 as [|a r IH]; intros [|b r2] H; cbn in *; try reflexivity; try discriminate.
    f_equal. apply IH. lia.
  Qed.

  Lemma dmul_map {A} (f g : A -> option letter) l :
    dmul (map f l) (map g l) = map (fun q => omul (f q) (g q)) l.
  Proof. induction l as [|x l IH]; cbn [map dmul]; [reflexivity|]. rewrite IH. reflexivity. Qed.
  Lemma dphase_map {A} (f g : A -> option letter) l :
    dphase (map f l) (map g l) = lprod l (fun q => ophase (f q) (g q)).
  Proof. induction l as [|x l IH]; cbn [map dphase lprod]; [reflexivity|]. rewrite IH. reflexivity. Qed.

  (* product of two Kronecker chains of the same length *)
  Lemma dmat_mul l1 l2 : List.length l1 = List.length l2 ->
    mat_eq (2 ^ List.length l1) (mmul (2 ^ List.length l1) (dmat l1) (dmat l2))
           (mscale (dphase l1 l2) (dmat (dmul l1 l2))).
  Proof.
    revert l2. induction l1 as [|a r1 IH]; intros [|b r2] Hlen; cbn [List.length] in Hlen; try discriminate.
    - intros i j Hi Hj. cbn [List.length dmat dmul dphase]. unfold mmul, mscale.
      change (2 ^ 0)%nat with 1%nat. cbn [rsum]. ring.
    - injection Hlen as Hlen. cbn [List.length dmat dmul dphase].
      rewrite dmul_length by exact Hlen. rewrite <- Hlen.
      set (m := List.length r1) in *. change (2 ^ S m)%nat with (2 * 2 ^ m)%nat.
      intros i j Hi Hj. pose proof (pow2_pos m) as Hp.
      rewrite kron_mmul by exact Hp.
      rewrite (kron_compat K 2 (2 ^ m) _ (mscale (ophase a b) (smat (omul a b))) _ (mscale (dphase r1 r2) (dmat (dmul r1 r2))) Hp
                 (smat_mul a b) (IH r2 Hlen) i j Hi Hj).
      unfold kron, mscale. ring.
  Qed.

  (* the entry formula of Den.pprod is the Kronecker chain of the dense string *)
  Lemma bits_mod n i : bits n i = bits n (i mod 2 ^ n).
  Proof.
    pose proof (pow2_pos n) as Hp.
    rewrite (Nat.div_mod i (2 ^ n)) at 1 by lia.
    rewrite (Nat.mul_comm (2 ^ n)). apply bits_add_high. apply Nat.mod_upper_bound. lia.
  Qed.

  Lemma bit_at_top n i : (i < 2 ^ S n)%nat -> bit_at n i = Nat.eqb (i / 2 ^ n) 1.
  Proof.
    intro Hi. unfold bit_at. pose proof (pow2_pos n) as Hp.
    assert (H : (i / 2 ^ n < 2)%nat) by (apply Nat.div_lt_upper_bound; [lia|]; rewrite Nat.mul_comm; exact Hi).
    rewrite Nat.mod_small by exact H. reflexivity.
  Qed.

  Lemma chain_entry n (f : nat -> option letter) i j : (i < 2 ^ n)%nat -> (j < 2 ^ n)%nat ->
    lprod (seq 0 n) (fun q => @sigma K (f q) (bitq n q i) (bitq n q j)) = dmat (map f (seq 0 n)) i j.
  Proof.
    revert f i j. induction n as [|n IH]; intros f i j Hi Hj; [reflexivity|].
    cbn [seq map dmat lprod]. rewrite map_length, seq_length.
    rewrite <- seq_shift, map_map, lprod_map.
    pose proof (pow2_pos n) as Hp.
    unfold kron. rewrite <- (IH (fun q => f (S q))) by (apply Nat.mod_upper_bound; lia).
    unfold smat. rewrite <- !bit_at_top by assumption.
    f_equal.
    apply lprod_ext. intros q Hq. unfold bitq. cbn [bits nth]. rewrite <- !bits_mod. reflexivity.
  Qed.

  Lemma dense_length n l : List.length (dense n l) = n.
  Proof. unfold dense. rewrite map_length, seq_length. reflexivity. Qed.

  Lemma pprod_dmat n l : mat_eq (2 ^ n) (@pprod K n l) (dmat (dense n l)).
  Proof. intros i j Hi Hj. unfold pprod, dense. apply chain_entry; assumption. Qed.

  (* ---------------------------------------------------------------- _multiply_by_operator and the fold of __mul__ *)
  Lemma mul_by_op_lookup (t : term K) b q q' :
    lookup q' (tops (mul_by_op t b q)) = if Nat.eqb q' q then omul (lookup q (tops t)) (Some b) else lookup q' (tops t).
  Proof.
    unfold mul_by_op. destruct (lookup q (tops t)) as [a|] eqn:E; cbn [omul].
    - destruct (letter_eqb a b); cbn [tops].
      + apply lookup_del.
      + apply lookup_set.
    - cbn [tops]. apply lookup_set.
  Qed.

  Lemma mul_by_op_coef (t : term K) b q :
    coef (mul_by_op t b q) = coef t * ophase (lookup q (tops t)) (Some b).
  Proof.
    unfold mul_by_op. destruct (lookup q (tops t)) as [a|] eqn:E; cbn [ophase].
    - destruct (letter_eqb a b); cbn [coef]; ring.
    - cbn [coef]. ring.
  Qed.

  Definition step (acc : term K) (it : nat * letter) : term K := mul_by_op acc (snd it) (fst it).

  Lemma fold_step (items : ops) : forall t : term K, NoDup (keys items) ->
    (forall q', lookup q' (tops (fold_left step items t)) = omul (lookup q' (tops t)) (lookup q' items)) /\
    coef (fold_left step items t)
    = coef t * lprod items (fun it => ophase (lookup (fst it) (tops t)) (Some (snd it))).
  Proof.
    induction items as [|[q b] r IH]; intros t Hnd.
    - cbn [fold_left lookup lprod]. split; [intro q'; rewrite omul_none_r; reflexivity|ring].
    - cbn [keys map fst] in Hnd. inversion Hnd as [|x xs Hnotin Hnd']; subst.
      cbn [fold_left]. destruct (IH (step t (q, b)) Hnd') as [IH1 IH2]. split.
      + intro q'. rewrite IH1. unfold step at 1. cbn [fst snd]. rewrite mul_by_op_lookup. cbn [lookup].
        destruct (Nat.eqb_spec q' q) as [->|Hne]; [|reflexivity].
        rewrite (lookup_notin q r Hnotin), omul_none_r. reflexivity.
      + rewrite IH2. unfold step at 1. cbn [fst snd]. rewrite mul_by_op_coef. cbn [lprod fst snd].
        rewrite (lprod_ext K r _ (fun it => ophase (lookup (fst it) (tops t)) (Some (snd it)))).
        * ring.
        * intros [q2 b2] Hin. cbn [fst snd]. unfold step. cbn [fst snd]. rewrite mul_by_op_lookup.
          destruct (Nat.eqb_spec q2 q) as [->|Hne]; [|reflexivity].
          exfalso. apply Hnotin. apply (in_map fst) in Hin. exact Hin.
  Qed.

  (* a product over the items of a dictionary = the product over all qubits of the register *)
  Lemma lprod_items n (items : ops) (g : nat -> option letter -> K) :
    (forall q, g q None = c1) -> NoDup (keys items) -> (forall q, In q (keys items) -> (q < n)%nat) ->
    lprod items (fun it => g (fst it) (Some (snd it))) = lprod (seq 0 n) (fun q => g q (lookup q items)).
  Proof.
    intros Hg. induction items as [|[q b] r IH]; intros Hnd Hlt.
    - cbn [lprod lookup]. rewrite (lprod_ext K (seq 0 n) _ (fun _ => c1)) by (intros; apply Hg).
      rewrite lprod_one. reflexivity.
    - cbn [keys map fst] in Hnd. inversion Hnd as [|x xs Hnotin Hnd']; subst.
      cbn [lprod fst snd]. rewrite IH; [|exact Hnd'|intros q' Hq'; apply Hlt; right; exact Hq'].
      rewrite <- (lprod_update n q (g q (Some b)) (fun q' => g q' (lookup q' r))).
      + apply lprod_ext. intros q' _. cbn [lookup]. destruct (Nat.eqb_spec q' q) as [->|]; reflexivity.
      + apply Hlt. left. reflexivity.
      + rewrite (lookup_notin q r Hnotin). apply Hg.
  Qed.

  (* ---------------------------------------------------------------- PauliTerm.__mul__ *)
  Lemma term_mul_lookup (t1 t2 : term K) q : NoDup (keys (tops t2)) ->
    lookup q (tops (term_mul t1 t2)) = omul (lookup q (tops t1)) (lookup q (tops t2)).
  Proof.
    intro Hnd. unfold term_mul. cbn [tops]. fold step.
    destruct (fold_step (tops t2) (mk_term c1 (tops t1)) Hnd) as [H _]. rewrite H. reflexivity.
  Qed.

  Lemma term_mul_coef n (t1 t2 : term K) : NoDup (keys (tops t2)) -> term_fits n t2 ->
    coef (term_mul t1 t2)
    = coef t1 * coef t2 * lprod (seq 0 n) (fun q => ophase (lookup q (tops t1)) (lookup q (tops t2))).
  Proof.
    intros Hnd Hfit. unfold term_mul. cbn [coef]. fold step.
    destruct (fold_step (tops t2) (mk_term c1 (tops t1)) Hnd) as [_ H]. rewrite H. cbn [coef tops].
    rewrite (lprod_items n (tops t2) (fun q o => ophase (lookup q (tops t1)) o)); [ring| |exact Hnd|exact Hfit].
    intro q. apply ophase_none_r.
  Qed.

  Theorem term_mul_den n (t1 t2 : term K) : NoDup (keys (tops t2)) -> term_fits n t2 ->
    mat_eq (2 ^ n) (den n (term_mul t1 t2)) (mmul (2 ^ n) (den n t1) (den n t2)).
  Proof.
    intros Hnd Hfit i j Hi Hj.
    unfold den at 1. rewrite (term_mul_coef n) by assumption.
    rewrite (pprod_dmat n _ i j Hi Hj).
    replace (dense n (tops (term_mul t1 t2))) with (dmul (dense n (tops t1)) (dense n (tops t2))).
    2:{ unfold dense. rewrite dmul_map. apply map_ext. intro q. symmetry. apply term_mul_lookup. exact Hnd. }
    transitivity (coef t1 * coef t2 * mmul (2 ^ n) (dmat (dense n (tops t1))) (dmat (dense n (tops t2))) i j).
    - pose proof (dmat_mul (dense n (tops t1)) (dense n (tops t2))) as H.
      rewrite !dense_length in H. rewrite (H eq_refl i j Hi Hj). unfold mscale, dense. rewrite dphase_map. ring.
    - unfold mmul, den. rewrite <- rsum_scale_l. apply rsum_ext. intros k Hk.
      rewrite (pprod_dmat n (tops t1) i k Hi Hk), (pprod_dmat n (tops t2) k j Hk Hj). ring.
  Qed.
End DenProofs.
