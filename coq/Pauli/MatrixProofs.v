(* C09: get_sparse_operator's Kronecker chain is the denotation of the operator (for every register width). *)
Require Import Coq.setoid_ring.Ring Coq.Lists.List Coq.Bool.Bool Coq.Arith.Arith Coq.micromega.Lia.
Require Import OQ.Base.Ring OQ.Base.Sums OQ.Base.Bits OQ.Base.Mat OQ.Pauli.Algebra OQ.Pauli.Den OQ.Pauli.Matrix.
Import ListNotations.

(* ------------------------------------------------------------------ dictionaries, widths *)
Lemma lookup_none q (l : ops) : ~ In q (keys l) -> lookup q l = None.
Proof.
  induction l as [|[k b] r IH]; intro H; cbn [lookup]; [reflexivity|].
  destruct (Nat.eqb_spec q k) as [->|Hne]; [exfalso; apply H; left; reflexivity|].
  apply IH. intro Hin. apply H. right. exact Hin.
Qed.

Lemma ops_width_fits (l : ops) n : ops_width l <= n <-> (forall q, In q (keys l) -> q < n).
Proof.
  induction l as [|[k b] r IH]; cbn [ops_width fold_right keys map fst In].
  - split; [intros _ q []|lia].
  - fold (ops_width r). split.
    + intros H q [<-|Hq]; [lia|]. apply IH; [lia|exact Hq].
    + intro H. apply Nat.max_lub; [apply H; left; reflexivity|]. apply IH. intros q Hq. apply H. right. exact Hq.
Qed.

Lemma seq_add_map k m : seq k m = map (Nat.add k) (seq 0 m).
Proof.
  revert k. induction m as [|m IH]; intro k; [reflexivity|].
  cbn [seq map]. f_equal; [lia|]. rewrite (IH (S k)), <- (seq_shift m 0), map_map.
  apply map_ext. intro x. lia.
Qed.

Lemma bits_mod_pow n i : bits n i = bits n (i mod 2 ^ n).
Proof.
  pose proof (pow2_pos n) as Hp.
  rewrite (Nat.div_mod i (2 ^ n)) at 1 by lia.
  rewrite (Nat.mul_comm (2 ^ n)). apply bits_add_high. apply Nat.mod_upper_bound. lia.
Qed.

Lemma bitq_hi k m q i : q < k -> bitq (k + m) q i = bitq k q (i / 2 ^ m).
Proof. intro Hq. unfold bitq. rewrite bits_app, app_nth1 by (rewrite bits_length; exact Hq). reflexivity. Qed.

Lemma bitq_lo k m q i : bitq (k + m) (k + q) i = bitq m q (i mod 2 ^ m).
Proof.
  unfold bitq. rewrite bits_app, app_nth2 by (rewrite bits_length; lia).
  rewrite bits_length. replace (k + q - k) with q by lia. rewrite <- bits_mod_pow. reflexivity.
Qed.

Section MatrixProofs.
  Variable K : cring.
  Add Ring Kring : (c_ring K).
  Local Open Scope cr_scope.

  Lemma lprod_map' {A B} (h : A -> B) (l : list A) (f : B -> K) : lprod (map h l) f = lprod l (fun x => f (h x)).
  Proof. induction l as [|x l IH]; cbn [lprod map]; [reflexivity|]. rewrite IH. reflexivity. Qed.

  (* the csc literals of the module are the 2x2 Pauli matrices of the denotation *)
  Lemma pauli_mat_smat (a : letter) : mat_eq 2 (@pauli_mat K a) (smat (Some a)).
  Proof.
    intros i j Hi Hj. destruct a; destruct i as [|[|]]; try lia; destruct j as [|[|]]; try lia; reflexivity.
  Qed.

  (* ---------------------------------------------------------------- tensor products of letters given by a function *)
  Definition gprod (n : nat) (f : nat -> option letter) : Mat K :=
    fun i j => lprod (seq 0 n) (fun q => sigma (f q) (bitq n q i) (bitq n q j)).

  Lemma pprod_gprod n l i j : pprod n l i j = gprod n (fun q => lookup q l) i j.
  Proof. reflexivity. Qed.

  Lemma gprod_ext n f g i j : (forall q, q < n -> f q = g q) -> gprod n f i j = gprod n g i j.
  Proof. intro H. unfold gprod. apply lprod_ext. intros q Hq. apply in_seq in Hq. rewrite H by lia. reflexivity. Qed.

  (* splitting the register into its k most significant and m least significant qubits *)
  Lemma gprod_split k m f i j :
    gprod (k + m) f i j
    = gprod k f (i / 2 ^ m)%nat (j / 2 ^ m)%nat * gprod m (fun q => f (k + q)%nat) (i mod 2 ^ m)%nat (j mod 2 ^ m)%nat.
  Proof.
    unfold gprod. rewrite seq_app, lprod_app. cbn [Nat.add]. f_equal.
    - apply lprod_ext. intros q Hq. apply in_seq in Hq. rewrite !bitq_hi by lia. reflexivity.
    - rewrite seq_add_map, lprod_map'. apply lprod_ext. intros q _. rewrite !bitq_lo. reflexivity.
  Qed.

  Lemma gprod_one f i j : i < 2 -> j < 2 -> gprod 1 f i j = smat (f 0%nat) i j.
  Proof.
    intros Hi Hj. unfold gprod, smat, bitq. cbn [seq lprod bits nth].
    destruct i as [|[|]]; try lia; destruct j as [|[|]]; try lia; cbn; ring.
  Qed.

  Lemma gprod_zero f i j : gprod 0 f i j = c1.
  Proof. reflexivity. Qed.

  Lemma smat_none_eye' i j : i < 2 -> j < 2 -> @smat K None i j = eye i j.
  Proof. intros Hi Hj. destruct i as [|[|]]; try lia; destruct j as [|[|]]; try lia; reflexivity. Qed.

  (* identity on every qubit: the identity matrix *)
  Lemma gprod_eye m : forall f i j, (forall q, q < m -> f q = None) -> i < 2 ^ m -> j < 2 ^ m -> gprod m f i j = eye i j.
  Proof.
    induction m as [|m IH]; intros f i j Hf Hi Hj.
    - cbn in Hi, Hj. replace i with 0%nat by lia. replace j with 0%nat by lia. reflexivity.
    - change (S m) with (1 + m)%nat. rewrite gprod_split. pose proof (pow2_pos m) as Hp.
      assert (Hi' : (i / 2 ^ m < 2)%nat) by (apply Nat.div_lt_upper_bound; [lia|]; cbn in Hi; lia).
      assert (Hj' : (j / 2 ^ m < 2)%nat) by (apply Nat.div_lt_upper_bound; [lia|]; cbn in Hj; lia).
      rewrite gprod_one by assumption. rewrite Hf by lia. rewrite smat_none_eye' by assumption.
      rewrite IH; [|intros q Hq; apply Hf; lia|apply Nat.mod_upper_bound; lia|apply Nat.mod_upper_bound; lia].
      apply (kron_eye K (2 ^ m) i j Hp).
  Qed.

  (* the entry formula is the Kronecker chain of the dense string, qubit 0 the leftmost factor *)
  Lemma gprod_dmat n : forall f i j, i < 2 ^ n -> j < 2 ^ n -> gprod n f i j = dmat (map f (seq 0 n)) i j.
  Proof.
    induction n as [|n IH]; intros f i j Hi Hj; [reflexivity|].
    change (S n) with (1 + n)%nat at 1. rewrite gprod_split. pose proof (pow2_pos n) as Hp.
    cbn [seq map dmat]. rewrite map_length, seq_length. unfold kron.
    rewrite gprod_one by (apply Nat.div_lt_upper_bound; [lia|]; cbn in Hi, Hj; lia).
    rewrite IH by (apply Nat.mod_upper_bound; lia).
    rewrite <- seq_shift, map_map. reflexivity.
  Qed.

  (* appending a factor on the right of a chain *)
  Lemma extend k m f (acc B : Mat K) c :
    mat_eq (2 ^ k) acc (mscale c (gprod k f)) ->
    mat_eq (2 ^ m) B (gprod m (fun q => f (k + q)%nat)) ->
    mat_eq (2 ^ (k + m)) (kron (2 ^ m) acc B) (mscale c (gprod (k + m) f)).
  Proof.
    intros HA HB i j Hi Hj. pose proof (pow2_pos m) as Hp. rewrite Nat.pow_add_r in Hi, Hj.
    unfold kron. rewrite HA by (apply Nat.div_lt_upper_bound; lia).
    rewrite HB by (apply Nat.mod_upper_bound; lia).
    unfold mscale. rewrite gprod_split. ring.
  Qed.

  (* ---------------------------------------------------------------- the loop of get_sparse_operator *)
  Definition kstep (acc : Mat K) (f : factor K) : Mat K := kron (2 ^ fst f) acc (snd f).

  Lemma chain_correct (l : ops) : forall tf n e f (acc : Mat K) c,
    ops_sorted l -> (forall q, In q (keys l) -> tf <= q < n) -> tf <= n ->
    (forall q, tf <= q -> f q = lookup q l) ->
    mat_eq (2 ^ tf) acc (mscale c (gprod tf f)) ->
    mat_eq (2 ^ n) (fold_left kstep (chain_factors l tf n e) acc) (mscale c (gprod n f)).
  Proof.
    induction l as [|[q a] r IH]; intros tf n e f acc c Hs Hk Hle Hf Hacc.
    - cbn [chain_factors].
      assert (Hgap : mat_eq (2 ^ n) (kron (2 ^ (n - tf)) acc eye) (mscale c (gprod n f))).
      { replace n with (tf + (n - tf))%nat at 1 3 by lia. apply extend; [exact Hacc|].
        intros i j Hi Hj. symmetry. apply gprod_eye; [|exact Hi|exact Hj].
        intros q _. rewrite Hf by lia. reflexivity. }
      destruct (Nat.ltb_spec tf n) as [Hlt|Hge]; cbn [orb fold_left kstep fst snd]; [exact Hgap|].
      destruct e; cbn [fold_left kstep fst snd]; [exact Hgap|].
      replace n with tf by lia. exact Hacc.
    - cbn [chain_factors]. destruct Hs as [Hs1 Hs2].
      assert (Hq : tf <= q < n) by (apply Hk; left; reflexivity).
      rewrite fold_left_app. cbn [fold_left]. unfold kstep at 2. cbn [fst snd].
      (* after the identity that fills the gap *)
      set (acc1 := fold_left kstep (if Nat.ltb tf q then [((q - tf)%nat, eye)] else []) acc).
      assert (H1 : mat_eq (2 ^ q) acc1 (mscale c (gprod q f))).
      { unfold acc1. destruct (Nat.ltb_spec tf q) as [Hlt|Hge]; cbn [fold_left kstep fst snd].
        - replace q with (tf + (q - tf))%nat at 1 3 by lia. apply extend; [exact Hacc|].
          intros i j Hi Hj. symmetry. apply gprod_eye; [|exact Hi|exact Hj].
          intros q' Hq'. rewrite Hf by lia. cbn [lookup]. destruct (Nat.eqb_spec (tf + q') q); [lia|].
          apply lookup_none. intro Hin. specialize (Hs1 _ Hin). lia.
        - replace q with tf by lia. exact Hacc. }
      (* after the operator itself *)
      assert (H2 : mat_eq (2 ^ S q) (kron (2 ^ 1) acc1 (pauli_mat a)) (mscale c (gprod (S q) f))).
      { replace (S q) with (q + 1)%nat by lia. apply extend; [exact H1|].
        intros i j Hi Hj. change (2 ^ 1)%nat with 2%nat in Hi, Hj.
        rewrite gprod_one by assumption. rewrite Nat.add_0_r, Hf by lia. cbn [lookup]. rewrite Nat.eqb_refl.
        apply pauli_mat_smat; assumption. }
      apply IH; [exact Hs2| |lia| |exact H2].
      + intros q' Hq'. specialize (Hs1 _ Hq'). split; [lia|]. apply Hk. right. exact Hq'.
      + intros q' Hq'. rewrite Hf by lia. cbn [lookup]. destruct (Nat.eqb_spec q' q); [lia|reflexivity].
  Qed.

  Theorem sparse_chain_den n (t : term K) : ops_sorted (tops t) -> term_width t <= n ->
    mat_eq (2 ^ n) (sparse_chain t n) (den n t).
  Proof.
    intros Hs Hw. unfold sparse_chain, kron_all. fold kstep.
    pose proof (chain_correct (tops t) 0 n (is_nil (tops t)) (fun q => lookup q (tops t)) (fun _ _ => coef t) (coef t)) as H.
    intros i j Hi Hj. rewrite H; try assumption.
    - unfold mscale, den. rewrite pprod_gprod. reflexivity.
    - intros q Hq. split; [lia|]. apply (proj1 (ops_width_fits (tops t) n)); assumption.
    - lia.
    - reflexivity.
    - intros i' j' _ _. unfold mscale. rewrite gprod_zero. ring.
  Qed.

  Lemma sum_width_terms (s : psum K) n : sum_width s <= n <-> Forall (fun t => term_width t <= n) s.
  Proof.
    induction s as [|t s IH]; cbn [sum_width fold_right]; [split; [constructor|lia]|].
    fold (sum_width s). split.
    - intro H. constructor; [lia|]. apply IH. lia.
    - intro H. inversion H; subst. apply Nat.max_lub; [assumption|]. apply IH. assumption.
  Qed.

  Definition sum_sorted (s : psum K) : Prop := Forall (fun t => ops_sorted (tops t)) s.

  (* the sum over terms of the per-term chains is the denotation of the sum *)
  Theorem sparse_sum_den n (s : psum K) : sum_sorted s -> sum_width s <= n ->
    mat_eq (2 ^ n) (sparse_sum s n) (sden n s).
  Proof.
    intros Hs Hw i j Hi Hj. unfold sparse_sum, sden. apply sum_width_terms in Hw.
    apply lsum_ext. intros t Ht. apply sparse_chain_den; try assumption.
    - exact (proj1 (Forall_forall _ _) Hs t Ht).
    - exact (proj1 (Forall_forall _ _) Hw t Ht).
  Qed.

  (* the denotation is the tensor-product definition: coefficient times the Kronecker chain over qubits 0..n-1 *)
  Theorem den_tensor_product n (t : term K) :
    mat_eq (2 ^ n) (den n t) (mscale (coef t) (dmat (dense n (tops t)))).
  Proof. intros i j Hi Hj. unfold den, mscale, dense. rewrite pprod_gprod, gprod_dmat by assumption. reflexivity. Qed.

  Lemma term_width_fits n (t : term K) : term_width t <= n <-> term_fits n t.
  Proof. apply ops_width_fits. Qed.
End MatrixProofs.

Arguments gprod {K}. Arguments sum_sorted {K}.
