(* C09: the COO assembly of get_sparse_operator.  The stored values of each term's matrix are taken in column-major
   order and paired with the row-major index arrays of nonzero() with rows and columns exchanged; because the
   support of coefficient * Pauli string is symmetric, the transposed row-major index list IS the column-major
   one, every value lands on its own position, and the assembled matrix is the entry-wise sum of the per-term
   matrices - hence the denotation of the operator. *)
Require Import Coq.setoid_ring.Ring Coq.Lists.List Coq.Bool.Bool Coq.Arith.Arith Coq.micromega.Lia.
Require Import OQ.Base.Ring OQ.Base.Sums OQ.Base.Bits OQ.Base.Mat OQ.Pauli.Algebra OQ.Pauli.Den OQ.Pauli.Matrix
  OQ.Pauli.MatrixProofs.
Import ListNotations.

(* ------------------------------------------------------------------ lists *)
Lemma filter_map_comm {A B} (g : A -> B) (p : B -> bool) l : filter p (map g l) = map g (filter (fun x => p (g x)) l).
Proof. induction l as [|x l IH]; cbn [map filter]; [reflexivity|]. destruct (p (g x)); cbn [map]; rewrite IH; reflexivity. Qed.

Lemma combine_map2 {A B C} (f : A -> B) (g : A -> C) l : combine (map f l) (map g l) = map (fun x => (f x, g x)) l.
Proof. induction l as [|x l IH]; cbn [map combine]; [reflexivity|]. rewrite IH. reflexivity. Qed.

Lemma combine_app' {A B} (l1 l1' : list A) (l2 l2' : list B) : List.length l1 = List.length l2 ->
  combine (l1 ++ l1') (l2 ++ l2') = combine l1 l2 ++ combine l1' l2'.
Proof.
  revert l2. induction l1 as [|x l1 IH]; intros [|y l2] H; cbn in H; try discriminate; [reflexivity|].
  cbn [app combine]. rewrite IH by lia. reflexivity.
Qed.

Lemma combine_concat {A B P} (f : P -> list A) (g : P -> list B) (per : list P) :
  (forall p, In p per -> List.length (f p) = List.length (g p)) ->
  combine (concat (map f per)) (concat (map g per)) = concat (map (fun p => combine (f p) (g p)) per).
Proof.
  induction per as [|p per IH]; intro H; cbn [map concat]; [reflexivity|].
  rewrite combine_app' by (apply H; left; reflexivity). rewrite IH; [reflexivity|].
  intros q Hq. apply H. right. exact Hq.
Qed.

Lemma concat_length_eq {A B P} (f : P -> list A) (g : P -> list B) (per : list P) :
  (forall p, In p per -> List.length (f p) = List.length (g p)) ->
  List.length (concat (map f per)) = List.length (concat (map g per)).
Proof.
  induction per as [|p per IH]; intro H; cbn [map concat]; [reflexivity|].
  rewrite !app_length, (H p) by (left; reflexivity). rewrite IH; [reflexivity|].
  intros q Hq. apply H. right. exact Hq.
Qed.

Definition swap (rc : nat * nat) : nat * nat := (snd rc, fst rc).

Lemma map_swap_flat (S1 S2 : list nat) :
  map swap (flat_map (fun r => map (fun c => (r, c)) S2) S1) = flat_map (fun r => map (fun c => (c, r)) S2) S1.
Proof.
  induction S1 as [|r S1 IH]; cbn [flat_map map]; [reflexivity|].
  rewrite map_app, IH, map_map. reflexivity.
Qed.

Lemma map_swap_rowmajor d : map swap (rowmajor d) = colmajor d.
Proof. unfold rowmajor, colmajor. apply map_swap_flat. Qed.

Lemma in_rowmajor d r c : In (r, c) (rowmajor d) -> r < d /\ c < d.
Proof.
  unfold rowmajor. rewrite in_flat_map. intros [r' [Hr' Hin]]. apply in_map_iff in Hin.
  destruct Hin as [c' [E Hc']]. injection E as <- <-. apply in_seq in Hr', Hc'. lia.
Qed.

Section Coo.
  Variable K : cring.
  Add Ring Kring : (c_ring K).
  Local Open Scope cr_scope.
  Variable nzb : K -> bool.
  Hypothesis nzb_false : forall x, nzb x = false -> x = c0.
  Hypothesis nzb_zero : nzb c0 = false.

  Lemma lsum_filter {A} (p : A -> bool) (l : list A) (f : A -> K) :
    lsum (filter p l) f = lsum l (fun x => if p x then f x else c0).
  Proof.
    induction l as [|x l IH]; cbn [filter lsum]; [reflexivity|].
    destruct (p x); cbn [lsum]; rewrite IH; ring.
  Qed.

  Lemma lsum_flat_map' {A B} (f : A -> list B) (l : list A) (g : B -> K) :
    lsum (flat_map f l) g = lsum l (fun x => lsum (f x) g).
  Proof. induction l as [|x l IH]; cbn [flat_map lsum]; [reflexivity|]. rewrite lsum_app, IH. reflexivity. Qed.

  Lemma lsum_concat_map {A B} (f : A -> list B) (l : list A) (g : B -> K) :
    lsum (concat (map f l)) g = lsum l (fun x => lsum (f x) g).
  Proof. rewrite <- flat_map_concat_map. apply lsum_flat_map'. Qed.

  Lemma lsum_colmajor d (h : nat * nat -> K) : lsum (colmajor d) h = rsum d (fun c => rsum d (fun r => h (r, c))).
  Proof.
    unfold colmajor. rewrite lsum_flat_map', rsum_seq. apply lsum_ext. intros c _.
    rewrite lsum_map, rsum_seq. reflexivity.
  Qed.

  (* ---------------------------------------------------------------- one term *)
  Definition sym_support (d : nat) (A : Mat K) : Prop := forall r c, r < d -> c < d -> nzb (A r c) = nzb (A c r).

  (* the row-major list of non-zero positions, transposed, is the column-major list of non-zero positions *)
  Lemma transposed_rowmajor d (A : Mat K) : sym_support d A ->
    map swap (filter (stored nzb A) (rowmajor d)) = filter (stored nzb A) (colmajor d).
  Proof.
    intro Hsym. rewrite <- map_swap_rowmajor, filter_map_comm. f_equal.
    apply filter_ext_in. intros [r c] Hin. apply in_rowmajor in Hin. unfold stored, swap. cbn [fst snd].
    symmetry. apply Hsym; lia.
  Qed.

  Lemma term_triplets d (A : Mat K) : sym_support d A ->
    combine (coo_data nzb d A) (combine (snd (nonzero nzb d A)) (fst (nonzero nzb d A)))
    = map (fun rc => (A (fst rc) (snd rc), rc)) (filter (stored nzb A) (colmajor d)).
  Proof.
    intro Hsym. unfold nonzero, coo_data. cbn [fst snd]. rewrite combine_map2.
    change (map (fun x : nat * nat => (snd x, fst x))) with (map swap).
    rewrite (transposed_rowmajor d A Hsym).
    rewrite <- (map_id (filter (stored nzb A) (colmajor d))) at 2. rewrite combine_map2. reflexivity.
  Qed.

  Lemma term_lengths d (A : Mat K) : sym_support d A ->
    List.length (coo_data nzb d A) = List.length (snd (nonzero nzb d A)) /\
    List.length (snd (nonzero nzb d A)) = List.length (fst (nonzero nzb d A)).
  Proof.
    intro Hsym. unfold nonzero, coo_data. cbn [fst snd]. rewrite !map_length.
    rewrite <- (transposed_rowmajor d A Hsym), map_length. split; reflexivity.
  Qed.

  (* what the assembly puts at (i, j) from one term: its own entry *)
  Lemma pick_entry d (A : Mat K) i j : i < d -> j < d ->
    lsum (map (fun rc => (A (fst rc) (snd rc), rc)) (filter (stored nzb A) (colmajor d)))
         (fun e => if Nat.eqb (fst (snd e)) i && Nat.eqb (snd (snd e)) j then fst e else c0)
    = A i j.
  Proof.
    intros Hi Hj. rewrite lsum_map. cbn [fst snd]. rewrite lsum_filter, lsum_colmajor. cbn [fst snd].
    rewrite (rsum_ext K d _ (fun c => if Nat.eqb c j then (if nzb (A i c) then A i c else c0) else c0)).
    - rewrite (rsum_delta K d j (fun c => if nzb (A i c) then A i c else c0) Hj).
      destruct (nzb (A i j)) eqn:E; [reflexivity|]. symmetry. apply nzb_false. exact E.
    - intros c Hc.
      rewrite (rsum_ext K d _ (fun r => if Nat.eqb r i then (if Nat.eqb c j then (if nzb (A r c) then A r c else c0) else c0) else c0)).
      + rewrite (rsum_delta K d i (fun r => if Nat.eqb c j then (if nzb (A r c) then A r c else c0) else c0) Hi). reflexivity.
      + intros r _. unfold stored. cbn [fst snd]. destruct (nzb (A r c)), (Nat.eqb r i), (Nat.eqb c j); reflexivity.
  Qed.

  (* ---------------------------------------------------------------- all terms *)
  Theorem sparse_op_sum n (s : psum K) : (forall t, In t s -> sym_support (2 ^ n) (sparse_chain t n)) ->
    exists A, sparse_op nzb s n = Some A /\ mat_eq (2 ^ n) A (sparse_sum s n).
  Proof.
    intro Hsym. unfold sparse_op. rewrite !map_map. cbn [fst snd]. set (d := (2 ^ n)%nat).
    set (vals := fun t : term K => coo_data nzb d (sparse_chain t n)).
    set (rows := fun t : term K => snd (nonzero nzb d (sparse_chain t n))).
    set (cols := fun t : term K => fst (nonzero nzb d (sparse_chain t n))).
    change (coo_matrix (concat (map vals s)) (concat (map rows s)) (concat (map cols s))) with
      (coo_matrix (concat (map vals s)) (concat (map rows s)) (concat (map cols s))).
    assert (L1 : forall t, In t s -> List.length (vals t) = List.length (rows t))
      by (intros t Ht; apply (term_lengths d _ (Hsym t Ht))).
    assert (L2 : forall t, In t s -> List.length (rows t) = List.length (cols t))
      by (intros t Ht; apply (term_lengths d _ (Hsym t Ht))).
    unfold coo_matrix.
    rewrite (concat_length_eq vals rows s L1), (concat_length_eq rows cols s L2), !Nat.eqb_refl. cbn [andb].
    eexists. split; [reflexivity|]. intros i j Hi Hj. cbv beta.
    rewrite (combine_concat rows cols s L2).
    rewrite (combine_concat vals (fun t => combine (rows t) (cols t)) s).
    - rewrite lsum_concat_map. unfold sparse_sum. apply lsum_ext. intros t Ht.
      unfold vals, rows, cols. rewrite (term_triplets d _ (Hsym t Ht)). apply pick_entry; assumption.
    - intros t Ht. rewrite combine_length, <- (L2 t Ht), Nat.min_id. apply L1. exact Ht.
  Qed.

  (* ---------------------------------------------------------------- the support of coefficient * Pauli string is symmetric *)
  Lemma sigma_transpose_sign (o : option letter) x y :
    exists sg : K, (sg = c1 \/ sg = - c1) /\ sigma o y x = sg * sigma o x y.
  Proof.
    destruct o as [[| |]|].
    - exists c1. split; [left; reflexivity|]. destruct x, y; cbn; ring.
    - exists (- c1). split; [right; reflexivity|]. destruct x, y; cbn; ring.
    - exists c1. split; [left; reflexivity|]. destruct x, y; cbn; ring.
    - exists c1. split; [left; reflexivity|]. destruct x, y; cbn; ring.
  Qed.

  Lemma lprod_transpose_sign {A} (l : list A) (F F' : A -> K) :
    (forall x, exists sg : K, (sg = c1 \/ sg = - c1) /\ F' x = sg * F x) ->
    exists sg : K, (sg = c1 \/ sg = - c1) /\ lprod l F' = sg * lprod l F.
  Proof.
    intro H. induction l as [|x l [s1 [Hs1 E1]]]; cbn [lprod].
    - exists c1. split; [left; reflexivity|ring].
    - destruct (H x) as [s2 [Hs2 E2]]. exists (s2 * s1). split.
      + destruct Hs1 as [->| ->], Hs2 as [->| ->]; [left|right|right|left]; ring.
      + rewrite E1, E2. ring.
  Qed.

  Lemma gprod_transpose_sign n f i j :
    exists sg : K, (sg = c1 \/ sg = - c1) /\ gprod n f j i = sg * gprod n f i j.
  Proof. unfold gprod. apply lprod_transpose_sign. intro q. apply sigma_transpose_sign. Qed.

  Lemma chain_sym_support n (t : term K) : ops_sorted (tops t) -> term_width t <= n ->
    sym_support (2 ^ n) (sparse_chain t n).
  Proof.
    intros Hs Hw r c Hr Hc.
    rewrite (sparse_chain_den K n t Hs Hw r c Hr Hc), (sparse_chain_den K n t Hs Hw c r Hc Hr).
    unfold den. rewrite !pprod_gprod.
    destruct (gprod_transpose_sign n (fun q => lookup q (tops t)) r c) as [sg [Hsg E]]. rewrite E.
    set (a := coef t * gprod n (fun q => lookup q (tops t)) r c).
    replace (coef t * (sg * gprod n (fun q => lookup q (tops t)) r c)) with (sg * a) by (unfold a; ring).
    destruct (nzb a) eqn:Ea, (nzb (sg * a)) eqn:Eb; try reflexivity.
    - apply nzb_false in Eb. assert (Ha : a = c0).
      { transitivity (sg * (sg * a)); [destruct Hsg as [->| ->]; ring|]. rewrite Eb. ring. }
      rewrite Ha, nzb_zero in Ea. discriminate.
    - apply nzb_false in Ea. rewrite Ea in Eb. replace (sg * c0) with (@c0 K) in Eb by ring.
      rewrite nzb_zero in Eb. discriminate.
  Qed.

  (* ---------------------------------------------------------------- get_sparse_operator *)
  Theorem sparse_op_den n (s : psum K) : sum_sorted s -> sum_width s <= n ->
    exists A, sparse_op nzb s n = Some A /\ mat_eq (2 ^ n) A (sden n s).
  Proof.
    intros Hs Hw. destruct (sparse_op_sum n s) as [A [E HA]].
    - intros t Ht. apply chain_sym_support.
      + exact (proj1 (Forall_forall _ _) Hs t Ht).
      + apply sum_width_terms in Hw. exact (proj1 (Forall_forall _ _) Hw t Ht).
    - exists A. split; [exact E|]. eapply mat_eq_trans; [exact HA|]. apply sparse_sum_den; assumption.
  Qed.

  Theorem get_sparse_den n (s : psum K) : sum_sorted s -> sum_width s <= n ->
    exists A, get_sparse nzb s n = Some A /\ mat_eq (2 ^ n) A (sden n s).
  Proof.
    intros Hs Hw. unfold get_sparse. destruct (Nat.ltb_spec n (sum_width s)); [lia|].
    apply sparse_op_den; assumption.
  Qed.

  Theorem get_sparse_rejects n (s : psum K) : n < sum_width s -> get_sparse nzb s n = None.
  Proof. intro H. unfold get_sparse. destruct (Nat.ltb_spec n (sum_width s)); [reflexivity|lia]. Qed.

  Theorem sparse_empty_zero n : exists A, get_sparse nzb (@nil (term K)) n = Some A /\ forall i j, A i j = c0.
  Proof. eexists. split; [reflexivity|]. intros i j. reflexivity. Qed.
End Coo.

Arguments sym_support {K}.
