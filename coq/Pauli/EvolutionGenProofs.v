(* C16: the definitions GENERATED from evolution.py (Gen/EvolutionGen.v, translator tr/tr_evolution.py) agree with the
   hand-written model of Pauli/Evolution.v that the C16 theorems are about.  Re-checked on every run against the
   freshly generated text.

     term_gen_spec          for every number structure: the generated time_evolution_for_term on a term whose operator
                            list is sorted = empty circuit / ValueError / the model's evolve_ops (loop invariant, any length)
     term_gen_is_model      over Q: generated time_evolution_for_term = evolve_term o classify
     evolution_gen_is_model over Q: generated time_evolution = the model's time_evolution (any number of terms and steps)
     term_gen_real          over R: the generated circuit is evolve_ops l (2 (t c))
     generated_term_exponential   ... and hence its unitary is exp(-i t c P) (composition with evolve_term_all)

   The proofs refer to the generated definitions by the names derived from the FUNCTION names only (state constructor
   ..._S1_mk, body ..._L1_body); the names of Python locals do not occur. *)
Require Import Coq.ZArith.ZArith Coq.Lists.List Coq.Strings.String Coq.Bool.Bool Coq.Arith.Arith Coq.micromega.Lia
        Coq.QArith.QArith Coq.QArith.Qabs Coq.Reals.Reals Coq.QArith.Qreals.
Require Import OQ.Base.Ring OQ.Base.Mat OQ.Gates.CR OQ.Pauli.Algebra OQ.Pauli.Den OQ.Circ.Circuit
        OQ.Pauli.Evolution OQ.Pauli.EvolutionSem OQ.Pauli.EvolutionSmall OQ.Pauli.EvolutionProofs OQ.Pauli.EvolutionGeneral
        OQ.Pauli.EvolutionTrSupport OQ.Gen.EvolutionGen.
Import ListNotations.
Close Scope Q_scope. Close Scope R_scope.
Open Scope list_scope.

(* ------------------------------------------------------------------ the Python helpers on sorted operator lists *)
Lemma py_sorted_keys : forall l q, keys_from q l -> py_sorted (keys l) = keys l.
Proof.
  induction l as [|[k a] r IH]; intros q H; [reflexivity|].
  cbn [keys_from] in H. destruct H as [_ Hr]. unfold py_sorted in *. cbn [keys map fst fold_right].
  change (map fst r) with (keys r). rewrite (IH (S k) Hr).
  destruct r as [|[k' b] r']; [reflexivity|]. cbn [keys map fst py_insert].
  cbn [keys_from] in Hr. destruct Hr as [Hk _].
  destruct (Nat.leb_spec k k') as [_|Hlt]; [reflexivity|lia].
Qed.

Lemma keys_from_NoDup l : keys_from 0 l -> NoDup (keys l).
Proof. intro H. apply (incr_from_NoDup 0). apply keys_from_incr. exact H. Qed.

Lemma keys_app (l1 l2 : ops) : keys (l1 ++ l2) = keys l1 ++ keys l2.
Proof. unfold keys. apply map_app. Qed.

Lemma lookup_app_notin q (l1 l2 : ops) : ~ In q (keys l1) -> lookup q (l1 ++ l2) = lookup q l2.
Proof.
  induction l1 as [|[k a] r IH]; intro H; [reflexivity|]. cbn [app lookup].
  cbn [keys map fst In] in H. destruct (Nat.eqb_spec q k) as [->|_]; [exfalso; apply H; left; reflexivity|].
  apply IH. intro Hin. apply H. right. exact Hin.
Qed.

Lemma lookup_middle q a (l1 r : ops) : NoDup (keys (l1 ++ (q, a) :: r)) -> lookup q (l1 ++ (q, a) :: r) = Some a.
Proof.
  intro Hnd. rewrite lookup_app_notin.
  - cbn [lookup]. rewrite Nat.eqb_refl. reflexivity.
  - rewrite keys_app in Hnd. cbn [keys map fst] in Hnd. apply NoDup_remove_2 in Hnd.
    intro Hin. apply Hnd. apply in_or_app. left. exact Hin.
Qed.

Lemma py_index_middle {A} (l1 : list A) x r : py_index (l1 ++ x :: r) (Z.of_nat (List.length l1)) = Ok x.
Proof.
  unfold py_index. cbv zeta.
  destruct (Z.ltb_spec (Z.of_nat (List.length l1)) 0) as [Hneg|_]; [lia|].
  destruct (Z.ltb_spec (Z.of_nat (List.length l1)) 0) as [Hneg|_]; [lia|].
  rewrite Nat2Z.id, nth_error_app2, Nat.sub_diag by lia. reflexivity.
Qed.

Lemma py_index_next {A} (l1 : list A) x y r : py_index (l1 ++ x :: y :: r) (Z.of_nat (List.length l1) + 1) = Ok y.
Proof.
  replace (l1 ++ x :: y :: r) with ((l1 ++ [x]) ++ y :: r) by (rewrite <- app_assoc; reflexivity).
  replace (Z.of_nat (List.length l1) + 1)%Z with (Z.of_nat (List.length (l1 ++ [x])))
    by (rewrite app_length; cbn [List.length]; lia).
  apply py_index_middle.
Qed.

Lemma py_index_next_keys (l1 : ops) x y r : py_index (keys l1 ++ x :: y :: r) (Z.of_nat (List.length l1) + 1) = Ok y.
Proof. unfold keys. rewrite <- (map_length fst l1). apply py_index_next. Qed.

Lemma py_len_middle {A} (l1 : list A) x r :
  Z.eqb (Z.of_nat (List.length l1)) (py_len (l1 ++ x :: r) - 1) = match r with [] => true | _ => false end.
Proof.
  unfold py_len. rewrite app_length. cbn [List.length]. destruct r as [|y r']; cbn [List.length].
  - apply Z.eqb_eq. lia.
  - apply Z.eqb_neq. lia.
Qed.

(* ------------------------------------------------------------------ model circuits as Python gate operations *)
Definition pyc {P} (c : list (eop P)) : circ P := map py_of_eop c.

Lemma pyc_app {P} (a b : list (eop P)) : pyc (a ++ b) = pyc a ++ pyc b.
Proof. apply map_app. Qed.

(* the gates of the pre-circuit (everything but RZ): Circuit.inverse is the model's gate-wise inverse *)
Definition not_rz {P} (o : eop P) : Prop := match fst o with ERZ _ => False | _ => True end.

Lemma op_dagger_einv {P} (o : eop P) : not_rz o -> op_dagger (py_of_eop o) = py_of_eop (einv o).
Proof. destruct o as [g qs]. unfold not_rz, op_dagger, py_of_eop, einv. cbn [fst snd]. destruct g; intro H; [reflexivity..|destruct H]. Qed.

Lemma circ_inverse_pyc {P} (c : list (eop P)) : Forall not_rz c -> circ_inverse (pyc c) = pyc (rev (map einv c)).
Proof.
  intro H. unfold circ_inverse, pyc. rewrite <- map_rev, <- map_rev, !map_map. apply map_ext_in.
  intros o Ho. apply op_dagger_einv. rewrite Forall_forall in H. apply H. apply in_rev. exact Ho.
Qed.

Definition bcg1 {P} (q : nat) (a : letter) : list (eop P) :=
  match a with PX => [(EH, [q])] | PY => [(ERXh, [q])] | PZ => [] end.

Lemma basis_change_cons {P} q a r : basis_change (P:=P) ((q, a) :: r) = bcg1 q a ++ basis_change r.
Proof. unfold basis_change. cbn [flat_map fst snd]. destruct a; reflexivity. Qed.

Lemma not_rz_basis_change {P} l : Forall not_rz (basis_change (P:=P) l).
Proof.
  induction l as [|[q a] r IH]; [constructor|]. rewrite basis_change_cons. apply Forall_app. split; [|exact IH].
  destruct a; repeat constructor.
Qed.

Lemma not_rz_ladder {P} ks : Forall not_rz (cnot_ladder (P:=P) ks).
Proof.
  induction ks as [|a r IH]; [constructor|]. destruct r as [|b r']; [constructor|].
  change (cnot_ladder (P:=P) (a :: b :: r')) with ((ECNOT, [a; b]) :: cnot_ladder (P:=P) (b :: r')).
  constructor; [exact I|exact IH].
Qed.

Lemma ladder_cons2 {P} a b r : cnot_ladder (P:=P) (a :: b :: r) = (ECNOT, [a; b]) :: cnot_ladder (b :: r).
Proof. reflexivity. Qed.

(* circuit operations are kept folded by cbn *)
Local Arguments circ_inverse : simpl never.
Local Arguments circ_add : simpl never.
Local Arguments circ_add_op : simpl never.
Local Arguments circ_empty : simpl never.

(* the value of a local that the loop assigns when it runs at least once *)
Definition after_loop {A B} (l : list A) (before : option B) (v : B) : option B :=
  match l with [] => before | _ :: _ => Some v end.
Lemma after_loop_ne {A B} (l : list A) (before : option B) v : l <> [] -> after_loop l before v = Some v.
Proof. destruct l; [congruence|reflexivity]. Qed.

(* ------------------------------------------------------------------ time_evolution_for_term, any number structure *)
Section Term.
  Variable N : pynum.
  Variables re im time : num N.
  Notation mkS := (time_evolution_for_term_S1_mk N).
  Notation body := (time_evolution_for_term_L1_body N).

  (* the RZ angle as the source computes it: 2 * time * term.coefficient.real *)
  Definition gen_angle : num N := n_mul N (n_mul N (n_int N 2%Z) time) re.

  (* one execution of the generated loop body, for a qubit that carries letter a *)
  Lemma body_step (l : ops) ks i q a bc cg cn : lookup q l = Some a ->
    body (mk_pterm re im l) time ks i q (mkS bc cg cn) =
    if Z.eqb i (py_len l - 1)
    then Ok (mkS (bc ++ pyc (bcg1 q a)) (Some (GRZ gen_angle, [q])) cn)
    else bind (py_index ks (i + 1)) (fun q' => Ok (mkS (bc ++ pyc (bcg1 q a)) cg (cn ++ [(GCNOT, [q; q'])]))).
  Proof.
    intro Hl. unfold time_evolution_for_term_L1_body, term_getitem, term_operations, gen_angle.
    cbn [t_ops t_re t_im]. rewrite Hl.
    destruct (Z.eqb i (py_len l - 1)); destruct (py_index ks (i + 1)) as [q'|e]; destruct a;
      cbn; rewrite ?app_nil_r; reflexivity.
  Qed.

  (* the loop invariant: having processed l1, the rest l2 of the sorted operator list appends its basis changes and its
     CNOT ladder, and the RZ gate is set at the last qubit *)
  Lemma loop_inv : forall (l2 l1 : ops) bc cg cn, NoDup (keys (l1 ++ l2)) ->
    py_for (py_enumerate_from (Z.of_nat (List.length l1)) (keys l2)) (mkS bc cg cn)
           (py_unpack2 (body (mk_pterm re im (l1 ++ l2)) time (keys (l1 ++ l2))))
    = Ok (mkS (bc ++ pyc (basis_change l2))
              (after_loop l2 cg (GRZ gen_angle, [last (keys l2) 0%nat]))
              (cn ++ pyc (cnot_ladder (keys l2)))).
  Proof.
    induction l2 as [|[q a] r IH]; intros l1 bc cg cn Hnd.
    - cbn [keys map py_enumerate_from py_for basis_change flat_map cnot_ladder pyc after_loop]. rewrite !app_nil_r. reflexivity.
    - cbn [keys map fst py_enumerate_from py_for after_loop]. unfold py_unpack2 at 1. cbn [fst snd].
      rewrite (body_step _ _ _ q a) by (apply lookup_middle; exact Hnd).
      rewrite py_len_middle. rewrite basis_change_cons, pyc_app.
      destruct r as [|[q' a'] r'].
      + cbn [bind keys map py_enumerate_from py_for basis_change flat_map cnot_ladder pyc last].
        rewrite !app_nil_r. reflexivity.
      + rewrite keys_app. cbn [keys map fst]. change (map fst l1) with (keys l1). rewrite py_index_next_keys. cbn [bind].
        change (map fst r') with (keys r'). change (map fst l1) with (keys l1).
        assert (E : l1 ++ (q, a) :: (q', a') :: r' = (l1 ++ [(q, a)]) ++ (q', a') :: r')
          by (rewrite <- app_assoc; reflexivity).
        assert (Ek : keys l1 ++ q :: q' :: keys r' = keys ((l1 ++ [(q, a)]) ++ (q', a') :: r'))
          by (rewrite <- E, keys_app; reflexivity).
        rewrite Ek, E.
        replace (Z.of_nat (List.length l1) + 1)%Z with (Z.of_nat (List.length (l1 ++ [(q, a)])))
          by (rewrite app_length; cbn [List.length]; lia).
        change (q' :: keys r') with (keys ((q', a') :: r')).
        rewrite IH by (rewrite <- E; exact Hnd). cbn [after_loop].
        change (keys ((q', a') :: r')) with (q' :: keys r').
        rewrite ladder_cons2. change (last (q :: q' :: keys r') 0%nat) with (last (q' :: keys r') 0%nat).
        cbn [pyc map py_of_eop py_of_egate fst snd]. rewrite <- !app_assoc. reflexivity.
  Qed.

  Theorem term_gen_spec (l : ops) : keys_from 0 l ->
    time_evolution_for_term_gen N (mk_pterm re im l) time =
    match l with
    | [] => Ok []
    | _ => if n_gtb N (n_abs N im) (n_lit N (1 # 1000000000)%Q) then Raise ValueError
           else Ok (pyc (evolve_ops l gen_angle))
    end.
  Proof.
    intro Hs. unfold time_evolution_for_term_gen. cbv zeta. unfold term_is_constant, term_qubits. cbn [t_ops t_im t_re].
    destruct l as [|[q a] r] eqn:El; [reflexivity|]. rewrite <- El in *.
    assert (Hne : l <> []) by (rewrite El; discriminate).
    destruct (n_gtb N (n_abs N im) (n_lit N (1 # 1000000000)%Q)); [reflexivity|].
    rewrite (py_sorted_keys l 0 Hs). unfold py_enumerate, circ_empty.
    pose proof (loop_inv l [] [] None []) as L. cbn [app List.length Z.of_nat] in L.
    rewrite L by (apply keys_from_NoDup; exact Hs). clear L.
    rewrite (after_loop_ne l _ _ Hne).
    remember (pyc (basis_change l)) as B eqn:EB. remember (pyc (cnot_ladder (keys l))) as C eqn:EC.
    remember (GRZ (P:=num N) gen_angle, [last (keys l) 0%nat]) as g eqn:Eg.
    cbn. subst B C g. unfold circ_add, circ_add_op.
    rewrite !circ_inverse_pyc by (first [apply not_rz_basis_change|apply not_rz_ladder]).
    rewrite einv_ladder, einv_basis_change.
    unfold evolve_ops, last_qubit, pyc. rewrite !map_app. cbn [map py_of_eop py_of_egate fst snd].
    rewrite <- !app_assoc. reflexivity.
  Qed.
End Term.

(* ------------------------------------------------------------------ over Q: the model of the correspondence cases *)
Theorem term_gen_is_model (t : pterm Q) (time : Q) : keys_from 0 (t_ops t) ->
  time_evolution_for_term_gen num_Q t time = res_of_model (evolve_term (hterm_of t) time).
Proof.
  destruct t as [re im l]. cbn [t_ops]. intro Hs. refine (eq_trans (term_gen_spec num_Q re im time l Hs) _).
  unfold hterm_of, classify. cbn [t_re t_im t_ops]. destruct l as [|x r]; [reflexivity|].
  cbn [num_Q n_gtb n_abs n_lit]. change (1 # 1000000000)%Q with imag_tol.
  destruct (Qlt_le_dec imag_tol (Qabs im)); reflexivity.
Qed.

Definition sorted_term (t : pterm Q) : Prop := keys_from 0 (t_ops t).

Lemma concat_opt_app {A} (a b : list (option (list A))) :
  concat_opt (a ++ b) = match concat_opt a, concat_opt b with Some x, Some y => Some (x ++ y) | _, _ => None end.
Proof.
  induction a as [|[x|] r IH]; cbn [app concat_opt].
  - destruct (concat_opt b); reflexivity.
  - rewrite IH. destruct (concat_opt r), (concat_opt b); try reflexivity. rewrite app_assoc. reflexivity.
  - reflexivity.
Qed.

Lemma truediv_steps (time : Q) k :
  py_truediv num_Q time (n_int num_Q (Z.of_nat (S k))) = Ok (time / inject_Z (Z.of_nat (S k)))%Q.
Proof.
  unfold py_truediv. cbn [num_Q n_is_zero n_int n_div num].
  destruct (Qeq_bool (inject_Z (Z.of_nat (S k))) 0) eqn:E; [|reflexivity].
  apply Qeq_bool_eq in E. unfold Qeq, inject_Z in E. cbn [QArith_base.Qnum QArith_base.Qden] in E. lia.
Qed.

Section Sum.
  Variable h : list (pterm Q).
  Variable time : Q.
  Variable k : nat.                                  (* n_steps = k + 1 inside the loops *)
  Hypothesis Hsorted : Forall sorted_term h.
  Notation mkE := (time_evolution_S1_mk num_Q).
  Let tq : Q := (time / inject_Z (Z.of_nat (S k)))%Q.

  Definition lift_state (acc : circ Q) (o : option (list (eop Q))) : result (time_evolution_S1_state num_Q) :=
    match o with Some c => Ok (mkE (acc ++ pyc c)) | None => Raise ValueError end.

  (* for term in hamiltonian.terms: circuit += time_evolution_for_term(term, time / n_steps) *)
  Lemma inner_loop : forall (ts : list (pterm Q)) acc, Forall sorted_term ts ->
    py_for ts (mkE acc) (time_evolution_L2_body num_Q time (Z.of_nat (S k)))
    = lift_state acc (concat_opt (map (fun tm => evolve_term tm tq) (map hterm_of ts))).
  Proof.
    induction ts as [|t r IH]; intros acc Hs.
    - cbn [py_for map concat_opt lift_state pyc]. rewrite app_nil_r. reflexivity.
    - inversion Hs as [|? ? Ht Hr]; subst. cbn [py_for map concat_opt].
      unfold time_evolution_L2_body at 1. rewrite truediv_steps. cbn [bind].
      rewrite (term_gen_is_model t _ Ht). fold tq.
      destruct (evolve_term (hterm_of t) tq) as [c|]; cbn [res_of_model bind]; [|reflexivity].
      match goal with |- py_for _ ?s _ = _ => let s1 := eval hnf in s in let s2 := eval cbn in s1 in change s with s2 end.
      unfold circ_add. rewrite (IH _ Hr). fold (pyc c).
      destruct (concat_opt (map (fun tm => evolve_term tm tq) (map hterm_of r))) as [y|]; cbn [lift_state]; [|reflexivity].
      rewrite pyc_app, app_assoc. reflexivity.
  Qed.

  (* for _ in range(n_steps): ... *)
  Lemma outer_loop : forall (xs : list nat) acc,
    py_for (map Z.of_nat xs) (mkE acc) (time_evolution_L1_body num_Q h time (Z.of_nat (S k)))
    = lift_state acc (concat_opt (flat_map (fun _ => map (fun tm => evolve_term tm tq) (map hterm_of h)) xs)).
  Proof.
    induction xs as [|x r IH]; intro acc.
    - cbn [map py_for flat_map concat_opt lift_state pyc]. rewrite app_nil_r. reflexivity.
    - cbn [map py_for flat_map]. unfold time_evolution_L1_body at 1, ham_terms.
      cbn [num num_Q]. rewrite (inner_loop h acc Hsorted). rewrite concat_opt_app.
      destruct (concat_opt (map (fun tm => evolve_term tm tq) (map hterm_of h))) as [c|]; cbn [lift_state bind]; [|reflexivity].
      rewrite IH.
      destruct (concat_opt (flat_map (fun _ => map (fun tm => evolve_term tm tq) (map hterm_of h)) r)) as [y|];
        cbn [lift_state]; [|reflexivity].
      rewrite pyc_app, app_assoc. reflexivity.
  Qed.
End Sum.

Theorem evolution_gen_is_model (h : list (pterm Q)) (time : Q) (method : string) (steps : nat) :
  Forall sorted_term h ->
  time_evolution_gen num_Q h time method (Z.of_nat steps) =
  if String.eqb method "Trotter" then res_of_model (time_evolution (map hterm_of h) time steps) else Raise ValueError.
Proof.
  intro Hs. unfold time_evolution_gen. cbv zeta. destruct (String.eqb method "Trotter"); cbn [negb]; [|reflexivity].
  unfold py_range. rewrite Nat2Z.id. unfold time_evolution.
  destruct steps as [|k]; [reflexivity|].
  rewrite (outer_loop h time k Hs). unfold circ_empty. cbn [app].
  destruct (concat_opt _) as [c|]; reflexivity.
Qed.

(* a step count that is not positive: the loop does not run *)
Theorem evolution_gen_no_steps (N : pynum) (h : list (pterm (num N))) (time : num N) (n_steps : Z) :
  (n_steps <= 0)%Z -> time_evolution_gen N h time "Trotter" n_steps = Ok [].
Proof.
  intro H. unfold time_evolution_gen, py_range. cbv zeta. cbn [String.eqb Ascii.eqb Bool.eqb negb].
  replace (Z.to_nat n_steps) with 0%nat by lia. reflexivity.
Qed.

(* ------------------------------------------------------------------ over R: the generated circuit implements exp(-i t c P) *)
Definition num_R : pynum :=
  mk_pynum R IZR Q2R Rplus Rmult Rdiv Rabs
           (fun a b => if Rlt_le_dec b a then true else false)
           (fun a => if Req_EM_T a 0%R then true else false)
           (fun a b => if Req_EM_T a b then true else false).
Definition num_Rpi : pynum_pi := mk_pynum_pi num_R PI.

Theorem term_gen_real (c im t : R) (l : ops) : keys_from 0 l -> l <> [] -> (Rabs im <= Q2R (1 # 1000000000))%R ->
  time_evolution_for_term_gen num_R (mk_pterm c im l) t = Ok (pyc (evolve_ops l (2 * (t * c))%R)).
Proof.
  intros Hs Hne Him. refine (eq_trans (term_gen_spec num_R c im t l Hs) _). destruct l as [|x r]; [congruence|].
  cbn [num_R n_gtb n_abs n_lit]. destruct (Rlt_le_dec (Q2R (1 # 1000000000)) (Rabs im)) as [Hlt|_].
  - exfalso. apply (Rlt_not_le _ _ Hlt Him).
  - unfold gen_angle. cbn [num_R n_mul n_int num]. do 3 f_equal. ring.
Qed.

Theorem generated_term_exponential : forall n (l : ops) (c im t : R),
  keys_from 0 l -> (forall k, In k (keys l) -> (k < n)%nat) -> l <> [] -> (Rabs im <= Q2R (1 # 1000000000))%R ->
  exists circuit : list (eop R),
    time_evolution_for_term_gen num_R (mk_pterm c im l) t = Ok (map py_of_eop circuit) /\
    mat_eq (2 ^ n) (to_unitary n (map (eapp gates_cr cr_RZ) circuit)) (E_P n l (t * c)%R).
Proof.
  intros n l c im t Hs Hb Hne Him. exists (evolve_ops l (2 * (t * c))%R). split.
  - apply term_gen_real; assumption.
  - apply evolve_term_all; assumption.
Qed.

(* the embedding of the model's gate descriptions into Python gate objects loses nothing *)
Lemma py_of_eop_injective {P} (a b : eop P) : py_of_eop a = py_of_eop b -> a = b.
Proof.
  destruct a as [g qs], b as [g' qs']. unfold py_of_eop. cbn [fst snd]. intro H. inversion H as [[Hg Hq]].
  f_equal. destruct g, g'; cbn [py_of_egate] in Hg; try discriminate; try reflexivity. inversion Hg. reflexivity.
Qed.

Lemma pyc_injective {P} (a b : list (eop P)) : pyc a = pyc b -> a = b.
Proof.
  revert b. induction a as [|x r IH]; intros [|y s] H; try discriminate; [reflexivity|].
  cbn [pyc map] in H. apply (f_equal (@List.hd_error _)) in H as Hx. cbn [hd_error] in Hx.
  apply (f_equal (@List.tl _)) in H as Hr. cbn [tl] in Hr.
  f_equal; [apply py_of_eop_injective; congruence|apply IH; exact Hr].
Qed.
