(* Completeness of == on simplified sums: Pauli strings are linearly independent (trace orthogonality),
   so simplified sums that denote the same matrix have the same terms. *)
Require Import Coq.setoid_ring.Ring Coq.ZArith.ZArith Coq.Lists.List Coq.Bool.Bool Coq.Arith.Arith Coq.micromega.Lia
  Coq.Sorting.Permutation.
Require Import OQ.Base.Ring OQ.Base.Sums OQ.Base.Bits OQ.Base.Mat OQ.Pauli.Algebra OQ.Pauli.Den
  OQ.Pauli.TablesProofs OQ.Pauli.DenProofs OQ.Pauli.SumProofs OQ.Pauli.OpsProofs.
Import ListNotations.

(* sorted dictionaries are determined by their lookup function *)
Lemma lookup_in q l : In q (keys l) -> lookup q l <> None.
Proof.
  induction l as [|[k a] r IH]; cbn [keys map fst In lookup]; [tauto|].
  intros [->|H]; [rewrite Nat.eqb_refl; discriminate|].
  destruct (Nat.eqb q k); [discriminate|apply IH; exact H].
Qed.

Lemma sorted_head_notin k a r : ops_sorted ((k, a) :: r) -> ~ In k (keys r).
Proof. intros [H _] Hin. specialize (H k Hin). lia. Qed.

Lemma sorted_lookup_ext l1 : forall l2, ops_sorted l1 -> ops_sorted l2 ->
  (forall q, lookup q l1 = lookup q l2) -> l1 = l2.
Proof.
  induction l1 as [|[k1 a1] r1 IH]; intros [|[k2 a2] r2] H1 H2 E.
  - reflexivity.
  - specialize (E k2). cbn [lookup] in E. rewrite Nat.eqb_refl in E. discriminate.
  - specialize (E k1). cbn [lookup] in E. rewrite Nat.eqb_refl in E. discriminate.
  - pose proof (sorted_head_notin _ _ _ H1) as N1. pose proof (sorted_head_notin _ _ _ H2) as N2.
    assert (Hk : k1 = k2).
    { destruct (Nat.lt_trichotomy k1 k2) as [Hlt|[Heq|Hgt]]; [|exact Heq|]; exfalso.
      - pose proof (E k1) as E1. cbn [lookup] in E1. rewrite Nat.eqb_refl in E1.
        destruct (Nat.eqb_spec k1 k2); [lia|]. symmetry in E1. revert E1. 
        rewrite lookup_notin; [discriminate|]. intro Hin. destruct H2 as [H2 _]. specialize (H2 k1 Hin). lia.
      - pose proof (E k2) as E2. cbn [lookup] in E2. rewrite Nat.eqb_refl in E2.
        destruct (Nat.eqb_spec k2 k1); [lia|]. revert E2.
        rewrite lookup_notin; [discriminate|]. intro Hin. destruct H1 as [H1 _]. specialize (H1 k2 Hin). lia. }
    subst k2. pose proof (E k1) as Ek. cbn [lookup] in Ek. rewrite Nat.eqb_refl in Ek. injection Ek as ->.
    f_equal. apply IH; [apply H1|apply H2|]. intro q. specialize (E q). cbn [lookup] in E.
    destruct (Nat.eqb_spec q k1) as [Hq|Hq]; [|exact E]. rewrite Hq. rewrite !lookup_notin by assumption. reflexivity.
Qed.

Section EqComplete.
  Variable K : cring.
  Add Ring Kring : (c_ring K).
  Local Open Scope cr_scope.

  Definition trace (d : nat) (M : Mat K) : K := rsum d (fun i => M i i).

  Lemma trace_compat d A B : mat_eq d A B -> trace d A = trace d B.
  Proof. intro H. apply rsum_ext. intros i Hi. apply H; exact Hi. Qed.

  Lemma trace_scale d c A : trace d (mscale c A) = c * trace d A.
  Proof. unfold trace, mscale. apply rsum_scale_l. Qed.

  Lemma trace_kron a b A B : (0 < b)%nat -> trace (a * b) (kron b A B) = trace a A * trace b B.
  Proof.
    intro Hb. unfold trace, kron. rewrite rsum_prod.
    rewrite (rsum_ext K a _ (fun i => A i i * rsum b (fun j => B j j))).
    - rewrite rsum_scale_r. reflexivity.
    - intros i _. rewrite <- rsum_scale_l. apply rsum_ext. intros j Hj.
      rewrite Nat.div_add_l by lia. rewrite (Nat.div_small j b Hj), Nat.add_0_r.
      rewrite Nat.add_comm, Nat.mod_add by lia. rewrite (Nat.mod_small j b Hj). reflexivity.
  Qed.

  Definition two : K := c1 + c1.
  Fixpoint kpow2 (n : nat) : K := match n with O => c1 | S m => two * kpow2 m end.

  Lemma trace_smat o : trace 2 (@smat K o) = match o with None => two | Some _ => c0 end.
  Proof. destruct o as [[| |]|]; cbv -[cadd cmul csub copp c0 c1 ci car cconj]; ring. Qed.

  Fixpoint all_none (d : list (option letter)) : bool :=
    match d with [] => true | None :: r => all_none r | Some _ :: _ => false end.

  Lemma trace_dmat d : trace (2 ^ List.length d) (@dmat K d) = if all_none d then kpow2 (List.length d) else c0.
  Proof.
    induction d as [|a r IH].
    - cbn. ring.
    - cbn [List.length dmat]. change (2 ^ S (List.length r))%nat with (2 * 2 ^ List.length r)%nat.
      rewrite trace_kron by apply pow2_pos. rewrite IH, trace_smat.
      destruct a as [x|]; cbn [all_none kpow2]; [ring|]. destruct (all_none r); ring.
  Qed.

  Lemma omul_none a b : omul a b = None -> a = b.
  Proof.
    destruct a as [x|], b as [y|]; cbn [omul]; try discriminate; try reflexivity.
    destruct (letter_eqb_spec x y); [intros _; congruence|discriminate].
  Qed.

  Lemma dmul_self d : all_none (dmul d d) = true /\ dphase K d d = c1.
  Proof.
    induction d as [|a r [IH1 IH2]]; cbn [dmul dphase all_none]; [split; reflexivity|].
    destruct a as [x|]; cbn [omul ophase].
    - destruct (letter_eqb_spec x x); [|congruence]. split; [exact IH1|rewrite IH2; ring].
    - split; [exact IH1|rewrite IH2; ring].
  Qed.

  Lemma dmul_diff d1 : forall d2, List.length d1 = List.length d2 -> d1 <> d2 -> all_none (dmul d1 d2) = false.
  Proof.
    induction d1 as [|a r1 IH]; intros [|b r2] Hl Hne; cbn [List.length] in Hl; try discriminate.
    - congruence.
    - cbn [dmul all_none]. destruct (omul a b) eqn:E; [reflexivity|].
      apply omul_none in E. subst b. apply IH; [lia|]. intro H. apply Hne. rewrite H. reflexivity.
  Qed.

  (* trace orthogonality of Pauli strings *)
  Lemma pprod_trace n l l' :
    trace (2 ^ n) (mmul (2 ^ n) (pprod n l) (pprod n l'))
    = if all_none (dmul (dense n l) (dense n l')) then dphase K (dense n l) (dense n l') * kpow2 n else c0.
  Proof.
    rewrite (trace_compat (2 ^ n) _ (mmul (2 ^ n) (dmat (dense n l)) (dmat (dense n l'))))
      by (apply mmul_compat; apply pprod_dmat).
    pose proof (dmat_mul K (dense n l) (dense n l')) as H. rewrite !dense_length in H.
    rewrite (trace_compat _ _ _ (H eq_refl)), trace_scale.
    pose proof (trace_dmat (dmul (dense n l) (dense n l'))) as T.
    rewrite dmul_length, dense_length in T by (rewrite !dense_length; reflexivity). rewrite T.
    destruct (all_none _); ring.
  Qed.

  Lemma dense_nth n l q : (q < n)%nat -> nth q (dense n l) None = lookup q l.
  Proof.
    intro Hq. unfold dense.
    rewrite (nth_indep _ None ((fun q => lookup q l) 0%nat)) by (rewrite map_length, seq_length; exact Hq).
    rewrite (map_nth (fun q => lookup q l)), seq_nth by exact Hq. reflexivity.
  Qed.

  Lemma dense_inj n l l' : ops_ok n l -> ops_ok n l' -> dense n l = dense n l' -> l = l'.
  Proof.
    intros [S1 F1] [S2 F2] E. apply sorted_lookup_ext; try assumption. intro q.
    destruct (Nat.lt_ge_cases q n) as [Hq|Hq].
    - rewrite <- !(dense_nth n) by exact Hq. rewrite E. reflexivity.
    - rewrite !lookup_notin; [reflexivity| |]; intro Hin; [specialize (F2 q Hin)|specialize (F1 q Hin)]; lia.
  Qed.

  (* extraction of the coefficient of the string l: trace (P_l M) *)
  Definition extract (n : nat) (l : ops) (M : Mat K) : K := trace (2 ^ n) (mmul (2 ^ n) (pprod n l) M).
  Definition coeff_of (l : ops) (s : psum K) : K := lsum s (fun t => if ops_eqb (tops t) l then coef t else c0).

  Lemma extract_compat n l A B : mat_eq (2 ^ n) A B -> extract n l A = extract n l B.
  Proof. intro H. apply trace_compat. apply mmul_compat; [apply mat_eq_refl|exact H]. Qed.

  Lemma extract_zero n l : extract n l (fun _ _ => c0) = c0.
  Proof. unfold extract, trace, mmul. apply rsum_zero_ext. intros i _. apply rsum_zero_ext. intros k _. ring. Qed.

  Lemma extract_add_scale n l c A B :
    extract n l (fun i j => c * A i j + B i j) = c * extract n l A + extract n l B.
  Proof.
    unfold extract, trace, mmul. rewrite <- rsum_scale_l, <- rsum_add. apply rsum_ext. intros i _.
    rewrite <- rsum_scale_l, <- rsum_add. apply rsum_ext. intros k _. ring.
  Qed.

  Lemma extract_sden n l (s : psum K) : ops_ok n l -> sum_ok n s ->
    extract n l (sden n s) = kpow2 n * coeff_of l s.
  Proof.
    intros Hl Hs. induction Hs as [|t s Ht Hs IH].
    - unfold sden, coeff_of. cbn [lsum]. rewrite extract_zero. ring.
    - change (sden n (t :: s)) with (fun i j => coef t * pprod n (tops t) i j + sden n s i j).
      rewrite extract_add_scale, IH. unfold coeff_of. cbn [lsum]. unfold extract at 1. rewrite pprod_trace.
      destruct (ops_eqb (tops t) l) eqn:E.
      + apply ops_eqb_eq in E. rewrite E. destruct (dmul_self (dense n l)) as [D1 D2]. rewrite D1, D2. ring.
      + rewrite dmul_diff; [ring|rewrite !dense_length; reflexivity|].
        intro D. apply dense_inj in D; [|exact Hl|exact Ht]. subst l. rewrite ops_eqb_refl in E. discriminate.
  Qed.

  Lemma coeff_of_absent l (s : psum K) : ~ In l (map tops s) -> coeff_of l s = c0.
  Proof.
    unfold coeff_of. induction s as [|t s IH]; intro H; cbn [lsum]; [reflexivity|]. cbn [map In] in H.
    rewrite ops_eqb_neq by (intro E; apply H; left; exact E). rewrite IH by (intro E; apply H; right; exact E). ring.
  Qed.

  Lemma coeff_of_present (s : psum K) t : distinct_ops s -> In t s -> coeff_of (tops t) s = coef t.
  Proof.
    unfold distinct_ops. induction s as [|t0 s IH]; intros Hd Hin; [destruct Hin|].
    cbn [map] in Hd. inversion Hd as [|x xs Hnotin Hd']; subst. unfold coeff_of in *. cbn [lsum].
    destruct Hin as [->|Hin].
    - rewrite ops_eqb_refl. fold (coeff_of (tops t) s). rewrite coeff_of_absent by exact Hnotin. ring.
    - rewrite ops_eqb_neq; [rewrite IH by assumption; ring|].
      intro E. apply Hnotin. rewrite E. apply in_map. exact Hin.
  Qed.

  Hypothesis two_cancel : forall c : K, c + c = c0 -> c = c0.

  Lemma kpow2_cancel n (a b : K) : kpow2 n * a = kpow2 n * b -> a = b.
  Proof.
    revert a b. induction n as [|n IH]; intros a b H; cbn [kpow2] in H.
    - transitivity (c1 * a); [ring|]. rewrite H. ring.
    - apply IH. assert (E : (kpow2 n * a - kpow2 n * b) + (kpow2 n * a - kpow2 n * b) = c0).
      { transitivity (two * kpow2 n * a - two * kpow2 n * b); [unfold two; ring|]. rewrite H. ring. }
      apply two_cancel in E. transitivity (kpow2 n * a - kpow2 n * b + kpow2 n * b); [ring|]. rewrite E. ring.
  Qed.

  Lemma same_matrix_incl n (s1 s2 : psum K) : sum_ok n s1 -> sum_ok n s2 -> distinct_ops s1 -> distinct_ops s2 ->
    Forall (fun t => coef t <> c0) s1 -> mat_eq (2 ^ n) (sden n s1) (sden n s2) -> incl s1 s2.
  Proof.
    intros O1 O2 D1 D2 Z1 M t Ht.
    assert (Hl : ops_ok n (tops t)) by (unfold sum_ok in O1; rewrite Forall_forall in O1; apply O1; exact Ht).
    pose proof (extract_compat n (tops t) _ _ M) as E.
    rewrite !extract_sden in E by assumption. apply kpow2_cancel in E.
    rewrite (coeff_of_present s1 t D1 Ht) in E.
    destruct (in_dec (list_eq_dec (fun a b : nat * letter => ltac:(decide equality; [decide equality|apply Nat.eq_dec]))) (tops t) (map tops s2)) as [Hin|Hnot].
    - apply in_map_iff in Hin. destruct Hin as [t' [Et Ht']].
      rewrite <- Et, (coeff_of_present s2 t' D2 Ht') in E.
      destruct t as [a l], t' as [a' l']. cbn [coef tops] in *. subst. exact Ht'.
    - rewrite (coeff_of_absent _ _ Hnot) in E. rewrite Forall_forall in Z1. exfalso. apply (Z1 t Ht). exact E.
  Qed.

  Variable keqb : K -> K -> bool.
  Hypothesis keqb_refl : forall a, keqb a a = true.

  (* simplified sums that denote the same matrix compare equal *)
  Theorem sum_eqb_complete n (s1 s2 : psum K) : sum_ok n s1 -> sum_ok n s2 -> distinct_ops s1 -> distinct_ops s2 ->
    Forall (fun t => coef t <> c0) s1 -> Forall (fun t => coef t <> c0) s2 ->
    mat_eq (2 ^ n) (sden n s1) (sden n s2) -> sum_eqb keqb s1 s2 = true.
  Proof.
    intros O1 O2 D1 D2 Z1 Z2 M. apply sum_eqb_order_irrelevant; [exact keqb_refl|].
    apply NoDup_Permutation; [apply distinct_nodup; exact D1|apply distinct_nodup; exact D2|].
    intro t. split.
    - apply (same_matrix_incl n s1 s2); assumption.
    - apply (same_matrix_incl n s2 s1); try assumption. apply mat_eq_sym. exact M.
  Qed.

  (* ... and so does a simplified sum against the plain number it denotes (code after fix F33) *)
  Variable is_zero : K -> bool.
  Hypothesis is_zero_zero : is_zero c0 = true.

  Theorem sum_number_eq_complete n (s : psum K) (c : K) : sum_ok n s -> distinct_ops s ->
    Forall (fun t => coef t <> c0) s -> mat_eq (2 ^ n) (sden n s) (nden c) ->
    py_eq is_zero keqb (OS s) (ON c) = true /\ py_eq is_zero keqb (ON c) (OS s) = true.
  Proof.
    intros O D Z M. assert (G : sum_term_eqb is_zero keqb s (const c) = true); [|split; exact G].
    destruct s as [|t s'].
    - cbn [sum_term_eqb const coef]. pose proof (M 0%nat 0%nat (pow2_pos n) (pow2_pos n)) as E.
      unfold sden, nden, mscale, eye in E. cbn [lsum Nat.eqb] in E.
      replace c with (@c0 K); [exact is_zero_zero|]. rewrite E. ring.
    - cbn [sum_term_eqb].
      assert (M' : mat_eq (2 ^ n) (sden n (t :: s')) (sden n [const c])).
      { eapply mat_eq_trans; [exact M|]. apply mat_eq_sym.
        eapply mat_eq_trans; [apply sden_single_eq|apply den_const]. }
      apply (sum_eqb_complete n); try assumption.
      + apply single_ok. apply const_ok.
      + unfold distinct_ops. cbn [map]. constructor; [intros []|constructor].
      + constructor; [|constructor]. cbn [const coef]. intro Hc. subst c.
        assert (M0 : mat_eq (2 ^ n) (sden n (t :: s')) (sden n [])).
        { intros i j Hi Hj. rewrite (M i j Hi Hj). unfold nden, mscale, sden. cbn [lsum]. ring. }
        pose proof (sum_eqb_complete n (t :: s') [] O (Forall_nil _) D (NoDup_nil _) Z (Forall_nil _) M0) as F.
        unfold sum_eqb in F. cbn [List.length Nat.eqb andb] in F. discriminate.
  Qed.
End EqComplete.

(* the executable instance: 2 is cancellable in the Gaussian rationals *)
Require Import Coq.setoid_ring.Field Coq.QArith.QArith Coq.QArith.Qcanon.
Lemma gq_two_cancel (c : GQring) : cadd c c = c0 -> c = c0.
Proof.
  destruct c as [a b]. intro H. change (gqadd (a, b) (a, b) = gq0) in H. change (@c0 GQring) with gq0.
  unfold gqadd, gq0 in *. cbn [fst snd] in H. pose proof (f_equal fst H) as Ha. pose proof (f_equal snd H) as Hb.
  cbn [fst snd] in Ha, Hb.
  assert (T : forall x : Qc, (x + x)%Qc = 0%Qc -> x = 0%Qc).
  { intros x Hx. replace x with ((x + x) / (1 + 1))%Qc by (field; discriminate). rewrite Hx. field. discriminate. }
  rewrite (T a Ha), (T b Hb). reflexivity.
Qed.
