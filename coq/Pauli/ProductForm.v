(* Product-form matrices on an n-qubit register and how lifted gates act on them (used by the general-width
   proof of property C16, Pauli/EvolutionGeneral.v).

     T n m i j        = prod_{q < n} m q (bit q of i) (bit q of j)          (m : a family of 2x2 matrices)
     BT n A qs m i j  = A (bits qs of i) (bits qs of j) * prod_{q < n, q not in qs} m q (bit q of i) (bit q of j)

   [pprod n l] (Pauli/Den.v) is T for the family  q |-> smat (lookup q l).
   Main facts:  L(G, qs) . BT A qs m = BT (G.A) qs m  and  BT A qs m . L(G, qs) = BT (A.G) qs m  (re-indexing with
   LiftAlgebra.rsum_agree);  T m = BT (m q) [q] m = BT (m a (x) m b) [a; b] m;  hence a single-qubit lift changes one
   factor of a product form, and a two-qubit lift acts on the Kronecker product of two factors. *)
Require Import Coq.Lists.List Coq.Arith.Arith Coq.Bool.Bool Coq.micromega.Lia Coq.setoid_ring.Ring.
Require Import OQ.Base.Ring OQ.Base.Sums OQ.Base.Bits OQ.Base.Mat OQ.Pauli.Algebra OQ.Pauli.Den
        OQ.Circ.Lift OQ.Circ.LiftProofs OQ.Circ.LiftAlgebra.
Import ListNotations.

Lemma mem_cons q a r : mem q (a :: r) = Nat.eqb q a || mem q r.
Proof. reflexivity. Qed.

Lemma b2n_lt2 b : b2n b < 2.
Proof. destruct b; cbn [b2n]; lia. Qed.

Lemma b2n_eqb1 b : Nat.eqb (b2n b) 1 = b.
Proof. destruct b; reflexivity. Qed.

Lemma val1 a : val [a] = b2n a.
Proof. cbn [val length]. rewrite Nat.pow_0_r. lia. Qed.

Lemma val2 a b : val [a; b] = b2n a * 2 + b2n b.
Proof. cbn [val length]. rewrite Nat.pow_0_r. change (2 ^ 1) with 2. lia. Qed.

Lemma val2_div a b : (b2n a * 2 + b2n b) / 2 = b2n a.
Proof. destruct a, b; reflexivity. Qed.

Lemma val2_mod a b : (b2n a * 2 + b2n b) mod 2 = b2n b.
Proof. destruct a, b; reflexivity. Qed.

Section ProductForm.
  Variable K : cring.
  Add Ring Kring : (c_ring K).
  Local Open Scope cr_scope.

  Definition fam : Type := nat -> Mat K.

  (* the bit of qubit q in a bit string, as a matrix index *)
  Definition bx (x : list bool) (q : nat) : nat := b2n (nth q x false).

  (* the factors of the qubits outside qs *)
  Definition restp (n : nat) (qs : list nat) (m : fam) (x y : list bool) : K :=
    lprod (seq 0 n) (fun q => if mem q qs then c1 else m q (bx x q) (bx y q)).

  Definition T (n : nat) (m : fam) : Mat K :=
    fun i j => lprod (seq 0 n) (fun q => m q (bx (bits n i) q) (bx (bits n j) q)).

  Definition BT (n : nat) (A : Mat K) (qs : list nat) (m : fam) : Mat K :=
    fun i j => A (val (select qs (bits n i))) (val (select qs (bits n j))) * restp n qs m (bits n i) (bits n j).

  Definition upd (m : fam) (q : nat) (A : Mat K) : fam := fun q' => if Nat.eqb q' q then A else m q'.

  (* ---------------------------------------------------------------- extensionality *)
  Lemma bx_lt2 x q : bx x q < 2.
  Proof. apply b2n_lt2. Qed.

  Lemma T_ext n m m' : (forall q, q < n -> mat_eq 2 (m q) (m' q)) -> mat_eq (2 ^ n) (T n m) (T n m').
  Proof.
    intros H i j _ _. unfold T. apply lprod_ext. intros q Hq. apply in_seq in Hq. apply H; [lia|apply bx_lt2|apply bx_lt2].
  Qed.

  Lemma restp_ext n qs m m' x y : (forall q, q < n -> ~ In q qs -> mat_eq 2 (m q) (m' q)) ->
    restp n qs m x y = restp n qs m' x y.
  Proof.
    intro H. unfold restp. apply lprod_ext. intros q Hq. apply in_seq in Hq.
    destruct (mem q qs) eqn:E; [reflexivity|]. apply mem_false in E. apply H; [lia|exact E|apply bx_lt2|apply bx_lt2].
  Qed.

  Lemma BT_ext n A qs m m' : (forall q, q < n -> ~ In q qs -> mat_eq 2 (m q) (m' q)) ->
    mat_eq (2 ^ n) (BT n A qs m) (BT n A qs m').
  Proof. intros H i j _ _. unfold BT. rewrite (restp_ext n qs m m' _ _ H). reflexivity. Qed.

  Lemma BT_compat n A A' qs m : mat_eq (2 ^ length qs) A A' -> mat_eq (2 ^ n) (BT n A qs m) (BT n A' qs m).
  Proof.
    intros H i j _ _. unfold BT. rewrite H; [reflexivity| |].
    - rewrite <- (select_length qs (bits n i)). apply val_lt.
    - rewrite <- (select_length qs (bits n j)). apply val_lt.
  Qed.

  (* ---------------------------------------------------------------- merging bits inside qs does not touch the rest *)
  Lemma bx_merge qs t x q : q < length x -> mem q qs = false -> bx (merge qs t x) q = bx x q.
  Proof.
    intros Hq Hm. unfold bx. rewrite merge_nth by exact Hq. apply mem_false in Hm. apply index_of_none in Hm.
    rewrite Hm. reflexivity.
  Qed.

  Lemma restp_merge_l n qs m t x y : length x = n -> restp n qs m (merge qs t x) y = restp n qs m x y.
  Proof.
    intro Hx. unfold restp. apply lprod_ext. intros q Hq. apply in_seq in Hq.
    destruct (mem q qs) eqn:E; [reflexivity|]. rewrite bx_merge; [reflexivity|lia|exact E].
  Qed.

  Lemma restp_merge_r n qs m t x y : length y = n -> restp n qs m x (merge qs t y) = restp n qs m x y.
  Proof.
    intro Hy. unfold restp. apply lprod_ext. intros q Hq. apply in_seq in Hq.
    destruct (mem q qs) eqn:E; [reflexivity|]. rewrite bx_merge; [reflexivity|lia|exact E].
  Qed.

  (* ---------------------------------------------------------------- a lifted gate times a block product form *)
  Lemma BT_lift_l n (G A : Mat K) qs m : NoDup qs -> Forall (fun q => q < n) qs ->
    mat_eq (2 ^ n) (mmul (2 ^ n) (lift_spec (K:=K) G qs n) (BT n A qs m)) (BT n (mmul (2 ^ length qs) G A) qs m).
  Proof.
    intros Hnd Hr i j Hi Hj. unfold mmul at 1. unfold lift_spec, BT. cbv zeta.
    set (x := bits n i). set (y := bits n j).
    rewrite (rsum_ext K _ _ (fun k =>
       (G (val (select qs x)) (val (select qs (bits n k)))
        * (A (val (select qs (bits n k))) (val (select qs y)) * restp n qs m (bits n k) y))
       * ind (K:=K) (agree_off qs x (bits n k)))) by (intros k _; ring).
    rewrite (rsum_agree K n qs x (fun bk => G (val (select qs x)) (val (select qs bk))
                                            * (A (val (select qs bk)) (val (select qs y)) * restp n qs m bk y)))
      by (try assumption; apply bits_length).
    unfold mmul. rewrite <- rsum_scale_r. apply rsum_ext. intros t Ht.
    rewrite select_merge; try assumption; try apply bits_length; [|subst x; rewrite bits_length; exact Hr].
    rewrite val_bits_lt by exact Ht. rewrite restp_merge_l by apply bits_length. ring.
  Qed.

  Lemma BT_lift_r n (G A : Mat K) qs m : NoDup qs -> Forall (fun q => q < n) qs ->
    mat_eq (2 ^ n) (mmul (2 ^ n) (BT n A qs m) (lift_spec (K:=K) G qs n)) (BT n (mmul (2 ^ length qs) A G) qs m).
  Proof.
    intros Hnd Hr i j Hi Hj. unfold mmul at 1. unfold lift_spec, BT. cbv zeta.
    set (x := bits n i). set (y := bits n j).
    rewrite (rsum_ext K _ _ (fun k =>
       (A (val (select qs x)) (val (select qs (bits n k))) * restp n qs m x (bits n k)
        * G (val (select qs (bits n k))) (val (select qs y)))
       * ind (K:=K) (agree_off qs y (bits n k))))
      by (intros k _; rewrite (agree_off_sym qs (bits n k) y); ring).
    rewrite (rsum_agree K n qs y (fun bk => A (val (select qs x)) (val (select qs bk)) * restp n qs m x bk
                                            * G (val (select qs bk)) (val (select qs y))))
      by (try assumption; apply bits_length).
    unfold mmul. rewrite <- rsum_scale_r. apply rsum_ext. intros t Ht.
    rewrite select_merge; try assumption; try apply bits_length; [|subst y; rewrite bits_length; exact Hr].
    rewrite val_bits_lt by exact Ht. rewrite restp_merge_r by apply bits_length. ring.
  Qed.

  (* ---------------------------------------------------------------- taking one factor out of a product *)
  Lemma lprod_extract (l : list nat) (f : nat -> K) a : NoDup l -> In a l ->
    lprod l f = f a * lprod l (fun q => if Nat.eqb q a then c1 else f q).
  Proof.
    intro Hnd. induction Hnd as [|x r Hx Hr IH]; intro Hin; [destruct Hin|]. cbn [lprod].
    destruct (Nat.eqb_spec x a) as [->|Hne].
    - rewrite (lprod_ext K r (fun q => if Nat.eqb q a then c1 else f q) f); [ring|].
      intros q Hq. destruct (Nat.eqb_spec q a) as [->|_]; [contradiction|reflexivity].
    - destruct Hin as [E|Hin]; [congruence|]. rewrite (IH Hin). ring.
  Qed.

  (* ---------------------------------------------------------------- a product form seen from one or two qubits *)
  Lemma T_as_BT1 n m q : q < n -> mat_eq (2 ^ n) (T n m) (BT n (m q) [q] m).
  Proof.
    intros Hq i j _ _. unfold T, BT, restp. cbn [select map]. rewrite !val1.
    rewrite (lprod_extract (seq 0 n) _ q) by (try apply seq_NoDup; apply in_seq; lia).
    fold (bx (bits n i) q). fold (bx (bits n j) q). f_equal.
    apply lprod_ext. intros q' _. rewrite mem_cons. cbn [mem existsb]. rewrite orb_false_r. reflexivity.
  Qed.

  Lemma T_as_BT2 n m a b : a < n -> b < n -> a <> b ->
    mat_eq (2 ^ n) (T n m) (BT n (kron 2 (m a) (m b)) [a; b] m).
  Proof.
    intros Ha Hb Hab i j _ _. unfold T, BT, restp, kron. cbn [select map]. rewrite !val2, !val2_div, !val2_mod.
    rewrite (lprod_extract (seq 0 n) _ a) by (try apply seq_NoDup; apply in_seq; lia).
    rewrite (lprod_extract (seq 0 n) _ b) by (try apply seq_NoDup; apply in_seq; lia).
    destruct (Nat.eqb_spec b a) as [E|_]; [congruence|].
    fold (bx (bits n i) a). fold (bx (bits n j) a). fold (bx (bits n i) b). fold (bx (bits n j) b).
    rewrite <- (c_ring K).(Rmul_assoc). do 2 f_equal.
    apply lprod_ext. intros q' _. rewrite !mem_cons. cbn [mem existsb]. rewrite orb_false_r.
    destruct (Nat.eqb q' a), (Nat.eqb q' b); reflexivity.
  Qed.

  Lemma upd_same m q A : upd m q A q = A.
  Proof. unfold upd. rewrite Nat.eqb_refl. reflexivity. Qed.

  Lemma upd_other m q A q' : q' <> q -> upd m q A q' = m q'.
  Proof. intro H. unfold upd. destruct (Nat.eqb_spec q' q); [contradiction|reflexivity]. Qed.

  Lemma BT1_T n A m q : q < n -> mat_eq (2 ^ n) (BT n A [q] m) (T n (upd m q A)).
  Proof.
    intro Hq. apply mat_eq_sym. eapply mat_eq_trans; [apply (T_as_BT1 n (upd m q A) q Hq)|].
    rewrite upd_same. apply BT_ext. intros q' _ Hn. rewrite upd_other; [apply mat_eq_refl|].
    intro E. apply Hn. left. symmetry. exact E.
  Qed.

  Lemma BT2_T n A B m a b : a < n -> b < n -> a <> b ->
    mat_eq (2 ^ n) (BT n (kron 2 A B) [a; b] m) (T n (upd (upd m a A) b B)).
  Proof.
    intros Ha Hb Hab. apply mat_eq_sym.
    eapply mat_eq_trans; [apply (T_as_BT2 n (upd (upd m a A) b B) a b Ha Hb Hab)|].
    rewrite upd_same, (upd_other _ b B a Hab), upd_same. apply BT_ext. intros q' _ Hn.
    rewrite !upd_other; [apply mat_eq_refl| |]; intro E; apply Hn; cbn [In]; auto.
  Qed.

  (* ---------------------------------------------------------------- lifted gates acting on product forms *)
  Lemma T_lift1_l n G m q : q < n ->
    mat_eq (2 ^ n) (mmul (2 ^ n) (lift_spec (K:=K) G [q] n) (T n m)) (T n (upd m q (mmul 2 G (m q)))).
  Proof.
    intro Hq.
    assert (Hnd : NoDup [q]) by (repeat constructor; intros []).
    assert (Hr : Forall (fun k => k < n) [q]) by (repeat constructor; exact Hq).
    eapply mat_eq_trans; [apply mmul_compat; [apply mat_eq_refl|apply (T_as_BT1 n m q Hq)]|].
    eapply mat_eq_trans; [apply (BT_lift_l n G (m q) [q] m Hnd Hr)|].
    apply BT1_T. exact Hq.
  Qed.

  Lemma T_lift1_r n G m q : q < n ->
    mat_eq (2 ^ n) (mmul (2 ^ n) (T n m) (lift_spec (K:=K) G [q] n)) (T n (upd m q (mmul 2 (m q) G))).
  Proof.
    intro Hq.
    assert (Hnd : NoDup [q]) by (repeat constructor; intros []).
    assert (Hr : Forall (fun k => k < n) [q]) by (repeat constructor; exact Hq).
    eapply mat_eq_trans; [apply mmul_compat; [apply (T_as_BT1 n m q Hq)|apply mat_eq_refl]|].
    eapply mat_eq_trans; [apply (BT_lift_r n G (m q) [q] m Hnd Hr)|].
    apply BT1_T. exact Hq.
  Qed.

  (* conjugation by two-qubit gates: only the Kronecker product of the two factors matters *)
  Lemma T_lift2_conj n G G' m a b A B : a < n -> b < n -> a <> b ->
    mat_eq 4 (mmul 4 G (mmul 4 (kron 2 (m a) (m b)) G')) (kron 2 A B) ->
    mat_eq (2 ^ n) (mmul (2 ^ n) (lift_spec (K:=K) G [a; b] n) (mmul (2 ^ n) (T n m) (lift_spec (K:=K) G' [a; b] n)))
           (T n (upd (upd m a A) b B)).
  Proof.
    intros Ha Hb Hab H4.
    assert (Hnd : NoDup [a; b]).
    { constructor; [intros [E|[]]; congruence|]. repeat constructor; intros []. }
    assert (Hr : Forall (fun k => k < n) [a; b]) by (repeat constructor; assumption).
    eapply mat_eq_trans.
    { apply mmul_compat; [apply mat_eq_refl|].
      eapply mat_eq_trans; [apply mmul_compat; [apply (T_as_BT2 n m a b Ha Hb Hab)|apply mat_eq_refl]|].
      apply (BT_lift_r n G' _ [a; b] m Hnd Hr). }
    eapply mat_eq_trans; [apply (BT_lift_l n G _ [a; b] m Hnd Hr)|].
    eapply mat_eq_trans; [apply (BT_compat n _ (kron 2 A B) [a; b] m); exact H4|].
    apply BT2_T; assumption.
  Qed.

  (* ---------------------------------------------------------------- lifted single-qubit gates and Pauli strings *)
  Definition idfam : fam := fun _ => eye.

  Lemma T_idfam n : mat_eq (2 ^ n) (T n idfam) eye.
  Proof.
    intros i j Hi Hj. unfold T, idfam, eye.
    destruct (Nat.eqb_spec i j) as [->|Hne].
    - rewrite (lprod_ext K _ _ (fun _ => c1)); [apply lprod_one|]. intros q _. rewrite Nat.eqb_refl. reflexivity.
    - assert (Hb : bits n i <> bits n j) by (intro E; apply Hne; apply (bits_inj n); assumption).
      assert (Hex : exists q, q < n /\ bx (bits n i) q <> bx (bits n j) q).
      { destruct (existsb (fun q => negb (Nat.eqb (bx (bits n i) q) (bx (bits n j) q))) (seq 0 n)) eqn:E.
        - apply existsb_exists in E. destruct E as [q [Hq E]]. apply in_seq in Hq. exists q. split; [lia|].
          apply negb_true_iff in E. apply Nat.eqb_neq. exact E.
        - exfalso. apply Hb. apply (nth_ext _ _ false false); [rewrite !bits_length; reflexivity|].
          intros q Hq. rewrite bits_length in Hq.
          assert (Hn : negb (Nat.eqb (bx (bits n i) q) (bx (bits n j) q)) = false).
          { destruct (negb (Nat.eqb (bx (bits n i) q) (bx (bits n j) q))) eqn:E'; [|reflexivity].
            assert (existsb (fun q => negb (Nat.eqb (bx (bits n i) q) (bx (bits n j) q))) (seq 0 n) = true).
            { apply existsb_exists. exists q. split; [apply in_seq; lia|exact E']. }
            congruence. }
          apply negb_false_iff in Hn. apply Nat.eqb_eq in Hn. unfold bx in Hn.
          destruct (nth q (bits n i) false), (nth q (bits n j) false); cbn [b2n] in Hn; congruence. }
      destruct Hex as [q [Hq Hd]].
      rewrite (lprod_extract (seq 0 n) _ q) by (try apply seq_NoDup; apply in_seq; lia).
      destruct (Nat.eqb_spec (bx (bits n i) q) (bx (bits n j) q)) as [E|_]; [contradiction|]. ring.
  Qed.

  (* a lifted single-qubit matrix is the product form with that matrix at its qubit *)
  Lemma lift1_T n G q : q < n -> mat_eq (2 ^ n) (lift_spec (K:=K) G [q] n) (T n (upd idfam q G)).
  Proof.
    intro Hq.
    eapply mat_eq_trans; [apply mat_eq_sym; intros i j _ Hj; apply mmul_eye_r; exact Hj|].
    eapply mat_eq_trans; [apply mmul_compat; [apply mat_eq_refl|apply mat_eq_sym; apply T_idfam]|].
    eapply mat_eq_trans; [apply T_lift1_l; exact Hq|].
    apply T_ext. intros q' _. unfold upd. destruct (Nat.eqb q' q); [|apply mat_eq_refl].
    intros i j _ Hj. apply mmul_eye_r. exact Hj.
  Qed.

  (* Pauli strings are product forms *)
  Lemma pprod_T n l : mat_eq (2 ^ n) (pprod (K:=K) n l) (T n (fun q => smat (lookup q l))).
  Proof.
    intros i j _ _. unfold pprod, T, smat, bitq, bx. apply lprod_ext. intros q _. rewrite !b2n_eqb1. reflexivity.
  Qed.
End ProductForm.

Arguments T {K}. Arguments BT {K}. Arguments upd {K}. Arguments idfam {K}. Arguments restp {K}.
