(* Model of the operator <-> matrix conversions (property C09):
     operators/_openfermion_utils/sparse_tools.py   get_sparse_operator, expectation
     operators/_openfermion_utils/operator_utils.py hermitian_conjugated, is_hermitian (PauliTerm / PauliSum branches)
     operators/_utils.py                            get_pauliop_from_matrix, get_pauliop_from_coeffs_and_labels,
                                                    reverse_qubit_order, get_expectation_value
   on the Pauli operator model of Pauli/Algebra.v (terms with operator dictionaries kept sorted by qubit, sums
   as lists of terms) over an abstract commutative ring with conjugation.  Matrices are functions on indices
   (Base/Mat.v); scipy's sparse formats are not modelled, only the entries of the matrix they store.

   get_sparse_operator, per term:  sparse_operators = [coefficient]; for (q, a) in sorted(operations): an
   identity(2^(q - tensor_factor)) when q > tensor_factor, then the 2x2 matrix of a; a trailing
   identity(2^(n - tensor_factor)) when tensor_factor < n or the term is constant; reduce(kron) from the left
   starting with the scalar.  That is [chain_factors] / [kron_all] / [sparse_chain].
   The COO assembly ([sparse_op]) pairs the values in column-major order with the transposed row-major index
   arrays - "(column, row) = sparse_matrix.nonzero()" - and adds up entries with equal positions; this is
   the entry-wise sum of the per-term matrices because the support of a Pauli string is symmetric
   (MatrixCooProofs.v).
   An operation that raises is [None]. *)
Require Import Coq.Lists.List Coq.Arith.Arith Coq.Bool.Bool.
Require Import OQ.Base.Ring OQ.Base.Sums OQ.Base.Bits OQ.Base.Mat OQ.Pauli.Algebra OQ.Pauli.Den.
Import ListNotations.
Open Scope list_scope.

(* ------------------------------------------------------------------ n_qubits *)
(* PauliTerm.n_qubits: 0 for a constant term, else max(qubits) + 1 *)
Definition ops_width (l : ops) : nat := fold_right (fun qa m => Nat.max (S (fst qa)) m) 0 l.

(* ------------------------------------------------------------------ labels of get_pauliop_from_matrix *)
(* bin2dec of a pair of bits: 0 = I, 1 = X, 2 = Y, 3 = Z *)
Definition code (b1 b0 : bool) : option letter :=
  match b1, b0 with
  | false, false => None
  | false, true => Some PX
  | true, false => Some PY
  | true, true => Some PZ
  end.
(* decode(bit_string): label[i] = bin2dec(bit_string[2i : 2i+2]) *)
Fixpoint decode (bs : list bool) : list (option letter) :=
  match bs with
  | b1 :: b0 :: r => code b1 b0 :: decode r
  | _ => []
  end.
(* decode(dec2bin(i, 2n)) *)
Definition label (n i : nat) : list (option letter) := decode (bits (2 * n) i).

Definition is_flip (a : option letter) : bool :=
  match a with Some PX | Some PY => true | _ => false end.
(* f(j): "flip if X or Y" on the bits of j *)
Fixpoint flip_bits (lab : list (option letter)) (bs : list bool) : list bool :=
  match lab, bs with
  | a :: l, b :: r => (if is_flip a then negb b else b) :: flip_bits l r
  | _, _ => []
  end.
(* the operator dictionary built from a label vector by get_pauliop_from_coeffs_and_labels ("*X3" ...) *)
Fixpoint ops_of (k : nat) (lab : list (option letter)) : ops :=
  match lab with
  | [] => []
  | None :: r => ops_of (S k) r
  | Some a :: r => (k, a) :: ops_of (S k) r
  end.

(* reverse_qubit_order on one dictionary: qubit q -> n - 1 - q (kept sorted) *)
Definition rev_ops (n : nat) (l : ops) : ops := rev (map (fun qa => ((n - 1 - fst qa)%nat, snd qa)) l).

Section Matrix.
  Variable K : cring.
  Local Open Scope cr_scope.

  Definition term_width (t : term K) : nat := ops_width (tops t).
  (* PauliSum.n_qubits: 0 if constant else max(qubits) + 1 *)
  Definition sum_width (s : psum K) : nat := fold_right (fun t m => Nat.max (term_width t) m) 0 s.

  (* ---------------------------------------------------------------- get_sparse_operator *)
  (* pauli_matrix_map (the csc literals of the module) *)
  Definition pauli_mat (a : letter) : Mat K :=
    match a with
    | PX => of_list [[c0; c1]; [c1; c0]]
    | PY => of_list [[c0; - ci]; [ci; c0]]
    | PZ => of_list [[c1; c0]; [c0; - c1]]
    end.

  (* a tensor factor: number of qubits it spans, matrix of dimension 2^that *)
  Definition factor : Type := (nat * Mat K)%type.

  (* the list sparse_operators after the scalar; tf = tensor_factor, empty = "not qubit_term" *)
  Fixpoint chain_factors (l : ops) (tf n : nat) (empty : bool) : list factor :=
    match l with
    | [] => if Nat.ltb tf n || empty then [((n - tf)%nat, eye)] else []
    | (q, a) :: r =>
        (if Nat.ltb tf q then [((q - tf)%nat, eye)] else [])
        ++ (1%nat, pauli_mat a) :: chain_factors r (S q) n empty
    end.

  (* reduce(kron, [coefficient] + factors): the scalar is a 1 x 1 matrix *)
  Definition kron_all (c : K) (fs : list factor) : Mat K :=
    fold_left (fun acc f => kron (2 ^ fst f) acc (snd f)) fs (fun _ _ => c).

  Definition is_nil {A} (l : list A) : bool := match l with [] => true | _ => false end.

  Definition sparse_chain (t : term K) (n : nat) : Mat K :=
    kron_all (coef t) (chain_factors (tops t) 0 n (is_nil (tops t))).

  (* ---- the COO assembly.  Per term the source appends
            values_list  <- sparse_matrix.tocoo(copy=False).data       (CSC: the stored values, column by column)
            (column, row) = sparse_matrix.nonzero()                      (nonzero() returns (rows, cols), sorted by row)
            column_list  <- column ;  row_list <- row
          and finally builds coo_matrix((values, (row_list, column_list))) from the concatenations, which adds up
          entries with equal positions.  So the k-th stored value in column-major order is placed at the
          transposed position of the k-th non-zero entry in row-major order.  "Stored" is modelled as "tests
          non-zero" ([nzb], the exact test data != 0 of nonzero()): a Kronecker product of csc matrices stores
          exactly the products of stored entries. *)
  Variable nzb : K -> bool.

  Definition colmajor (d : nat) : list (nat * nat) := flat_map (fun c => map (fun r => (r, c)) (seq 0 d)) (seq 0 d).
  Definition rowmajor (d : nat) : list (nat * nat) := flat_map (fun r => map (fun c => (r, c)) (seq 0 d)) (seq 0 d).
  Definition stored (A : Mat K) (rc : nat * nat) : bool := nzb (A (fst rc) (snd rc)).
  Definition coo_data (d : nat) (A : Mat K) : list K :=
    map (fun rc => A (fst rc) (snd rc)) (filter (stored A) (colmajor d)).
  Definition nonzero (d : nat) (A : Mat K) : list nat * list nat :=
    let l := filter (stored A) (rowmajor d) in (map fst l, map snd l).

  (* coo_matrix((data, (row, col)), shape).toarray(): duplicates are summed; None = "row, column, and data
     array must all be the same length" *)
  Definition coo_matrix (data : list K) (row col : list nat) : option (Mat K) :=
    if Nat.eqb (List.length data) (List.length row) && Nat.eqb (List.length data) (List.length col)
    then Some (fun i j => lsum (combine data (combine row col))
                            (fun e => if Nat.eqb (fst (snd e)) i && Nat.eqb (snd (snd e)) j then fst e else c0))
    else None.

  Definition sparse_op (s : psum K) (n : nat) : option (Mat K) :=
    let d := (2 ^ n)%nat in
    let per := map (fun t => let A := sparse_chain t n in (coo_data d A, nonzero d A)) s in
    let values_list := concat (map fst per) in
    let column_list := concat (map (fun p => fst (snd p)) per) in       (* "column" = first component of nonzero() *)
    let row_list := concat (map (fun p => snd (snd p)) per) in
    coo_matrix values_list row_list column_list.                         (* with no term: the zero matrix (F9) *)

  (* what the assembly amounts to: entries of the per-term matrices added up (MatrixCooProofs.sparse_op_sum) *)
  Definition sparse_sum (s : psum K) (n : nat) : Mat K := fun i j => lsum s (fun t => sparse_chain t n i j).

  (* get_sparse_operator(operator, n_qubits): ValueError when n_qubits < operator.n_qubits;
     a PauliTerm t is the one-term list [t] (operator.terms) *)
  Definition get_sparse (s : psum K) (n : nat) : option (Mat K) :=
    if Nat.ltb n (sum_width s) then None else sparse_op s n.

  (* ---------------------------------------------------------------- hermitian_conjugated / is_hermitian *)
  Variable is_zero : K -> bool.
  Variable keqb : K -> K -> bool.

  (* term.copy(term.coefficient.conjugate()) *)
  Definition term_conj (t : term K) : term K := mk_term (cconj (coef t)) (tops t).
  (* conjugate_operator = PauliSum(); for term in terms: conjugate_operator += ...   (each += simplifies) *)
  Definition herm_conj (s : psum K) : psum K :=
    fold_left (fun acc t => sum_add is_zero acc [term_conj t]) s [].
  Definition herm_conj_op (a : operand K) : option (operand K) :=
    match a with
    | OT t => Some (OT (term_conj t))
    | OS s => Some (OS (herm_conj s))
    | ON _ => None                                   (* TypeError (the matrix branches are not modelled) *)
    end.
  (* operator == hermitian_conjugated(operator) *)
  Definition is_hermitian (a : operand K) : option bool :=
    match herm_conj_op a with
    | Some b => Some (py_eq is_zero keqb a b)
    | None => None
    end.

  (* ---------------------------------------------------------------- reverse_qubit_order *)
  Definition rev_term (n : nat) (t : term K) : term K := mk_term (coef t) (rev_ops n (tops t)).
  (* reversed_op = PauliSum(); for term in terms: reversed_op += PauliTerm(new_term, coefficient) *)
  Definition reverse_terms (n : nat) (s : psum K) : psum K :=
    fold_left (fun acc t => sum_add is_zero acc [rev_term n t]) s [].
  Definition reverse (n : nat) (s : psum K) : option (psum K) :=
    if Nat.ltb n (sum_width s) then None else Some (reverse_terms n s).

  (* ---------------------------------------------------------------- expectation / get_expectation_value *)
  (* numpy.dot(numpy.conjugate(state), operator * state) *)
  Definition expectation (d : nat) (A : Mat K) (v : Vec K) : K :=
    rsum d (fun i => cconj (v i) * mvec d A v i).
  (* n = log2(len(amplitudes)) *)
  Definition get_expectation (n : nat) (s : psum K) (v : Vec K) (reverse_operator : bool) : option K :=
    match (if reverse_operator then reverse n s else Some s) with
    | None => None
    | Some s' => match get_sparse s' n with
                 | None => None
                 | Some A => Some (expectation (2 ^ n) A v)
                 end
    end.

  (* ---------------------------------------------------------------- get_pauliop_from_matrix *)
  Variable half : K.                                   (* 1/2: "tr / 2**n" *)
  Fixpoint hpow (n : nat) : K := match n with O => c1 | S m => half * hpow m end.

  (* nz(j): the value of the non-zero element of P in column j, one factor per qubit *)
  Definition nz1 (a : option letter) (b : bool) : K :=
    match a with
    | Some PY => if b then - ci else ci
    | Some PZ => if b then - c1 else c1
    | _ => c1
    end.
  Fixpoint nz_bits (lab : list (option letter)) (bs : list bool) : K :=
    match lab, bs with
    | a :: l, b :: r => nz1 a b * nz_bits l r
    | _, _ => c1
    end.

  (* trace_product(label_vec) = (sum_j operator[j][f(j)] * nz(j)) / 2^n *)
  Definition trace_product (n : nat) (M : Mat K) (lab : list (option letter)) : K :=
    hpow n * rsum (2 ^ n) (fun j => M j (val (flip_bits lab (bits n j))) * nz_bits lab (bits n j)).

  Definition label_term (n : nat) (M : Mat K) (i : nat) : term K :=
    let lab := label n i in mk_term (trace_product n M lab) (ops_of 0 lab).

  (* for i in range(4^n): output += PauliTerm(coeffs[i], labels[i])      (each += simplifies) *)
  Definition from_matrix (n : nat) (M : Mat K) : psum K :=
    fold_left (fun acc i => sum_add is_zero acc [label_term n M i]) (seq 0 (4 ^ n)) [].

  (* the entry point on a list of rows: square (length of the first row), a power of two.
     A 1 x 1 matrix (n = 0) passes these tests and then fails inside decode: dec2bin(0, 0) is [0], of length 1,
     not 2n = 0 ("LH_expand:decode: input bit string length not 2n") *)
  Definition pauliop_from_rows (L : list (list K)) : option (psum K) :=
    let nrows := List.length L in
    match L with
    | [] => None
    | r0 :: _ =>
        if negb (Nat.eqb nrows (List.length r0)) then None
        else let n := Nat.log2 nrows in
             if negb (Nat.eqb (2 ^ n) nrows) then None
             else if Nat.eqb n 0 then None
             else Some (from_matrix n (of_list L))
    end.
End Matrix.

Arguments term_width {K}. Arguments sum_width {K}. Arguments pauli_mat {K}. Arguments chain_factors {K}.
Arguments kron_all {K}. Arguments sparse_chain {K}. Arguments sparse_op {K}. Arguments get_sparse {K}.
Arguments colmajor : clear implicits. Arguments rowmajor : clear implicits.
Arguments stored {K}. Arguments coo_data {K}. Arguments nonzero {K}. Arguments coo_matrix {K}. Arguments sparse_sum {K}.
Arguments term_conj {K}. Arguments herm_conj {K}. Arguments herm_conj_op {K}. Arguments is_hermitian {K}.
Arguments rev_term {K}. Arguments reverse_terms {K}. Arguments reverse {K}.
Arguments expectation {K}. Arguments get_expectation {K}.
Arguments hpow {K}. Arguments nz1 {K}. Arguments nz_bits {K}. Arguments trace_product {K}.
Arguments label_term {K}. Arguments from_matrix {K}. Arguments pauliop_from_rows {K}.
