(* C16, first clause, for every Pauli string on at most three qubits and ALL real c, t:
      U(time_evolution_for_term(c P, t)) = cos(tc) I - i sin(tc) P   ( = exp(-i t c P) ).
   The circuit is  pre ; RZ(2 t c) on the last qubit ; post  with pre/post free of parameters.  In the executable ring
   GQ[h] (h = 1/sqrt 2) we decide, by vm_compute, for each of the 81 strings:
      (A) U(post) U(pre) = I          (B) U(post) Z_q U(pre) = P
   and transport both to the complex numbers along the evaluation homomorphism; the RZ gate is linear in
   cos/sin, which gives the statement for every angle. *)
Require Import Coq.Reals.Reals Coq.Lists.List Coq.Arith.Arith Coq.Bool.Bool Coq.micromega.Lia Coq.micromega.Lra
        Coq.setoid_ring.Ring Coq.QArith.QArith Coq.QArith.Qcanon.
Require Import OQ.Base.Ring OQ.Base.Sums OQ.Base.Bits OQ.Base.Mat OQ.Base.LMat OQ.Base.Hom OQ.Gates.CR OQ.Gates.Trig
        OQ.Gates.GQh OQ.Gen.GatesGen OQ.Pauli.Algebra OQ.Pauli.Den OQ.Circ.Lift OQ.Circ.LiftProofs OQ.Circ.LiftAlgebra
        OQ.Circ.Circuit OQ.Circ.CircuitProofs OQ.Pauli.Evolution OQ.Pauli.EvolutionSem OQ.Base.MatLin.
Import ListNotations.

(* ------------------------------------------------------------------ boolean matrix comparison *)
Definition mat_eqb {K : cring} (eqb : K -> K -> bool) (d : nat) (A B : Mat K) : bool :=
  forallb (fun i => forallb (fun j => eqb (A i j) (B i j)) (seq 0 d)) (seq 0 d).

Lemma mat_eqb_sound {K : cring} (eqb : K -> K -> bool) d (A B : Mat K) :
  (forall x y, eqb x y = true -> x = y) -> mat_eqb eqb d A B = true -> mat_eq d A B.
Proof.
  intros He H i j Hi Hj. unfold mat_eqb in H. rewrite forallb_forall in H.
  specialize (H i ltac:(apply in_seq; lia)). rewrite forallb_forall in H.
  apply He. apply H. apply in_seq. lia.
Qed.

(* ------------------------------------------------------------------ the two gate records *)
Definition mih : GQh := ghmul (ghopp ghi) ghh.          (* -i h *)
Definition gh_H : Mat GQhring := of_list (K:=GQhring) [[ghh; ghh]; [ghh; ghopp ghh]].
Definition gh_RXh : Mat GQhring := of_list (K:=GQhring) [[ghh; mih]; [mih; ghh]].
Definition gh_CNOT : Mat GQhring :=
  of_list (K:=GQhring) [[gh1; gh0; gh0; gh0]; [gh0; gh1; gh0; gh0]; [gh0; gh0; gh0; gh1]; [gh0; gh0; gh1; gh0]].
Definition gh_Z : Mat GQhring := of_list (K:=GQhring) [[gh1; gh0]; [gh0; ghopp gh1]].
Definition gates_gh : gmats GQhring := mk_gmats GQhring gh_H gh_RXh (adj gh_RXh) gh_CNOT.

Definition cr_H : Mat CRring := of_list (K:=CRring) h_matrix.
Definition cr_RXh : Mat CRring := of_list (K:=CRring) (rx_matrix (PI / 2)).
Definition cr_CNOT : Mat CRring := of_list (K:=CRring) cnot_matrix.
Definition cr_Z : Mat CRring := of_list (K:=CRring) z_matrix.
Definition gates_cr : gmats CRring := mk_gmats CRring cr_H cr_RXh (adj cr_RXh) cr_CNOT.
Definition cr_RZ (a : R) : Mat CRring := of_list (K:=CRring) (rz_matrix a).

Open Scope R_scope.

Lemma gh2cr_0 : gh2cr gh0 = cr0.
Proof. apply (hom_0 _ _ _ gh2cr_hom). Qed.
Lemma gh2cr_1 : gh2cr gh1 = cr1.
Proof. apply (hom_1 _ _ _ gh2cr_hom). Qed.
Lemma gh2cr_h : gh2cr ghh = (1 / sqrt 2, 0).
Proof.
  unfold gh2cr, ghh, gq2cr, isq2, gq0, gq1, cradd, crmul. cbn [fst snd]. rewrite qc2r_0, qc2r_1.
  apply pair_eq; ring.
Qed.
Lemma gh2cr_mih : gh2cr mih = (0, - (1 / sqrt 2)).
Proof.
  unfold mih. change (ghmul (ghopp ghi) ghh) with (@cmul GQhring (@copp GQhring (@ci GQhring)) ghh).
  rewrite (hom_mul _ _ _ gh2cr_hom), (hom_opp _ _ _ gh2cr_hom), (hom_i _ _ _ gh2cr_hom), gh2cr_h.
  cbv [cmul copp ci CRring crmul cropp cri fst snd]. apply pair_eq; ring.
Qed.

Lemma quarter : PI / 2 / 2 = PI / 4.
Proof. field. Qed.

Notation ev := (mmap (A:=GQhring) (B:=CRring) gh2cr).

Ltac two_by_two i j Hi Hj :=
  destruct i as [|[|i]]; [| |lia]; (destruct j as [|[|j]]; [| |lia]).

Lemma rel_H : mat_eq 2 (ev gh_H) cr_H.
Proof.
  intros i j Hi Hj. unfold mmap, gh_H, cr_H, h_matrix, of_list. two_by_two i j Hi Hj; cbn [nth];
    rewrite ?(hom_opp _ _ _ gh2cr_hom), ?gh2cr_h; cbv [copp CRring cropp fst snd]; apply pair_eq; try reflexivity; ring.
Qed.

Lemma rel_RXh : mat_eq 2 (ev gh_RXh) cr_RXh.
Proof.
  intros i j Hi Hj. unfold mmap, gh_RXh, cr_RXh, rx_matrix, of_list. rewrite quarter, cos_PI4, sin_PI4.
  two_by_two i j Hi Hj; cbn [nth]; rewrite ?gh2cr_h, ?gh2cr_mih; apply pair_eq; try reflexivity; ring.
Qed.

Lemma rel_RXhd : mat_eq 2 (ev (adj gh_RXh)) (adj cr_RXh).
Proof.
  intros i j Hi Hj. rewrite (adj_hom _ _ _ gh2cr_hom). apply (adj_compat CRring 2 _ _ rel_RXh); assumption.
Qed.

Lemma rel_Z : mat_eq 2 (ev gh_Z) cr_Z.
Proof.
  intros i j Hi Hj. unfold mmap, gh_Z, cr_Z, z_matrix, of_list. two_by_two i j Hi Hj; cbn [nth];
    rewrite ?(hom_opp _ _ _ gh2cr_hom), ?gh2cr_0, ?gh2cr_1; cbv [copp CRring cropp cr0 cr1 fst snd];
    apply pair_eq; try reflexivity; ring.
Qed.

Lemma rel_CNOT : mat_eq 4 (ev gh_CNOT) cr_CNOT.
Proof.
  intros i j Hi Hj. unfold mmap, gh_CNOT, cr_CNOT, cnot_matrix, of_list.
  destruct i as [|[|[|[|i]]]]; [| | | |lia]; (destruct j as [|[|[|[|j]]]]; [| | | |lia]); cbn [nth];
    rewrite ?gh2cr_0, ?gh2cr_1; reflexivity.
Qed.

(* ------------------------------------------------------------------ enumeration of the Pauli strings on n qubits *)
Close Scope R_scope.
Fixpoint all_ops_from (q m : nat) : list ops :=
  match m with
  | O => [[]]
  | S m' => let r := all_ops_from (S q) m' in
            r ++ flat_map (fun l => [(q, PX) :: l; (q, PY) :: l; (q, PZ) :: l]) r
  end.
Definition nonempty (l : ops) : bool := match l with [] => false | _ => true end.
Definition all_ops (n : nat) : list ops := filter nonempty (all_ops_from 0 n).

(* ------------------------------------------------------------------ well-formedness of described operations *)
Fixpoint nodupb (l : list nat) : bool :=
  match l with [] => true | x :: r => negb (existsb (Nat.eqb x) r) && nodupb r end.
Lemma nodupb_sound l : nodupb l = true -> NoDup l.
Proof.
  induction l as [|x r IH]; intro H; [constructor|]. cbn [nodupb] in H. apply andb_prop in H. destruct H as [H1 H2].
  constructor; [|apply IH; exact H2]. intro Hin. apply negb_true_iff in H1.
  assert (existsb (Nat.eqb x) r = true) by (apply existsb_exists; exists x; split; [exact Hin|apply Nat.eqb_refl]).
  congruence.
Qed.

Definition arity {P} (g : egate P) : nat := match g with ECNOT => 2 | _ => 1 end.
Definition wf_eopb {P} (n : nat) (o : eop P) : bool :=
  Nat.eqb (List.length (snd o)) (arity (fst o)) && nodupb (snd o) && forallb (fun q => Nat.ltb q n) (snd o).

Lemma wf_eopb_sound {P} {K : cring} (G : gmats K) (rz : P -> Mat K) n (o : eop P) : wf_eopb n o = true ->
  wf_gate n (eapp G rz o) /\ List.length (snd o) = arity (fst o).
Proof.
  unfold wf_eopb. intro H. apply andb_prop in H. destruct H as [H H3]. apply andb_prop in H. destruct H as [H1 H2].
  apply Nat.eqb_eq in H1. split; [|exact H1]. unfold wf_gate, eapp. cbn [g_qs]. repeat split.
  - intro E. rewrite E in H1. destruct (fst o); discriminate.
  - apply nodupb_sound. exact H2.
  - apply Forall_forall. intros q Hq. rewrite forallb_forall in H3. apply Nat.ltb_lt. apply H3. exact Hq.
Qed.

(* ------------------------------------------------------------------ the decision in GQ[h] *)
Definition rz_none {K : cring} : R -> Mat K := fun _ => eye.
Definition no_rzb (o : eop R) : bool := match fst o with ERZ _ => false | _ => true end.

Definition check_gh (n : nat) (l : ops) : bool :=
  let d := (2 ^ n)%nat in
  let pre := evolve_pre (P:=R) l in
  let post := evolve_post (P:=R) l in
  let q := last_qubit l in
  forallb (wf_eopb n) (pre ++ post) && forallb no_rzb (pre ++ post) && Nat.ltb q n &&
  (let Upre := to_unitary n (map (eapp gates_gh rz_none) pre) in
   let Upost := to_unitary n (map (eapp gates_gh rz_none) post) in
   let LZ := lifted n (mk_gateapp gh_Z [q]) in
   mat_eqb (K:=GQhring) gh_eqb d (memo d (mmul d Upost Upre)) eye &&
   mat_eqb (K:=GQhring) gh_eqb d (memo d (mmul d Upost (memo d (mmul d LZ Upre)))) (pprod (K:=GQhring) n l)).

Lemma small_check_true : forallb (fun n => forallb (check_gh n) (all_ops n)) [1; 2; 3] = true.
Proof. vm_compute. reflexivity. Qed.

Lemma small_check_all n l : In n [1; 2; 3] -> In l (all_ops n) -> check_gh n l = true.
Proof.
  intros Hn Hl. pose proof (proj1 (forallb_forall _ _) small_check_true n Hn) as H. cbv beta in H.
  exact (proj1 (forallb_forall _ _) H l Hl).
Qed.

(* ------------------------------------------------------------------ what the decision means *)
Lemma check_gh_sound n l : check_gh n l = true ->
  let pre := evolve_pre (P:=R) l in
  let post := evolve_post (P:=R) l in
  let q := last_qubit l in
  let d := (2 ^ n)%nat in
  Forall (fun o => wf_eopb n o = true /\ no_rzb o = true) (pre ++ post) /\ (q < n)%nat /\
  mat_eq d (mmul d (esem gates_gh rz_none n post) (esem gates_gh rz_none n pre)) eye /\
  mat_eq d (mmul d (esem gates_gh rz_none n post) (mmul d (lift_spec gh_Z [q] n) (esem gates_gh rz_none n pre)))
           (pprod (K:=GQhring) n l).
Proof.
  intros H pre post q d. unfold check_gh in H. fold pre post q d in H.
  apply andb_prop in H. destruct H as [H Hm]. apply andb_prop in H. destruct H as [H Hq].
  apply andb_prop in H. destruct H as [Hwf Hnr]. apply andb_prop in Hm. destruct Hm as [HA HB].
  apply Nat.ltb_lt in Hq. rewrite forallb_forall in Hwf, Hnr.
  assert (Hall : Forall (fun o => wf_eopb n o = true /\ no_rzb o = true) (pre ++ post)).
  { apply Forall_forall. intros o Ho. split; [apply Hwf|apply Hnr]; exact Ho. }
  assert (Hwfg : forall c, (forall o, In o c -> In o (pre ++ post)) ->
                  Forall (fun o => wf_gate n (eapp gates_gh rz_none o)) c).
  { intros c Hc. apply Forall_forall. intros o Ho. apply (wf_eopb_sound gates_gh rz_none). apply Hwf. apply Hc. exact Ho. }
  assert (Epre := esem_is_to_unitary GQhring R gates_gh rz_none n pre (Hwfg pre (fun o Ho => in_or_app _ _ _ (or_introl Ho)))).
  assert (Epost := esem_is_to_unitary GQhring R gates_gh rz_none n post (Hwfg post (fun o Ho => in_or_app _ _ _ (or_intror Ho)))).
  assert (EZ : mat_eq d (lifted n (mk_gateapp gh_Z [q])) (lift_spec gh_Z [q] n)).
  { apply (lifted_spec GQhring). unfold wf_gate. cbn [g_qs]. repeat split; [discriminate|repeat constructor; intros []|repeat constructor; exact Hq]. }
  split; [exact Hall|]. split; [exact Hq|]. split.
  - apply (mat_eqb_sound (K:=GQhring) gh_eqb) in HA; [|exact gh_eqb_eq].
    eapply mat_eq_trans; [|exact HA]. apply mat_eq_sym. eapply mat_eq_trans; [apply memo_eq|].
    apply mmul_compat; assumption.
  - apply (mat_eqb_sound (K:=GQhring) gh_eqb) in HB; [|exact gh_eqb_eq].
    eapply mat_eq_trans; [|exact HB]. apply mat_eq_sym. eapply mat_eq_trans; [apply memo_eq|].
    apply mmul_compat; [exact Epost|]. eapply mat_eq_trans; [apply memo_eq|]. apply mmul_compat; assumption.
Qed.

(* ------------------------------------------------------------------ transport of parameter-free circuits to CR *)
Lemma espec_transport (rzr : R -> Mat CRring) n (o : eop R) : wf_eopb n o = true -> no_rzb o = true ->
  mat_eq (2 ^ n) (ev (espec gates_gh rz_none n o)) (espec gates_cr rzr n o).
Proof.
  intros Hwf Hnr. destruct (wf_eopb_sound gates_gh rz_none n o Hwf) as [_ Har].
  intros i j Hi Hj. unfold espec. rewrite (lift_hom _ _ _ gh2cr_hom).
  destruct o as [g qs]. cbn [fst snd] in *. apply (lift_compat CRring); try assumption. rewrite Har.
  destruct g; cbn [arity emat gates_gh gates_cr mH mRXh mRXhd mCNOT]; cbn [Nat.pow Nat.mul Nat.add];
    [exact rel_H|exact rel_RXh|exact rel_RXhd|exact rel_CNOT|discriminate Hnr].
Qed.

Lemma esem_transport (rzr : R -> Mat CRring) n (c : list (eop R)) :
  Forall (fun o => wf_eopb n o = true /\ no_rzb o = true) c ->
  mat_eq (2 ^ n) (ev (esem gates_gh rz_none n c)) (esem gates_cr rzr n c).
Proof.
  intro H. intros i j Hi Hj. unfold esem. rewrite (prog_prod_hom _ _ _ gh2cr_hom).
  revert i j Hi Hj. apply prog_prod_compat. rewrite map_map.
  induction H as [|o r [Ho1 Ho2] Hr IH]; cbn [map]; constructor; [|exact IH].
  apply espec_transport; assumption.
Qed.

(* ------------------------------------------------------------------ the RZ gate is linear in cos / sin *)
Open Scope R_scope.
Definition cphase (theta : R) : CR := (cos theta, 0).
Definition sphase (theta : R) : CR := (0, - sin theta).

Lemma rz_linear theta :
  mat_eq 2 (cr_RZ (2 * theta)) (madd (mscale (K:=CRring) (cphase theta) eye) (mscale (K:=CRring) (sphase theta) cr_Z)).
Proof.
  intros i j Hi Hj. unfold cr_RZ, rz_matrix, cr_Z, z_matrix, of_list, madd, mscale, eye, cphase, sphase.
  replace (2 * theta / 2) with theta by field.
  two_by_two i j Hi Hj; cbn [nth Nat.eqb]; cbv [cadd cmul c0 c1 CRring cradd crmul cr0 cr1 fst snd]; apply pair_eq; ring.
Qed.

Section LiftAdd.
  Variable K : cring.
  Add Ring Kr : (c_ring K).
  Lemma lift_madd (A B : Mat K) qs n i j :
    lift_spec (madd A B) qs n i j = madd (lift_spec A qs n) (lift_spec B qs n) i j.
  Proof. unfold lift_spec, madd. cbv zeta. ring. Qed.
End LiftAdd.

(* exp(-i theta P) written without the matrix exponential: cos(theta) I - i sin(theta) P *)
Definition E_P (n : nat) (l : ops) (theta : R) : Mat CRring :=
  madd (mscale (K:=CRring) (cphase theta) eye) (mscale (K:=CRring) (sphase theta) (pprod (K:=CRring) n l)).

Lemma transport_A n pre post :
  Forall (fun o => wf_eopb n o = true /\ no_rzb o = true) pre ->
  Forall (fun o => wf_eopb n o = true /\ no_rzb o = true) post ->
  mat_eq (2 ^ n) (mmul (2 ^ n) (esem gates_gh rz_none n post) (esem gates_gh rz_none n pre)) eye ->
  mat_eq (2 ^ n) (mmul (2 ^ n) (esem gates_cr cr_RZ n post) (esem gates_cr cr_RZ n pre)) eye.
Proof.
  intros Hpre Hpost HA. apply (mat_eq_hom GQhring CRring gh2cr) in HA.
  eapply mat_eq_trans; [|eapply mat_eq_trans; [exact HA|intros i j _ _; apply (eye_hom _ _ _ gh2cr_hom)]].
  apply mat_eq_sym. eapply mat_eq_trans; [intros i j _ _; apply (mmul_hom _ _ _ gh2cr_hom)|].
  apply mmul_compat; apply esem_transport; assumption.
Qed.

Lemma transport_B n l q pre post :
  Forall (fun o => wf_eopb n o = true /\ no_rzb o = true) pre ->
  Forall (fun o => wf_eopb n o = true /\ no_rzb o = true) post ->
  mat_eq (2 ^ n) (mmul (2 ^ n) (esem gates_gh rz_none n post) (mmul (2 ^ n) (lift_spec gh_Z [q] n) (esem gates_gh rz_none n pre)))
                 (pprod (K:=GQhring) n l) ->
  mat_eq (2 ^ n) (mmul (2 ^ n) (esem gates_cr cr_RZ n post) (mmul (2 ^ n) (lift_spec cr_Z [q] n) (esem gates_cr cr_RZ n pre)))
                 (pprod (K:=CRring) n l).
Proof.
  intros Hpre Hpost HB. apply (mat_eq_hom GQhring CRring gh2cr) in HB.
  eapply mat_eq_trans; [|eapply mat_eq_trans; [exact HB|intros i j _ _; apply (pprod_hom _ _ _ gh2cr_hom)]].
  apply mat_eq_sym. eapply mat_eq_trans; [intros i j _ _; apply (mmul_hom _ _ _ gh2cr_hom)|].
  apply mmul_compat; [apply esem_transport; assumption|].
  eapply mat_eq_trans; [intros i j _ _; apply (mmul_hom _ _ _ gh2cr_hom)|].
  apply mmul_compat; [|apply esem_transport; assumption].
  intros i j Hi Hj. rewrite (lift_hom _ _ _ gh2cr_hom). apply (lift_compat CRring); try assumption. exact rel_Z.
Qed.

Lemma erz_block n q theta :
  mat_eq (2 ^ n) (esem gates_cr cr_RZ n [(ERZ (2 * theta), [q])])
                 (madd (mscale (K:=CRring) (cphase theta) eye) (mscale (K:=CRring) (sphase theta) (lift_spec cr_Z [q] n))).
Proof.
  unfold esem. cbn [map prog_prod]. eapply mat_eq_trans; [intros i j Hi _; apply mmul_eye_l; exact Hi|].
  unfold espec. cbn [fst snd emat].
  eapply mat_eq_trans; [apply (lift_compat CRring _ _ [q] n (rz_linear theta))|].
  eapply mat_eq_trans; [intros i j _ _; apply (lift_madd CRring)|].
  apply madd_compat.
  - eapply mat_eq_trans; [intros i j _ _; apply (lift_scale CRring)|]. apply mscale_compat. apply (lift_eye CRring).
  - intros i j _ _. apply (lift_scale CRring).
Qed.

(* pure matrix algebra: post . (c I + s Z) . pre  with  post.pre = I  and  post.Z.pre = P *)
Lemma sandwich d (Upre Upost LZ Pm : Mat CRring) (c s : CR) :
  mat_eq d (mmul d Upost Upre) eye -> mat_eq d (mmul d Upost (mmul d LZ Upre)) Pm ->
  mat_eq d (mmul d (mmul d Upost (madd (mscale (K:=CRring) c eye) (mscale (K:=CRring) s LZ))) Upre)
           (madd (mscale (K:=CRring) c eye) (mscale (K:=CRring) s Pm)).
Proof.
  intros A_cr B_cr.
  eapply mat_eq_trans.
  { apply mmul_compat; [intros i j _ _; apply (mmul_madd_r CRring)|apply mat_eq_refl]. }
  eapply mat_eq_trans; [intros i j _ _; apply (mmul_madd_l CRring)|].
  apply madd_compat.
  - eapply mat_eq_trans; [apply mmul_compat; [intros i j _ _; apply (mmul_mscale_r CRring)|apply mat_eq_refl]|].
    eapply mat_eq_trans; [intros i j _ _; apply (mmul_mscale_l CRring)|]. apply mscale_compat.
    eapply mat_eq_trans; [apply mmul_compat; [intros i j _ Hj; apply mmul_eye_r; exact Hj|apply mat_eq_refl]|]. exact A_cr.
  - eapply mat_eq_trans; [apply mmul_compat; [intros i j _ _; apply (mmul_mscale_r CRring)|apply mat_eq_refl]|].
    eapply mat_eq_trans; [intros i j _ _; apply (mmul_mscale_l CRring)|]. apply mscale_compat.
    eapply mat_eq_trans; [intros i j _ _; apply mmul_assoc|]. exact B_cr.
Qed.

Theorem evolve_term_small : forall n l, In n [1%nat; 2%nat; 3%nat] -> In l (all_ops n) -> forall theta : R,
  mat_eq (2 ^ n) (to_unitary n (map (eapp gates_cr cr_RZ) (evolve_ops l (2 * theta)))) (E_P n l theta).
Proof.
  intros n l Hn Hl theta.
  pose proof (small_check_all n l Hn Hl) as Hc.
  destruct (check_gh_sound n l Hc) as (Hall & Hq & HA & HB).
  assert (Hpre : Forall (fun o => wf_eopb n o = true /\ no_rzb o = true) (evolve_pre (P:=R) l)).
  { apply Forall_forall. intros o Ho. rewrite Forall_forall in Hall. apply Hall. apply in_or_app. left. exact Ho. }
  assert (Hpost : Forall (fun o => wf_eopb n o = true /\ no_rzb o = true) (evolve_post (P:=R) l)).
  { apply Forall_forall. intros o Ho. rewrite Forall_forall in Hall. apply Hall. apply in_or_app. right. exact Ho. }
  pose proof (transport_A n _ _ Hpre Hpost HA) as A_cr.
  pose proof (transport_B n l _ _ _ Hpre Hpost HB) as B_cr.
  rewrite evolve_ops_split.
  assert (Hwf : Forall (fun o => wf_gate n (eapp gates_cr cr_RZ o))
                       (evolve_pre l ++ [(ERZ (2 * theta), [last_qubit l])] ++ evolve_post l)).
  { apply Forall_app. split; [|apply Forall_app; split].
    - eapply Forall_impl; [|exact Hpre]. intros o [Ho _]. apply (wf_eopb_sound gates_cr cr_RZ). exact Ho.
    - constructor; [|constructor]. unfold wf_gate, eapp. cbn [g_qs snd]. repeat split; [discriminate|repeat constructor; intros []|repeat constructor; exact Hq].
    - eapply Forall_impl; [|exact Hpost]. intros o [Ho _]. apply (wf_eopb_sound gates_cr cr_RZ). exact Ho. }
  eapply mat_eq_trans; [apply esem_is_to_unitary; exact Hwf|].
  eapply mat_eq_trans; [apply esem_app|].
  eapply mat_eq_trans; [apply mmul_compat; [apply esem_app|apply mat_eq_refl]|].
  eapply mat_eq_trans; [apply mmul_compat; [apply mmul_compat; [apply mat_eq_refl|apply erz_block]|apply mat_eq_refl]|].
  unfold E_P. apply sandwich; assumption.
Qed.
