(* Model of the Pauli operator arithmetic of operators/_pauli_operators.py (property C03; reused by C09,
   C11, C16).

   Scalars are the elements of an abstract commutative ring with conjugation [K : cring] (Base/Ring.v), so
   the functions run on [GQring] (correspondence checks, exact Gaussian rationals) and every theorem
   holds for every instance.  The three places where the implementation uses floating-point tests or
   operations outside a ring are parameters:
     [is_zero c]   np.isclose(c, 0.0) / np.allclose(c, 0)
     [keqb a b]    np.allclose(a, b) (and equality of the rounded hashes)
     [kinv c]      1.0 / c  ([None] = ZeroDivisionError)
   For [GQring] they are instantiated by the exact tests / the exact inverse at the end of this file.

   Data.
     letter        X | Y | Z ("I" is never stored: PauliTerm.__init__ drops it)
     ops           the dict PauliTerm._ops as an association list qubit -> letter, kept strictly
                   sorted by qubit ([ops_sorted]); Python's insertion order is not observable through
                   the operations modelled here (the key of simplify and of __hash__ is the frozenset
                   of items), the harness sorts before comparing
     term          PauliTerm = coefficient + ops
     psum          PauliSum.terms, a list of terms in order
     operand       what can stand on either side of + - * / ** ==: a term, a sum or a plain number

   Functions mirror, line by line: PauliTerm._multiply_by_operator (through the generated tables
   Gen/PauliTablesGen.v), PauliTerm.__mul__, PauliSum.simplify, PauliSum.__mul__/__rmul__/__add__,
   _efficient_exponentiation, and the dispatch of the binary operators on the three operand kinds
   ([py_add] ... [py_eq]).  An operation that raises is [None].

   Theorems: Pauli/TablesProofs.v (tables = 2x2 matrix products), Pauli/DenProofs.v (term product),
   Pauli/SumProofs.v (invariants, simplify), Pauli/OpsProofs.v (operators on operands, ==),
   Pauli/EqCompleteProofs.v (linear independence of Pauli strings); summary in Props/C03.v. *)
Require Import Coq.ZArith.ZArith Coq.Lists.List Coq.Strings.String Coq.Bool.Bool Coq.Arith.Arith
  Coq.QArith.QArith Coq.QArith.Qcanon.
Require Import OQ.Base.Ring OQ.Gen.PauliTablesGen.
Import ListNotations.
Close Scope Qc_scope. Close Scope Q_scope.
Open Scope list_scope.

(* ------------------------------------------------------------------ letters and operator dictionaries *)
Inductive letter := PX | PY | PZ.

Definition letter_eqb (a b : letter) : bool :=
  match a, b with PX, PX | PY, PY | PZ, PZ => true | _, _ => false end.

Definition letter_str (a : letter) : string :=
  match a with PX => "X" | PY => "Y" | PZ => "Z" end.

Definition letter_of_str (s : string) : option letter :=
  if String.eqb s "X" then Some PX else if String.eqb s "Y" then Some PY
  else if String.eqb s "Z" then Some PZ else None.

Definition ops := list (nat * letter).

(* _ops.get(q) : None = identity on q *)
Fixpoint lookup (q : nat) (l : ops) : option letter :=
  match l with
  | [] => None
  | (k, a) :: r => if Nat.eqb q k then Some a else lookup q r
  end.

(* _ops[q] = a (insertion in sorted position, or replacement) *)
Fixpoint set_op (q : nat) (a : letter) (l : ops) : ops :=
  match l with
  | [] => [(q, a)]
  | (k, b) :: r => if Nat.ltb q k then (q, a) :: (k, b) :: r
                   else if Nat.eqb q k then (k, a) :: r
                   else (k, b) :: set_op q a r
  end.

(* del _ops[q] (every entry with key q: the same thing on a dictionary, and total on any list) *)
Fixpoint del_op (q : nat) (l : ops) : ops :=
  match l with
  | [] => []
  | (k, b) :: r => if Nat.eqb q k then del_op q r else (k, b) :: del_op q r
  end.

(* equality of the frozensets of items = equality of the sorted lists *)
Fixpoint ops_eqb (l1 l2 : ops) : bool :=
  match l1, l2 with
  | [], [] => true
  | (k1, a1) :: r1, (k2, a2) :: r2 => Nat.eqb k1 k2 && letter_eqb a1 a2 && ops_eqb r1 r2
  | _, _ => false
  end.

(* strictly increasing qubit indices: the representation invariant (implies distinct keys) *)
Fixpoint ops_sorted (l : ops) : Prop :=
  match l with
  | [] => True
  | (k, _) :: r => (forall k', In k' (map fst r) -> (k < k')%nat) /\ ops_sorted r
  end.

Definition keys (l : ops) : list nat := map fst l.

(* d[k] for a dict literal given as the list of its items in source order: the last equal key wins *)
Fixpoint dict_get {A B} (eqb : A -> A -> bool) (k : A) (d : list (A * B)) : option B :=
  match d with
  | [] => None
  | (k', v) :: r => match dict_get eqb k r with
                    | Some w => Some w
                    | None => if eqb k k' then Some v else None
                    end
  end.

(* _efficient_exponentiation: the recursion on power > 0 written on the binary representation
     power = 1      ->  rep * identity                      (odd, then power - 1 = 0)
     power = 2q     ->  r * r            with r = rep ^ q
     power = 2q+1   ->  rep * (r * r)    with r = rep ^ q   (odd, then the even case)            *)
Fixpoint pow_pos {A} (mul : A -> A -> A) (one : A) (x : A) (p : positive) : A :=
  match p with
  | xH => mul x one
  | xO q => let r := pow_pos mul one x q in mul r r
  | xI q => mul x (let r := pow_pos mul one x q in mul r r)
  end.
Definition pow_N {A} (mul : A -> A -> A) (one : A) (x : A) (k : N) : A :=
  match k with N0 => one | Npos p => pow_pos mul one x p end.

Section Algebra.
  Variable K : cring.
  Local Open Scope cr_scope.

  Record term := mk_term { coef : K; tops : ops }.
  Definition psum := list term.
  Inductive operand := OT (t : term) | OS (s : psum) | ON (c : K).

  (* ---------------------------------------------------------------- the tables, read as the code reads them *)
  (* OPERATOR_MAP[ord(a) + ord(b)] *)
  Definition op_lookup (a b : letter) : option letter :=
    match dict_get Z.eqb (ord (letter_str a) + ord (letter_str b))%Z OPERATOR_MAP with
    | Some s => letter_of_str s
    | None => None
    end.
  (* COEFF_MAP[a + b] *)
  Definition coeff_lookup (a b : letter) : option K :=
    dict_get String.eqb (letter_str a ++ letter_str b)%string (COEFF_MAP K).
  (* A missing entry would be a KeyError; TablesProofs.tables_total shows that every ordered pair of
     distinct letters has an entry in both tables, so the defaults below are never used. *)
  Definition op_tab (a b : letter) : letter := match op_lookup a b with Some l => l | None => a end.
  Definition coeff_tab (a b : letter) : K := match coeff_lookup a b with Some c => c | None => c0 end.

  (* ---------------------------------------------------------------- PauliTerm *)
  Definition identity : term := mk_term c1 [].            (* PauliTerm.identity() = PauliTerm("I0", 1.0) *)
  Definition const (c : K) : term := mk_term c [].        (* PauliTerm("I0", c) *)
  Definition term_scale (t : term) (c : K) : term := mk_term (coef t * c) (tops t).   (* t * number *)

  (* PauliTerm._multiply_by_operator(op, index) *)
  Definition mul_by_op (t : term) (op : letter) (index : nat) : term :=
    match lookup index (tops t) with
    | None => mk_term (coef t) (set_op index op (tops t))                         (* case 1 *)
    | Some a =>
        if letter_eqb a op then mk_term (coef t) (del_op index (tops t))         (* case 2 *)
        else mk_term (coef t * coeff_tab a op) (set_op index (op_tab a op) (tops t))   (* case 3 *)
    end.

  (* PauliTerm.__mul__(PauliTerm) *)
  Definition term_mul (t1 t2 : term) : term :=
    let result_term :=
      fold_left (fun acc it => mul_by_op acc (snd it) (fst it)) (tops t2) (mk_term c1 (tops t1)) in
    let new_coeff := coef t1 * coef t2 in
    mk_term (coef result_term * new_coeff) (tops result_term).

  (* ---------------------------------------------------------------- PauliSum.simplify *)
  Variable is_zero : K -> bool.

  (* like_terms: OrderedDict key -> list of coefficients, keys in first-appearance order *)
  Fixpoint group_insert (key : ops) (c : K) (g : list (ops * list K)) : list (ops * list K) :=
    match g with
    | [] => [(key, [c])]
    | (k, cs) :: r => if ops_eqb key k then (k, cs ++ [c]) :: r else (k, cs) :: group_insert key c r
    end.
  Definition like_terms (s : psum) : list (ops * list K) :=
    fold_left (fun g t => group_insert (tops t) (coef t) g) s [].

  Definition py_sum (cs : list K) : K := fold_left cadd cs c0.       (* sum(...) starts from 0 *)

  Definition single_kept (cs : list K) : bool :=
    match cs with [c] => negb (is_zero c) | _ => false end.

  (* the terms a group contributes to the result / the term it silently drops *)
  Definition group_out (g : ops * list K) : list term :=
    if single_kept (snd g) then [mk_term (hd c0 (snd g)) (fst g)]
    else let coeff := py_sum (snd g) in
         if is_zero coeff then [] else [mk_term coeff (fst g)].
  Definition group_dropped (g : ops * list K) : list term :=
    if single_kept (snd g) then []
    else let coeff := py_sum (snd g) in
         if is_zero coeff then [mk_term coeff (fst g)] else [].

  Definition simplify (s : psum) : psum := flat_map group_out (like_terms s).
  Definition dropped (s : psum) : psum := flat_map group_dropped (like_terms s).

  (* ---------------------------------------------------------------- PauliSum arithmetic *)
  (* [l * r for l, r in itertools.product(s1, s2)] *)
  Definition products (s1 s2 : psum) : psum := flat_map (fun l => map (fun r => term_mul l r) s2) s1.
  Definition sum_mul (s1 s2 : psum) : psum := simplify (products s1 s2).        (* PauliSum * PauliSum *)
  Definition sum_add (s1 s2 : psum) : psum := simplify (s1 ++ s2).              (* PauliSum + PauliSum *)
  Definition sum_rscale (c : K) (s : psum) : psum :=                            (* PauliSum.__rmul__ *)
    simplify (map (fun t => term_scale t c) s).
  Definition sum_identity : psum := [identity].                                 (* PauliSum.identity() *)

  Definition term_pow (t : term) (k : N) : term := pow_N term_mul identity t k.
  Definition sum_pow (s : psum) (k : N) : psum := pow_N sum_mul sum_identity s k.

  (* ---------------------------------------------------------------- operator dispatch *)
  Definition py_simplify (a : operand) : option operand :=
    match a with OS s => Some (OS (simplify s)) | _ => None end.

  (* a + b ; (number, number) is not the library's business *)
  Definition py_add (a b : operand) : option operand :=
    match a, b with
    | OT t1, OT t2 => Some (OS (simplify [t1; t2]))
    | OT t, OS s => Some (OS (sum_add s [t]))                 (* "return other + self" *)
    | OT t, ON c => Some (OS (simplify [t; const c]))
    | ON c, OT t => Some (OS (simplify [t; const c]))         (* __radd__ *)
    | OS s, OT t => Some (OS (sum_add s [t]))
    | OS s, OS s2 => Some (OS (sum_add s s2))
    | OS s, ON c => Some (OS (sum_add s [const c]))
    | ON c, OS s => Some (OS (sum_add s [const c]))           (* __radd__ *)
    | ON _, ON _ => None
    end.

  Definition py_mul (a b : operand) : option operand :=
    match a, b with
    | OT t1, OT t2 => Some (OT (term_mul t1 t2))
    | OT t, OS s => Some (OS (simplify (sum_mul [t] s)))      (* (PauliSum([self]) * other).simplify() *)
    | OT t, ON c => Some (OT (term_scale t c))
    | ON c, OT t => Some (OT (term_scale t c))                (* __rmul__ *)
    | OS s, OS s2 => Some (OS (sum_mul s s2))
    | OS s, OT t => Some (OS (sum_mul s [term_mul identity t]))
    | OS s, ON c => Some (OS (sum_mul s [term_scale identity c]))
    | ON c, OS s => Some (OS (sum_rscale c s))                (* __rmul__ *)
    | ON _, ON _ => None
    end.

  (* -1.0 * b *)
  Definition py_neg (b : operand) : option operand :=
    match b with
    | ON c => Some (ON (- c1 * c))
    | _ => py_mul (ON (- c1)) b
    end.

  (* a - b = a + -1.0 * b  (also for __rsub__: other + -1.0 * self) *)
  Definition py_sub (a b : operand) : option operand :=
    match a, b with
    | ON _, ON _ => None
    | _, _ => match py_neg b with Some nb => py_add a nb | None => None end
    end.

  Variable kinv : K -> option K.

  (* a / b = a * (1.0 / b), b a number; there is no __rtruediv__ *)
  Definition py_div (a b : operand) : option operand :=
    match a, b with
    | ON _, _ => None
    | _, ON c => match kinv c with Some r => py_mul a (ON r) | None => None end
    | _, _ => None
    end.

  (* a ** k for a Python int k; negative -> ValueError *)
  Definition py_pow (a : operand) (k : Z) : option operand :=
    if Z.ltb k 0 then None else
    match a with
    | OT t => Some (OT (term_pow t (Z.to_N k)))               (* self.copy() first *)
    | OS s => Some (OS (sum_pow s (Z.to_N k)))
    | ON _ => None
    end.

  (* ---------------------------------------------------------------- equality *)
  Variable keqb : K -> K -> bool.

  (* PauliTerm.__eq__(PauliTerm) *)
  Definition term_eqb (t1 t2 : term) : bool :=
    keqb (coef t1) (coef t2) && (is_zero (coef t1) || ops_eqb (tops t1) (tops t2)).
  (* the same element of a Python set: equal hashes (rounded coefficient, frozenset of items), then == *)
  Definition term_same (t1 t2 : term) : bool :=
    keqb (coef t1) (coef t2) && ops_eqb (tops t1) (tops t2).
  Definition set_incl (s1 s2 : psum) : bool := forallb (fun a => existsb (term_same a) s2) s1.
  (* PauliSum.__eq__(PauliSum): equal lengths and set(terms) == set(terms) *)
  Definition sum_eqb (s1 s2 : psum) : bool :=
    Nat.eqb (List.length s1) (List.length s2) && set_incl s1 s2 && set_incl s2 s1.
  Definition sum_term_eqb (s : psum) (t : term) : bool :=
    match s with [] => is_zero (coef t) | _ => sum_eqb s [t] end.

  Definition py_eq (a b : operand) : bool :=
    match a, b with
    | OT t1, OT t2 => term_eqb t1 t2
    | OT t, ON c | ON c, OT t => term_eqb t (const c)
    | OT t, OS s | OS s, OT t => sum_term_eqb s t
    | OS s, ON c | ON c, OS s => sum_term_eqb s (const c)     (* self == PauliTerm("I0", complex(other)) *)
    | OS s1, OS s2 => sum_eqb s1 s2
    | ON a, ON b => keqb a b
    end.

  (* ---------------------------------------------------------------- well-formedness *)
  Definition term_fits (n : nat) (t : term) : Prop := forall q, In q (keys (tops t)) -> (q < n)%nat.
  Definition term_ok (n : nat) (t : term) : Prop := ops_sorted (tops t) /\ term_fits n t.
  Definition sum_ok (n : nat) (s : psum) : Prop := Forall (term_ok n) s.
  Definition operand_ok (n : nat) (a : operand) : Prop :=
    match a with OT t => term_ok n t | OS s => sum_ok n s | ON _ => True end.
  (* what simplify guarantees: pairwise different operator sets *)
  Definition distinct_ops (s : psum) : Prop := NoDup (map tops s).
End Algebra.

Arguments mk_term {K}. Arguments coef {K}. Arguments tops {K}.
Arguments OT {K}. Arguments OS {K}. Arguments ON {K}.
Arguments identity {K}. Arguments const {K}. Arguments term_scale {K}.
Arguments mul_by_op {K}. Arguments term_mul {K}.
Arguments group_insert {K}. Arguments like_terms {K}. Arguments py_sum {K}.
Arguments single_kept {K}. Arguments group_out {K}. Arguments group_dropped {K}.
Arguments simplify {K}. Arguments dropped {K}.
Arguments products {K}. Arguments sum_mul {K}. Arguments sum_add {K}. Arguments sum_rscale {K}.
Arguments sum_identity {K}. Arguments term_pow {K}. Arguments sum_pow {K}.
Arguments py_simplify {K}. Arguments py_add {K}. Arguments py_mul {K}. Arguments py_neg {K}.
Arguments py_sub {K}. Arguments py_div {K}. Arguments py_pow {K}.
Arguments term_eqb {K}. Arguments term_same {K}. Arguments set_incl {K}. Arguments sum_eqb {K}.
Arguments sum_term_eqb {K}. Arguments py_eq {K}.
Arguments term_fits {K}. Arguments term_ok {K}. Arguments sum_ok {K}. Arguments operand_ok {K}.
Arguments distinct_ops {K}.

(* ------------------------------------------------------------------ the executable instance *)
Definition gq_is_zero (c : GQ) : bool := gq_eqb c gq0.
Definition gq_inv (c : GQ) : option GQ :=
  let n := (fst c * fst c + snd c * snd c)%Qc in
  if Qc_eq_bool n 0%Qc then None else Some ((fst c / n)%Qc, (- snd c / n)%Qc).
