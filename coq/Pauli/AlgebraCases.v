(* Literals and comparison helpers for the C03 correspondence cases (model evaluated on GQring). *)
Require Import Coq.ZArith.ZArith Coq.Lists.List Coq.Bool.Bool Coq.QArith.QArith Coq.QArith.Qcanon.
Require Import OQ.Base.Ring OQ.Base.CaseEq OQ.Pauli.Algebra.
Import ListNotations.
Close Scope Qc_scope. Close Scope Q_scope.
Open Scope list_scope.

(* dyadic Gaussian rational (re + i im) / 2^e *)
Definition dy (re im : Z) (e : nat) : GQ :=
  gq_lit (Qmake re (Pos.shiftl_nat 1 e)) (Qmake im (Pos.shiftl_nat 1 e)).

Definition gterm := term GQring.
Definition goperand := operand GQring.
Definition tm (re im : Z) (e : nat) (l : ops) : gterm := @mk_term GQring (dy re im e) l.
Definition oterm (t : gterm) : goperand := OT t.
Definition osum (l : list gterm) : goperand := OS l.
Definition onum (re im : Z) (e : nat) : goperand := @ON GQring (dy re im e).

Definition gterm_eqb (a b : gterm) : bool := gq_eqb (coef a) (coef b) && ops_eqb (tops a) (tops b).
Definition goperand_eqb (a b : goperand) : bool :=
  match a, b with
  | OT t1, OT t2 => gterm_eqb t1 t2
  | OS s1, OS s2 => leqb gterm_eqb s1 s2
  | ON c1, ON c2 => gq_eqb c1 c2
  | _, _ => false
  end.
Definition res_eqb (a b : option goperand) : bool := oeqb goperand_eqb a b.

(* the operators of the implementation on GQ: exact zero test, exact equality, exact inverse *)
Definition g_add := @py_add GQring gq_is_zero.
Definition g_sub := @py_sub GQring gq_is_zero.
Definition g_mul := @py_mul GQring gq_is_zero.
Definition g_div := @py_div GQring gq_is_zero gq_inv.
Definition g_pow := @py_pow GQring gq_is_zero.
Definition g_simplify := @py_simplify GQring gq_is_zero.
Definition g_eq := @py_eq GQring gq_is_zero gq_eqb.

(* op: 0 add, 1 sub, 2 mul, 3 div *)
Definition bin_eqb (op : nat) (a b : goperand) (out : option goperand) : bool :=
  res_eqb (match op with
           | 0 => g_add a b | 1 => g_sub a b | 2 => g_mul a b | _ => g_div a b
           end) out.
Definition pow_eqb (a : goperand) (k : Z) (out : option goperand) : bool := res_eqb (g_pow a k) out.
Definition simplify_eqb (a : goperand) (out : option goperand) : bool := res_eqb (g_simplify a) out.
Definition eq_eqb (a b : goperand) (out : bool) : bool := Bool.eqb (g_eq a b) out.

(* every operand of a case respects the representation invariant (strictly increasing qubit indices) *)
Fixpoint sorted_b (l : ops) : bool :=
  match l with
  | (k1, _) :: ((k2, _) :: _) as r => Nat.ltb k1 k2 && sorted_b r
  | _ => true
  end.
Definition operand_sorted_b (a : goperand) : bool :=
  match a with OT t => sorted_b (tops t) | OS s => forallb (fun t => sorted_b (tops t)) s | ON _ => true end.
