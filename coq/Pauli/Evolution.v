(* Model of evolution.py (property C16): the circuit for exp(-i t c P) of one Pauli term, the Trotter
   product over terms and steps, and the parameter-shift derivative circuits.

   A circuit is a list of described operations (gate kind + qubits); its meaning over a ring K is obtained
   from a record of gate matrices, so that the SAME circuit can be evaluated in the executable ring GQ[h]
   (parameter-free part) and in the complex numbers CR. *)
Require Import Coq.Lists.List Coq.Arith.Arith Coq.Bool.Bool Coq.QArith.QArith Coq.QArith.Qabs.
Require Import OQ.Base.Ring OQ.Base.Mat OQ.Pauli.Algebra OQ.Circ.Lift OQ.Circ.Circuit.
Import ListNotations.

Section EvolutionModel.
  Variable P : Type.                       (* rotation angles *)

  Inductive egate : Type :=
  | EH                                     (* H *)
  | ERXh                                   (* RX(pi/2) *)
  | ERXhd                                  (* RX(pi/2).dagger, a Dagger wrapper *)
  | ECNOT
  | ERZ (a : P).
  Definition eop : Type := (egate * list nat)%type.

  (* basis_change: H for X, RX(pi/2) for Y, nothing for Z, in the order of the sorted qubits *)
  Definition basis_change (l : ops) : list eop :=
    flat_map (fun ql => match snd ql with PX => [(EH, [fst ql])] | PY => [(ERXh, [fst ql])] | PZ => [] end) l.
  (* Circuit.inverse of it: reversed, H is its own dagger (is_hermitian), RX(pi/2) gets a Dagger wrapper *)
  Definition basis_change_inv (l : ops) : list eop :=
    rev (flat_map (fun ql => match snd ql with PX => [(EH, [fst ql])] | PY => [(ERXhd, [fst ql])] | PZ => [] end) l).
  (* cnot ladder CNOT(q_i, q_{i+1}) *)
  Fixpoint cnot_ladder (qs : list nat) : list eop :=
    match qs with
    | a :: ((b :: _) as r) => (ECNOT, [a; b]) :: cnot_ladder r
    | _ => []
    end.
  Definition last_qubit (l : ops) : nat := last (keys l) 0.

  (* time_evolution_for_term for a non-constant term with operator dictionary l (sorted by qubit) and
     RZ angle a = 2 * time * coefficient.real *)
  Definition evolve_ops (l : ops) (a : P) : list eop :=
    basis_change l ++ cnot_ladder (keys l) ++ [(ERZ a, [last_qubit l])] ++ rev (cnot_ladder (keys l)) ++ basis_change_inv l.
  Definition evolve_pre (l : ops) : list eop := basis_change l ++ cnot_ladder (keys l).
  Definition evolve_post (l : ops) : list eop := rev (cnot_ladder (keys l)) ++ basis_change_inv l.

  Lemma evolve_ops_split l a : evolve_ops l a = evolve_pre l ++ [(ERZ a, [last_qubit l])] ++ evolve_post l.
  Proof. unfold evolve_ops, evolve_pre, evolve_post. rewrite <- !app_assoc. reflexivity. Qed.
End EvolutionModel.

Arguments EH {P}. Arguments ERXh {P}. Arguments ERXhd {P}. Arguments ECNOT {P}. Arguments ERZ {P}.
Arguments basis_change {P}. Arguments basis_change_inv {P}. Arguments cnot_ladder {P}. Arguments evolve_ops {P}.
Arguments evolve_pre {P}. Arguments evolve_post {P}.

(* ------------------------------------------------------------------ whole Hamiltonians over Q (structure) *)
(* a term as the code sees it: constant / imaginary part of the coefficient too large / (real coefficient, ops) *)
Inductive hterm := HConst | HImag | HTerm (c : Q) (l : ops).

Definition evolve_term (tm : hterm) (time : Q) : option (list (eop Q)) :=
  match tm with
  | HConst => Some []
  | HImag => None                                       (* ValueError *)
  | HTerm c l => Some (evolve_ops l (2 * time * c)%Q)
  end.

Fixpoint concat_opt {A} (l : list (option (list A))) : option (list A) :=
  match l with
  | [] => Some []
  | None :: _ => None
  | Some x :: r => match concat_opt r with Some y => Some (x ++ y) | None => None end
  end.

(* time_evolution: outer loop over steps, inner loop over terms in the listed order, time / n_steps each *)
Definition time_evolution (h : list hterm) (time : Q) (steps : nat) : option (list (eop Q)) :=
  concat_opt (flat_map (fun _ => map (fun tm => evolve_term tm (time / inject_Z (Z.of_nat steps))%Q) h) (seq 0 steps)).

(* time_evolution_derivatives.  [shift_q4 c] stands for pi / (4 c): the harness passes pi as a symbol, so shifted
   RZ angles are recorded as (rational part, multiple of pi/2):  angle = a + k * (pi/2), k in {-1, 0, 1}. *)
Definition sangle : Type := (Q * Z)%type.
Definition evolve_term_s (tm : hterm) (time : Q) (k : Z) : option (list (eop sangle)) :=
  match tm with
  | HConst => Some []
  | HImag => None
  | HTerm c l => Some (evolve_ops l ((2 * time * c)%Q, k))
  end.

Definition coef_of (tm : hterm) : Q := match tm with HTerm c _ => c | _ => 0 end.

(* one entry per (term index i, sign s): factor s * c_i / steps and the circuit in which term i's RZ angle is
   shifted by s * pi/2 (time shifted by s * pi / (4 r), r = c_i / steps) *)
Definition single_derivatives (h : list hterm) (time : Q) (steps : nat)
  : list (Q * option (list (eop sangle))) :=
  let n := inject_Z (Z.of_nat steps) in
  flat_map (fun i =>
    map (fun s : Z =>
           ((coef_of (nth i h HConst) / n * inject_Z s)%Q,
            concat_opt (map (fun j => evolve_term_s (nth j h HConst) (time / n)%Q (if Nat.eqb i j then s else 0%Z))
                            (seq 0 (List.length h)))))
        [1%Z; (-1)%Z])
    (seq 0 (List.length h)).

Definition seq_circ {A} (rep diff : option (list A)) (steps pos : nat) : option (list A) :=
  concat_opt (map (fun i => if Nat.eqb i pos then diff else rep) (seq 0 steps)).

(* the returned (factor, circuit) list: for one step the single derivatives; for more steps, for every position
   and every (factor, circuit), the stepped evolution with that one block replaced *)
Definition derivatives (h : list hterm) (time : Q) (steps : nat) : list (Q * option (list (eop sangle))) :=
  let singles := single_derivatives h time steps in
  if Nat.leb steps 1 then singles
  else
    let n := inject_Z (Z.of_nat steps) in
    let rep := concat_opt (map (fun tm => evolve_term_s tm (time / n)%Q 0%Z) h) in
    flat_map (fun pos => map (fun fd => (fst fd, seq_circ rep (snd fd) steps pos)) singles) (seq 0 steps).

(* how time_evolution_for_term classifies a term: constant (no operators) -> empty circuit; imaginary part of the
   coefficient above 1e-9 in absolute value -> ValueError; otherwise the real part is used *)
Definition imag_tol : Q := 1 # 1000000000.
Definition classify (re im : Q) (l : ops) : hterm :=
  match l with
  | [] => HConst
  | _ => if Qlt_le_dec imag_tol (Qabs im) then HImag else HTerm re l
  end.
