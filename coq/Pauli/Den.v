(* Denotation of Pauli terms, sums and numbers as matrices (property C03; reused by C09, C11, C16).

   [den n t] is the 2^n x 2^n matrix a term denotes on an n-qubit register, qubit 0 leftmost (most
   significant bit of the row/column index):
       den n t i j = coef t * prod_{q < n} sigma_{t q} ((bits n i)_q, (bits n j)_q)
   where t q = lookup q (tops t) (None = identity) and sigma_X, sigma_Y, sigma_Z, sigma_I are the 2x2 Pauli
   matrices as functions of a row bit and a column bit.  Operators on qubits >= n are ignored, theorems
   therefore ask for [term_fits n t] where it matters.
   [dmat] is the same matrix as an explicit Kronecker chain over the dense string (DenProofs.pprod_dmat). *)
Require Import Coq.Lists.List Coq.Arith.Arith Coq.Bool.Bool.
Require Import OQ.Base.Ring OQ.Base.Sums OQ.Base.Bits OQ.Base.Mat OQ.Pauli.Algebra.
Import ListNotations.

Section Den.
  Variable K : cring.
  Local Open Scope cr_scope.

  (* entry (x, y) of the 2x2 matrix of a letter (None = identity); Y = [[0, -i], [i, 0]] *)
  Definition sigma (o : option letter) (x y : bool) : K :=
    match o with
    | None => if Bool.eqb x y then c1 else c0
    | Some PX => if Bool.eqb x y then c0 else c1
    | Some PY => if x then (if y then c0 else ci) else (if y then - ci else c0)
    | Some PZ => if Bool.eqb x y then (if x then - c1 else c1) else c0
    end.

  (* bit of qubit q in the index i of an n-qubit register *)
  Definition bitq (n q i : nat) : bool := nth q (bits n i) false.

  (* the tensor product of the letters of an operator dictionary on n qubits *)
  Definition pprod (n : nat) (l : ops) : Mat K :=
    fun i j => lprod (seq 0 n) (fun q => sigma (lookup q l) (bitq n q i) (bitq n q j)).

  Definition den (n : nat) (t : term K) : Mat K := fun i j => coef t * pprod n (tops t) i j.
  Definition sden (n : nat) (s : psum K) : Mat K := fun i j => lsum s (fun t => den n t i j).
  Definition nden (c : K) : Mat K := mscale c eye.                  (* a plain number c stands for c * I *)
  Definition oden (n : nat) (a : operand K) : Mat K :=
    match a with OT t => den n t | OS s => sden n s | ON c => nden c end.

  (* dense strings and the Kronecker chain *)
  Definition smat (o : option letter) : Mat K := fun i j => sigma o (Nat.eqb i 1) (Nat.eqb j 1).
  Fixpoint dmat (l : list (option letter)) : Mat K :=
    match l with
    | [] => fun _ _ => c1
    | a :: r => kron (2 ^ List.length r) (smat a) (dmat r)
    end.
  Definition dense (n : nat) (l : ops) : list (option letter) := map (fun q => lookup q l) (seq 0 n).
End Den.

Arguments sigma {K}. Arguments pprod {K}. Arguments den {K}. Arguments sden {K}. Arguments nden {K}.
Arguments oden {K}. Arguments smat {K}. Arguments dmat {K}.
