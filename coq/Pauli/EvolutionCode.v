(* C16: time_evolution_derivatives exactly as the code returns it, on top of the model of Pauli/Evolution.v.
   Two points where [Evolution.derivatives] is not what the code does:
     - a constant term c*I: the code returns the factors +c/N and -c/N (with two identical circuits); [derivatives] records 0
       because [hterm]/[classify] forget the coefficient of a constant.  [derivatives_g kc] takes the coefficients of the
       constants from a function kc of the term position;
     - a term (constant or not) whose real coefficient is 0: r = c/N = 0 and  shift = factor * (pi / (4 r))  raises
       ZeroDivisionError, for every number of steps; a non-constant term with an imaginary part above 1e-9 raises ValueError
       in time_evolution_for_term.  [derivatives_code] is None in these cases.
   (A non-constant coefficient with imaginary part at most 1e-9 only warns and its real part is used: that is [classify].)
   This file is executable and light (no reals): the correspondence cases compare against [derivatives_code]. *)
Require Import Coq.Lists.List Coq.Arith.Arith Coq.Bool.Bool Coq.QArith.QArith Coq.ZArith.ZArith.
Require Import OQ.Base.Ring OQ.Base.Mat OQ.Pauli.Algebra OQ.Pauli.Evolution.
Import ListNotations.

(* real part of the coefficient of term i: from the term if it is not constant, from kc otherwise *)
Definition coef_g (kc : nat -> Q) (h : list hterm) (i : nat) : Q :=
  match List.nth i h HConst with HTerm c _ => c | _ => kc i end.

Definition single_derivatives_g (kc : nat -> Q) (h : list hterm) (time : Q) (steps : nat)
  : list (Q * option (list (eop sangle))) :=
  let n := inject_Z (Z.of_nat steps) in
  flat_map (fun i =>
    map (fun s : Z =>
           ((coef_g kc h i / n * inject_Z s)%Q,
            concat_opt (map (fun j => evolve_term_s (List.nth j h HConst) (time / n)%Q (if Nat.eqb i j then s else 0%Z))
                            (seq 0 (List.length h)))))
        [1%Z; (-1)%Z])
    (seq 0 (List.length h)).

Definition derivatives_g (kc : nat -> Q) (h : list hterm) (time : Q) (steps : nat) : list (Q * option (list (eop sangle))) :=
  let singles := single_derivatives_g kc h time steps in
  if Nat.leb steps 1 then singles
  else
    let n := inject_Z (Z.of_nat steps) in
    let rep := concat_opt (map (fun tm => evolve_term_s tm (time / n)%Q 0%Z) h) in
    flat_map (fun pos => map (fun fd => (fst fd, seq_circ rep (snd fd) steps pos)) singles) (seq 0 steps).

Definition is_imag (tm : hterm) : bool := match tm with HImag => true | _ => false end.
Definition zero_coef (kc : nat -> Q) (h : list hterm) : bool :=
  existsb (fun i => Qeq_bool (coef_g kc h i) 0) (seq 0 (List.length h)).

(* None = the call raises (ZeroDivisionError / ValueError) *)
Definition derivatives_code (kc : nat -> Q) (h : list hterm) (time : Q) (steps : nat)
  : option (list (Q * option (list (eop sangle)))) :=
  if zero_coef kc h || existsb is_imag h then None else Some (derivatives_g kc h time steps).

Lemma coef_g_0 h i : coef_g (fun _ => 0%Q) h i = coef_of (List.nth i h HConst).
Proof. unfold coef_g, coef_of. destruct (List.nth i h HConst); reflexivity. Qed.

Lemma derivatives_g_0 h q N : derivatives_g (fun _ => 0%Q) h q N = derivatives h q N.
Proof.
  assert (E : single_derivatives_g (fun _ => 0%Q) h q N = single_derivatives h q N).
  { unfold single_derivatives_g, single_derivatives. cbv zeta. apply flat_map_ext. intro i. apply map_ext. intro s.
    rewrite coef_g_0. reflexivity. }
  unfold derivatives_g, derivatives. cbv zeta. rewrite E. reflexivity.
Qed.

Lemma zero_coef_false kc h : zero_coef kc h = false <-> (forall i, (i < List.length h)%nat -> ~ (coef_g kc h i == 0)%Q).
Proof.
  unfold zero_coef. split.
  - intros H i Hi E. apply Qeq_bool_iff in E.
    assert (Hex : existsb (fun i => Qeq_bool (coef_g kc h i) 0) (seq 0 (List.length h)) = true).
    { apply existsb_exists. exists i. split; [apply in_seq; split; [apply Nat.le_0_l|exact Hi]|exact E]. }
    rewrite H in Hex. discriminate.
  - intro H. destruct (existsb _ _) eqn:E; [|reflexivity]. apply existsb_exists in E. destruct E as [i [Hi E]].
    apply in_seq in Hi. apply Qeq_bool_iff in E. exfalso. apply (H i); [apply Hi|exact E].
Qed.

Lemma derivatives_code_zero kc h q N i : (i < List.length h)%nat -> (coef_g kc h i == 0)%Q -> derivatives_code kc h q N = None.
Proof.
  intros Hi E. unfold derivatives_code.
  assert (Hz : zero_coef kc h = true).
  { unfold zero_coef. apply existsb_exists. exists i. split; [apply in_seq; split; [apply Nat.le_0_l|exact Hi]|].
    apply Qeq_bool_iff. exact E. }
  rewrite Hz. reflexivity.
Qed.

Lemma derivatives_code_imag kc h q N : In HImag h -> derivatives_code kc h q N = None.
Proof.
  intro Hin. unfold derivatives_code.
  assert (Hi : existsb is_imag h = true) by (apply existsb_exists; exists HImag; split; [exact Hin|reflexivity]).
  rewrite Hi, orb_true_r. reflexivity.
Qed.

Lemma derivatives_code_some kc h q N :
  (forall i, (i < List.length h)%nat -> ~ (coef_g kc h i == 0)%Q) -> ~ In HImag h ->
  derivatives_code kc h q N = Some (derivatives_g kc h q N).
Proof.
  intros Hz Hi. unfold derivatives_code. rewrite (proj2 (zero_coef_false kc h) Hz).
  destruct (existsb is_imag h) eqn:E; [|reflexivity]. apply existsb_exists in E. destruct E as [tm [Htm E]].
  destruct tm; try discriminate. contradiction.
Qed.

Lemma derivatives_code_inv kc h q N ds : derivatives_code kc h q N = Some ds ->
  ds = derivatives_g kc h q N /\ (forall i, (i < List.length h)%nat -> ~ (coef_g kc h i == 0)%Q).
Proof.
  unfold derivatives_code. destruct (zero_coef kc h) eqn:Ez; [discriminate|]. cbn [orb].
  destruct (existsb is_imag h); [discriminate|]. intro E. injection E as <-. split; [reflexivity|].
  apply zero_coef_false. exact Ez.
Qed.
