(* C09: expanding a 2^n x 2^n matrix in the Pauli basis (get_pauliop_from_matrix) and converting back gives the
   matrix, for every n, over any ring in which 2 is invertible.

   For a fixed entry (x, y) the sum over the 4^n strings is split on the most significant qubit: the label of
   string a * 4^n + r is (letter a) :: label r, the trace against it splits over the top bit of the column
   index into traces of the four 2^n x 2^n blocks of the matrix, and the entry of the string is the entry of the
   2x2 letter times the entry of the rest.  What is left after the induction hypothesis is the one-qubit
   statement for the 2x2 matrix of the blocks' (x', y') entries ([one_qubit]). *)
Require Import Coq.setoid_ring.Ring Coq.Lists.List Coq.Bool.Bool Coq.Arith.Arith Coq.micromega.Lia.
Require Import OQ.Base.Ring OQ.Base.Sums OQ.Base.Bits OQ.Base.Mat OQ.Pauli.Algebra OQ.Pauli.Den OQ.Pauli.Matrix
  OQ.Pauli.MatrixProofs OQ.Pauli.MatrixCooProofs OQ.Pauli.MatrixOpsProofs.
Import ListNotations.

(* ------------------------------------------------------------------ labels *)
Definition cd (a : nat) : option letter := nth a [None; Some PX; Some PY; Some PZ] None.

Lemma pow4 n : 4 ^ n = 2 ^ (2 * n).
Proof. rewrite Nat.pow_mul_r. reflexivity. Qed.

Lemma pow4_pos n : 0 < 4 ^ n.
Proof. rewrite pow4. apply pow2_pos. Qed.

Lemma bits_SS n i : bits (2 * S n) i = bit_at (S (2 * n)) i :: bit_at (2 * n) i :: bits (2 * n) i.
Proof. replace (2 * S n) with (S (S (2 * n))) by lia. reflexivity. Qed.

Lemma label_step n a r : a < 4 -> r < 4 ^ n -> label (S n) (a * 4 ^ n + r) = cd a :: label n r.
Proof.
  intros Ha Hr. unfold label. rewrite bits_SS. cbn [decode]. rewrite pow4 in *.
  rewrite bits_add_high by exact Hr. f_equal.
  pose proof (pow2_pos (2 * n)) as Hp.
  assert (Hd : (a * 2 ^ (2 * n) + r) / 2 ^ (2 * n) = a).
  { rewrite Nat.div_add_l by lia. rewrite Nat.div_small by exact Hr. lia. }
  replace (S (2 * n)) with (1 + 2 * n) by lia. rewrite <- bit_at_div, Hd.
  replace (bit_at (2 * n) (a * 2 ^ (2 * n) + r)) with (bit_at 0 a)
    by (rewrite <- Hd at 1; rewrite bit_at_div; reflexivity).
  destruct a as [|[|[|[|]]]]; try lia; reflexivity.
Qed.

Lemma label_length n : forall i, List.length (label n i) = n.
Proof.
  induction n as [|n IH]; intro i; [reflexivity|].
  unfold label. rewrite bits_SS. cbn [decode List.length]. f_equal. apply IH.
Qed.

Lemma flip_bits_length lab : forall bs, List.length lab = List.length bs -> List.length (flip_bits lab bs) = List.length bs.
Proof.
  induction lab as [|a l IH]; intros [|b bs] H; cbn in *; try reflexivity; try discriminate.
  f_equal. apply IH. lia.
Qed.

Lemma bits_top n jb j : jb < 2 -> j < 2 ^ n -> bits (S n) (jb * 2 ^ n + j) = Nat.eqb jb 1 :: bits n j.
Proof.
  intros Hjb Hj. cbn [bits]. rewrite bits_add_high by exact Hj. f_equal.
  unfold bit_at. pose proof (pow2_pos n) as Hp.
  rewrite Nat.div_add_l by lia. rewrite Nat.div_small by exact Hj.
  destruct jb as [|[|]]; try lia; reflexivity.
Qed.

(* the dictionary of a label vector *)
Lemma lookup_ops_of lab : forall k q, lookup q (ops_of k lab) = if Nat.ltb q k then None else nth (q - k) lab None.
Proof.
  induction lab as [|[a|] r IH]; intros k q; cbn [ops_of lookup].
  - destruct (Nat.ltb q k); [reflexivity|]. destruct (q - k); reflexivity.
  - rewrite IH. destruct (Nat.eqb_spec q k) as [->|Hne].
    + rewrite Nat.ltb_irrefl, Nat.sub_diag. reflexivity.
    + destruct (Nat.ltb_spec q k) as [H1|H1]; destruct (Nat.ltb_spec q (S k)) as [H2|H2]; try lia; [reflexivity|].
      replace (q - k) with (S (q - S k)) by lia. reflexivity.
  - rewrite IH. destruct (Nat.ltb_spec q k) as [H1|H1]; destruct (Nat.ltb_spec q (S k)) as [H2|H2]; try lia; try reflexivity.
    + replace (q - k) with 0 by lia. reflexivity.
    + replace (q - k) with (S (q - S k)) by lia. reflexivity.
Qed.

Lemma ops_of_keys lab : forall k q, In q (keys (ops_of k lab)) -> k <= q < k + List.length lab.
Proof.
  induction lab as [|[a|] r IH]; intros k q H; cbn [ops_of keys map fst List.length] in *.
  - destruct H.
  - destruct H as [<-|H]; [lia|]. apply IH in H. lia.
  - apply IH in H. lia.
Qed.

Lemma ops_of_sorted lab : forall k, ops_sorted (ops_of k lab).
Proof.
  induction lab as [|[a|] r IH]; intro k; cbn [ops_of ops_sorted]; [exact I| |apply IH].
  split; [|apply IH]. intros k' Hk'. apply ops_of_keys in Hk'. lia.
Qed.

Section Expand.
  Variable K : cring.
  Add Ring Kring : (c_ring K).
  Local Open Scope cr_scope.
  Variable is_zero : K -> bool.
  Hypothesis is_zero_exact : forall c, is_zero c = true -> c = c0.
  Variable half : K.
  Hypothesis half_double : half + half = c1.

  (* the un-normalised trace and the entry of a string, on label vectors *)
  Definition T (n : nat) (M : Mat K) (lab : list (option letter)) : K :=
    rsum (2 ^ n) (fun j => M j (val (flip_bits lab (bits n j))) * nz_bits lab (bits n j)).
  Definition G (n : nat) (lab : list (option letter)) : Mat K := gprod n (fun q => nth q lab None).
  (* sum over all strings of coefficient * entry *)
  Definition E (n : nat) (M : Mat K) (x y : nat) : K :=
    rsum (4 ^ n) (fun i => hpow half n * T n M (label n i) * G n (label n i) x y).

  (* index of the non-zero entry / its value on one qubit, as functions of the top bit jb of the column *)
  Definition fl1 (a : option letter) (jb : nat) : nat := b2n (if is_flip a then negb (Nat.eqb jb 1) else Nat.eqb jb 1).
  Definition blk (n : nat) (M : Mat K) (r c : nat) : Mat K := fun u v => M (r * 2 ^ n + u)%nat (c * 2 ^ n + v)%nat.

  Lemma T_step n M a l : List.length l = n ->
    T (S n) M (a :: l) = rsum 2 (fun jb => nz1 a (Nat.eqb jb 1) * T n (blk n M jb (fl1 a jb)) l).
  Proof.
    intro Hl. unfold T. replace (2 ^ S n)%nat with (2 * 2 ^ n)%nat by (cbn; lia). rewrite rsum_prod.
    apply rsum_ext. intros jb Hjb. rewrite <- rsum_scale_l. apply rsum_ext. intros j Hj.
    rewrite bits_top by assumption. cbn [flip_bits nz_bits val].
    rewrite flip_bits_length by (rewrite bits_length; exact Hl). rewrite bits_length.
    unfold blk, fl1.
    match goal with |- context [M ?u ?v] => generalize (M u v) end. intro z. ring.
  Qed.

  Lemma G_step n a l x y : x < 2 ^ S n -> y < 2 ^ S n ->
    G (S n) (a :: l) x y = smat a (x / 2 ^ n)%nat (y / 2 ^ n)%nat * G n l (x mod 2 ^ n)%nat (y mod 2 ^ n)%nat.
  Proof.
    intros Hx Hy. unfold G. change (S n) with (1 + n)%nat at 1. rewrite gprod_split. pose proof (pow2_pos n) as Hp.
    rewrite gprod_one by (apply Nat.div_lt_upper_bound; [lia|]; cbn in Hx, Hy; lia). reflexivity.
  Qed.

  Lemma E_step n M x y : x < 2 ^ S n -> y < 2 ^ S n ->
    E (S n) M x y
    = rsum 4 (fun a => half * smat (cd a) (x / 2 ^ n)%nat (y / 2 ^ n)%nat *
                       rsum 2 (fun jb => nz1 (cd a) (Nat.eqb jb 1) *
                                         E n (blk n M jb (fl1 (cd a) jb)) (x mod 2 ^ n)%nat (y mod 2 ^ n)%nat)).
  Proof.
    intros Hx Hy. unfold E at 1. replace (4 ^ S n)%nat with (4 * 4 ^ n)%nat by (cbn; lia). rewrite rsum_prod.
    apply rsum_ext. intros a Ha.
    set (s := smat (cd a) (x / 2 ^ n)%nat (y / 2 ^ n)%nat).
    set (x' := (x mod 2 ^ n)%nat). set (y' := (y mod 2 ^ n)%nat).
    rewrite (rsum_ext K (4 ^ n) _
      (fun r => half * s * (nz1 (cd a) (Nat.eqb 0 1) * (hpow half n * T n (blk n M 0 (fl1 (cd a) 0)) (label n r) * G n (label n r) x' y')
                            + nz1 (cd a) (Nat.eqb 1 1) * (hpow half n * T n (blk n M 1 (fl1 (cd a) 1)) (label n r) * G n (label n r) x' y')))).
    - rewrite rsum_scale_l, rsum_add, !rsum_scale_l. unfold E. cbn [rsum]. ring.
    - intros r Hr. rewrite label_step by assumption.
      rewrite T_step by apply label_length. rewrite G_step by assumption.
      fold s x' y'. cbn [rsum hpow]. ring.
  Qed.

  (* the one-qubit statement, for an arbitrary 2x2 array B of scalars *)
  Lemma one_qubit (B : nat -> nat -> K) xb yb : xb < 2 -> yb < 2 ->
    rsum 4 (fun a => half * smat (cd a) xb yb * rsum 2 (fun jb => nz1 (cd a) (Nat.eqb jb 1) * B jb (fl1 (cd a) jb)))
    = B xb yb.
  Proof.
    intros Hx Hy. pose proof (i_sq K) as Hi.
    destruct xb as [|[|]]; try lia; destruct yb as [|[|]]; try lia;
      cbn [rsum cd nth smat sigma nz1 fl1 is_flip negb Nat.eqb b2n Bool.eqb].
    - transitivity ((half + half) * B 0%nat 0%nat); [ring|rewrite half_double; ring].
    - transitivity (half * B 0%nat 1%nat + half * B 1%nat 0%nat - (ci * ci) * half * B 0%nat 1%nat + (ci * ci) * half * B 1%nat 0%nat); [ring|].
      rewrite Hi. transitivity ((half + half) * B 0%nat 1%nat); [ring|rewrite half_double; ring].
    - transitivity (half * B 0%nat 1%nat + half * B 1%nat 0%nat + (ci * ci) * half * B 0%nat 1%nat - (ci * ci) * half * B 1%nat 0%nat); [ring|].
      rewrite Hi. transitivity ((half + half) * B 1%nat 0%nat); [ring|rewrite half_double; ring].
    - transitivity ((half + half) * B 1%nat 1%nat); [ring|rewrite half_double; ring].
  Qed.

  Theorem E_id n : forall (M : Mat K) x y, x < 2 ^ n -> y < 2 ^ n -> E n M x y = M x y.
  Proof.
    induction n as [|n IH]; intros M x y Hx Hy.
    - cbn in Hx, Hy. replace x with 0%nat by lia. replace y with 0%nat by lia.
      unfold E, T, G, gprod. cbn. ring.
    - rewrite E_step by assumption. pose proof (pow2_pos n) as Hp.
      set (x' := (x mod 2 ^ n)%nat). set (y' := (y mod 2 ^ n)%nat).
      assert (Hx' : x' < 2 ^ n) by (apply Nat.mod_upper_bound; lia).
      assert (Hy' : y' < 2 ^ n) by (apply Nat.mod_upper_bound; lia).
      rewrite (rsum_ext K 4 _ (fun a => half * smat (cd a) (x / 2 ^ n)%nat (y / 2 ^ n)%nat *
                  rsum 2 (fun jb => nz1 (cd a) (Nat.eqb jb 1) * (fun r c => M (r * 2 ^ n + x')%nat (c * 2 ^ n + y')%nat) jb (fl1 (cd a) jb)))).
      + rewrite (one_qubit (fun r c => M (r * 2 ^ n + x')%nat (c * 2 ^ n + y')%nat))
          by (apply Nat.div_lt_upper_bound; [lia|]; cbn in Hx, Hy; lia).
        unfold x', y'. f_equal; rewrite Nat.mul_comm; symmetry; apply Nat.div_mod; lia.
      + intros a _. f_equal. apply rsum_ext. intros jb _. rewrite IH by assumption. reflexivity.
  Qed.

  (* ---------------------------------------------------------------- get_pauliop_from_matrix *)
  Lemma label_term_den n M i x y :
    den n (label_term half n M i) x y = hpow half n * T n M (label n i) * G n (label n i) x y.
  Proof.
    unfold den, label_term. cbn [coef tops]. unfold trace_product. fold (T n M (label n i)).
    rewrite pprod_gprod. unfold G. f_equal. apply gprod_ext. intros q _.
    rewrite lookup_ops_of. cbn [Nat.ltb Nat.leb]. rewrite Nat.sub_0_r. reflexivity.
  Qed.

  Lemma from_matrix_den n M x y : sden n (from_matrix is_zero half n M) x y = E n M x y.
  Proof.
    unfold from_matrix. rewrite (fold_add_den K is_zero is_zero_exact). unfold sden at 1. cbn [lsum].
    rewrite <- rsum_seq. unfold E.
    transitivity (rsum (4 ^ n) (fun i => den n (label_term half n M i) x y)); [ring|].
    apply rsum_ext. intros i _. apply label_term_den.
  Qed.

  (* expanding in the Pauli basis and taking the matrix of the result reproduces the matrix *)
  Theorem expansion_roundtrip n (M : Mat K) : mat_eq (2 ^ n) (sden n (from_matrix is_zero half n M)) M.
  Proof. intros x y Hx Hy. rewrite from_matrix_den. apply E_id; assumption. Qed.

  Lemma label_term_ok n M i : term_ok n (label_term half n M i).
  Proof.
    split; cbn [label_term tops].
    - apply ops_of_sorted.
    - intros q Hq. apply ops_of_keys in Hq. rewrite label_length in Hq. lia.
  Qed.

  Lemma from_matrix_ok n M : sum_ok n (from_matrix is_zero half n M).
  Proof. unfold from_matrix. apply fold_add_ok; [constructor|]. intros i _. apply label_term_ok. Qed.

  Lemma from_matrix_simplified n M : distinct_ops (from_matrix is_zero half n M).
  Proof. unfold from_matrix. apply fold_add_simplified. constructor. Qed.

  (* ... and so does get_sparse_operator on the result *)
  Theorem expansion_roundtrip_sparse (nzb : K -> bool) :
    (forall x, nzb x = false -> x = c0) -> nzb c0 = false ->
    forall n (M : Mat K), exists A, get_sparse nzb (from_matrix is_zero half n M) n = Some A /\ mat_eq (2 ^ n) A M.
  Proof.
    intros nzb_false nzb_zero n M.
    pose proof (from_matrix_ok n M) as Hok. apply (sum_ok_width K) in Hok. destruct Hok as [Hs Hw].
    destruct (get_sparse_den K nzb nzb_false nzb_zero n _ Hs Hw) as [A [E1 HA]]. exists A. split; [exact E1|].
    intros x y Hx Hy. rewrite HA by assumption. apply expansion_roundtrip; assumption.
  Qed.
End Expand.
