(* C16: composition over terms and steps, completeness of the enumeration used by evolve_term_small,
   the parameter-shift rule, and the shape of the derivative circuits. *)
Require Import Coq.Reals.Reals Coq.Lists.List Coq.Arith.Arith Coq.Bool.Bool Coq.micromega.Lia Coq.micromega.Lra
        Coq.QArith.QArith Coq.QArith.Qabs Coq.nsatz.Nsatz.
Require Import OQ.Base.Ring OQ.Base.Mat OQ.Pauli.Algebra OQ.Circ.Circuit OQ.Circ.CircuitProofs
        OQ.Pauli.Evolution OQ.Pauli.EvolutionSem OQ.Pauli.EvolutionSmall.
Import ListNotations.

(* ------------------------------------------------------------------ concatenated circuits compose in order *)
Section Compose.
  Variable K : cring.
  Variable P : Type.
  Variable G : gmats K.
  Variable rz : P -> Mat K.

  Lemma esem_concat n (cs : list (list (eop P))) :
    mat_eq (2 ^ n) (esem G rz n (List.concat cs)) (prog_prod (2 ^ n) (map (esem G rz n) cs)).
  Proof.
    induction cs as [|c cs IH]; cbn [List.concat map prog_prod]; [apply mat_eq_refl|].
    eapply mat_eq_trans; [apply esem_app|]. apply mmul_compat; [exact IH|apply mat_eq_refl].
  Qed.
End Compose.

Lemma concat_opt_some {A} (l : list (option (list A))) (cs : list (list A)) :
  l = map Some cs -> concat_opt l = Some (List.concat cs).
Proof.
  intros ->. induction cs as [|c cs IH]; cbn [map concat_opt List.concat]; [reflexivity|]. rewrite IH. reflexivity.
Qed.

Lemma concat_opt_none {A} (l : list (option (list A))) : In None l -> concat_opt l = None.
Proof.
  induction l as [|x l IH]; intro H; [destruct H|]. destruct H as [H|H]; cbn [concat_opt].
  - subst x. reflexivity.
  - destruct x; [rewrite (IH H); reflexivity|reflexivity].
Qed.

(* time_evolution = for every step, for every term in the listed order, the term's circuit for time/steps *)
Lemma time_evolution_blocks (h : list hterm) (time : Q) (steps : nat) (cs : list (list (eop Q))) :
  map (fun tm => evolve_term tm (time / inject_Z (Z.of_nat steps))%Q) h = map Some cs ->
  time_evolution h time steps = Some (List.concat (flat_map (fun _ => cs) (seq 0 steps))).
Proof.
  intro H. unfold time_evolution. apply concat_opt_some.
  induction (seq 0 steps) as [|x r IH]; cbn [flat_map map]; [reflexivity|]. rewrite map_app, <- IH, H. reflexivity.
Qed.

Lemma time_evolution_rejects (h : list hterm) (time : Q) (steps : nat) :
  (0 < steps)%nat -> In HImag h -> time_evolution h time steps = None.
Proof.
  intros Hs Hin. unfold time_evolution. apply concat_opt_none.
  destruct steps as [|s]; [lia|]. cbn [seq flat_map]. apply in_or_app. left.
  apply in_map_iff. exists HImag. split; [reflexivity|exact Hin].
Qed.

(* ------------------------------------------------------------------ the enumeration all_ops is complete *)
Fixpoint keys_from (q : nat) (l : ops) : Prop :=
  match l with
  | [] => True
  | (k, _) :: r => (q <= k)%nat /\ keys_from (S k) r
  end.

Lemma all_ops_from_complete m : forall q l, keys_from q l -> (forall k, In k (keys l) -> (k < q + m)%nat) ->
  In l (all_ops_from q m).
Proof.
  induction m as [|m IH]; intros q l Hs Hb.
  - destruct l as [|[k a] r]; [left; reflexivity|]. exfalso. cbn [keys_from] in Hs. destruct Hs as [Hq _].
    specialize (Hb k (or_introl eq_refl)). lia.
  - cbn [all_ops_from]. apply in_or_app.
    destruct l as [|[k a] r].
    + left. apply IH; [exact I|intros k []].
    + cbn [keys_from] in Hs. destruct Hs as [Hq Hr].
      destruct (Nat.eq_dec k q) as [->|Hne].
      * right. apply in_flat_map. exists r. split.
        { apply IH; [exact Hr|]. intros k Hk. specialize (Hb k (or_intror Hk)). lia. }
        { destruct a; cbn [In]; auto. }
      * left. apply IH; [cbn [keys_from]; split; [lia|exact Hr]|].
        intros k' Hk'. specialize (Hb k' Hk'). lia.
Qed.

(* every non-empty operator dictionary, sorted by qubit with distinct qubits below n, is enumerated *)
Lemma all_ops_complete n l : keys_from 0 l -> (forall k, In k (keys l) -> (k < n)%nat) -> l <> [] -> In l (all_ops n).
Proof.
  intros Hs Hb Hne. unfold all_ops. apply filter_In. split.
  - apply all_ops_from_complete; [exact Hs|exact Hb].
  - destruct l; [congruence|reflexivity].
Qed.

(* ------------------------------------------------------------------ the parameter-shift rule *)
Open Scope R_scope.

(* every expectation value under exp(-i theta P) has the form a cos^2 + b sin^2 + d sin cos;
   its derivative is the difference of its values at theta + pi/4 and theta - pi/4 *)
Lemma param_shift (a b d theta : R) :
  derivable_pt_lim (fun x => a * (cos x * cos x) + b * (sin x * sin x) + d * (sin x * cos x)) theta
    ((a * (cos (theta + PI / 4) * cos (theta + PI / 4)) + b * (sin (theta + PI / 4) * sin (theta + PI / 4))
      + d * (sin (theta + PI / 4) * cos (theta + PI / 4)))
     - (a * (cos (theta - PI / 4) * cos (theta - PI / 4)) + b * (sin (theta - PI / 4) * sin (theta - PI / 4))
        + d * (sin (theta - PI / 4) * cos (theta - PI / 4)))).
Proof.
  assert (Hd : derivable_pt_lim (fun x => a * (cos x * cos x) + b * (sin x * sin x) + d * (sin x * cos x)) theta
                 (a * (- sin theta * cos theta + cos theta * - sin theta) + b * (cos theta * sin theta + sin theta * cos theta)
                  + d * (cos theta * cos theta + sin theta * - sin theta))).
  { apply (derivable_pt_lim_plus (fun x => a * (cos x * cos x) + b * (sin x * sin x)) (fun x => d * (sin x * cos x))).
    - apply (derivable_pt_lim_plus (fun x => a * (cos x * cos x)) (fun x => b * (sin x * sin x))).
      + apply (derivable_pt_lim_scal (fun x => cos x * cos x) a).
        apply (derivable_pt_lim_mult cos cos); apply derivable_pt_lim_cos.
      + apply (derivable_pt_lim_scal (fun x => sin x * sin x) b).
        apply (derivable_pt_lim_mult sin sin); apply derivable_pt_lim_sin.
    - apply (derivable_pt_lim_scal (fun x => sin x * cos x) d).
      apply (derivable_pt_lim_mult sin cos); [apply derivable_pt_lim_sin|apply derivable_pt_lim_cos]. }
  replace ((a * (cos (theta + PI / 4) * cos (theta + PI / 4)) + b * (sin (theta + PI / 4) * sin (theta + PI / 4))
            + d * (sin (theta + PI / 4) * cos (theta + PI / 4)))
           - (a * (cos (theta - PI / 4) * cos (theta - PI / 4)) + b * (sin (theta - PI / 4) * sin (theta - PI / 4))
              + d * (sin (theta - PI / 4) * cos (theta - PI / 4))))
    with (a * (- sin theta * cos theta + cos theta * - sin theta) + b * (cos theta * sin theta + sin theta * cos theta)
          + d * (cos theta * cos theta + sin theta * - sin theta)); [exact Hd|].
  unfold Rminus. rewrite !cos_plus, !sin_plus, cos_neg, sin_neg, cos_PI4, sin_PI4.
  pose proof OQ.Gates.Trig.isq2_sq as Hh. set (h := 1 / sqrt 2) in *. clearbody h.
  pose proof (OQ.Gates.Trig.pyth theta) as Hp. set (c := cos theta) in *. set (s := sin theta) in *. clearbody c s.
  nsatz.
Qed.

(* ------------------------------------------------------------------ E_P(theta) = cos(theta) I - i sin(theta) P is the
   one-parameter group generated by -i P:  P.P = I,  E_P(0) = I,  E_P(a).E_P(b) = E_P(a+b),  d/dtheta E_P at 0 = -i P
   (these determine exp(-i theta P); the matrix exponential series itself is not formalised) *)
Close Scope R_scope.
Require Import OQ.Base.Sums OQ.Base.Bits OQ.Base.MatLin OQ.Pauli.Den OQ.Pauli.TablesProofs OQ.Pauli.DenProofs OQ.Gates.CR
        Coq.setoid_ring.Ring.

Section PauliSquare.
  Variable K : cring.
  Add Ring Kr : (c_ring K).
  Local Open Scope cr_scope.

  Lemma letter_eqb_refl a : letter_eqb a a = true.
  Proof. destruct a; reflexivity. Qed.

  Lemma dmul_self l : dmul l l = map (fun _ => None) l.
  Proof.
    induction l as [|a r IH]; cbn [dmul map]; [reflexivity|]. rewrite IH. f_equal.
    destruct a as [x|]; cbn [omul]; [rewrite letter_eqb_refl|]; reflexivity.
  Qed.

  Lemma dphase_self l : dphase K l l = c1.
  Proof.
    induction l as [|a r IH]; cbn [dphase]; [reflexivity|]. rewrite IH.
    destruct a as [x|]; cbn [ophase]; [rewrite letter_eqb_refl|]; ring.
  Qed.

  Lemma smat_none_eye : mat_eq 2 (@smat K None) eye.
  Proof.
    intros i j Hi Hj. unfold smat, eye. cbn [sigma].
    destruct i as [|[|i]]; [| |lia]; (destruct j as [|[|j]]; [| |lia]); reflexivity.
  Qed.

  Lemma dmat_none_eye {A} (l : list A) :
    mat_eq (2 ^ List.length l) (@dmat K (map (fun _ => None) l)) eye.
  Proof.
    induction l as [|x l IH]; cbn [map dmat List.length].
    - intros i j Hi Hj. change (2 ^ 0)%nat with 1%nat in *. assert (i = 0%nat) by lia. assert (j = 0%nat) by lia. subst. reflexivity.
    - rewrite map_length. pose proof (pow2_pos (List.length l)) as Hp.
      change (2 ^ S (List.length l))%nat with (2 * 2 ^ List.length l)%nat.
      eapply mat_eq_trans; [apply kron_compat; [exact Hp|exact smat_none_eye|exact IH]|].
      intros i j _ _. apply kron_eye. exact Hp.
  Qed.

  (* every Pauli string squares to the identity *)
  Lemma pprod_sq n l : mat_eq (2 ^ n) (mmul (2 ^ n) (@pprod K n l) (@pprod K n l)) eye.
  Proof.
    pose proof (pprod_dmat K n l) as Hd. pose proof (dense_length n l) as Hl.
    eapply mat_eq_trans; [apply mmul_compat; exact Hd|].
    rewrite <- Hl at 1 2. eapply mat_eq_trans; [apply (dmat_mul K); reflexivity|].
    rewrite dmul_self, dphase_self.
    intros i j Hi Hj. unfold mscale. rewrite (dmat_none_eye (dense n l) i j Hi Hj). ring.
  Qed.

  (* (c I + s P)(c' I + s' P) = (c c' + s s') I + (c s' + s c') P   when P.P = I *)
  Lemma affine_product d (Pm : Mat K) (c s c' s' : K) : mat_eq d (mmul d Pm Pm) eye ->
    mat_eq d (mmul d (madd (mscale c eye) (mscale s Pm)) (madd (mscale c' eye) (mscale s' Pm)))
             (madd (mscale (c * c' + s * s') eye) (mscale (c * s' + s * c') Pm)).
  Proof.
    intros Hsq i j Hi Hj. unfold mmul at 1. unfold madd, mscale.
    rewrite (rsum_ext K d _ (fun k => c * c' * (eye i k * eye k j) + c * s' * (eye i k * Pm k j)
                                     + s * c' * (Pm i k * eye k j) + s * s' * (Pm i k * Pm k j)))
      by (intros; ring).
    rewrite !rsum_add, !rsum_scale_l.
    change (rsum d (fun k => eye i k * eye k j)) with (mmul (K:=K) d eye eye i j).
    change (rsum d (fun k => eye i k * Pm k j)) with (mmul (K:=K) d eye Pm i j).
    change (rsum d (fun k => Pm i k * eye k j)) with (mmul (K:=K) d Pm eye i j).
    change (rsum d (fun k => Pm i k * Pm k j)) with (mmul (K:=K) d Pm Pm i j).
    rewrite !(mmul_eye_l K d _ i j Hi), (mmul_eye_r K d _ i j Hj), (Hsq i j Hi Hj). ring.
  Qed.
End PauliSquare.

Open Scope R_scope.

Lemma E_P_zero n l : mat_eq (2 ^ n) (E_P n l 0) eye.
Proof.
  intros i j Hi Hj. unfold E_P, madd, mscale, cphase, sphase. rewrite cos_0, sin_0.
  cbv [cadd cmul CRring cradd crmul fst snd]. destruct (eye i j) as [a b], (pprod n l i j) as [p q]. cbn [fst snd].
  apply OQ.Gates.Trig.pair_eq; ring.
Qed.

Lemma E_P_group n l a b : mat_eq (2 ^ n) (mmul (2 ^ n) (E_P n l a) (E_P n l b)) (E_P n l (a + b)).
Proof.
  unfold E_P. eapply mat_eq_trans; [apply (affine_product CRring); apply (pprod_sq CRring)|].
  apply madd_compat; intros i j _ _; unfold mscale; f_equal; unfold cphase, sphase;
    cbv [cadd cmul CRring cradd crmul fst snd]; rewrite ?cos_plus, ?sin_plus; apply OQ.Gates.Trig.pair_eq; ring.
Qed.

(* the generator: E_P(theta) = c(theta) I + s(theta) P entrywise, with c = cos, s = -i sin, c'(0) = 0 and s'(0) = -i,
   so d/dtheta E_P at 0 is -i P *)
Lemma E_P_generator n l :
  (forall theta i j, E_P n l theta i j
                     = cradd (crmul (cos theta, 0) (eye (K:=CRring) i j)) (crmul (0, - sin theta) (pprod (K:=CRring) n l i j))) /\
  derivable_pt_lim cos 0 0 /\ derivable_pt_lim (fun x => - sin x) 0 (-1).
Proof.
  split; [intros; reflexivity|]. split.
  - replace 0 with (- sin 0) at 2 by (rewrite sin_0; ring). apply derivable_pt_lim_cos.
  - replace (-1) with (- cos 0) by (rewrite cos_0; ring). apply (derivable_pt_lim_opp sin). apply derivable_pt_lim_sin.
Qed.

(* C16 first clause as stated in the property: every Pauli string on at most three qubits (gaps included), all angles *)
Theorem evolve_term_small_all : forall n l, (1 <= n <= 3)%nat ->
  keys_from 0 l -> (forall k, In k (keys l) -> (k < n)%nat) -> l <> [] -> forall theta : R,
  mat_eq (2 ^ n) (to_unitary n (map (eapp gates_cr cr_RZ) (evolve_ops l (2 * theta)))) (E_P n l theta).
Proof.
  intros n l Hn Hs Hb Hne theta. apply evolve_term_small.
  - destruct n as [|[|[|[|n]]]]; cbn [In]; try lia; auto.
  - apply all_ops_complete; assumption.
Qed.
