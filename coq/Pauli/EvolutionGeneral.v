(* C16, first clause, for EVERY register width n and every Pauli string l (sorted distinct qubits below n), all real angles:
      U(time_evolution_for_term(c P, t)) = cos(tc) I - i sin(tc) P   ( = exp(-i t c P) ).
   The circuit is  pre ; RZ(2 t c) on the last qubit ; post.  As in EvolutionSmall.v the statement follows from
      (A) U(post) U(pre) = I          (B) U(post) Z_q U(pre) = P
   which are proved here for all n and l:
     (A) post is the gate-by-gate inverse of pre, reversed;
     (B) with product-form matrices (ProductForm.v): the CNOT ladder turns Z on the last qubit into Z on every qubit
         of the string (CNOT (I (x) Z) CNOT = Z (x) Z), the basis changes turn Z into X (H Z H) and Y (RX(pi/2)^+ Z RX(pi/2)). *)
Require Import Coq.Reals.Reals Coq.Lists.List Coq.Arith.Arith Coq.Bool.Bool Coq.micromega.Lia Coq.micromega.Lra
        Coq.setoid_ring.Ring Coq.nsatz.Nsatz Coq.Classes.Morphisms Coq.Classes.RelationClasses Coq.Setoids.Setoid.
Require Import OQ.Base.Ring OQ.Base.Sums OQ.Base.Bits OQ.Base.Mat OQ.Base.MatLin OQ.Gates.CR OQ.Gates.Trig
        OQ.Gen.GatesGen OQ.Pauli.Algebra OQ.Pauli.Den OQ.Circ.Lift OQ.Circ.LiftProofs OQ.Circ.LiftAlgebra
        OQ.Circ.Circuit OQ.Circ.CircuitProofs OQ.Pauli.Evolution OQ.Pauli.EvolutionSem OQ.Pauli.EvolutionSmall
        OQ.Pauli.EvolutionProofs OQ.Pauli.ProductForm.
Import ListNotations.

(* ------------------------------------------------------------------ rewriting modulo mat_eq *)
Global Instance mat_eq_Equivalence (K : cring) d : Equivalence (@mat_eq K d).
Proof.
  split; [intro A; apply mat_eq_refl|intros A B; apply mat_eq_sym|intros A B C; apply mat_eq_trans].
Qed.

Global Instance mmul_Proper (K : cring) d : Proper (@mat_eq K d ==> @mat_eq K d ==> @mat_eq K d) (@mmul K d).
Proof. intros A A' HA B B' HB. apply mmul_compat; assumption. Qed.

Section MatEq.
  Variable K : cring.
  Lemma mmul_assoc_eq d (A B C : Mat K) : mat_eq d (mmul d (mmul d A B) C) (mmul d A (mmul d B C)).
  Proof. intros i j _ _. apply mmul_assoc. Qed.
  Lemma mmul_eye_l_eq d (A : Mat K) : mat_eq d (mmul d eye A) A.
  Proof. intros i j Hi _. apply mmul_eye_l. exact Hi. Qed.
  Lemma mmul_eye_r_eq d (A : Mat K) : mat_eq d (mmul d A eye) A.
  Proof. intros i j _ Hj. apply mmul_eye_r. exact Hj. Qed.
End MatEq.

(* ------------------------------------------------------------------ semantics of short circuits *)
Section SemLemmas.
  Variable K : cring.
  Variable P : Type.
  Variable G : gmats K.
  Variable rz : P -> Mat K.

  Lemma esem_nil n : esem G rz n [] = eye.
  Proof. reflexivity. Qed.

  Lemma esem_cons n o c : esem G rz n (o :: c) = mmul (2 ^ n) (esem G rz n c) (espec G rz n o).
  Proof. reflexivity. Qed.

  Lemma esem_single n o : mat_eq (2 ^ n) (esem G rz n [o]) (espec G rz n o).
  Proof. rewrite esem_cons, esem_nil. apply mmul_eye_l_eq. Qed.

  Lemma esem_snoc n c o : mat_eq (2 ^ n) (esem G rz n (c ++ [o])) (mmul (2 ^ n) (espec G rz n o) (esem G rz n c)).
  Proof. rewrite esem_app. rewrite esem_single. reflexivity. Qed.
End SemLemmas.

(* ------------------------------------------------------------------ sorted keys *)
Fixpoint incr_from (q : nat) (ks : list nat) : Prop :=
  match ks with
  | [] => True
  | k :: r => (q <= k)%nat /\ incr_from (S k) r
  end.

Lemma keys_from_incr q l : keys_from q l -> incr_from q (keys l).
Proof.
  revert q. induction l as [|[k a] r IH]; intros q H; cbn [keys map fst incr_from]; [exact I|].
  cbn [keys_from] in H. destruct H as [H1 H2]. split; [exact H1|]. apply IH. exact H2.
Qed.

Lemma incr_from_ge q ks k : incr_from q ks -> In k ks -> (q <= k)%nat.
Proof.
  revert q. induction ks as [|x r IH]; intros q H Hin; [destruct Hin|]. cbn [incr_from] in H. destruct H as [H1 H2].
  destruct Hin as [->|Hin]; [exact H1|]. specialize (IH (S x) H2 Hin). lia.
Qed.

Lemma incr_from_NoDup q ks : incr_from q ks -> NoDup ks.
Proof.
  revert q. induction ks as [|x r IH]; intros q H; [constructor|]. cbn [incr_from] in H. destruct H as [H1 H2].
  constructor; [|apply (IH (S x)); exact H2]. intro Hin. pose proof (incr_from_ge _ _ _ H2 Hin). lia.
Qed.

Lemma last_In (ks : list nat) d : ks <> [] -> In (last ks d) ks.
Proof.
  induction ks as [|x r IH]; intro H; [congruence|]. destruct r as [|y r']; [left; reflexivity|].
  right. apply IH. discriminate.
Qed.

Lemma lookup_some_mem q l a : lookup q l = Some a -> mem q (keys l) = true.
Proof.
  induction l as [|[k b] r IH]; cbn [lookup keys map fst]; [discriminate|]. intro H. rewrite mem_cons.
  destruct (Nat.eqb q k); [reflexivity|]. apply IH. exact H.
Qed.

Lemma lookup_none_mem q l : lookup q l = None -> mem q (keys l) = false.
Proof.
  induction l as [|[k b] r IH]; cbn [lookup keys map fst]; [reflexivity|]. intro H. rewrite mem_cons.
  destruct (Nat.eqb q k); [discriminate|]. apply IH. exact H.
Qed.

(* ------------------------------------------------------------------ the gate-level inverse and the shape of the circuit *)
Section Shape.
  Variable P : Type.

  Definition einv (o : eop P) : eop P :=
    (match fst o with EH => EH | ERXh => ERXhd | ERXhd => ERXh | ECNOT => ECNOT | ERZ a => ERZ a end, snd o).

  Lemma einv_ladder ks : map einv (cnot_ladder (P:=P) ks) = cnot_ladder ks.
  Proof.
    induction ks as [|a r IH]; [reflexivity|]. destruct r as [|b r']; [reflexivity|].
    change (cnot_ladder (P:=P) (a :: b :: r')) with ((ECNOT, [a; b]) :: cnot_ladder (P:=P) (b :: r')).
    cbn [map]. rewrite IH. reflexivity.
  Qed.

  Lemma einv_basis_change l : rev (map einv (basis_change (P:=P) l)) = basis_change_inv l.
  Proof.
    unfold basis_change_inv. f_equal. unfold basis_change.
    induction l as [|[k a] r IH]; [reflexivity|]. cbn [flat_map]. rewrite map_app.
    f_equal; [destruct a; reflexivity|exact IH].
  Qed.

  Lemma post_is_inverse l : evolve_post (P:=P) l = rev (map einv (evolve_pre l)).
  Proof.
    unfold evolve_post, evolve_pre. rewrite map_app, rev_app_distr, einv_ladder, einv_basis_change. reflexivity.
  Qed.

  (* the operations of pre: H / RX(pi/2) on one qubit of the register, CNOT on two different ones *)
  Definition wfpre (n : nat) (o : eop P) : Prop :=
    match fst o, snd o with
    | EH, [k] => (k < n)%nat
    | ERXh, [k] => (k < n)%nat
    | ECNOT, [a; b] => (a < n)%nat /\ (b < n)%nat /\ a <> b
    | _, _ => False
    end.

  Lemma wfpre_basis_change n l : Forall (fun k => (k < n)%nat) (keys l) -> Forall (wfpre n) (basis_change (P:=P) l).
  Proof.
    unfold basis_change. induction l as [|[k a] r IH]; intro H; [constructor|].
    cbn [keys map fst] in H. inversion H as [|? ? Hk Hr]; subst. cbn [flat_map snd fst].
    apply Forall_app. split; [|apply IH; exact Hr].
    destruct a; repeat constructor; exact Hk.
  Qed.

  Lemma wfpre_ladder n ks : forall q, incr_from q ks -> Forall (fun k => (k < n)%nat) ks ->
    Forall (wfpre n) (cnot_ladder (P:=P) ks).
  Proof.
    induction ks as [|a r IH]; intros q Hs Hb; [constructor|]. destruct r as [|b r']; [constructor|].
    change (cnot_ladder (P:=P) (a :: b :: r')) with ((ECNOT, [a; b]) :: cnot_ladder (P:=P) (b :: r')).
    cbn [incr_from] in Hs. destruct Hs as [_ [Hab Hs]].
    inversion Hb as [|? ? Ha Hb']; subst. inversion Hb' as [|? ? Hbn _]; subst.
    constructor.
    - unfold wfpre. cbn [fst snd]. repeat split; [exact Ha|exact Hbn|lia].
    - apply (IH (S a)); [cbn [incr_from]; split; [exact Hab|exact Hs]|exact Hb'].
  Qed.

  Lemma wfpre_pre n l : keys_from 0 l -> Forall (fun k => (k < n)%nat) (keys l) -> Forall (wfpre n) (evolve_pre (P:=P) l).
  Proof.
    intros Hs Hb. unfold evolve_pre. apply Forall_app. split.
    - apply wfpre_basis_change. exact Hb.
    - apply (wfpre_ladder n (keys l) 0); [apply keys_from_incr; exact Hs|exact Hb].
  Qed.

  Lemma wfpre_wf_gate {K : cring} (G : gmats K) (rz : P -> Mat K) n o : wfpre n o ->
    wf_gate n (eapp G rz o) /\ wf_gate n (eapp G rz (einv o)).
  Proof.
    destruct o as [g qs]. unfold wfpre, wf_gate, eapp, einv. cbn [fst snd g_qs]. intro H.
    destruct g; try contradiction; destruct qs as [|a [|b [|c qs]]]; try contradiction.
    - split; (split; [discriminate|split; [repeat constructor; intros []|repeat constructor; exact H]]).
    - split; (split; [discriminate|split; [repeat constructor; intros []|repeat constructor; exact H]]).
    - destruct H as (Ha & Hb & Hab).
      split; (split; [discriminate|split; [|repeat constructor; assumption]]);
        (constructor; [intros [E|[]]; congruence|repeat constructor; intros []]).
  Qed.
End Shape.

Arguments einv {P}. Arguments wfpre {P}.

(* ------------------------------------------------------------------ the gate matrices: inverses and conjugations of Z *)
Open Scope R_scope.

Lemma isq2_pow2 : (/ sqrt 2) ^ 2 = / 2.
Proof. pose proof isq2_sq' as H. simpl. lra. Qed.

Ltac gate_leaf := first [lra | unfold Rdiv; ring_simplify; rewrite ?isq2_pow2; lra].

(* OQ.Base.Ring.cadd: plain [cadd] is Circuit.cadd here *)
Ltac gate_entries :=
  cbv [mmul rsum adj kron smat sigma cr_H cr_RXh cr_CNOT cr_Z h_matrix rx_matrix cnot_matrix z_matrix of_list List.nth eye
       Nat.eqb Bool.eqb OQ.Base.Ring.cadd cmul copp cconj c0 c1 ci CRring cradd crmul cropp crconj cr0 cr1 cri fst snd
       Nat.div Nat.modulo Nat.divmod Nat.sub];
  rewrite ?quarter, ?cos_PI4, ?sin_PI4; apply pair_eq; gate_leaf.

Ltac four_by_four i j Hi Hj :=
  destruct i as [|[|[|[|i]]]]; [| | | |lia]; (destruct j as [|[|[|[|j]]]]; [| | | |lia]).

Lemma cr_HH : mat_eq 2 (mmul 2 cr_H cr_H) eye.
Proof. intros i j Hi Hj. two_by_two i j Hi Hj; gate_entries. Qed.

Lemma cr_RXhd_RXh : mat_eq 2 (mmul 2 (adj cr_RXh) cr_RXh) eye.
Proof. intros i j Hi Hj. two_by_two i j Hi Hj; gate_entries. Qed.

Lemma cr_CNOT_CNOT : mat_eq 4 (mmul 4 cr_CNOT cr_CNOT) eye.
Proof. intros i j Hi Hj. four_by_four i j Hi Hj; gate_entries. Qed.

Lemma cr_HZH : mat_eq 2 (mmul 2 cr_H (mmul 2 cr_Z cr_H)) (smat (K:=CRring) (Some PX)).
Proof. intros i j Hi Hj. two_by_two i j Hi Hj; gate_entries. Qed.

Lemma cr_RZR : mat_eq 2 (mmul 2 (adj cr_RXh) (mmul 2 cr_Z cr_RXh)) (smat (K:=CRring) (Some PY)).
Proof. intros i j Hi Hj. two_by_two i j Hi Hj; gate_entries. Qed.

Lemma cr_Z_smat : mat_eq 2 cr_Z (smat (K:=CRring) (Some PZ)).
Proof. intros i j Hi Hj. two_by_two i j Hi Hj; gate_entries. Qed.

(* CNOT (I (x) Z) CNOT = Z (x) Z *)
Lemma cr_CNOT_IZ : mat_eq 4 (mmul 4 cr_CNOT (mmul 4 (kron 2 eye cr_Z) cr_CNOT)) (kron 2 cr_Z cr_Z).
Proof. intros i j Hi Hj. four_by_four i j Hi Hj; gate_entries. Qed.

Close Scope R_scope.

(* ------------------------------------------------------------------ (A): post . pre = I *)
Notation sem := (esem gates_cr cr_RZ).
Notation spec := (espec gates_cr cr_RZ).

Lemma spec_inverse n (o : eop R) : wfpre n o -> mat_eq (2 ^ n) (mmul (2 ^ n) (spec n (einv o)) (spec n o)) eye.
Proof.
  destruct o as [g qs]. unfold wfpre, espec, einv. cbn [fst snd]. intro H.
  destruct g; try contradiction; destruct qs as [|a [|b [|c qs]]]; try contradiction;
    cbn [emat gates_cr mH mRXh mRXhd mCNOT].
  - eapply mat_eq_trans; [apply (lift_mul CRring); [repeat constructor; intros []|repeat constructor; exact H]|].
    eapply mat_eq_trans; [apply (lift_compat CRring); exact cr_HH|]. apply (lift_eye CRring).
  - eapply mat_eq_trans; [apply (lift_mul CRring); [repeat constructor; intros []|repeat constructor; exact H]|].
    eapply mat_eq_trans; [apply (lift_compat CRring); exact cr_RXhd_RXh|]. apply (lift_eye CRring).
  - destruct H as (Ha & Hb & Hab).
    eapply mat_eq_trans; [apply (lift_mul CRring); [|repeat constructor; assumption]|].
    { constructor; [intros [E|[]]; congruence|repeat constructor; intros []]. }
    eapply mat_eq_trans; [apply (lift_compat CRring); exact cr_CNOT_CNOT|]. apply (lift_eye CRring).
Qed.

Lemma sem_inverse n (c : list (eop R)) : Forall (wfpre n) c ->
  mat_eq (2 ^ n) (mmul (2 ^ n) (sem n (rev (map einv c))) (sem n c)) eye.
Proof.
  induction 1 as [|o r Ho Hr IH]; cbn [map rev].
  - rewrite esem_nil. apply mmul_eye_l_eq.
  - rewrite esem_snoc, esem_cons.
    rewrite mmul_assoc_eq. rewrite <- (mmul_assoc_eq CRring _ (sem n (rev (map einv r)))).
    rewrite IH, mmul_eye_l_eq. apply spec_inverse. exact Ho.
Qed.

Theorem evolve_A_all n l : keys_from 0 l -> (forall k, In k (keys l) -> (k < n)%nat) ->
  mat_eq (2 ^ n) (mmul (2 ^ n) (sem n (evolve_post l)) (sem n (evolve_pre l))) eye.
Proof.
  intros Hs Hb. rewrite post_is_inverse. apply sem_inverse. apply wfpre_pre; [exact Hs|].
  apply Forall_forall. exact Hb.
Qed.

(* ------------------------------------------------------------------ (B), inner part: the CNOT ladder spreads Z *)
Definition zfam (ks : list nat) : fam CRring := fun q => if mem q ks then cr_Z else eye.

Lemma ladder_conj n : forall ks q0, ks <> [] -> incr_from q0 ks -> Forall (fun k => (k < n)%nat) ks ->
  mat_eq (2 ^ n)
    (mmul (2 ^ n) (sem n (rev (cnot_ladder ks))) (mmul (2 ^ n) (lift_spec cr_Z [last ks 0%nat] n) (sem n (cnot_ladder ks))))
    (T n (zfam ks)).
Proof.
  induction ks as [|a r IH]; intros q0 Hne Hs Hb; [congruence|]. destruct r as [|b r'].
  - cbn [cnot_ladder rev last]. rewrite esem_nil, mmul_eye_l_eq, mmul_eye_r_eq.
    inversion Hb as [|? ? Ha _]; subst.
    rewrite (lift1_T CRring n cr_Z a Ha). apply T_ext. intros q _. unfold upd, zfam, idfam.
    rewrite mem_cons. cbn [mem existsb]. rewrite orb_false_r. apply mat_eq_refl.
  - change (cnot_ladder (P:=R) (a :: b :: r')) with ((ECNOT, [a; b]) :: cnot_ladder (P:=R) (b :: r')).
    change (last (a :: b :: r') 0%nat) with (last (b :: r') 0%nat).
    cbn [incr_from] in Hs. destruct Hs as [_ [Hab Hs]].
    inversion Hb as [|? ? Ha Hb']; subst. inversion Hb' as [|? ? Hbn _]; subst.
    assert (Hs' : incr_from (S a) (b :: r')) by (cbn [incr_from]; split; assumption).
    specialize (IH (S a) ltac:(discriminate) Hs' Hb').
    cbn [rev]. rewrite esem_snoc, esem_cons.
    set (C := spec n (ECNOT, [a; b])) in *.
    set (RL := sem n (rev (cnot_ladder (b :: r')))) in *. set (L := sem n (cnot_ladder (b :: r'))) in *.
    set (LZ := lift_spec cr_Z [last (b :: r') 0%nat] n) in *.
    rewrite (mmul_assoc_eq CRring _ C RL). rewrite <- (mmul_assoc_eq CRring _ LZ L C).
    rewrite <- (mmul_assoc_eq CRring _ RL (mmul (2 ^ n) LZ L) C). rewrite IH.
    subst C. unfold espec. cbn [fst snd emat gates_cr mCNOT].
    assert (Hma : mem a (b :: r') = false).
    { apply mem_false. intro Hin. pose proof (incr_from_ge _ _ _ Hs' Hin). lia. }
    assert (Hmb : mem b (b :: r') = true) by (rewrite mem_cons, Nat.eqb_refl; reflexivity).
    eapply mat_eq_trans.
    { apply (T_lift2_conj CRring n cr_CNOT cr_CNOT (zfam (b :: r')) a b cr_Z cr_Z Ha Hbn ltac:(lia)).
      unfold zfam. rewrite Hma, Hmb. exact cr_CNOT_IZ. }
    apply T_ext. intros q _. unfold upd, zfam. rewrite (mem_cons q a).
    destruct (Nat.eqb_spec q b) as [->|Hqb]; [rewrite Hmb, orb_true_r; apply mat_eq_refl|].
    destruct (Nat.eqb q a); cbn [orb]; apply mat_eq_refl.
Qed.

(* ------------------------------------------------------------------ (B), outer part: the basis changes *)
Definition Vmat (a : letter) : Mat CRring := match a with PX => cr_H | PY => cr_RXh | PZ => eye end.
Definition Vdag (a : letter) : Mat CRring := match a with PX => cr_H | PY => adj cr_RXh | PZ => eye end.
Definition cfam (l : ops) (m : fam CRring) : fam CRring :=
  fun q => match lookup q l with Some a => mmul 2 (Vdag a) (mmul 2 (m q) (Vmat a)) | None => m q end.

Lemma cfam_cons k a r m q :
  cfam ((k, a) :: r) m q = if Nat.eqb q k then mmul 2 (Vdag a) (mmul 2 (m q) (Vmat a)) else cfam r m q.
Proof. unfold cfam. cbn [lookup]. destruct (Nat.eqb q k); reflexivity. Qed.

Definition bcg (k : nat) (a : letter) : list (eop R) :=
  match a with PX => [(EH, [k])] | PY => [(ERXh, [k])] | PZ => [] end.
Definition bcig (k : nat) (a : letter) : list (eop R) :=
  match a with PX => [(EH, [k])] | PY => [(ERXhd, [k])] | PZ => [] end.

Lemma bc_cons k a r : basis_change (P:=R) ((k, a) :: r) = bcg k a ++ basis_change r.
Proof. reflexivity. Qed.

Lemma bci_cons k a r : basis_change_inv (P:=R) ((k, a) :: r) = basis_change_inv r ++ rev (bcig k a).
Proof. unfold basis_change_inv. cbn [flat_map fst snd]. rewrite rev_app_distr. reflexivity. Qed.

Lemma bc_gate n k a : (k < n)%nat -> mat_eq (2 ^ n) (sem n (bcg k a)) (lift_spec (Vmat a) [k] n).
Proof.
  intro Hk. destruct a; cbn [Vmat bcg].
  - rewrite esem_single. apply mat_eq_refl.
  - rewrite esem_single. apply mat_eq_refl.
  - rewrite esem_nil. apply mat_eq_sym. apply (lift_eye CRring).
Qed.

Lemma bci_gate n k a : (k < n)%nat -> mat_eq (2 ^ n) (sem n (rev (bcig k a))) (lift_spec (Vdag a) [k] n).
Proof.
  intro Hk. destruct a; cbn [Vdag bcig rev app].
  - rewrite esem_single. apply mat_eq_refl.
  - rewrite esem_single. apply mat_eq_refl.
  - rewrite esem_nil. apply mat_eq_sym. apply (lift_eye CRring).
Qed.

Lemma bc_conj n : forall l (m : fam CRring), NoDup (keys l) -> Forall (fun k => (k < n)%nat) (keys l) ->
  mat_eq (2 ^ n) (mmul (2 ^ n) (sem n (basis_change_inv l)) (mmul (2 ^ n) (T n m) (sem n (basis_change l)))) (T n (cfam l m)).
Proof.
  induction l as [|[k a] r IH]; intros m Hnd Hb.
  - unfold basis_change_inv, basis_change. cbn [flat_map rev]. rewrite esem_nil, mmul_eye_l_eq, mmul_eye_r_eq.
    apply T_ext. intros q _. unfold cfam. cbn [lookup]. apply mat_eq_refl.
  - cbn [keys map fst] in Hnd, Hb. inversion Hnd as [|? ? Hk Hnd']; subst. inversion Hb as [|? ? Hkn Hb']; subst.
    specialize (IH m Hnd' Hb').
    rewrite bc_cons, bci_cons.
    rewrite !esem_app, (bc_gate n k a Hkn), (bci_gate n k a Hkn).
    set (BI := sem n (basis_change_inv r)) in *. set (BC := sem n (basis_change r)) in *.
    rewrite (mmul_assoc_eq CRring _ _ BI). rewrite <- (mmul_assoc_eq CRring _ (T n m) BC).
    rewrite <- (mmul_assoc_eq CRring _ BI (mmul (2 ^ n) (T n m) BC)). rewrite IH.
    rewrite (T_lift1_r CRring n _ _ k Hkn), (T_lift1_l CRring n _ _ k Hkn).
    apply T_ext. intros q _. rewrite cfam_cons. unfold upd at 1.
    destruct (Nat.eqb_spec q k) as [->|Hqk].
    + rewrite upd_same. unfold cfam.
      assert (E : lookup k r = None).
      { destruct (lookup k r) eqn:E; [|reflexivity]. apply lookup_some_mem in E. apply mem_In in E. contradiction. }
      rewrite E. apply mat_eq_refl.
    + rewrite upd_other by exact Hqk. apply mat_eq_refl.
Qed.

Lemma cfam_zfam l q : mat_eq 2 (cfam l (zfam (keys l)) q) (smat (K:=CRring) (lookup q l)).
Proof.
  unfold cfam, zfam. destruct (lookup q l) as [a|] eqn:E.
  - rewrite (lookup_some_mem _ _ _ E). destruct a; cbn [Vmat Vdag].
    + exact cr_HZH.
    + exact cr_RZR.
    + rewrite mmul_eye_l_eq, mmul_eye_r_eq. exact cr_Z_smat.
  - rewrite (lookup_none_mem _ _ E). apply mat_eq_sym. apply (smat_none_eye CRring).
Qed.

Theorem evolve_B_all n l : keys_from 0 l -> (forall k, In k (keys l) -> (k < n)%nat) -> l <> [] ->
  mat_eq (2 ^ n) (mmul (2 ^ n) (sem n (evolve_post l)) (mmul (2 ^ n) (lift_spec cr_Z [last_qubit l] n) (sem n (evolve_pre l))))
         (pprod (K:=CRring) n l).
Proof.
  intros Hs Hb Hne.
  assert (Hs' := keys_from_incr _ _ Hs). assert (Hb' : Forall (fun k => (k < n)%nat) (keys l)) by (apply Forall_forall; exact Hb).
  assert (Hk : keys l <> []) by (destruct l; [congruence|discriminate]).
  unfold evolve_post, evolve_pre, last_qubit. rewrite !esem_app.
  set (BI := sem n (basis_change_inv l)). set (BC := sem n (basis_change l)).
  set (RL := sem n (rev (cnot_ladder (keys l)))). set (L := sem n (cnot_ladder (keys l))).
  set (LZ := lift_spec cr_Z [last (keys l) 0%nat] n).
  rewrite (mmul_assoc_eq CRring _ BI RL). rewrite <- (mmul_assoc_eq CRring _ LZ L BC).
  rewrite <- (mmul_assoc_eq CRring _ RL (mmul (2 ^ n) LZ L) BC).
  subst RL L LZ. rewrite (ladder_conj n (keys l) 0 Hk Hs' Hb').
  subst BI BC. rewrite (bc_conj n l _ (incr_from_NoDup _ _ Hs') Hb').
  rewrite (pprod_T CRring n l). apply T_ext. intros q _. apply cfam_zfam.
Qed.

(* ------------------------------------------------------------------ the theorem *)
Theorem evolve_term_all : forall n l, keys_from 0 l -> (forall k, In k (keys l) -> (k < n)%nat) -> l <> [] ->
  forall theta : R,
  mat_eq (2 ^ n) (to_unitary n (map (eapp gates_cr cr_RZ) (evolve_ops l (2 * theta)%R))) (E_P n l theta).
Proof.
  intros n l Hs Hb Hne theta.
  pose proof (evolve_A_all n l Hs Hb) as A_cr. pose proof (evolve_B_all n l Hs Hb Hne) as B_cr.
  assert (Hpre : Forall (wfpre n) (evolve_pre (P:=R) l)) by (apply wfpre_pre; [exact Hs|apply Forall_forall; exact Hb]).
  assert (Hq : (last_qubit l < n)%nat).
  { apply Hb. unfold last_qubit. apply last_In. destruct l; [congruence|discriminate]. }
  rewrite evolve_ops_split.
  assert (Hwf : Forall (fun o => wf_gate n (eapp gates_cr cr_RZ o))
                       (evolve_pre l ++ [(ERZ (2 * theta)%R, [last_qubit l])] ++ evolve_post l)).
  { apply Forall_app. split; [|apply Forall_app; split].
    - eapply Forall_impl; [|exact Hpre]. intros o Ho. apply (wfpre_wf_gate R gates_cr cr_RZ n o Ho).
    - constructor; [|constructor]. unfold wf_gate, eapp. cbn [g_qs snd].
      repeat split; [discriminate|repeat constructor; intros []|repeat constructor; exact Hq].
    - rewrite post_is_inverse. apply Forall_rev. apply Forall_forall. intros o Ho. apply in_map_iff in Ho.
      destruct Ho as [o' [<- Ho']]. rewrite Forall_forall in Hpre. apply (wfpre_wf_gate R gates_cr cr_RZ n o' (Hpre o' Ho')). }
  eapply mat_eq_trans; [apply esem_is_to_unitary; exact Hwf|].
  eapply mat_eq_trans; [apply esem_app|].
  eapply mat_eq_trans; [apply mmul_compat; [apply esem_app|apply mat_eq_refl]|].
  eapply mat_eq_trans; [apply mmul_compat; [apply mmul_compat; [apply mat_eq_refl|apply erz_block]|apply mat_eq_refl]|].
  unfold E_P. apply sandwich; assumption.
Qed.

(* the hypotheses are satisfiable beyond three qubits: X0 Y2 Z4 on a five-qubit register *)
Example evolve_term_all_5 : forall theta : R,
  mat_eq (2 ^ 5) (to_unitary 5 (map (eapp gates_cr cr_RZ) (evolve_ops [(0, PX); (2, PY); (4, PZ)]%nat (2 * theta)%R)))
         (E_P 5 [(0, PX); (2, PY); (4, PZ)]%nat theta).
Proof.
  apply evolve_term_all; [cbn [keys_from]; repeat split; auto with arith| |discriminate].
  cbn [keys map fst]. intros k [<-|[<-|[<-|[]]]]; auto with arith.
Qed.
