(* Pauli sums: simplify keeps the denoted matrix; sums and products of sums; invariants. *)
Require Import Coq.setoid_ring.Ring Coq.ZArith.ZArith Coq.Lists.List Coq.Bool.Bool Coq.Arith.Arith Coq.micromega.Lia.
Require Import OQ.Base.Ring OQ.Base.Sums OQ.Base.Bits OQ.Base.Mat OQ.Pauli.Algebra OQ.Pauli.Den
  OQ.Pauli.TablesProofs OQ.Pauli.DenProofs.
Import ListNotations.

(* ------------------------------------------------------------------ the representation invariant *)
Lemma keys_set_op q a l k : In k (keys (set_op q a l)) -> k = q \/ In k (keys l).
Proof.
  induction l as [|[k0 b] r IH]; cbn [set_op keys map fst In].
  - intros [H|[]]. left. symmetry. exact H.
  - destruct (Nat.ltb q k0); [|destruct (Nat.eqb_spec q k0) as [->|]]; cbn [map fst In].
    + intros [H|H]; [left; symmetry; exact H|right; exact H].
    + intros [H|H]; [right; left; exact H|right; right; exact H].
    + intros [H|H]; [right; left; exact H|]. destruct (IH H) as [H'|H']; [left; exact H'|right; right; exact H'].
Qed.

Lemma keys_del_op q l k : In k (keys (del_op q l)) -> In k (keys l).
Proof.
  induction l as [|[k0 b] r IH]; cbn [del_op keys map fst In]; [tauto|].
  destruct (Nat.eqb q k0); cbn [map fst In].
  - intro H. right. apply IH. exact H.
  - intros [H|H]; [left; exact H|right; apply IH; exact H].
Qed.

Lemma set_op_sorted q a l : ops_sorted l -> ops_sorted (set_op q a l).
Proof.
  induction l as [|[k0 b] r IH]; cbn [set_op ops_sorted].
  - intros _. split; [intros k' []|exact I].
  - intros [H1 H2]. destruct (Nat.ltb_spec q k0) as [Hlt|Hge].
    + cbn [ops_sorted]. split; [|split; assumption].
      intros k' Hk'. cbn [map fst In] in Hk'. destruct Hk' as [<-|Hk']; [exact Hlt|]. specialize (H1 k' Hk'). lia.
    + destruct (Nat.eqb_spec q k0) as [->|Hne]; cbn [ops_sorted].
      * split; assumption.
      * split; [|apply IH; exact H2]. intros k' Hk'. apply keys_set_op in Hk'. destruct Hk' as [->|Hk']; [lia|apply H1; exact Hk'].
Qed.

Lemma del_op_sorted q l : ops_sorted l -> ops_sorted (del_op q l).
Proof.
  induction l as [|[k0 b] r IH]; cbn [del_op ops_sorted]; [tauto|].
  intros [H1 H2]. destruct (Nat.eqb q k0); [apply IH; exact H2|]. cbn [ops_sorted].
  split; [|apply IH; exact H2]. intros k' Hk'. apply H1. apply (keys_del_op q). exact Hk'.
Qed.

Section SumProofs.
  Variable K : cring.
  Add Ring Kring : (c_ring K).
  Local Open Scope cr_scope.

  Lemma mul_by_op_ok n (t : term K) b q : (q < n)%nat -> term_ok n t -> term_ok n (mul_by_op t b q).
  Proof.
    intros Hq [Hs Hf]. unfold mul_by_op, term_ok, term_fits in *.
    destruct (lookup q (tops t)) as [a|]; [destruct (letter_eqb a b)|]; cbn [tops]; split;
      try (apply set_op_sorted; exact Hs); try (apply del_op_sorted; exact Hs);
      intros k Hk; try (apply keys_set_op in Hk; destruct Hk as [->|Hk]; [exact Hq|apply Hf; exact Hk]).
    apply Hf. apply (keys_del_op q). exact Hk.
  Qed.

  Lemma fold_step_ok n (items : ops) : forall t : term K, (forall q, In q (keys items) -> (q < n)%nat) ->
    term_ok n t -> term_ok n (fold_left (step K) items t).
  Proof.
    induction items as [|[q b] r IH]; intros t Hlt Hok; cbn [fold_left]; [exact Hok|].
    apply IH; [intros q' Hq'; apply Hlt; right; exact Hq'|].
    unfold step. cbn [fst snd]. apply mul_by_op_ok; [apply Hlt; left; reflexivity|exact Hok].
  Qed.

  Lemma term_mul_ok n (t1 t2 : term K) : term_ok n t1 -> term_ok n t2 -> term_ok n (term_mul t1 t2).
  Proof.
    intros H1 [_ H2]. unfold term_mul.
    pose proof (fold_step_ok n (tops t2) (mk_term c1 (tops t1)) H2 H1) as H. exact H.
  Qed.

  Lemma identity_ok n : term_ok n (@identity K).
  Proof. split; [exact I|intros q []]. Qed.
  Lemma const_ok n c : term_ok n (@const K c).
  Proof. split; [exact I|intros q []]. Qed.
  Lemma term_scale_ok n (t : term K) c : term_ok n t -> term_ok n (term_scale t c).
  Proof. intro H. exact H. Qed.

  Lemma term_ok_nodup n (t : term K) : term_ok n t -> NoDup (keys (tops t)).
  Proof. intros [H _]. apply ops_sorted_nodup. exact H. Qed.

  (* ---------------------------------------------------------------- elementary denotations *)
  Lemma dmat_none l : (forall a, In a l -> a = None) -> mat_eq (2 ^ List.length l) (@dmat K l) eye.
  Proof.
    induction l as [|a r IH]; intro H.
    - intros i j Hi Hj. cbn in Hi, Hj. assert (i = 0%nat) by lia. assert (j = 0%nat) by lia. subst. reflexivity.
    - cbn [List.length dmat]. change (2 ^ S (List.length r))%nat with (2 * 2 ^ List.length r)%nat.
      pose proof (pow2_pos (List.length r)) as Hp. intros i j Hi Hj.
      rewrite (H a (or_introl eq_refl)).
      rewrite (kron_compat K 2 _ _ eye _ eye Hp (smat_none_eye K) (IH (fun b Hb => H b (or_intror Hb))) i j Hi Hj).
      apply kron_eye. exact Hp.
  Qed.

  Lemma pprod_nil n : mat_eq (2 ^ n) (@pprod K n []) eye.
  Proof.
    intros i j Hi Hj. rewrite (pprod_dmat K n [] i j Hi Hj).
    pose proof (dmat_none (dense n [])) as H. rewrite dense_length in H. apply H; [|assumption|assumption].
    intros a Ha. unfold dense in Ha. apply in_map_iff in Ha. destruct Ha as [q [Hq _]]. symmetry. exact Hq.
  Qed.

  Lemma den_const n c : mat_eq (2 ^ n) (den n (@const K c)) (nden c).
  Proof. intros i j Hi Hj. unfold den, nden, mscale, const. cbn [coef tops]. rewrite (pprod_nil n i j Hi Hj). reflexivity. Qed.

  Lemma den_identity n : mat_eq (2 ^ n) (den n (@identity K)) eye.
  Proof. intros i j Hi Hj. change (@identity K) with (@const K c1). rewrite (den_const n c1 i j Hi Hj). unfold nden, mscale. ring. Qed.

  Lemma den_scale n (t : term K) c i j : den n (term_scale t c) i j = mscale c (den n t) i j.
  Proof. unfold den, term_scale, mscale. cbn [coef tops]. ring. Qed.

  (* ---------------------------------------------------------------- sums of lists *)
  Lemma lsum_flat_map {A B} (f : A -> list B) (l : list A) (g : B -> K) :
    lsum (flat_map f l) g = lsum l (fun x => lsum (f x) g).
  Proof. induction l as [|x l IH]; cbn [flat_map lsum]; [reflexivity|]. rewrite lsum_app, IH. reflexivity. Qed.

  Lemma sden_app n (s1 s2 : psum K) i j : sden n (s1 ++ s2) i j = sden n s1 i j + sden n s2 i j.
  Proof. unfold sden. apply lsum_app. Qed.

  Lemma sden_single n (t : term K) i j : sden n [t] i j = den n t i j.
  Proof. unfold sden. cbn [lsum]. ring. Qed.

  Lemma sden_cons n (t : term K) s i j : sden n (t :: s) i j = den n t i j + sden n s i j.
  Proof. reflexivity. Qed.

  (* ---------------------------------------------------------------- simplify *)
  Variable is_zero : K -> bool.

  Definition gden (n : nat) (g : list (ops * list K)) (i j : nat) : K :=
    lsum g (fun kc => py_sum (snd kc) * pprod n (fst kc) i j).

  Lemma py_sum_snoc cs (c : K) : py_sum (cs ++ [c]) = py_sum cs + c.
  Proof. unfold py_sum. rewrite fold_left_app. reflexivity. Qed.

  Lemma group_insert_den n key c g i j :
    gden n (group_insert key c g) i j = gden n g i j + c * pprod n key i j.
  Proof.
    induction g as [|[k cs] r IH]; cbn [group_insert].
    - unfold gden, py_sum. cbn [lsum fst snd fold_left]. ring.
    - destruct (ops_eqb key k) eqn:E.
      + apply ops_eqb_eq in E. subst k. unfold gden. cbn [lsum fst snd]. rewrite py_sum_snoc. ring.
      + unfold gden in *. cbn [lsum fst snd]. rewrite IH. ring.
  Qed.

  Lemma like_terms_den n (s : psum K) : forall g i j,
    gden n (fold_left (fun g t => group_insert (tops t) (coef t) g) s g) i j = gden n g i j + sden n s i j.
  Proof.
    induction s as [|t s IH]; intros g i j; cbn [fold_left].
    - unfold sden. cbn [lsum]. ring.
    - rewrite IH, group_insert_den, sden_cons. unfold den. ring.
  Qed.

  Lemma group_split n (g : ops * list K) i j :
    py_sum (snd g) * pprod n (fst g) i j
    = sden n (group_out is_zero g) i j + sden n (group_dropped is_zero g) i j.
  Proof.
    destruct g as [k cs]. unfold group_out, group_dropped. cbn [fst snd].
    destruct (single_kept is_zero cs) eqn:E.
    - destruct cs as [|c [|c' cs']]; cbn [single_kept] in E; try discriminate.
      unfold sden, den, py_sum. cbn [lsum hd coef tops fold_left]. ring.
    - destruct (is_zero (py_sum cs)); unfold sden, den; cbn [lsum coef tops]; ring.
  Qed.

  (* simplify changes the denoted matrix exactly by the terms it drops, whose coefficients test as zero *)
  Theorem simplify_den n (s : psum K) i j :
    sden n s i j = sden n (simplify is_zero s) i j + sden n (dropped is_zero s) i j.
  Proof.
    unfold simplify, dropped, like_terms.
    pose proof (like_terms_den n s [] i j) as H. unfold gden at 2 in H. cbn [lsum] in H.
    transitivity (gden n (fold_left (fun g t => group_insert (tops t) (coef t) g) s []) i j); [rewrite H; ring|].
    unfold sden at 1 2. rewrite !lsum_flat_map. rewrite <- lsum_add. unfold gden. apply lsum_ext.
    intros g _. apply group_split.
  Qed.

  Lemma dropped_zero (s : psum K) : Forall (fun t => is_zero (coef t) = true) (dropped is_zero s).
  Proof.
    apply Forall_forall. intros t Ht. unfold dropped in Ht. apply in_flat_map in Ht.
    destruct Ht as [[k cs] [_ Ht]]. unfold group_dropped in Ht. cbn [fst snd] in Ht.
    destruct (single_kept is_zero cs); [destruct Ht|].
    destruct (is_zero (py_sum cs)) eqn:E; [|destruct Ht].
    destruct Ht as [<-|[]]. exact E.
  Qed.

  Hypothesis is_zero_exact : forall c, is_zero c = true -> c = c0.

  Lemma sden_zero_coefs n (s : psum K) i j : Forall (fun t => is_zero (coef t) = true) s -> sden n s i j = c0.
  Proof.
    induction 1 as [|t s Ht _ IH]; [reflexivity|]. rewrite sden_cons, IH. unfold den.
    rewrite (is_zero_exact _ Ht). ring.
  Qed.

  Theorem simplify_den_exact n (s : psum K) i j : sden n (simplify is_zero s) i j = sden n s i j.
  Proof. rewrite (simplify_den n s i j), (sden_zero_coefs n _ i j (dropped_zero s)). ring. Qed.
End SumProofs.
