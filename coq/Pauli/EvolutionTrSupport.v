(* Hand-written support for the GENERATED file Gen/EvolutionGen.v (translator tr/tr_evolution.py, property C16).

   The translator maps every Python statement of time_evolution_for_term / time_evolution (evolution.py) to a
   piece of Gallina built from the functions below; what each function stands for in Python is written next to
   it.  This file is the trusted reading of the Python constructs; the agreement with the model the C16
   theorems are about (Pauli/Evolution.v) is PROVED in Pauli/EvolutionGenProofs.v about the generated text.

   Values.
     result A            outcome of evaluating something: a value, or a raised exception
     pynum               the numbers the functions compute with (time, coefficient parts): a carrier with the
                         operations the source uses; instantiated by Q (exact; the correspondence cases) and R
     cangle              a closed numeric expression over np.pi and integer literals (the argument of RX), kept
                         symbolically
     pygate P / pyop P   a gate object / a GateOperation, with the Dagger wrapper of circuits/_gates.py
     circ P              Circuit.operations
     pterm T             a PauliTerm: coefficient.real, coefficient.imag, and the dict _ops in the model's
                         representation [ops] (association list qubit -> letter, sorted by qubit, Pauli/Algebra.v) *)
Require Import Coq.ZArith.ZArith Coq.Lists.List Coq.Strings.String Coq.Bool.Bool Coq.Arith.Arith
        Coq.QArith.QArith Coq.QArith.Qabs.
Require Import OQ.Pauli.Algebra OQ.Pauli.Evolution.
Import ListNotations.

(* ------------------------------------------------------------------ exceptions and sequencing *)
Inductive pyexn := ValueError | UnboundLocalError | IndexError | ZeroDivisionError.

Inductive result (A : Type) : Type :=
| Ok (a : A)
| Raise (e : pyexn).
Arguments Ok {A}. Arguments Raise {A}.

(* evaluate r, then continue with its value; an exception propagates *)
Definition bind {A B} (r : result A) (f : A -> result B) : result B :=
  match r with Ok a => f a | Raise e => Raise e end.

(* for x in xs: body     (the loop state st holds the locals the body assigns) *)
Fixpoint py_for {A S} (xs : list A) (st : S) (body : A -> S -> result S) : result S :=
  match xs with
  | [] => Ok st
  | x :: r => bind (body x st) (fun st' => py_for r st' body)
  end.

(* for a, b in xs: body  - unpacking of a two-element tuple target *)
Definition py_unpack2 {A B C} (f : A -> B -> C) (p : A * B) : C := f (fst p) (snd p).

(* reading a local that is only assigned inside a loop or branch *)
Definition py_local {A} (o : option A) : result A :=
  match o with Some a => Ok a | None => Raise UnboundLocalError end.

(* ------------------------------------------------------------------ integers and lists *)
Definition py_len {A} (l : list A) : Z := Z.of_nat (List.length l).

Fixpoint py_enumerate_from {A} (k : Z) (l : list A) : list (Z * A) :=
  match l with
  | [] => []
  | x :: r => (k, x) :: py_enumerate_from (k + 1) r
  end.
Definition py_enumerate {A} (l : list A) : list (Z * A) := py_enumerate_from 0 l.

(* range(n): 0 .. n-1, empty for n <= 0 *)
Definition py_range (n : Z) : list Z := map Z.of_nat (seq 0 (Z.to_nat n)).

(* l[z] for a list: negative indices count from the end, anything else out of range is an IndexError *)
Definition py_index {A} (l : list A) (z : Z) : result A :=
  let n := py_len l in
  let k := if Z.ltb z 0 then Z.add n z else z in
  if Z.ltb k 0 then Raise IndexError
  else match nth_error l (Z.to_nat k) with Some a => Ok a | None => Raise IndexError end.

(* xs.append(v) for a list local xs that is not shared (the translator rejects copies of list locals) *)
Definition py_append {A} (l : list A) (v : A) : list A := l ++ [v].
(* zip(a, b): pairs up to the shorter length *)
Definition py_zip {A B} (a : list A) (b : list B) : list (A * B) := List.combine a b.
(* chain.from_iterable(ls), list(it) *)
Definition py_chain {A} (ls : list (list A)) : list A := List.concat ls.
Definition py_list {A} (l : list A) : list A := l.

(* sorted(s) for a collection of qubit indices: ascending (insertion sort; the result of sorted() is determined
   by the multiset of elements, so the algorithm does not matter) *)
Fixpoint py_insert (x : nat) (l : list nat) : list nat :=
  match l with
  | [] => [x]
  | y :: r => if Nat.leb x y then x :: l else y :: py_insert x r
  end.
Definition py_sorted (l : list nat) : list nat := fold_right py_insert [] l.

(* ------------------------------------------------------------------ numbers *)
Record pynum : Type := mk_pynum {
  num : Type;
  n_int : Z -> num;                  (* an int used where a number is expected *)
  n_lit : Q -> num;                  (* a float literal, read as its decimal value *)
  n_add : num -> num -> num;         (* a + b *)
  n_mul : num -> num -> num;         (* a * b *)
  n_div : num -> num -> num;         (* a / b for b != 0 *)
  n_abs : num -> num;                (* abs(a) *)
  n_gtb : num -> num -> bool;        (* a > b *)
  n_is_zero : num -> bool;           (* a == 0 *)
  n_eqb : num -> num -> bool         (* a == b *)
}.

(* a number structure in which np.pi is a number (time_evolution_derivatives shifts the time by pi / (4 r)) *)
Record pynum_pi : Type := mk_pynum_pi {
  pn_base :> pynum;
  n_pi : num pn_base                 (* np.pi *)
}.

(* a / b *)
Definition py_truediv (N : pynum) (a b : num N) : result (num N) :=
  if n_is_zero N b then Raise ZeroDivisionError else Ok (n_div N a b).

(* exact rationals: how the correspondence cases and Pauli/Evolution.v read the floats *)
Definition num_Q : pynum :=
  mk_pynum Q inject_Z (fun q => q) Qplus Qmult Qdiv Qabs
           (fun a b => if Qlt_le_dec b a then true else false)
           (fun a => Qeq_bool a 0) Qeq_bool.

(* ------------------------------------------------------------------ gates and circuits *)
(* closed angle expressions: np.pi, an integer literal, -a, a / b, a * b *)
Inductive cangle : Type :=
| CPi
| CInt (z : Z)
| CNeg (a : cangle)
| CDiv (a b : cangle)
| CMul (a b : cangle).

Inductive pygate (P : Type) : Type :=
| GH                                   (* H            MatrixFactoryGate, is_hermitian=True *)
| GCNOT                                (* CNOT         MatrixFactoryGate, is_hermitian=True *)
| GRX (a : cangle)                     (* RX(a)        MatrixFactoryGate, is_hermitian=False *)
| GRZ (a : P)                          (* RZ(a)        MatrixFactoryGate, is_hermitian=False *)
| GDagger (g : pygate P).              (* Dagger(g) *)
Arguments GH {P}. Arguments GCNOT {P}. Arguments GRX {P}. Arguments GRZ {P}. Arguments GDagger {P}.

Definition pyop (P : Type) : Type := (pygate P * list nat)%type.       (* GateOperation(gate, qubit_indices) *)
Definition circ (P : Type) : Type := list (pyop P).

(* Circuit() *)
Definition circ_empty {P} : circ P := [].
(* circuit + circuit (also +=): operations of the left, then of the right *)
Definition circ_add {P} (a b : circ P) : circ P := a ++ b.
(* circuit + gate operation (also +=): appended *)
Definition circ_add_op {P} (a : circ P) (o : pyop P) : circ P := a ++ [o].

(* circuit.operations, Circuit(operations) (the width bookkeeping n_qubits is not modelled) *)
Definition circ_operations {P} (c : circ P) : list (pyop P) := c.
Definition circ_of_operations {P} (l : list (pyop P)) : circ P := l.

(* gate.dagger:  MatrixFactoryGate: self if is_hermitian else Dagger(self);  Dagger: the wrapped gate *)
Definition gate_dagger {P} (g : pygate P) : pygate P :=
  match g with
  | GH => GH
  | GCNOT => GCNOT
  | GDagger w => w
  | g => GDagger g
  end.
Definition op_dagger {P} (o : pyop P) : pyop P := (gate_dagger (fst o), snd o).
(* Circuit.inverse(): the list, over op in reversed(self.operations), of op.gate.dagger applied to op.qubit_indices *)
Definition circ_inverse {P} (c : circ P) : circ P := map op_dagger (rev c).

(* ------------------------------------------------------------------ Pauli terms and sums *)
Record pterm (T : Type) : Type := mk_pterm { t_re : T; t_im : T; t_ops : ops }.
Arguments mk_pterm {T}. Arguments t_re {T}. Arguments t_im {T}. Arguments t_ops {T}.

(* term.qubits: set(self._ops.keys()); a set, here the list of its elements (only sorted() and len() apply) *)
Definition term_qubits {T} (t : pterm T) : list nat := keys (t_ops t).
(* term.operations: frozenset(self._ops.items()) (only len() applies) *)
Definition term_operations {T} (t : pterm T) : list (nat * letter) := t_ops t.
(* term.is_constant: self._ops == {} *)
Definition term_is_constant {T} (t : pterm T) : bool := match t_ops t with [] => true | _ => false end.
(* term[q]: self._ops.get(q, "I") (with a warning when absent) *)
Definition term_getitem {T} (t : pterm T) (q : nat) : string :=
  match lookup q (t_ops t) with Some a => letter_str a | None => "I"%string end.
(* x == term.coefficient for a number x: the coefficient is the complex number re + i im (a float coefficient has im = 0) *)
Definition py_num_eq_complex (N : pynum) (x : num N) (t : pterm (num N)) : bool :=
  n_eqb N x (t_re t) && n_is_zero N (t_im t).
(* hamiltonian.terms: the list of terms of a PauliSum ([self] for a PauliTerm) *)
Definition ham_terms {T} (h : list (pterm T)) : list (pterm T) := h.

(* ------------------------------------------------------------------ the model's gate descriptions as gate objects *)
Definition rx_half : cangle := CDiv CPi (CInt 2).              (* np.pi / 2 *)

Definition py_of_egate {P} (g : egate P) : pygate P :=
  match g with
  | EH => GH
  | ERXh => GRX rx_half
  | ERXhd => GDagger (GRX rx_half)
  | ECNOT => GCNOT
  | ERZ a => GRZ a
  end.
Definition py_of_eop {P} (o : eop P) : pyop P := (py_of_egate (fst o), snd o).

(* the model writes a ValueError as None *)
Definition res_of_model {P} (o : option (list (eop P))) : result (circ P) :=
  match o with Some c => Ok (map py_of_eop c) | None => Raise ValueError end.

(* the model's view of a term (Pauli/Evolution.v classify) *)
Definition hterm_of (t : pterm Q) : hterm := classify (t_re t) (t_im t) (t_ops t).
