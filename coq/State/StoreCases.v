(* C20 - short names used by the generated history files (harness/c20.py) and the check they evaluate. *)
Require Import Coq.ZArith.ZArith Coq.Lists.List Coq.Strings.String Coq.Bool.Bool.
Require Import OQ.State.Store.
Import ListNotations.

Definition Si := SInt.
Definition Ss := SStr.
Definition Sr := SRef.
Definition O_ := AObj.
Definition V_ := ALit.

(* the whole recorded history obeys the frame discipline of State/Store.v and repeated pure calls agree *)
Definition hist_check (s0 : store) (h : list step) : bool := history_ok s0 h.

(* first offending step, for diagnostics in replays *)
Definition hist_first_bad (s0 : store) (h : list step) : option nat := first_bad s0 h.
