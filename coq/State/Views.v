(* Model of the views of a simulated state (property C04): every conversion between an amplitude index, an
   outcome string, a measurement tuple, a count string and an operator's qubit index, as the code does it.

   Sources
     wavefunction.py     Wavefunction.get_probabilities, get_outcome_probs, sample_from_wavefunction (both branches)
     utils.py            bitstring_to_tuple, convert_bitstrings_to_tuples, tuple_to_bitstring
     distributions/_measurement_outcome_distribution.py
                         create_bitstring_distribution_from_probability_distribution (itertools.product order)
     measurements/measurements.py   Measurements.get_counts, get_expectation_value_from_frequencies,
                         Measurements.get_expectation_values (the values; covariances are property C10)
     measurements/parities.py       check_parity_of_vector
     operators/_openfermion_utils/sparse_tools.py   expectation  (the matrix of the operator is Pauli/Den.v's
                         denotation [den]: qubit 0 is the leftmost Kronecker factor; that get_sparse_operator
                         builds exactly this chain is property C09, here it is tied by the correspondence check)
     api/wavefunction_simulator.py  run_and_measure, get_measurement_outcome_distribution(c, None),
                         get_exact_expectation_values

   Conventions.  A register of n qubits has 2^n amplitudes; amplitude index i has the bits [Bits.bits n i],
   most significant first, and C01 (Circ/Lift.v) places qubit q of a gate on position q of that list.
   Tuples are lists of booleans (Python tuples of 0/1), strings are Coq strings of the characters 0 and 1
   ([char_bit] reads every other character as 0: int() of other characters is outside the model, the strings
   that reach it are produced by format(.., "b") or by str() of 0/1).
   The random generator is an input: [chosen] is the list of positions rng.choice drew in the array it was
   given.  A call that raises is [None]. *)
Require Import Coq.Arith.Arith Coq.ZArith.ZArith Coq.NArith.NArith Coq.QArith.QArith Coq.Lists.List Coq.Bool.Bool
  Coq.Strings.String Coq.Strings.Ascii.
Require Import OQ.Base.Ring OQ.Base.Sums OQ.Base.Bits OQ.Base.Mat OQ.Pauli.Algebra OQ.Pauli.Den.
Import ListNotations.
Close Scope Q_scope.
Open Scope list_scope.

(* ------------------------------------------------------------------ format(i, "0{n}b") and the string helpers *)
(* binary digits of a positive number, most significant first *)
Fixpoint pos_bits (p : positive) : list bool :=
  match p with
  | xH => [true]
  | xO q => pos_bits q ++ [false]
  | xI q => pos_bits q ++ [true]
  end.
(* bin(i)[2:] : "0" for 0, no leading zeros otherwise *)
Definition bin_digits (i : nat) : list bool :=
  match N.of_nat i with N0 => [false] | Npos p => pos_bits p end.
(* the "0{n}" part of the format: pad with zeros on the left up to n characters, never truncate *)
Definition zfill (n : nat) (l : list bool) : list bool := repeat false (n - List.length l) ++ l.

Definition bchar (b : bool) : ascii := if b then "1"%char else "0"%char.
Definition char_bit (c : ascii) : bool := Ascii.eqb c "1"%char.            (* int(c) for the characters 0 and 1 *)
Definition str_of_bits (l : list bool) : string := string_of_list_ascii (map bchar l).
Definition bits_of_str (s : string) : list bool := map char_bit (list_ascii_of_string s).
Definition str_rev (s : string) : string := string_of_list_ascii (rev (list_ascii_of_string s)).    (* s[::-1] *)

Definition format_b (n i : nat) : string := str_of_bits (zfill n (bin_digits i)).

(* ------------------------------------------------------------------ the conversions *)
(* get_outcome_probs: format(i, "0" + str(n_qubits) + "b")[::-1] *)
Definition outcome_key (n i : nat) : string := str_rev (format_b n i).
(* bitstring_to_tuple: tuple(int(bit) for bit in bitstring[::-1]) *)
Definition bitstring_to_tuple (s : string) : list bool := bits_of_str (str_rev s).
(* tuple_to_bitstring: "".join(map(str, tup)) *)
Definition tuple_to_bitstring (t : list bool) : string := str_of_bits t.

(* get_outcome_probs: dict(zip(values, probs)), index order *)
Definition outcome_probs {A} (n : nat) (p : nat -> A) : list (string * A) :=
  map (fun i => (outcome_key n i, p i)) (seq 0 (2 ^ n)).

(* itertools.product([0, 1], repeat=n): result = [[]]; for each pool: result = [x + [y] for x in result for y in pool] *)
Fixpoint product_bits (n : nat) : list (list bool) :=
  match n with
  | O => [[]]
  | S m => flat_map (fun x => [x ++ [false]; x ++ [true]]) (product_bits m)
  end.
(* create_bitstring_distribution_from_probability_distribution: {key: value for key, value in zip(keys, probs)}
   (every key is kept, also those of probability 0; the constructor leaves a normalised dictionary unchanged) *)
Definition exact_dist {A} (n : nat) (p : nat -> A) : list (list bool * A) :=
  combine (product_bits n) (map p (seq 0 (2 ^ n))).

(* ------------------------------------------------------------------ sample_from_wavefunction *)
(* an element of the array handed to rng.choice: a tuple, or the integer 0 appended to it in the first branch *)
Inductive sample := Tup (t : list bool) | Zero.

Definition outcome_strings (n : nat) : list string := map (outcome_key n) (seq 0 (2 ^ n)).
(* len(wavefunction) < n_samples: the strings are converted first, a non-tuple 0 (probability 0) is appended,
   then chosen *)
Definition sample_many (n : nat) (chosen : list nat) : list sample :=
  let a := map (fun s => Tup (bitstring_to_tuple s)) (outcome_strings n) ++ [Zero] in
  map (fun k => nth k a Zero) chosen.
(* otherwise: strings are chosen, then converted *)
Definition sample_few (n : nat) (chosen : list nat) : list sample :=
  map (fun k => Tup (bitstring_to_tuple (nth k (outcome_strings n) EmptyString))) chosen.
Definition sample_from_wavefunction (n : nat) (n_samples : Z) (chosen : list nat) : option (list sample) :=
  if Z.ltb n_samples 1 then None                                    (* ValueError *)
  else Some (if Z.ltb (Z.of_nat (2 ^ n)) n_samples then sample_many n chosen else sample_few n chosen).

(* ------------------------------------------------------------------ Measurements.get_counts *)
Definition zsum (l : list Z) : Z := fold_right Z.add 0%Z l.
Definition counts := list (string * Z).
(* Counter: keys in order of first appearance *)
Fixpoint add_count (k : string) (c : Z) (d : counts) : counts :=
  match d with
  | [] => [(k, c)]
  | (k', c') :: r => if String.eqb k k' then (k', (c' + c)%Z) :: r else (k', c') :: add_count k c r
  end.
Definition get_counts (shots : list (list bool)) : counts :=
  fold_left (fun d t => add_count (tuple_to_bitstring t) 1%Z d) shots [].
(* Measurements(samples): the integer 0 is not a tuple (tuple_to_bitstring raises TypeError on it) *)
Fixpoint tuples_of (l : list sample) : option (list (list bool)) :=
  match l with
  | [] => Some []
  | Tup t :: r => match tuples_of r with Some ts => Some (t :: ts) | None => None end
  | Zero :: _ => None
  end.
(* BaseWavefunctionSimulator.run_and_measure(circuit, n_samples).bitstrings / .get_counts() on a register of n qubits *)
Definition run_and_measure (n : nat) (n_samples : Z) (chosen : list nat) : option (list (list bool)) :=
  match sample_from_wavefunction n n_samples chosen with
  | Some l => tuples_of l
  | None => None
  end.

(* ------------------------------------------------------------------ expectation values from measurements *)
Definition b2z (b : bool) : Z := if b then 1%Z else 0%Z.
(* _convert_bitstrings_to_vector: one row per key, column q = character q (minus ord("0")) *)
Definition row_of_key (k : string) : list bool := bits_of_str k.
(* check_parity_of_vector on one row: 1 when nothing is marked, else (sum of the marked columns + 1) % 2 *)
Definition parity_row (marked : list nat) (r : list bool) : Z :=
  match marked with
  | [] => 1%Z
  | _ => ((zsum (map (fun q => b2z (nth q r false)) marked) + 1) mod 2)%Z
  end.
(* get_expectation_value_from_frequencies = sum(counts * (parity * 2 - 1) / num_measurements): numerator, denominator *)
Definition efreq_num (marked : list nat) (freq : counts) : Z :=
  zsum (map (fun kc => (snd kc * (parity_row marked (row_of_key (fst kc)) * 2 - 1))%Z) freq).
Definition efreq_den (freq : counts) : Z := zsum (map snd freq).
Definition marked_ok (width : nat) (marked : list nat) : bool := forallb (fun q => Nat.ltb q width) marked.
Definition efreq (marked : list nat) (freq : counts) : option Q :=
  match freq with
  | [] => None                                                      (* [*keys][0]: IndexError *)
  | (k0, _) :: _ =>
      if Nat.eqb (String.length k0) 0 then None                     (* reshape(-1, 0): ValueError *)
      else if marked_ok (String.length k0) marked
           then Some (Qdiv (inject_Z (efreq_num marked freq)) (inject_Z (efreq_den freq)))
           else None                                                (* column out of range: IndexError *)
  end.
(* a Z-type (Ising) operator: terms (coefficient, qubits carrying Z); a constant term has no qubits *)
Definition zop (C : Type) := list (C * list nat).
Fixpoint all_some {A} (l : list (option A)) : option (list A) :=
  match l with
  | [] => Some []
  | None :: _ => None
  | Some x :: r => match all_some r with Some xs => Some (x :: xs) | None => None end
  end.
(* Measurements.get_expectation_values(op).values = [term.coefficient * <Z on term.qubits> for term in op.terms] *)
Definition measured_values (shots : list (list bool)) (op : zop Q) : option (list Q) :=
  let freq := get_counts shots in
  all_some (map (fun t => match efreq (snd t) freq with Some e => Some (Qmult (fst t) e) | None => None end) op).

(* the eigenvalue of a Z-type term on an outcome tuple: c * prod_{q in S} (-1)^(t_q), read at POSITION q of the tuple *)
Definition zsgn (b : bool) : Z := if b then (-1)%Z else 1%Z.
Definition tuple_sign (S : list nat) (t : list bool) : Z := fold_right Z.mul 1%Z (map (fun q => zsgn (nth q t false)) S).

(* ------------------------------------------------------------------ exact views over a ring of amplitudes *)
Section Exact.
  Variable K : cring.
  Local Open Scope cr_scope.

  (* Wavefunction.get_probabilities: |a|^2 = conj(a) * a *)
  Definition norm2 (a : K) : K := cconj a * a.
  Definition probabilities (psi : Vec K) : nat -> K := fun i => norm2 (psi i).

  (* the Z-type term c * prod_{q in S} Z_q as a Pauli term of Pauli/Algebra.v *)
  Definition zterm (c : K) (S : list nat) : term K := mk_term c (map (fun q => (q, PZ)) S).
  Definition zsum_op (op : zop K) : psum K := map (fun t => zterm (fst t) (snd t)) op.

  (* sparse_tools.expectation: numpy.dot(numpy.conjugate(state), operator * state) *)
  Definition expectation (d : nat) (A : Mat K) (psi : Vec K) : K :=
    rsum d (fun i => cconj (psi i) * mvec d A psi i).

  (* get_sparse_operator's check: ValueError when n_qubits < operator.n_qubits *)
  Definition zop_width (op : zop K) : nat :=
    fold_right (fun t m => Nat.max (fold_right (fun q w => Nat.max (S q) w) 0%nat (snd t)) m) 0%nat op.
  (* get_exact_expectation_values before taking the real part *)
  Definition exact_expectation (n : nat) (op : zop K) (psi : Vec K) : option K :=
    if Nat.ltb n (zop_width op) then None
    else Some (expectation (2 ^ n) (sden n (zsum_op op)) psi).

  (* the eigenvalue of c * Z_S on the basis state whose outcome tuple is t *)
  Definition ksgn (b : bool) : K := if b then - c1 else c1.
  Definition eigenvalue (c : K) (S : list nat) (t : list bool) : K := c * lprod S (fun q => ksgn (nth q t false)).

  (* the computational basis vector e_j *)
  Definition basis_vec (j : nat) : Vec K := fun i => if Nat.eqb i j then c1 else c0.
  (* the X gate's matrix [[0, 1], [1, 0]] *)
  Definition xmat : Mat K := fun i j => if Nat.eqb i j then c0 else c1.
End Exact.

Arguments norm2 {K}. Arguments probabilities {K}. Arguments zterm {K}. Arguments zsum_op {K}. Arguments expectation {K}.
Arguments zop_width {K}. Arguments exact_expectation {K}. Arguments ksgn {K}. Arguments eigenvalue {K}.
Arguments basis_vec {K}. Arguments xmat {K}.

(* a tuple with a single 1, at position q *)
Definition onehot (n q : nat) : list bool := repeat false q ++ true :: repeat false (n - 1 - q).
(* the tuple that has a 1 exactly at the positions listed in qs *)
Definition marks (n : nat) (qs : list nat) : list bool := map (fun p => existsb (Nat.eqb p) qs) (seq 0 n).
(* a tuple with position q toggled *)
Definition flip_at (q : nat) (x : list bool) : list bool :=
  map (fun p => if Nat.eqb p q then negb (nth p x false) else nth p x false) (seq 0 (List.length x)).

(* ------------------------------------------------------------------ Measurements.get_distribution *)
(* counts[bitstring] / num_measurements per count string; the distribution's constructor turns every string key into
   tuple(map(int, key)): character p of the string becomes element p of the key *)
Definition get_distribution (shots : list (list bool)) : option (list (list bool * Q)) :=
  match shots with
  | [] => None                                       (* MeasurementOutcomeDistribution({}) raises RuntimeError *)
  | _ => Some (map (fun kc => (bits_of_str (fst kc),
                               Qdiv (inject_Z (snd kc)) (inject_Z (Z.of_nat (List.length shots))))) (get_counts shots))
  end.

(* ------------------------------------------------------------------ circuits of "classical" gates on wide registers
   A gate whose matrix has exactly one non-zero entry per column, a power of i: it maps the basis state with bits b
   (listed in the order of the gate's qubits, first qubit most significant) to the basis state with bits f(b), times
   a phase.  X, CNOT, SWAP and their controlled versions, S, Z, CZ, and permutation gates are of this kind.  The state
   of a circuit of such gates is a basis vector times a phase and can be followed on the tuple alone ([brun]),
   without any 2^n x 2^n matrix; ViewsProofs.classical_run connects it to C01's code mirror [Circuit.run]. *)
Require Import OQ.Circ.Lift OQ.Circ.LiftAlgebra OQ.Circ.Circuit.

Section Classical.
  Variable K : cring.
  Local Open Scope cr_scope.

  Record cgate : Type := mk_cgate { cg_qs : list nat; cg_f : list bool -> list bool; cg_ph : list bool -> K }.

  (* the matrix of such a gate on k qubits: column c has the entry ph(bits of c) in row val(f(bits of c)) *)
  Definition cmat (k : nat) (f : list bool -> list bool) (ph : list bool -> K) : Mat K :=
    fun r c => let b := bits k c in if Nat.eqb r (val (f b)) then ph b else c0.
  Definition cg_mat (g : cgate) : Mat K := cmat (List.length (cg_qs g)) (cg_f g) (cg_ph g).
  Definition cg_op (g : cgate) : op K := OGate (mk_gateapp (cg_mat g) (cg_qs g)).

  Definition cgate_ok (n : nat) (g : cgate) : Prop :=
    cg_qs g <> [] /\ NoDup (cg_qs g) /\ Forall (fun q => (q < n)%nat) (cg_qs g) /\
    forall b, List.length b = List.length (cg_qs g) -> List.length (cg_f g b) = List.length (cg_qs g).

  (* the state as (tuple, amplitude): read the gate's qubits off the tuple in the gate's order, apply f, write back *)
  Definition bstep (g : cgate) (st : list bool * K) : list bool * K :=
    let b := select (cg_qs g) (fst st) in (merge (cg_qs g) (cg_f g b) (fst st), snd st * cg_ph g b).
  Definition brun (gs : list cgate) (st : list bool * K) : list bool * K := fold_left (fun s g => bstep g s) gs st.

  (* amp * e_j *)
  Definition sbasis (amp : K) (j : nat) : Vec K := fun i => if Nat.eqb i j then amp else c0.

  (* gates given by tables: column a goes to row perm[a] with the entry i^exps[a] *)
  Definition ipow (e : nat) : K :=
    match (e mod 4)%nat with 0%nat => c1 | 1%nat => ci | 2%nat => - c1 | _ => - ci end.
  Definition table_gate (qs : list nat) (perm exps : list nat) : cgate :=
    mk_cgate qs (fun b => bits (List.length qs) (nth (val b) perm 0%nat)) (fun b => ipow (nth (val b) exps 0%nat)).
End Classical.

Arguments mk_cgate {K}. Arguments cg_qs {K}. Arguments cg_f {K}. Arguments cg_ph {K}. Arguments cmat {K}.
Arguments cg_mat {K}. Arguments cg_op {K}. Arguments cgate_ok {K}. Arguments bstep {K}. Arguments brun {K}.
Arguments sbasis {K}. Arguments ipow {K}. Arguments table_gate {K}.
