(* Proofs about the views of a simulated state (property C04). *)
Require Import Coq.Arith.Arith Coq.ZArith.ZArith Coq.NArith.NArith Coq.QArith.QArith Coq.Lists.List Coq.Bool.Bool
  Coq.Strings.String Coq.Strings.Ascii Coq.micromega.Lia Coq.setoid_ring.Ring.
Require Import OQ.Base.Ring OQ.Base.Sums OQ.Base.Bits OQ.Base.Mat OQ.Pauli.Algebra OQ.Pauli.Den
  OQ.Circ.Lift OQ.Circ.LiftProofs OQ.Circ.Circuit OQ.Circ.CircuitProofs OQ.State.Views.
Import ListNotations.
Close Scope Q_scope.
Open Scope list_scope.
Open Scope nat_scope.

(* ------------------------------------------------------------------ strings of bits *)
Lemma char_bit_bchar b : char_bit (bchar b) = b.
Proof. destruct b; reflexivity. Qed.

Lemma bits_of_str_of_bits l : bits_of_str (str_of_bits l) = l.
Proof.
  unfold bits_of_str, str_of_bits. rewrite list_ascii_of_string_of_list_ascii, map_map.
  rewrite <- (map_id l) at 2. apply map_ext. exact char_bit_bchar.
Qed.

Lemma str_rev_of_bits l : str_rev (str_of_bits l) = str_of_bits (rev l).
Proof. unfold str_rev, str_of_bits. rewrite list_ascii_of_string_of_list_ascii, map_rev. reflexivity. Qed.

Lemma string_length_of_list l : String.length (string_of_list_ascii l) = List.length l.
Proof. induction l as [|c l IH]; cbn [string_of_list_ascii String.length List.length]; [reflexivity|]. rewrite IH. reflexivity. Qed.

Lemma str_of_bits_length l : String.length (str_of_bits l) = List.length l.
Proof. unfold str_of_bits. rewrite string_length_of_list, map_length. reflexivity. Qed.

Lemma string_get_of_list l k : String.get k (string_of_list_ascii l) = nth_error l k.
Proof.
  revert k. induction l as [|c l IH]; intros [|k]; cbn [string_of_list_ascii String.get nth_error]; try reflexivity.
  apply IH.
Qed.

Lemma str_of_bits_get l k : k < List.length l -> String.get k (str_of_bits l) = Some (bchar (nth k l false)).
Proof.
  intro Hk. unfold str_of_bits. rewrite string_get_of_list.
  rewrite (nth_error_nth' (map bchar l) (bchar false)) by (rewrite map_length; exact Hk).
  rewrite map_nth. reflexivity.
Qed.

Lemma str_of_bits_inj a b : str_of_bits a = str_of_bits b -> a = b.
Proof. intro H. rewrite <- (bits_of_str_of_bits a), <- (bits_of_str_of_bits b), H. reflexivity. Qed.

(* tuple -> count string -> row of the parity matrix is the identity, position by position *)
Lemma row_of_tuple_key t : row_of_key (tuple_to_bitstring t) = t.
Proof. apply bits_of_str_of_bits. Qed.

Lemma tuple_of_bitstring_of_tuple t : bitstring_to_tuple (tuple_to_bitstring t) = rev t.
Proof. unfold bitstring_to_tuple, tuple_to_bitstring. rewrite str_rev_of_bits. apply bits_of_str_of_bits. Qed.

(* ------------------------------------------------------------------ format(i, "0{n}b") *)
Lemma val_snoc l b : val (l ++ [b]) = 2 * val l + b2n b.
Proof. rewrite val_app. cbn [val List.length Nat.pow]. lia. Qed.

Lemma pos_bits_val p : val (pos_bits p) = Pos.to_nat p.
Proof.
  induction p as [p IH|p IH|]; cbn [pos_bits].
  - rewrite val_snoc, IH, Pos2Nat.inj_xI. cbn [b2n]. lia.
  - rewrite val_snoc, IH, Pos2Nat.inj_xO. cbn [b2n]. lia.
  - reflexivity.
Qed.

Lemma pos_bits_head p : exists r, pos_bits p = true :: r.
Proof.
  induction p as [p [r IH]|p [r IH]|]; cbn [pos_bits].
  - exists (r ++ [true]). rewrite IH. reflexivity.
  - exists (r ++ [false]). rewrite IH. reflexivity.
  - exists []. reflexivity.
Qed.

Lemma bin_digits_val i : val (bin_digits i) = i.
Proof.
  unfold bin_digits. destruct (N.of_nat i) as [|p] eqn:E.
  - cbn. lia.
  - rewrite pos_bits_val. apply (f_equal N.to_nat) in E. rewrite Nat2N.id in E. cbn in E. lia.
Qed.

Lemma bin_digits_length i n : 1 <= n -> i < 2 ^ n -> List.length (bin_digits i) <= n.
Proof.
  intros Hn Hi. pose proof (bin_digits_val i) as Hv. unfold bin_digits in *.
  destruct (N.of_nat i) as [|p]; [cbn; lia|].
  destruct (pos_bits_head p) as [r Hr]. rewrite Hr in *. cbn [val b2n List.length] in *.
  assert (H : 2 ^ List.length r < 2 ^ n) by lia.
  apply Nat.pow_lt_mono_r_iff in H; lia.
Qed.

Lemma val_repeat_false k : val (repeat false k) = 0.
Proof. induction k as [|k IH]; cbn [repeat val b2n]; [reflexivity|]. rewrite IH. lia. Qed.

Lemma zfill_bits n i : 1 <= n -> i < 2 ^ n -> zfill n (bin_digits i) = bits n i.
Proof.
  intros Hn Hi. pose proof (bin_digits_length i n Hn Hi) as Hl.
  set (l := zfill n (bin_digits i)).
  assert (Hlen : List.length l = n) by (subst l; unfold zfill; rewrite app_length, repeat_length; lia).
  assert (Hval : val l = i) by (subst l; unfold zfill; rewrite val_app, val_repeat_false, bin_digits_val; lia).
  rewrite <- (bits_val l), Hlen, Hval. reflexivity.
Qed.

Lemma format_b_bits n i : 1 <= n -> i < 2 ^ n -> format_b n i = str_of_bits (bits n i).
Proof. intros Hn Hi. unfold format_b. rewrite zfill_bits by assumption. reflexivity. Qed.

(* the outcome string of amplitude index i is its bits, least significant first ... *)
Lemma outcome_key_bits n i : 1 <= n -> i < 2 ^ n -> outcome_key n i = str_of_bits (rev (bits n i)).
Proof. intros Hn Hi. unfold outcome_key. rewrite format_b_bits by assumption. apply str_rev_of_bits. Qed.

(* ... and bitstring_to_tuple reverses it back: the tuple is the bits of i, qubit 0 (most significant) first *)
Lemma key_roundtrip_lemma n i : 1 <= n -> i < 2 ^ n -> bitstring_to_tuple (outcome_key n i) = bits n i.
Proof.
  intros Hn Hi. rewrite outcome_key_bits by assumption. unfold bitstring_to_tuple.
  rewrite str_rev_of_bits, rev_involutive. apply bits_of_str_of_bits.
Qed.

(* the zero-width register: format(0, "00b") = "0" *)
Lemma outcome_key_zero_width : outcome_key 0 0 = "0"%string /\ bitstring_to_tuple (outcome_key 0 0) = [false].
Proof. split; reflexivity. Qed.

(* ------------------------------------------------------------------ itertools.product order *)
Lemma map_seq_double {A} (g : nat -> A) k :
  map g (seq 0 (2 * k)) = flat_map (fun j => [g (2 * j); g (2 * j + 1)]) (seq 0 k).
Proof.
  induction k as [|k IH]; [reflexivity|].
  replace (2 * S k) with (S (S (2 * k))) by lia.
  rewrite !seq_S, !map_app, IH, flat_map_app. cbn [map flat_map Nat.add app].
  rewrite <- app_assoc. cbn [app]. replace (2 * k + 1) with (S (2 * k)) by lia. reflexivity.
Qed.

Lemma bits_snoc m j b : bits (S m) (2 * j + b2n b) = bits m j ++ [b].
Proof.
  replace (S m) with (m + 1) by lia. rewrite bits_app. change (2 ^ 1) with 2.
  assert (Hd : (2 * j + b2n b) / 2 = j).
  { replace (2 * j + b2n b) with (b2n b + j * 2) by lia. rewrite Nat.div_add by lia. destruct b; cbn; lia. }
  assert (Hm : (2 * j + b2n b) mod 2 = b2n b).
  { replace (2 * j + b2n b) with (b2n b + j * 2) by lia. rewrite Nat.mod_add by lia. destruct b; reflexivity. }
  rewrite Hd. f_equal. cbn [bits]. f_equal. unfold bit_at. change (2 ^ 0) with 1. rewrite Nat.div_1_r, Hm.
  destruct b; reflexivity.
Qed.

Lemma product_bits_all n : product_bits n = all_bits n.
Proof.
  unfold all_bits. induction n as [|n IH]; [reflexivity|].
  cbn [product_bits]. rewrite IH. replace (2 ^ S n) with (2 * 2 ^ n) by (cbn; lia).
  rewrite map_seq_double, flat_map_concat_map, map_map, <- flat_map_concat_map.
  apply flat_map_ext. intro j.
  rewrite <- (bits_snoc n j false), <- (bits_snoc n j true). cbn [b2n]. rewrite Nat.add_0_r. reflexivity.
Qed.

Lemma product_bits_length n : List.length (product_bits n) = 2 ^ n.
Proof. rewrite product_bits_all. unfold all_bits. rewrite map_length, seq_length. reflexivity. Qed.

Lemma product_order_lemma n i : i < 2 ^ n -> nth i (product_bits n) [] = bits n i.
Proof. intro Hi. rewrite product_bits_all. apply all_bits_nth. exact Hi. Qed.

(* the key of the exact distribution at position i is the same tuple that sampling index i yields *)
Lemma dist_key_is_sample_tuple n i : 1 <= n -> i < 2 ^ n ->
  nth i (product_bits n) [] = bitstring_to_tuple (outcome_key n i).
Proof. intros Hn Hi. rewrite product_order_lemma, key_roundtrip_lemma by assumption. reflexivity. Qed.

(* ------------------------------------------------------------------ lengths *)
Lemma length_views_lemma n i : 1 <= n -> i < 2 ^ n ->
  String.length (outcome_key n i) = n /\
  List.length (bitstring_to_tuple (outcome_key n i)) = n /\
  List.length (nth i (product_bits n) []) = n /\
  String.length (tuple_to_bitstring (bitstring_to_tuple (outcome_key n i))) = n.
Proof.
  intros Hn Hi. rewrite key_roundtrip_lemma, product_order_lemma, outcome_key_bits by assumption.
  unfold tuple_to_bitstring. rewrite !str_of_bits_length, rev_length, bits_length. repeat split; reflexivity.
Qed.

Lemma product_bits_lengths n : Forall (fun t => List.length t = n) (product_bits n).
Proof.
  rewrite product_bits_all. unfold all_bits. apply Forall_forall. intros t Ht.
  apply in_map_iff in Ht. destruct Ht as [i [<- _]]. apply bits_length.
Qed.

(* ------------------------------------------------------------------ the two sampling branches *)
Lemma outcome_strings_nth n k : k < 2 ^ n -> nth k (outcome_strings n) EmptyString = outcome_key n k.
Proof.
  intro Hk. unfold outcome_strings.
  rewrite (nth_indep _ EmptyString (outcome_key n 0)) by (rewrite map_length, seq_length; exact Hk).
  rewrite map_nth, seq_nth by exact Hk. reflexivity.
Qed.

Lemma outcome_strings_length n : List.length (outcome_strings n) = 2 ^ n.
Proof. unfold outcome_strings. rewrite map_length, seq_length. reflexivity. Qed.

Lemma sample_few_spec n chosen : 1 <= n -> Forall (fun k => k < 2 ^ n) chosen ->
  sample_few n chosen = map (fun k => Tup (bits n k)) chosen.
Proof.
  intros Hn Hc. unfold sample_few. apply map_ext_in. intros k Hk.
  assert (Hlt : k < 2 ^ n) by (eapply Forall_forall in Hc; eauto).
  rewrite outcome_strings_nth, key_roundtrip_lemma by assumption. reflexivity.
Qed.

Lemma sample_many_spec n chosen : 1 <= n -> Forall (fun k => k < 2 ^ n) chosen ->
  sample_many n chosen = map (fun k => Tup (bits n k)) chosen.
Proof.
  intros Hn Hc. unfold sample_many. apply map_ext_in. intros k Hk.
  assert (Hlt : k < 2 ^ n) by (eapply Forall_forall in Hc; eauto).
  rewrite app_nth1 by (rewrite map_length, outcome_strings_length; exact Hlt).
  rewrite (nth_indep _ Zero ((fun s => Tup (bitstring_to_tuple s)) EmptyString))
    by (rewrite map_length, outcome_strings_length; exact Hlt).
  rewrite (map_nth (fun s => Tup (bitstring_to_tuple s))), outcome_strings_nth, key_roundtrip_lemma by assumption.
  reflexivity.
Qed.

(* the appended non-tuple sits at position 2^n *)
Lemma sample_many_extra n : sample_many n [2 ^ n] = [Zero].
Proof.
  unfold sample_many. cbn [map]. rewrite app_nth2 by (rewrite map_length, outcome_strings_length; lia).
  rewrite map_length, outcome_strings_length, Nat.sub_diag. reflexivity.
Qed.

Lemma branches_agree_lemma n chosen : 1 <= n -> Forall (fun k => k < 2 ^ n) chosen ->
  sample_many n chosen = sample_few n chosen /\ sample_few n chosen = map (fun k => Tup (bits n k)) chosen.
Proof. intros Hn Hc. rewrite sample_many_spec, sample_few_spec by assumption. split; reflexivity. Qed.

Lemma sample_any_regime n n_samples chosen : 1 <= n -> (1 <= n_samples)%Z -> Forall (fun k => k < 2 ^ n) chosen ->
  sample_from_wavefunction n n_samples chosen = Some (map (fun k => Tup (bits n k)) chosen).
Proof.
  intros Hn Hs Hc. unfold sample_from_wavefunction.
  destruct (Z.ltb_spec n_samples 1) as [H|_]; [lia|].
  destruct (Z.ltb _ _); [rewrite sample_many_spec|rewrite sample_few_spec]; try assumption; reflexivity.
Qed.

Lemma sample_rejects n n_samples chosen : (n_samples < 1)%Z -> sample_from_wavefunction n n_samples chosen = None.
Proof. intro H. unfold sample_from_wavefunction. destruct (Z.ltb_spec n_samples 1); [reflexivity|lia]. Qed.

Lemma map_repeat_eq {A B} (f : A -> B) x k : map f (repeat x k) = repeat (f x) k.
Proof. induction k as [|k IH]; cbn [repeat map]; [reflexivity|]. rewrite IH. reflexivity. Qed.

Lemma tuples_of_map_tup l : tuples_of (map Tup l) = Some l.
Proof. induction l as [|t l IH]; cbn [map tuples_of]; [reflexivity|]. rewrite IH. reflexivity. Qed.

Lemma run_and_measure_spec n n_samples chosen : 1 <= n -> (1 <= n_samples)%Z -> Forall (fun k => k < 2 ^ n) chosen ->
  run_and_measure n n_samples chosen = Some (map (bits n) chosen).
Proof.
  intros Hn Hs Hc. unfold run_and_measure. rewrite sample_any_regime by assumption.
  rewrite <- (map_map (bits n) Tup). apply tuples_of_map_tup.
Qed.

(* the sampler's contract: it only returns positions of positive weight; the array of the first branch has the extra
   element at position 2^n, of weight 0 *)
Definition wext (n : nat) (w : nat -> Q) (k : nat) : Q := if Nat.ltb k (2 ^ n) then w k else 0%Q.

Lemma positive_weight_in_range n w k : k <= 2 ^ n -> (0 < wext n w k)%Q -> k < 2 ^ n /\ (0 < w k)%Q.
Proof.
  intros Hk Hw. unfold wext in Hw. destruct (Nat.ltb_spec k (2 ^ n)) as [H|H]; [split; assumption|].
  exfalso. exact (Qlt_irrefl 0%Q Hw).
Qed.

Lemma sample_support_lemma n w n_samples chosen l : 1 <= n ->
  Forall (fun k => k <= 2 ^ n /\ (0 < wext n w k)%Q) chosen ->
  sample_from_wavefunction n n_samples chosen = Some l ->
  l = map (fun k => Tup (bits n k)) chosen /\
  Forall (fun s => exists t, s = Tup t /\ List.length t = n /\ val t < 2 ^ n /\ (0 < w (val t))%Q) l.
Proof.
  intros Hn Hc Hs.
  assert (Hr : Forall (fun k => k < 2 ^ n) chosen).
  { eapply Forall_impl; [|exact Hc]. intros k [Hk Hw]. apply (positive_weight_in_range n w k Hk Hw). }
  destruct (Z.ltb_spec n_samples 1) as [Hlt|Hge]; [rewrite sample_rejects in Hs by exact Hlt; discriminate|].
  rewrite sample_any_regime in Hs by assumption. inversion Hs; subst l; clear Hs. split; [reflexivity|].
  apply Forall_forall. intros s Hin. apply in_map_iff in Hin. destruct Hin as [k [<- Hk]].
  eapply Forall_forall in Hc; [|exact Hk]. destruct Hc as [Hle Hw].
  destruct (positive_weight_in_range n w k Hle Hw) as [Hlt Hp].
  exists (bits n k). rewrite bits_length, val_bits_lt by exact Hlt. repeat split; assumption.
Qed.

(* ------------------------------------------------------------------ counts and measured expectation values *)
Definition wsum (f : string -> Z) (d : counts) : Z := zsum (map (fun kc => (snd kc * f (fst kc))%Z) d).

Lemma wsum_add f k c d : wsum f (add_count k c d) = (wsum f d + c * f k)%Z.
Proof.
  unfold wsum. induction d as [|[k' c'] d IH]; cbn [add_count map zsum fold_right fst snd]; [lia|].
  destruct (String.eqb_spec k k') as [->|Hne]; cbn [map zsum fold_right fst snd].
  - lia.
  - unfold zsum in IH. rewrite IH. lia.
Qed.

Lemma wsum_fold f shots : forall d,
  wsum f (fold_left (fun d t => add_count (tuple_to_bitstring t) 1%Z d) shots d)
  = (wsum f d + zsum (map (fun t => f (tuple_to_bitstring t)) shots))%Z.
Proof.
  induction shots as [|t r IH]; intro d; cbn [fold_left map zsum fold_right]; [lia|].
  rewrite IH, wsum_add. unfold zsum. lia.
Qed.

Lemma wsum_counts f shots : wsum f (get_counts shots) = zsum (map (fun t => f (tuple_to_bitstring t)) shots).
Proof. unfold get_counts. rewrite wsum_fold. cbn. reflexivity. Qed.

Lemma mod2_cases s : (s mod 2 = 0 \/ s mod 2 = 1)%Z.
Proof. pose proof (Z.mod_pos_bound s 2 ltac:(lia)). lia. Qed.

Lemma parity_sign marked r : (parity_row marked r * 2 - 1)%Z = tuple_sign marked r.
Proof.
  assert (G : forall l, ((zsum (map (fun q => b2z (nth q r false)) l) + 1) mod 2 * 2 - 1)%Z = tuple_sign l r).
  { induction l as [|q l IH]; [reflexivity|].
    unfold tuple_sign in *. cbn [map zsum fold_right]. rewrite <- IH. fold (zsum (map (fun q => b2z (nth q r false)) l)).
    set (s := zsum (map (fun q => b2z (nth q r false)) l)).
    destruct (nth q r false); cbn [b2z zsgn].
    - replace (1 + s + 1)%Z with (s + 1 * 2)%Z by lia. rewrite Z.mod_add by lia.
      rewrite (Z.add_mod s 1 2) by lia. destruct (mod2_cases s) as [E|E]; rewrite E; reflexivity.
    - replace (0 + s + 1)%Z with (s + 1)%Z by lia. lia. }
  destruct marked as [|q l]; [reflexivity|]. unfold parity_row. apply G.
Qed.

(* the measured numerator reads POSITION q of every sampled tuple for qubit q *)
Lemma efreq_num_counts marked shots :
  efreq_num marked (get_counts shots) = zsum (map (tuple_sign marked) shots).
Proof.
  change (efreq_num marked (get_counts shots))
    with (wsum (fun k => (parity_row marked (row_of_key k) * 2 - 1)%Z) (get_counts shots)).
  rewrite wsum_counts. f_equal. apply map_ext. intro t. rewrite row_of_tuple_key. apply parity_sign.
Qed.

Lemma efreq_den_counts shots : efreq_den (get_counts shots) = Z.of_nat (List.length shots).
Proof.
  assert (H : efreq_den (get_counts shots) = wsum (fun _ => 1%Z) (get_counts shots)).
  { unfold efreq_den, wsum. f_equal. apply map_ext. intro kc. lia. }
  rewrite H, wsum_counts. clear H. induction shots as [|t r IH]; [reflexivity|].
  cbn [map zsum fold_right List.length]. unfold zsum in IH. rewrite IH. lia.
Qed.

Lemma add_count_head k c k0 c0 d : exists c1, add_count k c ((k0, c0) :: d) = (k0, c1) :: tl (add_count k c ((k0, c0) :: d)).
Proof. cbn [add_count]. destruct (String.eqb k k0); eexists; reflexivity. Qed.

Lemma fold_counts_head shots : forall k0 c0 d, exists c1 d1,
  fold_left (fun d t => add_count (tuple_to_bitstring t) 1%Z d) shots ((k0, c0) :: d) = (k0, c1) :: d1.
Proof.
  induction shots as [|t r IH]; intros k0 c0 d; cbn [fold_left]; [eexists; eexists; reflexivity|].
  destruct (add_count_head (tuple_to_bitstring t) 1%Z k0 c0 d) as [c1 E]. rewrite E. apply IH.
Qed.

Lemma get_counts_head t r : exists c1 d1, get_counts (t :: r) = (tuple_to_bitstring t, c1) :: d1.
Proof. unfold get_counts. cbn [fold_left add_count]. apply fold_counts_head. Qed.

Lemma marked_ok_true width marked : Forall (fun q => q < width) marked -> marked_ok width marked = true.
Proof.
  intro H. unfold marked_ok. apply forallb_forall. intros q Hq. apply Nat.ltb_lt. eapply Forall_forall in H; eauto.
Qed.

Lemma efreq_positions n marked shots : 1 <= n -> shots <> [] -> Forall (fun t => List.length t = n) shots ->
  Forall (fun q => q < n) marked ->
  efreq marked (get_counts shots)
  = Some (Qdiv (inject_Z (zsum (map (tuple_sign marked) shots))) (inject_Z (Z.of_nat (List.length shots)))).
Proof.
  intros Hn Hne Hl Hm. destruct shots as [|t r]; [congruence|].
  unfold efreq. destruct (get_counts_head t r) as [c1 [d1 E]].
  rewrite <- efreq_num_counts, <- efreq_den_counts. rewrite E.
  assert (Hlen : String.length (tuple_to_bitstring t) = n).
  { unfold tuple_to_bitstring. rewrite str_of_bits_length. inversion Hl; assumption. }
  rewrite Hlen. destruct (Nat.eqb_spec n 0) as [H0|_]; [lia|]. rewrite marked_ok_true by exact Hm. reflexivity.
Qed.

Lemma all_some_map {A B} (f : A -> option B) (g : A -> B) l : (forall x, In x l -> f x = Some (g x)) ->
  all_some (map f l) = Some (map g l).
Proof.
  induction l as [|x l IH]; intro H; cbn [map all_some]; [reflexivity|].
  rewrite H by (left; reflexivity). rewrite IH by (intros; apply H; right; assumption). reflexivity.
Qed.

Lemma measured_values_positions n shots (op : zop Q) : 1 <= n -> shots <> [] ->
  Forall (fun t => List.length t = n) shots -> Forall (fun t => Forall (fun q => q < n) (snd t)) op ->
  measured_values shots op
  = Some (map (fun t => Qmult (fst t) (Qdiv (inject_Z (zsum (map (tuple_sign (snd t)) shots)))
                                            (inject_Z (Z.of_nat (List.length shots))))) op).
Proof.
  intros Hn Hne Hl Hop. unfold measured_values. apply all_some_map. intros t Ht.
  rewrite (efreq_positions n) by (try assumption; eapply Forall_forall in Hop; eauto). reflexivity.
Qed.

(* ------------------------------------------------------------------ one-hot tuples *)
Lemma nth_repeat_false k p : nth p (repeat false k) false = false.
Proof. revert p. induction k as [|k IH]; intros [|p]; cbn [repeat nth]; try reflexivity. apply IH. Qed.

Lemma onehot_length n q : q < n -> List.length (onehot n q) = n.
Proof. intro H. unfold onehot. rewrite app_length, repeat_length. cbn [List.length]. rewrite repeat_length. lia. Qed.

Lemma nth_onehot n q p : nth p (onehot n q) false = Nat.eqb p q.
Proof.
  unfold onehot. destruct (Nat.lt_ge_cases p q) as [H|H].
  - rewrite app_nth1 by (rewrite repeat_length; exact H). rewrite nth_repeat_false.
    symmetry. apply Nat.eqb_neq. lia.
  - rewrite app_nth2 by (rewrite repeat_length; exact H). rewrite repeat_length.
    destruct (Nat.eqb_spec p q) as [->|Hne].
    + rewrite Nat.sub_diag. reflexivity.
    + destruct (p - q) as [|d] eqn:E; [lia|]. cbn [nth]. apply nth_repeat_false.
Qed.

Lemma val_onehot n q : q < n -> val (onehot n q) = 2 ^ (n - 1 - q).
Proof.
  intro H. unfold onehot. rewrite val_app, val_repeat_false. cbn [val b2n]. rewrite val_repeat_false, repeat_length. lia.
Qed.

Lemma onehot_index_lt n q : q < n -> 2 ^ (n - 1 - q) < 2 ^ n.
Proof. intro H. apply Nat.pow_lt_mono_r; lia. Qed.

Lemma bits_onehot n q : q < n -> bits n (2 ^ (n - 1 - q)) = onehot n q.
Proof.
  intro H. rewrite <- (val_onehot n q H). rewrite <- (onehot_length n q H) at 1. apply bits_val.
Qed.

Lemma nth_bits_zero n k : nth k (bits n 0) false = false.
Proof.
  revert k. induction n as [|n IH]; intro k; [destruct k; reflexivity|].
  cbn [bits]. destruct k as [|k]; cbn [nth]; [|apply IH].
  unfold bit_at. rewrite Nat.div_0_l by (pose proof (pow2_pos n); lia). reflexivity.
Qed.

Lemma bool_lists_differ (a b : list bool) : List.length a = List.length b -> a <> b ->
  exists q, q < List.length a /\ nth q a false <> nth q b false.
Proof.
  revert b. induction a as [|x a IH]; intros [|y b] Hl Hne; cbn [List.length] in *; try discriminate; [congruence|].
  destruct (Bool.bool_dec x y) as [->|Hxy].
  - destruct (IH b ltac:(lia) ltac:(congruence)) as [q [Hq Hd]]. exists (S q). split; [lia|exact Hd].
  - exists 0. split; [lia|exact Hxy].
Qed.

(* the count string of a one-hot tuple has the character 1 exactly at that position *)
Lemma onehot_count_string n q p : q < n -> p < n ->
  String.get p (tuple_to_bitstring (onehot n q)) = Some (if Nat.eqb p q then "1"%char else "0"%char).
Proof.
  intros Hq Hp. unfold tuple_to_bitstring. rewrite str_of_bits_get by (rewrite onehot_length; assumption).
  rewrite nth_onehot. destruct (Nat.eqb p q); reflexivity.
Qed.

Lemma tuple_sign_onehot n q p : tuple_sign [p] (onehot n q) = if Nat.eqb p q then (-1)%Z else 1%Z.
Proof. unfold tuple_sign. cbn [map fold_right]. rewrite nth_onehot. destruct (Nat.eqb p q); reflexivity. Qed.

(* ------------------------------------------------------------------ exact expectation values *)
Lemma combine_map_same {A B C} (f : A -> B) (g : A -> C) l : combine (map f l) (map g l) = map (fun x => (f x, g x)) l.
Proof. induction l as [|x l IH]; cbn [map combine]; [reflexivity|]. rewrite IH. reflexivity. Qed.

Lemma exact_dist_map {A} n (p : nat -> A) : exact_dist n p = map (fun i => (bits n i, p i)) (seq 0 (2 ^ n)).
Proof. unfold exact_dist. rewrite product_bits_all. unfold all_bits. apply combine_map_same. Qed.

Lemma lookup_zops q S : lookup q (map (fun q => (q, PZ)) S) = if mem q S then Some PZ else None.
Proof.
  induction S as [|a S IH]; [reflexivity|]. cbn [map lookup mem existsb]. fold (mem q S).
  destruct (Nat.eqb q a); [reflexivity|exact IH].
Qed.

Section ExactProofs.
  Variable K : cring.
  Add Ring Kring : (c_ring K).
  Local Open Scope cr_scope.

  Lemma lprod_zero {A} (l : list A) (f : A -> K) x : In x l -> f x = c0 -> lprod l f = c0.
  Proof.
    induction l as [|y l IH]; intros Hin Hf; [destruct Hin|]. cbn [lprod].
    destruct Hin as [->|Hin]; [rewrite Hf; ring|]. rewrite IH by assumption. ring.
  Qed.

  Lemma lprod_update n q u (h : nat -> K) : (q < n)%nat -> h q = c1 ->
    lprod (seq 0 n) (fun q' => if Nat.eqb q' q then u else h q') = u * lprod (seq 0 n) h.
  Proof.
    induction n as [|n IH]; intros Hq Hh; [lia|].
    rewrite seq_S, !lprod_app. cbn [lprod Nat.add].
    destruct (Nat.eq_dec q n) as [->|Hne].
    - rewrite Nat.eqb_refl, Hh.
      rewrite (lprod_ext K (seq 0 n) _ h).
      + ring.
      + intros x Hx. apply in_seq in Hx. destruct (Nat.eqb_spec x n); [lia|reflexivity].
    - rewrite IH by (lia || assumption). destruct (Nat.eqb_spec n q); [lia|]. ring.
  Qed.

  (* a product over the register that is trivial off S is the product over S *)
  Lemma lprod_on_subset n S (g : nat -> K) : NoDup S -> Forall (fun q => (q < n)%nat) S ->
    lprod (seq 0 n) (fun q => if mem q S then g q else c1) = lprod S g.
  Proof.
    induction S as [|a S IH]; intros Hnd Hr.
    - cbn [mem existsb lprod]. apply lprod_one.
    - inversion Hnd as [|? ? Hni Hnd']; subst. inversion Hr as [|? ? Ha Hr']; subst.
      cbn [lprod]. rewrite <- IH by assumption.
      rewrite <- (lprod_update n a (g a) (fun q => if mem q S then g q else c1)).
      + apply lprod_ext. intros q _. cbn [mem existsb]. fold (mem q S).
        destruct (Nat.eqb_spec q a) as [->|Hne]; reflexivity.
      + exact Ha.
      + apply mem_false in Hni. rewrite Hni. reflexivity.
  Qed.

  (* the matrix of c * Z_S is diagonal, with the eigenvalue read at positions S of the bits of the index *)
  Lemma den_zterm_diag n (c : K) S i : NoDup S -> Forall (fun q => (q < n)%nat) S ->
    den n (zterm c S) i i = eigenvalue c S (bits n i).
  Proof.
    intros Hnd Hr. unfold den, zterm, eigenvalue, pprod. cbn [coef tops]. f_equal.
    rewrite <- (lprod_on_subset n S) by assumption. apply lprod_ext. intros q _.
    rewrite lookup_zops. unfold bitq. destruct (mem q S); cbn [sigma]; rewrite Bool.eqb_reflx; [|reflexivity].
    unfold ksgn. destruct (nth q (bits n i) false); reflexivity.
  Qed.

  Lemma den_zterm_offdiag n (c : K) S i j : (i < 2 ^ n)%nat -> (j < 2 ^ n)%nat -> i <> j -> den n (zterm c S) i j = c0.
  Proof.
    intros Hi Hj Hne. unfold den, zterm, pprod. cbn [coef tops].
    destruct (bool_lists_differ (bits n i) (bits n j)) as [q [Hq Hd]].
    - rewrite !bits_length. reflexivity.
    - intro E. apply Hne. apply (bits_inj n); assumption.
    - rewrite bits_length in Hq. rewrite (lprod_zero (seq 0 n) _ q); [ring|apply in_seq; lia|].
      rewrite lookup_zops. unfold bitq.
      assert (Hf : Bool.eqb (nth q (bits n i) false) (nth q (bits n j) false) = false)
        by (apply Bool.eqb_false_iff; exact Hd).
      destruct (mem q S); cbn [sigma]; rewrite Hf; reflexivity.
  Qed.

  Lemma mvec_den_zterm n (c : K) S (psi : Vec K) i : NoDup S -> Forall (fun q => (q < n)%nat) S -> (i < 2 ^ n)%nat ->
    mvec (2 ^ n) (den n (zterm c S)) psi i = eigenvalue c S (bits n i) * psi i.
  Proof.
    intros Hnd Hr Hi. unfold mvec. rewrite (rsum_single K (2 ^ n) i) by
      (try exact Hi; intros k Hk Hne; rewrite den_zterm_offdiag by (try assumption; congruence); ring).
    rewrite den_zterm_diag by assumption. reflexivity.
  Qed.

  (* <psi| c Z_S |psi> = sum_i |psi_i|^2 * (eigenvalue of c Z_S on the tuple of index i) *)
  Lemma z_expectation_eigen_avg_lemma n (c : K) S (psi : Vec K) : NoDup S -> Forall (fun q => (q < n)%nat) S ->
    expectation (2 ^ n) (den n (zterm c S)) psi
    = rsum (2 ^ n) (fun i => norm2 (psi i) * eigenvalue c S (bits n i)).
  Proof.
    intros Hnd Hr. unfold expectation. apply rsum_ext. intros i Hi.
    rewrite mvec_den_zterm by assumption. unfold norm2. ring.
  Qed.

  (* sums of terms: the expectation value is additive *)
  Lemma expectation_sden n (s : psum K) (psi : Vec K) d :
    expectation d (sden n s) psi = lsum s (fun t => expectation d (den n t) psi).
  Proof.
    unfold expectation, sden, mvec.
    rewrite (rsum_ext K d _ (fun i => lsum s (fun t => cconj (psi i) * rsum d (fun k => den n t i k * psi k)))).
    - symmetry. apply lsum_rsum_swap.
    - intros i _. rewrite lsum_scale_l. f_equal.
      rewrite lsum_rsum_swap. apply rsum_ext. intros k _. rewrite lsum_scale_r. reflexivity.
  Qed.

  Definition zop_fits (n : nat) (op : zop K) : Prop :=
    Forall (fun t => NoDup (snd t) /\ Forall (fun q => (q < n)%nat) (snd t)) op.

  Lemma zop_width_fits n (op : zop K) : zop_fits n op -> (zop_width op <= n)%nat.
  Proof.
    induction 1 as [|t op [_ Ht] _ IH]; cbn [zop_width fold_right]; [lia|].
    fold (zop_width op). apply Nat.max_lub; [|exact IH].
    induction Ht as [|q S Hq _ IHS]; cbn [fold_right]; [lia|]. apply Nat.max_lub; [lia|exact IHS].
  Qed.

  Lemma exact_expectation_eigen_avg n (op : zop K) (psi : Vec K) : zop_fits n op ->
    exact_expectation n op psi
    = Some (rsum (2 ^ n) (fun i => norm2 (psi i) * lsum op (fun t => eigenvalue (fst t) (snd t) (bits n i)))).
  Proof.
    intro Hf. unfold exact_expectation. pose proof (zop_width_fits n op Hf) as Hw.
    destruct (Nat.ltb_spec n (zop_width op)) as [H|_]; [lia|]. f_equal.
    rewrite expectation_sden. unfold zsum_op. rewrite lsum_map.
    rewrite (lsum_ext K op _ (fun t => rsum (2 ^ n) (fun i => norm2 (psi i) * eigenvalue (fst t) (snd t) (bits n i)))).
    - rewrite lsum_rsum_swap. apply rsum_ext. intros i _. apply lsum_scale_l.
    - intros t Ht. eapply Forall_forall in Hf; [|exact Ht]. destruct Hf as [Hnd Hr].
      apply z_expectation_eigen_avg_lemma; assumption.
  Qed.

  (* ... which is the average of the eigenvalues under the exact outcome distribution, the eigenvalue of each
     key being read at POSITION q of the key for qubit q of the operator *)
  Lemma z_expectation_dist_avg_lemma n (op : zop K) (psi : Vec K) : zop_fits n op ->
    exact_expectation n op psi
    = Some (lsum (exact_dist n (probabilities psi))
                 (fun kp => snd kp * lsum op (fun t => eigenvalue (fst t) (snd t) (fst kp)))).
  Proof.
    intro Hf. rewrite exact_expectation_eigen_avg by exact Hf. f_equal.
    rewrite exact_dist_map, lsum_map, rsum_seq. reflexivity.
  Qed.

  Lemma rejects_wide_operator n (op : zop K) (psi : Vec K) : (n < zop_width op)%nat -> exact_expectation n op psi = None.
  Proof. intro H. unfold exact_expectation. destruct (Nat.ltb_spec n (zop_width op)); [reflexivity|lia]. Qed.

  Lemma expectation_compat d (A : Mat K) (psi psi' : Vec K) : vec_eq d psi psi' ->
    expectation d A psi = expectation d A psi'.
  Proof.
    intro Hv. unfold expectation. apply rsum_ext. intros i Hi. rewrite (Hv i Hi). f_equal.
    apply mvec_compat; [apply mat_eq_refl|exact Hv|exact Hi].
  Qed.

  (* ---------------------------------------------------------------- the X gate *)
  Lemma val_single b : val [b] = b2n b.
  Proof. destruct b; reflexivity. Qed.

  Lemma lift_x_column n q i : (q < n)%nat -> (i < 2 ^ n)%nat ->
    lift_spec (K:=K) xmat [q] n i 0 = basis_vec (2 ^ (n - 1 - q)) i.
  Proof.
    intros Hq Hi. unfold lift_spec, select, basis_vec. cbn [map]. rewrite !val_single, nth_bits_zero. cbn [b2n].
    pose proof (onehot_index_lt n q Hq) as Hlt.
    destruct (agree_off [q] (bits n i) (bits n 0)) eqn:Ha.
    - apply agree_off_spec in Ha. destruct Ha as [_ Ha]. rewrite bits_length in Ha.
      destruct (nth q (bits n i) false) eqn:Hb; cbn [b2n ind]; unfold xmat; cbn [Nat.eqb].
      + assert (E : bits n i = onehot n q).
        { apply (nth_ext _ _ false false); [rewrite bits_length, onehot_length by exact Hq; reflexivity|].
          rewrite bits_length. intros k Hk. rewrite nth_onehot. destruct (Nat.eqb_spec k q) as [->|Hne]; [exact Hb|].
          rewrite Ha by (try exact Hk; intros [E|[]]; congruence). apply nth_bits_zero. }
        rewrite <- bits_onehot in E by exact Hq. apply bits_inj in E; try assumption. subst i.
        rewrite Nat.eqb_refl. ring.
      + destruct (Nat.eqb_spec i (2 ^ (n - 1 - q))) as [->|_]; [|ring].
        rewrite bits_onehot, nth_onehot, Nat.eqb_refl in Hb by exact Hq. discriminate.
    - cbn [ind]. destruct (Nat.eqb_spec i (2 ^ (n - 1 - q))) as [->|_]; [|ring].
      exfalso. assert (Ht : agree_off [q] (bits n (2 ^ (n - 1 - q))) (bits n 0) = true); [|congruence].
      apply agree_off_spec. rewrite !bits_length. split; [reflexivity|]. intros k Hk Hnin.
      rewrite bits_onehot, nth_onehot, nth_bits_zero by exact Hq.
      apply Nat.eqb_neq. intro E. apply Hnin. left. congruence.
  Qed.

  Definition xgate (q : nat) : op K := OGate (mk_gateapp xmat [q]).

  (* the code mirror of "apply X to qubit q of |0...0>" gives the basis vector of index 2^(n-1-q) *)
  Lemma run_x_gate n q : (q < n)%nat ->
    vec_eq (2 ^ n) (run n [xgate q] zero_state) (basis_vec (2 ^ (n - 1 - q))).
  Proof.
    intros Hq i Hi.
    assert (Hwf : Forall (wf_op (K:=K) n) [xgate q]).
    { constructor; [|constructor]. cbn [wf_op xgate]. unfold wf_gate. cbn [g_qs]. split; [discriminate|]. split.
      - constructor; [intros []|constructor].
      - constructor; [exact Hq|constructor]. }
    rewrite (run_eq_product K n [xgate q] zero_state Hwf i Hi).
    cbn [map prog_prod op_spec xgate]. unfold gate_spec. cbn [g_mat g_qs].
    rewrite mvec_mmul, mvec_eye by exact Hi.
    unfold mvec. rewrite (rsum_single K (2 ^ n) 0).
    - unfold zero_state at 1. cbn [Nat.eqb]. rewrite lift_x_column by assumption. ring.
    - apply pow2_pos.
    - intros k _ Hk. unfold zero_state. destruct (Nat.eqb_spec k 0); [congruence|ring].
  Qed.

  Lemma norm2_basis j i : norm2 (basis_vec (K:=K) j i) = if Nat.eqb i j then c1 else c0.
  Proof. unfold norm2, basis_vec. destruct (Nat.eqb i j); [rewrite conj_1; ring|ring]. Qed.

  (* on a basis state the expectation value is the eigenvalue of that state's tuple *)
  Lemma expectation_basis n (c : K) S j : NoDup S -> Forall (fun q => (q < n)%nat) S -> (j < 2 ^ n)%nat ->
    expectation (2 ^ n) (den n (zterm c S)) (basis_vec j) = eigenvalue c S (bits n j).
  Proof.
    intros Hnd Hr Hj. rewrite z_expectation_eigen_avg_lemma by assumption.
    rewrite (rsum_single K (2 ^ n) j).
    - rewrite norm2_basis, Nat.eqb_refl. ring.
    - exact Hj.
    - intros k _ Hk. rewrite norm2_basis. destruct (Nat.eqb_spec k j); [congruence|ring].
  Qed.

  Lemma eigenvalue_onehot n q p : eigenvalue (K:=K) c1 [p] (onehot n q) = if Nat.eqb p q then - c1 else c1.
  Proof. unfold eigenvalue. cbn [lprod]. rewrite nth_onehot. unfold ksgn. destruct (Nat.eqb p q); ring. Qed.

  (* gate index = amplitude index = tuple position = count-string position = operator index *)
  Lemma x_gate_marks_position_lemma n q : (q < n)%nat ->
    let psi := run n [xgate q] zero_state in
    let j := (2 ^ (n - 1 - q))%nat in
    vec_eq (2 ^ n) psi (basis_vec j) /\
    bitstring_to_tuple (outcome_key n j) = onehot n q /\
    nth j (product_bits n) [] = onehot n q /\
    (forall n_samples, (1 <= n_samples)%Z ->
       run_and_measure n n_samples (repeat j (Z.to_nat n_samples)) = Some (repeat (onehot n q) (Z.to_nat n_samples))) /\
    (forall p, (p < n)%nat ->
       nth p (onehot n q) false = Nat.eqb p q /\
       String.get p (tuple_to_bitstring (onehot n q)) = Some (if Nat.eqb p q then "1"%char else "0"%char) /\
       expectation (2 ^ n) (den n (zterm c1 [p])) psi = (if Nat.eqb p q then - c1 else c1) /\
       efreq [p] (get_counts [onehot n q]) = Some (Qdiv (inject_Z (if Nat.eqb p q then (-1)%Z else 1%Z)) (inject_Z 1))).
  Proof.
    intros Hq psi j. pose proof (onehot_index_lt n q Hq) as Hj. assert (Hn : (1 <= n)%nat) by lia.
    pose proof (run_x_gate n q Hq) as Hpsi. fold psi j in Hpsi.
    split; [exact Hpsi|]. split; [|split; [|split]].
    - subst j. rewrite key_roundtrip_lemma by assumption. apply bits_onehot. exact Hq.
    - subst j. rewrite product_order_lemma by assumption. apply bits_onehot. exact Hq.
    - intros ns Hns. rewrite run_and_measure_spec; try assumption.
      + rewrite map_repeat_eq. subst j. rewrite bits_onehot by exact Hq. reflexivity.
      + apply Forall_forall. intros k Hk. apply repeat_spec in Hk. subst k. exact Hj.
    - intros p Hp. split; [apply nth_onehot|]. split; [apply onehot_count_string; assumption|].
      assert (Hnd : NoDup [p]) by (constructor; [intros []|constructor]).
      assert (Hr : Forall (fun k => (k < n)%nat) [p]) by (constructor; [exact Hp|constructor]).
      split.
      + rewrite (expectation_compat (2 ^ n) _ psi (basis_vec j) Hpsi).
        rewrite (expectation_basis n c1 [p] j Hnd Hr Hj).
        subst j. rewrite bits_onehot by exact Hq. apply eigenvalue_onehot.
      + assert (Hl : Forall (fun t => List.length t = n) [onehot n q])
          by (constructor; [apply onehot_length; exact Hq|constructor]).
        rewrite (efreq_positions n [p] [onehot n q] Hn ltac:(discriminate) Hl Hr).
        cbn [map zsum fold_right List.length]. rewrite tuple_sign_onehot.
        destruct (Nat.eqb p q); reflexivity.
  Qed.
End ExactProofs.

(* ------------------------------------------------------------------ statements assembled for Props/C04.v *)
Lemma count_string_positions_lemma t p : p < List.length t ->
  String.get p (tuple_to_bitstring t) = Some (bchar (nth p t false)) /\ row_of_key (tuple_to_bitstring t) = t.
Proof. intro Hp. split; [exact (str_of_bits_get t p Hp)|exact (row_of_tuple_key t)]. Qed.

(* known finding F6 *)
Lemma zero_width_sample_length :
  exists n_samples chosen shots, run_and_measure 0 n_samples chosen = Some shots /\
                                 exists t, In t shots /\ List.length t <> 0.
Proof.
  exists 1%Z, [0], [[false]]. split; [reflexivity|]. exists [false]. split; [left; reflexivity|discriminate].
Qed.

Lemma sampling_regime_lemma n n_samples chosen : 1 <= n -> (1 <= n_samples)%Z ->
  Forall (fun k => k < 2 ^ n) chosen ->
  sample_from_wavefunction n n_samples chosen = Some (map (fun k => Tup (bits n k)) chosen) /\
  run_and_measure n n_samples chosen = Some (map (bits n) chosen).
Proof.
  intros Hn Hs Hc. split; [exact (sample_any_regime n n_samples chosen Hn Hs Hc)|exact (run_and_measure_spec n n_samples chosen Hn Hs Hc)].
Qed.

Lemma counts_expectation_positions_lemma n marked shots : 1 <= n -> shots <> [] ->
  Forall (fun t => List.length t = n) shots -> Forall (fun q => q < n) marked ->
  efreq_num marked (get_counts shots) = zsum (map (tuple_sign marked) shots) /\
  efreq_den (get_counts shots) = Z.of_nat (List.length shots) /\
  efreq marked (get_counts shots)
  = Some (Qdiv (inject_Z (zsum (map (tuple_sign marked) shots))) (inject_Z (Z.of_nat (List.length shots)))).
Proof.
  intros Hn Hne Hl Hm.
  split; [exact (efreq_num_counts marked shots)|]. split; [exact (efreq_den_counts shots)|].
  exact (efreq_positions n marked shots Hn Hne Hl Hm).
Qed.

Lemma z_expectation_dist_avg_both (K : cring) n (op : zop K) (psi : Vec K) : zop_fits K n op ->
  exact_expectation n op psi
  = Some (rsum (2 ^ n) (fun i => cmul (norm2 (psi i)) (lsum op (fun t => eigenvalue (fst t) (snd t) (bits n i))))) /\
  exact_expectation n op psi
  = Some (lsum (exact_dist n (probabilities psi))
               (fun kp => cmul (snd kp) (lsum op (fun t => eigenvalue (fst t) (snd t) (fst kp))))).
Proof.
  intro Hf. split; [exact (exact_expectation_eigen_avg K n op psi Hf)|exact (z_expectation_dist_avg_lemma K n op psi Hf)].
Qed.

(* ------------------------------------------------------------------ X on a set of qubits *)
Lemma nth_map_seq {A} (f : nat -> A) n p d : p < n -> nth p (map f (seq 0 n)) d = f p.
Proof.
  intro Hp. rewrite (nth_indep _ d (f 0)) by (rewrite map_length, seq_length; exact Hp).
  rewrite map_nth, seq_nth by exact Hp. reflexivity.
Qed.

Lemma marks_length n qs : List.length (marks n qs) = n.
Proof. unfold marks. rewrite map_length, seq_length. reflexivity. Qed.

Lemma nth_marks n qs p : p < n -> nth p (marks n qs) false = existsb (Nat.eqb p) qs.
Proof. intro Hp. unfold marks. apply (nth_map_seq (fun p => existsb (Nat.eqb p) qs)). exact Hp. Qed.

Lemma flip_at_length q x : List.length (flip_at q x) = List.length x.
Proof. unfold flip_at. rewrite map_length, seq_length. reflexivity. Qed.

Lemma nth_flip_at q x p : p < List.length x ->
  nth p (flip_at q x) false = if Nat.eqb p q then negb (nth p x false) else nth p x false.
Proof.
  intro Hp. unfold flip_at.
  rewrite (nth_map_seq (fun p => if Nat.eqb p q then negb (nth p x false) else nth p x false)) by exact Hp. reflexivity.
Qed.

Lemma marks_nil n : marks n [] = bits n 0.
Proof.
  apply (nth_ext _ _ false false); [rewrite marks_length, bits_length; reflexivity|].
  rewrite marks_length. intros p Hp. rewrite nth_marks, nth_bits_zero by exact Hp. reflexivity.
Qed.

Lemma marks_ext n A B : (forall p, In p A <-> In p B) -> marks n A = marks n B.
Proof.
  intro H. unfold marks. apply map_ext. intro p.
  destruct (existsb (Nat.eqb p) A) eqn:EA, (existsb (Nat.eqb p) B) eqn:EB; try reflexivity; exfalso.
  - apply existsb_exists in EA. destruct EA as [x [Hx Ex]]. apply Nat.eqb_eq in Ex. subst x.
    apply H in Hx. assert (existsb (Nat.eqb p) B = true) by (apply existsb_exists; exists p; split; [exact Hx|apply Nat.eqb_refl]). congruence.
  - apply existsb_exists in EB. destruct EB as [x [Hx Ex]]. apply Nat.eqb_eq in Ex. subst x.
    apply H in Hx. assert (existsb (Nat.eqb p) A = true) by (apply existsb_exists; exists p; split; [exact Hx|apply Nat.eqb_refl]). congruence.
Qed.

Lemma flip_marks n q S : ~ In q S -> flip_at q (marks n S) = marks n (q :: S).
Proof.
  intro Hq. apply (nth_ext _ _ false false); [rewrite flip_at_length, !marks_length; reflexivity|].
  rewrite flip_at_length, marks_length. intros p Hp.
  rewrite nth_flip_at by (rewrite marks_length; exact Hp). rewrite !nth_marks by exact Hp. cbn [existsb].
  destruct (Nat.eqb_spec p q) as [->|Hne]; [|reflexivity].
  assert (E : existsb (Nat.eqb q) S = false).
  { apply not_true_is_false. intro Ht. apply existsb_exists in Ht. destruct Ht as [x [Hx Ex]].
    apply Nat.eqb_eq in Ex. subst x. contradiction. }
  rewrite E. reflexivity.
Qed.

Lemma marks_single n q : q < n -> marks n [q] = onehot n q.
Proof.
  intro Hq. apply (nth_ext _ _ false false); [rewrite marks_length, onehot_length by exact Hq; reflexivity|].
  rewrite marks_length. intros p Hp. rewrite nth_marks, nth_onehot by exact Hp. cbn [existsb]. apply orb_false_r.
Qed.

Lemma tuple_sign_single p t : tuple_sign [p] t = zsgn (nth p t false).
Proof. unfold tuple_sign. cbn [map fold_right]. lia. Qed.

Section XGates.
  Variable K : cring.
  Add Ring Kring2 : (c_ring K).
  Local Open Scope cr_scope.

  (* column j of the lifted X on qubit q: a single 1, in the row whose bits are those of j with position q toggled *)
  Lemma lift_x_entry n q i j : (q < n)%nat -> (i < 2 ^ n)%nat -> (j < 2 ^ n)%nat ->
    lift_spec (K:=K) xmat [q] n i j = basis_vec (val (flip_at q (bits n j))) i.
  Proof.
    intros Hq Hi Hj. unfold lift_spec, select, basis_vec. cbn [map]. rewrite !val_single.
    set (x := bits n i). set (y := bits n j). set (f := flip_at q y).
    assert (Hlx : List.length x = n) by apply bits_length.
    assert (Hly : List.length y = n) by apply bits_length.
    assert (Hlf : List.length f = n) by (subst f; rewrite flip_at_length; exact Hly).
    assert (Hbf : bits n (val f) = f) by (rewrite <- Hlf at 1; apply bits_val).
    assert (Hnf : forall k, (k < n)%nat -> nth k f false = if Nat.eqb k q then negb (nth k y false) else nth k y false)
      by (intros k Hk; subst f; apply nth_flip_at; rewrite Hly; exact Hk).
    destruct (Nat.eqb_spec i (val f)) as [E|Hne].
    - assert (Hx : x = f) by (subst x; rewrite E; exact Hbf).
      assert (Ha : agree_off [q] x y = true).
      { apply agree_off_spec. split; [congruence|]. intros k Hk Hnin. rewrite Hx, Hnf by (rewrite <- Hlx; exact Hk).
        destruct (Nat.eqb_spec k q) as [->|_]; [exfalso; apply Hnin; left; reflexivity|reflexivity]. }
      rewrite Ha, Hx, Hnf, Nat.eqb_refl by exact Hq. cbn [ind]. unfold xmat.
      destruct (nth q y false); cbn [negb b2n Nat.eqb]; ring.
    - assert (Hx : x <> f).
      { intro Hx. apply Hne. subst x. rewrite <- (val_bits_lt n i Hi). rewrite Hx. reflexivity. }
      destruct (agree_off [q] x y) eqn:Ha; cbn [ind]; [|ring].
      apply agree_off_spec in Ha. destruct Ha as [_ Ha].
      destruct (Bool.bool_dec (nth q x false) (nth q y false)) as [Eb|Nb].
      + rewrite Eb. unfold xmat. rewrite Nat.eqb_refl. ring.
      + exfalso. apply Hx. apply (nth_ext _ _ false false); [congruence|]. rewrite Hlx. intros k Hk.
        rewrite Hnf by exact Hk. destruct (Nat.eqb_spec k q) as [->|Hkq].
        * destruct (nth q x false), (nth q y false); try reflexivity; exfalso; apply Nb; reflexivity.
        * apply Ha; [rewrite Hlx; exact Hk|]. intros [E|[]]. congruence.
  Qed.

  Lemma mvec_basis d (M : Mat K) j i : (j < d)%nat -> mvec d M (basis_vec j) i = M i j.
  Proof.
    intro Hj. unfold mvec. rewrite (rsum_single K d j).
    - unfold basis_vec. rewrite Nat.eqb_refl. ring.
    - exact Hj.
    - intros k _ Hk. unfold basis_vec. destruct (Nat.eqb_spec k j); [congruence|ring].
  Qed.

  Lemma wf_xgate n q : (q < n)%nat -> wf_gate n (mk_gateapp (K:=K) xmat [q]).
  Proof.
    intro Hq. unfold wf_gate. cbn [g_qs]. split; [discriminate|]. split.
    - constructor; [intros []|constructor].
    - constructor; [exact Hq|constructor].
  Qed.

  (* one X gate through the code mirror of GateOperation.apply moves a basis state to the one with position q toggled *)
  Lemma apply_x_basis n q j (v : Vec K) : (q < n)%nat -> (j < 2 ^ n)%nat -> vec_eq (2 ^ n) v (basis_vec j) ->
    vec_eq (2 ^ n) (apply_op n (xgate K q) v) (basis_vec (val (flip_at q (bits n j)))).
  Proof.
    intros Hq Hj Hv i Hi.
    rewrite (apply_op_matrix K n (xgate K q) v (basis_vec j) Hv i Hi). cbn [op_matrix xgate].
    rewrite (mvec_compat K (2 ^ n) _ (gate_spec n (mk_gateapp xmat [q])) (basis_vec j) (basis_vec j)
               (lifted_spec K n _ (wf_xgate n q Hq)) ltac:(intros k _; reflexivity) i Hi).
    rewrite mvec_basis by exact Hj. unfold gate_spec. cbn [g_mat g_qs]. apply lift_x_entry; assumption.
  Qed.

  Lemma run_x_from n qs : forall S (v : Vec K), NoDup (qs ++ S) -> Forall (fun q => (q < n)%nat) qs ->
    vec_eq (2 ^ n) v (basis_vec (val (marks n S))) ->
    vec_eq (2 ^ n) (run n (map (xgate K) qs) v) (basis_vec (val (marks n (rev qs ++ S)))).
  Proof.
    induction qs as [|q qs IH]; intros S v Hnd Hr Hv; [exact Hv|].
    inversion Hr as [|? ? Hq Hr']; subst. cbn [app] in Hnd. inversion Hnd as [|? ? Hni Hnd']; subst.
    cbn [map rev]. change (run n (xgate K q :: map (xgate K) qs) v) with (run n (map (xgate K) qs) (apply_op n (xgate K q) v)).
    rewrite <- app_assoc. cbn [app]. apply IH.
    - apply (NoDup_Add (Add_app q qs S)). split; assumption.
    - exact Hr'.
    - assert (Hlt : (val (marks n S) < 2 ^ n)%nat) by (rewrite <- (marks_length n S) at 2; apply val_lt).
      pose proof (apply_x_basis n q (val (marks n S)) v Hq Hlt Hv) as H.
      assert (Hb : bits n (val (marks n S)) = marks n S) by (rewrite <- (marks_length n S) at 1; apply bits_val).
      rewrite Hb, flip_marks in H; [exact H|].
      intro Hin. apply Hni. apply in_or_app. right. exact Hin.
  Qed.

  Lemma run_x_gates n qs : NoDup qs -> Forall (fun q => (q < n)%nat) qs ->
    vec_eq (2 ^ n) (run n (map (xgate K) qs) zero_state) (basis_vec (val (marks n qs))).
  Proof.
    intros Hnd Hr.
    assert (H : vec_eq (2 ^ n) (run n (map (xgate K) qs) zero_state) (basis_vec (val (marks n (rev qs ++ []))))).
    { apply run_x_from; [rewrite app_nil_r; exact Hnd|exact Hr|].
      rewrite marks_nil. intros i Hi. unfold zero_state, basis_vec.
      rewrite val_bits_lt by apply pow2_pos. reflexivity. }
    rewrite (marks_ext n (rev qs ++ []) qs) in H; [exact H|].
    intro p. rewrite app_nil_r. symmetry. apply in_rev.
  Qed.

  Lemma eigenvalue_single (t : list bool) p : eigenvalue (K:=K) c1 [p] t = ksgn (nth p t false).
  Proof. unfold eigenvalue. cbn [lprod]. ring. Qed.

  (* X on any set of distinct qubits: every view shows a 1 exactly at the positions of that set *)
  Lemma x_gates_mark_positions_lemma n qs : (1 <= n)%nat -> NoDup qs -> Forall (fun q => (q < n)%nat) qs ->
    let psi := run n (map (xgate K) qs) zero_state in
    let t := marks n qs in
    let j := val t in
    vec_eq (2 ^ n) psi (basis_vec j) /\
    bitstring_to_tuple (outcome_key n j) = t /\
    nth j (product_bits n) [] = t /\
    (forall n_samples, (1 <= n_samples)%Z ->
       run_and_measure n n_samples (repeat j (Z.to_nat n_samples)) = Some (repeat t (Z.to_nat n_samples))) /\
    (forall p, (p < n)%nat ->
       nth p t false = existsb (Nat.eqb p) qs /\
       String.get p (tuple_to_bitstring t) = Some (bchar (existsb (Nat.eqb p) qs)) /\
       expectation (2 ^ n) (den n (zterm c1 [p])) psi = ksgn (existsb (Nat.eqb p) qs) /\
       efreq [p] (get_counts [t]) = Some (Qdiv (inject_Z (zsgn (existsb (Nat.eqb p) qs))) (inject_Z 1))).
  Proof.
    intros Hn Hnd Hr psi t j.
    assert (Hlt : List.length t = n) by apply marks_length.
    assert (Hj : (j < 2 ^ n)%nat) by (subst j; rewrite <- Hlt; apply val_lt).
    assert (Hb : bits n j = t) by (subst j; rewrite <- Hlt at 1; apply bits_val).
    pose proof (run_x_gates n qs Hnd Hr) as Hpsi. fold psi t j in Hpsi.
    split; [exact Hpsi|]. split; [|split; [|split]].
    - rewrite key_roundtrip_lemma by assumption. exact Hb.
    - rewrite product_order_lemma by assumption. exact Hb.
    - intros ns Hns. rewrite run_and_measure_spec; try assumption.
      + rewrite map_repeat_eq, Hb. reflexivity.
      + apply Forall_forall. intros k Hk. apply repeat_spec in Hk. subst k. exact Hj.
    - intros p Hp.
      assert (Hnp : nth p t false = existsb (Nat.eqb p) qs) by (apply nth_marks; exact Hp).
      split; [exact Hnp|]. split.
      { unfold tuple_to_bitstring. rewrite str_of_bits_get by (rewrite Hlt; exact Hp). rewrite Hnp. reflexivity. }
      assert (Hnd1 : NoDup [p]) by (constructor; [intros []|constructor]).
      assert (Hr1 : Forall (fun k => (k < n)%nat) [p]) by (constructor; [exact Hp|constructor]).
      split.
      + rewrite (expectation_compat K (2 ^ n) _ psi (basis_vec j) Hpsi).
        rewrite (expectation_basis K n c1 [p] j Hnd1 Hr1 Hj), Hb, eigenvalue_single, Hnp. reflexivity.
      + assert (Hl : Forall (fun u => List.length u = n) [t]) by (constructor; [exact Hlt|constructor]).
        rewrite (efreq_positions n [p] [t] Hn ltac:(discriminate) Hl Hr1).
        cbn [map zsum fold_right List.length]. rewrite tuple_sign_single, Hnp. rewrite Z.add_0_r. reflexivity.
  Qed.
End XGates.

(* ------------------------------------------------------------------ the distribution computed from measurements *)
Lemma add_count_keys k c d k' : In k' (map fst (add_count k c d)) -> k' = k \/ In k' (map fst d).
Proof.
  induction d as [|[k0 c0] d IH]; simpl; [intuition congruence|].
  destruct (String.eqb k k0); simpl; [tauto|]. intros [H|H]; [tauto|]. destruct (IH H); tauto.
Qed.

Lemma fold_counts_keys shots : forall d k',
  In k' (map fst (fold_left (fun d t => add_count (tuple_to_bitstring t) 1%Z d) shots d)) ->
  In k' (map fst d) \/ In k' (map tuple_to_bitstring shots).
Proof.
  induction shots as [|t r IH]; intros d k' H; cbn [fold_left map In] in *; [left; exact H|].
  destruct (IH _ _ H) as [H1|H1]; [|tauto]. destruct (add_count_keys _ _ _ _ H1); [subst; tauto|tauto].
Qed.

(* every key of the distribution computed from measurements is one of the measured tuples, position by position *)
Lemma get_distribution_keys shots dist k p : get_distribution shots = Some dist -> In (k, p) dist -> In k shots.
Proof.
  intros Hd Hin. unfold get_distribution in Hd. destruct shots as [|t0 r0] eqn:Es; [discriminate|]. rewrite <- Es in *.
  inversion Hd; subst dist; clear Hd. apply in_map_iff in Hin. destruct Hin as [[ks c] [E Hkc]]. cbn [fst snd] in E.
  inversion E; subst k p; clear E.
  assert (Hk : In ks (map fst (get_counts shots))) by (apply in_map_iff; exists (ks, c); split; [reflexivity|exact Hkc]).
  unfold get_counts in Hk. apply fold_counts_keys in Hk. destruct Hk as [[]|Hk].
  apply in_map_iff in Hk. destruct Hk as [t [<- Ht]]. unfold tuple_to_bitstring. rewrite bits_of_str_of_bits. exact Ht.
Qed.

(* ------------------------------------------------------------------ circuits of classical gates *)
Require Import OQ.Circ.LiftAlgebra.

Section ClassicalProofs.
  Variable K : cring.
  Add Ring Kring3 : (c_ring K).
  Local Open Scope cr_scope.

  (* column j of the lifted gate: the phase of the bits read at the gate's qubits (in the gate's order), in the row
     whose bits are those of j with f's result written back to the same positions *)
  Lemma lift_classical_entry n (f : list bool -> list bool) (ph : list bool -> K) qs i j :
    NoDup qs -> Forall (fun q => (q < n)%nat) qs ->
    (forall b, List.length b = List.length qs -> List.length (f b) = List.length qs) ->
    (i < 2 ^ n)%nat -> (j < 2 ^ n)%nat ->
    lift_spec (cmat (List.length qs) f ph) qs n i j
    = sbasis (ph (select qs (bits n j))) (val (merge qs (f (select qs (bits n j))) (bits n j))) i.
  Proof.
    intros Hnd Hr Hf Hi Hj. unfold lift_spec, cmat, sbasis.
    set (x := bits n i). set (y := bits n j). set (sy := select qs y).
    assert (Hlx : List.length x = n) by apply bits_length.
    assert (Hly : List.length y = n) by apply bits_length.
    assert (Hlsy : List.length sy = List.length qs) by apply select_length.
    assert (Hb : bits (List.length qs) (val sy) = sy) by (pose proof (bits_val sy) as H; rewrite Hlsy in H; exact H).
    rewrite Hb. set (m := merge qs (f sy) y).
    assert (Hlm : List.length m = n) by (subst m; rewrite merge_length; exact Hly).
    assert (Hbm : bits n (val m) = m) by (pose proof (bits_val m) as H; rewrite Hlm in H; exact H).
    assert (Hry : Forall (fun q => (q < List.length y)%nat) qs) by (rewrite Hly; exact Hr).
    destruct (Nat.eqb_spec i (val m)) as [E|Hne].
    - assert (Hx : x = m) by (subst x; rewrite E; exact Hbm).
      assert (Hsel : select qs m = f sy) by exact (select_merge qs (f sy) y Hnd Hry (Hf sy Hlsy)).
      assert (Hag : agree_off qs m y = true) by (rewrite agree_off_sym; exact (agree_off_merge qs (f sy) y)).
      rewrite Hx, Hsel, Hag, Nat.eqb_refl. cbn [ind]. ring.
    - destruct (agree_off qs x y) eqn:Ha; cbn [ind]; [|ring].
      destruct (Nat.eqb_spec (val (select qs x)) (val (f sy))) as [Ev|_]; [|ring].
      exfalso. apply Hne. apply val_inj in Ev; [|rewrite select_length, Hf by exact Hlsy; reflexivity].
      rewrite agree_off_sym in Ha. assert (Hxm : x = m) by exact (merge_unique qs (f sy) y x Hnd Hry Ha Ev).
      rewrite <- Hxm. unfold x. symmetry. apply val_bits_lt. exact Hi.
  Qed.

  Lemma mvec_sbasis d (M : Mat K) amp j i : (j < d)%nat -> mvec d M (sbasis amp j) i = M i j * amp.
  Proof.
    intro Hj. unfold mvec. rewrite (rsum_single K d j).
    - unfold sbasis. rewrite Nat.eqb_refl. reflexivity.
    - exact Hj.
    - intros k _ Hk. unfold sbasis. destruct (Nat.eqb_spec k j); [congruence|ring].
  Qed.

  Lemma wf_cgate n (g : cgate K) : cgate_ok n g -> wf_gate n (mk_gateapp (cg_mat g) (cg_qs g)).
  Proof. intros (H1 & H2 & H3 & _). unfold wf_gate. cbn [g_qs]. repeat split; assumption. Qed.

  (* one gate through the code mirror of GateOperation.apply *)
  Lemma apply_classical n (g : cgate K) (st : list bool * K) (v : Vec K) : cgate_ok n g -> List.length (fst st) = n ->
    vec_eq (2 ^ n) v (sbasis (snd st) (val (fst st))) ->
    vec_eq (2 ^ n) (apply_op n (cg_op g) v) (sbasis (snd (bstep g st)) (val (fst (bstep g st)))) /\
    List.length (fst (bstep g st)) = n.
  Proof.
    intros Hok Hl Hv. destruct st as [t amp]. cbn [fst snd] in *. unfold bstep. cbn [fst snd].
    split; [|rewrite merge_length; exact Hl].
    assert (Hj : (val t < 2 ^ n)%nat) by (rewrite <- Hl; apply val_lt).
    assert (Hbt : bits n (val t) = t) by (pose proof (bits_val t) as H; rewrite Hl in H; exact H).
    intros i Hi.
    rewrite (apply_op_matrix K n (cg_op g) v (sbasis amp (val t)) Hv i Hi). cbn [op_matrix cg_op].
    rewrite (mvec_compat K (2 ^ n) _ (gate_spec n (mk_gateapp (cg_mat g) (cg_qs g))) (sbasis amp (val t)) (sbasis amp (val t))
               (lifted_spec K n _ (wf_cgate n g Hok)) ltac:(intros k _; reflexivity) i Hi).
    rewrite mvec_sbasis by exact Hj. unfold gate_spec. cbn [g_mat g_qs]. unfold cg_mat.
    destruct Hok as (_ & Hnd & Hr & Hf).
    rewrite lift_classical_entry by assumption. rewrite Hbt. unfold sbasis.
    destruct (Nat.eqb i (val (merge (cg_qs g) (cg_f g (select (cg_qs g) t)) t))); ring.
  Qed.

  Lemma classical_run n (gs : list (cgate K)) : forall (st : list bool * K) (v : Vec K),
    Forall (cgate_ok n) gs -> List.length (fst st) = n -> vec_eq (2 ^ n) v (sbasis (snd st) (val (fst st))) ->
    vec_eq (2 ^ n) (run n (map cg_op gs) v) (sbasis (snd (brun gs st)) (val (fst (brun gs st)))) /\
    List.length (fst (brun gs st)) = n.
  Proof.
    induction gs as [|g gs IH]; intros st v Hok Hl Hv; [split; [exact Hv|exact Hl]|].
    pose proof (Forall_inv Hok) as Hg. pose proof (Forall_inv_tail Hok) as Hgs.
    cbn [map]. change (run n (cg_op g :: map cg_op gs) v) with (run n (map cg_op gs) (apply_op n (cg_op g) v)).
    change (brun (g :: gs) st) with (brun gs (bstep g st)).
    destruct (apply_classical n g st v Hg Hl Hv) as [Hv' Hl']. apply IH; assumption.
  Qed.

  Lemma zero_state_sbasis n : vec_eq (2 ^ n) (zero_state (K:=K)) (sbasis c1 (val (repeat false n))).
  Proof. intros i _. unfold zero_state, sbasis. rewrite val_repeat_false. reflexivity. Qed.

  Lemma norm2_sbasis amp j i : norm2 (sbasis (K:=K) amp j i) = if Nat.eqb i j then norm2 amp else c0.
  Proof. unfold norm2, sbasis. destruct (Nat.eqb i j); [reflexivity|ring]. Qed.

  Lemma expectation_sbasis n (c : K) S amp j : NoDup S -> Forall (fun q => (q < n)%nat) S -> (j < 2 ^ n)%nat ->
    expectation (2 ^ n) (den n (zterm c S)) (sbasis amp j) = norm2 amp * eigenvalue c S (bits n j).
  Proof.
    intros Hnd Hr Hj. rewrite z_expectation_eigen_avg_lemma by assumption.
    rewrite (rsum_single K (2 ^ n) j).
    - rewrite norm2_sbasis, Nat.eqb_refl. reflexivity.
    - exact Hj.
    - intros k _ Hk. rewrite norm2_sbasis. destruct (Nat.eqb_spec k j); [congruence|ring].
  Qed.

  Lemma table_gate_ok n qs perm exps : qs <> [] -> NoDup qs -> Forall (fun q => (q < n)%nat) qs ->
    cgate_ok n (table_gate (K:=K) qs perm exps).
  Proof. intros H1 H2 H3. unfold cgate_ok, table_gate. cbn [cg_qs cg_f]. repeat split; try assumption. intros b _. apply bits_length. Qed.

  (* a circuit of classical gates of any arity on any duplicate-free qubit orders, on a register of any width: the
     state is a phase times the basis vector of the tuple obtained by following the gates on the tuple; all views
     show that tuple *)
  Lemma classical_circuit_views_lemma n (gs : list (cgate K)) : (1 <= n)%nat -> Forall (cgate_ok n) gs ->
    let st := brun gs (repeat false n, c1) in
    let psi := run n (map cg_op gs) zero_state in
    let t := fst st in
    let j := val t in
    vec_eq (2 ^ n) psi (sbasis (snd st) j) /\ List.length t = n /\
    bitstring_to_tuple (outcome_key n j) = t /\
    nth j (product_bits n) [] = t /\
    (forall n_samples, (1 <= n_samples)%Z ->
       run_and_measure n n_samples (repeat j (Z.to_nat n_samples)) = Some (repeat t (Z.to_nat n_samples))) /\
    (forall (c : K) S, NoDup S -> Forall (fun q => (q < n)%nat) S ->
       expectation (2 ^ n) (den n (zterm c S)) psi = norm2 (snd st) * eigenvalue c S t).
  Proof.
    intros Hn Hok st psi t j.
    destruct (classical_run n gs (repeat false n, c1) zero_state Hok (repeat_length false n) (zero_state_sbasis n)) as [Hpsi Hlt].
    fold st in Hpsi, Hlt. fold psi t j in Hpsi. fold t in Hlt.
    assert (Hj : (j < 2 ^ n)%nat) by (subst j; rewrite <- Hlt; apply val_lt).
    assert (Hb : bits n j = t) by (subst j; pose proof (bits_val t) as H; rewrite Hlt in H; exact H).
    split; [exact Hpsi|]. split; [exact Hlt|]. split; [|split; [|split]].
    - rewrite key_roundtrip_lemma by assumption. exact Hb.
    - rewrite product_order_lemma by assumption. exact Hb.
    - intros ns Hns. rewrite run_and_measure_spec; try assumption.
      + rewrite map_repeat_eq, Hb. reflexivity.
      + apply Forall_forall. intros k Hk. apply repeat_spec in Hk. subst k. exact Hj.
    - intros c S Hnd Hr. rewrite (expectation_compat K (2 ^ n) _ psi (sbasis (snd st) j) Hpsi).
      rewrite expectation_sbasis by assumption. rewrite Hb. reflexivity.
  Qed.
End ClassicalProofs.
