(* Comparison helpers for the C04 correspondence cases.  The model computes the state from the circuit with C01's
   code mirror ([Circuit.run] over the Gaussian rationals) and derives every view from that state; the harness
   passes what the implementation returned for each view. *)
Require Import Coq.Arith.Arith Coq.ZArith.ZArith Coq.QArith.QArith Coq.QArith.Qcanon Coq.QArith.Qabs Coq.Lists.List
  Coq.Bool.Bool Coq.Strings.String.
Require Import OQ.Base.Ring OQ.Base.Sums OQ.Base.Bits OQ.Base.Mat OQ.Base.CaseEq OQ.Circ.Lift OQ.Circ.Circuit
  OQ.Circ.CircuitCases OQ.State.Views.
Import ListNotations.
Close Scope Qc_scope. Close Scope Q_scope.
Open Scope list_scope.

Definition lbeqb := leqb Bool.eqb.
Definition llbeqb := leqb lbeqb.
Definition counts_eqb (a b : counts) : bool := leqb (peqb String.eqb Z.eqb) a b.

(* the state of the circuit on |0...0>, tabulated *)
Definition state_of (n : nat) (ops : list (op GQr)) : list GQ := @vto_list GQr (2 ^ n) (run n ops zero_state).
Definition psi_of (l : list GQ) : Vec GQr := @vof_list GQr l.

(* |a|^2 as a rational *)
Definition prob_q (a : GQ) : Q := this (fst (@norm2 GQr a)).
Definition probs_of (l : list GQ) : list Q := map prob_q l.

(* np.abs(a) ** 2 is exact when a is real or imaginary with a short mantissa; otherwise it carries the rounding of a
   square root: [exact = false] compares within 2^-40 *)
Definition q_close (a b : Q) : bool := Qle_bool (Qabs (Qminus a b)) (1 # 1099511627776).
Definition prob_eqb (exact : bool) (a b : Q) : bool := if exact then Qeq_bool a b else q_close a b.

Definition amps_eqb (psi : list GQ) (out : list GQ) : bool := lgeqb psi out.

(* wf.get_outcome_probs(): keys in dictionary order, probabilities *)
Definition outcome_probs_eqb (exact : bool) (n : nat) (psi : list GQ) (keys : list string) (ps : list Q) : bool :=
  let m := outcome_probs n (fun i => nth i (probs_of psi) 0%Q) in
  lseqb (map fst m) keys && leqb (prob_eqb exact) (map snd m) ps.

(* get_measurement_outcome_distribution(c, None).distribution_dict *)
Definition exact_dist_eqb (exact : bool) (n : nat) (psi : list GQ) (keys : list (list bool)) (ps : list Q) : bool :=
  let m := exact_dist n (fun i => nth i (probs_of psi) 0%Q) in
  llbeqb (map fst m) keys && leqb (prob_eqb exact) (map snd m) ps.

(* get_exact_expectation_values: per term and for the whole operator (real part; the imaginary part must vanish) *)
Definition gq_of_q (c : Q) : GQ := gq_lit c 0%Q.
Definition zop_gq (op : zop Q) : zop GQr := map (fun t => (gq_of_q (fst t), snd t)) op.
Definition exact_value (n : nat) (psi : list GQ) (op : zop Q) : option Q :=
  match @exact_expectation GQr n (zop_gq op) (psi_of psi) with
  | Some v => if Qc_eq_bool (snd v) (Q2Qc 0%Q) then Some (this (fst v)) else None
  | None => None
  end.
Definition exact_values_eqb (n : nat) (psi : list GQ) (op : zop Q) (per_term : list (option Q)) (total : option Q) : bool :=
  leqb (oeqb qeqb) (map (fun t => exact_value n psi [t]) op) per_term && oeqb qeqb (exact_value n psi op) total.
(* the same number as the average of the eigenvalues under the model's exact distribution (theorem
   z_expectation_dist_avg, evaluated) *)
Definition qsum (l : list Q) : Q := fold_right Qplus 0%Q l.
Definition dist_average (n : nat) (psi : list GQ) (op : zop Q) : Q :=
  qsum (map (fun kp => Qmult (snd kp) (qsum (map (fun t => Qmult (fst t) (inject_Z (tuple_sign (snd t) (fst kp)))) op)))
            (exact_dist n (fun i => nth i (probs_of psi) 0%Q))).
Definition dist_average_eqb (n : nat) (psi : list GQ) (op : zop Q) (total : Q) : bool := qeqb (dist_average n psi op) total.

(* basis states: the index the sampler must return (the only one of non-zero probability) *)
Fixpoint first_nonzero (l : list Q) (k : nat) : nat :=
  match l with
  | [] => k
  | p :: r => if Qeq_bool p 0%Q then first_nonzero r (S k) else k
  end.
Definition basis_index (psi : list GQ) : nat := first_nonzero (probs_of psi) 0.
Definition is_basis (psi : list GQ) : bool :=
  Nat.eqb (List.length (filter (fun p => negb (Qeq_bool p 0%Q)) (probs_of psi))) 1.

(* run_and_measure(c, n_samples): bitstrings and get_counts() *)
Definition measure_basis_eqb (n : nat) (psi : list GQ) (n_samples : Z) (out : option (list (list bool))) (cnt : counts) : bool :=
  let m := run_and_measure n n_samples (repeat (basis_index psi) (Z.to_nat n_samples)) in
  is_basis psi && oeqb llbeqb m out &&
  match m with Some shots => counts_eqb (get_counts shots) cnt | None => match cnt with [] => true | _ => false end end.

(* Measurements(shots): get_counts() and get_expectation_values(op).values *)
Definition lqeqb' := leqb qeqb.
Definition measured_eqb (shots : list (list bool)) (op : zop Q) (cnt : counts) (vals : option (list Q)) : bool :=
  counts_eqb (get_counts shots) cnt && oeqb lqeqb' (measured_values shots op) vals.
(* from the counts dictionary the implementation produced (many samples: the shots themselves are not passed) *)
Definition values_from_counts (cnt : counts) (op : zop Q) : option (list Q) :=
  all_some (map (fun t => match efreq (snd t) cnt with Some e => Some (Qmult (fst t) e) | None => None end) op).
Definition values_from_counts_eqb (cnt : counts) (op : zop Q) (vals : option (list Q)) : bool :=
  oeqb lqeqb' (values_from_counts cnt op) vals.

(* sampled superpositions: every count string has the register's width and names an index of non-zero model
   probability (character q = qubit q = bit q of the index, most significant first); the counts add up *)
Definition support_eqb (n : nat) (psi : list GQ) (cnt : counts) (n_samples : Z) : bool :=
  forallb (fun kc => Nat.eqb (String.length (fst kc)) n &&
                     negb (Qeq_bool (nth (val (row_of_key (fst kc))) (probs_of psi) 0%Q) 0%Q) &&
                     Z.ltb 0 (snd kc)) cnt
  && Z.eqb (efreq_den cnt) n_samples.

(* the call raises *)
Definition measure_raises (n : nat) (n_samples : Z) : bool :=
  match sample_from_wavefunction n n_samples [] with None => true | Some _ => false end.

(* ------------------------------------------------------------------ the distribution computed from measurements *)
Definition measured_dist_eqb (shots : list (list bool)) (out : option (list (list bool * Q))) : bool :=
  oeqb (leqb (peqb lbeqb qeqb)) (get_distribution shots) out.

(* ------------------------------------------------------------------ classical gates / wide registers
   Gates are passed as tables (column a -> row perm[a], entry i^exps[a]) that the harness read off the
   implementation's gate matrix; [table_matches] re-checks the table against the literal matrix inside Coq. *)
Definition tgate (qs perm exps : list nat) : cgate GQr := @table_gate GQr qs perm exps.
Definition table_matches (k : nat) (perm exps : list nat) (L : list (list GQ)) : bool :=
  leqb lgeqb (to_list (2 ^ k) (cg_mat (tgate (seq 0 k) perm exps))) L.
(* the state followed on the tuple: (tuple, amplitude) *)
Definition basis_path (n : nat) (gs : list (cgate GQr)) : list bool * GQ := brun gs (repeat false n, gq1).

(* narrow registers: the tuple path agrees with C01's code mirror (theorem classical_run, evaluated) *)
Definition basis_path_eqb (n : nat) (gs : list (cgate GQr)) (psi : list GQ) : bool :=
  let st := basis_path n gs in
  is_basis psi && Nat.eqb (basis_index psi) (val (fst st)) && gq_eqb (nth (val (fst st)) psi gq0) (snd st).

(* wide registers: the implementation's non-zero amplitudes as (position in the array, value) *)
Definition wide_amps_eqb (st : list bool * GQ) (nz : list (nat * GQ)) : bool :=
  leqb (peqb Nat.eqb gq_eqb) [(val (fst st), snd st)] nz.
(* get_outcome_probs: all keys in dictionary order; the non-zero probabilities as (position, value) *)
Definition wide_outcome_probs_eqb (n : nat) (st : list bool * GQ) (keys : list string) (nz : list (nat * Q)) : bool :=
  lseqb (outcome_strings n) keys && leqb (peqb Nat.eqb qeqb) [(val (fst st), prob_q (snd st))] nz.
(* the exact distribution: all keys (written as strings of 0/1, position by position) in dictionary order *)
Definition wide_exact_dist_eqb (n : nat) (st : list bool * GQ) (keys : list string) (nz : list (nat * Q)) : bool :=
  lseqb (map str_of_bits (product_bits n)) keys && leqb (peqb Nat.eqb qeqb) [(val (fst st), prob_q (snd st))] nz.
(* run_and_measure: every sample is the state's tuple *)
Definition measure_index_eqb (n : nat) (st : list bool * GQ) (n_samples : Z) (out : option (list (list bool))) (cnt : counts) : bool :=
  let m := run_and_measure n n_samples (repeat (val (fst st)) (Z.to_nat n_samples)) in
  oeqb llbeqb m out &&
  match m with Some shots => counts_eqb (get_counts shots) cnt | None => match cnt with [] => true | _ => false end end.
(* exact expectation values on a basis state: |amp|^2 * c * prod_{q in S} (-1)^(t_q)   (theorem expectation_sbasis) *)
Definition basis_value (st : list bool * GQ) (t : Q * list nat) : Q :=
  Qmult (prob_q (snd st)) (Qmult (fst t) (inject_Z (tuple_sign (snd t) (fst st)))).
Definition basis_values_eqb (st : list bool * GQ) (op : zop Q) (per_term : list Q) (total : Q) : bool :=
  lqeqb' (map (basis_value st) op) per_term && qeqb (qsum (map (basis_value st) op)) total.
