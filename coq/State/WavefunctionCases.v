(* Comparison helpers for the C12 correspondence cases. *)
Require Import Coq.ZArith.ZArith Coq.QArith.QArith Coq.Lists.List Coq.Bool.Bool.
Require Import OQ.Base.CaseEq OQ.Gen.GosperGen OQ.State.Wavefunction.
Import ListNotations.

(* short literals: amplitudes in quarter units, symbols *)
Definition q4 (a b : Z) : amp := Num (a # 4) (b # 4).
Definition sy (id : positive) : amp := Symb id.

Definition amp_eqb (a b : amp) : bool :=
  match a, b with
  | Num r i, Num r' i' => Qeq_bool r r' && Qeq_bool i i'
  | Symb x, Symb y => Pos.eqb x y
  | _, _ => false
  end.
Definition backing_eqb (a b : backing) : bool :=
  match a, b with NpFlat, NpFlat | NpCol, NpCol | Mat, Mat => true | _, _ => false end.
Definition outcome_eqb (a b : outcome) : bool :=
  match a, b with Ok, Ok | ErrValue, ErrValue | ErrType, ErrType | ErrIndex, ErrIndex => true | _, _ => false end.
Definition state_eqb (s t : state) : bool := backing_eqb (bk s) (bk t) && leqb amp_eqb (amps s) (amps t).

(* for every step: did bind hand back the receiver itself *)
Fixpoint alias_trace (tol : Q) (s : state) (ops : list op) : list bool :=
  match ops with
  | [] => []
  | o :: r => (match o with Bind m => snd (bind tol s m) | _ => false end) :: alias_trace tol (fst (step tol s o)) r
  end.

(* a whole history: creation, then after EVERY step the outcome and the full snapshot (backing + amplitudes) *)
Definition hist_eqb (col : bool) (init : list amp) (ops : list op)
           (exp_create : option state) (exp : list (outcome * state)) (exp_alias : list bool) : bool :=
  match create np_tol col init, exp_create with
  | None, None => match exp with [] => true | _ => false end
  | Some s, Some e =>
      state_eqb s e && leqb (peqb outcome_eqb state_eqb) (trace np_tol s ops) exp
      && leqb Bool.eqb (alias_trace np_tol s ops) exp_alias
  | _, _ => false
  end.

Definition create_eqb (col : bool) (v : list amp) (exp : option state) : bool :=
  oeqb state_eqb (create np_tol col v) exp.

Definition probs_eqb (v : list amp) (out : list Q) : bool := lqeqb (probs v) out.

(* get_outcome_probs keys: format(i, "0nb")[::-1], i.e. bit j of i at position j; compared as bit lists *)
Fixpoint lsb_bits (n : nat) (i : N) : list bool :=
  match n with O => [] | S n' => N.odd i :: lsb_bits n' (N.div2 i) end.
Definition outcome_keys (n : nat) : list (list bool) :=
  map (fun i => lsb_bits n (N.of_nat i)) (seq 0 (Nat.pow 2 n)).
Definition keys_eqb (n : nat) (out : list (list bool)) : bool := leqb (leqb Bool.eqb) (outcome_keys n) out.

Definition flip_eqb (v : list amp) (out : list amp) : bool := leqb amp_eqb (flip_amplitudes v) out.
Definition flip_wf_eqb (s : state) (out : option state) : bool := oeqb state_eqb (flip_wavefunction np_tol s) out.
Definition flip_ordering_eqb (n : nat) (out : list nat) : bool :=
  lneqb (flip n (seq 0 (Nat.pow 2 n))) out && lneqb (map (bitrev n) (seq 0 (Nat.pow 2 n))) out.

Definition save_eqb (s : state) (out : option (bool * list Q * list Q)) : bool :=
  oeqb (fun a b => Bool.eqb (fst (fst a)) (fst (fst b)) && lqeqb (snd (fst a)) (snd (fst b)) && lqeqb (snd a) (snd b))
       (save s) out.
Definition saveload_eqb (s : state) (out : option state) : bool :=
  oeqb state_eqb (match save s with Some d => load np_tol d | None => None end) out.

Definition dicke_eqb (n k : Z) (out : option (list Z)) : bool :=
  match dicke_indices n k, out with
  | DErr, None => true
  | DIdx idx, Some o => lzeqb idx o
  | _, _ => false
  end.
(* the implementation's probabilities, as the rational 1/count on the support *)
Definition dicke_probs_eqb (n k : Z) (support : list Z) (count : positive) : bool :=
  match dicke_indices n k with
  | DIdx idx => lqeqb (dicke_probs n idx)
                      (map (fun i => if memZ i support then (1 # count)%Q else 0%Q) (zrange 0 (Z.to_nat (2 ^ n))))
  | _ => false
  end.

(* ---- several objects built by the same constructor call; each object is an independent value of the model.
   [None] in an object's operation list = a step of the history that does not touch this object (another object is
   assigned to, or another object is constructed): its snapshot must stay what it was. *)
Inductive source :=
| SrcList (col : bool) (v : list amp)                              (* Wavefunction(v), zero_state *)
| SrcBind (col : bool) (v : list amp) (m : list (positive * amp))  (* Wavefunction(v).bind(m) *)
| SrcLoad (col : bool) (v : list amp)                              (* load(file saved from Wavefunction(v)) *)
| SrcDicke (n k : Z) (v : list amp).                               (* dicke_state(n,k); v = the amplitudes it holds *)

Definition amp_is_zero (a : amp) : bool :=
  match a with Num r i => Qeq_bool r 0 && Qeq_bool i 0 | Symb _ => false end.
Fixpoint support_from (i : Z) (v : list amp) : list Z :=
  match v with
  | [] => []
  | a :: r => if amp_is_zero a then support_from (i + 1)%Z r else i :: support_from (i + 1)%Z r
  end.
Definition uniform_nonzero (v : list amp) : bool :=
  match filter (fun a => negb (amp_is_zero a)) v with
  | [] => false
  | a :: r => forallb (amp_eqb a) r
  end.

Definition src_create (tol : Q) (src : source) : option state :=
  match src with
  | SrcList col v => create tol col v
  | SrcBind col v m =>
      match create tol col v with
      | Some s => match bind tol s m with (s', Ok, _) => Some s' | _ => None end
      | None => None
      end
  | SrcLoad col v =>
      match create tol col v with
      | Some s => match save s with Some d => load tol d | None => None end
      | None => None
      end
  | SrcDicke n k v =>       (* the model's Dicke support, one common amplitude on it, zero elsewhere, normalised *)
      match dicke_indices n k with
      | DIdx idx => if lzeqb (support_from 0 v) idx && uniform_nonzero v
                       && Nat.eqb (length v) (Z.to_nat (2 ^ n)) then create tol false v else None
      | _ => None
      end
  end.

Fixpoint otrace (tol : Q) (s : state) (ops : list (option op)) : list (outcome * state) :=
  match ops with
  | [] => []
  | None :: r => (Ok, s) :: otrace tol s r
  | Some o :: r => let '(s', res) := step tol s o in (res, s') :: otrace tol s' r
  end.

Definition object_eqb (o : source * list (option op) * option state * list (outcome * state)) : bool :=
  let '(src, ops, exp_create, exp) := o in
  match src_create np_tol src, exp_create with
  | None, None => match exp with [] => true | _ => false end
  | Some s, Some e => state_eqb s e && leqb (peqb outcome_eqb state_eqb) (otrace np_tol s ops) exp
  | _, _ => false
  end.
Definition multi_eqb (objs : list (source * list (option op) * option state * list (outcome * state))) : bool :=
  forallb object_eqb objs.
