(* Model of orquestra.quantum.wavefunction (property C12).

   Amplitudes are exact Gaussian rationals or bare symbols.  A wavefunction object is its backing store
   (the code keeps either a numpy array - flat, or a column when it was built from a symbol-free sympy
   Matrix, which is what [bind] does - or a sympy Matrix) plus the amplitude list.  Every operation mirrors
   the order of the checks in the Python source, including the error branches that are raised by numpy /
   sympy below the wavefunction code.  The tolerance of the normalisation test is a parameter ([tol]);
   the code uses numpy.isclose's default  atol + rtol*|1|  = [np_tol].

   The Gosper step and the most-significant-bit function of the Dicke constructor are not written here:
   they are generated from the source (Gen/GosperGen.v). *)
Require Import Coq.ZArith.ZArith Coq.QArith.QArith Coq.QArith.Qabs Coq.Lists.List Coq.Bool.Bool.
Require Import OQ.Gen.GosperGen.
Import ListNotations.

(* ---------------------------------------------------------------- amplitudes and the normalisation test *)
Inductive amp := Num (re im : Q) | Symb (id : positive).

Definition is_symb (a : amp) : bool := match a with Symb _ => true | Num _ _ => false end.
Definition norm2 (a : amp) : Q := match a with Num re im => re * re + im * im | Symb _ => 0 end.
Fixpoint qsum (l : list Q) : Q := match l with [] => 0 | x :: r => x + qsum r end.
Definition numsum (l : list amp) : Q := qsum (map norm2 l).           (* sum over the entries that are numbers *)
Definition has_symb (l : list amp) : bool := existsb is_symb l.       (* free_symbols non-empty *)

(* _check_normalization: symbol-free -> isclose(sum, 1); otherwise numeric part must not exceed 1 *)
Definition check (tol : Q) (l : list amp) : bool :=
  if has_symb l then Qle_bool (numsum l) 1
  else Qle_bool (Qabs (numsum l - 1)) tol.

Definition np_tol : Q := 1001 # 100000000.    (* 1e-8 + 1e-5 * |1.0| *)

(* bin(len(v)).count("1") == 1 *)
Fixpoint pos_pow2 (p : positive) : bool :=
  match p with xH => true | xO q => pos_pow2 q | xI _ => false end.
Definition pow2b (n : nat) : bool :=
  match N.of_nat n with N0 => false | Npos p => pos_pow2 p end.

(* ---------------------------------------------------------------- objects *)
Inductive backing := NpFlat | NpCol | Mat.
Definition state := (backing * list amp)%type.
Definition bk (s : state) : backing := fst s.
Definition amps (s : state) : list amp := snd s.
Definition is_mat (b : backing) : bool := match b with Mat => true | _ => false end.

Inductive outcome := Ok | ErrValue | ErrType | ErrIndex.

(* Wavefunction(v): [col] says that v was handed over as a sympy Matrix (a column) rather than a flat sequence *)
Definition create (tol : Q) (col : bool) (v : list amp) : option state :=
  if negb (pow2b (length v)) then None
  else let b := if has_symb v then Mat else if col then NpCol else NpFlat in
       if check tol v then Some (b, v) else None.

(* ---------------------------------------------------------------- __setitem__ *)
Definition write {A} (l : list A) (lo : nat) (seg : list A) : list A :=
  firstn lo l ++ seg ++ skipn (lo + length seg) l.
Definition segment {A} (l : list A) (lo m : nat) : list A := firstn m (skipn lo l).

(* old_vector = v.copy(); v[idx] = val (an exception here: v = old_vector, re-raised - the [(s, Err..)] branches of
   the callers); check; on failure v = old_vector and ValueError *)
Definition assign (tol : Q) (s : state) (lo : nat) (seg : list amp) : state * outcome :=
  let old_vector := amps s in
  let l' := write (amps s) lo seg in
  if check tol l' then ((bk s, l'), Ok) else ((bk s, old_vector), ErrValue).

Definition set_item (tol : Q) (s : state) (i : Z) (v : amp) : state * outcome :=
  let n := Z.of_nat (length (amps s)) in
  if (i <? - n)%Z || (n <=? i)%Z then (s, ErrIndex)
  else if negb (is_mat (bk s)) && is_symb v then (s, ErrType)
  else assign tol s (Z.to_nat (if (i <? 0)%Z then i + n else i)%Z) [v].

(* wf[i] = [v1, ..., vk] (a list at an integer index).  sympy turns the list into a column and copies it in at
   rows i .. i+k-1 (it spills over the following entries; a column that does not fit is a ShapeError); a flat numpy
   array refuses a sequence for one element; a column-shaped numpy array takes a one-element list for its row *)
Definition set_item_list (tol : Q) (s : state) (i : Z) (vs : list amp) : state * outcome :=
  let n := Z.of_nat (length (amps s)) in
  if (i <? - n)%Z || (n <=? i)%Z then (s, ErrIndex)
  else let a := Z.to_nat (if (i <? 0)%Z then i + n else i)%Z in
       match bk s with
       | Mat => if Nat.leb (a + length vs) (length (amps s)) then assign tol s a vs else (s, ErrValue)
       | NpFlat => (s, ErrType)
       | NpCol => if has_symb vs then (s, ErrType)
                  else match vs with [v] => assign tol s a [v] | _ => (s, ErrValue) end
       end.

(* slice.indices(n) for a slice without step *)
Definition clip (n i : Z) : Z := if (i <? 0)%Z then Z.max (i + n) 0 else Z.min i n.

Definition set_slice (tol : Q) (s : state) (lo hi : Z) (vs : list amp) : state * outcome :=
  let n := Z.of_nat (length (amps s)) in
  let a := clip n lo in
  let b := clip n hi in
  let m := Z.to_nat (Z.max (b - a) 0) in
  let k := length vs in
  match bk s with
  | Mat =>      (* sympy reads a flat slice a:b of a column as the sub-matrix rows a:0, columns b:0 *)
      if Nat.eqb k 0 && Z.eqb a 0 && Z.eqb b 0 then assign tol s 0 [] else (s, ErrValue)
  | NpFlat =>
      if has_symb vs then
        (* numpy cannot convert a symbol: TypeError out of the in-place write.  When the shapes match numpy has by
           then already stored the numbers in front of the first symbol (observed with numpy 2.x); __setitem__ catches
           any exception of the write, puts the snapshot old_vector back and re-raises (fix of finding F37), so the
           object is as before *)
        (s, ErrType)
      else if Nat.eqb k m then assign tol s (Z.to_nat a) vs
      else match vs with
           | [v] => assign tol s (Z.to_nat a) (repeat v m)      (* numpy broadcasting *)
           | _ => (s, ErrValue)
           end
  | NpCol =>
      if has_symb vs then (s, ErrType)
      else match vs with
           | [v] => assign tol s (Z.to_nat a) (repeat v m)
           | _ => (s, ErrValue)                                  (* shape (k,) does not broadcast into (m,1) *)
           end
  end.

(* ---------------------------------------------------------------- bind *)
Fixpoint lookup (id : positive) (m : list (positive * amp)) : option amp :=
  match m with
  | [] => None
  | (k, v) :: r => if Pos.eqb id k then Some v else lookup id r
  end.
Definition subst (m : list (positive * amp)) (a : amp) : amp :=
  match a with
  | Symb id => match lookup id m with Some v => v | None => a end
  | Num _ _ => a
  end.
(* result object, outcome, and whether the result IS the receiver (returned self) *)
Definition bind (tol : Q) (s : state) (m : list (positive * amp)) : state * outcome * bool :=
  if negb (has_symb (amps s)) then (s, Ok, true)
  else match create tol true (map (subst m) (amps s)) with
       | Some s' => (s', Ok, false)
       | None => (s, ErrValue, false)
       end.

(* ---------------------------------------------------------------- histories *)
Inductive op :=
| SetItem (i : Z) (v : amp)
| SetItemList (i : Z) (vs : list amp)
| SetSlice (lo hi : Z) (vs : list amp)
| Bind (m : list (positive * amp)).

(* the history follows the object returned by bind (wf = wf.bind(m)); on an error it keeps the receiver *)
Definition step (tol : Q) (s : state) (o : op) : state * outcome :=
  match o with
  | SetItem i v => set_item tol s i v
  | SetItemList i vs => set_item_list tol s i vs
  | SetSlice lo hi vs => set_slice tol s lo hi vs
  | Bind m => fst (bind tol s m)
  end.
Definition run (tol : Q) (s : state) (ops : list op) : state :=
  fold_left (fun s o => fst (step tol s o)) ops s.
Fixpoint trace (tol : Q) (s : state) (ops : list op) : list (outcome * state) :=
  match ops with
  | [] => []
  | o :: r => let '(s', res) := step tol s o in (res, s') :: trace tol s' r
  end.

Definition Inv (tol : Q) (s : state) : Prop :=
  pow2b (length (amps s)) = true /\ check tol (amps s) = true /\ (bk s <> Mat -> has_symb (amps s) = false).

(* ---------------------------------------------------------------- probabilities *)
Definition probs (l : list amp) : list Q := map norm2 l.      (* get_probabilities: |amplitude|^2 *)

(* ---------------------------------------------------------------- flip (reverse the qubit order) *)
(* arange(2^n).reshape(n*[2]).transpose(reversed axes).reshape(2^n): the two halves (first axis 0 / 1) become
   the even / odd positions (last axis 0 / 1), recursively *)
Fixpoint interleave {A} (a b : list A) : list A :=
  match a, b with
  | x :: a', y :: b' => x :: y :: interleave a' b'
  | _, _ => []
  end.
Fixpoint flip {A} (n : nat) (l : list A) : list A :=
  match n with
  | O => l
  | S n' => let h := Nat.pow 2 n' in interleave (flip n' (firstn h l)) (flip n' (skipn h l))
  end.
Definition nbits (len : nat) : nat := Z.to_nat (Z.log2 (Z.of_nat len)).     (* len.bit_length() - 1 *)
Definition flip_amplitudes {A} (l : list A) : list A := flip (nbits (length l)) l.
(* flip_wavefunction: Wavefunction(flip_amplitudes(wf.amplitudes)); .amplitudes of a symbol-free Matrix-backed
   object is the Matrix itself, so the result is then column-shaped *)
Definition flip_wavefunction (tol : Q) (s : state) : option state :=
  create tol (match bk s with NpFlat => false | _ => true end) (flip_amplitudes (amps s)).

(* the permutation it is meant to be: bit j of the result index is bit n-1-j of the source index *)
Fixpoint bitrev (n i : nat) : nat :=
  match n with
  | O => O
  | S n' => (i mod 2) * Nat.pow 2 n' + bitrev n' (i / 2)
  end.

(* ---------------------------------------------------------------- save / load *)
Definition re_of (a : amp) : Q := match a with Num r _ => r | Symb _ => 0 end.
Definition im_of (a : amp) : Q := match a with Num _ i => i | Symb _ => 0 end.
(* convert_array_to_dict(wf.amplitudes) then json.dumps: works only for numpy-backed objects
   (sympy entries are not JSON serialisable); a column array is written as nested one-element lists *)
Definition save (s : state) : option (bool * list Q * list Q) :=
  match bk s with
  | Mat => None
  | b => if has_symb (amps s) then None
         else Some (match b with NpCol => true | _ => false end, map re_of (amps s), map im_of (amps s))
  end.
Fixpoint zip_num (re im : list Q) : list amp :=
  match re, im with
  | r :: re', i :: im' => Num r i :: zip_num re' im'
  | _, _ => []
  end.
(* convert_dict_to_array: real + 1j*imag (imag present and non-empty), then Wavefunction(...) *)
Definition load (tol : Q) (d : bool * list Q * list Q) : option state :=
  let '(col, re, im) := d in
  match create tol false (zip_num re im) with
  | Some s => Some (if col then NpCol else NpFlat, amps s)
  | None => None
  end.

(* ---------------------------------------------------------------- Dicke states *)
Open Scope Z_scope.
(* the while-loop of dicke_state; None = fuel exhausted (never happens with fuel 2^n, see the bounded theorem) *)
Fixpoint dicke_loop (fuel : nat) (n cur : Z) (acc : list Z) : option (list Z) :=
  match fuel with
  | O => None
  | S f =>
      let nxt := get_next_number_with_same_hamming_weight cur in
      if most_significant_set_bit nxt <=? n then dicke_loop f n nxt (nxt :: acc)
      else Some (rev acc)
  end.
Inductive dicke_result := DErr | DFuel | DIdx (idx : list Z).
Definition dicke_indices (n k : Z) : dicke_result :=
  if n <=? 0 then DErr                       (* zero_state(n) *)
  else if k <? 0 then DErr
  else if n <? k then DErr
  else if k =? 0 then DIdx [0]
  else let first := 2 ^ k - 1 in             (* int("1" * k, base=2) *)
       match dicke_loop (Z.to_nat (2 ^ n)) n first [first] with
       | Some idx => DIdx idx
       | None => DFuel
       end.
(* wf[indices] = 1/sqrt(counter): the probabilities (squared amplitudes) are rational *)
Definition memZ (i : Z) (l : list Z) : bool := existsb (Z.eqb i) l.
Fixpoint zrange (lo : Z) (len : nat) : list Z := match len with O => [] | S k => lo :: zrange (lo + 1) k end.
Definition dicke_probs (n : Z) (idx : list Z) : list Q :=
  map (fun i => if memZ i idx then (1 # Pos.of_nat (length idx)) else 0%Q) (zrange 0 (Z.to_nat (2 ^ n))).

(* independent specification: number of set bits *)
Fixpoint pos_popcount (p : positive) : Z :=
  match p with xH => 1 | xO q => pos_popcount q | xI q => 1 + pos_popcount q end.
Definition popcount (z : Z) : Z := match z with Zpos p => pos_popcount p | _ => 0 end.
Definition weight_k_indices (n k : Z) : list Z :=
  filter (fun i => popcount i =? k) (zrange 0 (Z.to_nat (2 ^ n))).
