(* C20 - proofs about the history checker of State/Store.v *)
Require Import Coq.ZArith.ZArith Coq.Lists.List Coq.Strings.String Coq.Bool.Bool Coq.micromega.Lia.
Require Import OQ.State.Store.
Import ListNotations.
Open Scope list_scope.

(* ------------------------------------------------------------------------------------------ snapshots *)
Lemma snap_eqb_refl : forall a, snap_eqb a a = true.
Proof.
  induction a as [z|s|r| |h IHh t IHt|tag body IHb]; simpl.
  - apply Z.eqb_refl.
  - apply String.eqb_refl.
  - apply Z.eqb_refl.
  - reflexivity.
  - rewrite IHh, IHt. reflexivity.
  - rewrite String.eqb_refl, IHb. reflexivity.
Qed.

Lemma snap_eqb_true : forall a b, snap_eqb a b = true -> a = b.
Proof.
  induction a as [z|s|r| |h IHh t IHt|tag body IHb]; intros b H; destruct b; simpl in H; try discriminate.
  - apply Z.eqb_eq in H. congruence.
  - apply String.eqb_eq in H. congruence.
  - apply Z.eqb_eq in H. congruence.
  - reflexivity.
  - apply andb_true_iff in H. destruct H as [H1 H2]. f_equal; [apply IHh|apply IHt]; assumption.
  - apply andb_true_iff in H. destruct H as [H1 H2]. apply String.eqb_eq in H1. f_equal; [assumption|apply IHb; assumption].
Qed.

Lemma snap_eqb_eq : forall a b, snap_eqb a b = true <-> a = b.
Proof. intros a b. split; [apply snap_eqb_true|intros ->; apply snap_eqb_refl]. Qed.

Lemma arg_eqb_refl : forall a, arg_eqb a a = true.
Proof. intros [n|v]; simpl; [apply String.eqb_refl|apply snap_eqb_refl]. Qed.

Lemma args_eqb_refl : forall l, args_eqb l l = true.
Proof. induction l as [|a r IH]; simpl; [reflexivity|rewrite arg_eqb_refl, IH; reflexivity]. Qed.

Lemma osnaps_eqb_refl : forall l, osnaps_eqb l l = true.
Proof.
  induction l as [|a r IH]; simpl; [reflexivity|].
  rewrite IH, andb_true_r. destruct a as [x|]; simpl; [apply snap_eqb_refl|reflexivity].
Qed.

(* ------------------------------------------------------------------------------------------ the frame *)
Lemma frame_ok_lookup : forall allowed soft bind pre post,
  frame_ok allowed soft bind pre post = true ->
  forall n e, lookup n pre = Some e -> may_change allowed e = false ->
  exists e', lookup n post = Some e' /\ ename e' = ename e /\ eoid e' = eoid e /\ esnap e' = esnap e
             /\ memo_mono (ememo e) (ememo e') = true.
Proof.
  intros allowed soft bind pre. induction pre as [|e0 pre' IH]; intros post Hf n e Hl Hm.
  - discriminate Hl.
  - destruct post as [|e0' post']; [discriminate Hf|].
    cbn [frame_ok] in Hf.
    apply andb_true_iff in Hf. destruct Hf as [Hf Hrest].
    apply andb_true_iff in Hf. destruct Hf as [Hf Hkept].
    apply andb_true_iff in Hf. destruct Hf as [Hname Hoid].
    apply String.eqb_eq in Hname. apply Z.eqb_eq in Hoid.
    cbn [lookup] in Hl |- *. rewrite <- Hname.
    destruct (String.eqb n (ename e0)) eqn:En.
    + injection Hl as <-. exists e0'. rewrite Hm in Hkept.
      unfold entry_kept in Hkept. apply andb_true_iff in Hkept. destruct Hkept as [Hs Hmm].
      apply snap_eqb_true in Hs. repeat split; auto.
    + apply (IH post' Hrest n e Hl Hm).
Qed.

Lemma frame_ok_none_cores : forall bind pre post,
  frame_ok None false bind pre post = true ->
  exists extra, cores post = cores pre ++ cores extra /\ (List.length extra <= 1)%nat.
Proof.
  intros bind pre. induction pre as [|e0 pre' IH]; intros post Hf.
  - destruct post as [|e1 [|e2 post'']].
    + exists []. split; [reflexivity|simpl; lia].
    + exists [e1]. split; [reflexivity|simpl; lia].
    + discriminate Hf.
  - destruct post as [|e0' post']; [discriminate Hf|].
    cbn [frame_ok] in Hf.
    apply andb_true_iff in Hf. destruct Hf as [Hf Hrest].
    apply andb_true_iff in Hf. destruct Hf as [Hf Hkept].
    apply andb_true_iff in Hf. destruct Hf as [Hname Hoid].
    apply String.eqb_eq in Hname. apply Z.eqb_eq in Hoid.
    cbn [may_change] in Hkept. unfold entry_kept in Hkept.
    apply andb_true_iff in Hkept. destruct Hkept as [Hs _]. apply snap_eqb_true in Hs.
    destruct (IH post' Hrest) as [extra [Hc Hl]].
    exists extra. split; [|exact Hl].
    unfold cores in *. cbn [map app]. rewrite Hc. unfold core. rewrite Hname, Hoid, Hs. reflexivity.
Qed.

(* looking a name up in a store that extends another one on the right *)
Lemma lookup_extends : forall s s' x, cores s' = cores s ++ x ->
  forall n e, lookup n s = Some e ->
  exists e', lookup n s' = Some e' /\ ename e' = ename e /\ eoid e' = eoid e /\ esnap e' = esnap e.
Proof.
  induction s as [|e0 r IH]; intros s' x Hc n e Hl.
  - discriminate Hl.
  - destruct s' as [|e0' r']; [discriminate Hc|].
    unfold cores in Hc. cbn [map app] in Hc. injection Hc as Hn Ho Hs Hrest.
    cbn [lookup] in Hl |- *. rewrite Hn.
    destruct (String.eqb n (ename e0)) eqn:En.
    + injection Hl as <-. exists e0'. repeat split; assumption.
    + apply (IH r' x Hrest n e Hl).
Qed.

Definition pure_step (st : step) : Prop := classify (cop (scall st)) = Some Pure.

Lemma step_ok_pure_frame : forall pre st, step_ok pre st = true -> pure_step st ->
  frame_ok None false (cbind (scall st)) pre (spost st) = true /\ forallb (arg_ok pre) (cargs (scall st)) = true.
Proof.
  intros pre st H Hp. unfold step_ok in H. unfold pure_step in Hp. rewrite Hp in H.
  apply andb_true_iff in H. destruct H as [H Hf].
  apply andb_true_iff in H. destruct H as [Ha _]. split; assumption.
Qed.

(* ------------------------------------------------------------------------------------------ T1 *)
Lemma pure_history_extends : forall h s, steps_ok s h = true -> Forall pure_step h ->
  exists extra, cores (final s h) = cores s ++ cores extra.
Proof.
  induction h as [|st r IH]; intros s Hok Hp.
  - exists []. simpl. rewrite app_nil_r. reflexivity.
  - cbn [steps_ok] in Hok. apply andb_true_iff in Hok. destruct Hok as [Hst Hr].
    inversion Hp as [|? ? Hp1 Hp2]; subst.
    destruct (step_ok_pure_frame _ _ Hst Hp1) as [Hf _].
    destruct (frame_ok_none_cores _ _ _ Hf) as [ex1 [Hc1 _]].
    destruct (IH (spost st) Hr Hp2) as [ex2 Hc2].
    exists (ex1 ++ ex2). cbn [final]. rewrite Hc2, Hc1. unfold cores. rewrite map_app, app_assoc. reflexivity.
Qed.

Lemma pure_calls_preserve_store_lemma : forall s0 h, history_ok s0 h = true -> Forall pure_step h ->
  (exists results, cores (final s0 h) = cores s0 ++ cores results) /\
  (forall n e, lookup n s0 = Some e ->
     exists e', lookup n (final s0 h) = Some e' /\ eoid e' = eoid e /\ esnap e' = esnap e).
Proof.
  intros s0 h H Hp. unfold history_ok in H.
  apply andb_true_iff in H. destruct H as [H _]. apply andb_true_iff in H. destruct H as [_ Hok].
  destruct (pure_history_extends h s0 Hok Hp) as [extra Hc]. split.
  - exists extra. exact Hc.
  - intros n e Hl. destruct (lookup_extends _ _ _ Hc n e Hl) as [e' [H1 [_ [H3 H4]]]]. exists e'. auto.
Qed.

(* ------------------------------------------------------------------------------------------ T2 *)
Definition receiver_of (st : step) (i : nat) : Prop :=
  classify (cop (scall st)) = Some (Mutator i) \/ classify (cop (scall st)) = Some (MutatorAtomic i).

Lemma mutator_frame_lemma : forall pre st, step_ok pre st = true ->
  forall n e, lookup n pre = Some e ->
  (forall i, receiver_of st i -> recv_oid pre (cargs (scall st)) i <> Some (eoid e)) ->
  exists e', lookup n (spost st) = Some e' /\ eoid e' = eoid e /\ esnap e' = esnap e.
Proof.
  intros pre st H n e Hl Hne. unfold step_ok in H.
  destruct (classify (cop (scall st))) as [k|] eqn:Ek; [|discriminate H].
  apply andb_true_iff in H. destruct H as [_ Hf].
  assert (Hgo : forall allowed soft, frame_ok allowed soft (cbind (scall st)) pre (spost st) = true ->
                may_change allowed e = false ->
                exists e', lookup n (spost st) = Some e' /\ eoid e' = eoid e /\ esnap e' = esnap e).
  { intros allowed soft Hfr Hm. destruct (frame_ok_lookup _ _ _ _ _ Hfr n e Hl Hm) as [e' [H1 [_ [H3 [H4 _]]]]].
    exists e'. auto. }
  destruct k as [|i|i].
  - apply (Hgo None false Hf). reflexivity.
  - destruct (recv_oid pre (cargs (scall st)) i) as [o|] eqn:Eo; [|discriminate Hf].
    apply (Hgo (Some o) false Hf). cbn [may_change]. apply Z.eqb_neq. intros ->.
    apply (Hne i); [left; exact Ek|exact Eo].
  - destruct (recv_oid pre (cargs (scall st)) i) as [o|] eqn:Eo; [|discriminate Hf].
    apply (Hgo (Some o) _ Hf).
    cbn [may_change]. apply Z.eqb_neq. intros ->.
    apply (Hne i); [right; exact Ek|exact Eo].
Qed.

Lemma frame_ok_soft_vcores : forall allowed bind pre post,
  frame_ok allowed true bind pre post = true ->
  exists extra, vcores post = vcores pre ++ vcores extra /\ (List.length extra <= 1)%nat.
Proof.
  intros allowed bind pre. induction pre as [|e0 pre' IH]; intros post Hf.
  - destruct post as [|e1 [|e2 post'']].
    + exists []. split; [reflexivity|simpl; lia].
    + exists [e1]. split; [reflexivity|simpl; lia].
    + discriminate Hf.
  - destruct post as [|e0' post']; [discriminate Hf|].
    cbn [frame_ok] in Hf.
    apply andb_true_iff in Hf. destruct Hf as [Hf Hrest].
    apply andb_true_iff in Hf. destruct Hf as [Hf Hkept].
    apply andb_true_iff in Hf. destruct Hf as [Hname Hoid].
    apply String.eqb_eq in Hname. apply Z.eqb_eq in Hoid.
    assert (Hs : strip (esnap e0) = strip (esnap e0')).
    { destruct (may_change allowed e0).
      - cbn [negb orb] in Hkept. unfold value_kept in Hkept. apply snap_eqb_true in Hkept. exact Hkept.
      - unfold entry_kept in Hkept. apply andb_true_iff in Hkept. destruct Hkept as [Hk _].
        apply snap_eqb_true in Hk. rewrite Hk. reflexivity. }
    destruct (IH post' Hrest) as [extra [Hc Hl]].
    exists extra. split; [|exact Hl].
    unfold vcores in *. cbn [map app]. rewrite Hc. unfold vcore. rewrite Hname, Hoid, Hs. reflexivity.
Qed.

Lemma atomic_raise_lemma : forall pre st i, step_ok pre st = true ->
  classify (cop (scall st)) = Some (MutatorAtomic i) -> sraised st = true ->
  exists extra, vcores (spost st) = vcores pre ++ vcores extra.
Proof.
  intros pre st i H Ek Hr. unfold step_ok in H. rewrite Ek in H.
  apply andb_true_iff in H. destruct H as [_ Hf].
  destruct (recv_oid pre (cargs (scall st)) i) as [o|]; [|discriminate Hf].
  rewrite Hr in Hf. destruct (frame_ok_soft_vcores _ _ _ _ Hf) as [extra [Hc _]]. exists extra. exact Hc.
Qed.

(* ------------------------------------------------------------------------------------------ T4 *)
Lemma steps_ok_iff : forall h s, steps_ok s h = true <->
  (forall k p, nth_error (trace s h) k = Some p -> step_ok (fst p) (snd p) = true).
Proof.
  induction h as [|st r IH]; intros s; cbn [steps_ok trace].
  - split; [intros _ k p Hk; destruct k; discriminate Hk|reflexivity].
  - rewrite andb_true_iff, IH. split.
    + intros [H0 Hr] k p Hk. destruct k as [|k]; cbn [nth_error] in Hk.
      * injection Hk as <-. exact H0.
      * apply (Hr k p Hk).
    + intros Hall. split.
      * apply (Hall O (s, st)). reflexivity.
      * intros k p Hk. apply (Hall (S k) p). exact Hk.
Qed.

Lemma first_bad_none : forall h s, first_bad s h = None <-> steps_ok s h = true.
Proof.
  induction h as [|st r IH]; intros s; cbn [first_bad steps_ok].
  - split; reflexivity.
  - destruct (step_ok s st); cbn [andb].
    + rewrite <- IH. destruct (first_bad (spost st) r); cbn [option_map]; split; intros H; try reflexivity; discriminate H.
    + split; intros H; discriminate H.
Qed.

Lemma first_bad_some : forall h s k, first_bad s h = Some k ->
  exists p, nth_error (trace s h) k = Some p /\ step_ok (fst p) (snd p) = false /\
            (forall k' p', (k' < k)%nat -> nth_error (trace s h) k' = Some p' -> step_ok (fst p') (snd p') = true).
Proof.
  induction h as [|st r IH]; intros s k H; cbn [first_bad] in H.
  - discriminate H.
  - destruct (step_ok s st) eqn:E0.
    + destruct (first_bad (spost st) r) as [k0|] eqn:Ef; cbn [option_map] in H; [|discriminate H].
      injection H as <-. destruct (IH (spost st) k0 Ef) as [p [Hp [Hbad Hbefore]]].
      exists p. cbn [trace nth_error]. split; [exact Hp|]. split; [exact Hbad|].
      intros k' p' Hlt Hk'. destruct k' as [|k']; cbn [nth_error] in Hk'.
      * injection Hk' as <-. exact E0.
      * apply (Hbefore k' p'); [lia|exact Hk'].
    + injection H as <-. exists (s, st). cbn [trace nth_error fst snd]. split; [reflexivity|]. split; [exact E0|].
      intros k' p' Hlt. lia.
Qed.

Lemma history_ok_iff : forall s0 h, history_ok s0 h = true <->
  names_fresh s0 = true /\
  (forall k p, nth_error (trace s0 h) k = Some p -> step_ok (fst p) (snd p) = true) /\
  results_consistent (trace s0 h) = true.
Proof.
  intros s0 h. unfold history_ok. rewrite !andb_true_iff, steps_ok_iff. tauto.
Qed.

(* ------------------------------------------------------------------------------------------ T3 *)
Lemma results_consistent_pairs : forall t, results_consistent t = true ->
  forall i j p q, (i < j)%nat -> nth_error t i = Some p -> nth_error t j = Some q ->
  same_question p q = true -> same_answer p q = true.
Proof.
  induction t as [|p0 r IH]; intros H i j p q Hij Hi Hj Hq.
  - destruct i; discriminate Hi.
  - cbn [results_consistent] in H. apply andb_true_iff in H. destruct H as [H0 Hr].
    destruct j as [|j]; [lia|]. cbn [nth_error] in Hj.
    destruct i as [|i]; cbn [nth_error] in Hi.
    + injection Hi as <-. rewrite forallb_forall in H0.
      specialize (H0 q (nth_error_In _ _ Hj)). rewrite Hq in H0. exact H0.
    + apply (IH Hr i j p q); [lia|assumption..].
Qed.

Lemma same_question_intro : forall pre1 st1 pre2 st2,
  is_pure (cop (scall st1)) = true -> cop (scall st1) = cop (scall st2) -> cargs (scall st1) = cargs (scall st2) ->
  map (arg_snap pre1) (cargs (scall st1)) = map (arg_snap pre2) (cargs (scall st2)) ->
  same_question (pre1, st1) (pre2, st2) = true.
Proof.
  intros pre1 st1 pre2 st2 Hp Hop Hargs Hsn. unfold same_question. cbn [fst snd].
  rewrite Hp, <- Hop, String.eqb_refl, <- Hargs, args_eqb_refl. cbn [andb].
  rewrite Hargs at 2. rewrite Hsn. apply osnaps_eqb_refl.
Qed.

Lemma same_answer_elim : forall p q, same_answer p q = true ->
  sres (snd p) = sres (snd q) /\ sraised (snd p) = sraised (snd q).
Proof.
  intros p q H. unfold same_answer in H. apply andb_true_iff in H. destruct H as [H1 H2].
  apply snap_eqb_true in H2. apply Bool.eqb_prop in H1. split; assumption.
Qed.

Lemma repeat_same_result_lemma : forall s0 h, history_ok s0 h = true ->
  forall i j pre_i st_i pre_j st_j, (i < j)%nat ->
  nth_error (trace s0 h) i = Some (pre_i, st_i) -> nth_error (trace s0 h) j = Some (pre_j, st_j) ->
  is_pure (cop (scall st_i)) = true -> cop (scall st_i) = cop (scall st_j) -> cargs (scall st_i) = cargs (scall st_j) ->
  map (arg_snap pre_i) (cargs (scall st_i)) = map (arg_snap pre_j) (cargs (scall st_j)) ->
  sres st_i = sres st_j /\ sraised st_i = sraised st_j.
Proof.
  intros s0 h H i j pre_i st_i pre_j st_j Hij Hi Hj Hp Hop Hargs Hsn.
  apply history_ok_iff in H. destruct H as [_ [_ Hrc]].
  apply (same_answer_elim (pre_i, st_i) (pre_j, st_j)).
  apply (results_consistent_pairs _ Hrc i j); try assumption.
  apply same_question_intro; assumption.
Qed.

(* in an all-pure passing history every later store extends every earlier one *)
Lemma trace_extends_from_start : forall h s, steps_ok s h = true -> Forall pure_step h ->
  forall j pj stj, nth_error (trace s h) j = Some (pj, stj) -> exists extra, cores pj = cores s ++ cores extra.
Proof.
  induction h as [|st r IH]; intros s Hok Hp j pj stj Hj.
  - destruct j; discriminate Hj.
  - cbn [steps_ok] in Hok. apply andb_true_iff in Hok. destruct Hok as [Hst Hr].
    inversion Hp as [|? ? Hp1 Hp2]; subst.
    destruct j as [|j]; cbn [trace nth_error] in Hj.
    + injection Hj as <- _. exists []. simpl. rewrite app_nil_r. reflexivity.
    + destruct (step_ok_pure_frame _ _ Hst Hp1) as [Hf _].
      destruct (frame_ok_none_cores _ _ _ Hf) as [ex1 [Hc1 _]].
      destruct (IH (spost st) Hr Hp2 j pj stj Hj) as [ex2 Hc2].
      exists (ex1 ++ ex2). rewrite Hc2, Hc1. unfold cores. rewrite map_app, app_assoc. reflexivity.
Qed.

Lemma trace_extends_between : forall h s, steps_ok s h = true -> Forall pure_step h ->
  forall i j pi sti pj stj, (i < j)%nat ->
  nth_error (trace s h) i = Some (pi, sti) -> nth_error (trace s h) j = Some (pj, stj) ->
  (exists extra, cores pj = cores pi ++ cores extra) /\ forallb (arg_ok pi) (cargs (scall sti)) = true.
Proof.
  induction h as [|st r IH]; intros s Hok Hp i j pi sti pj stj Hij Hi Hj.
  - destruct i; discriminate Hi.
  - pose proof Hok as Hok0. cbn [steps_ok] in Hok. apply andb_true_iff in Hok. destruct Hok as [Hst Hr].
    inversion Hp as [|? ? Hp1 Hp2]; subst.
    destruct j as [|j]; [lia|]. cbn [trace nth_error] in Hj.
    destruct i as [|i]; cbn [trace nth_error] in Hi.
    + injection Hi as <- <-.
      destruct (step_ok_pure_frame _ _ Hst Hp1) as [Hf Ha]. split; [|exact Ha].
      destruct (frame_ok_none_cores _ _ _ Hf) as [ex1 [Hc1 _]].
      destruct (trace_extends_from_start r (spost st) Hr Hp2 j pj stj Hj) as [ex2 Hc2].
      exists (ex1 ++ ex2). rewrite Hc2, Hc1. unfold cores. rewrite map_app, app_assoc. reflexivity.
    + apply (IH (spost st) Hr Hp2 i j pi sti pj stj); [lia|assumption..].
Qed.

Lemma arg_snaps_extend : forall s s' x, cores s' = cores s ++ x ->
  forall args, forallb (arg_ok s) args = true -> map (arg_snap s) args = map (arg_snap s') args.
Proof.
  intros s s' x Hc. induction args as [|a r IH]; intros Hok; [reflexivity|].
  cbn [forallb] in Hok. apply andb_true_iff in Hok. destruct Hok as [Ha Hr].
  cbn [map]. rewrite (IH Hr). f_equal.
  destruct a as [n|v]; [|reflexivity]. cbn [arg_ok arg_snap] in *.
  destruct (lookup n s) as [e|] eqn:El; [|discriminate Ha].
  destruct (lookup_extends _ _ _ Hc n e El) as [e' [Hl' [_ [_ Hs]]]].
  rewrite Hl'. cbn [option_map]. rewrite Hs. reflexivity.
Qed.

Lemma repeat_same_result_pure_lemma : forall s0 h, history_ok s0 h = true -> Forall pure_step h ->
  forall i j pre_i st_i pre_j st_j, (i < j)%nat ->
  nth_error (trace s0 h) i = Some (pre_i, st_i) -> nth_error (trace s0 h) j = Some (pre_j, st_j) ->
  cop (scall st_i) = cop (scall st_j) -> cargs (scall st_i) = cargs (scall st_j) ->
  sres st_i = sres st_j /\ sraised st_i = sraised st_j.
Proof.
  intros s0 h H Hp i j pre_i st_i pre_j st_j Hij Hi Hj Hop Hargs.
  pose proof H as H0. apply history_ok_iff in H0. destruct H0 as [_ [Hsteps _]].
  apply steps_ok_iff in Hsteps.
  destruct (trace_extends_between h s0 Hsteps Hp i j _ _ _ _ Hij Hi Hj) as [[extra Hc] Ha].
  apply (repeat_same_result_lemma s0 h H i j pre_i st_i pre_j st_j Hij Hi Hj); try assumption.
  - assert (Hpi : pure_step st_i).
    { rewrite Forall_forall in Hp. apply Hp.
      assert (Hin : In (pre_i, st_i) (trace s0 h)) by (apply (nth_error_In _ _ Hi)).
      clear -Hin. revert s0 Hin. induction h as [|st r IH]; intros s0 Hin; [destruct Hin|].
      cbn [trace] in Hin. destruct Hin as [Heq|Hin]; [injection Heq as _ <-; left; reflexivity|right; apply (IH _ Hin)]. }
    unfold is_pure. unfold pure_step in Hpi. rewrite Hpi. reflexivity.
  - rewrite <- Hargs. apply (arg_snaps_extend _ _ _ Hc). exact Ha.
Qed.

(* ------------------------------------------------------------------------------------------ names *)
Lemma names_fresh_nodup : forall s, names_fresh s = true -> NoDup (map ename s).
Proof.
  induction s as [|e r IH]; intros H; cbn [map]; [constructor|].
  cbn [names_fresh] in H. apply andb_true_iff in H. destruct H as [H1 H2].
  constructor; [|apply IH; exact H2].
  intros Hin. apply in_map_iff in Hin. destruct Hin as [e' [Hn Hin]].
  apply negb_true_iff in H1.
  assert (Hex : existsb (fun e'0 => String.eqb (ename e) (ename e'0)) r = true).
  { apply existsb_exists. exists e'. split; [exact Hin|]. rewrite Hn. apply String.eqb_refl. }
  rewrite Hex in H1. discriminate H1.
Qed.
