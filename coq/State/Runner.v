(* Model of the circuit-runner base classes (property C14):
     api/circuit_runner.py          BaseCircuitRunner
     api/wavefunction_simulator.py  BaseWavefunctionSimulator  (runners/symbolic_simulator.py: predicate = everything)
     runners/trackers.py            MeasurementTrackingBackend
   A runner is its static configuration together with its mutable state (the two counters, for the
   tracker also the content of its JSON file, its pending raw_data list and the wrapped runner).  [step] performs one public call
   and returns the new runner, the outcome (error class or the *shape* of the returned object) and the
   trace of what the innermost runner executed. *)
Require Import Coq.ZArith.ZArith Coq.Lists.List Coq.Bool.Bool.
Import ListNotations.
Open Scope Z_scope.

(* A circuit is abstracted to its register width, the kinds of its operations in order, whether
   [circuit.free_symbols] is non-empty, and whether all its operations are gate operations (only then
   can circuits.to_dict serialise it). *)
Record circuit := mkC { cw : Z; cops : list Z; cfree : bool; cgates : bool }.

Inductive event :=
| ERun (c : circuit) (n : Z)              (* BaseCircuitRunner subclass: one call of _run_and_measure *)
| EWf (c : circuit)                       (* simulator: entry of get_wavefunction *)
| ESeg (native : bool) (ops : list Z).    (* simulator: one groupby segment handled *)

Inductive err := ValueError | TypeErr | AttrError.

Definition res := (Z * Z)%type.           (* one Measurements object: number of bitstrings, their length *)

Inductive record :=
| RecM (c : circuit) (m : res)            (* "measurement": circuit, number_of_shots, key length of counts *)
| RecD (c : circuit) (n : option Z).      (* "measurement outcome distribution": circuit, number_of_shots *)

Inductive outcome :=
| OErr (e : err)
| OMeas (m : res)
| OBatch (ms : list res)
| ODist (w : Z)                           (* distribution with keys of length w *)
| OWf (w : Z)                             (* wavefunction with 2^w amplitudes *)
| OVal.                                   (* a number *)

Inductive runner :=
| RBase (over nc nj : Z)                  (* subclass whose _run_and_measure returns n + over shots of register width *)
| RSim (p : Z -> bool) (nc nj : Z)        (* simulator with native-support predicate p on operation kinds *)
| RTrack (nc nj : Z) (file pending : list record) (inner : runner).
  (* file: records in the JSON file; pending: self.raw_data, non-empty only after a failed recording *)

Inductive nspec := One (n : Z) | Many (ns : list Z).
Inductive call :=
| Run (c : circuit) (n : Z)
| Batch (cs : list circuit) (s : nspec)
| Dist (c : circuit) (n : option Z)
| Wavefn (c : circuit)
| Exact (c : circuit) (opw : Z).          (* operator abstracted to its n_qubits *)

(* ---- split_circuit: itertools.groupby on the predicate value *)
Fixpoint segments (p : Z -> bool) (ops : list Z) : list (bool * list Z) :=
  match ops with
  | [] => []
  | o :: r => match segments p r with
              | (b, l) :: t => if Bool.eqb (p o) b then (b, o :: l) :: t else (p o, [o]) :: (b, l) :: t
              | [] => [(p o, [o])]
              end
  end.

(* get_wavefunction: for every segment n_jobs += 1, for a native one also n_circuits += 1 *)
Definition seg_step (acc : Z * Z * list event) (s : bool * list Z) : Z * Z * list event :=
  let '(nc, nj, tr) := acc in
  ((if fst s then nc + 1 else nc), nj + 1, tr ++ [ESeg (fst s) (snd s)]).
Definition get_wavefunction (p : Z -> bool) (nc nj : Z) (c : circuit) : Z * Z * list event :=
  fold_left seg_step (segments p (cops c)) (nc, nj, [EWf c]).

(* length of the bitstrings sampled from a wavefunction on w qubits: format(i, "0{w}b") *)
Definition sampled_width (w : Z) : Z := if w =? 0 then 1 else w.

(* ---- run_and_measure *)
Fixpoint run_single (r : runner) (c : circuit) (n : Z) : runner * (err + res) * list event :=
  match r with
  | RBase over nc nj =>
      if n <=? 0 then (r, inl ValueError, [])
      else (RBase over (nc + 1) (nj + 1), inr (n + over, cw c), [ERun c n])
  | RSim p nc nj =>
      if n <=? 0 then (r, inl ValueError, [])
      else if cfree c then (r, inl ValueError, [])
      else let '(nc', nj', tr) := get_wavefunction p nc nj c in
           (RSim p nc' nj', inr (n, sampled_width (cw c)), tr)
  | RTrack nc nj file pend inner =>
      if n <=? 0 then (r, inl ValueError, [])
      else match run_single inner c n with
           | (inner', inl e, tr) => (RTrack nc nj file pend inner', inl e, tr)
           | (inner', inr m, tr) =>
               if cgates c                                    (* to_dict(circuit) in record_raw_measurement_data *)
               then (RTrack (nc + 1) (nj + 1) (pend ++ [RecM c m]) [] inner', inr m, tr)
               else (RTrack nc nj file pend inner', inl AttrError, tr)
           end
  end.

(* default _run_batch_and_measure: run_and_measure for each pair, the first exception ends the loop *)
Fixpoint loop (r : runner) (cns : list (circuit * Z)) : runner * (err + list res) * list event :=
  match cns with
  | [] => (r, inr [], [])
  | (c, n) :: rest =>
      match run_single r c n with
      | (r', inl e, tr) => (r', inl e, tr)
      | (r', inr m, tr) =>
          match loop r' rest with
          | (r'', inl e, tr') => (r'', inl e, tr ++ tr')
          | (r'', inr ms, tr') => (r'', inr (m :: ms), tr ++ tr')
          end
      end
  end.

(* argument validation of BaseCircuitRunner.run_batch_and_measure for a batch of k circuits *)
Definition validate (k : nat) (s : nspec) : option (list Z) :=
  match s with
  | One n => if n <=? 0 then None else Some (repeat n k)
  | Many ns => if negb (Nat.eqb (List.length ns) k) then None
               else if existsb (fun n => n <=? 0) ns then None else Some ns
  end.

(* the tracker's recording loop over zip(circuits, measurements): records appended to raw_data before
   the first circuit that cannot be serialised, and whether the loop completed *)
Fixpoint record_batch (cms : list (circuit * res)) : list record * bool :=
  match cms with
  | [] => ([], true)
  | (c, m) :: rest => if cgates c
                      then let '(rs, ok) := record_batch rest in (RecM c m :: rs, ok)
                      else ([], false)
  end.

Fixpoint run_batch (r : runner) (cs : list circuit) (s : nspec) : runner * (err + list res) * list event :=
  match r with
  | RTrack nc nj file pend inner =>
      let nc' := nc + Z.of_nat (List.length cs) in
      let nj' := nj + 1 in
      match run_batch inner cs s with
      | (inner', inl e, tr) => (RTrack nc' nj' file pend inner', inl e, tr)
      | (inner', inr ms, tr) =>
          match record_batch (combine cs ms) with
          | (recs, true) => (RTrack nc' nj' (pend ++ recs) [] inner', inr ms, tr)
          | (recs, false) => (RTrack nc' nj' file (pend ++ recs) inner', inl AttrError, tr)
          end
      end
  | _ => match validate (List.length cs) s with
         | None => (r, inl ValueError, [])
         | Some ns => loop r (combine cs ns)
         end
  end.

(* ---- get_measurement_outcome_distribution *)
Fixpoint dist (r : runner) (c : circuit) (on : option Z) : runner * outcome * list event :=
  match r with
  | RBase _ _ _ =>
      match on with
      | None => (r, OErr ValueError, [])
      | Some n => match run_single r c n with
                  | (r', inl e, tr) => (r', OErr e, tr)
                  | (r', inr m, tr) => (r', ODist (snd m), tr)
                  end
      end
  | RSim p nc nj =>
      match on with
      | None => let '(nc', nj', tr) := get_wavefunction p nc nj c in
                (RSim p nc' nj', (if cfree c then OErr TypeErr else ODist (cw c)), tr)
      | Some n => match run_single r c n with
                  | (r', inl e, tr) => (r', OErr e, tr)
                  | (r', inr m, tr) => (r', ODist (snd m), tr)
                  end
      end
  | RTrack nc nj file pend inner =>
      match dist inner c on with
      | (inner', OErr e, tr) => (RTrack nc nj file pend inner', OErr e, tr)
      | (inner', o, tr) =>
          if cgates c
          then (RTrack nc nj (pend ++ [RecD c on]) [] inner', o, tr)
          else (RTrack nc nj file pend inner', OErr AttrError, tr)
      end
  end.

Definition step (r : runner) (k : call) : runner * outcome * list event :=
  match k with
  | Run c n => match run_single r c n with
               | (r', inl e, tr) => (r', OErr e, tr)
               | (r', inr m, tr) => (r', OMeas m, tr)
               end
  | Batch cs s => match run_batch r cs s with
                  | (r', inl e, tr) => (r', OErr e, tr)
                  | (r', inr ms, tr) => (r', OBatch ms, tr)
                  end
  | Dist c on => dist r c on
  | Wavefn c => match r with
                | RSim p nc nj => let '(nc', nj', tr) := get_wavefunction p nc nj c in
                                  (RSim p nc' nj', OWf (cw c), tr)
                | _ => (r, OErr AttrError, [])
                end
  | Exact c opw => match r with
                   | RSim p nc nj =>
                       let '(nc', nj', tr) := get_wavefunction p nc nj c in
                       (RSim p nc' nj',
                        (if cw c <? opw then OErr ValueError else if cfree c then OErr TypeErr else OVal), tr)
                   | _ => (r, OErr AttrError, [])
                   end
  end.

(* ---- histories *)
Definition st_runner (x : runner * outcome * list event) : runner := fst (fst x).
Definition st_outcome (x : runner * outcome * list event) : outcome := snd (fst x).
Definition st_trace (x : runner * outcome * list event) : list event := snd x.

Fixpoint run_history (r : runner) (ks : list call) : list (runner * outcome * list event) :=
  match ks with
  | [] => []
  | k :: rest => step r k :: run_history (st_runner (step r k)) rest
  end.
Fixpoint final (r : runner) (ks : list call) : runner :=
  match ks with [] => r | k :: rest => final (st_runner (step r k)) rest end.
Fixpoint history_trace (r : runner) (ks : list call) : list event :=
  match ks with [] => [] | k :: rest => st_trace (step r k) ++ history_trace (st_runner (step r k)) rest end.

(* ---- observations *)
Definition counters (r : runner) : Z * Z :=
  match r with RBase _ nc nj => (nc, nj) | RSim _ nc nj => (nc, nj) | RTrack nc nj _ _ _ => (nc, nj) end.
Definition n_circuits (r : runner) : Z := fst (counters r).
Definition n_jobs (r : runner) : Z := snd (counters r).
Definition is_leaf (r : runner) : bool := match r with RTrack _ _ _ _ _ => false | _ => true end.
Fixpoint leaf_of (r : runner) : runner := match r with RTrack _ _ _ _ inner => leaf_of inner | _ => r end.
Fixpoint all_counters (r : runner) : list (Z * Z) :=
  match r with RTrack nc nj _ _ inner => (nc, nj) :: all_counters inner | _ => [counters r] end.
Fixpoint files (r : runner) : list (list record) :=
  match r with RTrack _ _ f _ inner => f :: files inner | _ => [] end.
Fixpoint pendings (r : runner) : list (list record) :=
  match r with RTrack _ _ _ q inner => q :: pendings inner | _ => [] end.

(* work recorded in a trace *)
Definition ev_circuits (e : event) : Z :=
  match e with ERun _ _ => 1 | ESeg true _ => 1 | _ => 0 end.
Definition ev_jobs (e : event) : Z :=
  match e with ERun _ _ => 1 | ESeg _ _ => 1 | EWf _ => 0 end.
Fixpoint circuits_in (tr : list event) : Z := match tr with [] => 0 | e :: r => ev_circuits e + circuits_in r end.
Fixpoint jobs_in (tr : list event) : Z := match tr with [] => 0 | e :: r => ev_jobs e + jobs_in r end.

(* length of the bitstrings a runner delivers for circuit c *)
Fixpoint delivered_width (r : runner) (c : circuit) : Z :=
  match r with
  | RBase _ _ _ => cw c
  | RSim _ _ _ => sampled_width (cw c)
  | RTrack _ _ _ _ inner => delivered_width inner c
  end.
(* the contract of the subclass's _run_and_measure: at least n shots *)
Fixpoint honest (r : runner) : Prop :=
  match r with RBase over _ _ => 0 <= over | RSim _ _ _ => True | RTrack _ _ _ _ inner => honest inner end.

(* is the innermost runner a plain base-class runner (not a simulator)? *)
Fixpoint leaf_base (r : runner) : bool :=
  match r with RBase _ _ _ => true | RSim _ _ _ => false | RTrack _ _ _ _ inner => leaf_base inner end.

(* ---- vocabulary of the property statements *)
(* the event logged for one segment *)
Definition seg_event (s : bool * list Z) : event := ESeg (fst s) (snd s).
(* consecutive segments differ in the predicate value *)
Fixpoint alternating (l : list bool) : Prop :=
  match l with
  | a :: ((b :: _) as r) => a <> b /\ alternating r
  | _ => True
  end.
(* pointwise order on the counters of all levels *)
Definition pair_le (a b : Z * Z) : Prop := fst a <= fst b /\ snd a <= snd b.
Definition cle (l l' : list (Z * Z)) : Prop := Forall2 pair_le l l'.
(* the arguments the property calls invalid *)
Definition bad_spec (k : nat) (s : nspec) : Prop :=
  match s with
  | One n => n <= 0
  | Many ns => List.length ns <> k \/ Exists (fun n => n <= 0) ns
  end.
Definition invalid_args (k : call) : Prop :=
  match k with
  | Run _ n => n <= 0
  | Batch cs s => bad_spec (List.length cs) s
  | Dist _ (Some n) => n <= 0
  | _ => False
  end.
(* result m serves request (c, n): enough shots, bitstrings of the delivered width *)
Definition served (r : runner) (cn : circuit * Z) (m : res) : Prop :=
  snd cn <= fst m /\ snd m = delivered_width r (fst cn).
(* the tracker: calls it forwards, the file it writes, what it adds to its own counters *)
Definition tracked_call (k : call) : Prop :=
  match k with Run _ _ | Batch _ _ | Dist _ _ => True | _ => False end.
Definition call_circuits (k : call) : list circuit :=
  match k with Run c _ | Dist c _ | Wavefn c | Exact c _ => [c] | Batch cs _ => cs end.
Definition serialisable (k : call) : Prop := Forall (fun c => cgates c = true) (call_circuits k).
Definition new_records (k : call) (o : outcome) : option (list record) :=
  match k, o with
  | Run c _, OMeas m => Some [RecM c m]
  | Batch cs _, OBatch ms => Some (map (fun cm => RecM (fst cm) (snd cm)) (combine cs ms))
  | Dist c on, ODist _ => Some [RecD c on]
  | _, _ => None
  end.
(* file and raw_data after a forwarded call with outcome o: a success writes the pending records and the new
   ones and clears raw_data; an exception leaves both alone *)
Definition file_after (k : call) (o : outcome) (file pend : list record) : list record :=
  match new_records k o with Some recs => pend ++ recs | None => file end.
Definition pending_after (k : call) (o : outcome) (pend : list record) : list record :=
  match new_records k o with Some _ => [] | None => pend end.
Definition own_count (k : call) (o : outcome) : Z * Z :=
  match k, o with
  | Run _ _, OMeas _ => (1, 1)
  | Batch cs _, _ => (Z.of_nat (List.length cs), 1)
  | _, _ => (0, 0)
  end.
