(* C20 - an explicit store of named objects and a checker for recorded call histories.

   A functional model has value semantics by construction, so "the argument is unchanged" says nothing
   about Python objects unless the heap is made explicit.  Here the heap is a [store]: a list of named
   objects, each carrying the identity of the Python object ([eoid]), a canonical deep *snapshot* of its
   observable state ([esnap], a tree computed by the harness's own walker) and the memo attributes the
   library attaches lazily ([ememo]: PauliTerm._circuit, PauliSum._is_ising, PauliSum._circuits).
   The model does not compute what a call returns; it CHECKS a recorded history: given the store before a
   call, the call, and the store recorded after it, [step_ok] is true iff every object that the
   classification [classify] says must be unchanged has an identical snapshot.  The classification table
   below is the place where it is fixed which operations of the library are claimed to be value-returning
   ([Pure]) and which are genuine in-place updates ([Mutator] / [MutatorAtomic], with the position of the
   receiver among the arguments). *)
Require Import Coq.ZArith.ZArith Coq.Lists.List Coq.Strings.String Coq.Bool.Bool.
Import ListNotations.
Open Scope string_scope.

(* ------------------------------------------------------------------------------------------ snapshots *)
(* Lisp-style trees: integers, strings (floats / complex numbers / sympy expressions travel as their
   repr / srepr text), references (normalised identities of nested mutable containers), lists and tagged
   nodes. *)
Inductive snap : Type :=
| SInt (z : Z)
| SStr (s : string)
| SRef (r : Z)
| SNil
| SCons (h t : snap)
| STag (tag : string) (body : snap).

Definition SL (l : list snap) : snap := fold_right SCons SNil l.
Definition ST (tag : string) (l : list snap) : snap := STag tag (SL l).

Fixpoint snap_eqb (a b : snap) : bool :=
  match a, b with
  | SInt x, SInt y => Z.eqb x y
  | SStr x, SStr y => String.eqb x y
  | SRef x, SRef y => Z.eqb x y
  | SNil, SNil => true
  | SCons h1 t1, SCons h2 t2 => snap_eqb h1 h2 && snap_eqb t1 t2
  | STag s1 b1, STag s2 b2 => String.eqb s1 s2 && snap_eqb b1 b2
  | _, _ => false
  end.

(* value-only view: the identities of nested containers erased *)
Fixpoint strip (a : snap) : snap :=
  match a with
  | SRef _ => SRef 0
  | SCons h t => SCons (strip h) (strip t)
  | STag g b => STag g (strip b)
  | x => x
  end.

(* ------------------------------------------------------------------------------------------ stores *)
Record entry : Type := E { ename : string; eoid : Z; esnap : snap; ememo : list (string * snap) }.
Definition store := list entry.

(* what is compared for "the object is unchanged" *)
Definition core (e : entry) : string * Z * snap := (ename e, eoid e, esnap e).
Definition cores (s : store) := map core s.
(* the same up to the identities of the object's private containers *)
Definition vcore (e : entry) : string * Z * snap := (ename e, eoid e, strip (esnap e)).
Definition vcores (s : store) := map vcore s.

Fixpoint lookup (n : string) (s : store) : option entry :=
  match s with
  | [] => None
  | e :: r => if String.eqb n (ename e) then Some e else lookup n r
  end.

Fixpoint memo_get (k : string) (m : list (string * snap)) : option snap :=
  match m with
  | [] => None
  | (k', v) :: r => if String.eqb k k' then Some v else memo_get k r
  end.

(* memo attributes are write-once: whatever was cached before the call is still cached, same value *)
Definition memo_mono (old new : list (string * snap)) : bool :=
  forallb (fun kv => match memo_get (fst kv) new with Some v => snap_eqb (snd kv) v | None => false end) old.

Fixpoint names_fresh (s : store) : bool :=
  match s with
  | [] => true
  | e :: r => negb (existsb (fun e' => String.eqb (ename e) (ename e')) r) && names_fresh r
  end.

(* ------------------------------------------------------------------------------------------ calls *)
Inductive arg : Type :=
| AObj (n : string)          (* an object of the pool, by name *)
| ALit (v : snap).           (* an immediate value (number, list of indices, text) *)

Record call : Type := Call { cop : string; cargs : list arg; cbind : option string }.

Inductive kind : Type :=
| Pure                          (* must leave every object of the store unchanged *)
| Mutator (recv : nat)          (* may change the object passed as argument number recv, nothing else *)
| MutatorAtomic (recv : nat).   (* as Mutator, and when the call raises the receiver keeps its value (its private
                                   containers may have been replaced by equal copies) *)

(* Every operation the property lists, by family, and the genuine in-place operations of the library. *)
Definition op_table : list (string * kind) :=
  (* circuits *)
  [ ("circ_add", Pure); ("circ_add_op", Pure); ("circ_iadd", Pure); ("circ_bind", Pure); ("circ_inverse", Pure);
    ("circ_controlled", Pure); ("circ_to_dict", Pure); ("circ_save", Pure); ("circ_roundtrip", Pure);
    ("circset_to_dict", Pure); ("circ_to_unitary", Pure); ("circ_free_symbols", Pure); ("circ_eq", Pure);
    ("circ_repr", Pure); ("circ_custom_defs", Pure); ("circ_split", Pure); ("circ_operations", Pure);
  (* gates and gate operations *)
    ("gate_controlled", Pure); ("gate_dagger", Pure); ("gate_power", Pure); ("gate_exp", Pure); ("gate_bind", Pure);
    ("gate_replace_params", Pure); ("gate_matrix", Pure); ("gate_call", Pure); ("gate_to_dict", Pure);
    ("gate_free_symbols", Pure); ("gate_eq", Pure); ("gate_str", Pure);
    ("gop_bind", Pure); ("gop_replace_params", Pure); ("gop_lifted_matrix", Pure); ("gop_apply", Pure); ("gop_to_dict", Pure);
  (* Pauli terms and sums *)
    ("op_add", Pure); ("op_sub", Pure); ("op_mul", Pure); ("op_iadd", Pure); ("op_imul", Pure); ("op_scale", Pure);
    ("op_radd", Pure); ("op_rsub", Pure); ("op_div", Pure); ("op_pow", Pure); ("op_simplify", Pure); ("op_eq", Pure);
    ("op_hash", Pure); ("op_conj", Pure); ("op_is_hermitian", Pure); ("op_to_dict", Pure); ("op_roundtrip", Pure);
    ("op_save", Pure); ("op_save_set", Pure); ("op_sparse", Pure); ("op_pauli_strings", Pure); ("op_reverse", Pure);
    ("op_expectation", Pure); ("op_circuit", Pure); ("op_is_ising", Pure); ("op_n_qubits", Pure); ("op_qubits", Pure);
    ("op_repr", Pure); ("op_copy", Pure); ("op_terms", Pure); ("op_is_constant", Pure); ("op_evaluate", Pure);
    ("op_iter", Pure);
  (* measurements, expectation values, parities *)
    ("meas_get_counts", Pure); ("meas_get_distribution", Pure); ("meas_expectation_values", Pure);
    ("meas_parities", Pure); ("meas_save", Pure); ("meas_from_counts", Pure); ("meas_representing", Pure);
    ("par_to_expectation_values", Pure); ("par_to_dict", Pure); ("par_save", Pure);
    ("ev_to_dict", Pure); ("ev_save", Pure); ("ev_concatenate", Pure); ("ev_eq", Pure);
    ("freq_expectation", Pure); ("check_parity", Pure);
  (* distributions *)
    ("dist_sub", Pure); ("dist_distance", Pure); ("dist_mmd", Pure); ("dist_nll", Pure); ("dist_js", Pure);
    ("dist_save", Pure); ("dist_save_many", Pure); ("dist_n_subsystems", Pure); ("dist_repr", Pure);
    ("dist_make", Pure); ("dict_is_normalized", Pure); ("dict_is_distribution", Pure); ("dict_keys_to_text", Pure);
    ("dist_from_probabilities", Pure);
  (* wavefunctions *)
    ("wf_probabilities", Pure); ("wf_outcome_probs", Pure); ("wf_bind", Pure); ("wf_amplitudes", Pure); ("wf_eq", Pure);
    ("wf_str", Pure); ("wf_save", Pure); ("wf_flip", Pure); ("wf_sample", Pure); ("wf_getitem", Pure);
    ("wf_free_symbols", Pure); ("wf_len", Pure);
  (* genuine in-place operations *)
    ("wf_setitem", MutatorAtomic 0);        (* wf[i] = v, wf[a:b] = [numbers]: a rejected assignment puts a saved copy of
                                               the whole amplitude vector back *)
    ("wf_setitem_seq", MutatorAtomic 0);    (* wf[int] = [v, ...]: on a sympy-backed wavefunction the list spills over the
                                               following entries; rejected assignments are rolled back (finding F29, fixed) *)
    ("wf_setitem_symseq", MutatorAtomic 0); (* wf[a:b] = [number, symbol] on a numpy-backed wavefunction: numpy raises after
                                               storing the leading numbers; the write itself is now rolled back on any
                                               exception (finding F37, fixed) *)
    ("meas_add_counts", Mutator 0);        (* Measurements.add_counts extends the stored list *)
    ("ev_to_real", Mutator 0);              (* expectation_values_to_real rewrites and returns its argument *)
    ("dict_normalize", Mutator 0);        (* normalize_measurement_outcome_distribution rescales the dict it is given *)
  (* evaluating a circuit on a simulator: the runner counts the jobs it executed, so it is the receiver of an
     in-place update; the circuit, the explicit initial state (a raw array, or the live amplitude array of a
     wavefunction) and every other object are arguments and must stay as they were *)
    ("sim_get_wavefunction", Mutator 0); ("sim_get_wavefunction0", Mutator 0); ("sim_run_and_measure", Mutator 0);
    ("sim_exact_expectation", Mutator 0); ("sim_distribution", Mutator 0) ].

Fixpoint assoc_kind (op : string) (t : list (string * kind)) : option kind :=
  match t with
  | [] => None
  | (o, k) :: r => if String.eqb op o then Some k else assoc_kind op r
  end.
Definition classify (op : string) : option kind := assoc_kind op op_table.

Definition is_pure (op : string) : bool :=
  match classify op with Some Pure => true | _ => false end.

(* ------------------------------------------------------------------------------------------ steps *)
Record step : Type := Step { scall : call; sraised : bool; sres : snap; spost : store }.

Definition arg_ok (pre : store) (a : arg) : bool :=
  match a with AObj n => match lookup n pre with Some _ => true | None => false end | ALit _ => true end.

Definition arg_snap (pre : store) (a : arg) : option snap :=
  match a with AObj n => option_map esnap (lookup n pre) | ALit v => Some v end.

(* identity of the receiver: objects bound to several names (an operation returned its own argument)
   share it, and all of those names may change together *)
Definition recv_oid (pre : store) (args : list arg) (i : nat) : option Z :=
  match nth_error args i with
  | Some (AObj n) => option_map eoid (lookup n pre)
  | _ => None
  end.

Definition may_change (allowed : option Z) (e : entry) : bool :=
  match allowed with Some o => Z.eqb o (eoid e) | None => false end.

Definition entry_kept (e e' : entry) : bool :=
  snap_eqb (esnap e) (esnap e') && memo_mono (ememo e) (ememo e').
Definition value_kept (e e' : entry) : bool :=
  snap_eqb (strip (esnap e)) (strip (esnap e')).

(* the recorded post-store lists the same names with the same identities in the same order; every object
   outside the allowed identity has an identical snapshot; objects with the allowed identity are free, or, when
   [soft] is set, must keep their value; at most one new name, and only if the call binds it *)
Fixpoint frame_ok (allowed : option Z) (soft : bool) (bind : option string) (pre post : store) : bool :=
  match pre, post with
  | [], [] => true
  | [], [e'] => match bind with Some n => String.eqb n (ename e') | None => false end
  | e :: pre', e' :: post' =>
      String.eqb (ename e) (ename e') && Z.eqb (eoid e) (eoid e')
      && (if may_change allowed e then negb soft || value_kept e e' else entry_kept e e')
      && frame_ok allowed soft bind pre' post'
  | _, _ => false
  end.

Definition step_ok (pre : store) (st : step) : bool :=
  let c := scall st in
  match classify (cop c) with
  | None => false
  | Some k =>
      forallb (arg_ok pre) (cargs c)
      && names_fresh (spost st)
      && match k with
         | Pure => frame_ok None false (cbind c) pre (spost st)
         | Mutator i =>
             match recv_oid pre (cargs c) i with
             | Some o => frame_ok (Some o) false (cbind c) pre (spost st)
             | None => false
             end
         | MutatorAtomic i =>
             match recv_oid pre (cargs c) i with
             | Some o => frame_ok (Some o) (sraised st) (cbind c) pre (spost st)
             | None => false
             end
         end
  end.

(* ------------------------------------------------------------------------------------------ histories *)
Fixpoint steps_ok (s : store) (h : list step) : bool :=
  match h with
  | [] => true
  | st :: r => step_ok s st && steps_ok (spost st) r
  end.

(* each step paired with the store it started from *)
Fixpoint trace (s : store) (h : list step) : list (store * step) :=
  match h with
  | [] => []
  | st :: r => (s, st) :: trace (spost st) r
  end.

Fixpoint final (s : store) (h : list step) : store :=
  match h with
  | [] => s
  | st :: r => final (spost st) r
  end.

Definition arg_eqb (a b : arg) : bool :=
  match a, b with
  | AObj x, AObj y => String.eqb x y
  | ALit x, ALit y => snap_eqb x y
  | _, _ => false
  end.

Fixpoint args_eqb (l1 l2 : list arg) : bool :=
  match l1, l2 with
  | [], [] => true
  | a :: r1, b :: r2 => arg_eqb a b && args_eqb r1 r2
  | _, _ => false
  end.

Definition osnap_eqb (a b : option snap) : bool :=
  match a, b with Some x, Some y => snap_eqb x y | None, None => true | _, _ => false end.

Fixpoint osnaps_eqb (l1 l2 : list (option snap)) : bool :=
  match l1, l2 with
  | [], [] => true
  | a :: r1, b :: r2 => osnap_eqb a b && osnaps_eqb r1 r2
  | _, _ => false
  end.

(* the same pure operation on the same arguments in the same state *)
Definition same_question (p q : store * step) : bool :=
  let c := scall (snd p) in
  let d := scall (snd q) in
  is_pure (cop c) && String.eqb (cop c) (cop d) && args_eqb (cargs c) (cargs d)
  && osnaps_eqb (map (arg_snap (fst p)) (cargs c)) (map (arg_snap (fst q)) (cargs d)).

Definition same_answer (p q : store * step) : bool :=
  Bool.eqb (sraised (snd p)) (sraised (snd q)) && snap_eqb (sres (snd p)) (sres (snd q)).

Fixpoint results_consistent (t : list (store * step)) : bool :=
  match t with
  | [] => true
  | p :: r => forallb (fun q => implb (same_question p q) (same_answer p q)) r && results_consistent r
  end.

Definition history_ok (s0 : store) (h : list step) : bool :=
  names_fresh s0 && steps_ok s0 h && results_consistent (trace s0 h).

(* index of the first step that breaks the frame discipline *)
Fixpoint first_bad (s : store) (h : list step) : option nat :=
  match h with
  | [] => None
  | st :: r => if step_ok s st then option_map S (first_bad (spost st) r) else Some O
  end.
